(* C15 — validity of stored indices and of the start guards (used only by the
   progress theorem). *)
From Coq Require Import List Arith ZArith Bool Lia.
From Verif Require Import c15.Lts c15.Model c15.Proofs_Chan c15.Proofs_Loc c15.Proofs_List c15.Proofs_Safe
  c15.Proofs_Init c15.Proofs_Live c15.Proofs_Pend c15.Proofs_Idx c15.Proofs_Dead c15.Proofs_Prog.
Import ListNotations.

Definition wE (st : state) := map (fun m => (mnew m, mnode m, mcl m)) (emitters st).
Definition wS (st : state) := map (fun c => (snodes c, spc c, styps c)) (subs st).
Definition wM (st : state) := map (fun e => (eem e, epc e)) (emits st).

Definition VV (len : nat) (ve : list (nat * nat * cl_pc)) (vs : list (list nat * sub_pc * option (list nat)))
              (vm : list (nat * emit_pc)) : Prop :=
  (forall j a b c, nth_error ve j = Some (a, b, c) -> 2 <= a -> b < len) /\
  (forall s sn p t n, nth_error vs s = Some (sn, p, t) -> In n sn -> n < len) /\
  (forall k j p a b c, nth_error vm k = Some (j, p) -> p <> E0 -> nth_error ve j = Some (a, b, c) -> a = 4) /\
  (forall j a b c, nth_error ve j = Some (a, b, c) -> c <> C0 -> a = 4) /\
  (forall s sn p t, nth_error vs s = Some (sn, p, t) -> (exists i, p = SBus i) \/ (exists i n, p = SApp i n) -> t <> None).

Lemma VV_Valid : forall st, VV (length (nodes st)) (wE st) (wS st) (wM st) -> Valid st.
Proof.
  intros st [A [B [C [D F]]]]. unfold wE, wS, wM in *. repeat split.
  - intros j m Hj Hm. eapply (A j); [rewrite nth_error_map, Hj; reflexivity|exact Hm].
  - intros s c n Hs Hn. eapply (B s); [rewrite nth_error_map, Hs; reflexivity|exact Hn].
  - intros k e m Hk Hp Hm. eapply (C k (eem e) (epc e)); [rewrite nth_error_map, Hk; reflexivity|exact Hp|rewrite nth_error_map, Hm; reflexivity].
  - intros j m Hj Hc. eapply (D j); [rewrite nth_error_map, Hj; reflexivity|exact Hc].
  - intros s c Hs Hp. eapply (F s); [rewrite nth_error_map, Hs; reflexivity|exact Hp].
Qed.

Definition ValidV (st : state) : Prop := VV (length (nodes st)) (wE st) (wS st) (wM st).

Lemma VV_mono : forall l l' ve vs vm, l <= l' -> VV l ve vs vm -> VV l' ve vs vm.
Proof.
  intros l l' ve vs vm H [A [B [C [D F]]]]. repeat split; eauto.
  - intros. specialize (A _ _ _ _ H0 H1). lia.
  - intros. specialize (B _ _ _ _ _ H0 H1). lia.
Qed.

Definition vv_same (st st' : state) : Prop :=
  length (nodes st) <= length (nodes st') /\ wE st' = wE st /\ wS st' = wS st /\ wM st' = wM st.

Lemma ValidV_same : forall st st', ValidV st -> vv_same st st' -> ValidV st'.
Proof. intros st st' V [A [B [C D]]]. unfold ValidV. rewrite B, C, D. eapply VV_mono; eassumption. Qed.

Ltac vv_fin :=
  unfold vv_same, wE, wS, wM;
  cbn [nodes bmap subs emitters emits set_emitter set_emitters set_sub set_subs set_node set_nodes set_blk set_bmap set_wild set_emit set_emits set_panicked];
  repeat split; rewrite ?upd_length; try reflexivity; try lia;
  try (eapply (map_upd_same (fun c => (snodes c, spc c, styps c))); [eassumption|reflexivity]);
  try (eapply (map_upd_same (fun m => (mnew m, mnode m, mcl m))); [eassumption|reflexivity]).

Lemma wS_expect : forall l tg it i, map (fun c => (snodes c, spc c, styps c)) (expect_all l tg it i) = map (fun c => (snodes c, spc c, styps c)) l.
Proof. induction l as [|c l IH]; intros; cbn; [reflexivity|]. f_equal. apply IH. Qed.

Lemma send_vv : forall st s it st', send st s it = Some st' -> vv_same st st'.
Proof.
  intros st s it st' E. unfold send in E. destruct (nth_error (subs st) s) as [c|] eqn:Ec; [|discriminate].
  destruct (closed c); [inversion E; subst; vv_fin|]. destruct (room c); [|discriminate]. inversion E; subst. vv_fin.
Qed.

Lemma try_drop_vv : forall st ty st', try_drop st ty = Some st' -> vv_same st st'.
Proof. intros st ty st' E. unfold try_drop in E. brute E; inversion E; subst; vv_fin. Qed.

Lemma vv_trans : forall a b c, vv_same a b -> vv_same b c -> vv_same a c.
Proof. intros a b c [A1 [B1 [C1 D1]]] [A2 [B2 [C2 D2]]]. unfold vv_same. repeat split; try congruence. lia. Qed.

Lemma with_node_vv : forall st ty st1 n, with_node st ty = Some (st1, n) -> vv_same st st1 /\ n < length (nodes st1).
Proof.
  intros st ty st1 n E. unfold with_node in E. destruct (lookup st ty) as [sl m] eqn:El.
  destruct (nth_error (nodes sl) m) as [nd|] eqn:En; inversion E; subst.
  assert (L : vv_same st sl).
  { unfold lookup in El. destruct (nth_error (bmap st) ty) as [[k|]|]; inversion El; subst; vv_fin; rewrite app_length; lia. }
  split.
  - eapply vv_trans; [exact L|]. vv_fin.
  - cbn. rewrite upd_length. apply nth_error_Some. congruence.
Qed.

Lemma VV_em_upd : forall len ve vs vm j a b c a' b' c', VV len ve vs vm -> nth_error ve j = Some (a, b, c) ->
  (2 <= a' -> b' < len) -> (c' <> C0 -> a' = 4) -> (a = 4 -> a' = 4) -> VV len (upd ve j (a', b', c')) vs vm.
Proof.
  intros len ve vs vm j a b c a' b' c' [A [B [C [D F]]]] Hj H1 H2 H3. repeat split; eauto.
  - intros j0 x y z H. apply nth_error_upd_inv in H. destruct H as [[-> [X _]]|[N H]]; [inversion X; subst; auto|eauto].
  - intros k j0 p x y z Hk Hp H. apply nth_error_upd_inv in H. destruct H as [[-> [X _]]|[N H]]; [|eauto].
    inversion X; subst. apply H3. eapply C; eassumption.
  - intros j0 x y z H. apply nth_error_upd_inv in H. destruct H as [[-> [X _]]|[N H]]; [inversion X; subst; auto|eauto].
Qed.

Lemma VV_sub_upd : forall len ve vs vm s q sn' p' t', VV len ve vs vm -> nth_error vs s = Some q ->
  (forall n, In n sn' -> n < len) -> ((exists i, p' = SBus i) \/ (exists i n, p' = SApp i n) -> t' <> None) ->
  VV len ve (upd vs s (sn', p', t')) vm.
Proof.
  intros len ve vs vm s q sn' p' t' [A [B [C [D F]]]] Hs H1 H2. repeat split; eauto.
  - intros s0 sn p t n H. apply nth_error_upd_inv in H. destruct H as [[-> [X _]]|[N H]]; [inversion X; subst; auto|eauto].
  - intros s0 sn p t H. apply nth_error_upd_inv in H. destruct H as [[-> [X _]]|[N H]]; [inversion X; subst; auto|eauto].
Qed.

Lemma VV_emit_upd : forall len ve vs vm k j p p', VV len ve vs vm -> nth_error vm k = Some (j, p) ->
  (p' <> E0 -> forall a b c, nth_error ve j = Some (a, b, c) -> a = 4) -> VV len ve vs (upd vm k (j, p')).
Proof.
  intros len ve vs vm k j p p' [A [B [C [D F]]]] Hk H1. repeat split; eauto.
  intros k0 j0 p0 x y z H Hp He. apply nth_error_upd_inv in H. destruct H as [[-> [X _]]|[N H]]; [|eauto].
  inversion X; subst. eapply H1; eassumption.
Qed.

Lemma wM_upd : forall st k e', wM (set_emit st k e') = upd (wM st) k (eem e', epc e').
Proof. intros. unfold wM. cbn [emits set_emit set_emits]. rewrite map_upd. reflexivity. Qed.
Lemma wE_upd : forall st j m', wE (set_emitter st j m') = upd (wE st) j (mnew m', mnode m', mcl m').
Proof. intros. unfold wE. cbn [emitters set_emitter set_emitters]. rewrite map_upd. reflexivity. Qed.
Lemma wS_upd : forall st s c', wS (set_sub st s c') = upd (wS st) s (snodes c', spc c', styps c').
Proof. intros. unfold wS. cbn [subs set_sub set_subs]. rewrite map_upd. reflexivity. Qed.

Lemma ValidV_intro : forall st' len ve vs vm, length (nodes st') = len -> wE st' = ve -> wS st' = vs -> wM st' = vm ->
  VV len ve vs vm -> ValidV st'.
Proof. intros st' len ve vs vm <- <- <- <- H. exact H. Qed.

(* an Emit step: only the pc of Emit k changes (besides node/sub fields the views ignore) *)
Lemma emit_valid : forall st k l st', ValidV st -> step_emit st k = Some (l, st') -> ValidV st'.
Proof.
  intros st k l st' V E. unfold step_emit in E.
  destruct (nth_error (emits st) k) as [e|] eqn:Ek; [|discriminate].
  destruct (nth_error (emitters st) (eem e)) as [m|] eqn:Em; [|discriminate].
  assert (Vk : nth_error (wM st) k = Some (eem e, epc e)) by (unfold wM; rewrite nth_error_map, Ek; reflexivity).
  assert (Ve : nth_error (wE st) (eem e) = Some (mnew m, mnode m, mcl m)) by (unfold wE; rewrite nth_error_map, Em; reflexivity).
  assert (G : forall stx p, vv_same st stx -> (p <> E0 -> epc e <> E0 \/ mnew m = 4) -> ValidV (set_emit stx k (e_pc e p))).
  { intros stx p [L [A [B C]]] Hp. eapply ValidV_intro; [reflexivity|exact A|exact B|rewrite wM_upd, C; reflexivity|].
    cbn [eem epc e_pc nodes set_emit set_emits]. eapply VV_emit_upd; [eapply VV_mono; [exact L|exact V]|exact Vk|].
    intros Hp' a b c X. rewrite Ve in X. inversion X; subst. destruct (Hp Hp') as [Q|Q]; [|exact Q].
    destruct V as [_ [_ [C3 _]]]. eapply (C3 k (eem e) (epc e)); eassumption. }
  assert (R : vv_same st st) by (unfold vv_same; repeat split; lia).
  destruct (epc e) as [| | |n [|x r]|n|n|n [|x r]|c|] eqn:Ep; try discriminate.
  - destruct (Nat.eqb (mnew m) 4) eqn:E4; inversion E; subst. apply G; [exact R|]. intros _. right. apply Nat.eqb_eq, E4.
  - inversion E; subst. apply G; [exact R|]. intros _. left. discriminate.
  - destruct (nth_error (nodes st) (mnode m)) as [nd|] eqn:En; [|discriminate]. destruct (holder nd); [discriminate|].
    inversion E; subst. apply G; [|intros _; left; discriminate]. vv_fin. apply wS_expect.
  - destruct (nth_error (nodes st) n) as [nd|] eqn:En; [|discriminate]. inversion E; subst.
    apply G; [vv_fin|intros _; left; discriminate].
  - otau_inv E. apply G; [eapply send_vv; eassumption|intros _; left; discriminate].
  - inversion E; subst. apply G; [exact R|intros _; left; discriminate].
  - destruct (wpend (wild st)); [discriminate|]. inversion E; subst. apply G; [|intros _; left; discriminate]. vv_fin. apply wS_expect.
  - inversion E; subst. apply G; [vv_fin|intros _; left; discriminate].
  - otau_inv E. apply G; [eapply send_vv; eassumption|intros _; left; discriminate].
  - inversion E; subst. apply G; [exact R|intros _; left; discriminate].
Qed.

Lemma emnew_valid : forall st j l st', ValidV st -> step_emnew st j = Some (l, st') -> ValidV st'.
Proof.
  intros st j l st' V E. unfold step_emnew in E. destruct (nth_error (emitters st) j) as [m|] eqn:Ej; [|discriminate].
  assert (Vj : nth_error (wE st) j = Some (mnew m, mnode m, mcl m)) by (unfold wE; rewrite nth_error_map, Ej; reflexivity).
  assert (D0 : mnew m <> 4 -> mcl m = C0).
  { intros N. destruct (mcl m) eqn:Ec; try reflexivity; exfalso; apply N; destruct V as [_ [_ [_ [D _]]]];
      apply (D j _ _ _ Vj); discriminate. }
  destruct (mnew m) as [|[|[|[|?]]]] eqn:Em; try discriminate.
  - inversion E; subst. eapply ValidV_intro; [reflexivity|apply wE_upd|reflexivity|reflexivity|]. cbn [mnew mnode mcl m_new].
    refine (VV_em_upd _ _ _ _ _ _ _ _ _ _ _ V Vj _ _ _); [lia|rewrite (D0 ltac:(lia)); congruence|lia].
  - destruct (with_node st (mty m)) as [[st1 n]|] eqn:Ew; [|discriminate]. inversion E; subst.
    destruct (with_node_vv _ _ _ _ Ew) as [[L [A [B C]]] Hn].
    eapply ValidV_intro; [reflexivity|rewrite wE_upd, A; reflexivity|exact B|exact C|]. cbn [mnew mnode mcl m_new nodes set_emitter set_emitters].
    refine (VV_em_upd _ _ _ _ _ _ _ _ _ _ _ (VV_mono _ _ _ _ _ L V) Vj _ _ _); [intros _; exact Hn|rewrite (D0 ltac:(lia)); congruence|lia].
  - destruct (nth_error (nodes st) (mnode m)) as [nd|] eqn:En; [|discriminate]. destruct (holder nd); [discriminate|].
    inversion E; subst. eapply ValidV_intro; [reflexivity|rewrite wE_upd; reflexivity|reflexivity|reflexivity|].
    cbn [mnew mnode mcl m_new nodes set_emitter set_emitters set_node set_nodes]. rewrite upd_length.
    refine (VV_em_upd _ _ _ _ _ _ _ _ _ _ _ V Vj _ _ _); [intros _; apply nth_error_Some; congruence|rewrite (D0 ltac:(lia)); congruence|lia].
  - inversion E; subst. eapply ValidV_intro; [reflexivity|apply wE_upd|reflexivity|reflexivity|]. cbn [mnew mnode mcl m_new].
    refine (VV_em_upd _ _ _ _ _ _ _ _ _ _ _ V Vj _ _ _); [|intros _; reflexivity|intros _; reflexivity].
    intros _. destruct V as [A _]. apply (A j _ _ _ Vj). lia.
Qed.

Lemma emclose_valid : forall st j l st', ValidV st -> step_emclose st j = Some (l, st') -> ValidV st'.
Proof.
  intros st j l st' V E. unfold step_emclose in E. destruct (nth_error (emitters st) j) as [m|] eqn:Ej; [|discriminate].
  assert (Vj : nth_error (wE st) j = Some (mnew m, mnode m, mcl m)) by (unfold wE; rewrite nth_error_map, Ej; reflexivity).
  assert (G : forall stx c p, vv_same st stx -> mnew m = 4 -> ValidV (set_emitter stx j (m_cl m c p))).
  { intros stx c p [L [A [B C]]] H4. eapply ValidV_intro; [reflexivity|rewrite wE_upd, A; reflexivity|exact B|exact C|].
    cbn [mnew mnode mcl m_cl nodes set_emitter set_emitters].
    refine (VV_em_upd _ _ _ _ _ _ _ _ _ _ _ (VV_mono _ _ _ _ _ L V) Vj _ _ _); [|intros _; exact H4|intros _; exact H4].
    intros _. destruct V as [A1 _]. specialize (A1 j _ _ _ Vj ltac:(lia)). lia. }
  assert (R : vv_same st st) by (unfold vv_same; repeat split; lia).
  assert (D4 : mcl m <> C0 -> mnew m = 4) by (intros N; destruct V as [_ [_ [_ [D _]]]]; apply (D j _ _ _ Vj); exact N).
  destruct (mcl m) eqn:Ec; try discriminate.
  - destruct (Nat.eqb (mnew m) 4) eqn:E4; inversion E; subst. apply G; [exact R|apply Nat.eqb_eq, E4].
  - destruct (mclosed m); inversion E; subst; (apply G; [exact R|apply D4; discriminate]).
  - destruct (nth_error (nodes st) (mnode m)) as [nd|] eqn:En; inversion E; subst. apply G; [vv_fin|apply D4; discriminate].
  - inversion E; subst. apply G; [exact R|apply D4; discriminate].
  - otau_inv E. apply G; [eapply try_drop_vv; eassumption|apply D4; discriminate].
  - inversion E; subst. apply G; [exact R|apply D4; discriminate].
Qed.

Lemma sub_valid : forall st s l st', ValidV st -> step_sub st s = Some (l, st') -> ValidV st'.
Proof.
  intros st s l st' V E. unfold step_sub in E. destruct (nth_error (subs st) s) as [c|] eqn:Ec; [|discriminate].
  assert (Vs : nth_error (wS st) s = Some (snodes c, spc c, styps c)) by (unfold wS; rewrite nth_error_map, Ec; reflexivity).
  assert (G : forall stx c', length (nodes st) <= length (nodes stx) -> wE stx = wE st -> subs stx = subs st -> wM stx = wM st ->
            (forall n, In n (snodes c') -> n < length (nodes stx)) ->
            ((exists i, spc c' = SBus i) \/ (exists i n, spc c' = SApp i n) -> styps c' <> None) -> ValidV (set_sub stx s c')).
  { intros stx c' L A B C H1 H2. eapply ValidV_intro; [reflexivity|exact A|rewrite wS_upd; unfold wS; rewrite B; reflexivity|exact C|].
    cbn [nodes set_sub set_subs]. eapply VV_sub_upd; [eapply VV_mono; [exact L|exact V]|exact Vs|exact H1|exact H2]. }
  assert (Sn : forall n, In n (snodes c) -> n < length (nodes st)) by (intros n Hn; destruct V as [_ [B _]]; eapply (B s); eassumption).
  destruct (spc c) eqn:Ep.
  - destruct (styps c) as [tys|] eqn:Et; inversion E; subst; apply G; auto; cbn; rewrite ?Et.
    + intros _. discriminate.
    + intros [[i X]|[i [n X]]]; discriminate.
  - destruct (styps c) as [tys|] eqn:Et; [|discriminate]. destruct (nth_error tys i) as [ty|]; [|discriminate].
    destruct (with_node st ty) as [[st1 n]|] eqn:Ew; [|discriminate]. inversion E; subst.
    destruct (with_node_vv _ _ _ _ Ew) as [[L [A [B C]]] Hn].
    apply G; auto; [apply (with_node_subs _ _ _ _ Ew)|intros x Hx; specialize (Sn x Hx); lia|cbn; rewrite Et; intros _; discriminate].
  - destruct (styps c) as [tys|] eqn:Et; [|discriminate].
    destruct (nth_error (nodes st) n) as [nd|] eqn:En; [|discriminate]. destruct (holder nd); [discriminate|].
    inversion E; subst. clear E.
    assert (Hn : n < length (nodes st)) by (apply nth_error_Some; congruence).
    apply (G (set_node st n _)); cbn [nodes set_node set_nodes]; rewrite ?upd_length; auto.
    + destruct (keep nd); [destruct (nlast nd)|]; cbn; intros x Hx; apply in_app_or in Hx; destruct Hx as [Hx|[<-|[]]]; auto.
    + destruct (keep nd); [destruct (nlast nd)|]; cbn; rewrite Et; intros _; discriminate.
  - inversion E; subst. apply G; auto. cbn. intros [[i X]|[i [n X]]]; discriminate.
  - destruct (wpend (wild st)); [discriminate|]. inversion E; subst. apply G; auto. cbn. intros [[i X]|[i [n X]]]; discriminate.
  - destruct (Nat.eqb (rdrs (wild st)) 0); [|discriminate]. inversion E; subst. apply G; auto. cbn. intros [[i X]|[i [n X]]]; discriminate.
  - inversion E; subst. apply G; auto. cbn. intros [[i X]|[i [n X]]]; discriminate.
  - destruct (styps c); discriminate.
Qed.

Lemma replay_vv : forall st s i l st', step_replay st s i = Some (l, st') -> vv_same st st'.
Proof.
  intros st s i l st' E. unfold step_replay in E.
  destruct (nth_error (subs st) s) as [c|] eqn:Ec; [|discriminate].
  destruct (nth_error (rpend c) i) as [[|]|]; try discriminate.
  destruct (nth_error (snodes c) i) as [n|]; [|discriminate].
  destruct (nth_error (nodes st) n) as [nd|] eqn:En; [|discriminate].
  destruct (keep nd); [destruct (nlast nd) as [lv|]|]; try solve [inversion E; subst; vv_fin].
  otau_inv E. eapply vv_trans; [eapply send_vv; eassumption|].
  destruct (nth_error (subs x) s) as [c'|] eqn:Ec'; [vv_fin|unfold vv_same; repeat split; lia].
Qed.

Lemma close_vv : forall st s l st', step_close st s = Some (l, st') -> vv_same st st'.
Proof.
  intros st s l st' E. unfold step_close in E. destruct (nth_error (subs st) s) as [c|] eqn:Ec; [|discriminate].
  destruct (cpc c); try discriminate.
  - destruct (spc c); try discriminate. inversion E; subst. vv_fin.
  - destruct (nth_error (snodes c) i) as [n|]; [|discriminate]. destruct (nth_error (nodes st) n) as [nd|] eqn:En; [|discriminate].
    destruct (holder nd); [discriminate|]. inversion E; subst. vv_fin.
  - inversion E; subst. vv_fin.
  - destruct (nth_error (snodes c) i) as [n|]; [|discriminate]. destruct (nth_error (nodes st) n) as [nd|]; [|discriminate].
    otau_inv E. eapply vv_trans; [eapply try_drop_vv; eassumption|].
    assert (Ec' : nth_error (subs x) s = Some c) by (rewrite (try_drop_subs _ _ _ E); exact Ec). vv_fin.
  - inversion E; subst. vv_fin.
  - inversion E; subst. vv_fin.
  - destruct (wpend (wild st)); [discriminate|]. inversion E; subst. vv_fin.
  - destruct (Nat.eqb (rdrs (wild st)) 0); [|discriminate]. inversion E; subst. vv_fin.
  - inversion E; subst. vv_fin.
  - destruct (Nat.eqb (drain c) 3); [|discriminate]. inversion E; subst. vv_fin.
  - inversion E; subst. vv_fin.
Qed.

Lemma step_valid : forall st t l st', ValidV st -> step st t = Some (l, st') -> ValidV st'.
Proof.
  intros st t l st' V E. destruct t; cbn in E.
  - eapply emnew_valid; eassumption.
  - eapply emclose_valid; eassumption.
  - eapply emit_valid; eassumption.
  - eapply sub_valid; eassumption.
  - eapply ValidV_same; [exact V|eapply replay_vv, E].
  - eapply ValidV_same; [exact V|eapply close_vv, E].
  - eapply ValidV_same; [exact V|]. unfold step_drain in E. destruct (nth_error (subs st) s) as [c|] eqn:Ec; [|discriminate]. brute E; inversion E; subst; vv_fin.
  - eapply ValidV_same; [exact V|]. unfold step_req in E. destruct (nth_error (subs st) s) as [c|] eqn:Ec; [|discriminate]. inversion E; subst; vv_fin.
  - eapply ValidV_same; [exact V|]. unfold step_recv in E. destruct (nth_error (subs st) s) as [c|] eqn:Ec; [|discriminate]. brute E; inversion E; subst; vv_fin.
  - eapply ValidV_same; [exact V|]. unfold step_read in E. destruct (nth_error (subs st) s) as [c|] eqn:Ec; [|discriminate]. brute E; inversion E; subst; vv_fin.
Qed.

Lemma initial_valid : forall st, fresh_init st -> ValidV st.
Proof.
  intros st [[Hn [_ [_ [_ [Hs Hm]]]]] [He _]]. unfold ValidV, wE, wS, wM. repeat split.
  - intros j a b c H Ha. rewrite nth_error_map in H. destruct (nth_error (emitters st) j) as [m|] eqn:Ej; [|discriminate].
    inversion H; subst. rewrite Forall_forall in He. destruct (He m (nth_error_In _ _ Ej)) as [X _]. lia.
  - intros s sn p t n H Hin. rewrite nth_error_map in H. destruct (nth_error (subs st) s) as [c|] eqn:Ec; [|discriminate].
    inversion H; subst. rewrite Forall_forall in Hs. rewrite (Hs c (nth_error_In _ _ Ec)) in Hin. destruct Hin.
  - intros k j p a b c H Hp. rewrite nth_error_map in H. destruct (nth_error (emits st) k) as [e|] eqn:Ek; [|discriminate].
    inversion H; subst. rewrite Forall_forall in Hm. exfalso. apply Hp, Hm. eapply nth_error_In, Ek.
  - intros j a b c H Hc. rewrite nth_error_map in H. destruct (nth_error (emitters st) j) as [m|] eqn:Ej; [|discriminate].
    inversion H; subst. rewrite Forall_forall in He. destruct (He m (nth_error_In _ _ Ej)) as [_ X]. congruence.
  - intros s sn p t H Hp. rewrite nth_error_map in H. destruct (nth_error (subs st) s) as [c|] eqn:Ec; [|discriminate].
    inversion H; subst. rewrite Forall_forall in Hs. rewrite (Hs c (nth_error_In _ _ Ec)) in Hp. cbn in Hp.
    destruct Hp as [[i X]|[i [n X]]]; discriminate.
Qed.

Lemma valid_run : forall st sched, fresh_init st -> Valid (run step st sched).
Proof.
  intros st sched H. apply VV_Valid. apply (invariant_run _ _ _ step ValidV); [|apply initial_valid, H].
  intros a t l b Va E. eapply step_valid; eassumption.
Qed.

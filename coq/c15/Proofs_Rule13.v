(* C15 — the monitor's no-deadlock clause (rule 13) accepts every trace of the
   model: in every reachable quiescent state (the only states in which the
   environment issues a stimulus), no operation is blocked without a stalled,
   unread, unclosed subscription of a matching type to blame. *)
From Coq Require Import List Arith ZArith Bool Lia.
From Verif Require Import c15.Lts c15.Model c15.Spec c15.Proofs c15.Proofs_Chan c15.Proofs_Loc c15.Proofs_List c15.Proofs_Safe
  c15.Proofs_Init c15.Proofs_Live c15.Proofs_Pend c15.Proofs_Idx c15.Proofs_Dead c15.Proofs_Prog c15.Proofs_Valid c15.Proofs_WildOK
  c15.Proofs_Once c15.Proofs_First c15.Proofs_Blk c15.Proofs_Obs c15.Proofs_Loc3 c15.Proofs_WSI c15.Proofs_TY c15.Proofs_Rej.
Import ListNotations.

Definition wf_init (st : state) : Prop := fresh_init st /\ nodup_types st.

Lemma reach_all : forall st sched, wf_init st ->
  let s1 := run step st sched in
  Good s1 /\ Forall loc3 (subs s1) /\ WSV s1 /\ TYV s1.
Proof.
  intros st sched [H ND] s1. split; [apply good_run, H|].
  assert (F : (Safe s1 /\ Pend s1 /\ ValidV s1 /\ WildV s1) /\ Forall loc3 (subs s1) /\ WSV s1 /\ TYV s1).
  { unfold s1. apply (invariant_run _ _ _ step (fun s => (Safe s /\ Pend s /\ ValidV s /\ WildV s) /\ Forall loc3 (subs s) /\ WSV s /\ TYV s)).
    - intros a t l b [[Sa [Pa [Va Wa]]] [La [WSa Ta]]] E.
      split; [split; [eapply step_safe; eassumption|split; [eapply step_pend; eassumption|split; [eapply step_valid; eassumption|eapply step_wildv; eassumption]]]|].
      split; [eapply step_l3; eassumption|]. split.
      + eapply step_wsv; [apply Sa|apply Sa|exact Wa|exact WSa|exact E].
      + eapply step_ty; [apply Sa|exact Pa|apply VV_Valid, Va|exact Ta|exact E].
    - destruct H as [Hi [He Hb]]. assert (He0 : Forall (fun m => mnew m = 0) (emitters st)) by (eapply Forall_impl; [|exact He]; intros m [A _]; exact A).
      split; [split; [apply initial_safe, Hi|split; [apply initial_pend; assumption|split; [apply initial_valid; split; [exact Hi|split; assumption]|apply initial_wildv, Hi]]]|].
      split; [|split; [apply initial_wsv, Hi|apply initial_ty; [split; [exact Hi|split; assumption]|exact ND]]].
      destruct Hi as [_ [_ [_ [_ [Hs _]]]]]. apply Forall_forall. intros c Hc. rewrite Forall_forall in Hs. rewrite (Hs c Hc).
      unfold loc3. cbn. split; intros; discriminate. }
  destruct F as [_ [A [B C]]]. auto.
Qed.

Lemma tstat_1 : forall tr t, o_started tr t && negb (o_returned tr t) = true -> tstat tr t = 1.
Proof. intros tr t H. apply andb_true_iff in H. destruct H as [A B]. unfold tstat. apply negb_true_iff in B. rewrite B, A. reflexivity. Qed.

Lemma root_from_obs : forall st tr x c, Obs st tr -> RejI st tr -> nth_error (subs st) x = Some c -> unread_unclosed c -> styps c <> Some [] -> o_root tr x = true.
Proof.
  intros st tr x c O RJ Ec [Hs [Hk [Hw Hh]]] NR. unfold o_root. rewrite (not_rejected st tr x c RJ Ec NR). cbn [negb]. rewrite andb_true_r.
  pose proof (obS _ _ O x (spc c)) as S1. pose proof (obC _ _ O x (cpc c)) as C1. pose proof (obW _ _ O x (want c + length (hand c))) as W1.
  unfold xS, xC, xW in *. rewrite nth_error_map, Ec in S1, C1, W1. specialize (S1 eq_refl). specialize (C1 eq_refl). specialize (W1 eq_refl).
  rewrite Hk in C1. cbn in C1. rewrite Hw, Hh in W1. cbn in W1.
  unfold tstat in S1, C1.
  assert (A : o_started tr (TSub x) || o_returned tr (TSub x) = true).
  { destruct (o_returned tr (TSub x)); [apply orb_true_r|]. destruct (o_started tr (TSub x)); [reflexivity|]. destruct (spc c); try discriminate. contradiction. }
  assert (B : o_started tr (TClose x) = false).
  { destruct (o_returned tr (TClose x)); [discriminate|]. destruct (o_started tr (TClose x)); [discriminate|reflexivity]. }
  rewrite A, B. cbn. apply Nat.leb_le. lia.
Qed.

Lemma ctx_reach : forall st sched, wf_init st -> quiescent step thrs stim (run step st sched) = true ->
  Ctx (run step st sched) (trace step st sched).
Proof.
  intros st sched H Q. destruct (reach_all st sched H) as [G [L3 [WS TYv]]].
  pose proof (obs_run st sched (proj1 H)) as O. constructor.
  - exact G.
  - intros s c Ec T Cl. exact (proj1 (Forall_nth_error _ _ _ _ L3 Ec) T Cl).
  - intros s c Ec K. exact (proj2 (Forall_nth_error _ _ _ _ L3 Ec) K).
  - apply WSV_WSI, WS.
  - apply TYV_TY, TYv.
  - apply quiescent_no_progress, Q.
  - intros x c Ec U NR. eapply root_from_obs; try eassumption. apply rej_run.
Qed.

Lemma in_o_ops : forall o t, In t (o_ops o) ->
  (exists j, (t = TEmNew j \/ t = TEmClose j) /\ j < length (o_em o)) \/
  (exists k, t = TEmit k /\ k < length (o_emit o)) \/
  (exists s, (t = TSub s \/ t = TClose s) /\ s < length (o_sub o)).
Proof.
  intros o t H. unfold o_ops in H. apply in_app_or in H. destruct H as [H|H].
  - left. apply in_flat_map in H. destruct H as [j [Hj [<-|[<-|[]]]]]; exists j; apply in_seq in Hj; split; auto; lia.
  - apply in_app_or in H. destruct H as [H|H].
    + right. left. apply in_map_iff in H. destruct H as [k [<- Hk]]. apply in_seq in Hk. exists k. split; [reflexivity|lia].
    + right. right. apply in_flat_map in H. destruct H as [s [Hs [<-|[<-|[]]]]]; exists s; unfold o_subs in Hs; apply in_seq in Hs; split; auto; lia.
Qed.

Lemma find_none_intro : forall {A} (f : A -> bool) l, (forall x, In x l -> f x = false) -> find f l = None.
Proof. intros A f l. induction l as [|a l IH]; intros H; cbn; [reflexivity|]. rewrite (H a (or_introl eq_refl)). apply IH. intros x Hx. apply H. right. exact Hx. Qed.

(* THE rule-13 theorem *)
Lemma rule13_accepts_model_l : forall st sched, wf_init st ->
  quiescent step thrs stim (run step st sched) = true ->
  blocked_badly (ocfg_of_state (run step st sched)) (trace step st sched) = None.
Proof.
  intros st0 sched H Q. pose proof (ctx_reach st0 sched H Q) as C. pose proof (obs_run st0 sched (proj1 H)) as O.
  set (st := run step st0 sched) in *. set (tr := trace step st0 sched) in *.
  unfold blocked_badly. apply find_none_intro. intros t Hin.
  destruct (o_started tr t && negb (o_returned tr t)) eqn:Hb; [|reflexivity]. cbn. apply negb_false_iff.
  pose proof (tstat_1 tr t Hb) as T1.
  destruct (in_o_ops _ t Hin) as [[j [Ht Hj]]|[[k [-> Hk]]|[s [Ht Hs]]]].
  - unfold ocfg_of_state in Hj. cbn in Hj. rewrite map_length in Hj.
    destruct (nth_error (emitters st) j) as [m|] eqn:Ej; [|apply nth_error_None in Ej; lia].
    destruct (obE _ _ O j (mnew m) (mnode m) (mcl m)) as [N1 N2]; [unfold wE; rewrite nth_error_map, Ej; reflexivity|].
    destruct (legit_emitter st tr j m C Ej) as [L1 L2]. destruct Ht as [-> | ->].
    + rewrite T1 in N1. destruct (mnew m) as [|[|[|[|q]]]]; try discriminate; exact L1.
    + exfalso. rewrite T1 in N2. destruct (mcl m); try discriminate; exact L2.
  - unfold ocfg_of_state in Hk. cbn in Hk. rewrite map_length in Hk.
    destruct (nth_error (emits st) k) as [e|] eqn:Ek; [|apply nth_error_None in Ek; lia].
    pose proof (obM _ _ O k (epc e)) as N. unfold xM in N. rewrite nth_error_map, Ek in N. specialize (N eq_refl). rewrite T1 in N.
    eapply legit_emit; [exact C|exact Ek|]. unfold emit_in_flight. destruct (epc e); try discriminate; reflexivity.
  - unfold ocfg_of_state in Hs. cbn in Hs. rewrite map_length in Hs.
    destruct (nth_error (subs st) s) as [c|] eqn:Ec; [|apply nth_error_None in Ec; lia]. destruct Ht as [-> | ->].
    + pose proof (obS _ _ O s (spc c)) as N. unfold xS in N. rewrite nth_error_map, Ec in N. specialize (N eq_refl). rewrite T1 in N.
      eapply legit_subscribe; [exact C|exact Ec|]. destruct (spc c); try discriminate; exact Logic.I.
    + pose proof (obC _ _ O s (cpc c)) as N. unfold xC in N. rewrite nth_error_map, Ec in N. specialize (N eq_refl). rewrite T1 in N.
      eapply legit_close; [exact C|exact Ec|]. destruct (cpc c); try discriminate; exact Logic.I.
Qed.

(* ---- the configuration the monitor is given never changes ------------------------ *)
Ltac oc_fin :=
  unfold ocfg_of_state;
  cbn [subs emits emitters set_emitter set_emitters set_sub set_subs set_node set_nodes set_blk set_bmap set_wild set_emit set_emits set_panicked];
  f_equal; try reflexivity;
  try (eapply (map_upd_same mty); [eassumption|reflexivity]);
  try (eapply (map_upd_same styps); [eassumption|reflexivity]);
  try (eapply (map_upd_same eem); [eassumption|reflexivity]).

Lemma styps_expect : forall l tg it i, map styps (expect_all l tg it i) = map styps l.
Proof. induction l as [|c l IH]; intros; cbn; [reflexivity|]. f_equal. apply IH. Qed.

Lemma send_oc : forall st s it st', send st s it = Some st' -> ocfg_of_state st' = ocfg_of_state st.
Proof.
  intros st s it st' E. unfold send in E. destruct (nth_error (subs st) s) as [c|] eqn:Ec; [|discriminate].
  destruct (closed c); [inversion E; subst; oc_fin|]. destruct (room c); [|discriminate]. inversion E; subst. oc_fin.
Qed.
Lemma try_drop_oc : forall st ty st', try_drop st ty = Some st' -> ocfg_of_state st' = ocfg_of_state st.
Proof. intros st ty st' E. unfold try_drop in E. brute E; inversion E; subst; oc_fin. Qed.
Lemma with_node_oc : forall st ty st1 n, with_node st ty = Some (st1, n) -> ocfg_of_state st1 = ocfg_of_state st.
Proof.
  intros st ty st1 n E. unfold with_node in E. destruct (lookup st ty) as [sl m] eqn:El.
  destruct (nth_error (nodes sl) m); inversion E; subst.
  unfold lookup in El. destruct (nth_error (bmap st) ty) as [[k|]|]; inversion El; subst; oc_fin.
Qed.

Lemma step_oc : forall st t l st', step st t = Some (l, st') -> ocfg_of_state st' = ocfg_of_state st.
Proof.
  intros st t l st' E. destruct t; cbn [step] in E.
  - unfold step_emnew in E. destruct (nth_error (emitters st) j) as [m|] eqn:Ej; [|discriminate].
    destruct (mnew m) as [|[|[|[|?]]]]; try discriminate; try solve [brute E; inversion E; subst; oc_fin].
    destruct (with_node st (mty m)) as [[st1 n]|] eqn:Ew; [|discriminate]. inversion E; subst.
    rewrite <- (with_node_oc _ _ _ _ Ew). assert (Ej' : nth_error (emitters st1) j = Some m) by (rewrite (proj2 (with_node_emits _ _ _ _ Ew)); exact Ej). oc_fin.
  - unfold step_emclose in E. destruct (nth_error (emitters st) j) as [m|] eqn:Ej; [|discriminate].
    destruct (mcl m); try discriminate; try solve [brute E; inversion E; subst; oc_fin].
    otau_inv E. rewrite <- (try_drop_oc _ _ _ E). assert (Ej' : nth_error (emitters x) j = Some m) by (rewrite (proj2 (try_drop_emits _ _ _ E)); exact Ej). oc_fin.
  - unfold step_emit in E. destruct (nth_error (emits st) k) as [e|] eqn:Ek; [|discriminate].
    destruct (nth_error (emitters st) (eem e)) as [m|]; [|discriminate].
    destruct (epc e) as [| | |n [|x r]|n|n|n [|x r]|c|]; try discriminate;
      try solve [brute E; inversion E; subst; oc_fin; apply styps_expect].
    + otau_inv E. rewrite <- (send_oc _ _ _ _ E). assert (Ek' : nth_error (emits x0) k = Some e) by (rewrite (proj1 (send_emits _ _ _ _ E)); exact Ek). oc_fin.
    + otau_inv E. rewrite <- (send_oc _ _ _ _ E). assert (Ek' : nth_error (emits x0) k = Some e) by (rewrite (proj1 (send_emits _ _ _ _ E)); exact Ek). oc_fin.
  - unfold step_sub in E. destruct (nth_error (subs st) s) as [c|] eqn:Ec; [|discriminate].
    destruct (spc c); try solve [brute E; inversion E; subst; oc_fin].
    destruct (styps c) as [tys|] eqn:Et; [|discriminate]. destruct (nth_error tys i) as [ty|]; [|discriminate].
    destruct (with_node st ty) as [[st1 n]|] eqn:Ew; [|discriminate]. inversion E; subst.
    rewrite <- (with_node_oc _ _ _ _ Ew). assert (Ec' : nth_error (subs st1) s = Some c) by (rewrite (with_node_subs _ _ _ _ Ew); exact Ec). oc_fin.
  - unfold step_replay in E. destruct (nth_error (subs st) s) as [c|] eqn:Ec; [|discriminate].
    destruct (nth_error (rpend c) i) as [[|]|]; try discriminate.
    destruct (nth_error (snodes c) i) as [n|]; [|discriminate]. destruct (nth_error (nodes st) n) as [nd|]; [|discriminate].
    destruct (keep nd); [destruct (nlast nd) as [lv|]|]; try solve [inversion E; subst; oc_fin].
    otau_inv E. rewrite <- (send_oc _ _ _ _ E). destruct (nth_error (subs x) s) as [c'|] eqn:Ec'; [oc_fin|reflexivity].
  - unfold step_close in E. destruct (nth_error (subs st) s) as [c|] eqn:Ec; [|discriminate].
    destruct (cpc c); try discriminate; try solve [brute E; inversion E; subst; oc_fin].
    destruct (nth_error (snodes c) i) as [n|]; [|discriminate]. destruct (nth_error (nodes st) n) as [nd|]; [|discriminate].
    otau_inv E. rewrite <- (try_drop_oc _ _ _ E). assert (Ec' : nth_error (subs x) s = Some c) by (rewrite (try_drop_subs _ _ _ E); exact Ec). oc_fin.
  - unfold step_drain in E. destruct (nth_error (subs st) s) as [c|] eqn:Ec; [|discriminate]. brute E; inversion E; subst; oc_fin.
  - unfold step_req in E. destruct (nth_error (subs st) s) as [c|] eqn:Ec; [|discriminate]. inversion E; subst; oc_fin.
  - unfold step_recv in E. destruct (nth_error (subs st) s) as [c|] eqn:Ec; [|discriminate]. brute E; inversion E; subst; oc_fin.
  - unfold step_read in E. destruct (nth_error (subs st) s) as [c|] eqn:Ec; [|discriminate]. brute E; inversion E; subst; oc_fin.
Qed.

Lemma run_oc : forall st sched, ocfg_of_state (run step st sched) = ocfg_of_state st.
Proof.
  intros st sched. apply (relation_run _ _ _ step (fun a b => ocfg_of_state b = ocfg_of_state a)); [reflexivity|congruence|].
  intros s t l s' E. eapply step_oc, E.
Qed.

(* rule 13 with the initial configuration, as the monitor evaluates it *)
Lemma rule13_accepts_model_init_l : forall st sched, wf_init st ->
  quiescent step thrs stim (run step st sched) = true ->
  blocked_badly (ocfg_of_state st) (trace step st sched) = None.
Proof. intros st sched H Q. rewrite <- (run_oc st sched). apply rule13_accepts_model_l; assumption. Qed.

Lemma init_state_wf_init : forall nt sl ml el,
  Forall (fun p => match fst p with Some tys => NoDup tys | None => True end) sl ->
  wf_init (init_state nt (map (fun p => new_sub (fst p) (snd p)) sl) (map (fun p => new_emitter (fst p) (snd p)) ml)
                      (map (fun p => new_emit (fst p) (snd p)) el)).
Proof.
  intros nt sl ml el H. split; [apply init_state_fresh_init|]. intros c tys Hc Ht. cbn in Hc. apply in_map_iff in Hc.
  destruct Hc as [p [<- Hp]]. rewrite Forall_forall in H. specialize (H p Hp). cbn in Ht. rewrite Ht in H. exact H.
Qed.

(* ---- the rejected Subscribe call on reachable states ---------------------------------------
   Its channel is listed nowhere - in no node's sinks, not among the wildcard sinks - so no Emit
   and no replay goroutine ever sends to it, for every schedule. *)
Lemma rejected_never_listed : forall st sched x c, wf_init st ->
  nth_error (subs (run step st sched)) x = Some c -> rejected_sub c ->
  (forall n nd, nth_error (nodes (run step st sched)) n = Some nd -> ~ In x (sinks nd)) /\
  ~ In x (wsinks (wild (run step st sched))).
Proof.
  intros st sched x c H Ec R. destruct (reach_all st sched H) as [G [_ [_ TYv]]]. unfold rejected_sub in R. split.
  - intros n nd En Hin. destruct (sink_typed _ n nd x (gL _ G) (gI _ G) (TYV_TY _ TYv) En Hin) as [c' [tys [Ec' [Et Hty]]]].
    rewrite Ec in Ec'. inversion Ec'; subst c'. rewrite R in Et. inversion Et; subst tys. destruct Hty.
  - intros Hin. destruct (iW1 _ (gI _ G) x Hin) as [c' [Ec' Hw]]. rewrite Ec in Ec'. inversion Ec'; subst c'. congruence.
Qed.

(* the sentence "an Emit stalls only on a subscription that is somebody's": at every quiescent point of
   every run, an Emit that has started and not returned has a root to blame - a subscription of its type
   (or a wildcard one) whose Subscribe call has begun and did NOT return an error, whose Close has not
   started and whose consumer is not receiving (o_legit / o_root, the monitor's own functions) *)
Lemma stalled_emit_has_live_root : forall st sched k, wf_init st ->
  quiescent step thrs stim (run step st sched) = true -> In (TEmit k) (o_ops (ocfg_of_state st)) ->
  o_started (trace step st sched) (TEmit k) = true -> o_returned (trace step st sched) (TEmit k) = false ->
  o_legit (ocfg_of_state st) (trace step st sched) (TEmit k) = true.
Proof.
  intros st sched k H Q Hin S R. pose proof (rule13_accepts_model_init_l st sched H Q) as B. unfold blocked_badly in B.
  pose proof (find_none _ _ B (TEmit k) Hin) as N. cbn beta in N. rewrite S, R in N. cbn [negb andb] in N.
  apply negb_false_iff in N. exact N.
Qed.

(* C15 — the program-counter moves of an Emit call, and what they mean for "has passed the
   lock point". *)
From Coq Require Import List Arith ZArith Bool Lia.
From Verif Require Import lib.Wire c15.Lts c15.Model c15.Spec c15.Proofs c15.Proofs_Chan c15.Proofs_Loc c15.Proofs_List c15.Proofs_Safe
  c15.Proofs_Init c15.Proofs_Live c15.Proofs_Pend c15.Proofs_Obs c15.Proofs_Reads c15.Proofs_Mon c15.Proofs_Tr c15.Proofs_Cpl c15.Proofs_Prom.
Import ListNotations.
Local Open Scope Z_scope.

Inductive pc_move (st : state) (k : nat) (e : emit) (m : emitter) : emit_pc -> emit_pc -> option label -> Prop :=
| pm_start : pc_move st k e m E0 EChk (Some (LStart (TEmit k)))
| pm_closed : mclosed m = true -> pc_move st k e m EChk (ERet 1) None
| pm_open : mclosed m = false -> pc_move st k e m EChk ELock None
| pm_lock nd : nth_error (nodes st) (mnode m) = Some nd -> holder nd = None -> pc_move st k e m ELock (ESend (mnode m) (sinks nd)) None
| pm_send n x r : pc_move st k e m (ESend n (x :: r)) (ESend n r) None
| pm_unlock n : pc_move st k e m (ESend n []) (EWChk n) None
| pm_skip n : nsinks (wild st) = 0%nat -> pc_move st k e m (EWChk n) (ERet 0) None
| pm_wild n : nsinks (wild st) <> 0%nat -> pc_move st k e m (EWChk n) (ERLock n) None
| pm_rlock n : pc_move st k e m (ERLock n) (EWSend n (wsinks (wild st))) None
| pm_wsend n x r : pc_move st k e m (EWSend n (x :: r)) (EWSend n r) None
| pm_runlock n : pc_move st k e m (EWSend n []) (ERet 0) None
| pm_ret c : pc_move st k e m (ERet c) EDone (Some (LRet (TEmit k) c)).

Lemma emit_pc_step : forall st k l st', step_emit st k = Some (l, st') ->
  exists e m p', nth_error (emits st) k = Some e /\ nth_error (emitters st) (eem e) = Some m /\
    emits st' = upd (emits st) k (e_pc e p') /\ pc_move st k e m (epc e) p' l.
Proof.
  intros st k l st' E. unfold step_emit in E. destruct (nth_error (emits st) k) as [e|] eqn:Ek; [|discriminate].
  destruct (nth_error (emitters st) (eem e)) as [m|] eqn:Em; [|discriminate]. exists e, m.
  assert (G : forall p', st' = set_emit st k (e_pc e p') -> pc_move st k e m (epc e) p' l ->
     exists p'0, Some e = Some e /\ nth_error (emitters st) (eem e) = Some m /\ emits st' = upd (emits st) k (e_pc e p'0) /\ pc_move st k e m (epc e) p'0 l).
  { intros p' -> Mv. exists p'. repeat split; auto. }
  destruct (epc e) as [| | |n [|x r]|n|n|n [|x r]|c|] eqn:Ep; try discriminate.
  - destruct (Nat.eqb (mnew m) 4); inversion E; subst. eapply G; [reflexivity|constructor].
  - inversion E; subst. destruct (mclosed m) eqn:Hc; (eapply G; [reflexivity|constructor; exact Hc]).
  - destruct (nth_error (nodes st) (mnode m)) as [nd|] eqn:En; [|discriminate]. destruct (holder nd) eqn:Eh; [discriminate|]. inversion E; subst.
    exists (ESend (mnode m) (sinks nd)). repeat split; auto. econstructor; eassumption.
  - destruct (nth_error (nodes st) n) as [nd|]; [|discriminate]. inversion E; subst. exists (EWChk n). repeat split; auto. constructor.
  - apply otau_Some in E. destruct E as [E ->]. apply option_map_Some in E. destruct E as [x0 [E ->]]. exists (ESend n r). repeat split; auto.
    + cbn. rewrite (proj1 (send_emits _ _ _ _ E)). reflexivity.
    + constructor.
  - inversion E; subst. destruct (Nat.eqb (nsinks (wild st)) 0) eqn:Hz; (eapply G; [reflexivity|]); [apply pm_skip; apply Nat.eqb_eq, Hz|apply pm_wild; apply Nat.eqb_neq, Hz].
  - destruct (wpend (wild st)); [discriminate|]. inversion E; subst. exists (EWSend n (wsinks (wild st))). repeat split; auto. constructor.
  - inversion E; subst. exists (ERet 0). repeat split; auto. constructor.
  - apply otau_Some in E. destruct E as [E ->]. apply option_map_Some in E. destruct E as [x0 [E ->]]. exists (EWSend n r). repeat split; auto.
    + cbn. rewrite (proj1 (send_emits _ _ _ _ E)). reflexivity.
    + constructor.
  - inversion E; subst. eapply G; [reflexivity|constructor].
Qed.

(* passing the lock point happens in exactly one move *)
Lemma lk_back : forall st k e m p p' l pre, pc_move st k e m p p' l -> a_ok pre k = false \/ p = EDone ->
  lk_pc false p' (a_ok (pre ++ olab l) k) -> lk_pc false p (a_ok pre k) \/ p = ELock.
Proof.
  intros st k e m p p' l pre Mv Hn L. destruct Mv; cbn in *; auto; try contradiction; try discriminate.
  left. destruct Hn as [Hn|Hn]; [|discriminate]. unfold a_ok in L. rewrite existsb_snoc in L. fold (a_ok pre k) in L. rewrite Hn in L.
  unfold lab_is_ret_code in L. cbn [orb] in L. apply andb_true_iff in L. destruct L as [_ L]. apply Z.eqb_eq in L. auto.
Qed.

Lemma lk_fwd : forall st k e m p p' l pre w, pc_move st k e m p p' l -> lk_pc w p (a_ok pre k) -> lk_pc w p' (a_ok (pre ++ olab l) k).
Proof.
  intros st k e m p p' l pre w Mv L. destruct Mv; cbn in *; auto; try contradiction.
  subst c. unfold a_ok. rewrite existsb_snoc. cbn. rewrite Nat.eqb_refl. apply orb_true_r.
Qed.

(* C15 — global safety invariant: lock discipline, "todo lists point at live
   sinks", "a sink is only in a node's list while its closer has not passed
   that node", wildcard sinks are wildcard subscriptions; hence no send ever
   targets a closed channel (no panic), for every schedule. *)
From Coq Require Import List Arith ZArith Bool Lia.
From Verif Require Import c15.Lts c15.Model c15.Proofs_Chan c15.Proofs_Loc c15.Proofs_List.
Import ListNotations.

(* nodes of subscription c that its closer has not yet processed *)
Definition remaining (c : sub) : list nat :=
  match cpc c with
  | K0 => snodes c
  | KRem j => skipn j (snodes c)
  | KBus j | KDrop j => skipn (S j) (snodes c)
  | _ => []
  end.
Definition rem (st : state) (s n : nat) : nat :=
  match nth_error (subs st) s with Some c => cnt (remaining c) n | None => 0 end.
Definition is_wild (st : state) (s : nat) : Prop :=
  exists c, nth_error (subs st) s = Some c /\ styps c = None.

(* the Subscribe loop index equals the number of nodes already joined *)
Definition idx_ok (c : sub) : Prop :=
  match spc c with
  | S0 => snodes c = []
  | SApp i _ | SBus i => length (snodes c) = i
  | _ => True
  end.

Record Inv2 (st : state) : Prop := {
  iL : forall k e n todo, nth_error (emits st) k = Some e -> epc e = ESend n todo ->
       exists nd, nth_error (nodes st) n = Some nd /\ holder nd = Some (TEmit k) /\
                  (forall x, In x todo -> In x (sinks nd));
  iR : forall s c i n, nth_error (subs st) s = Some c -> nth_error (rpend c) i = Some true ->
       nth_error (snodes c) i = Some n ->
       exists nd, nth_error (nodes st) n = Some nd /\ holder nd = Some (TReplay s i) /\ In s (sinks nd);
  iLen : forall s c, nth_error (subs st) s = Some c -> length (rpend c) = length (snodes c);
  iIdx : forall s c, nth_error (subs st) s = Some c -> idx_ok c;
  iK : forall n nd s, nth_error (nodes st) n = Some nd -> cnt (sinks nd) s <= rem st s n;
  iW1 : forall s, In s (wsinks (wild st)) -> is_wild st s;
  iW2 : forall k e n todo s, nth_error (emits st) k = Some e -> epc e = EWSend n todo -> In s todo -> is_wild st s;
  iG : panicked st = false }.

(* control fields the invariant reads *)
Definition same_ctl (c c' : sub) : Prop :=
  rpend c' = rpend c /\ snodes c' = snodes c /\ styps c' = styps c /\ remaining c' = remaining c /\
  (idx_ok c -> idx_ok c').

Lemma rem_set_sub : forall st s c c' x n, nth_error (subs st) s = Some c -> remaining c' = remaining c ->
  rem (set_sub st s c') x n = rem st x n.
Proof.
  intros st s c c' x n Ec Hr. unfold rem. cbn. destruct (Nat.eq_dec s x) as [->|N].
  - rewrite (nth_error_upd_eq _ _ _ _ Ec), Ec, Hr. reflexivity.
  - rewrite nth_error_upd_neq by assumption. reflexivity.
Qed.

Lemma is_wild_set_sub : forall st s c c' x, nth_error (subs st) s = Some c -> styps c' = styps c ->
  is_wild st x -> is_wild (set_sub st s c') x.
Proof.
  intros st s c c' x Ec Ht [cx [Hx Hw]]. unfold is_wild. cbn. destruct (Nat.eq_dec s x) as [->|N].
  - exists c'. rewrite (nth_error_upd_eq _ _ _ _ Ec). split; [reflexivity|]. rewrite Ec in Hx. inversion Hx; subst. congruence.
  - exists cx. rewrite nth_error_upd_neq by assumption. split; assumption.
Qed.

Lemma F_sub : forall st s c c', Inv2 st -> nth_error (subs st) s = Some c -> same_ctl c c' -> Inv2 (set_sub st s c').
Proof.
  intros st s c c' I Ec [H1 [H2 [H3 [H4 H5]]]]. constructor.
  - intros k e n todo Hk Hp. exact (iL st I k e n todo Hk Hp).
  - intros x cx i n Hx Hr Hn. cbn in Hx. apply nth_error_upd_inv in Hx. destruct Hx as [[-> [-> _]]|[N Hx]].
    + rewrite H1 in Hr. rewrite H2 in Hn. exact (iR st I s c i n Ec Hr Hn).
    + exact (iR st I x cx i n Hx Hr Hn).
  - intros x cx Hx. cbn in Hx. apply nth_error_upd_inv in Hx. destruct Hx as [[-> [-> _]]|[N Hx]].
    + rewrite H1, H2. exact (iLen st I s c Ec).
    + exact (iLen st I x cx Hx).
  - intros x cx Hx. cbn in Hx. apply nth_error_upd_inv in Hx. destruct Hx as [[-> [-> _]]|[N Hx]].
    + apply H5. exact (iIdx st I s c Ec).
    + exact (iIdx st I x cx Hx).
  - intros n nd x Hn. rewrite (rem_set_sub st s c c' x n Ec H4). exact (iK st I n nd x Hn).
  - intros x Hx. eapply is_wild_set_sub; [exact Ec|exact H3|]. exact (iW1 st I x Hx).
  - intros k e n todo x Hk Hp Hx. eapply is_wild_set_sub; [exact Ec|exact H3|]. exact (iW2 st I k e n todo x Hk Hp Hx).
  - exact (iG st I).
Qed.

Lemma F_blk : forall st b, Inv2 st -> Inv2 (set_blk st b).
Proof. intros st b I. destruct I. constructor; assumption. Qed.
Lemma F_bmap : forall st b, Inv2 st -> Inv2 (set_bmap st b).
Proof. intros st b I. destruct I. constructor; assumption. Qed.
Lemma F_emitters : forall st b, Inv2 st -> Inv2 (set_emitters st b).
Proof. intros st b I. destruct I. constructor; assumption. Qed.
Lemma F_wild : forall st w, Inv2 st -> wsinks w = wsinks (wild st) -> Inv2 (set_wild st w).
Proof. intros st w I Hw. destruct I. constructor; try assumption. cbn. rewrite Hw. assumption. Qed.

Definition region_pc (p : emit_pc) : bool :=
  match p with ESend _ _ | EWSend _ _ => true | _ => false end.

Lemma F_emit : forall st k e p, Inv2 st -> nth_error (emits st) k = Some e -> region_pc p = false ->
  Inv2 (set_emit st k (e_pc e p)).
Proof.
  intros st k e p I Ek Hp. constructor; try (destruct I; assumption).
  - intros k' e' n todo Hk' Hp'. cbn in Hk'. apply nth_error_upd_inv in Hk'. destruct Hk' as [[-> [-> _]]|[N Hk']].
    + cbn in Hp'. subst p. discriminate.
    + exact (iL st I k' e' n todo Hk' Hp').
  - intros k' e' n todo x Hk' Hp'. cbn in Hk'. apply nth_error_upd_inv in Hk'. destruct Hk' as [[-> [-> _]]|[N Hk']].
    + cbn in Hp'. subst p. discriminate.
    + exact (iW2 st I k' e' n todo x Hk' Hp').
Qed.

Lemma F_node_same : forall st n nd nd', Inv2 st -> nth_error (nodes st) n = Some nd ->
  holder nd' = holder nd -> sinks nd' = sinks nd -> Inv2 (set_node st n nd').
Proof.
  intros st n nd nd' I En Hh Hs. constructor; try (destruct I; assumption).
  - intros k e n0 todo Hk Hp. destruct (iL st I k e n0 todo Hk Hp) as [nd0 [A [B C]]]. cbn.
    destruct (Nat.eq_dec n n0) as [->|N].
    + exists nd'. rewrite (nth_error_upd_eq _ _ _ _ En). rewrite En in A. inversion A; subst. rewrite Hh, Hs. auto.
    + exists nd0. rewrite nth_error_upd_neq by assumption. auto.
  - intros s c i n0 Hs0 Hr Hn. destruct (iR st I s c i n0 Hs0 Hr Hn) as [nd0 [A [B C]]]. cbn.
    destruct (Nat.eq_dec n n0) as [->|N].
    + exists nd'. rewrite (nth_error_upd_eq _ _ _ _ En). rewrite En in A. inversion A; subst. rewrite Hh, Hs. auto.
    + exists nd0. rewrite nth_error_upd_neq by assumption. auto.
  - intros n0 nd0 s H0. cbn in H0. apply nth_error_upd_inv in H0. destruct H0 as [[-> [-> _]]|[N H0]].
    + rewrite Hs. exact (iK st I n nd s En).
    + exact (iK st I n0 nd0 s H0).
Qed.

Lemma F_nodes_app : forall st ty, Inv2 st -> Inv2 (set_nodes st (nodes st ++ [mkNode ty None [] None false 0 0])).
Proof.
  intros st ty I. constructor; try (destruct I; assumption).
  - intros k e n0 todo Hk Hp. destruct (iL st I k e n0 todo Hk Hp) as [nd0 [A [B C]]]. exists nd0. cbn.
    rewrite (nth_error_app_old _ _ _ _ A). auto.
  - intros s c i n0 Hs0 Hr Hn. destruct (iR st I s c i n0 Hs0 Hr Hn) as [nd0 [A [B C]]]. exists nd0. cbn.
    rewrite (nth_error_app_old _ _ _ _ A). auto.
  - intros n0 nd0 s H0. cbn in H0. apply nth_error_app_inv in H0. destruct H0 as [H0|[_ ->]].
    + exact (iK st I n0 nd0 s H0).
    + cbn. lia.
Qed.

Lemma nth_error_expect : forall l tg it i0 s,
  nth_error (expect_all l tg it i0) s =
  option_map (fun c => c_expd c (expd c ++ repeat it (count_occ Nat.eq_dec tg (i0 + s)))) (nth_error l s).
Proof.
  induction l as [|a l IH]; intros tg it i0 [|s]; cbn; try reflexivity.
  - rewrite Nat.add_0_r. reflexivity.
  - rewrite IH. replace (S i0 + s) with (i0 + S s) by lia. reflexivity.
Qed.

Lemma expect_ctl : forall l tg it s c', nth_error (expect_all l tg it 0) s = Some c' ->
  exists c, nth_error l s = Some c /\ same_ctl c c'.
Proof.
  intros l tg it s c' H. rewrite nth_error_expect in H. destruct (nth_error l s) as [c|]; [|discriminate].
  cbn in H. exists c. split; [reflexivity|]. inversion H; subst; repeat split; auto.
Qed.

Lemma expect_ctl' : forall l tg it s c, nth_error l s = Some c ->
  exists c', nth_error (expect_all l tg it 0) s = Some c' /\ same_ctl c c'.
Proof.
  intros l tg it s c H. rewrite nth_error_expect, H. cbn.
  eexists; (split; [reflexivity|repeat split; auto]).
Qed.

Lemma F_expect : forall st tg it, Inv2 st -> Inv2 (set_subs st (expect_all (subs st) tg it 0)).
Proof.
  intros st tg it I.
  assert (W : forall x, is_wild st x -> is_wild (set_subs st (expect_all (subs st) tg it 0)) x).
  { intros x [c [Hc Hw]]. destruct (expect_ctl' _ tg it _ _ Hc) as [c' [H1 [_ [_ [H2 _]]]]]. exists c'. cbn. split; [exact H1|congruence]. }
  constructor; try (destruct I; assumption).
  - intros s c' i n Hs Hr Hn. cbn in Hs. destruct (expect_ctl _ _ _ _ _ Hs) as [c [Hc [H1 [H2 _]]]].
    rewrite H1 in Hr. rewrite H2 in Hn. exact (iR st I s c i n Hc Hr Hn).
  - intros s c' Hs. cbn in Hs. destruct (expect_ctl _ _ _ _ _ Hs) as [c [Hc [H1 [H2 _]]]]. rewrite H1, H2. exact (iLen st I s c Hc).
  - intros s c' Hs. cbn in Hs. destruct (expect_ctl _ _ _ _ _ Hs) as [c [Hc [_ [_ [_ [_ H5]]]]]]. apply H5. exact (iIdx st I s c Hc).
  - intros n nd s Hn. pose proof (iK st I n nd s Hn) as K. unfold rem in *. cbn.
    destruct (nth_error (subs st) s) as [c|] eqn:Ec.
    + destruct (expect_ctl' _ tg it _ _ Ec) as [c' [H1 [_ [_ [_ [H2 _]]]]]]. rewrite H1, H2. exact K.
    + rewrite nth_error_expect, Ec. cbn. exact K.
  - intros s Hs. apply W. exact (iW1 st I s Hs).
  - intros k e n todo s Hk Hp Hs. apply W. exact (iW2 st I k e n todo s Hk Hp Hs).
Qed.

(* taking a free lock: nobody is inside the region, so any new holder is fine *)
Lemma F_node_lock : forall st n nd nd', Inv2 st -> nth_error (nodes st) n = Some nd -> holder nd = None ->
  (forall x, In x (sinks nd) -> In x (sinks nd')) -> (forall x, cnt (sinks nd') x <= rem st x n) -> Inv2 (set_node st n nd').
Proof.
  intros st n nd nd' I En Hh Hs Hk. constructor; try (destruct I; assumption).
  - intros k e n0 todo Hk0 Hp. destruct (iL st I k e n0 todo Hk0 Hp) as [nd0 [A [B C]]]. cbn.
    destruct (Nat.eq_dec n n0) as [->|N]; [rewrite En in A; inversion A; subst; congruence|].
    exists nd0. rewrite nth_error_upd_neq by assumption. auto.
  - intros s c i n0 Hs0 Hr Hn. destruct (iR st I s c i n0 Hs0 Hr Hn) as [nd0 [A [B C]]]. cbn.
    destruct (Nat.eq_dec n n0) as [->|N]; [rewrite En in A; inversion A; subst; congruence|].
    exists nd0. rewrite nth_error_upd_neq by assumption. auto.
  - intros n0 nd0 s H0. cbn in H0. apply nth_error_upd_inv in H0. destruct H0 as [[-> [-> _]]|[N H0]].
    + apply Hk.
    + exact (iK st I n0 nd0 s H0).
Qed.

Lemma F_emit_enter : forall st k e n nd todo, Inv2 st -> nth_error (emits st) k = Some e ->
  nth_error (nodes st) n = Some nd -> holder nd = Some (TEmit k) -> (forall x, In x todo -> In x (sinks nd)) ->
  Inv2 (set_emit st k (e_pc e (ESend n todo))).
Proof.
  intros st k e n nd todo I Ek En Hh Hs. constructor; try (destruct I; assumption).
  - intros k' e' n0 todo0 Hk' Hp'. cbn in Hk'. apply nth_error_upd_inv in Hk'. destruct Hk' as [[-> [-> _]]|[N Hk']].
    + cbn in Hp'. inversion Hp'; subst. exists nd. auto.
    + exact (iL st I k' e' n0 todo0 Hk' Hp').
  - intros k' e' n0 todo0 x Hk' Hp'. cbn in Hk'. apply nth_error_upd_inv in Hk'. destruct Hk' as [[-> [-> _]]|[N Hk']].
    + cbn in Hp'. discriminate.
    + exact (iW2 st I k' e' n0 todo0 x Hk' Hp').
Qed.

Lemma F_emit_wenter : forall st k e n todo, Inv2 st -> nth_error (emits st) k = Some e ->
  (forall x, In x todo -> is_wild st x) -> Inv2 (set_emit st k (e_pc e (EWSend n todo))).
Proof.
  intros st k e n todo I Ek Hs. constructor; try (destruct I; assumption).
  - intros k' e' n0 todo0 Hk' Hp'. cbn in Hk'. apply nth_error_upd_inv in Hk'. destruct Hk' as [[-> [-> _]]|[N Hk']].
    + cbn in Hp'. discriminate.
    + exact (iL st I k' e' n0 todo0 Hk' Hp').
  - intros k' e' n0 todo0 x Hk' Hp'. cbn in Hk'. apply nth_error_upd_inv in Hk'. destruct Hk' as [[-> [-> _]]|[N Hk']].
    + cbn in Hp'. inversion Hp'; subst. apply Hs.
    + exact (iW2 st I k' e' n0 todo0 x Hk' Hp').
Qed.

(* releasing: the holder t has already left the region *)
Definition in_region (st : state) (n : nat) (t : thr) : Prop :=
  match t with
  | TEmit k => exists e todo, nth_error (emits st) k = Some e /\ epc e = ESend n todo
  | TReplay s i => exists c, nth_error (subs st) s = Some c /\ nth_error (rpend c) i = Some true /\ nth_error (snodes c) i = Some n
  | _ => False
  end.

Lemma F_node_unlock : forall st n nd t, Inv2 st -> nth_error (nodes st) n = Some nd -> holder nd = Some t ->
  ~ in_region st n t -> Inv2 (set_node st n (n_holder nd None)).
Proof.
  intros st n nd t I En Hh Hout. constructor; try (destruct I; assumption).
  - intros k e n0 todo Hk0 Hp. destruct (iL st I k e n0 todo Hk0 Hp) as [nd0 [A [B C]]]. cbn.
    destruct (Nat.eq_dec n n0) as [->|N].
    + exfalso. rewrite En in A. inversion A; subst. rewrite Hh in B. inversion B; subst. apply Hout. cbn. eauto.
    + exists nd0. rewrite nth_error_upd_neq by assumption. auto.
  - intros s c i n0 Hs0 Hr Hn. destruct (iR st I s c i n0 Hs0 Hr Hn) as [nd0 [A [B C]]]. cbn.
    destruct (Nat.eq_dec n n0) as [->|N].
    + exfalso. rewrite En in A. inversion A; subst. rewrite Hh in B. inversion B; subst. apply Hout. cbn. eauto.
    + exists nd0. rewrite nth_error_upd_neq by assumption. auto.
  - intros n0 nd0 s H0. cbn in H0. apply nth_error_upd_inv in H0. destruct H0 as [[-> [-> _]]|[N H0]].
    + cbn. exact (iK st I n nd s En).
    + exact (iK st I n0 nd0 s H0).
Qed.

(* a sink that some node still lists belongs to an open channel *)
Lemma listed_open : forall st n nd s, Forall sub_loc (subs st) -> Inv2 st -> nth_error (nodes st) n = Some nd ->
  In s (sinks nd) -> exists c, nth_error (subs st) s = Some c /\ closed c = false.
Proof.
  intros st n nd s HL I En Hin. apply cnt_In in Hin. pose proof (iK st I n nd s En) as K. unfold rem in K.
  destruct (nth_error (subs st) s) as [c|] eqn:Ec; [|lia]. exists c. split; [reflexivity|].
  destruct (closed c) eqn:Ecl; [|reflexivity]. exfalso.
  destruct (Forall_nth_error _ _ _ _ HL Ec) as [P1 _]. unfold remaining in K.
  destruct (P1 Ecl) as [X|X]; rewrite X in K; cbn in K; lia.
Qed.

Lemma wild_open : forall st s, Forall sub_loc (subs st) -> is_wild st s ->
  exists c, nth_error (subs st) s = Some c /\ closed c = false.
Proof.
  intros st s HL [c [Ec Hw]]. exists c. split; [exact Ec|].
  destruct (Forall_nth_error _ _ _ _ HL Ec) as [_ [_ [_ P4]]]. apply P4, Hw.
Qed.

Lemma send_open : forall st s it st' c, nth_error (subs st) s = Some c -> closed c = false ->
  send st s it = Some st' -> st' = set_sub st s (push c it).
Proof. intros st s it st' c Ec Hc E. unfold send in E. rewrite Ec, Hc in E. destruct (room c); inversion E; reflexivity. Qed.

Lemma push_ctl : forall c it, same_ctl c (push c it).
Proof. intros. repeat split; auto. Qed.

Lemma emit_inv : forall st k l st', Forall sub_loc (subs st) -> Inv2 st -> step_emit st k = Some (l, st') -> Inv2 st'.
Proof.
  intros st k l st' HL I E. unfold step_emit in E.
  destruct (nth_error (emits st) k) as [e|] eqn:Ek; [|discriminate].
  destruct (nth_error (emitters st) (eem e)) as [m|]; [|discriminate].
  destruct (epc e) as [| | |n todo|n|n|n todo|c|] eqn:Ep.
  - destruct (Nat.eqb (mnew m) 4); inversion E; subst. apply F_emit; auto.
  - inversion E; subst. apply F_emit; auto. destruct (mclosed m); reflexivity.
  - (* n.lk.Lock() *)
    destruct (nth_error (nodes st) (mnode m)) as [nd|] eqn:En; [|discriminate].
    destruct (holder nd) eqn:Hh; [discriminate|]. inversion E; subst. clear E.
    set (nd' := n_last (n_holder nd (Some (TEmit k))) (if keep nd then Some (eev e) else nlast nd)).
    assert (I1 : Inv2 (set_node st (mnode m) nd')).
    { eapply F_node_lock; [exact I|exact En|exact Hh|auto|]. intros x. cbn. exact (iK st I _ nd x En). }
    pose proof (F_expect _ (sinks nd) (mnode m, eev e) I1) as I2.
    eapply (F_emit_enter _ k e (mnode m) nd' (sinks nd)) in I2; [exact I2|exact Ek| |reflexivity|auto].
    cbn. apply (nth_error_upd_eq _ _ _ _ En).
  - destruct todo as [|s r].
    + (* n.lk.Unlock() *)
      destruct (nth_error (nodes st) n) as [nd|] eqn:En; [|discriminate]. inversion E; subst. clear E.
      destruct (iL st I k e n [] Ek Ep) as [nd0 [A [B _]]]. rewrite En in A. inversion A; subst nd0.
      assert (I1 : Inv2 (set_emit st k (e_pc e (EWChk n)))) by (apply F_emit; auto).
      eapply (F_node_unlock _ n nd (TEmit k)) in I1; [exact I1|exact En|exact B|].
      cbn. intros [e' [todo' [X Y]]]. rewrite (nth_error_upd_eq _ _ _ _ Ek) in X. inversion X; subst. discriminate.
    + (* sink.ch <- evt *)
      otau_inv E. destruct (iL st I k e n (s :: r) Ek Ep) as [nd [En [Hh Hs]]].
      destruct (listed_open st n nd s HL I En (Hs s (or_introl eq_refl))) as [c [Ec Hc]].
      rewrite (send_open _ _ _ _ _ Ec Hc E).
      assert (I1 : Inv2 (set_sub st s (push c (n, eev e)))) by (eapply F_sub; [exact I|exact Ec|apply push_ctl]).
      eapply (F_emit_enter _ k e n nd r) in I1; [exact I1|exact Ek|exact En|exact Hh|].
      intros y Hy. apply Hs. right. exact Hy.
  - inversion E; subst. apply F_emit; auto. destruct (Nat.eqb (nsinks (wild st)) 0); reflexivity.
  - (* w.RLock() *)
    destruct (wpend (wild st)); [discriminate|]. inversion E; subst. clear E.
    set (w' := mkWild None (S (rdrs (wild st))) (wsinks (wild st)) (nsinks (wild st))).
    assert (I1 : Inv2 (set_wild st w')) by (apply F_wild; [exact I|reflexivity]).
    pose proof (F_expect _ (wsinks (wild st)) (k, eev e) I1) as I2.
    eapply (F_emit_wenter _ k e n (wsinks (wild st))) in I2; [exact I2|exact Ek|].
    intros x Hx. apply (iW1 _ I2). exact Hx.
  - destruct todo as [|s r].
    + inversion E; subst. clear E.
      assert (I1 : Inv2 (set_wild st (mkWild (wpend (wild st)) (pred (rdrs (wild st))) (wsinks (wild st)) (nsinks (wild st)))))
        by (apply F_wild; [exact I|reflexivity]).
      eapply (F_emit _ k e (ERet 0)) in I1; [exact I1|exact Ek|reflexivity].
    + otau_inv E. pose proof (iW2 st I k e n (s :: r) s Ek Ep (or_introl eq_refl)) as Hw.
      destruct (wild_open st s HL Hw) as [c [Ec Hc]]. rewrite (send_open _ _ _ _ _ Ec Hc E).
      assert (I1 : Inv2 (set_sub st s (push c (k, eev e)))) by (eapply F_sub; [exact I|exact Ec|apply push_ctl]).
      eapply (F_emit_wenter _ k e n r) in I1; [exact I1|exact Ek|].
      intros y Hy. eapply is_wild_set_sub; [exact Ec|reflexivity|]. apply (iW2 st I k e n (s :: r) y Ek Ep). right. exact Hy.
  - inversion E; subst. apply F_emit; auto.
  - discriminate.
Qed.

Lemma lookup_inv : forall st ty, Inv2 st -> Inv2 (fst (lookup st ty)).
Proof.
  intros st ty I. unfold lookup. destruct (nth_error (bmap st) ty) as [[n|]|]; cbn; try exact I;
    apply F_bmap, F_nodes_app, I.
Qed.

Lemma with_node_inv : forall st ty st1 n, Inv2 st -> with_node st ty = Some (st1, n) -> Inv2 st1.
Proof.
  intros st ty st1 n I E. unfold with_node in E. pose proof (lookup_inv st ty I) as I1.
  destruct (lookup st ty) as [sl m]. cbn in I1. destruct (nth_error (nodes sl) m) as [nd|] eqn:En; inversion E; subst.
  eapply F_node_same; [exact I1|exact En|reflexivity|reflexivity].
Qed.

Lemma try_drop_inv : forall st ty st', Inv2 st -> try_drop st ty = Some st' -> Inv2 st'.
Proof.
  intros st ty st' I E. unfold try_drop in E.
  repeat match type of E with context[match ?x with _ => _ end] => destruct x end;
    inversion E; subst; repeat (apply F_blk || apply F_bmap); exact I.
Qed.

Lemma emnew_inv : forall st j l st', Inv2 st -> step_emnew st j = Some (l, st') -> Inv2 st'.
Proof.
  intros st j l st' I E. unfold step_emnew in E.
  destruct (nth_error (emitters st) j) as [m|]; [|discriminate].
  destruct (mnew m) as [|[|[|[|?]]]].
  - inversion E; subst. apply F_emitters, I.
  - destruct (with_node st (mty m)) as [[st1 n]|] eqn:Ew; [|discriminate]. inversion E; subst.
    apply F_emitters. eapply with_node_inv; eassumption.
  - destruct (nth_error (nodes st) (mnode m)) as [nd|] eqn:En; [|discriminate].
    destruct (holder nd); [discriminate|]. inversion E; subst. apply F_emitters.
    eapply F_node_same; [exact I|exact En|reflexivity|reflexivity].
  - inversion E; subst. apply F_emitters, I.
  - discriminate.
Qed.

Lemma emclose_inv : forall st j l st', Inv2 st -> step_emclose st j = Some (l, st') -> Inv2 st'.
Proof.
  intros st j l st' I E. unfold step_emclose in E.
  destruct (nth_error (emitters st) j) as [m|]; [|discriminate].
  destruct (mcl m).
  - destruct (Nat.eqb (mnew m) 4); inversion E; subst. apply F_emitters, I.
  - destruct (mclosed m); inversion E; subst; apply F_emitters, I.
  - destruct (nth_error (nodes st) (mnode m)) as [nd|] eqn:En; inversion E; subst. apply F_emitters.
    eapply F_node_same; [exact I|exact En|reflexivity|reflexivity].
  - inversion E; subst. apply F_emitters, I.
  - otau_inv E. apply F_emitters. eapply try_drop_inv; eassumption.
  - inversion E; subst. apply F_emitters, I.
  - discriminate.
Qed.

Lemma F_wild_sub : forall st w, Inv2 st ->
  (forall x, In x (wsinks w) -> In x (wsinks (wild st)) \/ is_wild st x) -> Inv2 (set_wild st w).
Proof.
  intros st w I Hw. constructor; try (destruct I; assumption).
  intros x Hx. cbn in Hx. destruct (Hw x Hx) as [H|H]; [exact (iW1 st I x H)|exact H].
Qed.

(* withNode + append: s joins node n, the lock passes to the replay goroutine *)
Lemma F_subscribe : forall st s c n nd i p c2 nd',
  Inv2 st -> nth_error (subs st) s = Some c -> nth_error (nodes st) n = Some nd -> holder nd = None ->
  cpc c = K0 -> spc c = SApp i n ->
  holder nd' = Some (TReplay s i) -> sinks nd' = sinks nd ++ [s] ->
  rpend c2 = rpend c ++ [true] -> snodes c2 = snodes c ++ [n] -> styps c2 = styps c -> cpc c2 = K0 ->
  spc c2 = p -> (p = SBus (S i) \/ p = SRet) ->
  Inv2 (set_sub (set_node st n nd') s c2).
Proof.
  intros st s c n nd i p c2 nd' I Ec En Hh Hk Hp Hh' Hs' Hr2 Hn2 Ht2 Hk2 Hp2 Hpp.
  pose proof (iIdx st I s c Ec) as Hi. unfold idx_ok in Hi. rewrite Hp in Hi.
  pose proof (iLen st I s c Ec) as Hl.
  assert (W : forall x, is_wild st x -> is_wild (set_sub (set_node st n nd') s c2) x).
  { intros x Hx. apply (is_wild_set_sub (set_node st n nd') s c c2 x Ec Ht2). exact Hx. }
  constructor.
  - intros k e n0 todo Hk0 Hp0. destruct (iL st I k e n0 todo Hk0 Hp0) as [nd0 [A [B C]]]. cbn.
    destruct (Nat.eq_dec n n0) as [->|N]; [rewrite En in A; inversion A; subst; congruence|].
    exists nd0. rewrite nth_error_upd_neq by assumption. auto.
  - intros x cx j n0 Hx Hr Hn. cbn in Hx. cbn [nodes set_sub set_node set_subs set_nodes].
    apply nth_error_upd_inv in Hx. destruct Hx as [[-> [-> _]]|[N Hx]].
    + rewrite Hr2 in Hr. rewrite Hn2 in Hn.
      apply nth_error_app_inv in Hr. destruct Hr as [Hr|[Hj _]].
      * assert (Hn' : nth_error (snodes c) j = Some n0).
        { apply nth_error_app_inv in Hn. destruct Hn as [Hn|[Hj _]]; [exact Hn|].
          exfalso. assert (j < length (rpend c)) by (apply nth_error_Some; congruence). lia. }
        destruct (iR st I s c j n0 Ec Hr Hn') as [nd0 [A [B C]]].
        destruct (Nat.eq_dec n n0) as [->|N]; [rewrite En in A; inversion A; subst; congruence|].
        exists nd0. rewrite nth_error_upd_neq by assumption. auto.
      * assert (n0 = n).
        { apply nth_error_app_inv in Hn. destruct Hn as [Hn|[_ ->]]; [|reflexivity].
          exfalso. assert (j < length (snodes c)) by (apply nth_error_Some; congruence). lia. }
        subst n0. exists nd'. rewrite (nth_error_upd_eq _ _ _ _ En). split; [reflexivity|].
        split; [rewrite Hh'; f_equal; f_equal; lia|]. rewrite Hs'. apply in_or_app. right. left. reflexivity.
    + destruct (iR st I x cx j n0 Hx Hr Hn) as [nd0 [A [B C]]].
      destruct (Nat.eq_dec n n0) as [->|N0]; [rewrite En in A; inversion A; subst; congruence|].
      exists nd0. rewrite nth_error_upd_neq by assumption. auto.
  - intros x cx Hx. cbn in Hx. apply nth_error_upd_inv in Hx. destruct Hx as [[-> [-> _]]|[N Hx]].
    + rewrite Hr2, Hn2, !app_length. cbn. lia.
    + exact (iLen st I x cx Hx).
  - intros x cx Hx. cbn in Hx. apply nth_error_upd_inv in Hx. destruct Hx as [[-> [-> _]]|[N Hx]].
    + unfold idx_ok. rewrite Hp2. destruct Hpp as [->| ->]; [|exact Logic.I]. rewrite Hn2, app_length. cbn. lia.
    + exact (iIdx st I x cx Hx).
  - intros n0 nd0 x H0. cbn in H0. unfold rem. cbn [subs set_sub set_node set_subs set_nodes].
    assert (R : forall m, (match nth_error (upd (subs st) s c2) x with Some c0 => cnt (remaining c0) m | None => 0 end)
                  = rem st x m + (if Nat.eq_dec x s then (if Nat.eq_dec n m then 1 else 0) else 0)).
    { intros m. unfold rem. destruct (Nat.eq_dec x s) as [->|Nx].
      - rewrite (nth_error_upd_eq _ _ _ _ Ec), Ec. unfold remaining. rewrite Hk2, Hk, Hn2, cnt_app.
        unfold cnt at 2. cbn. destruct (Nat.eq_dec n m); lia.
      - rewrite nth_error_upd_neq by congruence. lia. }
    rewrite R. apply nth_error_upd_inv in H0. destruct H0 as [[-> [-> _]]|[N0 H0]].
    + rewrite Hs', cnt_app. pose proof (iK st I n nd x En) as K. unfold cnt at 2. cbn.
      destruct (Nat.eq_dec x s) as [->|Nx].
      * destruct (Nat.eq_dec s s); [|congruence]. destruct (Nat.eq_dec n n); [lia|congruence].
      * destruct (Nat.eq_dec s x); [congruence|]. lia.
    + pose proof (iK st I n0 nd0 x H0) as K. lia.
  - intros x Hx. apply W. exact (iW1 st I x Hx).
  - intros k e n0 todo x Hk0 Hp0 Hx. apply W. exact (iW2 st I k e n0 todo x Hk0 Hp0 Hx).
  - exact (iG st I).
Qed.

Lemma spc_ctl : forall c p, (idx_ok c -> idx_ok (c_spc c p)) -> same_ctl c (c_spc c p).
Proof. intros c p H. repeat split. exact H. Qed.

Lemma cpc_K0 : forall c, sub_loc c -> spc c <> SDone -> cpc c = K0.
Proof.
  intros c [_ [P2 _]] H. destruct (cpc c) eqn:E; try reflexivity; exfalso; apply H, P2; discriminate.
Qed.

Lemma sub_inv : forall st s l st', Forall sub_loc (subs st) -> Inv2 st -> step_sub st s = Some (l, st') -> Inv2 st'.
Proof.
  intros st s l st' HL I E. unfold step_sub in E.
  destruct (nth_error (subs st) s) as [c|] eqn:Ec; [|discriminate].
  pose proof (Forall_nth_error _ _ _ _ HL Ec) as Hloc.
  pose proof (iIdx st I s c Ec) as Hi.
  destruct (spc c) eqn:Ep.
  - destruct (styps c) as [tys|] eqn:Et; inversion E; subst; (eapply F_sub; [exact I|exact Ec|apply spc_ctl]);
      unfold idx_ok in *; cbn; rewrite Ep in Hi; intros _.
    + destruct tys; [exact Logic.I|]. rewrite Hi. reflexivity.
    + exact Logic.I.
  - destruct (styps c) as [tys|] eqn:Et; [|discriminate]. destruct (nth_error tys i) as [ty|]; [|discriminate].
    destruct (with_node st ty) as [[st1 n]|] eqn:Ew; [|discriminate]. inversion E; subst.
    eapply F_sub; [eapply with_node_inv; eassumption|rewrite (with_node_subs _ _ _ _ Ew); exact Ec|].
    apply spc_ctl. unfold idx_ok. cbn. rewrite Ep. auto.
  - destruct (styps c) as [tys|] eqn:Et; [|discriminate].
    destruct (nth_error (nodes st) n) as [nd|] eqn:En; [|discriminate].
    destruct (holder nd) eqn:Hh; [discriminate|]. inversion E; subst. clear E.
    assert (Hk : cpc c = K0) by (apply cpc_K0; [exact Hloc|congruence]).
    eapply (F_subscribe st s c n nd i); try reflexivity.
    + exact I.
    + exact Ec.
    + exact En.
    + exact Hh.
    + exact Hk.
    + exact Ep.
    + destruct (keep nd); [destruct (nlast nd)|]; reflexivity.
    + destruct (keep nd); [destruct (nlast nd)|]; reflexivity.
    + destruct (keep nd); [destruct (nlast nd)|]; reflexivity.
    + destruct (keep nd); [destruct (nlast nd)|]; cbn; exact Hk.
    + destruct (Nat.ltb (S i) (length tys)); destruct (keep nd); try destruct (nlast nd); cbn; auto.
  - inversion E; subst. eapply F_sub; [apply F_wild; [exact I|reflexivity]|exact Ec|apply spc_ctl; intros; exact Logic.I].
  - destruct (wpend (wild st)); [discriminate|]. inversion E; subst.
    eapply F_sub; [apply F_wild; [exact I|reflexivity]|exact Ec|apply spc_ctl; intros; exact Logic.I].
  - destruct (Nat.eqb (rdrs (wild st)) 0); [|discriminate]. inversion E; subst.
    eapply F_sub; [apply F_wild_sub; [exact I|]|exact Ec|apply spc_ctl; intros; exact Logic.I].
    intros x Hx. cbn in Hx. apply in_app_or in Hx. destruct Hx as [Hx|[<-|[]]]; [left; exact Hx|right].
    exists c. split; [exact Ec|]. destruct Hloc as [_ [_ [P3 _]]]. apply P3. rewrite Ep. reflexivity.
  - inversion E; subst. eapply F_sub; [exact I|exact Ec|apply spc_ctl; intros; exact Logic.I].
  - destruct (styps c); discriminate.
Qed.

Lemma nth_error_upd_false : forall (l : list bool) i j, nth_error (upd l i false) j = Some true ->
  j <> i /\ nth_error l j = Some true.
Proof.
  intros l i j H. apply nth_error_upd_inv in H. destruct H as [[_ [X _]]|[N H]]; [discriminate|]. split; assumption.
Qed.

Lemma F_replay_done : forall st s c i n nd c2,
  Inv2 st -> nth_error (subs st) s = Some c -> nth_error (rpend c) i = Some true -> nth_error (snodes c) i = Some n ->
  nth_error (nodes st) n = Some nd ->
  rpend c2 = upd (rpend c) i false -> snodes c2 = snodes c -> styps c2 = styps c -> remaining c2 = remaining c ->
  (idx_ok c -> idx_ok c2) ->
  Inv2 (set_node (set_sub st s c2) n (n_holder nd None)).
Proof.
  intros st s c i n nd c2 I Ec Hr Hn En H1 H2 H3 H4 H5.
  destruct (iR st I s c i n Ec Hr Hn) as [ndx [A [Hh Hin]]]. rewrite En in A. inversion A; subst ndx. clear A.
  assert (W : forall x, is_wild st x -> is_wild (set_node (set_sub st s c2) n (n_holder nd None)) x).
  { intros x Hx. apply (is_wild_set_sub st s c c2 x Ec H3). exact Hx. }
  constructor.
  - intros k e n0 todo Hk0 Hp0. destruct (iL st I k e n0 todo Hk0 Hp0) as [nd0 [A [B C]]]. cbn.
    destruct (Nat.eq_dec n n0) as [->|N]; [rewrite En in A; inversion A; subst; congruence|].
    exists nd0. rewrite nth_error_upd_neq by assumption. auto.
  - intros x cx j n0 Hx Hrj Hnj. cbn in Hx. cbn [nodes set_sub set_node set_subs set_nodes].
    apply nth_error_upd_inv in Hx. destruct Hx as [[-> [-> _]]|[N Hx]].
    + rewrite H1 in Hrj. rewrite H2 in Hnj. apply nth_error_upd_false in Hrj. destruct Hrj as [Nj Hrj].
      destruct (iR st I s c j n0 Ec Hrj Hnj) as [nd0 [A [B C]]].
      destruct (Nat.eq_dec n n0) as [->|N]; [rewrite En in A; inversion A; subst; congruence|].
      exists nd0. rewrite nth_error_upd_neq by assumption. auto.
    + destruct (iR st I x cx j n0 Hx Hrj Hnj) as [nd0 [A [B C]]].
      destruct (Nat.eq_dec n n0) as [->|N0]; [rewrite En in A; inversion A; subst; congruence|].
      exists nd0. rewrite nth_error_upd_neq by assumption. auto.
  - intros x cx Hx. cbn in Hx. apply nth_error_upd_inv in Hx. destruct Hx as [[-> [-> _]]|[N Hx]].
    + rewrite H1, H2, upd_length. exact (iLen st I s c Ec).
    + exact (iLen st I x cx Hx).
  - intros x cx Hx. cbn in Hx. apply nth_error_upd_inv in Hx. destruct Hx as [[-> [-> _]]|[N Hx]].
    + apply H5. exact (iIdx st I s c Ec).
    + exact (iIdx st I x cx Hx).
  - intros n0 nd0 x H0. cbn in H0.
    replace (rem (set_node (set_sub st s c2) n (n_holder nd None)) x n0) with (rem st x n0)
      by (symmetry; apply (rem_set_sub st s c c2 x n0 Ec H4)).
    apply nth_error_upd_inv in H0. destruct H0 as [[-> [-> _]]|[N0 H0]].
    + cbn. exact (iK st I n nd x En).
    + exact (iK st I n0 nd0 x H0).
  - intros x Hx. apply W. exact (iW1 st I x Hx).
  - intros k e n0 todo x Hk0 Hp0 Hx. apply W. exact (iW2 st I k e n0 todo x Hk0 Hp0 Hx).
  - exact (iG st I).
Qed.

Lemma replay_inv : forall st s i l st', Forall sub_loc (subs st) -> Inv2 st -> step_replay st s i = Some (l, st') -> Inv2 st'.
Proof.
  intros st s i l st' HL I E. unfold step_replay in E.
  destruct (nth_error (subs st) s) as [c|] eqn:Ec; [|discriminate].
  destruct (nth_error (rpend c) i) as [[|]|] eqn:Er; try discriminate.
  destruct (nth_error (snodes c) i) as [n|] eqn:Es; [|discriminate].
  destruct (nth_error (nodes st) n) as [nd|] eqn:En; [|discriminate].
  assert (Plain : Inv2 (set_node (set_sub st s (c_rpend c (upd (rpend c) i false))) n (n_holder nd None))).
  { eapply (F_replay_done st s c i n nd); try eassumption; try reflexivity. auto. }
  destruct (keep nd); [destruct (nlast nd) as [lv|]|].
  - otau_inv E. destruct (iR st I s c i n Ec Er Es) as [ndx [A [Hh Hin]]]. rewrite En in A. inversion A; subst ndx.
    destruct (listed_open st n nd s HL I En Hin) as [c0 [Ec0 Hc]]. rewrite Ec in Ec0. inversion Ec0; subst c0.
    rewrite (send_open _ _ _ _ _ Ec Hc E). cbn [subs set_sub set_subs]. rewrite (nth_error_upd_eq _ _ _ _ Ec).
    assert (X : set_sub (set_sub st s (push c (n, lv))) s (c_rpend (push c (n, lv)) (upd (rpend (push c (n, lv))) i false))
              = set_sub st s (c_rpend (push c (n, lv)) (upd (rpend c) i false))).
    { unfold set_sub, set_subs. cbn. f_equal. clear. generalize (subs st). intros l. revert s.
      induction l as [|a l IH]; intros [|s]; cbn; try reflexivity. f_equal. apply IH. }
    rewrite X. eapply (F_replay_done st s c i n nd); try eassumption; try reflexivity. auto.
  - inversion E; subst. exact Plain.
  - inversion E; subst. exact Plain.
Qed.

(* the closer leaves node n = snodes[i]: swap-remove under the lock *)
Lemma F_unsub : forall st s c i n nd c2 nd',
  Inv2 st -> nth_error (subs st) s = Some c -> cpc c = KRem i -> nth_error (snodes c) i = Some n ->
  nth_error (nodes st) n = Some nd -> holder nd = None ->
  holder nd' = None -> sinks nd' = remove_swap s (sinks nd) ->
  rpend c2 = rpend c -> snodes c2 = snodes c -> styps c2 = styps c -> remaining c2 = skipn (S i) (snodes c) ->
  (idx_ok c -> idx_ok c2) ->
  Inv2 (set_sub (set_node st n nd') s c2).
Proof.
  intros st s c i n nd c2 nd' I Ec Hk Hn En Hh Hh' Hs' H1 H2 H3 H4 H5.
  assert (W : forall x, is_wild st x -> is_wild (set_sub (set_node st n nd') s c2) x).
  { intros x Hx. apply (is_wild_set_sub (set_node st n nd') s c c2 x Ec H3). exact Hx. }
  constructor.
  - intros k e n0 todo Hk0 Hp0. destruct (iL st I k e n0 todo Hk0 Hp0) as [nd0 [A [B C]]]. cbn.
    destruct (Nat.eq_dec n n0) as [->|N]; [rewrite En in A; inversion A; subst; congruence|].
    exists nd0. rewrite nth_error_upd_neq by assumption. auto.
  - intros x cx j n0 Hx Hrj Hnj. cbn in Hx. cbn [nodes set_sub set_node set_subs set_nodes].
    assert (Old : exists cx0, nth_error (subs st) x = Some cx0 /\ nth_error (rpend cx0) j = Some true /\ nth_error (snodes cx0) j = Some n0).
    { apply nth_error_upd_inv in Hx. destruct Hx as [[-> [-> _]]|[N Hx]].
      - exists c. rewrite H1 in Hrj. rewrite H2 in Hnj. auto.
      - exists cx. auto. }
    destruct Old as [cx0 [Q1 [Q2 Q3]]]. destruct (iR st I x cx0 j n0 Q1 Q2 Q3) as [nd0 [A [B C]]].
    destruct (Nat.eq_dec n n0) as [->|N0]; [rewrite En in A; inversion A; subst; congruence|].
    exists nd0. rewrite nth_error_upd_neq by assumption. auto.
  - intros x cx Hx. cbn in Hx. apply nth_error_upd_inv in Hx. destruct Hx as [[-> [-> _]]|[N Hx]].
    + rewrite H1, H2. exact (iLen st I s c Ec).
    + exact (iLen st I x cx Hx).
  - intros x cx Hx. cbn in Hx. apply nth_error_upd_inv in Hx. destruct Hx as [[-> [-> _]]|[N Hx]].
    + apply H5. exact (iIdx st I s c Ec).
    + exact (iIdx st I x cx Hx).
  - intros n0 nd0 x H0. cbn in H0. unfold rem. cbn [subs set_sub set_node set_subs set_nodes].
    assert (R : forall m, (match nth_error (upd (subs st) s c2) x with Some c0 => cnt (remaining c0) m | None => 0 end)
                  + (if Nat.eq_dec x s then (if Nat.eq_dec n m then 1 else 0) else 0) = rem st x m).
    { intros m. unfold rem. destruct (Nat.eq_dec x s) as [->|Nx].
      - rewrite (nth_error_upd_eq _ _ _ _ Ec), Ec, H4. unfold remaining. rewrite Hk.
        rewrite (cnt_skipn_S _ _ _ Hn m). lia.
      - rewrite nth_error_upd_neq by congruence. lia. }
    specialize (R n0). apply nth_error_upd_inv in H0. destruct H0 as [[-> [-> _]]|[N0 H0]].
    + rewrite Hs'. pose proof (iK st I n nd x En) as K. destruct (Nat.eq_dec x s) as [->|Nx].
      * rewrite cnt_remove_swap_same. destruct (Nat.eq_dec n n); [lia|congruence].
      * rewrite cnt_remove_swap_other by assumption. lia.
    + pose proof (iK st I n0 nd0 x H0) as K. destruct (Nat.eq_dec x s); [destruct (Nat.eq_dec n n0); [congruence|]|]; lia.
  - intros x Hx. apply W. exact (iW1 st I x Hx).
  - intros k e n0 todo x Hk0 Hp0 Hx. apply W. exact (iW2 st I k e n0 todo x Hk0 Hp0 Hx).
  - exact (iG st I).
Qed.

Lemma remaining_knext : forall c i, remaining (c_cpc c (knext c i)) = skipn (S i) (snodes c).
Proof.
  intros c i. unfold knext, remaining. cbn [cpc c_cpc snodes].
  destruct (Nat.ltb (S i) (length (snodes c))) eqn:E; [reflexivity|].
  apply Nat.ltb_ge in E. symmetry. apply skipn_all_nil. exact E.
Qed.

Lemma cpc_ctl : forall c p, remaining (c_cpc c p) = remaining c -> same_ctl c (c_cpc c p).
Proof. intros c p H. repeat split; auto. Qed.

Lemma close_inv : forall st s l st', Forall sub_loc (subs st) -> Inv2 st -> step_close st s = Some (l, st') -> Inv2 st'.
Proof.
  intros st s l st' HL I E. unfold step_close in E.
  destruct (nth_error (subs st) s) as [c|] eqn:Ec; [|discriminate].
  pose proof (Forall_nth_error _ _ _ _ HL Ec) as Hloc.
  destruct (cpc c) eqn:Ek.
  - destruct (spc c) eqn:Ep; try discriminate. inversion E; subst. clear E.
    eapply F_sub; [exact I|exact Ec|]. repeat split; auto. unfold remaining. cbn [cpc c_cpc c_drain c_chan snodes]. rewrite Ek.
    destruct (styps c) eqn:Et.
    + destruct (snodes c); reflexivity.
    + destruct Hloc as [_ [_ [_ P4]]]. destruct (P4 Et) as [_ [_ [X _]]]. rewrite X. reflexivity.
  - destruct (nth_error (snodes c) i) as [n|] eqn:Es; [|discriminate].
    destruct (nth_error (nodes st) n) as [nd|] eqn:En; [|discriminate].
    destruct (holder nd) eqn:Hh; [discriminate|]. inversion E; subst. clear E.
    eapply (F_unsub st s c i n nd); try eassumption; try reflexivity; auto.
    destruct ((match remove_swap s (sinks nd) with [] => true | _ :: _ => false end) && Nat.eqb (nem nd) 0).
    + reflexivity.
    + apply remaining_knext.
  - inversion E; subst. eapply F_sub; [exact I|exact Ec|].
    apply cpc_ctl. unfold remaining. cbn. rewrite Ek. reflexivity.
  - destruct (nth_error (snodes c) i) as [n|]; [|discriminate].
    destruct (nth_error (nodes st) n) as [nd|]; [|discriminate].
    otau_inv E. eapply F_sub; [eapply try_drop_inv; eassumption|rewrite (try_drop_subs _ _ _ E); exact Ec|].
    apply cpc_ctl. rewrite remaining_knext. unfold remaining. rewrite Ek. reflexivity.
  - inversion E; subst. eapply F_sub; [exact I|exact Ec|]. repeat split; auto. unfold remaining. cbn. rewrite Ek. reflexivity.
  - inversion E; subst. eapply F_sub; [apply F_wild; [exact I|reflexivity]|exact Ec|].
    apply cpc_ctl. unfold remaining. cbn. rewrite Ek. reflexivity.
  - destruct (wpend (wild st)); [discriminate|]. inversion E; subst.
    eapply F_sub; [apply F_wild; [exact I|reflexivity]|exact Ec|]. apply cpc_ctl. unfold remaining. cbn. rewrite Ek. reflexivity.
  - destruct (Nat.eqb (rdrs (wild st)) 0); [|discriminate]. inversion E; subst.
    eapply F_sub; [apply F_wild_sub; [exact I|]|exact Ec|].
    + intros x Hx. cbn in Hx. apply filter_In in Hx. left. apply Hx.
    + apply cpc_ctl. unfold remaining. cbn. rewrite Ek. reflexivity.
  - inversion E; subst. eapply F_sub; [exact I|exact Ec|]. repeat split; auto. unfold remaining. cbn. rewrite Ek. reflexivity.
  - destruct (Nat.eqb (drain c) 3); [|discriminate]. inversion E; subst.
    eapply F_sub; [exact I|exact Ec|]. apply cpc_ctl. unfold remaining. cbn. rewrite Ek. reflexivity.
  - inversion E; subst. eapply F_sub; [exact I|exact Ec|]. apply cpc_ctl. unfold remaining. cbn. rewrite Ek. reflexivity.
  - discriminate.
Qed.

Lemma chan_ctl : forall c b cl w d h r, same_ctl c (c_chan c b cl w d h r).
Proof. intros. repeat split; auto. Qed.

Lemma drain_inv : forall st s l st', Inv2 st -> step_drain st s = Some (l, st') -> Inv2 st'.
Proof.
  intros st s l st' I E. unfold step_drain in E.
  destruct (nth_error (subs st) s) as [c|] eqn:Ec; [|discriminate].
  destruct (draining c); [|discriminate]. destruct (buf c).
  - destruct (Nat.eqb (drain c) 2 || closed c); [|discriminate]. inversion E; subst.
    eapply F_sub; [exact I|exact Ec|apply chan_ctl].
  - inversion E; subst. eapply F_sub; [exact I|exact Ec|apply chan_ctl].
Qed.

Lemma req_inv : forall st s l st', Inv2 st -> step_req st s = Some (l, st') -> Inv2 st'.
Proof.
  intros st s l st' I E. unfold step_req in E.
  destruct (nth_error (subs st) s) as [c|] eqn:Ec; [|discriminate]. inversion E; subst.
  eapply F_sub; [exact I|exact Ec|apply chan_ctl].
Qed.

Lemma recv_inv : forall st s l st', Inv2 st -> step_recv st s = Some (l, st') -> Inv2 st'.
Proof.
  intros st s l st' I E. unfold step_recv in E.
  destruct (nth_error (subs st) s) as [c|] eqn:Ec; [|discriminate].
  destruct (want c); [discriminate|]. destruct (buf c).
  - destruct (closed c); [|discriminate]. inversion E; subst. eapply F_sub; [exact I|exact Ec|repeat split; auto].
  - inversion E; subst. eapply F_sub; [exact I|exact Ec|repeat split; auto].
Qed.

Lemma read_inv : forall st s l st', Inv2 st -> step_read st s = Some (l, st') -> Inv2 st'.
Proof.
  intros st s l st' I E. unfold step_read in E.
  destruct (nth_error (subs st) s) as [c|] eqn:Ec; [|discriminate].
  destruct (hand c); [discriminate|]. inversion E; subst. eapply F_sub; [exact I|exact Ec|repeat split; auto].
Qed.

Definition Safe (st : state) : Prop := Forall sub_loc (subs st) /\ Inv2 st.

Lemma step_safe : forall st t l st', Safe st -> step st t = Some (l, st') -> Safe st'.
Proof.
  intros st t l st' [HL I] E. split; [eapply step_loc; eassumption|].
  destruct t; cbn in E;
    eauto using emnew_inv, emclose_inv, emit_inv, sub_inv, replay_inv, close_inv, drain_inv, req_inv, recv_inv, read_inv.
Qed.

Lemma safe_run : forall st sched, Safe st -> Safe (run step st sched).
Proof.
  intros st sched H. apply (invariant_run _ _ _ step Safe); [|exact H].
  intros s t l s' Hs E. eapply step_safe; eassumption.
Qed.

(* C15 — node registration: a node that has an open emitter, a sink or a pending
   withNode caller is the node registered for its type in the bus map (tryDropNode only
   deletes dead nodes); nEmitters counts at least the open emitters of the node. *)
From Coq Require Import List Arith ZArith Bool Lia.
From Verif Require Import c15.Lts c15.Model c15.Spec c15.Proofs_Chan c15.Proofs_Loc c15.Proofs_List c15.Proofs_Safe
  c15.Proofs_Init c15.Proofs_Live c15.Proofs_Pend c15.Proofs_Idx c15.Proofs_Dead c15.Proofs_Prog c15.Proofs_Valid.
Import ListNotations.

Definition nview := (nat * nat * list nat * nat)%type.    (* type, nEmitters, sinks, pending *)
Definition vA (st : state) : list nview := map (fun nd => (nty nd, nem nd, sinks nd, npend nd)) (nodes st).
Definition alive (e : nat) (sk : list nat) (p : nat) : Prop := e > 0 \/ sk <> [] \/ p > 0.
Definition open_cl (c : cl_pc) : bool := match c with C0 | C1 | C2 => true | _ => false end.
Definition openb (n : nat) (q : nat * nat * cl_pc) : bool :=
  let '(a, b, c) := q in Nat.leb 3 a && Nat.eqb b n && open_cl c.

Record RA (vn : list nview) (bm : list (option nat)) (ve : list (nat * nat * cl_pc)) : Prop := {
  ra1 : forall n ty e sk p, nth_error vn n = Some (ty, e, sk, p) -> alive e sk p -> nth_error bm ty = Some (Some n);
  ra2 : forall n ty e sk p, nth_error vn n = Some (ty, e, sk, p) -> cntf (openb n) ve <= e;
  ra3 : forall ty n, nth_error bm ty = Some (Some n) -> exists e sk p, nth_error vn n = Some (ty, e, sk, p);
  ra4 : forall n ty e sk p, nth_error vn n = Some (ty, e, sk, p) -> ty < length bm;
  ra5 : forall j a b c, nth_error ve j = Some (a, b, c) -> 2 <= a -> b < length vn }.
Definition RegA (st : state) : Prop := RA (vA st) (bmap st) (wE st).

Lemma RA_em_neutral : forall vn bm ve j q q', RA vn bm ve -> nth_error ve j = Some q ->
  (forall n, openb n q' = true -> openb n q = true) -> (2 <= fst (fst q') -> snd (fst q') < length vn) -> RA vn bm (upd ve j q').
Proof.
  intros vn bm ve j q q' [A1 A2 A3 A4 A5] Hj Hn Hv.
  assert (E : forall n, cntf (openb n) (upd ve j q') <= cntf (openb n) ve).
  { intros n. pose proof (cntf_upd (openb n) ve j q' q Hj) as X. specialize (Hn n). destruct (openb n q'), (openb n q); try lia; specialize (Hn eq_refl); discriminate. }
  constructor; auto.
  - intros n ty e sk p H. specialize (A2 n ty e sk p H). specialize (E n). lia.
  - intros j0 a b c H Ha. apply nth_error_upd_inv in H. destruct H as [[-> [X _]]|[N H]]; [subst q'; cbn in Hv; auto|eauto].
Qed.

Lemma ra3_upd : forall (vn : list nview) (bm : list (option nat)) n0 ty0 e0 sk0 p0 e' sk' p',
  (forall ty n, nth_error bm ty = Some (Some n) -> exists e sk p, nth_error vn n = Some (ty, e, sk, p)) ->
  nth_error vn n0 = Some (ty0, e0, sk0, p0) ->
  forall ty n, nth_error bm ty = Some (Some n) -> exists e sk p, nth_error (upd vn n0 (ty0, e', sk', p')) n = Some (ty, e, sk, p).
Proof.
  intros vn bm n0 ty0 e0 sk0 p0 e' sk' p' H Hn ty n Hb. destruct (H ty n Hb) as [e [sk [p Q]]]. destruct (Nat.eq_dec n0 n) as [->|N].
  - rewrite Hn in Q. inversion Q; subst. exists e', sk', p'. eapply nth_error_upd_eq, Hn.
  - exists e, sk, p. rewrite nth_error_upd_neq by assumption. exact Q.
Qed.

(* a node changes, staying at most as alive as before *)
Lemma RA_node_weaker : forall vn bm ve n ty e sk p sk' p', RA vn bm ve -> nth_error vn n = Some (ty, e, sk, p) ->
  (alive e sk' p' -> alive e sk p) -> RA (upd vn n (ty, e, sk', p')) bm ve.
Proof.
  intros vn bm ve n ty e sk p sk' p' [A1 A2 A3 A4 A5] Hn Hw. constructor.
  - intros m ty0 e0 sk0 p0 H Ha. apply nth_error_upd_inv in H. destruct H as [[-> [X _]]|[N H]]; [inversion X; subst; eauto|eauto].
  - intros m ty0 e0 sk0 p0 H. apply nth_error_upd_inv in H. destruct H as [[-> [X _]]|[N H]]; [inversion X; subst; eauto|eauto].
  - eapply ra3_upd; eassumption.
  - intros m ty0 e0 sk0 p0 H. apply nth_error_upd_inv in H. destruct H as [[-> [X _]]|[N H]]; [inversion X; subst; eauto|eauto].
  - intros. rewrite upd_length. eauto.
Qed.

(* a registered node changes (but not its emitter count) *)
Lemma RA_node_reg : forall vn bm ve n ty e sk p sk' p', RA vn bm ve -> nth_error vn n = Some (ty, e, sk, p) ->
  nth_error bm ty = Some (Some n) -> RA (upd vn n (ty, e, sk', p')) bm ve.
Proof.
  intros vn bm ve n ty e sk p sk' p' [A1 A2 A3 A4 A5] Hn Hb. constructor.
  - intros m ty0 e0 sk0 p0 H Ha. apply nth_error_upd_inv in H. destruct H as [[-> [X _]]|[N H]]; [inversion X; subst; exact Hb|eauto].
  - intros m ty0 e0 sk0 p0 H. apply nth_error_upd_inv in H. destruct H as [[-> [X _]]|[N H]]; [inversion X; subst; eauto|eauto].
  - eapply ra3_upd; eassumption.
  - intros m ty0 e0 sk0 p0 H. apply nth_error_upd_inv in H. destruct H as [[-> [X _]]|[N H]]; [inversion X; subst; eauto|eauto].
  - intros. rewrite upd_length. eauto.
Qed.

(* lookup creates the node for a type that has no entry *)
Lemma RA_new_node : forall vn bm ve ty, RA vn bm ve -> ty < length bm -> (forall n, nth_error bm ty <> Some (Some n)) ->
  RA (vn ++ [(ty, 0, [], 0)]) (upd bm ty (Some (length vn))) ve.
Proof.
  intros vn bm ve ty [A1 A2 A3 A4 A5] Ht Hb. constructor.
  - intros m ty0 e0 sk0 p0 H Ha. apply nth_error_app_inv in H. destruct H as [H|[-> X]].
    + specialize (A1 m ty0 e0 sk0 p0 H Ha). destruct (Nat.eq_dec ty ty0) as [->|N]; [exfalso; eapply Hb, A1|].
      rewrite nth_error_upd_neq by assumption. exact A1.
    + inversion X; subst. destruct Ha as [Ha|[Ha|Ha]]; try lia. congruence.
  - intros m ty0 e0 sk0 p0 H. apply nth_error_app_inv in H. destruct H as [H|[-> X]]; [eauto|]. inversion X; subst.
    assert (Z : cntf (openb (length vn)) ve = 0); [|lia]. unfold cntf.
    destruct (filter (openb (length vn)) ve) as [|[[a b] c] r] eqn:F; [reflexivity|exfalso].
    assert (Hin : In (a, b, c) (filter (openb (length vn)) ve)) by (rewrite F; left; reflexivity).
    apply filter_In in Hin. destruct Hin as [Hin Ho]. apply In_nth_error in Hin. destruct Hin as [j Hj].
    unfold openb in Ho. apply andb_true_iff in Ho. destruct Ho as [Ho _]. apply andb_true_iff in Ho. destruct Ho as [H3 Hq].
    apply Nat.leb_le in H3. apply Nat.eqb_eq in Hq. specialize (A5 j a b c Hj ltac:(lia)). lia.
  - intros ty0 m H. apply nth_error_upd_inv in H. destruct H as [[-> [X _]]|[N H]].
    + inversion X; subst m. exists 0, [], 0. rewrite nth_error_app2 by lia. rewrite Nat.sub_diag. reflexivity.
    + destruct (A3 ty0 m H) as [e [sk [p Q]]]. exists e, sk, p. apply nth_error_app_old. exact Q.
  - intros m ty0 e0 sk0 p0 H. rewrite upd_length. apply nth_error_app_inv in H. destruct H as [H|[-> X]]; [eauto|inversion X; subst; exact Ht].
  - intros j a b c H Ha. rewrite app_length. specialize (A5 j a b c H Ha). cbn. lia.
Qed.

(* Emitter(): the callback under n.lk - the emitter becomes open, nEmitters++ *)
Lemma RA_open : forall vn bm ve n ty e sk p p' j a b c c', RA vn bm ve -> nth_error vn n = Some (ty, e, sk, p) ->
  nth_error bm ty = Some (Some n) -> nth_error ve j = Some (a, b, c) -> a < 3 ->
  RA (upd vn n (ty, S e, sk, p')) bm (upd ve j (3, n, c')).
Proof.
  intros vn bm ve n ty e sk p p' j a b c c' [A1 A2 A3 A4 A5] Hn Hb Hj Ha.
  assert (O0 : forall m, openb m (a, b, c) = false).
  { intros m. unfold openb. destruct (Nat.leb 3 a) eqn:X; [apply Nat.leb_le in X; lia|reflexivity]. }
  assert (E : forall m, cntf (openb m) (upd ve j (3, n, c')) <= cntf (openb m) ve + (if Nat.eq_dec n m then 1 else 0)).
  { intros m. pose proof (cntf_upd (openb m) ve j (3, n, c') (a, b, c) Hj) as X. rewrite (O0 m) in X.
    destruct (Nat.eq_dec n m) as [->|N]; [destruct (openb m (3, m, c')); lia|].
    assert (Z : openb m (3, n, c') = false) by (unfold openb; cbn; apply Nat.eqb_neq in N; rewrite N; reflexivity). rewrite Z in X. lia. }
  constructor.
  - intros m ty0 e0 sk0 p0 H Hal. apply nth_error_upd_inv in H. destruct H as [[-> [X _]]|[N H]]; [inversion X; subst; exact Hb|eauto].
  - intros m ty0 e0 sk0 p0 H. specialize (E m). apply nth_error_upd_inv in H. destruct H as [[-> [X _]]|[N H]].
    + inversion X; subst. pose proof (A2 _ _ _ _ _ Hn) as Z. destruct (Nat.eq_dec n n); lia.
    + specialize (A2 m ty0 e0 sk0 p0 H). destruct (Nat.eq_dec n m); [congruence|lia].
  - eapply ra3_upd; eassumption.
  - intros m ty0 e0 sk0 p0 H. apply nth_error_upd_inv in H. destruct H as [[-> [X _]]|[N H]]; [inversion X; subst; eauto|eauto].
  - intros j0 a0 b0 c0 H H2. rewrite upd_length. apply nth_error_upd_inv in H. destruct H as [[-> [X _]]|[N H]]; [|eauto].
    inversion X; subst. apply nth_error_Some. congruence.
Qed.

(* Emitter.Close: nEmitters-- by an emitter that was counted *)
Lemma RA_close : forall vn bm ve n ty e sk p j a c', RA vn bm ve -> nth_error vn n = Some (ty, e, sk, p) ->
  nth_error ve j = Some (a, n, C2) -> 3 <= a -> open_cl c' = false ->
  RA (upd vn n (ty, pred e, sk, p)) bm (upd ve j (a, n, c')).
Proof.
  intros vn bm ve n ty e sk p j a c' [A1 A2 A3 A4 A5] Hn Hj Ha Hc.
  assert (O1 : openb n (a, n, C2) = true) by (unfold openb; apply Nat.leb_le in Ha; rewrite Ha, Nat.eqb_refl; reflexivity).
  assert (O2 : forall m, openb m (a, n, c') = false) by (intros m; unfold openb; rewrite Hc, andb_false_r; reflexivity).
  assert (E : forall m, cntf (openb m) (upd ve j (a, n, c')) + (if Nat.eq_dec n m then 1 else 0) <= cntf (openb m) ve).
  { intros m. pose proof (cntf_upd (openb m) ve j (a, n, c') (a, n, C2) Hj) as X. rewrite (O2 m) in X.
    destruct (Nat.eq_dec n m) as [<-|N]; [rewrite O1 in X; lia|]. destruct (openb m (a, n, C2)); lia. }
  constructor.
  - intros m ty0 e0 sk0 p0 H Hal. apply nth_error_upd_inv in H. destruct H as [[-> [X _]]|[N H]]; [|eauto].
    inversion X; subst. apply (A1 _ _ _ _ _ Hn). destruct Hal as [Q|[Q|Q]]; [left; lia|right; left; exact Q|right; right; exact Q].
  - intros m ty0 e0 sk0 p0 H. specialize (E m). apply nth_error_upd_inv in H. destruct H as [[-> [X _]]|[N H]].
    + inversion X; subst. pose proof (A2 _ _ _ _ _ Hn) as Z. destruct (Nat.eq_dec n n); lia.
    + specialize (A2 m ty0 e0 sk0 p0 H). destruct (Nat.eq_dec n m); [congruence|lia].
  - eapply ra3_upd; eassumption.
  - intros m ty0 e0 sk0 p0 H. apply nth_error_upd_inv in H. destruct H as [[-> [X _]]|[N H]]; [inversion X; subst; eauto|eauto].
  - intros j0 a0 b0 c0 H H2. rewrite upd_length. apply nth_error_upd_inv in H. destruct H as [[-> [X _]]|[N H]]; [|eauto].
    inversion X; subst. eapply A5; [exact Hj|lia].
Qed.

(* tryDropNode deletes the entry of a dead node *)
Lemma RA_drop : forall vn bm ve ty n ty', RA vn bm ve -> nth_error bm ty = Some (Some n) -> nth_error vn n = Some (ty', 0, [], 0) ->
  RA vn (upd bm ty None) ve.
Proof.
  intros vn bm ve ty n ty' [A1 A2 A3 A4 A5] Hb Hn. constructor; auto.
  - intros m ty0 e0 sk0 p0 H Hal. specialize (A1 m ty0 e0 sk0 p0 H Hal). destruct (Nat.eq_dec ty ty0) as [->|N].
    + rewrite Hb in A1. inversion A1; subst m. rewrite Hn in H. inversion H; subst. destruct Hal as [Q|[Q|Q]]; try lia. congruence.
    + rewrite nth_error_upd_neq by assumption. exact A1.
  - intros ty0 m H. apply nth_error_upd_inv in H. destruct H as [[_ [X _]]|[N H]]; [discriminate|eauto].
  - intros. rewrite upd_length. eauto.
Qed.


(* ---- on states ------------------------------------------------------------------------- *)
Definition InRange (st : state) : Prop :=
  (forall j m, nth_error (emitters st) j = Some m -> mty m < length (bmap st)) /\
  (forall s c tys ty, nth_error (subs st) s = Some c -> styps c = Some tys -> In ty tys -> ty < length (bmap st)).

Definition fA (nd : node) : nview := (nty nd, nem nd, sinks nd, npend nd).
Definition fO (m : emitter) := (mnew m, mnode m, mcl m).

Definition ra_same (st st' : state) : Prop := vA st' = vA st /\ bmap st' = bmap st /\ wE st' = wE st.
Lemma RegA_same : forall st st', RegA st -> ra_same st st' -> RegA st'.
Proof. intros st st' R [A [B C]]. unfold RegA. rewrite A, B, C. exact R. Qed.

Ltac ra_fin :=
  unfold ra_same, vA, wE;
  cbn [nodes bmap emitters set_emitter set_emitters set_sub set_subs set_node set_nodes set_blk set_bmap set_wild set_emit set_emits set_panicked];
  repeat split; try reflexivity;
  try (eapply (map_upd_same fA); [eassumption|reflexivity]);
  try (eapply (map_upd_same fO); [eassumption|reflexivity]).

Lemma send_ra : forall st s it st', send st s it = Some st' -> ra_same st st'.
Proof.
  intros st s it st' E. unfold send in E. destruct (nth_error (subs st) s) as [c|] eqn:Ec; [|discriminate].
  destruct (closed c); [inversion E; subst; ra_fin|]. destruct (room c); [|discriminate]. inversion E; subst. ra_fin.
Qed.

Lemma try_drop_ra : forall st ty st', RegA st -> try_drop st ty = Some st' -> RegA st' /\ wE st' = wE st /\ vA st' = vA st.
Proof.
  intros st ty st' R E. unfold try_drop in E.
  destruct (nth_error (bmap st) ty) as [[n|]|] eqn:Eb; try (inversion E; subst; auto).
  destruct (nth_error (nodes st) n) as [nd|] eqn:En; [|inversion E; subst; auto].
  destruct (holder nd); [inversion E; subst; auto|].
  destruct (Nat.eqb (npend nd) 0 && Nat.eqb (nem nd) 0 && match sinks nd with [] => true | _ => false end) eqn:Ed; inversion E; subst; auto.
  apply andb_true_iff in Ed. destruct Ed as [Ed E3]. apply andb_true_iff in Ed. destruct Ed as [E1 E2].
  apply Nat.eqb_eq in E1, E2. split; [|split; reflexivity]. unfold RegA. cbn [bmap set_bmap].
  change (vA (set_bmap st (upd (bmap st) ty None))) with (vA st). change (wE (set_bmap st (upd (bmap st) ty None))) with (wE st).
  eapply (RA_drop _ _ _ ty n (nty nd)); [exact R|exact Eb|]. unfold vA. rewrite nth_error_map, En. cbn. rewrite E1, E2.
  destruct (sinks nd); [reflexivity|discriminate].
Qed.

Lemma with_node_ra : forall st ty st1 n, RegA st -> ty < length (bmap st) -> with_node st ty = Some (st1, n) ->
  RegA st1 /\ wE st1 = wE st /\ n < length (nodes st1) /\ length (bmap st1) = length (bmap st).
Proof.
  intros st ty st1 n R Ht E. unfold with_node in E. destruct (lookup st ty) as [sl m] eqn:El.
  destruct (nth_error (nodes sl) m) as [nd|] eqn:En; [|discriminate]. inversion E; subst. clear E.
  assert (G : forall sl0, RegA sl0 -> nth_error (nodes sl0) n = Some nd -> nth_error (bmap sl0) (nty nd) = Some (Some n) ->
              RegA (set_node sl0 n (n_pend nd (S (npend nd))))).
  { intros sl0 R0 En0 Hb. unfold RegA. cbn [bmap set_node set_nodes]. change (wE (set_node sl0 n _)) with (wE sl0).
    unfold vA. cbn [nodes set_node set_nodes]. rewrite (map_upd fA). cbn.
    eapply (RA_node_reg _ _ _ n (nty nd) (nem nd) (sinks nd) (npend nd)); [exact R0|unfold vA; rewrite nth_error_map, En0; reflexivity|exact Hb]. }
  unfold lookup in El. destruct (nth_error (bmap st) ty) as [[k|]|] eqn:Eb.
  - inversion El; subst. split; [|split; [reflexivity|split; [cbn; rewrite upd_length; apply nth_error_Some; congruence|reflexivity]]].
    apply G; [exact R|exact En|]. destruct (ra3 _ _ _ R ty n Eb) as [e [sk [p Q]]]. unfold vA in Q. rewrite nth_error_map, En in Q. inversion Q; subst. exact Eb.
  - inversion El; subst. clear El. cbn in En. rewrite nth_error_app2 in En by lia. rewrite Nat.sub_diag in En. inversion En; subst nd. clear En.
    split; [|split; [reflexivity|split; [cbn; rewrite upd_length, app_length; cbn; lia|cbn; apply upd_length]]].
    apply G.
    + unfold RegA, vA. cbn. rewrite map_app. cbn. rewrite <- (map_length fA (nodes st)).
      apply RA_new_node; [exact R|exact Ht|intros n0 X; congruence].
    + cbn. rewrite nth_error_app2 by lia. rewrite Nat.sub_diag. reflexivity.
    + cbn. eapply nth_error_upd_eq, Eb.
  - apply nth_error_None in Eb. lia.
Qed.

Lemma wE_upd : forall st j m', wE (set_emitter st j m') = upd (wE st) j (fO m').
Proof. intros. unfold wE. cbn. apply (map_upd fO). Qed.

Lemma npend_pos_em : forall st j m nd, Pend st -> nth_error (emitters st) j = Some m -> mnew m = 2 ->
  nth_error (nodes st) (mnode m) = Some nd -> npend nd > 0.
Proof.
  intros st j m nd P Ej E2 En. pose proof (pA _ _ _ _ P (mnode m) (nty nd, npend nd)) as A. unfold vN in A. rewrite nth_error_map, En in A.
  specialize (A eq_refl). cbn in A. unfold pfv in A.
  assert (X : cntf (emb (mnode m)) (vE st) >= 1).
  { unfold cntf. assert (Hin : In (mnew m, mnode m) (filter (emb (mnode m)) (vE st))).
    { apply filter_In. split; [unfold vE; apply in_map_iff; exists m; split; [reflexivity|eapply nth_error_In, Ej]|].
      unfold emb. cbn [fst snd]. rewrite E2, !Nat.eqb_refl. reflexivity. }
    destruct (filter (emb (mnode m)) (vE st)); [contradiction|cbn; lia]. }
  lia.
Qed.

Lemma npend_pos_sub : forall st s c i n nd, Pend st -> nth_error (subs st) s = Some c -> spc c = SApp i n ->
  nth_error (nodes st) n = Some nd -> npend nd > 0.
Proof.
  intros st s c i n nd P Ec Ep En. pose proof (pA _ _ _ _ P n (nty nd, npend nd)) as A. unfold vN in A. rewrite nth_error_map, En in A.
  specialize (A eq_refl). cbn in A. unfold pfv in A.
  assert (X : cntf (sappb n) (vS st) >= 1).
  { unfold cntf. assert (Hin : In (spc c) (filter (sappb n) (vS st))).
    { apply filter_In. split; [unfold vS; apply in_map, (nth_error_In _ _ Ec)|]. rewrite Ep. cbn. apply Nat.eqb_refl. }
    destruct (filter (sappb n) (vS st)); [contradiction|cbn; lia]. }
  lia.
Qed.

Lemma emnew_rega : forall st j l st', Pend st -> Valid st -> InRange st -> RegA st -> step_emnew st j = Some (l, st') -> RegA st'.
Proof.
  intros st j l st' P V [IR _] R E. unfold step_emnew in E. destruct (nth_error (emitters st) j) as [m|] eqn:Ej; [|discriminate].
  assert (Vj : nth_error (wE st) j = Some (mnew m, mnode m, mcl m)) by (unfold wE; rewrite nth_error_map, Ej; reflexivity).
  destruct (mnew m) as [|[|[|[|?]]]] eqn:En; try discriminate.
  - inversion E; subst. unfold RegA. rewrite wE_upd. eapply RA_em_neutral; [exact R|exact Vj| |cbn; lia].
    intros n H. unfold fO, openb in *. cbn in *. discriminate.
  - destruct (with_node st (mty m)) as [[st1 n]|] eqn:Ew; [|discriminate]. inversion E; subst.
    destruct (with_node_ra _ _ _ _ R (IR j m Ej) Ew) as [R1 [W1 [Ln _]]]. unfold RegA. rewrite wE_upd.
    change (vA (set_emitter st1 j _)) with (vA st1). change (bmap (set_emitter st1 j _)) with (bmap st1).
    eapply RA_em_neutral; [exact R1|rewrite W1; exact Vj| |].
    + intros n0 H. unfold fO, openb in H. cbn in H. discriminate.
    + intros _. unfold fO. cbn. unfold vA. rewrite map_length. exact Ln.
  - destruct (nth_error (nodes st) (mnode m)) as [nd|] eqn:Hn; [|discriminate]. destruct (holder nd); [discriminate|]. inversion E; subst.
    unfold RegA. rewrite wE_upd. cbn [bmap set_emitter set_emitters set_node set_nodes].
    change (vA (set_emitter (set_node st (mnode m) ?x) j ?y)) with (vA (set_node st (mnode m) x)).
    unfold vA. cbn [nodes set_emitter set_emitters set_node set_nodes]. rewrite (map_upd fA). unfold fA at 1, fO. cbn.
    eapply (RA_open _ _ _ (mnode m) (nty nd) (nem nd) (sinks nd) (npend nd) _ j 2 (mnode m) (mcl m)); [exact R| | |exact Vj|lia].
    + unfold vA. rewrite nth_error_map, Hn. reflexivity.
    + eapply (ra1 _ _ _ R (mnode m)); [unfold vA; rewrite nth_error_map, Hn; reflexivity|]. right. right. eapply npend_pos_em; eassumption.
  - inversion E; subst. unfold RegA. rewrite wE_upd. eapply RA_em_neutral; [exact R|exact Vj| |].
    + intros n H. unfold fO, openb in *. cbn in *. exact H.
    + intros _. unfold fO. cbn. eapply (ra5 _ _ _ R j); [exact Vj|lia].
Qed.

Lemma emclose_rega : forall st j l st', Valid st -> RegA st -> step_emclose st j = Some (l, st') -> RegA st'.
Proof.
  intros st j l st' V R E. unfold step_emclose in E. destruct (nth_error (emitters st) j) as [m|] eqn:Ej; [|discriminate].
  assert (Vj : nth_error (wE st) j = Some (mnew m, mnode m, mcl m)) by (unfold wE; rewrite nth_error_map, Ej; reflexivity).
  assert (N : forall st0 c p, vA st0 = vA st -> bmap st0 = bmap st -> wE st0 = wE st ->
              (forall n, openb n (mnew m, mnode m, p) = true -> openb n (mnew m, mnode m, mcl m) = true) ->
              RegA (set_emitter st0 j (m_cl m c p))).
  { intros st0 c p A B C H. unfold RegA. rewrite wE_upd. change (vA (set_emitter st0 j _)) with (vA st0). change (bmap (set_emitter st0 j _)) with (bmap st0).
    rewrite A, B, C. eapply RA_em_neutral; [exact R|exact Vj|exact H|]. intros H2. unfold fO in *. cbn in *. eapply (ra5 _ _ _ R j); [exact Vj|exact H2]. }
  destruct (mcl m) eqn:Ec; try discriminate.
  - destruct (Nat.eqb (mnew m) 4); inversion E; subst. apply N; auto; intros n H; unfold openb in *; cbn in *; try exact H; try (rewrite andb_false_r in H; discriminate).
  - inversion E; subst. destruct (mclosed m); apply N; auto; intros n H; unfold openb in *; cbn in *; try exact H; try (rewrite andb_false_r in H; discriminate).
  - destruct (nth_error (nodes st) (mnode m)) as [nd|] eqn:En; [|discriminate]. inversion E; subst. clear E.
    assert (M4 : mnew m = 4) by (destruct V as [_ [_ [_ [V4 _]]]]; apply (V4 j m Ej); congruence).
    unfold RegA. rewrite wE_upd. cbn [bmap set_emitter set_emitters set_node set_nodes].
    change (vA (set_emitter (set_node st (mnode m) ?x) j ?y)) with (vA (set_node st (mnode m) x)).
    unfold vA. cbn [nodes set_emitter set_emitters set_node set_nodes]. rewrite (map_upd fA). unfold fA at 1, fO. cbn.
    eapply (RA_close _ _ _ (mnode m) (nty nd) (nem nd) (sinks nd) (npend nd) j (mnew m)); [exact R| |exact Vj|lia|].
    + unfold vA. rewrite nth_error_map, En. reflexivity.
    + destruct (Nat.eqb (Init.Nat.pred (nem nd)) 0); reflexivity.
  - inversion E; subst. apply N; auto; intros n H; unfold openb in *; cbn in *; try exact H; try (rewrite andb_false_r in H; discriminate).
  - apply otau_Some in E. destruct E as [E _]. apply option_map_Some in E. destruct E as [x [E ->]].
    destruct (try_drop_ra _ _ _ R E) as [R1 [W1 A1]]. unfold RegA. rewrite wE_upd.
    change (vA (set_emitter x j _)) with (vA x). change (bmap (set_emitter x j _)) with (bmap x).
    eapply RA_em_neutral; [exact R1|rewrite W1; exact Vj| |].
    + intros n H. unfold fO, openb in *. cbn in *. rewrite andb_false_r in H. discriminate.
    + intros H2. unfold fO in *. cbn in *. rewrite A1. eapply (ra5 _ _ _ R j); [exact Vj|exact H2].
  - inversion E; subst. apply N; auto; intros n H; unfold openb in *; cbn in *; try exact H; try (rewrite andb_false_r in H; discriminate).
Qed.

Lemma remove_swap_nil : forall s l, remove_swap s l <> [] -> l <> [].
Proof. intros s [|x r] H; [cbn in H; contradiction|discriminate]. Qed.

Lemma sub_rega : forall st s l st', Pend st -> InRange st -> RegA st -> step_sub st s = Some (l, st') -> RegA st'.
Proof.
  intros st s l st' P [_ IR] R E. unfold step_sub in E. destruct (nth_error (subs st) s) as [c|] eqn:Ec; [|discriminate].
  destruct (spc c) eqn:Ep; try solve [brute E; inversion E; subst; (eapply RegA_same; [exact R|ra_fin])].
  - destruct (styps c) as [tys|] eqn:Et; [|discriminate]. destruct (nth_error tys i) as [ty|] eqn:Ei; [|discriminate].
    destruct (with_node st ty) as [[st1 n]|] eqn:Ew; [|discriminate]. inversion E; subst.
    destruct (with_node_ra _ _ _ _ R (IR s c tys ty Ec Et (nth_error_In _ _ Ei)) Ew) as [R1 _].
    eapply RegA_same; [exact R1|ra_fin].
  - destruct (styps c) as [tys|]; [|discriminate]. destruct (nth_error (nodes st) n) as [nd|] eqn:En; [|discriminate].
    destruct (holder nd); [discriminate|]. inversion E; subst. clear E.
    unfold RegA. cbn [bmap set_sub set_subs set_node set_nodes].
    change (wE (set_sub (set_node st n ?x) s ?y)) with (wE st). change (vA (set_sub (set_node st n ?x) s ?y)) with (vA (set_node st n x)).
    unfold vA. cbn [nodes set_node set_nodes]. rewrite (map_upd fA). unfold fA at 1. cbn.
    eapply (RA_node_reg _ _ _ n (nty nd) (nem nd) (sinks nd) (npend nd)); [exact R|unfold vA; rewrite nth_error_map, En; reflexivity|].
    eapply (ra1 _ _ _ R n); [unfold vA; rewrite nth_error_map, En; reflexivity|]. right. right. eapply npend_pos_sub; eassumption.
Qed.

Lemma close_rega : forall st s l st', RegA st -> step_close st s = Some (l, st') -> RegA st'.
Proof.
  intros st s l st' R E. unfold step_close in E. destruct (nth_error (subs st) s) as [c|] eqn:Ec; [|discriminate].
  destruct (cpc c) eqn:Ek; try discriminate; try solve [brute E; inversion E; subst; (eapply RegA_same; [exact R|ra_fin])].
  - destruct (nth_error (snodes c) i) as [n|]; [|discriminate]. destruct (nth_error (nodes st) n) as [nd|] eqn:En; [|discriminate].
    destruct (holder nd); [discriminate|]. inversion E; subst. clear E.
    unfold RegA. cbn [bmap set_sub set_subs set_node set_nodes].
    change (wE (set_sub (set_node st n ?x) s ?y)) with (wE st). change (vA (set_sub (set_node st n ?x) s ?y)) with (vA (set_node st n x)).
    unfold vA. cbn [nodes set_node set_nodes]. rewrite (map_upd fA). unfold fA at 1. cbn.
    eapply (RA_node_weaker _ _ _ n (nty nd) (nem nd) (sinks nd) (npend nd)); [exact R|unfold vA; rewrite nth_error_map, En; reflexivity|].
    intros [H|[H|H]]; [left; exact H|right; left; eapply remove_swap_nil, H|right; right; exact H].
  - destruct (nth_error (snodes c) i) as [n|]; [|discriminate]. destruct (nth_error (nodes st) n) as [nd|]; [|discriminate].
    apply otau_Some in E. destruct E as [E _]. apply option_map_Some in E. destruct E as [x [E ->]].
    destruct (try_drop_ra _ _ _ R E) as [R1 _]. eapply RegA_same; [exact R1|ra_fin].
Qed.

Lemma send_nodes : forall st s it st', send st s it = Some st' -> nodes st' = nodes st.
Proof. intros st s it st' E. unfold send in E. brute E; inversion E; subst; reflexivity. Qed.

Lemma other_ra : forall st t l st', (match t with TEmNew _ | TEmClose _ | TSub _ | TClose _ => False | _ => True end) ->
  step st t = Some (l, st') -> ra_same st st'.
Proof.
  intros st t l st' Ht E. destruct t; try contradiction; cbn [step] in E.
  - unfold step_emit in E. destruct (nth_error (emits st) k) as [e|] eqn:Ek; [|discriminate].
    destruct (nth_error (emitters st) (eem e)) as [m|]; [|discriminate].
    destruct (epc e) as [| | |n [|x r]|n|n|n [|x r]|c|]; try discriminate; try solve [brute E; inversion E; subst; ra_fin].
    + apply otau_Some in E. destruct E as [E _]. apply option_map_Some in E. destruct E as [x0 [E ->]]. destruct (send_ra _ _ _ _ E) as [A [B C]]. ra_fin; assumption.
    + apply otau_Some in E. destruct E as [E _]. apply option_map_Some in E. destruct E as [x0 [E ->]]. destruct (send_ra _ _ _ _ E) as [A [B C]]. ra_fin; assumption.
  - unfold step_replay in E. destruct (nth_error (subs st) s) as [c|] eqn:Ec; [|discriminate].
    destruct (nth_error (rpend c) i) as [[|]|]; try discriminate.
    destruct (nth_error (snodes c) i) as [n|]; [|discriminate]. destruct (nth_error (nodes st) n) as [nd|] eqn:En; [|discriminate].
    destruct (keep nd); [destruct (nlast nd) as [lv|]|]; try solve [inversion E; subst; ra_fin].
    apply otau_Some in E. destruct E as [E _]. apply option_map_Some in E. destruct E as [x [E ->]]. destruct (send_ra _ _ _ _ E) as [A [B C]].
    destruct (nth_error (subs x) s) as [c'|]; [|unfold ra_same; auto].
    unfold ra_same. cbn [bmap set_node set_nodes set_sub set_subs]. change (wE (set_node (set_sub x s ?a) n ?b)) with (wE x).
    split; [|split; assumption]. unfold vA. cbn [nodes set_node set_nodes set_sub set_subs]. rewrite (send_nodes _ _ _ _ E).
    apply (map_upd_same fA _ n _ nd); [exact En|reflexivity].
  - unfold step_drain in E. destruct (nth_error (subs st) s) as [c|] eqn:Ec; [|discriminate]. brute E; inversion E; subst; ra_fin.
  - unfold step_req in E. destruct (nth_error (subs st) s) as [c|] eqn:Ec; [|discriminate]. inversion E; subst; ra_fin.
  - unfold step_recv in E. destruct (nth_error (subs st) s) as [c|] eqn:Ec; [|discriminate]. brute E; inversion E; subst; ra_fin.
  - unfold step_read in E. destruct (nth_error (subs st) s) as [c|] eqn:Ec; [|discriminate]. brute E; inversion E; subst; ra_fin.
Qed.

Lemma step_rega : forall st t l st', Pend st -> Valid st -> InRange st -> RegA st -> step st t = Some (l, st') -> RegA st'.
Proof.
  intros st t l st' P V IR R E.
  destruct t; try (eapply RegA_same; [exact R|eapply other_ra; [|exact E]; exact I]); cbn [step] in E.
  - eapply emnew_rega; eassumption.
  - eapply emclose_rega; eassumption.
  - eapply sub_rega; eassumption.
  - eapply close_rega; eassumption.
Qed.

Lemma initial_rega : forall st, fresh_init st -> RegA st.
Proof.
  intros st [[Hn _] [He Hb]]. unfold RegA, vA. rewrite Hn. cbn. constructor.
  - intros n ty e sk p H. destruct n; discriminate.
  - intros n ty e sk p H. destruct n; discriminate.
  - intros ty n H. rewrite Forall_forall in Hb. specialize (Hb _ (nth_error_In _ _ H)). discriminate.
  - intros n ty e sk p H. destruct n; discriminate.
  - intros j a b c H Ha. unfold wE in H. rewrite nth_error_map in H. destruct (nth_error (emitters st) j) as [m|] eqn:Ej; [|discriminate].
    inversion H; subst. rewrite Forall_forall in He. destruct (He m (nth_error_In _ _ Ej)) as [X _]. lia.
Qed.

Lemma with_node_blen : forall st ty st1 n, with_node st ty = Some (st1, n) -> length (bmap st1) = length (bmap st).
Proof.
  intros st ty st1 n E. unfold with_node in E. destruct (lookup st ty) as [sl m] eqn:El.
  destruct (nth_error (nodes sl) m); inversion E; subst. cbn.
  unfold lookup in El. destruct (nth_error (bmap st) ty) as [[k|]|]; inversion El; subst; cbn; rewrite ?upd_length; reflexivity.
Qed.
Lemma try_drop_blen : forall st ty st', try_drop st ty = Some st' -> length (bmap st') = length (bmap st).
Proof. intros st ty st' E. unfold try_drop in E. brute E; inversion E; subst; cbn; rewrite ?upd_length; reflexivity. Qed.

Lemma bmap_len_step : forall st t l st', step st t = Some (l, st') -> length (bmap st') = length (bmap st).
Proof.
  intros st t l st' E.
  destruct t as [j|j|k|s|s i|s|s|s|s|s]; try (apply other_ra in E; [destruct E as [_ [B _]]; rewrite B; reflexivity|exact I]); cbn [step] in E.
  - unfold step_emnew in E. destruct (nth_error (emitters st) j) as [m|]; [|discriminate].
    destruct (mnew m) as [|[|[|[|?]]]]; try discriminate; try solve [brute E; inversion E; subst; reflexivity].
    destruct (with_node st (mty m)) as [[st1 n]|] eqn:Ew; [|discriminate]. inversion E; subst. cbn. eapply with_node_blen, Ew.
  - unfold step_emclose in E. destruct (nth_error (emitters st) j) as [m|]; [|discriminate].
    destruct (mcl m); try discriminate; try solve [brute E; inversion E; subst; reflexivity].
    apply otau_Some in E. destruct E as [E _]. apply option_map_Some in E. destruct E as [x [E ->]]. cbn. eapply try_drop_blen, E.
  - unfold step_sub in E. destruct (nth_error (subs st) s) as [c|]; [|discriminate].
    destruct (spc c); try solve [brute E; inversion E; subst; reflexivity].
    destruct (styps c) as [tys|]; [|discriminate]. destruct (nth_error tys i) as [ty|]; [|discriminate].
    destruct (with_node st ty) as [[st1 n]|] eqn:Ew; [|discriminate]. inversion E; subst. cbn. eapply with_node_blen, Ew.
  - unfold step_close in E. destruct (nth_error (subs st) s) as [c|]; [|discriminate].
    destruct (cpc c); try discriminate; try solve [brute E; inversion E; subst; reflexivity].
    destruct (nth_error (snodes c) i) as [n|]; [|discriminate]. destruct (nth_error (nodes st) n) as [nd|]; [|discriminate].
    apply otau_Some in E. destruct E as [E _]. apply option_map_Some in E. destruct E as [x [E ->]]. cbn. eapply try_drop_blen, E.
Qed.

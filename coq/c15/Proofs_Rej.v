(* C15 — the rejected Subscribe call (an entry of its type list is not a pointer / is nil;
   in the model: the subscription with styps = Some []).
   1. It is a no-op on the bus state: each of its two steps (start, return of the error)
      changes nothing but its own program counter.
   2. Coupling with the trace: an error return of Subscribe (label LRet (TSub s) 1) is seen
      only for such a call, for every schedule - so the monitor's "root" clause, which
      refuses to blame the channel of a rejected call, loses no root of the model. *)
From Coq Require Import List Arith ZArith Bool Lia.
From Verif Require Import c15.Lts c15.Model c15.Spec c15.Proofs c15.Proofs_Chan c15.Proofs_Loc c15.Proofs_List c15.Proofs_Safe
  c15.Proofs_Init c15.Proofs_Live c15.Proofs_Grow c15.Proofs_Obs.
Import ListNotations.
Local Open Scope Z_scope.

Definition rejected_sub (c : sub) : Prop := styps c = Some [].

(* ---- 1. no-op ------------------------------------------------------------------------ *)
Lemma rejected_subscribe_noop : forall st s c l st',
  nth_error (subs st) s = Some c -> rejected_sub c -> (spc c = S0 \/ spc c = SRet) ->
  step st (TSub s) = Some (l, st') ->
  nodes st' = nodes st /\ bmap st' = bmap st /\ wild st' = wild st /\ emitters st' = emitters st /\
  emits st' = emits st /\ panicked st' = panicked st /\ blk st' = blk st /\
  exists p, subs st' = upd (subs st) s (c_spc c p) /\
    ((spc c = S0 /\ p = SRet /\ l = Some (LStart (TSub s))) \/ (spc c = SRet /\ p = SDone /\ l = Some (LRet (TSub s) 1))).
Proof.
  intros st s c l st' Ec R P E. cbn [step] in E. unfold step_sub in E. rewrite Ec in E. unfold rejected_sub in R.
  destruct P as [P|P]; rewrite P, R in E; unfold vis in E; inversion E; subst; cbn; repeat split; eexists; (split; [reflexivity|]); auto.
Qed.

(* the two steps are always enabled: a rejected Subscribe never waits for anything *)
Lemma rejected_subscribe_never_blocks : forall st s c,
  nth_error (subs st) s = Some c -> rejected_sub c -> (spc c = S0 \/ spc c = SRet) ->
  exists l st', step st (TSub s) = Some (l, st').
Proof.
  intros st s c Ec R P. cbn [step]. unfold step_sub. rewrite Ec. unfold rejected_sub in R.
  destruct P as [P|P]; rewrite P, R; unfold vis; eauto.
Qed.

(* ---- 2. error returns in the trace ----------------------------------------------------- *)
Definition RejI (st : state) (tr : list label) : Prop :=
  forall x, o_rejected tr x = true -> exists c, nth_error (subs st) x = Some c /\ rejected_sub c.

Lemma o_rejected_app : forall tr l x, o_rejected (tr ++ olab l) x = o_rejected tr x || match l with Some lab => lab_is_ret_code (TSub x) 1 lab | None => false end.
Proof. intros. unfold o_rejected. rewrite existsb_app. destruct l; cbn; rewrite ?orb_false_r; reflexivity. Qed.

Lemma err_return_is_rejected : forall st t x st', step st t = Some (Some (LRet (TSub x) 1), st') ->
  exists c, nth_error (subs st) x = Some c /\ rejected_sub c.
Proof.
  intros st t x st' E. destruct t; cbn [step] in E.
  - unfold step_emnew, vis, tau in E. brute E; inversion E.
  - unfold step_emclose, vis, tau, otau in E. brute E; inversion E.
  - unfold step_emit, vis, tau, otau in E. brute E; inversion E.
  - unfold step_sub, vis, tau in E. destruct (nth_error (subs st) s) as [c|] eqn:Ec; [|discriminate].
    brute E; inversion E; subst. exists c. split; [exact Ec|assumption].
  - unfold step_replay, tau, otau in E. brute E; inversion E.
  - unfold step_close, vis, tau, otau in E. brute E; inversion E.
  - unfold step_drain, tau in E. brute E; inversion E.
  - unfold step_req, vis in E. brute E; inversion E.
  - unfold step_recv, tau in E. brute E; inversion E.
  - unfold step_read, vis in E. brute E; inversion E.
Qed.

Lemma step_rej : forall st t l st' tr, RejI st tr -> step st t = Some (l, st') -> RejI st' (tr ++ olab l).
Proof.
  intros st t l st' tr H E x Hx. rewrite o_rejected_app in Hx.
  assert (K : exists c, nth_error (subs st) x = Some c /\ rejected_sub c).
  { destruct (o_rejected tr x) eqn:Hr; [apply H, Hr|]. cbn in Hx. destruct l as [lab|]; [|discriminate].
    destruct lab as [t0|t0 code|s0|s0 v]; cbn [lab_is_ret_code] in Hx; try discriminate. apply andb_true_iff in Hx. destruct Hx as [A B].
    apply thr_eqb_eq in A. apply Z.eqb_eq in B. subst t0 code. eapply err_return_is_rejected, E. }
  destruct K as [c [Ec R]]. destruct (Grows_nth _ _ _ _ (step_grows _ _ _ _ E) Ec) as [c' [Ec' [_ [_ [_ [T _]]]]]].
  exists c'. split; [exact Ec'|]. unfold rejected_sub in *. congruence.
Qed.

Lemma rej_run_gen : forall sched st tr, RejI st tr -> RejI (run step st sched) (tr ++ trace step st sched).
Proof.
  induction sched as [|t r IH]; intros st tr O; cbn.
  - rewrite app_nil_r. exact O.
  - destruct (step st t) as [[l st']|] eqn:E.
    + pose proof (step_rej st t l st' tr O E) as O'. specialize (IH st' _ O').
      destruct l as [lab|]; cbn in IH |- *; [rewrite <- app_assoc in IH; exact IH|rewrite app_nil_r in IH; exact IH].
    + apply IH, O.
Qed.

(* for every schedule from any state: an error return of Subscribe in the trace belongs to a rejected call *)
Lemma rej_run : forall st sched, RejI (run step st sched) (trace step st sched).
Proof. intros st sched. apply (rej_run_gen sched st []). intros x Hx. discriminate. Qed.

(* a subscription that is wired to some type was not rejected *)
Lemma not_rejected : forall st tr x c, RejI st tr -> nth_error (subs st) x = Some c -> styps c <> Some [] -> o_rejected tr x = false.
Proof.
  intros st tr x c H Ec N. destruct (o_rejected tr x) eqn:R; [|reflexivity]. exfalso.
  destruct (H x R) as [c' [Ec' R']]. rewrite Ec in Ec'. inversion Ec'; subst c'. exact (N R').
Qed.

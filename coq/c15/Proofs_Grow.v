(* C15 — histories only grow: along any run, the send history, the promise
   list and the consumer's received list of every subscription are extended
   at the end, never rewritten.  Hence the order in which two items sit in a
   channel history is the order in which they were sent. *)
From Coq Require Import List Arith ZArith Bool Lia.
From Verif Require Import c15.Lts c15.Model c15.Proofs_Chan c15.Proofs_Loc c15.Proofs_List.
Import ListNotations.

Definition grows (c c' : sub) : Prop :=
  (exists h, hist c' = hist c ++ h) /\ (exists e, expd c' = expd c ++ e) /\ (exists r, recv c' = recv c ++ r) /\
  styps c' = styps c /\ ccap c' = ccap c.

Lemma grows_refl : forall c, grows c c.
Proof. intros c. repeat split; try (exists []; rewrite app_nil_r; reflexivity). Qed.

Lemma grows_trans : forall a b c, grows a b -> grows b c -> grows a c.
Proof.
  intros a b c [[h1 H1] [[e1 E1] [[r1 R1] [T1 C1]]]] [[h2 H2] [[e2 E2] [[r2 R2] [T2 C2]]]]. repeat split.
  - exists (h1 ++ h2). rewrite H2, H1, app_assoc. reflexivity.
  - exists (e1 ++ e2). rewrite E2, E1, app_assoc. reflexivity.
  - exists (r1 ++ r2). rewrite R2, R1, app_assoc. reflexivity.
  - congruence.
  - congruence.
Qed.

Definition Grows (l l' : list sub) : Prop := Forall2 grows l l'.

Lemma Grows_refl : forall l, Grows l l.
Proof. induction l; constructor; [apply grows_refl|assumption]. Qed.

Lemma Grows_trans : forall a b c, Grows a b -> Grows b c -> Grows a c.
Proof.
  intros a b c H. revert c. induction H; intros c0 H2; inversion H2; subst; constructor.
  - eapply grows_trans; eassumption.
  - apply IHForall2. assumption.
Qed.

Lemma Grows_upd : forall l s c c', nth_error l s = Some c -> grows c c' -> Grows l (upd l s c').
Proof.
  induction l as [|a l IH]; intros [|s] c c' H G; cbn in *; try discriminate.
  - inversion H; subst. constructor; [exact G|apply Grows_refl].
  - constructor; [apply grows_refl|eapply IH; eassumption].
Qed.

Lemma Grows_expect : forall l tg it i, Grows l (expect_all l tg it i).
Proof.
  induction l as [|c l IH]; intros; cbn; constructor; [|apply IH].
  repeat split; try (exists []; rewrite app_nil_r; reflexivity). eexists. reflexivity.
Qed.

Lemma Grows_nth : forall l l' s c, Grows l l' -> nth_error l s = Some c -> exists c', nth_error l' s = Some c' /\ grows c c'.
Proof.
  intros l l' s c H. revert s. induction H; intros [|s] E; cbn in *; try discriminate.
  - inversion E; subst. eauto.
  - apply IHForall2. exact E.
Qed.

Ltac ctl_grows := repeat split; try (exists []; rewrite app_nil_r; reflexivity).

Lemma send_grows : forall st s it st', send st s it = Some st' -> Grows (subs st) (subs st').
Proof.
  intros st s it st' E. unfold send in E. destruct (nth_error (subs st) s) as [c|] eqn:Ec; [|discriminate].
  destruct (closed c). { inversion E; subst. apply Grows_refl. }
  destruct (room c); [|discriminate]. inversion E; subst. cbn. eapply Grows_upd; [exact Ec|].
  ctl_grows. eexists. reflexivity.
Qed.

Lemma emit_grows : forall st k l st', step_emit st k = Some (l, st') -> Grows (subs st) (subs st').
Proof.
  intros st k l st' E. unfold step_emit in E.
  destruct (nth_error (emits st) k) as [e|]; [|discriminate].
  destruct (nth_error (emitters st) (eem e)) as [m|]; [|discriminate].
  destruct (epc e) as [| | |n todo|n|n|n todo|c|].
  - destruct (Nat.eqb (mnew m) 4); inversion E; subst; apply Grows_refl.
  - inversion E; subst; apply Grows_refl.
  - destruct (nth_error (nodes st) (mnode m)) as [nd|]; [|discriminate].
    destruct (holder nd); [discriminate|]. inversion E; subst. cbn. apply Grows_expect.
  - destruct todo as [|s r].
    + destruct (nth_error (nodes st) n); inversion E; subst; apply Grows_refl.
    + otau_inv E. cbn. eapply send_grows; eassumption.
  - inversion E; subst; apply Grows_refl.
  - destruct (wpend (wild st)); [discriminate|]. inversion E; subst. cbn. apply Grows_expect.
  - destruct todo as [|s r].
    + inversion E; subst; apply Grows_refl.
    + otau_inv E. cbn. eapply send_grows; eassumption.
  - inversion E; subst; apply Grows_refl.
  - discriminate.
Qed.

Lemma sub_grows : forall st s l st', step_sub st s = Some (l, st') -> Grows (subs st) (subs st').
Proof.
  intros st s l st' E. unfold step_sub in E.
  destruct (nth_error (subs st) s) as [c|] eqn:Ec; [|discriminate].
  destruct (spc c) eqn:Ep.
  - destruct (styps c); inversion E; subst; cbn; (eapply Grows_upd; [exact Ec|ctl_grows]).
  - destruct (styps c) as [tys|]; [|discriminate]. destruct (nth_error tys i) as [ty|]; [|discriminate].
    destruct (with_node st ty) as [[st1 n]|] eqn:Ew; [|discriminate]. inversion E; subst. cbn.
    rewrite (with_node_subs _ _ _ _ Ew). eapply Grows_upd; [exact Ec|ctl_grows].
  - destruct (styps c) as [tys|]; [|discriminate].
    destruct (nth_error (nodes st) n) as [nd|]; [|discriminate].
    destruct (holder nd); [discriminate|]. inversion E; subst. cbn.
    eapply Grows_upd; [exact Ec|]. destruct (keep nd); [destruct (nlast nd)|]; ctl_grows. eexists. reflexivity.
  - inversion E; subst; cbn; (eapply Grows_upd; [exact Ec|ctl_grows]).
  - destruct (wpend (wild st)); [discriminate|]. inversion E; subst; cbn; (eapply Grows_upd; [exact Ec|ctl_grows]).
  - destruct (Nat.eqb (rdrs (wild st)) 0); [|discriminate]. inversion E; subst; cbn; (eapply Grows_upd; [exact Ec|ctl_grows]).
  - inversion E; subst; cbn; (eapply Grows_upd; [exact Ec|ctl_grows]).
  - destruct (styps c); discriminate.
Qed.

Lemma replay_grows : forall st s i l st', step_replay st s i = Some (l, st') -> Grows (subs st) (subs st').
Proof.
  intros st s i l st' E. unfold step_replay in E.
  destruct (nth_error (subs st) s) as [c|] eqn:Ec; [|discriminate].
  destruct (nth_error (rpend c) i) as [[|]|]; try discriminate.
  destruct (nth_error (snodes c) i) as [n|]; [|discriminate].
  destruct (nth_error (nodes st) n) as [nd|]; [|discriminate].
  assert (Hfin : forall st0, Grows (subs st0)
     (subs (match nth_error (subs st0) s with
            | Some c' => set_node (set_sub st0 s (c_rpend c' (upd (rpend c') i false))) n (n_holder nd None)
            | None => st0 end))).
  { intros st0. destruct (nth_error (subs st0) s) as [c'|] eqn:Ec'; [|apply Grows_refl]. cbn.
    eapply Grows_upd; [exact Ec'|ctl_grows]. }
  destruct (keep nd); [destruct (nlast nd) as [lv|]|].
  - otau_inv E. eapply Grows_trans; [eapply send_grows; eassumption|apply Hfin].
  - inversion E; subst. cbn. eapply Grows_upd; [exact Ec|ctl_grows].
  - inversion E; subst. cbn. eapply Grows_upd; [exact Ec|ctl_grows].
Qed.

Lemma close_grows : forall st s l st', step_close st s = Some (l, st') -> Grows (subs st) (subs st').
Proof.
  intros st s l st' E. unfold step_close in E.
  destruct (nth_error (subs st) s) as [c|] eqn:Ec; [|discriminate].
  destruct (cpc c).
  - destruct (spc c); try discriminate. inversion E; subst. cbn. eapply Grows_upd; [exact Ec|ctl_grows].
  - destruct (nth_error (snodes c) i) as [n|]; [|discriminate].
    destruct (nth_error (nodes st) n) as [nd|]; [|discriminate].
    destruct (holder nd); [discriminate|]. inversion E; subst. cbn. eapply Grows_upd; [exact Ec|ctl_grows].
  - inversion E; subst. cbn. eapply Grows_upd; [exact Ec|ctl_grows].
  - destruct (nth_error (snodes c) i) as [n|]; [|discriminate].
    destruct (nth_error (nodes st) n) as [nd|]; [|discriminate].
    otau_inv E. cbn. rewrite (try_drop_subs _ _ _ E). eapply Grows_upd; [exact Ec|ctl_grows].
  - inversion E; subst. cbn. eapply Grows_upd; [exact Ec|ctl_grows].
  - inversion E; subst. cbn. eapply Grows_upd; [exact Ec|ctl_grows].
  - destruct (wpend (wild st)); [discriminate|]. inversion E; subst. cbn. eapply Grows_upd; [exact Ec|ctl_grows].
  - destruct (Nat.eqb (rdrs (wild st)) 0); [|discriminate]. inversion E; subst. cbn. eapply Grows_upd; [exact Ec|ctl_grows].
  - inversion E; subst. cbn. eapply Grows_upd; [exact Ec|ctl_grows].
  - destruct (Nat.eqb (drain c) 3); [|discriminate]. inversion E; subst. cbn. eapply Grows_upd; [exact Ec|ctl_grows].
  - inversion E; subst. cbn. eapply Grows_upd; [exact Ec|ctl_grows].
  - discriminate.
Qed.

Lemma drain_grows : forall st s l st', step_drain st s = Some (l, st') -> Grows (subs st) (subs st').
Proof.
  intros st s l st' E. unfold step_drain in E.
  destruct (nth_error (subs st) s) as [c|] eqn:Ec; [|discriminate].
  destruct (draining c); [|discriminate]. destruct (buf c).
  - destruct (Nat.eqb (drain c) 2 || closed c); [|discriminate]. inversion E; subst. cbn. eapply Grows_upd; [exact Ec|ctl_grows].
  - inversion E; subst. cbn. eapply Grows_upd; [exact Ec|ctl_grows].
Qed.

Lemma req_grows : forall st s l st', step_req st s = Some (l, st') -> Grows (subs st) (subs st').
Proof.
  intros st s l st' E. unfold step_req in E.
  destruct (nth_error (subs st) s) as [c|] eqn:Ec; [|discriminate]. inversion E; subst. cbn.
  eapply Grows_upd; [exact Ec|ctl_grows].
Qed.

Lemma recv_grows : forall st s l st', step_recv st s = Some (l, st') -> Grows (subs st) (subs st').
Proof.
  intros st s l st' E. unfold step_recv in E.
  destruct (nth_error (subs st) s) as [c|] eqn:Ec; [|discriminate].
  destruct (want c); [discriminate|]. destruct (buf c).
  - destruct (closed c); [|discriminate]. inversion E; subst. cbn. eapply Grows_upd; [exact Ec|ctl_grows].
  - inversion E; subst. cbn. eapply Grows_upd; [exact Ec|ctl_grows]. eexists. reflexivity.
Qed.

Lemma read_grows : forall st s l st', step_read st s = Some (l, st') -> Grows (subs st) (subs st').
Proof.
  intros st s l st' E. unfold step_read in E.
  destruct (nth_error (subs st) s) as [c|] eqn:Ec; [|discriminate].
  destruct (hand c); [discriminate|]. inversion E; subst. cbn. eapply Grows_upd; [exact Ec|ctl_grows].
Qed.

Lemma step_grows : forall st t l st', step st t = Some (l, st') -> Grows (subs st) (subs st').
Proof.
  intros st t l st' E. destruct t; cbn in E;
    eauto using emit_grows, sub_grows, replay_grows, close_grows, drain_grows, req_grows, recv_grows, read_grows.
  - rewrite (emnew_subs _ _ _ _ E). apply Grows_refl.
  - rewrite (emclose_subs _ _ _ _ E). apply Grows_refl.
Qed.

Lemma run_grows : forall sched st, Grows (subs st) (subs (run step st sched)).
Proof.
  intros sched st. apply (relation_run _ _ _ step (fun a b => Grows (subs a) (subs b))).
  - intros. apply Grows_refl.
  - intros a b c. apply Grows_trans.
  - intros s t l s' E. eapply step_grows, E.
Qed.

(* order in a channel = order of sending: whatever is in s's history after
   [sched] is still there, in the same positions, after any continuation *)
Lemma history_append_only_l : forall st sched more s c,
  nth_error (subs (run step st sched)) s = Some c ->
  exists c', nth_error (subs (run step st (sched ++ more))) s = Some c' /\
    (exists h, hist c' = hist c ++ h) /\ (exists e, expd c' = expd c ++ e) /\ (exists r, recv c' = recv c ++ r).
Proof.
  intros st sched more s c Hc. rewrite run_app.
  destruct (Grows_nth _ _ s c (run_grows more (run step st sched)) Hc) as [c' [A [B [C [D _]]]]]. eauto.
Qed.

(* C15 — towards the read clauses of the monitor (rules 1-3): every value a
   consumer reports was sent into its channel, and everything sent into a
   channel is the event of an Emit call that has started, of a type the
   subscription subscribes to (or any type, for a wildcard subscription). *)
From Coq Require Import List Arith ZArith Bool Lia.
From Verif Require Import c15.Lts c15.Model c15.Spec c15.Proofs c15.Proofs_Chan c15.Proofs_Loc c15.Proofs_List c15.Proofs_Safe
  c15.Proofs_Init c15.Proofs_Live c15.Proofs_Pend c15.Proofs_Idx c15.Proofs_Dead c15.Proofs_Prog c15.Proofs_Valid c15.Proofs_WildOK
  c15.Proofs_Once c15.Proofs_First c15.Proofs_Blk c15.Proofs_Obs c15.Proofs_Loc3 c15.Proofs_WSI c15.Proofs_TY c15.Proofs_Rule13 c15.Proofs_Grow c15.Proofs_Thm c15.Proofs_Wild.
Import ListNotations.
Local Open Scope Z_scope.

(* ---- (a) what the consumer holds or has received came out of the channel history ---- *)
Definition from_hist (c : sub) : Prop :=
  incl (recv c) (hist c) /\ incl (buf c) (hist c) /\ (forall v, In v (hand c) -> v = -2 \/ In v (map snd (recv c))).

Ltac fh_sub Ec :=
  let y := fresh in let Hy := fresh in let Py := fresh in
  intros y Hy Py; rewrite Ec in Hy; inversion Hy; subst; clear Hy; destruct Py as [R1 [R2 R3]]; unfold from_hist; cbn.

Lemma send_fh : forall st s it st', Forall from_hist (subs st) -> send st s it = Some st' -> Forall from_hist (subs st').
Proof.
  intros st s it st' H E. unfold send in E. destruct (nth_error (subs st) s) as [c|] eqn:Ec; [|discriminate].
  destruct (closed c). { inversion E; subst. exact H. }
  destruct (room c); [|discriminate]. inversion E; subst. cbn. apply Forall_upd; [exact H|]. fh_sub Ec.
  repeat split; auto.
  - intros x Hx. apply in_or_app. left. apply R1, Hx.
  - intros x Hx. apply in_app_or in Hx. apply in_or_app. destruct Hx as [Hx|Hx]; [left; apply R2, Hx|right; exact Hx].
Qed.

Lemma expect_fh : forall l tg it i, Forall from_hist l -> Forall from_hist (expect_all l tg it i).
Proof. induction l as [|c l IH]; intros tg it i H; cbn; [constructor|]. inversion H; subst. constructor; [exact H2|apply IH; assumption]. Qed.

Lemma step_fh : forall st t l st', Forall from_hist (subs st) -> step st t = Some (l, st') -> Forall from_hist (subs st').
Proof.
  intros st t l st' H E. destruct t; cbn [step] in E.
  - rewrite (emnew_subs _ _ _ _ E). exact H.
  - rewrite (emclose_subs _ _ _ _ E). exact H.
  - unfold step_emit in E. destruct (nth_error (emits st) k) as [e|]; [|discriminate].
    destruct (nth_error (emitters st) (eem e)) as [m|]; [|discriminate].
    destruct (epc e) as [| | |n [|x r]|n|n|n [|x r]|c|]; try discriminate;
      try solve [brute E; inversion E; subst; cbn; try apply expect_fh; exact H];
      otau_inv E; cbn; eapply send_fh; eassumption.
  - unfold step_sub in E. destruct (nth_error (subs st) s) as [c|] eqn:Ec; [|discriminate].
    destruct (spc c) eqn:Ep.
    + destruct (styps c); inversion E; subst; cbn; (apply Forall_upd; [exact H|]); fh_sub Ec; auto.
    + destruct (styps c) as [tys|]; [|discriminate]. destruct (nth_error tys i) as [ty|]; [|discriminate].
      destruct (with_node st ty) as [[st1 n]|] eqn:Ew; [|discriminate]. inversion E; subst. cbn.
      rewrite (with_node_subs _ _ _ _ Ew). apply Forall_upd; [exact H|]. fh_sub Ec. auto.
    + destruct (styps c) as [tys|]; [|discriminate]. destruct (nth_error (nodes st) n) as [nd|]; [|discriminate].
      destruct (holder nd); [discriminate|]. inversion E; subst. cbn. apply Forall_upd; [exact H|].
      destruct (keep nd); [destruct (nlast nd)|]; fh_sub Ec; auto.
    + inversion E; subst; cbn; (apply Forall_upd; [exact H|]); fh_sub Ec; auto.
    + destruct (wpend (wild st)); [discriminate|]. inversion E; subst; cbn; (apply Forall_upd; [exact H|]); fh_sub Ec; auto.
    + destruct (Nat.eqb (rdrs (wild st)) 0); [|discriminate]. inversion E; subst; cbn; (apply Forall_upd; [exact H|]); fh_sub Ec; auto.
    + inversion E; subst; cbn; (apply Forall_upd; [exact H|]); fh_sub Ec; auto.
    + destruct (styps c); discriminate.
  - unfold step_replay in E. destruct (nth_error (subs st) s) as [c|] eqn:Ec; [|discriminate].
    destruct (nth_error (rpend c) i) as [[|]|]; try discriminate.
    destruct (nth_error (snodes c) i) as [n|]; [|discriminate]. destruct (nth_error (nodes st) n) as [nd|]; [|discriminate].
    destruct (keep nd); [destruct (nlast nd) as [lv|]|]; try solve [inversion E; subst; cbn; apply Forall_upd; [exact H|]; fh_sub Ec; auto].
    otau_inv E. pose proof (send_fh _ _ _ _ H E) as H1. destruct (nth_error (subs x) s) as [c'|] eqn:Ec'; [|exact H1]. cbn.
    apply Forall_upd; [exact H1|]. fh_sub Ec'. auto.
  - unfold step_close in E. destruct (nth_error (subs st) s) as [c|] eqn:Ec; [|discriminate].
    destruct (cpc c) eqn:Ek; try discriminate.
    + destruct (spc c); try discriminate. inversion E; subst. cbn. apply Forall_upd; [exact H|]. fh_sub Ec. auto.
    + destruct (nth_error (snodes c) i) as [n|]; [|discriminate]. destruct (nth_error (nodes st) n) as [nd|]; [|discriminate].
      destruct (holder nd); [discriminate|]. inversion E; subst. cbn. apply Forall_upd; [exact H|]. fh_sub Ec. auto.
    + inversion E; subst. cbn. apply Forall_upd; [exact H|]. fh_sub Ec. auto.
    + destruct (nth_error (snodes c) i) as [n|]; [|discriminate]. destruct (nth_error (nodes st) n) as [nd|]; [|discriminate].
      otau_inv E. cbn. rewrite (try_drop_subs _ _ _ E). apply Forall_upd; [exact H|]. fh_sub Ec. auto.
    + inversion E; subst. cbn. apply Forall_upd; [exact H|]. fh_sub Ec. auto.
    + inversion E; subst. cbn. apply Forall_upd; [exact H|]. fh_sub Ec. auto.
    + destruct (wpend (wild st)); [discriminate|]. inversion E; subst. cbn. apply Forall_upd; [exact H|]. fh_sub Ec. auto.
    + destruct (Nat.eqb (rdrs (wild st)) 0); [|discriminate]. inversion E; subst. cbn. apply Forall_upd; [exact H|]. fh_sub Ec. auto.
    + inversion E; subst. cbn. apply Forall_upd; [exact H|]. fh_sub Ec. auto.
    + destruct (Nat.eqb (drain c) 3); [|discriminate]. inversion E; subst. cbn. apply Forall_upd; [exact H|]. fh_sub Ec. auto.
    + inversion E; subst. cbn. apply Forall_upd; [exact H|]. fh_sub Ec. auto.
  - unfold step_drain in E. destruct (nth_error (subs st) s) as [c|] eqn:Ec; [|discriminate].
    destruct (draining c); [|discriminate]. destruct (buf c) eqn:Eb.
    + destruct (Nat.eqb (drain c) 2 || closed c); [|discriminate]. inversion E; subst. cbn. apply Forall_upd; [exact H|]. fh_sub Ec. rewrite Eb in *. auto.
    + inversion E; subst. cbn. apply Forall_upd; [exact H|]. fh_sub Ec. rewrite Eb in *. repeat split; auto. intros x Hx. apply R2. right. exact Hx.
  - unfold step_req in E. destruct (nth_error (subs st) s) as [c|] eqn:Ec; [|discriminate]. inversion E; subst. cbn.
    apply Forall_upd; [exact H|]. fh_sub Ec. auto.
  - unfold step_recv in E. destruct (nth_error (subs st) s) as [c|] eqn:Ec; [|discriminate].
    destruct (want c); [discriminate|]. destruct (buf c) as [|it r] eqn:Eb.
    + destruct (closed c) eqn:Ecl; [|discriminate]. inversion E; subst. cbn. apply Forall_upd; [exact H|]. fh_sub Ec. rewrite Eb in *.
      repeat split; auto. intros v Hv. apply in_app_or in Hv. destruct Hv as [Hv|[<-|[]]]; [apply R3, Hv|left; reflexivity].
    + inversion E; subst. cbn. apply Forall_upd; [exact H|]. fh_sub Ec. rewrite Eb in *. repeat split.
      * intros x Hx. apply in_app_or in Hx. destruct Hx as [Hx|[<-|[]]]; [apply R1, Hx|apply R2; left; reflexivity].
      * intros x Hx. apply R2. right. exact Hx.
      * intros v Hv. apply in_app_or in Hv. destruct Hv as [Hv|[<-|[]]].
        -- destruct (R3 v Hv) as [->|X]; [left; reflexivity|right; rewrite map_app; apply in_or_app; left; exact X].
        -- right. rewrite map_app. apply in_or_app. right. left. reflexivity.
  - unfold step_read in E. destruct (nth_error (subs st) s) as [c|] eqn:Ec; [|discriminate].
    destruct (hand c) eqn:Eh; [discriminate|]. inversion E; subst. cbn. apply Forall_upd; [exact H|]. fh_sub Ec. rewrite Eh in *.
    repeat split; auto. intros v Hv. apply R3. right. exact Hv.
Qed.

(* ---- (b) every reported value was received from the channel ---------------------- *)
Definition RepM (st : state) (tr : list label) : Prop :=
  forall s v, In (LRead s v) tr -> v = -2 \/ exists c, nth_error (subs st) s = Some c /\ In v (map snd (recv c)).

Lemma read_label_inv : forall st t s v st', step st t = Some (Some (LRead s v), st') ->
  exists c r, nth_error (subs st) s = Some c /\ hand c = v :: r.
Proof.
  intros st t s v st' E. destruct t; cbn [step] in E.
  - unfold step_emnew in E. brute E; inversion E.
  - unfold step_emclose in E. brute E; try (inversion E; fail). all: try (unfold otau in E; brute E; inversion E).
  - unfold step_emit in E. brute E; try (inversion E; fail). all: try (unfold otau in E; brute E; inversion E).
  - unfold step_sub in E. brute E; inversion E.
  - unfold step_replay in E. brute E; try (inversion E; fail). all: try (unfold otau in E; brute E; inversion E).
  - unfold step_close in E. brute E; try (inversion E; fail). all: try (unfold otau in E; brute E; inversion E).
  - unfold step_drain in E. brute E; inversion E.
  - unfold step_req in E. brute E; inversion E.
  - unfold step_recv in E. brute E; inversion E.
  - unfold step_read in E. destruct (nth_error (subs st) s0) as [c|] eqn:Ec; [|discriminate].
    destruct (hand c) as [|v0 r] eqn:Eh; [discriminate|]. inversion E; subst. exists c, r. auto.
Qed.

Lemma rep_step : forall st t l st' tr, Forall from_hist (subs st) -> RepM st tr -> step st t = Some (l, st') -> RepM st' (tr ++ olab l).
Proof.
  intros st t l st' tr FH R E s v Hin. apply in_app_or in Hin.
  assert (Old : forall s v, (v = -2 \/ exists c, nth_error (subs st) s = Some c /\ In v (map snd (recv c))) ->
                            (v = -2 \/ exists c, nth_error (subs st') s = Some c /\ In v (map snd (recv c)))).
  { intros s0 v0 [X|[c [Ec Hv]]]; [left; exact X|right].
    destruct (Grows_nth _ _ s0 c (step_grows _ _ _ _ E) Ec) as [c' [Ec' [_ [_ [[r Hr] _]]]]].
    exists c'. split; [exact Ec'|]. rewrite Hr, map_app. apply in_or_app. left. exact Hv. }
  destruct Hin as [Hin|Hin]; [apply Old, R, Hin|].
  destruct l as [lab|]; [|destruct Hin]. destruct Hin as [->|[]].
  destruct (read_label_inv _ _ _ _ _ E) as [c [r [Ec Eh]]]. apply Old.
  destruct (Forall_nth_error _ _ _ _ FH Ec) as [_ [_ R3]]. destruct (R3 v) as [X|X]; [rewrite Eh; left; reflexivity|left; exact X|right; eauto].
Qed.

(* ---- (c) provenance: promised items are events of started Emit calls of a matching type ---- *)
Definition emit_of (st : state) (v : Z) (ty : nat) : Prop :=
  exists k e m, nth_error (emits st) k = Some e /\ eev e = v /\ epc e <> E0 /\
                nth_error (emitters st) (eem e) = Some m /\ mty m = ty.

Lemma emit_step_shape : forall st k l st', step_emit st k = Some (l, st') ->
  exists e p, nth_error (emits st) k = Some e /\ emits st' = upd (emits st) k (e_pc e p) /\ p <> E0 /\
              length (emitters st') = length (emitters st) /\ map mty (emitters st') = map mty (emitters st).
Proof.
  intros st k l st' E. pose proof (step_oc st (TEmit k) l st' E) as OC. unfold ocfg_of_state in OC. injection OC as O1 _ _.
  unfold step_emit in E. destruct (nth_error (emits st) k) as [e|] eqn:Ek; [|discriminate]. exists e.
  destruct (nth_error (emitters st) (eem e)) as [m|]; [|discriminate].
  assert (L : length (emitters st') = length (emitters st)) by (rewrite <- (map_length mty), O1, map_length; reflexivity).
  destruct (epc e) as [| | |n [|x r]|n|n|n [|x r]|c|]; try discriminate.
  - destruct (Nat.eqb (mnew m) 4); inversion E; subst. exists EChk. repeat split; auto. discriminate.
  - inversion E; subst. eexists. repeat split; auto. destruct (mclosed m); discriminate.
  - brute E; unfold tau in E; inversion E; subst; eexists; repeat split; auto; discriminate.
  - brute E; unfold tau in E; inversion E; subst; eexists; repeat split; auto; discriminate.
  - otau_inv E. destruct (send_emits _ _ _ _ E) as [A B]. eexists. cbn. rewrite A. repeat split; auto. discriminate.
  - inversion E; subst. eexists. repeat split; auto. destruct (Nat.eqb (nsinks (wild st)) 0); discriminate.
  - brute E; unfold tau in E; inversion E; subst; eexists; repeat split; auto; discriminate.
  - inversion E; subst. eexists. repeat split; auto. discriminate.
  - otau_inv E. destruct (send_emits _ _ _ _ E) as [A B]. eexists. cbn. rewrite A. repeat split; auto. discriminate.
  - inversion E; subst. eexists. repeat split; auto. discriminate.
Qed.

Lemma mty_lookup : forall st st' j m, map mty (emitters st') = map mty (emitters st) -> nth_error (emitters st) j = Some m ->
  exists m', nth_error (emitters st') j = Some m' /\ mty m' = mty m.
Proof.
  intros st st' j m H Hj. assert (X : nth_error (map mty (emitters st')) j = Some (mty m)) by (rewrite H, nth_error_map, Hj; reflexivity).
  rewrite nth_error_map in X. destruct (nth_error (emitters st') j) as [m'|]; [|discriminate]. inversion X. eauto.
Qed.

Lemma emit_of_step : forall st t l st' v ty, step st t = Some (l, st') -> emit_of st v ty -> emit_of st' v ty.
Proof.
  intros st t l st' v ty E [k [e [m [Ek [Ev [Ep [Em Ty]]]]]]].
  pose proof (step_oc st t l st' E) as OC. unfold ocfg_of_state in OC. injection OC as O1 _ _.
  destruct (mty_lookup st st' (eem e) m O1 Em) as [m' [Em' Ty']].
  assert (Same : emits st' = emits st -> emit_of st' v ty).
  { intros X. exists k, e, m'. rewrite X. repeat split; auto. congruence. }
  destruct t; cbn [step] in E.
  - destruct (emnew_em _ _ _ _ E) as [X _]. apply Same, X.
  - destruct (emclose_em _ _ _ _ E) as [X _]. apply Same, X.
  - destruct (emit_step_shape _ _ _ _ E) as [e0 [p [Ek0 [Hu [Hp _]]]]]. destruct (Nat.eq_dec k0 k) as [->|N].
    + rewrite Ek in Ek0. inversion Ek0; subst e0. exists k, (e_pc e p), m'. rewrite Hu, (nth_error_upd_eq _ _ _ _ Ek). repeat split; auto. congruence.
    + exists k, e, m'. rewrite Hu, nth_error_upd_neq by assumption. repeat split; auto. congruence.
  - destruct (sub_em _ _ _ _ E) as [X _]. apply Same, X.
  - destruct (replay_em _ _ _ _ _ E) as [X _]. apply Same, X.
  - destruct (close_em _ _ _ _ E) as [X _]. apply Same, X.
  - apply Same. unfold step_drain in E. brute E; inversion E; subst; reflexivity.
  - apply Same. unfold step_req in E. brute E; inversion E; subst; reflexivity.
  - apply Same. unfold step_recv in E. brute E; inversion E; subst; reflexivity.
  - apply Same. unfold step_read in E. brute E; inversion E; subst; reflexivity.
Qed.

Definition just (st : state) (c : sub) (v : Z) : Prop :=
  exists ty, emit_of st v ty /\ (styps c = None \/ exists tys, styps c = Some tys /\ In ty tys).
Definition pe (st : state) (c : sub) : Prop := forall tag v, In (tag, v) (expd c) -> just st c v.
Definition nL (st : state) := map (fun nd => (nty nd, nlast nd)) (nodes st).
Definition PNv (st : state) (nl : list (nat * option Z)) : Prop :=
  forall n ty l, nth_error nl n = Some (ty, Some l) -> emit_of st l ty.
Definition Prov (st : state) : Prop := Forall (pe st) (subs st) /\ PNv st (nL st).

(* how the (type, retained event) view of the nodes may change in one step *)
Definition nl_step (a b : list (nat * option Z)) : Prop :=
  b = a \/ (exists ty, b = a ++ [(ty, None)]).

Ltac nl_fin :=
  unfold nL; cbn [nodes set_emitter set_emitters set_sub set_subs set_node set_nodes set_blk set_bmap set_wild set_emit set_emits set_panicked];
  try reflexivity; try (eapply (map_upd_same (fun nd => (nty nd, nlast nd))); [eassumption|reflexivity]).

Lemma send_nl : forall st s it st', send st s it = Some st' -> nL st' = nL st.
Proof. intros st s it st' E. unfold send in E. brute E; inversion E; subst; nl_fin. Qed.
Lemma try_drop_nl : forall st ty st', try_drop st ty = Some st' -> nL st' = nL st.
Proof. intros st ty st' E. unfold try_drop in E. brute E; inversion E; subst; nl_fin. Qed.
Lemma with_node_nl : forall st ty st1 n, with_node st ty = Some (st1, n) -> nl_step (nL st) (nL st1).
Proof.
  intros st ty st1 n E. unfold with_node in E. destruct (lookup st ty) as [sl m] eqn:El.
  destruct (nth_error (nodes sl) m) as [nd|] eqn:En; inversion E; subst.
  assert (X : nL (set_node sl n (n_pend nd (S (npend nd)))) = nL sl) by nl_fin. rewrite X.
  unfold lookup in El. destruct (nth_error (bmap st) ty) as [[k|]|]; inversion El; subst; [left; reflexivity| |];
    (right; exists ty; unfold nL; cbn; rewrite map_app; reflexivity).
Qed.

Lemma PNv_step : forall st st' a b, (forall v ty, emit_of st v ty -> emit_of st' v ty) -> PNv st a -> nl_step a b -> PNv st' b.
Proof.
  intros st st' a b M P [->|[ty ->]]; intros n t l H.
  - apply M. eapply P, H.
  - apply nth_error_app_inv in H. destruct H as [H|[_ X]]; [apply M; eapply P, H|discriminate].
Qed.

(* the non-Emit steps do not touch retained events *)
Lemma other_nl : forall st t l st', (match t with TEmit _ => False | _ => True end) -> step st t = Some (l, st') -> nl_step (nL st) (nL st').
Proof.
  intros st t l st' Ht E. destruct t; try contradiction; cbn [step] in E.
  - unfold step_emnew in E. destruct (nth_error (emitters st) j) as [m|]; [|discriminate].
    destruct (mnew m) as [|[|[|[|?]]]]; try discriminate; try solve [brute E; inversion E; subst; left; nl_fin].
    destruct (with_node st (mty m)) as [[st1 n]|] eqn:Ew; [|discriminate]. inversion E; subst. exact (with_node_nl _ _ _ _ Ew).
  - unfold step_emclose in E. destruct (nth_error (emitters st) j) as [m|]; [|discriminate].
    destruct (mcl m); try discriminate; try solve [brute E; inversion E; subst; left; nl_fin].
    otau_inv E. left. exact (try_drop_nl _ _ _ E).
  - unfold step_sub in E. destruct (nth_error (subs st) s) as [c|] eqn:Ec; [|discriminate].
    destruct (spc c); try solve [brute E; inversion E; subst; left; nl_fin].
    destruct (styps c) as [tys|]; [|discriminate]. destruct (nth_error tys i) as [ty|]; [|discriminate].
    destruct (with_node st ty) as [[st1 n]|] eqn:Ew; [|discriminate]. inversion E; subst. exact (with_node_nl _ _ _ _ Ew).
  - unfold step_replay in E. destruct (nth_error (subs st) s) as [c|] eqn:Ec; [|discriminate].
    destruct (nth_error (rpend c) i) as [[|]|]; try discriminate.
    destruct (nth_error (snodes c) i) as [n|]; [|discriminate]. destruct (nth_error (nodes st) n) as [nd|] eqn:En; [|discriminate].
    destruct (keep nd); [destruct (nlast nd) as [lv|]|]; try solve [inversion E; subst; left; nl_fin].
    otau_inv E. left. rewrite <- (send_nl _ _ _ _ E).
    assert (En' : nth_error (nodes x) n = Some nd) by (unfold send in E; rewrite Ec in E; brute E; inversion E; subst; exact En).
    destruct (nth_error (subs x) s); nl_fin.
  - unfold step_close in E. destruct (nth_error (subs st) s) as [c|] eqn:Ec; [|discriminate].
    destruct (cpc c); try discriminate; try solve [brute E; inversion E; subst; left; nl_fin].
    destruct (nth_error (snodes c) i) as [n|]; [|discriminate]. destruct (nth_error (nodes st) n) as [nd|]; [|discriminate].
    otau_inv E. left. exact (try_drop_nl _ _ _ E).
  - unfold step_drain in E. brute E; inversion E; subst; left; nl_fin.
  - unfold step_req in E. brute E; inversion E; subst; left; nl_fin.
  - unfold step_recv in E. brute E; inversion E; subst; left; nl_fin.
  - unfold step_read in E. brute E; inversion E; subst; left; nl_fin.
Qed.

Lemma pe_mono : forall st st' l, (forall v ty, emit_of st v ty -> emit_of st' v ty) -> Forall (pe st) l -> Forall (pe st') l.
Proof.
  intros st st' l M H. eapply Forall_impl; [|exact H]. intros c P tag v Hin. destruct (P tag v Hin) as [ty [A B]]. exists ty. split; [apply M, A|exact B].
Qed.

Ltac pe_same Ec := let y := fresh in let Hy := fresh in let Py := fresh in
  intros y Hy Py; rewrite Ec in Hy; inversion Hy; subst; exact Py.

Lemma send_pe : forall sx st s it st', Forall (pe sx) (subs st) -> send st s it = Some st' -> Forall (pe sx) (subs st').
Proof.
  intros sx st s it st' H E. unfold send in E. destruct (nth_error (subs st) s) as [c|] eqn:Ec; [|discriminate].
  destruct (closed c). { inversion E; subst. exact H. }
  destruct (room c); [|discriminate]. inversion E; subst. cbn. apply Forall_upd; [exact H|pe_same Ec].
Qed.

Lemma expect_pe : forall sx l tg v tag, Forall (pe sx) l ->
  (forall s c, nth_error l s = Some c -> In s tg -> just sx c v) -> Forall (pe sx) (expect_all l tg (tag, v) 0).
Proof.
  intros sx l tg v tag H J. apply Forall_forall. intros c' Hin. apply In_nth_error in Hin. destruct Hin as [s Hs].
  rewrite nth_error_expect in Hs. destruct (nth_error l s) as [c|] eqn:Ec; [|discriminate]. cbn in Hs. inversion Hs; subst c'. clear Hs.
  intros tg' v' Hin. cbn [expd c_expd] in Hin. apply in_app_or in Hin. destruct Hin as [Hin|Hin].
  - exact (Forall_nth_error _ _ _ _ H Ec tg' v' Hin).
  - destruct (count_occ Nat.eq_dec tg s) eqn:Ecnt; [destruct Hin|].
    apply repeat_spec in Hin. inversion Hin; subst.
    assert (Hs : In s tg) by (apply (count_occ_In Nat.eq_dec); lia). exact (J s c Ec Hs).
Qed.

Lemma step_prov : forall st t l st', Forall sub_loc (subs st) -> Inv2 st -> TY st -> Valid st -> Prov st ->
  step st t = Some (l, st') -> Prov st'.
Proof.
  intros st t l st' HL I T V [PE PN] E.
  assert (M : forall v ty, emit_of st v ty -> emit_of st' v ty) by (intros v ty; eapply emit_of_step; exact E).
  pose proof (pe_mono st st' _ M PE) as PE1.
  destruct t; try (split; [|eapply PNv_step; [exact M|exact PN|eapply other_nl; [|exact E]; exact Logic.I]]); cbn [step] in E.
  - rewrite (emnew_subs _ _ _ _ E). exact PE1.
  - rewrite (emclose_subs _ _ _ _ E). exact PE1.
  - (* Emit *)
    pose proof E as Estep. unfold step_emit in E. destruct (nth_error (emits st) k) as [e|] eqn:Ek; [|discriminate].
    destruct (nth_error (emitters st) (eem e)) as [m|] eqn:Em; [|discriminate].
    assert (O1 : map mty (emitters st') = map mty (emitters st)).
    { pose proof (step_oc st (TEmit k) l st' Estep) as OC. unfold ocfg_of_state in OC. injection OC as O1 _ _. exact O1. }
    destruct (mty_lookup st st' (eem e) m O1 Em) as [m' [Em' Ty']].
    assert (Self : epc e = ELock \/ epc e = ERLock (mnode m) \/ True -> forall p, p <> E0 -> emits st' = upd (emits st) k (e_pc e p) ->
                   emit_of st' (eev e) (mty m)).
    { intros _ p Hp Hu. exists k, (e_pc e p), m'. rewrite Hu, (nth_error_upd_eq _ _ _ _ Ek). repeat split; auto. }
    destruct (epc e) as [| | |n [|x r]|n|n|n [|x r]|c|] eqn:Ep; try discriminate.
    + destruct (Nat.eqb (mnew m) 4); inversion E; subst. split; [exact PE1|]. eapply PNv_step; [exact M|exact PN|left; nl_fin].
    + inversion E; subst. split; [exact PE1|]. eapply PNv_step; [exact M|exact PN|left; nl_fin].
    + (* lock: promises, and possibly a new retained event *)
      destruct (nth_error (nodes st) (mnode m)) as [nd|] eqn:En; [|discriminate]. destruct (holder nd) eqn:Hh; [discriminate|].
      inversion E; subst. clear E.
      assert (M4 : mnew m = 4%nat) by (destruct V as [_ [_ [V3 _]]]; eapply (V3 k e m Ek); [rewrite Ep; discriminate|exact Em]).
      assert (Nty : nty nd = mty m) by (destruct T as [T1 _]; eapply (T1 (eem e) m nd); [exact Em|lia|exact En]).
      assert (SelfE : emit_of (set_emit (set_subs (set_node st (mnode m) (n_last (n_holder nd (Some (TEmit k))) (if keep nd then Some (eev e) else nlast nd)))
                         (expect_all (subs st) (sinks nd) (mnode m, eev e) 0)) k (e_pc e (ESend (mnode m) (sinks nd)))) (eev e) (mty m)).
      { apply (Self (or_introl eq_refl) (ESend (mnode m) (sinks nd))); [discriminate|reflexivity]. }
      split.
      * cbn [subs set_emit set_emits set_subs]. apply expect_pe; [exact PE1|]. intros s c Ec Hs. cbn in Ec.
        destruct (sink_typed st (mnode m) nd s HL I T En Hs) as [c' [tys [Ec' [Et Hty]]]]. rewrite Ec in Ec'. inversion Ec'; subst c'.
        exists (mty m). split; [exact SelfE|]. right. exists tys. rewrite <- Nty. auto.
      * intros n ty lv H. unfold nL in H. cbn [nodes set_emit set_emits set_subs set_node set_nodes] in H. rewrite map_upd in H.
        apply nth_error_upd_inv in H. destruct H as [[-> [X _]]|[N H]].
        -- cbn in X. injection X as Xt Xl. subst ty. destruct (keep nd).
           ++ injection Xl as Xl. subst lv. rewrite Nty. exact SelfE.
           ++ rewrite Nty in *. apply M. eapply (PN (mnode m)). unfold nL. rewrite nth_error_map, En. cbn. rewrite Xl, Nty. reflexivity.
        -- apply M. eapply PN, H.
    + destruct (nth_error (nodes st) n) as [nd|] eqn:En; [|discriminate]. inversion E; subst. split; [exact PE1|].
      eapply PNv_step; [exact M|exact PN|left; nl_fin].
    + otau_inv E. split; [cbn; eapply send_pe; eassumption|]. eapply PNv_step; [exact M|exact PN|left; cbn; exact (send_nl _ _ _ _ E)].
    + inversion E; subst. split; [exact PE1|]. eapply PNv_step; [exact M|exact PN|left; nl_fin].
    + (* read lock: promises to the wildcard subscriptions *)
      destruct (wpend (wild st)); [discriminate|]. inversion E; subst. clear E. split.
      * cbn [subs set_emit set_emits set_subs set_wild]. apply expect_pe; [exact PE1|]. intros s c Ec Hs.
        destruct (iW1 st I s Hs) as [c' [Ec' Hw]]. rewrite Ec in Ec'. inversion Ec'; subst c'.
        exists (mty m). split; [|left; exact Hw]. apply (Self (or_intror (or_intror Logic.I)) (EWSend n (wsinks (wild st)))); [discriminate|reflexivity].
      * eapply PNv_step; [exact M|exact PN|left; nl_fin].
    + inversion E; subst. split; [exact PE1|]. eapply PNv_step; [exact M|exact PN|left; nl_fin].
    + otau_inv E. split; [cbn; eapply send_pe; eassumption|]. eapply PNv_step; [exact M|exact PN|left; cbn; exact (send_nl _ _ _ _ E)].
    + inversion E; subst. split; [exact PE1|]. eapply PNv_step; [exact M|exact PN|left; nl_fin].
  - (* Subscribe *)
    unfold step_sub in E. destruct (nth_error (subs st) s) as [c|] eqn:Ec; [|discriminate].
    destruct (spc c) eqn:Ep.
    + destruct (styps c); inversion E; subst; cbn; (apply Forall_upd; [exact PE1|pe_same Ec]).
    + destruct (styps c) as [tys|]; [|discriminate]. destruct (nth_error tys i) as [ty|]; [|discriminate].
      destruct (with_node st ty) as [[st1 n]|] eqn:Ew; [|discriminate]. inversion E; subst. cbn.
      rewrite (with_node_subs _ _ _ _ Ew). apply Forall_upd; [exact PE1|pe_same Ec].
    + destruct (styps c) as [tys|] eqn:Et; [|discriminate]. destruct (nth_error (nodes st) n) as [nd|] eqn:En; [|discriminate].
      destruct (holder nd); [discriminate|]. inversion E; subst. cbn. apply Forall_upd; [exact PE1|].
      intros y Hy Py. rewrite Ec in Hy. inversion Hy; subst y.
      destruct (keep nd) eqn:Hk; [destruct (nlast nd) as [lv|] eqn:Hl|]; try exact Py.
      intros tag v Hin. cbn [expd c_expd c_app] in Hin. apply in_app_or in Hin. destruct Hin as [Hin|[X|[]]]; [exact (Py tag v Hin)|].
      inversion X; subst tag v. exists (nty nd). split.
      * apply M. eapply (PN n). unfold nL. rewrite nth_error_map, En. cbn. rewrite Hl. reflexivity.
      * right. exists tys. split; [exact Et|]. destruct T as [_ [_ [T3 _]]]. eapply nth_error_In. eapply (T3 s c i n tys nd); eassumption.
    + inversion E; subst; cbn; (apply Forall_upd; [exact PE1|pe_same Ec]).
    + destruct (wpend (wild st)); [discriminate|]. inversion E; subst; cbn; (apply Forall_upd; [exact PE1|pe_same Ec]).
    + destruct (Nat.eqb (rdrs (wild st)) 0); [|discriminate]. inversion E; subst; cbn; (apply Forall_upd; [exact PE1|pe_same Ec]).
    + inversion E; subst; cbn; (apply Forall_upd; [exact PE1|pe_same Ec]).
    + destruct (styps c); discriminate.
  - unfold step_replay in E. destruct (nth_error (subs st) s) as [c|] eqn:Ec; [|discriminate].
    destruct (nth_error (rpend c) i) as [[|]|]; try discriminate.
    destruct (nth_error (snodes c) i) as [n|]; [|discriminate]. destruct (nth_error (nodes st) n) as [nd|]; [|discriminate].
    destruct (keep nd); [destruct (nlast nd) as [lv|]|]; try solve [inversion E; subst; cbn; apply Forall_upd; [exact PE1|pe_same Ec]].
    otau_inv E. pose proof (send_pe _ _ _ _ _ PE1 E) as H1. destruct (nth_error (subs x) s) as [c'|] eqn:Ec'; [|exact H1]. cbn.
    apply Forall_upd; [exact H1|pe_same Ec'].
  - unfold step_close in E. destruct (nth_error (subs st) s) as [c|] eqn:Ec; [|discriminate].
    destruct (cpc c) eqn:Ek; try discriminate.
    + destruct (spc c); try discriminate. inversion E; subst. cbn. apply Forall_upd; [exact PE1|pe_same Ec].
    + destruct (nth_error (snodes c) i) as [n|]; [|discriminate]. destruct (nth_error (nodes st) n) as [nd|]; [|discriminate].
      destruct (holder nd); [discriminate|]. inversion E; subst. cbn. apply Forall_upd; [exact PE1|pe_same Ec].
    + inversion E; subst. cbn. apply Forall_upd; [exact PE1|pe_same Ec].
    + destruct (nth_error (snodes c) i) as [n|]; [|discriminate]. destruct (nth_error (nodes st) n) as [nd|]; [|discriminate].
      otau_inv E. cbn. rewrite (try_drop_subs _ _ _ E). apply Forall_upd; [exact PE1|pe_same Ec].
    + inversion E; subst. cbn. apply Forall_upd; [exact PE1|pe_same Ec].
    + inversion E; subst. cbn. apply Forall_upd; [exact PE1|pe_same Ec].
    + destruct (wpend (wild st)); [discriminate|]. inversion E; subst. cbn. apply Forall_upd; [exact PE1|pe_same Ec].
    + destruct (Nat.eqb (rdrs (wild st)) 0); [|discriminate]. inversion E; subst. cbn. apply Forall_upd; [exact PE1|pe_same Ec].
    + inversion E; subst. cbn. apply Forall_upd; [exact PE1|pe_same Ec].
    + destruct (Nat.eqb (drain c) 3); [|discriminate]. inversion E; subst. cbn. apply Forall_upd; [exact PE1|pe_same Ec].
    + inversion E; subst. cbn. apply Forall_upd; [exact PE1|pe_same Ec].
  - unfold step_drain in E. destruct (nth_error (subs st) s) as [c|] eqn:Ec; [|discriminate]. brute E; inversion E; subst; cbn; (apply Forall_upd; [exact PE1|pe_same Ec]).
  - unfold step_req in E. destruct (nth_error (subs st) s) as [c|] eqn:Ec; [|discriminate]. inversion E; subst; cbn; (apply Forall_upd; [exact PE1|pe_same Ec]).
  - unfold step_recv in E. destruct (nth_error (subs st) s) as [c|] eqn:Ec; [|discriminate]. brute E; inversion E; subst; cbn; (apply Forall_upd; [exact PE1|pe_same Ec]).
  - unfold step_read in E. destruct (nth_error (subs st) s) as [c|] eqn:Ec; [|discriminate]. brute E; inversion E; subst; cbn; (apply Forall_upd; [exact PE1|pe_same Ec]).
Qed.

Lemma rep_run_gen : forall sched st tr, Forall from_hist (subs st) -> RepM st tr -> RepM (run step st sched) (tr ++ trace step st sched).
Proof.
  induction sched as [|t r IH]; intros st tr FH R; cbn.
  - rewrite app_nil_r. exact R.
  - destruct (step st t) as [[l st']|] eqn:E.
    + pose proof (rep_step st t l st' tr FH R E) as R'. pose proof (step_fh st t l st' FH E) as FH'. specialize (IH st' _ FH' R').
      destruct l as [lab|]; cbn in IH |- *; [rewrite <- app_assoc in IH; exact IH|rewrite app_nil_r in IH; exact IH].
    + apply IH; assumption.
Qed.

Lemma initial_from_hist : forall st, initial st -> Forall from_hist (subs st).
Proof.
  intros st [_ [_ [_ [_ [Hs _]]]]]. apply Forall_forall. intros c Hc. rewrite Forall_forall in Hs. rewrite (Hs c Hc).
  unfold from_hist. cbn. repeat split; intros x Hx; destruct Hx.
Qed.

Lemma prov_run : forall st sched, wf_init st -> Prov (run step st sched) /\ Forall from_hist (subs (run step st sched)).
Proof.
  intros st sched [H ND].
  assert (F : ((Safe (run step st sched) /\ Pend (run step st sched) /\ ValidV (run step st sched)) /\ TYV (run step st sched)) /\
              Prov (run step st sched) /\ Forall from_hist (subs (run step st sched))).
  { apply (invariant_run _ _ _ step (fun s => ((Safe s /\ Pend s /\ ValidV s) /\ TYV s) /\ Prov s /\ Forall from_hist (subs s))).
    - intros a t l b [[[Sa [Pa Va]] Ta] [Pr Fa]] E.
      split; [split; [split; [eapply step_safe; eassumption|split; [eapply step_pend; eassumption|eapply step_valid; eassumption]]|
                      eapply step_ty; [apply Sa|exact Pa|apply VV_Valid, Va|exact Ta|exact E]]|].
      split; [eapply step_prov; [apply Sa|apply Sa|apply TYV_TY, Ta|apply VV_Valid, Va|exact Pr|exact E]|eapply step_fh; eassumption].
    - destruct H as [Hi [He Hb]]. assert (He0 : Forall (fun m => mnew m = 0%nat) (emitters st)) by (eapply Forall_impl; [|exact He]; intros m [A _]; exact A).
      split; [split; [split; [apply initial_safe, Hi|split; [apply initial_pend; assumption|apply initial_valid; split; [exact Hi|split; assumption]]]|
                      apply initial_ty; [split; [exact Hi|split; assumption]|exact ND]]|].
      split; [|apply initial_from_hist, Hi]. split.
      + destruct Hi as [_ [_ [_ [_ [Hs _]]]]]. apply Forall_forall. intros c Hc. rewrite Forall_forall in Hs. rewrite (Hs c Hc). intros tag v [].
      + destruct Hi as [Hn _]. intros n ty lv X. unfold nL in X. rewrite Hn in X. destruct n; discriminate. }
  destruct F as [_ [A B]]. auto.
Qed.

Lemma hist_in_expd : forall st sched s c tag v, initial st -> nth_error (subs (run step st sched)) s = Some c ->
  In (tag, v) (hist c) -> In (tag, v) (expd c).
Proof.
  intros st sched s c tag v H Hc Hin.
  assert (P : In (tag, v) (proj tag (hist c))) by (apply filter_In; split; [exact Hin|cbn; apply Nat.eqb_refl]).
  assert (Q : In (tag, v) (proj tag (expd c))).
  { destruct (styps c) as [tys|] eqn:Et.
    - rewrite <- (exactly_once_in_order_l st sched s c tag H Hc ltac:(congruence)). apply in_or_app. left. exact P.
    - rewrite <- (wildcard_same_rules_l st sched s c tag H Hc Et). apply in_or_app. left. exact P. }
  apply filter_In in Q. apply Q.
Qed.

(* rules 1-3 of the monitor, on every model trace: a value reported by the consumer
   of s is the event of an Emit call that has started, whose event type s subscribes
   to (any type for a wildcard subscription) *)
Lemma reads_provenance_l : forall st sched s v, wf_init st -> In (LRead s v) (trace step st sched) -> v <> -2 ->
  exists k e m c, nth_error (emits (run step st sched)) k = Some e /\ eev e = v /\
    (o_started (trace step st sched) (TEmit k) || o_returned (trace step st sched) (TEmit k)) = true /\
    nth_error (emitters (run step st sched)) (eem e) = Some m /\ nth_error (subs (run step st sched)) s = Some c /\
    (styps c = None \/ exists tys, styps c = Some tys /\ In (mty m) tys).
Proof.
  intros st sched s v H Hin Hv. pose proof H as [[Hi _] _].
  pose proof (rep_run_gen sched st [] (initial_from_hist st Hi)) as R. cbn in R.
  destruct (R ltac:(intros s0 v0 []) s v Hin) as [X|[c [Ec Hr]]]; [contradiction|].
  destruct (prov_run st sched H) as [[PE _] FH].
  destruct (Forall_nth_error _ _ _ _ FH Ec) as [R1 _]. apply in_map_iff in Hr. destruct Hr as [[tag v'] [Ev Hr]]. cbn in Ev. subst v'.
  pose proof (hist_in_expd st sched s c tag v Hi Ec (R1 _ Hr)) as Hx.
  destruct (Forall_nth_error _ _ _ _ PE Ec tag v Hx) as [ty [[k [e [m [Ek [Eev [Ep [Em Ety]]]]]]] Ht]].
  exists k, e, m, c. repeat split; auto.
  - pose proof (obs_run st sched (proj1 H)) as O. pose proof (obM _ _ O k (epc e)) as N. unfold xM in N. rewrite nth_error_map, Ek in N.
    specialize (N eq_refl). unfold tstat in N. destruct (o_returned (trace step st sched) (TEmit k)); [apply orb_true_r|].
    destruct (o_started (trace step st sched) (TEmit k)); [reflexivity|]. destruct (epc e); try discriminate. contradiction.
  - rewrite Ety. exact Ht.
Qed.

(* C15 — the wildcard sink list: its members are subscribed and not yet past the
   removal step of their Close; the todo list of an Emit inside the wildcard loop
   is a sublist of it (writers are excluded while readers are inside). *)
From Coq Require Import List Arith ZArith Bool Lia.
From Verif Require Import c15.Lts c15.Model c15.Spec c15.Proofs_Chan c15.Proofs_Loc c15.Proofs_List c15.Proofs_Safe
  c15.Proofs_Init c15.Proofs_Live c15.Proofs_Pend c15.Proofs_Idx c15.Proofs_Dead c15.Proofs_Prog c15.Proofs_Valid c15.Proofs_WildOK
  c15.Proofs_Once c15.Proofs_First c15.Proofs_Blk.
Import ListNotations.

Definition sub_ok_pc (p : sub_pc) : bool := match p with SRet | SDone => true | _ => false end.
Definition close_ok_pc (q : close_pc) : bool := match q with K0 | KW1 | KW2 | KW3 => true | _ => false end.

Definition WSv (ws : list nat) (vs : list sub_pc) (vc : list close_pc) (vm : list emit_pc) : Prop :=
  (forall x, In x ws -> exists p q, nth_error vs x = Some p /\ nth_error vc x = Some q /\ sub_ok_pc p = true /\ close_ok_pc q = true) /\
  (forall k n todo x, nth_error vm k = Some (EWSend n todo) -> In x todo -> In x ws).
Definition WSV (st : state) : Prop := WSv (wsinks (wild st)) (xS st) (xC st) (xM st).

Lemma WSV_WSI : forall st, WSV st -> WSI st.
Proof.
  intros st [A B]. split.
  - intros x Hx. destruct (A x Hx) as [p [q [Hp [Hq [Sp Cq]]]]]. unfold xS, xC in *. rewrite nth_error_map in Hp, Hq.
    destruct (nth_error (subs st) x) as [c|] eqn:Ec; [|discriminate]. inversion Hp; inversion Hq; subst. exists c. split; [reflexivity|].
    split; [destruct (spc c); try discriminate; auto|destruct (cpc c); try discriminate; auto].
  - intros k e n todo x Ek Ep Hx. eapply (B k n todo x); [|exact Hx]. unfold xM. rewrite nth_error_map, Ek. cbn. rewrite Ep. reflexivity.
Qed.

Definition ws_same (st st' : state) : Prop :=
  wsinks (wild st') = wsinks (wild st) /\ xS st' = xS st /\ xC st' = xC st /\ xM st' = xM st.
Lemma WSV_same : forall st st', WSV st -> ws_same st st' -> WSV st'.
Proof. intros st st' W [A [B [C D]]]. unfold WSV. rewrite A, B, C, D. exact W. Qed.
Lemma ws_trans : forall a b c, ws_same a b -> ws_same b c -> ws_same a c.
Proof. intros a b c [A1 [A2 [A3 A4]]] [B1 [B2 [B3 B4]]]. unfold ws_same. repeat split; congruence. Qed.
Lemma ws_refl : forall a, ws_same a a.
Proof. intros. unfold ws_same. repeat split. Qed.

Ltac ws_fin :=
  unfold ws_same, xS, xC, xM;
  cbn [wild wsinks subs emits set_emitter set_emitters set_sub set_subs set_node set_nodes set_blk set_bmap set_wild set_emit set_emits set_panicked];
  repeat split; try reflexivity;
  try (eapply (map_upd_same spc); [eassumption|reflexivity]);
  try (eapply (map_upd_same cpc); [eassumption|reflexivity]);
  try apply xS_expect; try apply xC_expect.

Lemma send_ws : forall st s it st', send st s it = Some st' -> ws_same st st'.
Proof.
  intros st s it st' E. unfold send in E. destruct (nth_error (subs st) s) as [c|] eqn:Ec; [|discriminate].
  destruct (closed c); [inversion E; subst; ws_fin|]. destruct (room c); [|discriminate]. inversion E; subst. ws_fin.
Qed.
Lemma try_drop_ws : forall st ty st', try_drop st ty = Some st' -> ws_same st st'.
Proof. intros st ty st' E. unfold try_drop in E. brute E; inversion E; subst; ws_fin. Qed.
Lemma with_node_ws : forall st ty st1 n, with_node st ty = Some (st1, n) -> ws_same st st1.
Proof.
  intros st ty st1 n E. unfold with_node in E. destruct (lookup st ty) as [sl m] eqn:El.
  destruct (nth_error (nodes sl) m); inversion E; subst.
  unfold lookup in El. destruct (nth_error (bmap st) ty) as [[k|]|]; inversion El; subst; ws_fin.
Qed.

Lemma WSV_intro : forall st' ws vs vc vm, wsinks (wild st') = ws -> xS st' = vs -> xC st' = vc -> xM st' = vm -> WSv ws vs vc vm -> WSV st'.
Proof. intros st' ws vs vc vm <- <- <- <- H. exact H. Qed.

Lemma emit_wsv : forall st k l st', WSV st -> step_emit st k = Some (l, st') -> WSV st'.
Proof.
  intros st k l st' W E. unfold step_emit in E.
  destruct (nth_error (emits st) k) as [e|] eqn:Ek; [|discriminate].
  destruct (nth_error (emitters st) (eem e)) as [m|]; [|discriminate].
  assert (Vk : nth_error (xM st) k = Some (epc e)) by (unfold xM; rewrite nth_error_map, Ek; reflexivity).
  assert (G : forall stx p, ws_same st stx -> (forall n todo x, p = EWSend n todo -> In x todo -> In x (wsinks (wild st))) ->
            WSV (set_emit stx k (e_pc e p))).
  { intros stx p [A [B [C D]]] Hp. eapply WSV_intro; [exact A|exact B|exact C|rewrite xM_upd, D; reflexivity|]. cbn [epc e_pc].
    destruct W as [W1 W2]. split; [exact W1|]. intros k' n todo x H Hx. apply nth_error_upd_inv in H. destruct H as [[-> [X _]]|[N H]].
    - eapply Hp; [symmetry; exact X|exact Hx].
    - eapply W2; eassumption. }
  destruct (epc e) as [| | |n [|x r]|n|n|n [|x r]|c|] eqn:Ep; try discriminate.
  - destruct (Nat.eqb (mnew m) 4); inversion E; subst. apply G; [apply ws_refl|intros; discriminate].
  - inversion E; subst. apply G; [apply ws_refl|intros; destruct (mclosed m); discriminate].
  - destruct (nth_error (nodes st) (mnode m)) as [nd|] eqn:En; [|discriminate]. destruct (holder nd); [discriminate|].
    inversion E; subst. apply G; [ws_fin|intros; discriminate].
  - destruct (nth_error (nodes st) n) as [nd|] eqn:En; [|discriminate]. inversion E; subst. apply G; [ws_fin|intros; discriminate].
  - otau_inv E. apply G; [eapply send_ws; eassumption|intros; discriminate].
  - inversion E; subst. apply G; [apply ws_refl|intros; destruct (Nat.eqb (nsinks (wild st)) 0); discriminate].
  - destruct (wpend (wild st)); [discriminate|]. inversion E; subst. apply G; [ws_fin|]. intros n0 todo x X Hx. inversion X; subst. exact Hx.
  - inversion E; subst. apply G; [ws_fin|intros; discriminate].
  - otau_inv E. apply G; [eapply send_ws; eassumption|]. intros n0 todo y X Hy. inversion X; subst n0 todo.
    destruct W as [_ W2]. eapply (W2 k n (x :: r) y Vk). right. exact Hy.
  - inversion E; subst. apply G; [apply ws_refl|intros; discriminate].
Qed.

(* a subscription whose Subscribe pc is not SRet/SDone is not in the wildcard list *)
Lemma not_listed_sub : forall ws vs vc vm s p, WSv ws vs vc vm -> nth_error vs s = Some p -> sub_ok_pc p = false -> ~ In s ws.
Proof. intros ws vs vc vm s p [A _] Hs Hp Hin. destruct (A s Hin) as [p' [q [X [_ [Y _]]]]]. congruence. Qed.

Lemma WSv_sub_upd : forall ws vs vc vm s p p', WSv ws vs vc vm -> nth_error vs s = Some p ->
  (In s ws -> sub_ok_pc p' = true) -> WSv ws (upd vs s p') vc vm.
Proof.
  intros ws vs vc vm s p p' [A B] Hs Hp. split; [|exact B]. intros x Hx. destruct (A x Hx) as [px [q [X [Y [Z T]]]]].
  destruct (Nat.eq_dec s x) as [->|N].
  - exists p', q. rewrite (nth_error_upd_eq _ _ _ _ Hs). auto.
  - exists px, q. rewrite nth_error_upd_neq by assumption. auto.
Qed.

Lemma WSv_close_upd : forall ws vs vc vm s q q', WSv ws vs vc vm -> nth_error vc s = Some q ->
  (In s ws -> close_ok_pc q' = true) -> WSv ws vs (upd vc s q') vm.
Proof.
  intros ws vs vc vm s q q' [A B] Hs Hq. split; [|exact B]. intros x Hx. destruct (A x Hx) as [p [qx [X [Y [Z T]]]]].
  destruct (Nat.eq_dec s x) as [->|N].
  - exists p, q'. rewrite (nth_error_upd_eq _ _ _ _ Hs). auto.
  - exists p, qx. rewrite nth_error_upd_neq by assumption. auto.
Qed.

Lemma sub_wsv : forall st s l st', Forall sub_loc (subs st) -> WSV st -> step_sub st s = Some (l, st') -> WSV st'.
Proof.
  intros st s l st' HL W E. unfold step_sub in E. destruct (nth_error (subs st) s) as [c|] eqn:Ec; [|discriminate].
  assert (Vs : nth_error (xS st) s = Some (spc c)) by (unfold xS; rewrite nth_error_map, Ec; reflexivity).
  assert (Vc : nth_error (xC st) s = Some (cpc c)) by (unfold xC; rewrite nth_error_map, Ec; reflexivity).
  assert (G : forall stx c', ws_same st stx -> cpc c' = cpc c -> (In s (wsinks (wild st)) -> sub_ok_pc (spc c') = true) -> WSV (set_sub stx s c')).
  { intros stx c' [A [B [C D]]] Hc Hp. eapply WSV_intro; [exact A|rewrite xS_upd, B; reflexivity| |exact D|].
    - rewrite xC_upd, C. apply upd_same. rewrite Vc, Hc. reflexivity.
    - eapply WSv_sub_upd; [exact W|exact Vs|exact Hp]. }
  assert (NL : sub_ok_pc (spc c) = false -> ~ In s (wsinks (wild st))) by (intros X; eapply not_listed_sub; [exact W|exact Vs|exact X]).
  destruct (spc c) eqn:Ep.
  - destruct (styps c); inversion E; subst; (apply G; [apply ws_refl|reflexivity|intros X; exfalso; exact (NL eq_refl X)]).
  - destruct (styps c) as [tys|]; [|discriminate]. destruct (nth_error tys i) as [ty|]; [|discriminate].
    destruct (with_node st ty) as [[st1 n]|] eqn:Ew; [|discriminate]. inversion E; subst.
    apply G; [eapply with_node_ws; eassumption|reflexivity|intros X; exfalso; exact (NL eq_refl X)].
  - destruct (styps c) as [tys|]; [|discriminate].
    destruct (nth_error (nodes st) n) as [nd|] eqn:En; [|discriminate]. destruct (holder nd); [discriminate|].
    inversion E; subst. apply (G (set_node st n _)); [ws_fin|destruct (keep nd); [destruct (nlast nd)|]; reflexivity|intros X; exfalso; exact (NL eq_refl X)].
  - inversion E; subst. apply (G (set_wild st _)); [ws_fin|reflexivity|intros X; exfalso; exact (NL eq_refl X)].
  - destruct (wpend (wild st)); [discriminate|]. inversion E; subst. apply (G (set_wild st _)); [ws_fin|reflexivity|intros X; exfalso; exact (NL eq_refl X)].
  - (* append to the wildcard list *)
    destruct (Nat.eqb (rdrs (wild st)) 0); [|discriminate]. inversion E; subst. clear E.
    assert (Hk : cpc c = K0) by (apply cpc_K0; [exact (Forall_nth_error _ _ _ _ HL Ec)|congruence]).
    eapply WSV_intro; [reflexivity|apply xS_upd| |reflexivity|].
    + rewrite xC_upd. apply upd_same. exact Vc.
    + cbn [wild set_sub set_subs set_wild wsinks spc c_spc]. destruct W as [A B].
      change (xS (set_wild st _)) with (xS st). change (xC (set_wild st _)) with (xC st). change (xM (set_sub (set_wild st _) s _)) with (xM st). split.
      * intros x Hx. apply in_app_or in Hx. destruct Hx as [Hx|[<-|[]]].
        -- destruct (A x Hx) as [p [q [X [Y [Z T]]]]]. destruct (Nat.eq_dec s x) as [->|N].
           ++ exists SRet, q. rewrite (nth_error_upd_eq _ _ _ _ Vs). auto.
           ++ exists p, q. rewrite nth_error_upd_neq by assumption. auto.
        -- exists SRet, K0. rewrite (nth_error_upd_eq _ _ _ _ Vs). rewrite Hk in Vc. auto.
      * intros k n todo x H Hx. apply in_or_app. left. eapply B; eassumption.
  - inversion E; subst. apply G; [apply ws_refl|reflexivity|reflexivity].
  - destruct (styps c); discriminate.
Qed.

Lemma close_wsv : forall st s l st', Inv2 st -> WildV st -> WSV st -> step_close st s = Some (l, st') -> WSV st'.
Proof.
  intros st s l st' I WV W E. unfold step_close in E. destruct (nth_error (subs st) s) as [c|] eqn:Ec; [|discriminate].
  assert (Vs : nth_error (xS st) s = Some (spc c)) by (unfold xS; rewrite nth_error_map, Ec; reflexivity).
  assert (Vc : nth_error (xC st) s = Some (cpc c)) by (unfold xC; rewrite nth_error_map, Ec; reflexivity).
  assert (G : forall stx c', ws_same st stx -> spc c' = spc c -> (In s (wsinks (wild st)) -> close_ok_pc (cpc c') = true) -> WSV (set_sub stx s c')).
  { intros stx c' [A [B [C D]]] Hc Hp. eapply WSV_intro; [exact A| |rewrite xC_upd, C; reflexivity|exact D|].
    - rewrite xS_upd, B. apply upd_same. rewrite Vs, Hc. reflexivity.
    - eapply WSv_close_upd; [exact W|exact Vc|exact Hp]. }
  assert (NL : close_ok_pc (cpc c) = false -> ~ In s (wsinks (wild st))).
  { intros X Hin. destruct W as [A _]. destruct (A s Hin) as [p [q [_ [Y [_ T]]]]]. rewrite Vc in Y. inversion Y; subst. congruence. }
  assert (WL : In s (wsinks (wild st)) -> styps c = None).
  { intros Hin. destruct (iW1 st I s Hin) as [c' [Ec' Hw]]. rewrite Ec in Ec'. inversion Ec'; subst. exact Hw. }
  destruct (cpc c) eqn:Ek; try discriminate.
  - destruct (spc c) eqn:Ep; try discriminate. inversion E; subst. apply G; [apply ws_refl|cbn; exact Ep|].
    intros Hin. cbn. rewrite (WL Hin). reflexivity.
  - destruct (nth_error (snodes c) i) as [n|]; [|discriminate]. destruct (nth_error (nodes st) n) as [nd|] eqn:En; [|discriminate].
    destruct (holder nd); [discriminate|]. inversion E; subst. apply (G (set_node st n _)); [ws_fin|reflexivity|intros X; exfalso; exact (NL eq_refl X)].
  - inversion E; subst. apply G; [apply ws_refl|reflexivity|intros X; exfalso; exact (NL eq_refl X)].
  - destruct (nth_error (snodes c) i) as [n|]; [|discriminate]. destruct (nth_error (nodes st) n) as [nd|]; [|discriminate].
    otau_inv E. apply G; [eapply try_drop_ws; eassumption|reflexivity|intros X; exfalso; exact (NL eq_refl X)].
  - inversion E; subst. apply G; [apply ws_refl|reflexivity|intros X; exfalso; exact (NL eq_refl X)].
  - inversion E; subst. apply (G (set_wild st _)); [ws_fin|reflexivity|reflexivity].
  - destruct (wpend (wild st)); [discriminate|]. inversion E; subst. apply (G (set_wild st _)); [ws_fin|reflexivity|reflexivity].
  - (* the write section removes s from the list; no Emit is inside the wildcard loop *)
    destruct (Nat.eqb (rdrs (wild st)) 0) eqn:Z; [|discriminate]. apply Nat.eqb_eq in Z. inversion E; subst. clear E.
    destruct WV as [_ WR]. rewrite Z in WR.
    assert (NoR : forall k n todo, nth_error (xM st) k = Some (EWSend n todo) -> False).
    { intros k n todo H. unfold cntf in WR. assert (In (EWSend n todo) (filter wsendb (xM st))) by (apply filter_In; split; [eapply nth_error_In, H|reflexivity]).
      destruct (filter wsendb (xM st)); [contradiction|discriminate]. }
    eapply WSV_intro; [reflexivity| |apply xC_upd|reflexivity|].
    + rewrite xS_upd. apply upd_same. exact Vs.
    + cbn [wild set_sub set_subs set_wild wsinks cpc c_cpc]. destruct W as [A B].
      change (xS (set_wild st _)) with (xS st). change (xC (set_wild st _)) with (xC st). change (xM (set_sub (set_wild st _) s _)) with (xM st). split.
      * intros x Hx. apply filter_In in Hx. destruct Hx as [Hx Ne]. destruct (A x Hx) as [p [q [X [Y [U T]]]]].
        destruct (Nat.eqb_spec x s) as [->|N]; [discriminate|]. exists p, q. rewrite nth_error_upd_neq by congruence. auto.
      * intros k n todo x H Hx. exfalso. eapply NoR, H.
  - inversion E; subst. apply G; [apply ws_refl|reflexivity|intros X; exfalso; exact (NL eq_refl X)].
  - destruct (Nat.eqb (drain c) 3); [|discriminate]. inversion E; subst. apply G; [apply ws_refl|reflexivity|intros X; exfalso; exact (NL eq_refl X)].
  - inversion E; subst. apply G; [apply ws_refl|reflexivity|intros X; exfalso; exact (NL eq_refl X)].
Qed.

Lemma other_ws : forall st t l st', (match t with TEmit _ | TSub _ | TClose _ => False | _ => True end) ->
  step st t = Some (l, st') -> ws_same st st'.
Proof.
  intros st t l st' Ht E. destruct t; try contradiction; cbn [step] in E.
  - unfold step_emnew in E. destruct (nth_error (emitters st) j) as [m|]; [|discriminate].
    destruct (mnew m) as [|[|[|[|?]]]]; try discriminate.
    + inversion E; subst; ws_fin.
    + destruct (with_node st (mty m)) as [[st1 n]|] eqn:Ew; [|discriminate]. inversion E; subst.
      eapply ws_trans; [eapply with_node_ws; eassumption|ws_fin].
    + brute E; inversion E; subst; ws_fin.
    + inversion E; subst; ws_fin.
  - unfold step_emclose in E. destruct (nth_error (emitters st) j) as [m|]; [|discriminate].
    destruct (mcl m); try discriminate; try solve [brute E; inversion E; subst; ws_fin].
    otau_inv E. eapply ws_trans; [eapply try_drop_ws; eassumption|ws_fin].
  - unfold step_replay in E. destruct (nth_error (subs st) s) as [c|] eqn:Ec; [|discriminate].
    destruct (nth_error (rpend c) i) as [[|]|]; try discriminate.
    destruct (nth_error (snodes c) i) as [n|]; [|discriminate].
    destruct (nth_error (nodes st) n) as [nd|] eqn:En; [|discriminate].
    destruct (keep nd); [destruct (nlast nd) as [lv|]|]; try solve [inversion E; subst; ws_fin].
    otau_inv E. eapply ws_trans; [eapply send_ws; eassumption|].
    destruct (nth_error (subs x) s) as [c'|] eqn:Ec'; [ws_fin|apply ws_refl].
  - unfold step_drain in E. destruct (nth_error (subs st) s) as [c|] eqn:Ec; [|discriminate]. brute E; inversion E; subst; ws_fin.
  - unfold step_req in E. destruct (nth_error (subs st) s) as [c|] eqn:Ec; [|discriminate]. inversion E; subst; ws_fin.
  - unfold step_recv in E. destruct (nth_error (subs st) s) as [c|] eqn:Ec; [|discriminate]. brute E; inversion E; subst; ws_fin.
  - unfold step_read in E. destruct (nth_error (subs st) s) as [c|] eqn:Ec; [|discriminate]. brute E; inversion E; subst; ws_fin.
Qed.

Lemma step_wsv : forall st t l st', Forall sub_loc (subs st) -> Inv2 st -> WildV st -> WSV st -> step st t = Some (l, st') -> WSV st'.
Proof.
  intros st t l st' HL I WV W E. destruct t;
    try (eapply WSV_same; [exact W|eapply other_ws; [|exact E]; exact Logic.I]); cbn [step] in E.
  - eapply emit_wsv; eassumption.
  - eapply sub_wsv; eassumption.
  - eapply close_wsv; eassumption.
Qed.

Lemma initial_wsv : forall st, initial st -> WSV st.
Proof.
  intros st [_ [Hw [_ [_ [_ Hm]]]]]. unfold WSV. rewrite Hw. cbn. split; [intros x []|].
  intros k n todo x H. unfold xM in H. rewrite nth_error_map in H. destruct (nth_error (emits st) k) as [e|] eqn:Ek; [|discriminate].
  rewrite Forall_forall in Hm. inversion H as [X]. rewrite (Hm e (nth_error_In _ _ Ek)) in X. discriminate.
Qed.

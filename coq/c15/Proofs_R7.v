(* C15 — rule 7: events of Emit calls that do not overlap reach a subscription in call
   order (an event is not overtaken by a later one). *)
From Coq Require Import List Arith ZArith Bool Lia.
From Verif Require Import lib.Wire c15.Lts c15.Model c15.Spec c15.Proofs c15.Proofs_Chan c15.Proofs_Loc c15.Proofs_List c15.Proofs_Safe
  c15.Proofs_Init c15.Proofs_Once c15.Proofs_First c15.Proofs_Wild c15.Proofs_Thm c15.Proofs_Grow c15.Proofs_Live c15.Proofs_Pend c15.Proofs_Idx c15.Proofs_Dead c15.Proofs_Prog c15.Proofs_Valid c15.Proofs_WildOK
  c15.Proofs_Blk c15.Proofs_Obs c15.Proofs_Loc3 c15.Proofs_WSI c15.Proofs_TY c15.Proofs_Rule13 c15.Proofs_Reads c15.Proofs_Wire c15.Proofs_Disc c15.Proofs_Mon c15.Proofs_MonS
  c15.Proofs_Tr c15.Proofs_Cpl c15.Proofs_RInv c15.Proofs_RCtx c15.Proofs_Prom c15.Proofs_R3 c15.Proofs_CEv c15.Proofs_ChI c15.Proofs_R5 c15.Proofs_Loc4 c15.Proofs_R4
  c15.Proofs_RegA c15.Proofs_RegB c15.Proofs_RegW c15.Proofs_RegRun c15.Proofs_MD c15.Proofs_RF c15.Proofs_R9.
Import ListNotations.
Local Open Scope Z_scope.

Definition H7 (st : state) (pre : list label) : Prop :=
  forall s c k k2 e e2, nth_error (subs st) s = Some c -> nth_error (emits st) k = Some e -> nth_error (emits st) k2 = Some e2 ->
    a_rbs pre k2 k = true -> a_fresh pre s k2 = true ->
    forall h1 h2 t, hist c = h1 ++ (t, eev e) :: h2 -> ~ In (eev e2) (map snd h2).

Lemma rbs_step : forall pre l k2 k, a_rbs (pre ++ olab l) k2 k = true ->
  a_rbs pre k2 k = true \/ (l = Some (LStart (TEmit k)) /\ o_started pre (TEmit k) = false /\ o_returned pre (TEmit k2) = true).
Proof.
  intros pre l k2 k H. destruct l as [l|]; [|cbn in H; rewrite app_nil_r in H; left; exact H]. cbn [olab] in H.
  unfold a_rbs in *. rewrite before_app in H. fold (o_started pre (TEmit k)) in H. destruct (o_started pre (TEmit k)) eqn:S; [left; exact H|].
  destruct (lab_is_start (TEmit k) l) eqn:L; [|discriminate]. right. apply lab_is_start_inv in L. subst l. auto.
Qed.

Lemma rbs_returned : forall pre k2 k, a_rbs pre k2 k = true -> o_returned pre (TEmit k2) = true /\ o_started pre (TEmit k) = true.
Proof. intros pre k2 k H. apply before_true in H. exact H. Qed.

Lemma app_snoc_split : forall {A} (h2 h1 l : list A) x y, h1 ++ x :: h2 = l ++ [y] ->
  (h2 = [] /\ l = h1 /\ x = y) \/ (exists h2a, h2 = h2a ++ [y] /\ l = h1 ++ x :: h2a).
Proof.
  intros A h2. induction h2 as [|z h2 IH] using rev_ind; intros h1 l x y H.
  - left. apply app_inj_tail in H. destruct H. auto.
  - right. exists h2. rewrite app_comm_cons, app_assoc in H. apply app_inj_tail in H. destruct H as [H1 H2]. subst z. auto.
Qed.

Lemma eev_back : forall st t l st' k e', step st t = Some (l, st') -> nth_error (emits st') k = Some e' ->
  exists e, nth_error (emits st) k = Some e /\ eev e = eev e'.
Proof.
  intros st t l st' k e' E H. destruct t; try (apply emits_other in E; [rewrite E in H; exists e'; auto|exact I]).
  cbn [step] in E. eapply esame_emit; eassumption.
Qed.

(* the history of a channel only grows by the items that somebody sends *)
Lemma hist_step : forall st t l st' s c', step st t = Some (l, st') -> nth_error (subs st') s = Some c' ->
  exists c, nth_error (subs st) s = Some c /\ (hist c' = hist c \/ exists it, hist c' = hist c ++ [it] /\ pusher st t s it /\ l = None).
Proof.
  intros st t l st' s c' E Ec'. destruct (step_chan_ev _ _ _ _ E) as [[M Q]|[s0 [c0 [c0' [Ec0 [Ec0' [M Ev]]]]]]].
  - assert (X : nth_error (map cw (subs st')) s = nth_error (map cw (subs st)) s) by (rewrite M; reflexivity).
    rewrite !nth_error_map, Ec' in X. destruct (nth_error (subs st) s) as [c|] eqn:Ec; [|discriminate]. exists c. split; [reflexivity|].
    cbn in X. left. unfold cw in X. inversion X. reflexivity.
  - destruct (Nat.eq_dec s s0) as [->|N].
    + rewrite Ec0' in Ec'. inversion Ec'; subst c0'. exists c0. split; [exact Ec0|].
      destruct Ev as [it Hl Hc Hr Hp Hw|it b w Ht Hl Hwn Hb Hw|w Ht Hl Hwn Hb Hc Hw|it b Ht Hl Hd Hb Hw|Ht Hl Hd Hb Hx Hw
                     |Ht Hl Hw|v r Ht Hl Hh' Hw|Ht Hl Hk Hp Hw|Ht Hl Hk Hk' Hw|Ht Hl Hk Hw];
        unfold cw in Hw; inversion Hw as [[B1 B2 B3 B4 B5 B6 B7]]; try (left; reflexivity).
      right. exists it. repeat split; auto.
    + assert (X : nth_error (map cw (subs st')) s = nth_error (upd (map cw (subs st)) s0 (cw c0')) s) by (rewrite M; reflexivity).
      rewrite nth_error_upd_neq in X by congruence. rewrite !nth_error_map, Ec' in X.
      destruct (nth_error (subs st) s) as [c|] eqn:Ec; [|discriminate]. exists c. split; [reflexivity|]. cbn in X. left. unfold cw in X. inversion X. reflexivity.
Qed.

(* whatever is in a channel history is the event of an Emit past its lock point *)
Lemma hist_locked : forall c s1 s cs t v k e, cfg_wf c = true -> nth_error (subs (St c s1)) s = Some cs -> In (t, v) (hist cs) ->
  nth_error (emits (St c s1)) k = Some e -> eev e = v -> lk_pc (is_none (styps cs)) (epc e) (a_ok (Tr c s1) k).
Proof.
  intros c s1 s cs t v k e W Ec Hi Ek Ev. pose proof (hist_in_expd _ s1 s cs t v (init_initial c W) Ec Hi) as Hx.
  destruct (prom_cfg c s1 W) as [T _ _ _].
  assert (Vx : nth_error (pX (St c s1)) s = Some (styps cs, expd cs)) by (unfold pX; rewrite nth_error_map; unfold St in Ec; unfold St; rewrite Ec; reflexivity).
  destruct (T s _ _ t v Vx Hx) as [k0 [j [p [A [B _]]]]]. unfold pE in A. rewrite nth_error_map in A.
  destruct (nth_error (emits (St c s1)) k0) as [e0|] eqn:Ek0; [|discriminate]. inversion A; subst.
  assert (k0 = k) by (eapply (Proofs_RCtx.ids_unique c s1); eauto). subst k0. rewrite Ek in Ek0. inversion Ek0; subst e0. exact B.
Qed.

Lemma h7_step_cfg : forall c s0 t l st', cfg_wf c = true -> H7 (St c s0) (Tr c s0) -> step (St c s0) t = Some (l, st') ->
  H7 st' (Tr c s0 ++ olab l).
Proof.
  intros c s0 t l st' W H E s c' k k2 e' e2' Ec' Ek' Ek2' Hrbs Hf h1 h2 t0 Hsplit Hin.
  destruct (trok_cfg c s0 W) as [O TS TC].
  destruct (eev_back _ _ _ _ _ _ E Ek') as [e [Ek Ev]]. destruct (eev_back _ _ _ _ _ _ E Ek2') as [e2 [Ek2 Ev2]].
  destruct (hist_step _ _ _ _ _ _ E Ec') as [cs [Ec Hh]]. rewrite <- Ev in Hsplit. rewrite <- Ev2 in Hin.
  (* the Emit with event (t0, eev e) in the history is past its lock point *)
  assert (LK : In (t0, eev e) (hist cs) -> lk_pc (is_none (styps cs)) (epc e) (a_ok (Tr c s0) k)).
  { intros Hi. eapply hist_locked; try eassumption. reflexivity. }
  assert (ST : forall w, lk_pc w (epc e) (a_ok (Tr c s0) k) -> o_started (Tr c s0) (TEmit k) = true).
  { intros w L. eapply (locked_started _ _ k e w (trok_cfg c s0 W) Ek L). }
  destruct (rbs_step _ _ _ _ Hrbs) as [Hr0|[Hs [Ns _]]].
  - (* k2 had returned before k started, already in the old trace *)
    destruct (rbs_returned _ _ _ Hr0) as [R2 S1].
    assert (Hf0 : a_fresh (Tr c s0) s k2 = true).
    { destruct (fresh_step _ _ _ _ Hf) as [X|[_ [X _]]]; [exact X|]. rewrite (TS _ R2) in X. discriminate. }
    destruct Hh as [Hh|[it [Hh [Hp _]]]].
    + rewrite Hh in Hsplit. exact (H s cs k k2 e e2 Ec Ek Ek2 Hr0 Hf0 h1 h2 t0 Hsplit Hin).
    + rewrite Hh in Hsplit. symmetry in Hsplit. destruct (app_snoc_split _ _ _ _ _ Hsplit) as [[-> _]|[h2a [-> Hl]]]; [contradiction|].
      rewrite map_app in Hin. apply in_app_or in Hin. destruct Hin as [Hin|[Hin|[]]]; [exact (H s cs k k2 e e2 Ec Ek Ek2 Hr0 Hf0 h1 h2a t0 Hl Hin)|].
      (* the item just sent is not an event of k2: k2 has returned, and it is not being replayed to s *)
      destruct Hp as [[k' [e1 [n [r [_ [Ek1 [[Ep ->]|[Ep ->]]]]]]]]|[i [c0 [n [nd [lv [_ [Ec0 [Er [Es [En [_ [El ->]]]]]]]]]]]]]; cbn in Hin.
      * assert (k' = k2) by (eapply (Proofs_RCtx.ids_unique c s0); eauto). subst k'. rewrite Ek2 in Ek1. inversion Ek1; subst e1.
        pose proof (obM _ _ O k2 (epc e2)) as OM. unfold xM in OM. rewrite nth_error_map in OM. fold (St c s0) in OM. rewrite Ek2 in OM. specialize (OM eq_refl).
        unfold tstat in OM. fold (Tr c s0) in OM. rewrite R2, Ep in OM. discriminate.
      * assert (k' = k2) by (eapply (Proofs_RCtx.ids_unique c s0); eauto). subst k'. rewrite Ek2 in Ek1. inversion Ek1; subst e1.
        pose proof (obM _ _ O k2 (epc e2)) as OM. unfold xM in OM. rewrite nth_error_map in OM. fold (St c s0) in OM. rewrite Ek2 in OM. specialize (OM eq_refl).
        unfold tstat in OM. fold (Tr c s0) in OM. rewrite R2, Ep in OM. discriminate.
      * rewrite Ec in Ec0. inversion Ec0; subst c0.
        pose proof (rf_cfg c s0 W s cs i n nd k2 e2 Ec Er Es En ltac:(congruence) Ek2) as F. congruence.
  - (* k starts now: nothing of k is in any history yet *)
    exfalso. assert (Hi : In (t0, eev e) (hist cs)).
    { destruct Hh as [Hh|[it [Hh [Hp Hl]]]]; rewrite Hh in Hsplit.
      - rewrite Hsplit. apply in_or_app. right. left. reflexivity.
      - congruence. }
    specialize (ST _ (LK Hi)). congruence.
Qed.

Lemma h7_cfg : forall c s1, cfg_wf c = true -> H7 (St c s1) (Tr c s1).
Proof.
  intros c s1 W. unfold St, Tr. apply (coupled_run_all H7).
  - intros s cs k k2 e e2 _ _ _ Hr. discriminate Hr.
  - intros s0 t l st' H E. eapply h7_step_cfg; eassumption.
Qed.

Lemma rule7_ok : read_rule_ok 7.
Proof.
  intros c s1 t s v st' W D E Hv. destruct (read_step_inv _ _ _ _ _ E) as [cs [r [Ec [Eh _]]]]. fold (St c s1) in Ec.
  destruct (hand_witness c s1 s cs v W Ec ltac:(rewrite Eh; left; reflexivity) Hv) as [tag [k [e [_ [_ [_ [Ek [Ev [F L]]]]]]]]].
  eapply read_not; [exact F|]. do 6 right. left. split; [reflexivity|]. unfold c7. fold (Tr c s1).
  destruct (a_started (Tr c s1) (TClose s)) eqn:Hc; [reflexivity|]. cbn [negb andb]. unfold a_started in Hc.
  apply not_true_is_false. intros X. apply existsb_exists in X. destruct X as [k2 [Hk2 X]].
  repeat (apply andb_true_iff in X; destruct X as [X ?]).
  rename H into Hunread, H0 into Hrbs, H1 into Hf, H2 into Hok, H3 into Hm. apply negb_true_iff, Nat.eqb_neq in X.
  rewrite (d_state c s1), dm_emits_state in Hk2. apply in_seq in Hk2. fold (St c s1) in Hk2.
  destruct (nth_error (emits (St c s1)) k2) as [e2|] eqn:Ek2; [|apply nth_error_None in Ek2; lia].
  assert (Dv : dm_ev (dcfg_of_cfg c) k2 = Some (eev e2)) by (rewrite (d_state c s1), dm_ev_state; fold (St c s1); rewrite Ek2; reflexivity).
  rewrite Dv in Hunread. apply negb_true_iff in Hunread.
  (* k2's event is in the channel history *)
  assert (H2 : In (eev e2) (map snd (hist cs))).
  { eapply fresh_delivered; try eassumption. eapply matches_state; eassumption. }
  destruct (fresh_returned _ _ _ Hf) as [Rs _]. destruct (open_sub_pcs c s1 s cs W Ec Rs Hc) as [_ [_ [Cl Dr]]].
  destruct (chan_integrity_l (init_of c) s1 s cs (init_initial c W) Ec) as [taken [Hh Ht]]. specialize (Ht Dr). subst taken.
  pose proof (recv_count c s1 s cs W Ec Cl) as RC. rewrite Eh in RC.
  (* split what was received at the value being reported *)
  symmetry in RC. apply map_eq_app in RC. destruct RC as [r1 [r2' [Er [M1 M2]]]]. destruct r2' as [|[t0 v0] r2]; [discriminate|]. cbn in M2. inversion M2 as [[Ev0 M3]]. subst v0.
  assert (Hsplit : hist cs = r1 ++ (t0, eev e) :: (r2 ++ buf cs)) by (rewrite Hh, Er, Ev, <- app_assoc; reflexivity).
  pose proof (h7_cfg c s1 W s cs k k2 e e2 Ec Ek Ek2 Hrbs Hf r1 (r2 ++ buf cs) t0 Hsplit) as N7.
  rewrite Hsplit, map_app in H2. cbn in H2. apply in_app_or in H2. destruct H2 as [H2|[H2|H2]].
  - rewrite M1 in H2. unfold a_read, a_reads in Hunread. assert (Y : existsb (Z.eqb (eev e2)) (reads_d (Tr c s1) s) = true).
    { apply existsb_exists. exists (eev e2). split; [exact H2|apply Z.eqb_refl]. } congruence.
  - apply X. eapply (Proofs_RCtx.ids_unique c s1); eauto.
  - exact (N7 H2).
Qed.

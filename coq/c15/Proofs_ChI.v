(* C15 — channel-level invariant coupled with the trace: what the consumer received is a
   subsequence of what was taken out of the channel; the values reported and held are the
   received ones (plus -2 markers after the close); buffer bound. *)
From Coq Require Import List Arith ZArith Bool Lia.
From Verif Require Import lib.Wire c15.Lts c15.Model c15.Spec c15.Proofs c15.Proofs_Chan c15.Proofs_Loc c15.Proofs_List c15.Proofs_Safe
  c15.Proofs_Init c15.Proofs_Live c15.Proofs_Pend c15.Proofs_Obs c15.Proofs_Mon c15.Proofs_Tr c15.Proofs_Cpl c15.Proofs_CEv.
Import ListNotations.
Local Open Scope Z_scope.

Inductive subseq {A} : list A -> list A -> Prop :=
| ss_nil : subseq [] []
| ss_skip x a b : subseq a b -> subseq a (x :: b)
| ss_take x a b : subseq a b -> subseq (x :: a) (x :: b).

Lemma subseq_refl : forall {A} (l : list A), subseq l l.
Proof. induction l; constructor; assumption. Qed.
Lemma subseq_nil : forall {A} (l : list A), subseq [] l.
Proof. induction l; constructor; assumption. Qed.
Lemma subseq_app_skip : forall {A} (a b : list A) x, subseq a b -> subseq a (b ++ [x]).
Proof. intros A a b x H. induction H; cbn; [constructor; constructor|constructor; assumption|constructor; assumption]. Qed.
Lemma subseq_app_take : forall {A} (a b : list A) x, subseq a b -> subseq (a ++ [x]) (b ++ [x]).
Proof. intros A a b x H. induction H; cbn; [constructor; constructor|constructor; assumption|constructor; assumption]. Qed.
Lemma subseq_in : forall {A} (a b : list A) x, subseq a b -> In x a -> In x b.
Proof. intros A a b x H. induction H; intros Hi; [exact Hi|right; auto|destruct Hi as [->|Hi]; [left; reflexivity|right; auto]]. Qed.
Lemma subseq_map : forall {A B} (f : A -> B) a b, subseq a b -> subseq (map f a) (map f b).
Proof. intros A B f a b H. induction H; cbn; constructor; assumption. Qed.
Lemma subseq_nodup : forall {A} (a b : list A), subseq a b -> NoDup b -> NoDup a.
Proof.
  intros A a b H. induction H; intros ND; [constructor|inversion ND; auto|].
  inversion ND; subst. constructor; [|auto]. intros Hi. apply H2. eapply subseq_in; eassumption.
Qed.
Lemma subseq_app : forall {A} (a b c d : list A), subseq a b -> subseq c d -> subseq (a ++ c) (b ++ d).
Proof. intros A a b c d H H2. induction H; cbn; [exact H2|constructor; assumption|constructor; assumption]. Qed.
Lemma subseq_length : forall {A} (a b : list A), subseq a b -> (length a <= length b)%nat.
Proof. intros A a b H. induction H; cbn; lia. Qed.

Definition nm2 (v : Z) : bool := negb (v =? -2).
Definition dbit (d : nat) : nat := if Nat.eqb d 1 || Nat.eqb d 2 then 1%nat else 0%nat.

Definition cwt := (list item * bool * nat * nat * list item * list item * list Z)%type.

Record ChanT (s : nat) (x : cwt) (cap : nat) (pre : list label) : Prop := {
  h_sq : let '(b, cl, w, d, h, rc, hd) := x in exists taken, h = taken ++ b /\ subseq rc taken;
  h_rd : let '(b, cl, w, d, h, rc, hd) := x in filter nm2 (reads_d pre s ++ hd) = map snd rc;
  h_nc : let '(b, cl, w, d, h, rc, hd) := x in cl = false -> Forall (fun v => v <> -2) (reads_d pre s ++ hd);
  h_bd : let '(b, cl, w, d, h, rc, hd) := x in (length b <= cap + w + dbit d)%nat }.

Definition ChanI (st : state) (pre : list label) : Prop :=
  forall s c, nth_error (subs st) s = Some c -> ChanT s (cw c) (ccap c) pre.

Definition BufOK (st : state) : Prop := forall s c it, nth_error (subs st) s = Some c -> In it (buf c) -> snd it <> -2.

Lemma reads_d_other : forall pre l s, (match l with Some (LRead s' _) => s' <> s | _ => True end) -> reads_d (pre ++ olab l) s = reads_d pre s.
Proof.
  intros pre l s H. destruct l as [l|]; [|cbn; rewrite app_nil_r; reflexivity]. cbn [olab]. rewrite reads_d_app.
  destruct l; try apply app_nil_r. destruct (Nat.eqb_spec s s0); [subst; contradiction|apply app_nil_r].
Qed.

Lemma ChanT_label : forall s x cap pre l, (match l with Some (LRead s' _) => s' <> s | _ => True end) ->
  ChanT s x cap pre -> ChanT s x cap (pre ++ olab l).
Proof.
  intros s [[[[[[b cl] w] d] h] rc] hd] cap pre l H [A B C D]. constructor; cbn in *; rewrite ?(reads_d_other pre l s H); assumption.
Qed.

Lemma filter_snoc : forall {A} (f : A -> bool) l x, filter f (l ++ [x]) = filter f l ++ (if f x then [x] else []).
Proof. intros. rewrite filter_app. reflexivity. Qed.

Lemma draining_dbit : forall c, (if draining c then 1%nat else 0%nat) = dbit (drain c).
Proof. intros. unfold draining, dbit. reflexivity. Qed.

Lemma ChanT_ev : forall st t l s c c' pre, ChanT s (cw c) (ccap c) pre -> cev st t l s c c' ->
  (forall it, In it (buf c) -> snd it <> -2) -> ChanT s (cw c') (ccap c) (pre ++ olab l).
Proof.
  intros st t l s c c' pre [A B C D] Ev OK. unfold cw in A, B, C, D. cbv beta iota in A, B, C, D.
  destruct A as [taken [Hh Hs]].
  destruct Ev as [it Hl Hc Hr Hp Hw|it b w Ht Hl Hwn Hb Hw|w Ht Hl Hwn Hb Hc Hw|it b Ht Hl Hd Hb Hw|Ht Hl Hd Hb Hx Hw
                 |Ht Hl Hw|v r Ht Hl Hh' Hw|Ht Hl Hk Hp Hw|Ht Hl Hk Hk' Hw|Ht Hl Hk Hw]; rewrite Hw; subst l;
    rewrite ?olab_none; constructor; cbv beta iota.
  - exists taken. split; [rewrite Hh, app_assoc; reflexivity|exact Hs].
  - exact B. - exact C.
  - unfold room in Hr. apply Nat.ltb_lt in Hr. rewrite draining_dbit in Hr. rewrite app_length. cbn. lia.
  - exists (taken ++ [it]). split; [rewrite Hh, Hb, <- app_assoc; reflexivity|apply subseq_app_take, Hs].
  - rewrite app_assoc, filter_snoc, B, map_app. cbn. unfold nm2.
    assert (X : snd it <> -2) by (apply OK; rewrite Hb; left; reflexivity). apply Z.eqb_neq in X. rewrite X. reflexivity.
  - intros Hc. rewrite app_assoc. apply Forall_app. split; [apply C, Hc|]. constructor; [|constructor]. apply OK. rewrite Hb. left. reflexivity.
  - rewrite Hb in D. cbn in D. lia.
  - exists taken. rewrite Hb in Hh. split; assumption.
  - rewrite app_assoc, filter_snoc, B. cbn. apply app_nil_r.
  - intros X. discriminate.
  - cbn. lia.
  - exists (taken ++ [it]). split; [rewrite Hh, Hb, <- app_assoc; reflexivity|apply subseq_app_skip, Hs].
  - exact B. - exact C.
  - rewrite Hb in D. cbn in D. lia.
  - exists taken. split; assumption.
  - exact B. - exact C.
  - rewrite Hb. cbn. lia.
  - exists taken. split; assumption.
  - cbn [olab]. rewrite reads_d_app. rewrite app_nil_r. exact B.
  - cbn [olab]. rewrite reads_d_app. rewrite app_nil_r. exact C.
  - lia.
  - exists taken. split; assumption.
  - cbn [olab]. rewrite reads_d_app, Nat.eqb_refl, <- app_assoc. cbn. rewrite Hh' in B. exact B.
  - cbn [olab]. rewrite reads_d_app, Nat.eqb_refl, <- app_assoc. cbn. rewrite Hh' in C. exact C.
  - exact D.
  - exists taken. split; assumption.
  - cbn [olab]. rewrite reads_d_app. rewrite app_nil_r. exact B.
  - cbn [olab]. rewrite reads_d_app. rewrite app_nil_r. exact C.
  - unfold dbit in *. cbn. destruct (Nat.eqb (drain c) 1 || Nat.eqb (drain c) 2); lia.
  - exists taken. split; assumption.
  - exact B. - intros X. discriminate. - exact D.
  - exists taken. split; assumption.
  - exact B. - exact C.
  - unfold dbit in *. destruct (drain c) as [|[|[|?]]]; cbn in *; lia.
Qed.

Lemma ccap_static : forall st t l st' s c c', step st t = Some (l, st') -> nth_error (subs st) s = Some c ->
  nth_error (subs st') s = Some c' -> ccap c' = ccap c /\ styps c' = styps c.
Proof.
  intros st t l st' s c c' E Ec Ec'. pose proof (step_ds _ _ _ _ E) as H. unfold dstat in H. inversion H as [[A B C]].
  unfold sS in B. assert (X : nth_error (map fS (subs st')) s = nth_error (map fS (subs st)) s) by (rewrite B; reflexivity).
  rewrite !nth_error_map, Ec, Ec' in X. cbn in X. unfold fS in X. inversion X. auto.
Qed.

Lemma chani_step : forall st t l st' pre, ChanI st pre -> BufOK st -> step st t = Some (l, st') -> ChanI st' (pre ++ olab l).
Proof.
  intros st t l st' pre H OK E s c' Ec'. destruct (step_chan_ev _ _ _ _ E) as [[M Q]|[s0 [c0 [c0' [Ec0 [Ec0' [M Ev]]]]]]].
  - assert (X : nth_error (map cw (subs st')) s = nth_error (map cw (subs st)) s) by (rewrite M; reflexivity).
    rewrite !nth_error_map, Ec' in X. destruct (nth_error (subs st) s) as [c|] eqn:Ec; [|discriminate]. cbn in X. assert (Y : cw c' = cw c) by congruence.
    destruct (ccap_static _ _ _ _ s c c' E Ec Ec') as [Hc _]. rewrite Y, Hc. apply ChanT_label; [|apply H, Ec].
    destruct l as [[| | |]|]; try exact Logic.I; contradiction.
  - destruct (Nat.eq_dec s s0) as [->|N].
    + rewrite Ec0' in Ec'. inversion Ec'; subst c0'. destruct (ccap_static _ _ _ _ s0 c0 c' E Ec0 Ec0') as [Hc _]. rewrite Hc.
      eapply ChanT_ev; [apply H, Ec0|exact Ev|]. intros it Hi. eapply OK; eassumption.
    + assert (X : nth_error (map cw (subs st')) s = nth_error (upd (map cw (subs st)) s0 (cw c0')) s) by (rewrite M; reflexivity).
      rewrite nth_error_upd_neq in X by congruence. rewrite !nth_error_map, Ec' in X.
      destruct (nth_error (subs st) s) as [c|] eqn:Ec; [|discriminate]. cbn in X. assert (Y : cw c' = cw c) by congruence.
      destruct (ccap_static _ _ _ _ s c c' E Ec Ec') as [Hc _]. rewrite Y, Hc. apply ChanT_label; [|apply H, Ec].
      destruct l as [[| | |s1 v1]|]; try exact Logic.I.
      inversion Ev; try discriminate. match goal with H : Some _ = Some (LRead _ _) |- _ => inversion H; subst end. congruence.
Qed.

Lemma chani_init : forall st, initial st -> ChanI st [].
Proof.
  intros st [_ [_ [_ [_ [Hs _]]]]] s c Ec. rewrite (Forall_nth_error _ _ _ _ Hs Ec). unfold cw, new_sub. cbn.
  constructor; cbn; [exists []; split; [reflexivity|constructor]|reflexivity|intros; constructor|lia].
Qed.

(* C15 — a typed subscription is promised items of node n only after it has
   joined n; so the retained event, promised at the very step that appends the
   sink to n.sinks (under n.lk, which the replay goroutine keeps until the
   event is in the channel), is the FIRST item of n the subscriber gets. *)
From Coq Require Import List Arith ZArith Bool Lia.
From Verif Require Import c15.Lts c15.Model c15.Proofs_Chan c15.Proofs_Loc c15.Proofs_List c15.Proofs_Safe
  c15.Proofs_Init c15.Proofs_Once.
Import ListNotations.

Definition e1_ok (c : sub) : Prop :=
  styps c <> None -> forall n, ~ In n (snodes c) -> proj n (expd c) = [].

Ltac same_e1 Ec :=
  let y := fresh in let Hy := fresh in let Py := fresh in
  intros y Hy Py; rewrite Ec in Hy; inversion Hy; subst; exact Py.

Lemma send_e1 : forall st s it st', Forall e1_ok (subs st) -> send st s it = Some st' -> Forall e1_ok (subs st').
Proof.
  intros st s it st' H E. unfold send in E. destruct (nth_error (subs st) s) as [c|] eqn:Ec; [|discriminate].
  destruct (closed c). { inversion E; subst. exact H. }
  destruct (room c); [|discriminate]. inversion E; subst. cbn. apply Forall_upd; [exact H|same_e1 Ec].
Qed.

Lemma expect_e1 : forall l tg it, Forall e1_ok l ->
  (forall s c n, nth_error l s = Some c -> styps c <> None -> ~ In n (snodes c) ->
                 proj n (repeat it (count_occ Nat.eq_dec tg s)) = []) ->
  Forall e1_ok (expect_all l tg it 0).
Proof.
  intros l tg it H Hz. apply Forall_forall. intros c' Hin. apply In_nth_error in Hin. destruct Hin as [s Hs].
  rewrite nth_error_expect in Hs. destruct (nth_error l s) as [c|] eqn:Ec; [|discriminate]. cbn in Hs. inversion Hs; subst c'.
  intros Ht n Hn. cbn [expd c_expd snodes styps] in *. rewrite proj_app. rewrite (Forall_nth_error _ _ _ _ H Ec Ht n Hn).
  exact (Hz s c n Ec Ht Hn).
Qed.

Lemma cnt_skipn_le : forall l j x, cnt (skipn j l) x <= cnt l x.
Proof.
  induction l as [|a l IH]; intros [|j] x; cbn [skipn]; try lia. unfold cnt in *. cbn [count_occ].
  specialize (IH j x). destruct (Nat.eq_dec a x); lia.
Qed.

Lemma cnt_remaining_le : forall c x, cnt (remaining c) x <= cnt (snodes c) x.
Proof.
  intros c x. unfold remaining. destruct (cpc c); try (unfold cnt; cbn; lia); try apply cnt_skipn_le.
Qed.

Lemma not_joined_not_listed : forall st s c n nd, Inv2 st -> nth_error (subs st) s = Some c ->
  nth_error (nodes st) n = Some nd -> ~ In n (snodes c) -> cnt (sinks nd) s = 0.
Proof.
  intros st s c n nd I Ec En Hn. pose proof (iK st I n nd s En) as K. unfold rem in K. rewrite Ec in K.
  pose proof (cnt_remaining_le c n). assert (cnt (snodes c) n = 0); [|lia].
  destruct (cnt (snodes c) n) eqn:E; [reflexivity|]. exfalso. apply Hn, cnt_In. lia.
Qed.

Lemma emit_e1 : forall st k l st', Inv2 st -> Forall e1_ok (subs st) -> step_emit st k = Some (l, st') -> Forall e1_ok (subs st').
Proof.
  intros st k l st' I H E. unfold step_emit in E.
  destruct (nth_error (emits st) k) as [e|]; [|discriminate].
  destruct (nth_error (emitters st) (eem e)) as [m|]; [|discriminate].
  destruct (epc e) as [| | |n todo|n|n|n todo|c|].
  - destruct (Nat.eqb (mnew m) 4); inversion E; subst; exact H.
  - inversion E; subst; exact H.
  - destruct (nth_error (nodes st) (mnode m)) as [nd|] eqn:En; [|discriminate].
    destruct (holder nd); [discriminate|]. inversion E; subst. cbn. apply expect_e1; [exact H|].
    intros s c n Ec Ht Hn. destruct (Nat.eq_dec (mnode m) n) as [<-|N].
    + fold (cnt (sinks nd) s). rewrite (not_joined_not_listed st s c (mnode m) nd I Ec En Hn). reflexivity.
    + apply proj_repeat_other. exact N.
  - destruct todo as [|s r].
    + destruct (nth_error (nodes st) n); inversion E; subst; exact H.
    + otau_inv E. cbn. eapply send_e1; eassumption.
  - inversion E; subst; exact H.
  - destruct (wpend (wild st)); [discriminate|]. inversion E; subst. cbn. apply expect_e1; [exact H|].
    intros s c n0 Ec Ht Hn. assert (Z : count_occ Nat.eq_dec (wsinks (wild st)) s = 0).
    { apply count_occ_not_In. intros Hin. apply (typed_not_wild st s c Ec Ht). exact (iW1 st I s Hin). }
    rewrite Z. reflexivity.
  - destruct todo as [|s r].
    + inversion E; subst; exact H.
    + otau_inv E. cbn. eapply send_e1; eassumption.
  - inversion E; subst; exact H.
  - discriminate.
Qed.

Lemma sub_e1 : forall st s l st', Forall e1_ok (subs st) -> step_sub st s = Some (l, st') -> Forall e1_ok (subs st').
Proof.
  intros st s l st' H E. unfold step_sub in E.
  destruct (nth_error (subs st) s) as [c|] eqn:Ec; [|discriminate].
  destruct (spc c) eqn:Ep.
  - destruct (styps c); inversion E; subst; cbn; (apply Forall_upd; [exact H|same_e1 Ec]).
  - destruct (styps c) as [tys|] eqn:Et; [|discriminate]. destruct (nth_error tys i) as [ty|]; [|discriminate].
    destruct (with_node st ty) as [[st1 n]|] eqn:Ew; [|discriminate]. inversion E; subst. cbn.
    rewrite (with_node_subs _ _ _ _ Ew). apply Forall_upd; [exact H|same_e1 Ec].
  - destruct (styps c) as [tys|] eqn:Et; [|discriminate].
    destruct (nth_error (nodes st) n) as [nd|]; [|discriminate].
    destruct (holder nd); [discriminate|]. inversion E; subst. cbn.
    apply Forall_upd; [exact H|]. intros y Hy Py. rewrite Ec in Hy. inversion Hy; subst y.
    assert (G : forall extra, (forall n0, n0 <> n -> proj n0 extra = []) ->
              e1_ok (c_expd (c_app c (if Nat.ltb (S i) (length tys) then SBus (S i) else SRet) n) (expd c ++ extra))).
    { intros extra Hx Ht n0 Hn0. cbn [expd c_expd c_app snodes styps] in *. rewrite proj_app. assert (n0 <> n) by (intros ->; apply Hn0, in_or_app; right; left; reflexivity).
      rewrite Hx by assumption. rewrite app_nil_r. apply Py; [exact Ht|]. intros X. apply Hn0, in_or_app. left. exact X. }
    destruct (keep nd); [destruct (nlast nd) as [lv|]|].
    + apply G. intros n0 N. cbn. destruct (Nat.eqb_spec n n0); [congruence|reflexivity].
    + specialize (G [] (fun _ _ => eq_refl)). cbn in G. rewrite app_nil_r in G.
      intros Ht n0 Hn0. exact (G Ht n0 Hn0).
    + specialize (G [] (fun _ _ => eq_refl)). cbn in G. rewrite app_nil_r in G.
      intros Ht n0 Hn0. exact (G Ht n0 Hn0).
  - inversion E; subst; cbn; (apply Forall_upd; [exact H|same_e1 Ec]).
  - destruct (wpend (wild st)); [discriminate|]. inversion E; subst; cbn; (apply Forall_upd; [exact H|same_e1 Ec]).
  - destruct (Nat.eqb (rdrs (wild st)) 0); [|discriminate]. inversion E; subst; cbn; (apply Forall_upd; [exact H|same_e1 Ec]).
  - inversion E; subst; cbn; (apply Forall_upd; [exact H|same_e1 Ec]).
  - destruct (styps c); discriminate.
Qed.

Lemma replay_e1 : forall st s i l st', Forall e1_ok (subs st) -> step_replay st s i = Some (l, st') -> Forall e1_ok (subs st').
Proof.
  intros st s i l st' H E. unfold step_replay in E.
  destruct (nth_error (subs st) s) as [c|] eqn:Ec; [|discriminate].
  destruct (nth_error (rpend c) i) as [[|]|]; try discriminate.
  destruct (nth_error (snodes c) i) as [n|]; [|discriminate].
  destruct (nth_error (nodes st) n) as [nd|]; [|discriminate].
  assert (Hfin : forall st0, Forall e1_ok (subs st0) ->
     Forall e1_ok (subs (match nth_error (subs st0) s with
                         | Some c' => set_node (set_sub st0 s (c_rpend c' (upd (rpend c') i false))) n (n_holder nd None)
                         | None => st0 end))).
  { intros st0 H0. destruct (nth_error (subs st0) s) as [c'|] eqn:Ec'; [|exact H0]. cbn.
    apply Forall_upd; [exact H0|same_e1 Ec']. }
  destruct (keep nd); [destruct (nlast nd) as [lv|]|].
  - otau_inv E. apply Hfin. eapply send_e1; eassumption.
  - inversion E; subst. cbn. apply Forall_upd; [exact H|same_e1 Ec].
  - inversion E; subst. cbn. apply Forall_upd; [exact H|same_e1 Ec].
Qed.

Lemma close_e1 : forall st s l st', Forall e1_ok (subs st) -> step_close st s = Some (l, st') -> Forall e1_ok (subs st').
Proof.
  intros st s l st' H E. unfold step_close in E.
  destruct (nth_error (subs st) s) as [c|] eqn:Ec; [|discriminate].
  destruct (cpc c).
  - destruct (spc c); try discriminate. inversion E; subst. cbn. apply Forall_upd; [exact H|same_e1 Ec].
  - destruct (nth_error (snodes c) i) as [n|]; [|discriminate].
    destruct (nth_error (nodes st) n) as [nd|]; [|discriminate].
    destruct (holder nd); [discriminate|]. inversion E; subst. cbn. apply Forall_upd; [exact H|same_e1 Ec].
  - inversion E; subst. cbn. apply Forall_upd; [exact H|same_e1 Ec].
  - destruct (nth_error (snodes c) i) as [n|]; [|discriminate].
    destruct (nth_error (nodes st) n) as [nd|]; [|discriminate].
    otau_inv E. cbn. rewrite (try_drop_subs _ _ _ E). apply Forall_upd; [exact H|same_e1 Ec].
  - inversion E; subst. cbn. apply Forall_upd; [exact H|same_e1 Ec].
  - inversion E; subst. cbn. apply Forall_upd; [exact H|same_e1 Ec].
  - destruct (wpend (wild st)); [discriminate|]. inversion E; subst. cbn. apply Forall_upd; [exact H|same_e1 Ec].
  - destruct (Nat.eqb (rdrs (wild st)) 0); [|discriminate]. inversion E; subst. cbn. apply Forall_upd; [exact H|same_e1 Ec].
  - inversion E; subst. cbn. apply Forall_upd; [exact H|same_e1 Ec].
  - destruct (Nat.eqb (drain c) 3); [|discriminate]. inversion E; subst. cbn. apply Forall_upd; [exact H|same_e1 Ec].
  - inversion E; subst. cbn. apply Forall_upd; [exact H|same_e1 Ec].
  - discriminate.
Qed.

Lemma drain_e1 : forall st s l st', Forall e1_ok (subs st) -> step_drain st s = Some (l, st') -> Forall e1_ok (subs st').
Proof.
  intros st s l st' H E. unfold step_drain in E.
  destruct (nth_error (subs st) s) as [c|] eqn:Ec; [|discriminate].
  destruct (draining c); [|discriminate]. destruct (buf c).
  - destruct (Nat.eqb (drain c) 2 || closed c); [|discriminate]. inversion E; subst. cbn. apply Forall_upd; [exact H|same_e1 Ec].
  - inversion E; subst. cbn. apply Forall_upd; [exact H|same_e1 Ec].
Qed.

Lemma req_e1 : forall st s l st', Forall e1_ok (subs st) -> step_req st s = Some (l, st') -> Forall e1_ok (subs st').
Proof.
  intros st s l st' H E. unfold step_req in E.
  destruct (nth_error (subs st) s) as [c|] eqn:Ec; [|discriminate]. inversion E; subst. cbn.
  apply Forall_upd; [exact H|same_e1 Ec].
Qed.

Lemma recv_e1 : forall st s l st', Forall e1_ok (subs st) -> step_recv st s = Some (l, st') -> Forall e1_ok (subs st').
Proof.
  intros st s l st' H E. unfold step_recv in E.
  destruct (nth_error (subs st) s) as [c|] eqn:Ec; [|discriminate].
  destruct (want c); [discriminate|]. destruct (buf c).
  - destruct (closed c); [|discriminate]. inversion E; subst. cbn. apply Forall_upd; [exact H|same_e1 Ec].
  - inversion E; subst. cbn. apply Forall_upd; [exact H|same_e1 Ec].
Qed.

Lemma read_e1 : forall st s l st', Forall e1_ok (subs st) -> step_read st s = Some (l, st') -> Forall e1_ok (subs st').
Proof.
  intros st s l st' H E. unfold step_read in E.
  destruct (nth_error (subs st) s) as [c|] eqn:Ec; [|discriminate].
  destruct (hand c); [discriminate|]. inversion E; subst. cbn. apply Forall_upd; [exact H|same_e1 Ec].
Qed.

Definition Full1 (st : state) : Prop := Safe st /\ Forall e1_ok (subs st).

Lemma step_full1 : forall st t l st', Full1 st -> step st t = Some (l, st') -> Full1 st'.
Proof.
  intros st t l st' [[HL I] H] E. split; [eapply step_safe; [split; eassumption|eassumption]|].
  destruct t; cbn in E;
    eauto using emit_e1, sub_e1, replay_e1, close_e1, drain_e1, req_e1, recv_e1, read_e1.
  - rewrite (emnew_subs _ _ _ _ E). exact H.
  - rewrite (emclose_subs _ _ _ _ E). exact H.
Qed.

Lemma initial_full1 : forall st, initial st -> Full1 st.
Proof.
  intros st H. split; [apply initial_safe, H|]. destruct H as [_ [_ [_ [_ [Hs _]]]]].
  apply Forall_forall. intros c Hc. rewrite Forall_forall in Hs. rewrite (Hs c Hc). intros _ n _. reflexivity.
Qed.

(* before s has joined node n, nothing of n was promised to it *)
Lemma nothing_before_join_l : forall st sched s c n, initial st ->
  nth_error (subs (run step st sched)) s = Some c -> styps c <> None -> ~ In n (snodes c) ->
  proj n (expd c) = [].
Proof.
  intros st sched s c n H Hc Ht Hn.
  assert (F : Full1 (run step st sched)).
  { apply (invariant_run _ _ _ step Full1); [|apply initial_full1, H]. intros a t l b Ha E. eapply step_full1; eassumption. }
  exact (Forall_nth_error _ _ _ _ (proj2 F) Hc Ht n Hn).
Qed.

(* the subscribe-append step: s joins n.sinks, is promised exactly the retained
   event of n (if any), and n.lk passes to the replay goroutine; so if s had not
   joined n before, the retained event is the first n-item it is promised *)
Lemma stateful_replay_first_l : forall st sched s c i n tys nd, initial st ->
  let st1 := run step st sched in
  nth_error (subs st1) s = Some c -> spc c = SApp i n -> styps c = Some tys ->
  nth_error (nodes st1) n = Some nd -> holder nd = None ->
  exists st2 c2 nd2, step st1 (TSub s) = Some (None, st2) /\
    nth_error (subs st2) s = Some c2 /\ nth_error (nodes st2) n = Some nd2 /\
    holder nd2 = Some (TReplay s i) /\ sinks nd2 = sinks nd ++ [s] /\
    hist c2 = hist c /\ expd c2 = expd c ++ retained nd n /\
    (~ In n (snodes c) -> proj n (expd c2) = retained nd n).
Proof.
  intros st sched s c i n tys nd H st1 Hc Hp Ht Hn Hh.
  pose proof (nothing_before_join_l st sched s c n H Hc) as NB.
  cbn. unfold step_sub. fold st1. rewrite Hc, Hp, Ht, Hn, Hh.
  eexists. eexists. eexists. split; [reflexivity|]. cbn [subs nodes set_sub set_subs set_node set_nodes].
  rewrite (nth_error_upd_eq _ _ _ _ Hc), (nth_error_upd_eq _ _ _ _ Hn).
  split; [reflexivity|]. split; [reflexivity|]. split; [reflexivity|]. split; [reflexivity|].
  assert (Ht' : styps c <> None) by congruence.
  unfold retained. destruct (keep nd); [destruct (nlast nd) as [lv|]|]; cbn [hist expd c_expd c_app];
    (split; [reflexivity|]); (split; [rewrite ?app_nil_r; reflexivity|]); intros Hnj;
    rewrite ?proj_app, (NB Ht' Hnj); cbn; rewrite ?Nat.eqb_refl; reflexivity.
Qed.

(* C15 — promise provenance, coupled with the trace: every item ever promised to a
   subscription (ghost expd) and every retained event (n.last) is the event of an Emit
   call that has passed its lock point (and, if it has returned, returned nil); items
   promised to a typed subscription are tagged with that Emit's node; event ids are
   never promised twice to the same subscription. *)
From Coq Require Import List Arith ZArith Bool Lia.
From Verif Require Import lib.Wire c15.Lts c15.Model c15.Spec c15.Proofs c15.Proofs_Chan c15.Proofs_Loc c15.Proofs_List c15.Proofs_Safe
  c15.Proofs_Init c15.Proofs_Once c15.Proofs_First c15.Proofs_Live c15.Proofs_Pend c15.Proofs_Idx c15.Proofs_Dead c15.Proofs_Prog c15.Proofs_Valid c15.Proofs_WildOK
  c15.Proofs_Blk c15.Proofs_Obs c15.Proofs_WSI c15.Proofs_TY c15.Proofs_Rule13 c15.Proofs_Wire c15.Proofs_Mon c15.Proofs_Tr c15.Proofs_Cpl.
Import ListNotations.
Local Open Scope Z_scope.

(* the Emit call is past its lock point (w: past the wildcard read-lock point) and has not failed *)
Definition lk_pc (w : bool) (p : emit_pc) (ok : bool) : Prop :=
  match p with
  | ESend _ _ | EWChk _ | ERLock _ => w = false
  | EWSend _ _ => True
  | ERet c => c = 0
  | EDone => ok = true
  | _ => False end.

Definition pX (st : state) := map (fun c => (styps c, expd c)) (subs st).
Definition pE (st : state) := map (fun e => (eem e, eev e, epc e)) (emits st).
Definition pL (st : state) := map nlast (nodes st).
Definition is_none {A} (o : option A) : bool := match o with None => true | Some _ => false end.

Record PromV (vx : list (option (list nat) * list item)) (ve : list (nat * Z * emit_pc)) (vl : list (option Z))
             (vj : list (nat * nat)) (ws : list nat) (ok : nat -> bool) : Prop := {
  pT : forall s ty ex tag v, nth_error vx s = Some (ty, ex) -> In (tag, v) ex ->
       exists k j p, nth_error ve k = Some (j, v, p) /\ lk_pc (is_none ty) p (ok k) /\
                     (match ty with None => tag = k | Some _ => nth_error vj j = Some (4%nat, tag) end);
  pN : forall n v, nth_error vl n = Some (Some v) ->
       exists k j p, nth_error ve k = Some (j, v, p) /\ lk_pc false p (ok k) /\ nth_error vj j = Some (4%nat, n);
  pU : forall s ty ex, nth_error vx s = Some (ty, ex) -> NoDup (map snd ex);
  pW : NoDup ws }.

Definition Prom (st : state) (pre : list label) : Prop :=
  PromV (pX st) (pE st) (pL st) (vE st) (wsinks (wild st)) (a_ok pre).

(* frame: nothing promised, no Emit moved; nodes may have been created, emitters not yet created may move *)
Definition lext (a b : list (option Z)) : Prop := b = a \/ b = a ++ [None].
Definition jext (a b : list (nat * nat)) : Prop := forall j n, nth_error a j = Some (4%nat, n) -> nth_error b j = Some (4%nat, n).

Lemma PromV_frame : forall vx ve vl vl' vj vj' ws ws' (ok ok' : nat -> bool), PromV vx ve vl vj ws ok ->
  lext vl vl' -> jext vj vj' -> (NoDup ws -> NoDup ws') -> (forall k, ok k = true -> ok' k = true) -> PromV vx ve vl' vj' ws' ok'.
Proof.
  intros vx ve vl vl' vj vj' ws ws' ok ok' [T N U W] L J WS O.
  assert (M : forall w p k, lk_pc w p (ok k) -> lk_pc w p (ok' k)).
  { intros w p k H. destruct p; cbn in *; auto. }
  constructor; [| |exact U|exact (WS W)].
  - intros s ty ex tag v Hs Hi. destruct (T s ty ex tag v Hs Hi) as [k [j [p [A [B C]]]]]. exists k, j, p. repeat split; auto.
    destruct ty; [apply J, C|exact C].
  - intros n v Hn. assert (Hn' : nth_error vl n = Some (Some v)).
    { destruct L as [->| ->]; [exact Hn|]. destruct (Nat.lt_ge_cases n (length vl)) as [X|X].
      - rewrite nth_error_app1 in Hn by exact X. exact Hn.
      - rewrite nth_error_app2 in Hn by exact X. destruct (n - length vl)%nat as [|[|?]]; cbn in Hn; discriminate. }
    destruct (N n v Hn') as [k [j [p [A [B C]]]]]. exists k, j, p. repeat split; auto.
Qed.

Definition prom_same (st st' : state) : Prop :=
  pX st' = pX st /\ pE st' = pE st /\ lext (pL st) (pL st') /\ jext (vE st) (vE st') /\ (NoDup (wsinks (wild st)) -> NoDup (wsinks (wild st'))).

Lemma Prom_same : forall st st' pre pre', Prom st pre -> prom_same st st' ->
  (forall k, a_ok pre k = true -> a_ok pre' k = true) -> Prom st' pre'.
Proof.
  intros st st' pre pre' P [A [B [C [D E]]]] O. unfold Prom. rewrite A, B. eapply PromV_frame; eassumption.
Qed.

Lemma ok_mono : forall pre l k, a_ok pre k = true -> a_ok (pre ++ olab l) k = true.
Proof. intros pre l k H. unfold a_ok in *. rewrite existsb_app, H. reflexivity. Qed.

Lemma ps_refl : forall st, prom_same st st.
Proof. intros st. unfold prom_same. split; [reflexivity|]. split; [reflexivity|]. split; [left; reflexivity|]. split; [intros j n H; exact H|auto]. Qed.
Lemma lext_trans_same : forall a b c, lext a b -> c = b -> lext a c.
Proof. intros; subst; assumption. Qed.
Lemma jext_refl : forall a, jext a a.
Proof. intros a j n H. exact H. Qed.
Lemma jext_trans : forall a b c, jext a b -> jext b c -> jext a c.
Proof. intros a b c H1 H2 j n H. apply H2, H1, H. Qed.

Definition fX (c : sub) := (styps c, expd c).
Definition fPE (e : emit) := (eem e, eev e, epc e).
Definition fJ (m : emitter) := (mnew m, mnode m).

Ltac ps_fin :=
  unfold prom_same, pX, pE, pL, vE;
  cbn [wild wsinks nodes subs emits emitters set_emitter set_emitters set_sub set_subs set_node set_nodes set_blk set_bmap set_wild set_emit set_emits set_panicked];
  repeat split; try reflexivity; try (left; reflexivity); try apply jext_refl; try (intros HND; exact HND); try (intros HND; apply NoDup_filter; exact HND);
  try (eapply (map_upd_same fX); [eassumption|reflexivity]);
  try (eapply (map_upd_same fPE); [eassumption|reflexivity]);
  try (match goal with |- jext ?a ?b => replace b with a; [apply jext_refl|symmetry; eapply (map_upd_same fJ); [eassumption|reflexivity]] end);
  try (left; eapply (map_upd_same nlast); [eassumption|reflexivity]).

Lemma send_ps : forall st s it st', send st s it = Some st' -> prom_same st st'.
Proof.
  intros st s it st' E. unfold send in E. destruct (nth_error (subs st) s) as [c|] eqn:Ec; [|discriminate].
  destruct (closed c); [inversion E; subst; ps_fin|]. destruct (room c); [|discriminate]. inversion E; subst. ps_fin.
Qed.
Lemma try_drop_ps : forall st ty st', try_drop st ty = Some st' -> prom_same st st'.
Proof. intros st ty st' E. unfold try_drop in E. brute E; inversion E; subst; ps_fin. Qed.
Lemma with_node_ps : forall st ty st1 n, with_node st ty = Some (st1, n) -> prom_same st st1.
Proof.
  intros st ty st1 n E. unfold with_node in E. destruct (lookup st ty) as [sl m] eqn:El.
  destruct (nth_error (nodes sl) m) as [nd|] eqn:En; inversion E; subst.
  unfold lookup in El. destruct (nth_error (bmap st) ty) as [[k|]|]; inversion El; subst; try solve [ps_fin].
  - cbn in En. unfold prom_same, pX, pE, pL, vE. cbn. repeat split; try reflexivity; try apply jext_refl; try (intros HND; exact HND).
    rewrite nth_error_app2 in En by lia. rewrite Nat.sub_diag in En. inversion En; subst. cbn.
    right. rewrite map_upd. rewrite map_app. cbn. apply upd_same. rewrite nth_error_app2 by (rewrite map_length; lia). rewrite map_length, Nat.sub_diag. reflexivity.
  - cbn in En. unfold prom_same, pX, pE, pL, vE. cbn. repeat split; try reflexivity; try apply jext_refl; try (intros HND; exact HND).
    rewrite nth_error_app2 in En by lia. rewrite Nat.sub_diag in En. inversion En; subst. cbn.
    right. rewrite map_upd. rewrite map_app. cbn. apply upd_same. rewrite nth_error_app2 by (rewrite map_length; lia). rewrite map_length, Nat.sub_diag. reflexivity.
Qed.

(* a frame step followed by updates that do not touch the views *)
Lemma ps_then : forall a b c, prom_same a b -> pX c = pX b -> pE c = pE b -> pL c = pL b -> jext (vE b) (vE c) ->
  (NoDup (wsinks (wild b)) -> NoDup (wsinks (wild c))) -> prom_same a c.
Proof.
  intros a b c [A [B [C [D E]]]] H1 H2 H3 H4 H5. unfold prom_same.
  split; [congruence|]. split; [congruence|]. split; [rewrite H3; exact C|]. split; [eapply jext_trans; eassumption|auto].
Qed.

Lemma jext_upd : forall vj j a b x, nth_error vj j = Some (a, b) -> a <> 4%nat -> jext vj (upd vj j x).
Proof.
  intros vj j a b x H Na j' n H'. destruct (Nat.eq_dec j j') as [->|N].
  - rewrite H in H'. inversion H'. congruence.
  - rewrite nth_error_upd_neq by assumption. exact H'.
Qed.

Lemma vE_set_emitter : forall st j m', vE (set_emitter st j m') = upd (vE st) j (fJ m').
Proof. intros. unfold vE. cbn. apply (map_upd fJ). Qed.

Lemma other_ps : forall st t l st', (match t with TEmit _ | TSub _ => False | _ => True end) ->
  step st t = Some (l, st') -> prom_same st st'.
Proof.
  intros st t l st' Ht E. destruct t; try contradiction; cbn [step] in E.
  - unfold step_emnew in E. destruct (nth_error (emitters st) j) as [m|] eqn:Ej; [|discriminate].
    assert (Vj : nth_error (vE st) j = Some (mnew m, mnode m)) by (unfold vE; rewrite nth_error_map, Ej; reflexivity).
    destruct (mnew m) as [|[|[|[|?]]]] eqn:En; try discriminate.
    + inversion E; subst. unfold prom_same. rewrite vE_set_emitter. repeat split; try reflexivity; try (left; reflexivity); try (intros HND; exact HND).
      eapply jext_upd; [exact Vj|lia].
    + destruct (with_node st (mty m)) as [[st1 n]|] eqn:Ew; [|discriminate]. inversion E; subst.
      pose proof (with_node_ps _ _ _ _ Ew) as P. eapply ps_then; [exact P| | | | |]; try reflexivity; try (intros HND; exact HND).
      rewrite vE_set_emitter. destruct P as [_ [_ [_ [J _]]]].
      assert (Vj1 : nth_error (vE st1) j = Some (1%nat, mnode m)).
      { unfold vE. rewrite nth_error_map, (proj2 (with_node_emits _ _ _ _ Ew)), Ej. cbn. rewrite En. reflexivity. }
      eapply jext_upd; [exact Vj1|lia].
    + destruct (nth_error (nodes st) (mnode m)) as [nd|] eqn:Hn; [|discriminate]. destruct (holder nd); [discriminate|]. inversion E; subst.
      unfold prom_same. rewrite vE_set_emitter. unfold pX, pE, pL. cbn. repeat split; try reflexivity; try (intros HND; exact HND).
      * left. eapply (map_upd_same nlast); [eassumption|reflexivity].
      * eapply jext_upd; [exact Vj|lia].
    + inversion E; subst. unfold prom_same. rewrite vE_set_emitter. repeat split; try reflexivity; try (left; reflexivity); try (intros HND; exact HND).
      eapply jext_upd; [exact Vj|lia].
  - unfold step_emclose in E. destruct (nth_error (emitters st) j) as [m|] eqn:Ej; [|discriminate].
    destruct (mcl m); try discriminate; try solve [brute E; inversion E; subst; ps_fin].
    otau_inv E. pose proof (try_drop_ps _ _ _ E) as P. eapply ps_then; [exact P| | | | |]; try reflexivity; try (intros HND; exact HND).
    unfold vE. cbn. rewrite (map_upd_same fJ (emitters x) j _ m); [apply jext_refl| |reflexivity]. rewrite (proj2 (try_drop_emits _ _ _ E)). exact Ej.
  - unfold step_replay in E. destruct (nth_error (subs st) s) as [c|] eqn:Ec; [|discriminate].
    destruct (nth_error (rpend c) i) as [[|]|]; try discriminate.
    destruct (nth_error (snodes c) i) as [n|]; [|discriminate].
    destruct (nth_error (nodes st) n) as [nd|] eqn:En; [|discriminate].
    destruct (keep nd); [destruct (nlast nd) as [lv|] eqn:El|]; try solve [inversion E; subst; ps_fin].
    otau_inv E. pose proof (send_ps _ _ _ _ E) as P.
    destruct (nth_error (subs x) s) as [c'|] eqn:Ec'; [|exact P].
    eapply ps_then; [exact P| | | | |]; try reflexivity; try apply jext_refl; try (intros HND; exact HND).
    + unfold pX. cbn. eapply (map_upd_same fX); [eassumption|reflexivity].
    + unfold pL. cbn. destruct P as [_ [_ [L _]]]. rewrite map_upd. apply upd_same. cbn.
      assert (X : nth_error (pL st) n = Some (nlast nd)) by (unfold pL; rewrite nth_error_map, En; reflexivity).
      unfold pL in X. destruct L as [L|L]; unfold pL in L; rewrite L; [exact X|]. rewrite nth_error_app1; [exact X|]. apply nth_error_Some. congruence.
  - unfold step_close in E. destruct (nth_error (subs st) s) as [c|] eqn:Ec; [|discriminate].
    destruct (cpc c); try discriminate; try solve [brute E; inversion E; subst; ps_fin].
    destruct (nth_error (snodes c) i) as [n|]; [|discriminate]. destruct (nth_error (nodes st) n) as [nd|]; [|discriminate].
    otau_inv E. pose proof (try_drop_ps _ _ _ E) as P. eapply ps_then; [exact P| | | | |]; try reflexivity; try apply jext_refl; try (intros HND; exact HND).
    unfold pX. cbn. apply (map_upd_same fX (subs x) s _ c); [|reflexivity]. rewrite (try_drop_subs _ _ _ E). exact Ec.
  - unfold step_drain in E. destruct (nth_error (subs st) s) as [c|] eqn:Ec; [|discriminate]. brute E; inversion E; subst; ps_fin.
  - unfold step_req in E. destruct (nth_error (subs st) s) as [c|] eqn:Ec; [|discriminate]. inversion E; subst; ps_fin.
  - unfold step_recv in E. destruct (nth_error (subs st) s) as [c|] eqn:Ec; [|discriminate]. brute E; inversion E; subst; ps_fin.
  - unfold step_read in E. destruct (nth_error (subs st) s) as [c|] eqn:Ec; [|discriminate]. brute E; inversion E; subst; ps_fin.
Qed.

(* ---- a subscription is listed at most once in a node ------------------------------- *)
Lemma nodup_snodes : forall st s c, Forall sub_loc (subs st) -> TY st -> Valid st -> nth_error (subs st) s = Some c -> NoDup (snodes c).
Proof.
  intros st s c HL [_ [_ [_ [T4 T5]]]] [_ [V2 _]] Ec. destruct (styps c) as [tys|] eqn:Et.
  - apply NoDup_nth_error. intros i j Hi E. destruct (nth_error (snodes c) i) as [n|] eqn:Ei; [|apply nth_error_None in Ei; lia].
    symmetry in E. assert (Hn : (n < length (nodes st))%nat) by (eapply V2; [exact Ec|eapply nth_error_In, Ei]).
    destruct (nth_error (nodes st) n) as [nd|] eqn:En; [|apply nth_error_None in En; lia].
    pose proof (T4 s c i n tys nd Ec Ei Et En) as A. pose proof (T4 s c j n tys nd Ec E Et En) as B.
    pose proof (T5 s c tys Ec Et) as ND. eapply (proj1 (NoDup_nth_error tys) ND i j); [|congruence].
    apply nth_error_Some. congruence.
  - destruct (Forall_nth_error _ _ _ _ HL Ec) as [_ [_ [_ P4]]]. destruct (P4 Et) as [_ [_ [-> _]]]. constructor.
Qed.

Lemma cnt_skipn_le : forall l j x, (cnt (skipn j l) x <= cnt l x)%nat.
Proof.
  induction l as [|a l IH]; intros [|j] x; cbn [skipn]; try lia. specialize (IH j x). unfold cnt in *. cbn. destruct (Nat.eq_dec a x); lia.
Qed.

Lemma cnt_nodup : forall l x, NoDup l -> (cnt l x <= 1)%nat.
Proof. intros l x H. unfold cnt. apply (proj1 (NoDup_count_occ Nat.eq_dec l) H). Qed.

Lemma listed_once : forall st n nd s, Forall sub_loc (subs st) -> Inv2 st -> TY st -> Valid st ->
  nth_error (nodes st) n = Some nd -> (cnt (sinks nd) s <= 1)%nat.
Proof.
  intros st n nd s HL I T V En. pose proof (iK st I n nd s En) as K. unfold rem in K.
  destruct (nth_error (subs st) s) as [c|] eqn:Ec; [|lia].
  pose proof (cnt_nodup (snodes c) n (nodup_snodes st s c HL T V Ec)) as N.
  assert (R : (cnt (remaining c) n <= cnt (snodes c) n)%nat).
  { unfold remaining. destruct (cpc c); try apply cnt_skipn_le; try (cbn; lia). }
  lia.
Qed.

Lemma NoDup_app_snoc : forall {A} (l : list A) x, NoDup l -> ~ In x l -> NoDup (l ++ [x]).
Proof.
  intros A l x ND Hn. induction l as [|a l IH]; cbn; [constructor; [intros []|constructor]|].
  inversion ND; subst. constructor.
  - intros Hin. apply in_app_or in Hin. destruct Hin as [Hin|[->|[]]]; [contradiction|]. apply Hn. left. reflexivity.
  - apply IH; [assumption|]. intros Hin. apply Hn. right. exact Hin.
Qed.

(* ---- the events that change the views ---------------------------------------------- *)
Definition ids_unique (ve : list (nat * Z * emit_pc)) : Prop :=
  forall k1 k2 j1 j2 v p1 p2, nth_error ve k1 = Some (j1, v, p1) -> nth_error ve k2 = Some (j2, v, p2) -> k1 = k2.

Lemma ids_unique_upd : forall ve k j v p p', ids_unique ve -> nth_error ve k = Some (j, v, p) -> ids_unique (upd ve k (j, v, p')).
Proof.
  intros ve k j v p p' U Hk k1 k2 j1 j2 v0 p1 p2 H1 H2.
  apply nth_error_upd_inv in H1. apply nth_error_upd_inv in H2.
  destruct H1 as [[-> [X1 _]]|[N1 H1]], H2 as [[-> [X2 _]]|[N2 H2]]; try reflexivity.
  - inversion X1; subst. eapply U; eassumption.
  - inversion X2; subst. eapply U; eassumption.
  - eapply U; eassumption.
Qed.

(* an Emit moves on; whatever was locked stays locked *)
Lemma PromV_pc : forall vx ve vl vj ws ok k j v p p', PromV vx ve vl vj ws ok -> nth_error ve k = Some (j, v, p) ->
  (forall w, lk_pc w p (ok k) -> lk_pc w p' (ok k)) -> PromV vx (upd ve k (j, v, p')) vl vj ws ok.
Proof.
  intros vx ve vl vj ws ok k j v p p' [T N U W] Hk M. constructor; [| |exact U|exact W].
  - intros s ty ex tag v0 Hs Hi. destruct (T s ty ex tag v0 Hs Hi) as [k0 [j0 [p0 [A [B C]]]]].
    destruct (Nat.eq_dec k0 k) as [->|Ne].
    + rewrite Hk in A. inversion A; subst. exists k, j0, p'. rewrite (nth_error_upd_eq _ _ _ _ Hk). auto.
    + exists k0, j0, p0. rewrite nth_error_upd_neq by congruence. auto.
  - intros n v0 Hn. destruct (N n v0 Hn) as [k0 [j0 [p0 [A [B C]]]]].
    destruct (Nat.eq_dec k0 k) as [->|Ne].
    + rewrite Hk in A. inversion A; subst. exists k, j0, p'. rewrite (nth_error_upd_eq _ _ _ _ Hk). auto.
    + exists k0, j0, p0. rewrite nth_error_upd_neq by congruence. auto.
Qed.

(* a locked Emit becomes the retained event of its node *)
Lemma PromV_last : forall vx ve vl vj ws ok k j v p n, PromV vx ve vl vj ws ok -> nth_error ve k = Some (j, v, p) ->
  lk_pc false p (ok k) -> nth_error vj j = Some (4%nat, n) -> PromV vx ve (upd vl n (Some v)) vj ws ok.
Proof.
  intros vx ve vl vj ws ok k j v p n [T N U W] Hk L J. constructor; [exact T| |exact U|exact W].
  intros n0 v0 Hn. apply nth_error_upd_inv in Hn. destruct Hn as [[-> [X _]]|[Ne Hn]].
  - inversion X; subst. exists k, j, p. auto.
  - apply N, Hn.
Qed.

(* the lock point of an Emit: one copy of its event is promised to every target *)
Lemma PromV_promise : forall vx vx' ve vl vj ws ok k j v p p' tg w0 tag,
  PromV vx ve vl vj ws ok -> nth_error ve k = Some (j, v, p) -> ids_unique ve ->
  (forall w, lk_pc w p (ok k) -> lk_pc w p' (ok k)) ->
  (forall s, (cnt tg s <= 1)%nat) ->
  (forall s ty ex, In s tg -> nth_error vx s = Some (ty, ex) -> is_none ty = w0) ->
  (lk_pc w0 p (ok k) -> False) -> lk_pc w0 p' (ok k) ->
  (if w0 then tag = k else nth_error vj j = Some (4%nat, tag)) ->
  (forall s, nth_error vx' s = option_map (fun x => (fst x, snd x ++ repeat (tag, v) (cnt tg s))) (nth_error vx s)) ->
  PromV vx' (upd ve k (j, v, p')) vl vj ws ok.
Proof.
  intros vx vx' ve vl vj ws ok k j v p p' tg w0 tag P Hk IU M C1 K NL L' TG X.
  pose proof (PromV_pc _ _ _ _ _ _ k j v p p' P Hk M) as [T N U W]. destruct P as [T0 _ U0 _].
  constructor; [| exact N | | exact W].
  - intros s ty ex tag0 v0 Hs Hi. rewrite X in Hs. destruct (nth_error vx s) as [[ty1 ex1]|] eqn:E1; [|discriminate]. cbn in Hs. inversion Hs; subst.
    apply in_app_or in Hi. destruct Hi as [Hi|Hi]; [eapply T; eassumption|].
    apply repeat_spec in Hi as Hi'. inversion Hi'; subst tag0 v0.
    assert (In s tg). { apply cnt_In. destruct (cnt tg s); [contradiction|lia]. }
    pose proof (K s ty ex1 H E1) as Kw. exists k, j, p'. rewrite (nth_error_upd_eq _ _ _ _ Hk). rewrite Kw. split; [reflexivity|]. split; [exact L'|].
    destruct ty; cbn in Kw; subst w0; exact TG.
  - intros s ty ex Hs. rewrite X in Hs. destruct (nth_error vx s) as [[ty1 ex1]|] eqn:E1; [|discriminate]. cbn in Hs. inversion Hs; subst.
    rewrite map_app. pose proof (U0 s ty ex1 E1) as ND.
    destruct (cnt tg s) as [|[|c]] eqn:Ec; [cbn; rewrite app_nil_r; exact ND| |specialize (C1 s); lia].
    cbn. apply NoDup_app_snoc; [exact ND|]. intros Hin. apply in_map_iff in Hin. destruct Hin as [[tg0 v0] [Ev Hin]]. cbn in Ev. subst v0.
    destruct (T0 s ty ex1 tg0 v E1 Hin) as [k0 [j0 [p0 [A [B _]]]]].
    assert (k0 = k) by (eapply IU; eassumption). subst k0. rewrite Hk in A. inversion A; subst.
    assert (In s tg) by (apply cnt_In; lia). rewrite (K s ty ex1 H E1) in B. exact (NL B).
Qed.

(* Subscribe joins node n, which retains event l: l is promised to s first *)
Lemma PromV_replay : forall vx ve vl vj ws ok s tys ex n l,
  PromV vx ve vl vj ws ok -> ids_unique ve -> nth_error vx s = Some (Some tys, ex) -> nth_error vl n = Some (Some l) ->
  (forall v, ~ In (n, v) ex) ->
  PromV (upd vx s (Some tys, ex ++ [(n, l)])) ve vl vj ws ok.
Proof.
  intros vx ve vl vj ws ok s tys ex n l [T N U W] IU Hs Hl Hn. constructor; [|exact N| |exact W].
  - intros s0 ty ex0 tag v H Hi. apply nth_error_upd_inv in H. destruct H as [[-> [X _]]|[Ne H]]; [|eapply T; eassumption].
    inversion X; subst. apply in_app_or in Hi. destruct Hi as [Hi|[Hi|[]]]; [exact (T s (Some tys) ex tag v Hs Hi)|]. injection Hi as <- <-.
    destruct (N n l Hl) as [k [j [p [A [B C]]]]]. exists k, j, p. auto.
  - intros s0 ty ex0 H. apply nth_error_upd_inv in H. destruct H as [[-> [X _]]|[Ne H]]; [|eapply U; eassumption].
    inversion X; subst. rewrite map_app. cbn. apply NoDup_app_snoc; [eapply U; eassumption|].
    intros Hin. apply in_map_iff in Hin. destruct Hin as [[tag v] [Ev Hin]]. cbn in Ev. subst v.
    destruct (T s (Some tys) ex tag l Hs Hin) as [k0 [j0 [p0 [A0 [_ C0]]]]].
    destruct (N n l Hl) as [k1 [j1 [p1 [A1 [_ C1]]]]].
    assert (k0 = k1) by (eapply IU; eassumption). subst k1. rewrite A0 in A1. inversion A1; subst. rewrite C0 in C1. inversion C1; subst.
    exact (Hn l Hin).
Qed.

Lemma pE_set_emit : forall st k e p, nth_error (emits st) k = Some e -> pE (set_emit st k (e_pc e p)) = upd (pE st) k (eem e, eev e, p).
Proof. intros. unfold pE. cbn. apply (map_upd fPE). Qed.

Lemma ids_unique_state : forall st, NoDup (map eev (emits st)) -> ids_unique (pE st).
Proof.
  intros st ND k1 k2 j1 j2 v p1 p2 H1 H2. unfold pE in *. rewrite nth_error_map in H1, H2.
  destruct (nth_error (emits st) k1) as [e1|] eqn:E1; [|discriminate]. destruct (nth_error (emits st) k2) as [e2|] eqn:E2; [|discriminate].
  inversion H1; inversion H2; subst. eapply (proj1 (NoDup_nth_error _) ND k1 k2).
  - apply nth_error_Some. rewrite nth_error_map, E1. discriminate.
  - rewrite !nth_error_map, E1, E2. cbn. congruence.
Qed.

(* the generic emit step: a frame step on everything else, then the pc of k moves *)
Lemma Prom_emit_pc : forall st stx pre pre' k e p', Prom st pre -> nth_error (emits st) k = Some e ->
  prom_same st stx -> emits stx = emits st ->
  (forall k0, a_ok pre k0 = true -> a_ok pre' k0 = true) ->
  (forall w, lk_pc w (epc e) (a_ok pre' k) -> lk_pc w p' (a_ok pre' k)) ->
  Prom (set_emit stx k (e_pc e p')) pre'.
Proof.
  intros st stx pre pre' k e p' P Ek S Em O M.
  pose proof (Prom_same st stx pre pre' P S O) as P1. unfold Prom in *.
  assert (Ek' : nth_error (emits stx) k = Some e) by (rewrite Em; exact Ek).
  rewrite (pE_set_emit stx k e p' Ek').
  change (pX (set_emit stx k (e_pc e p'))) with (pX stx). change (pL (set_emit stx k (e_pc e p'))) with (pL stx).
  change (vE (set_emit stx k (e_pc e p'))) with (vE stx). change (wsinks (wild (set_emit stx k (e_pc e p')))) with (wsinks (wild stx)).
  eapply PromV_pc; [exact P1| |exact M]. unfold pE. rewrite nth_error_map, Ek'. reflexivity.
Qed.

Lemma pX_expect : forall l tg it s, nth_error (map fX (expect_all l tg it 0)) s =
  option_map (fun x => (fst x, snd x ++ repeat it (cnt tg s))) (nth_error (map fX l) s).
Proof.
  intros. rewrite !nth_error_map, nth_error_expect. destruct (nth_error l s); reflexivity.
Qed.

Lemma ok_snoc_ret : forall pre k, a_ok (pre ++ [LRet (TEmit k) 0]) k = true.
Proof. intros. unfold a_ok. rewrite existsb_snoc. cbn. rewrite Nat.eqb_refl. apply orb_true_r. Qed.

Lemma emit_prom : forall st k l st' pre, Forall sub_loc (subs st) -> Inv2 st -> TY st -> Valid st -> NoDup (map eev (emits st)) ->
  Prom st pre -> step_emit st k = Some (l, st') -> Prom st' (pre ++ olab l).
Proof.
  intros st k l st' pre HL I T V ND P E. unfold step_emit in E.
  destruct (nth_error (emits st) k) as [e|] eqn:Ek; [|discriminate].
  destruct (nth_error (emitters st) (eem e)) as [m|] eqn:Em; [|discriminate].
  assert (G : forall stx p' lb, prom_same st stx -> emits stx = emits st ->
            (forall w, lk_pc w (epc e) (a_ok (pre ++ olab lb) k) -> lk_pc w p' (a_ok (pre ++ olab lb) k)) ->
            Prom (set_emit stx k (e_pc e p')) (pre ++ olab lb)).
  { intros stx p' lb S Hm M. eapply Prom_emit_pc; [exact P|exact Ek|exact S|exact Hm|intros k0; apply ok_mono|exact M]. }
  destruct (epc e) as [| | |n [|x r]|n|n|n [|x r]|c|] eqn:Ep; try discriminate.
  - destruct (Nat.eqb (mnew m) 4); inversion E; subst. apply G; [apply ps_refl|reflexivity|intros w []].
  - inversion E; subst. apply G; [apply ps_refl|reflexivity|intros w []].
  - (* the lock point *)
    destruct (nth_error (nodes st) (mnode m)) as [nd|] eqn:En; [|discriminate]. destruct (holder nd) eqn:Eh; [discriminate|].
    inversion E; subst. clear E. rewrite olab_none. unfold Prom.
    set (n := mnode m). set (v := eev e).
    assert (Vk : nth_error (pE st) k = Some (eem e, v, ELock)) by (unfold pE; rewrite nth_error_map, Ek; cbn; rewrite Ep; reflexivity).
    assert (Vj : nth_error (vE st) (eem e) = Some (4%nat, n)).
    { unfold vE. rewrite nth_error_map, Em. cbn. destruct V as [_ [_ [V3 _]]]. rewrite (V3 k e m Ek ltac:(congruence) Em). reflexivity. }
    match goal with |- PromV (pX ?s) (pE ?s) (pL ?s) (vE ?s) (wsinks (wild ?s)) _ => set (st2 := s) end.
    assert (X1 : pE st2 = upd (pE st) k (eem e, v, ESend n (sinks nd))) by (unfold st2, pE; cbn [emits set_emit set_emits set_subs set_node set_nodes set_wild]; apply (map_upd fPE)).
    assert (X2 : vE st2 = vE st) by reflexivity. assert (X3 : wsinks (wild st2) = wsinks (wild st)) by reflexivity.
    assert (X4 : pL st2 = upd (pL st) n (if keep nd then Some v else nlast nd)).
    { unfold st2, pL. cbn. rewrite map_upd. reflexivity. }
    rewrite X1, X2, X3, X4.
    assert (Q : PromV (pX st2) (upd (pE st) k (eem e, v, ESend n (sinks nd))) (pL st) (vE st) (wsinks (wild st)) (a_ok pre)).
    { eapply (PromV_promise (pX st) (pX st2) _ _ _ _ _ k (eem e) v ELock (ESend n (sinks nd)) (sinks nd) false n P Vk).
      - apply ids_unique_state, ND.
      - intros w [].
      - intros s. eapply listed_once; eassumption.
      - intros s ty ex Hin Hs. destruct (sink_typed st n nd s HL I T En Hin) as [c [tys [Ec [Et _]]]].
        unfold pX in Hs. rewrite nth_error_map, Ec in Hs. cbn in Hs. inversion Hs; subst. rewrite Et. reflexivity.
      - intros [].
      - reflexivity.
      - exact Vj.
      - intros s. unfold st2, pX. cbn. apply pX_expect. }
    destruct (keep nd).
    + eapply PromV_last; [exact Q|apply nth_error_upd_eq with (y := (eem e, v, ELock)); exact Vk|reflexivity|exact Vj].
    + rewrite (upd_same (pL st) n (nlast nd)); [exact Q|]. unfold pL. rewrite nth_error_map. unfold n. rewrite En. reflexivity.
  - destruct (nth_error (nodes st) n) as [nd|] eqn:En; [|discriminate]. inversion E; subst. apply (G (set_node st n _) _ None); [ps_fin|reflexivity|intros w H; exact H].
  - otau_inv2 E. apply (G x0 _ None); [eapply send_ps; eassumption|apply (proj1 (send_emits _ _ _ _ E))|intros w H; exact H].
  - inversion E; subst. apply (G st _ None); [apply ps_refl|reflexivity|].
    intros w H. cbn in H. subst w. destruct (Nat.eqb (nsinks (wild st)) 0); reflexivity.
  - (* the read-lock point *)
    destruct (wpend (wild st)); [discriminate|]. inversion E; subst. clear E. rewrite olab_none. unfold Prom.
    set (v := eev e). set (ws := wsinks (wild st)).
    assert (Vk : nth_error (pE st) k = Some (eem e, v, ERLock n)) by (unfold pE; rewrite nth_error_map, Ek; cbn; rewrite Ep; reflexivity).
    match goal with |- PromV (pX ?s) (pE ?s) (pL ?s) (vE ?s) (wsinks (wild ?s)) _ => set (st2 := s) end.
    assert (X1 : pE st2 = upd (pE st) k (eem e, v, EWSend n ws)) by (unfold st2, pE; cbn [emits set_emit set_emits set_subs set_node set_nodes set_wild]; apply (map_upd fPE)).
    change (pL st2) with (pL st). change (vE st2) with (vE st). change (wsinks (wild st2)) with ws. rewrite X1.
    eapply (PromV_promise (pX st) (pX st2) _ _ _ _ _ k (eem e) v (ERLock n) (EWSend n ws) ws true k P Vk).
    + apply ids_unique_state, ND.
    + intros w _. exact Logic.I.
    + intros s. apply cnt_nodup. destruct P as [_ _ _ W]. exact W.
    + intros s ty ex Hin Hs. destruct (iW1 st I s Hin) as [c [Ec Et]].
      unfold pX in Hs. rewrite nth_error_map, Ec in Hs. cbn in Hs. inversion Hs; subst. rewrite Et. reflexivity.
    + intros H. discriminate H.
    + exact Logic.I.
    + reflexivity.
    + intros s. unfold st2, pX. cbn. apply pX_expect.
  - inversion E; subst. apply (G (set_wild st _) _ None); [ps_fin|reflexivity|intros w _; reflexivity].
  - otau_inv2 E. apply (G x0 _ None); [eapply send_ps; eassumption|apply (proj1 (send_emits _ _ _ _ E))|intros w H; exact H].
  - inversion E; subst. apply (G st _ (Some (LRet (TEmit k) c))); [apply ps_refl|reflexivity|].
    intros w H. cbn in H. subst c. cbn. apply ok_snoc_ret.
Qed.

(* the node a Subscribe is about to join is not one it has joined already *)
Lemma sapp_fresh : forall st s c i n tys, Inv2 st -> TY st -> Valid st -> nth_error (subs st) s = Some c ->
  spc c = SApp i n -> styps c = Some tys -> (n < length (nodes st))%nat -> ~ In n (snodes c).
Proof.
  intros st s c i n tys I [_ [_ [T3 [T4 T5]]]] V Ec Ep Et Hn Hin.
  destruct (nth_error (nodes st) n) as [nd|] eqn:En; [|apply nth_error_None in En; lia].
  pose proof (T3 s c i n tys nd Ec Ep Et En) as A. apply In_nth_error in Hin. destruct Hin as [j Hj].
  pose proof (T4 s c j n tys nd Ec Hj Et En) as B. pose proof (iIdx st I s c Ec) as X. unfold idx_ok in X. rewrite Ep in X.
  assert (j < i)%nat by (rewrite <- X; apply nth_error_Some; congruence).
  assert (i = j); [|lia]. eapply (proj1 (NoDup_nth_error tys) (T5 s c tys Ec Et) i j); [|congruence]. apply nth_error_Some. congruence.
Qed.

Lemma sub_prom : forall st s l st' pre, Forall sub_loc (subs st) -> Inv2 st -> TY st -> Valid st -> WSV st -> Forall e1_ok (subs st) ->
  NoDup (map eev (emits st)) -> Prom st pre -> step_sub st s = Some (l, st') -> Prom st' (pre ++ olab l).
Proof.
  intros st s l st' pre HL I T V W E1 ND P E. unfold step_sub in E. destruct (nth_error (subs st) s) as [c|] eqn:Ec; [|discriminate].
  assert (F : prom_same st st' -> Prom st' (pre ++ olab l)).
  { intros S. eapply Prom_same; [exact P|exact S|intros k; apply ok_mono]. }
  destruct (spc c) eqn:Ep.
  - destruct (styps c); inversion E; subst; apply F; ps_fin.
  - destruct (styps c) as [tys|]; [|discriminate]. destruct (nth_error tys i) as [ty|]; [|discriminate].
    destruct (with_node st ty) as [[st1 n]|] eqn:Ew; [|discriminate]. inversion E; subst. apply F.
    eapply ps_then; [eapply with_node_ps; eassumption| | | | |]; try reflexivity; try apply jext_refl; try (intros HND; exact HND).
    unfold pX. cbn. apply (map_upd_same fX (subs st1) s _ c); [|reflexivity]. rewrite (with_node_subs _ _ _ _ Ew). exact Ec.
  - destruct (styps c) as [tys|] eqn:Et; [|discriminate].
    destruct (nth_error (nodes st) n) as [nd|] eqn:En; [|discriminate]. destruct (holder nd); [discriminate|].
    inversion E; subst. clear E.
    destruct (keep nd) eqn:Ek; [destruct (nlast nd) as [lv|] eqn:El|]; try solve [apply F; ps_fin].
    clear F. rewrite olab_none.
    (* the retained event is promised *)
    unfold Prom. match goal with |- PromV (pX ?s) (pE ?s) (pL ?s) (vE ?s) (wsinks (wild ?s)) _ => set (st2 := s) end.
    change (pE st2) with (pE st). change (vE st2) with (vE st). change (wsinks (wild st2)) with (wsinks (wild st)).
    assert (X1 : pL st2 = pL st). { unfold st2, pL. cbn. apply (map_upd_same nlast _ n _ nd); [exact En|reflexivity]. }
    assert (X2 : pX st2 = upd (pX st) s (Some tys, expd c ++ [(n, lv)])).
    { unfold st2, pX. cbn. rewrite (map_upd fX). cbn. unfold fX at 2. cbn. rewrite Et. reflexivity. }
    rewrite X1, X2. eapply PromV_replay; [exact P|apply ids_unique_state, ND| | |].
    + unfold pX. rewrite nth_error_map, Ec. cbn. rewrite Et. reflexivity.
    + unfold pL. rewrite nth_error_map, En. cbn. rewrite El. reflexivity.
    + intros v Hin. assert (Hn : (n < length (nodes st))%nat) by (apply nth_error_Some; congruence).
      pose proof (sapp_fresh st s c i n tys I T V Ec Ep Et Hn) as NF.
      pose proof (Forall_nth_error _ _ _ _ E1 Ec ltac:(congruence) n NF) as Z.
      assert (In (n, v) (proj n (expd c))) by (apply filter_In; split; [exact Hin|cbn; apply Nat.eqb_refl]). rewrite Z in H. contradiction.
  - inversion E; subst. apply F. ps_fin.
  - destruct (wpend (wild st)); [discriminate|]. inversion E; subst. apply F. ps_fin.
  - destruct (Nat.eqb (rdrs (wild st)) 0); [|discriminate]. inversion E; subst. apply F.
    unfold prom_same, pX, pE, pL, vE. cbn. repeat split; try reflexivity; try (left; reflexivity); try apply jext_refl.
    + apply (map_upd_same fX _ s _ c); [exact Ec|reflexivity].
    + intros HND. apply NoDup_app_snoc; [exact HND|]. intros Hin. destruct W as [A _]. destruct (A s Hin) as [p [q [X [_ [Y _]]]]].
      unfold xS in X. rewrite nth_error_map, Ec in X. inversion X; subst. rewrite Ep in Y. discriminate.
  - inversion E; subst. apply F. ps_fin.
  - destruct (styps c); discriminate.
Qed.

Lemma step_prom : forall st t l st' pre, Forall sub_loc (subs st) -> Inv2 st -> TY st -> Valid st -> WSV st -> Forall e1_ok (subs st) ->
  NoDup (map eev (emits st)) -> Prom st pre -> step st t = Some (l, st') -> Prom st' (pre ++ olab l).
Proof.
  intros st t l st' pre HL I T V W E1 ND P E.
  destruct t; try (eapply Prom_same; [exact P|eapply other_ps; [|exact E]; exact Logic.I|intros k0; apply ok_mono]); cbn [step] in E.
  - eapply emit_prom; eassumption.
  - eapply sub_prom; eassumption.
Qed.

Lemma initial_prom : forall st, initial st -> Prom st [].
Proof.
  intros st [Hn [Hw [_ [_ [Hs Hm]]]]]. unfold Prom. constructor.
  - intros s ty ex tag v H Hi. unfold pX in H. rewrite nth_error_map in H. destruct (nth_error (subs st) s) as [c|] eqn:Ec; [|discriminate].
    cbn in H. inversion H; subst. rewrite (Forall_nth_error _ _ _ _ Hs Ec) in Hi. cbn in Hi. contradiction.
  - intros n v H. unfold pL in H. rewrite Hn in H. destruct n; discriminate.
  - intros s ty ex H. unfold pX in H. rewrite nth_error_map in H. destruct (nth_error (subs st) s) as [c|] eqn:Ec; [|discriminate].
    cbn in H. inversion H; subst. rewrite (Forall_nth_error _ _ _ _ Hs Ec). cbn. constructor.
  - rewrite Hw. cbn. constructor.
Qed.

Lemma ids_static : forall st sched, map eev (emits (run step st sched)) = map eev (emits st).
Proof.
  intros st sched. pose proof (run_ds st sched) as H. unfold dstat in H. inversion H as [[A B C]]. unfold sM in C.
  assert (X : forall l, map eev l = map snd (map fM l)) by (intros l; rewrite map_map; reflexivity).
  rewrite !X, C. reflexivity.
Qed.

Lemma full1_run : forall st sched, initial st -> Full1 (run step st sched).
Proof.
  intros st sched H. apply (invariant_run _ _ _ step Full1); [|apply initial_full1, H]. intros a t l b Ha E. eapply step_full1; eassumption.
Qed.

Lemma prom_run : forall st sched, wf_init st -> NoDup (map eev (emits st)) ->
  Prom (run step st sched) (trace step st sched).
Proof.
  intros st sched H ND. apply (coupled_run_all Prom); [apply initial_prom, H|].
  intros s1 t l st' P E. destruct (reach_all st s1 H) as [G [_ [W TV]]]. cbn zeta in *.
  eapply step_prom; try eassumption.
  - apply G.
  - apply G.
  - apply TYV_TY, TV.
  - apply G.
  - apply (full1_run st s1), H.
  - rewrite ids_static. exact ND.
Qed.

(* C15 — rules 8 and 10 of the monitor on model traces: the retained event of a stateful type
   is delivered before fresh events of that type, and a waiting consumer at a quiescent point
   has been handed everything that is due. *)
From Coq Require Import List Arith ZArith Bool Lia.
From Verif Require Import lib.Wire c15.Lts c15.Model c15.Spec c15.Proofs c15.Proofs_Chan c15.Proofs_Loc c15.Proofs_List c15.Proofs_Safe
  c15.Proofs_Init c15.Proofs_Once c15.Proofs_First c15.Proofs_Wild c15.Proofs_Thm c15.Proofs_Grow c15.Proofs_Live c15.Proofs_Pend c15.Proofs_Idx c15.Proofs_Dead c15.Proofs_Prog c15.Proofs_Valid c15.Proofs_WildOK
  c15.Proofs_Blk c15.Proofs_Obs c15.Proofs_Loc3 c15.Proofs_WSI c15.Proofs_TY c15.Proofs_Rule13 c15.Proofs_Reads c15.Proofs_Wire c15.Proofs_Disc c15.Proofs_Mon c15.Proofs_MonS
  c15.Proofs_Tr c15.Proofs_Cpl c15.Proofs_RInv c15.Proofs_RCtx c15.Proofs_Prom c15.Proofs_R3 c15.Proofs_CEv c15.Proofs_ChI c15.Proofs_R5 c15.Proofs_Loc4 c15.Proofs_R4
  c15.Proofs_RegA c15.Proofs_RegB c15.Proofs_RegW c15.Proofs_RegRun c15.Proofs_MD c15.Proofs_RF c15.Proofs_R9 c15.Proofs_R7 c15.Proofs_NodeEv c15.Proofs_Keep c15.Proofs_EmitPc c15.Proofs_Last c15.Proofs_Old c15.Proofs_R6 c15.Proofs_Z.
Import ListNotations.
Local Open Scope Z_scope.

(* what "replay of type ty is due for s" means on the state *)
Lemma replay_due_cc : forall c s1 s cs tys ty, cfg_wf c = true -> nth_error (subs (St c s1)) s = Some cs -> styps cs = Some tys ->
  a_replay_due (dcfg_of_cfg c) (Tr c s1) s ty = true ->
  exists i n nd, nth_error tys i = Some ty /\ nth_error (snodes cs) i = Some n /\ nth_error (nodes (St c s1)) n = Some nd /\ nty nd = ty /\ zcc (St c s1) (Tr c s1) s cs i n.
Proof.
  intros c s1 s cs tys ty W Ec Et H. destruct (reach_cfg c s1 W) as [G [_ [_ TV]]]. destruct (TYV_TY _ TV) as [T1 [_ [_ [T4 T5]]]]. destruct (trok_cfg c s1 W) as [O TS TC].
  unfold a_replay_due in H. apply andb_true_iff in H. destruct H as [H Hk]. apply andb_true_iff in H. destruct H as [_ Hty].
  rewrite (d_state c s1) in Hty. fold (St c s1) in Hty. rewrite (dm_tys_state _ _ s cs Ec), Et in Hty.
  apply existsb_exists in Hty. destruct Hty as [ty' [Hin Heq]]. apply Nat.eqb_eq in Heq. subst ty'. apply In_nth_error in Hin. destruct Hin as [i Hi].
  apply existsb_exists in Hk. destruct Hk as [k0 [Hk0 Hk]]. repeat (apply andb_true_iff in Hk; destruct Hk as [Hk ?]).
  rename H into Hsf, H0 into Hold, H1 into Hok.
  rewrite (d_state c s1), dm_emits_state in Hk0. apply in_seq in Hk0. fold (St c s1) in Hk0.
  destruct (nth_error (emits (St c s1)) k0) as [e0|] eqn:Ek0; [|apply nth_error_None in Ek0; lia].
  pose proof (ok_done c s1 k0 e0 W Ek0 Hok) as Ed0. destruct (emitter_of_emit c s1 k0 e0 W Ek0 ltac:(congruence)) as [m0 Em0].
  rewrite (dm_ty_emit c s1 k0 e0 m0 Ek0 Em0) in Hk. cbn in Hk. apply Nat.eqb_eq in Hk.
  unfold a_sf_open in Hsf. apply existsb_exists in Hsf. destruct Hsf as [j [Hj Hsf]].
  destruct (nth_error (d_em (dcfg_of_cfg c)) j) as [[t0 [|]]|] eqn:Dj; try discriminate.
  repeat (apply andb_true_iff in Hsf; destruct Hsf as [Hsf ?]). rename H into Hncl, H0 into Hret, H1 into Hbf. apply Nat.eqb_eq in Hsf. subst t0.
  rewrite (d_state c s1), dm_em_state in Dj. fold (St c s1) in Dj. destruct (nth_error (emitters (St c s1)) j) as [mj|] eqn:Ej; [|discriminate].
  cbn in Dj. unfold fE in Dj. inversion Dj as [[Tyj Msj]].
  (* the subscription has returned: it has joined the node of the type *)
  unfold a_returned in Hret.
  assert (Sp : spc cs = SDone).
  { pose proof (obS _ _ O s (spc cs)) as N. unfold xS in N. rewrite nth_error_map in N. fold (St c s1) in N. rewrite Ec in N. specialize (N eq_refl).
    unfold tstat in N. fold (Tr c s1) in N. rewrite Hret in N. destruct (spc cs); cbn in N; try discriminate. reflexivity. }
  pose proof (b1_cfg c s1 W s cs tys Ec Et (or_intror Sp)) as Len.
  assert (Li : (i < length (snodes cs))%nat) by (rewrite Len; apply nth_error_Some; congruence).
  destruct (nth_error (snodes cs) i) as [n|] eqn:Esn; [|apply nth_error_None in Esn; lia].
  destruct (gV _ G) as [_ [V2 _]]. assert (Ln : (n < length (nodes (St c s1)))%nat) by (apply (V2 s cs n Ec), (nth_error_In _ _ Esn)).
  destruct (nth_error (nodes (St c s1)) n) as [nd|] eqn:En; [|apply nth_error_None in En; lia].
  pose proof (T4 s cs i n tys nd Ec Esn Et En) as Tn. rewrite Hi in Tn. inversion Tn as [Tn'].
  exists i, n, nd. split; [rewrite Tyj; exact Hi|]. split; [first [reflexivity|exact Esn]|]. split; [first [reflexivity|exact En]|]. split; [congruence|].
  destruct (z_cfg c s1 W s cs i n Ec Esn) as [Z|Z]; [exact Z|exfalso].
  eapply (Z j mj k0 e0 m0 nd Ej Msj En ltac:(congruence) Ek0 Em0 ltac:(congruence)).
  split; [exact Hbf|]. split; [exact Hok|]. split; [exact Hold|]. unfold qopen. rewrite Hncl, Hret. reflexivity.
Qed.

(* the retained item promised first: the monitor finds its Emit, of the node's type *)
Lemma cc_item : forall c s1 s cs tys i n nd lv rest kx ex, cfg_wf c = true -> nth_error (subs (St c s1)) s = Some cs -> styps cs = Some tys ->
  nth_error (nodes (St c s1)) n = Some nd -> proj n (expd cs) = (n, lv) :: rest -> nth_error (emits (St c s1)) kx = Some ex -> eev ex = lv ->
  nth_error (snodes cs) i = Some n ->
  In (n, lv) (expd cs) /\ dm_find (dcfg_of_cfg c) lv = Some kx /\ dm_ty (dcfg_of_cfg c) kx = Some (nty nd).
Proof.
  intros c s1 s cs tys i n nd lv rest kx ex W Ec Et En P Ekx Ev Es.
  assert (Hin : In (n, lv) (expd cs)).
  { assert (In (n, lv) (proj n (expd cs))) by (rewrite P; left; reflexivity). apply filter_In in H. apply H. }
  split; [exact Hin|]. split.
  - rewrite (d_state c s1). rewrite <- Ev. apply dm_find_uniq; [apply ids_nodup, W|exact Ekx].
  - pose proof (hist_locked c s1) as _.
    destruct (prom_cfg c s1 W) as [T _ _ _].
    assert (Vx : nth_error (pX (St c s1)) s = Some (styps cs, expd cs)) by (unfold pX; rewrite nth_error_map, Ec; reflexivity).
    destruct (T s _ _ n lv Vx Hin) as [k0 [j [p [A [B _]]]]]. unfold pE in A. rewrite nth_error_map in A.
    destruct (nth_error (emits (St c s1)) k0) as [e0|] eqn:Ek0; [|discriminate]. inversion A; subst.
    assert (k0 = kx) by (eapply (Proofs_RCtx.ids_unique c s1); eauto). subst k0. rewrite Ekx in Ek0. inversion Ek0; subst e0.
    assert (P0 : epc ex <> E0) by (intros Y; rewrite Y in B; rewrite Et in B; exact B).
    destruct (emitter_of_emit c s1 kx ex W Ekx P0) as [mx Emx].
    destruct (item_node c s1 s cs n (eev ex) kx ex mx W Ec ltac:(congruence) Hin Ekx eq_refl Emx) as [Mn [_ [i' [nd' [tys' [_ [Hn' [_ [_ Tyn]]]]]]]]].
    rewrite En in Hn'. inversion Hn'; subst nd'. rewrite (dm_ty_emit c s1 kx ex mx Ekx Emx). congruence.
Qed.

Lemma rule10_ok : quiet_rule_ok 10.
Proof.
  intros c s1 s W D Q Ls. fold (St c s1) in Q. fold (Tr c s1). unfold d_check_quiet. unfold a_returned, a_started.
  destruct (o_returned (Tr c s1) (TClose s) && negb (dm_wild (dcfg_of_cfg c) s) && Nat.ltb (o_nread (Tr c s1) s) (o_nreq (Tr c s1) s)); [discriminate|].
  destruct (o_returned (Tr c s1) (TSub s)) eqn:R; [|cbn; discriminate]. destruct (o_started (Tr c s1) (TClose s)) eqn:Hc; [cbn; discriminate|]. cbn [negb orb].
  destruct (Nat.ltb (o_nread (Tr c s1) s + dm_cap (dcfg_of_cfg c) s) (length (a_due (dcfg_of_cfg c) (Tr c s1) s))); [discriminate|].
  assert (Ex : exists cs, nth_error (subs (St c s1)) s = Some cs).
  { destruct (nth_error (subs (St c s1)) s) as [cs|] eqn:Ec; [eauto|]. apply nth_error_None in Ec.
    pose proof (d_state c s1) as Dd. unfold dcfg_of_cfg, dcfg_of_state in Dd. inversion Dd as [[D1 D2 D3]]. fold (St c s1) in D2.
    assert (length (sS (St c s1)) = length (c_subs c)) by (rewrite <- D2, map_length; reflexivity). unfold sS in H. rewrite map_length in H. lia. }
  destruct Ex as [cs Ec]. destruct (open_sub_pcs c s1 s cs W Ec R Hc) as [Sp [Kp [Cl Dr]]].
  destruct (Nat.ltb (o_nread (Tr c s1) s) (o_nreq (Tr c s1) s)) eqn:Lt; [|cbn; discriminate]. apply Nat.ltb_lt in Lt. cbn [andb].
  (* a receive is outstanding at a quiescent point: nothing is buffered, everything sent has been reported *)
  destruct (trok_cfg c s1 W) as [O _ _].
  pose proof (obW _ _ O s (want cs + length (hand cs))%nat) as OW. unfold xW in OW. rewrite nth_error_map in OW. fold (St c s1) in OW. rewrite Ec in OW. specialize (OW eq_refl). fold (Tr c s1) in OW.
  pose proof (quiet_hand _ s cs Q Ec) as Hh0. rewrite Hh0 in OW. cbn in OW.
  assert (Hw : (want cs > 0)%nat) by lia. pose proof (quiet_want _ s cs Q Ec Hw Cl) as Hb.
  destruct (chan_integrity_l (init_of c) s1 s cs (init_initial c W) Ec) as [taken [Hh Ht]]. specialize (Ht Dr). subst taken. fold (St c s1) in Hh. rewrite Hb, app_nil_r in Hh.
  pose proof (recv_count c s1 s cs W Ec Cl) as RC. rewrite Hh0, app_nil_r in RC.
  assert (RD : forall v, In v (map snd (hist cs)) -> In v (reads_d (Tr c s1) s)) by (intros v Hv; rewrite Hh in Hv; rewrite RC; exact Hv).
  assert (E1 : existsb (fun k => match dm_ev (dcfg_of_cfg c) k with Some v => negb (a_read (Tr c s1) s (Z.eqb v)) | None => false end) (a_due (dcfg_of_cfg c) (Tr c s1) s) = false).
  { apply not_true_is_false. intros X. apply existsb_exists in X. destruct X as [k [Hk X]].
    pose proof (due_in_hist c s1 s cs k W Ec Hc Hk) as Hi. unfold evk in Hi.
    rewrite (d_state c s1), dm_ev_state in X. fold (St c s1) in X. destruct (nth_error (emits (St c s1)) k) as [e|]; [|discriminate]. cbn in X.
    apply negb_true_iff in X. unfold a_read, a_reads in X. assert (Y : existsb (Z.eqb (eev e)) (reads_d (Tr c s1) s) = true).
    { apply existsb_exists. exists (eev e). split; [apply RD, Hi|apply Z.eqb_refl]. } congruence. }
  rewrite E1. cbn [orb].
  assert (E2 : existsb (fun ty => a_replay_due (dcfg_of_cfg c) (Tr c s1) s ty && negb (a_read (Tr c s1) s (fun v' => ty_eqb (dm_ev_ty (dcfg_of_cfg c) v') (Some ty))))
                      (dm_tys (dcfg_of_cfg c) s) = false).
  { apply not_true_is_false. intros X. apply existsb_exists in X. destruct X as [ty [_ X]]. apply andb_true_iff in X. destruct X as [Hdue Hnr].
    apply negb_true_iff in Hnr.
    assert (Et : exists tys, styps cs = Some tys).
    { unfold a_replay_due in Hdue. apply andb_true_iff in Hdue. destruct Hdue as [Hdue _]. apply andb_true_iff in Hdue. destruct Hdue as [Hw0 _].
      apply negb_true_iff in Hw0. rewrite (d_state c s1) in Hw0. fold (St c s1) in Hw0. rewrite (dm_wild_state _ _ s cs Ec) in Hw0. destruct (styps cs); [eauto|discriminate]. }
    destruct Et as [tys Et].
    destruct (replay_due_cc c s1 s cs tys ty W Ec Et Hdue) as [i [n [nd [Hi [Esn [En [Tyn [lv [rest [kx [ex [P [Ekx [Ev [Hf Hp]]]]]]]]]]]]]]].
    destruct (cc_item c s1 s cs tys i n nd lv rest kx ex W Ec Et En P Ekx Ev Esn) as [Hin [Ff Dty]].
    assert (Hhist : In (n, lv) (hist cs)).
    { destruct Hp as [[Hrp [nd0 [En0 [Kpn Eln]]]]|X]; [exfalso|exact X]. rewrite En in En0. inversion En0; subst nd0.
      (* the replay goroutine could run: the channel has room *)
      eapply (quiet_no_tau (St c s1) (TReplay s i)); [exact Q|]. cbn. unfold step_replay. rewrite Ec, Hrp, Esn, En, Kpn, Eln. unfold send. rewrite Ec, Cl.
      assert (Rm : room cs = true) by (unfold room; rewrite Hb; apply Nat.ltb_lt; cbn [length]; lia). rewrite Rm. cbn. reflexivity. }
    assert (Y : a_read (Tr c s1) s (fun v' => ty_eqb (dm_ev_ty (dcfg_of_cfg c) v') (Some ty)) = true).
    { unfold a_read, a_reads. apply existsb_exists. exists lv. split; [apply RD; apply in_map_iff; exists (n, lv); auto|].
      unfold dm_ev_ty. rewrite Ff, Dty. cbn. apply Nat.eqb_eq. exact Tyn. }
    congruence. }
  rewrite E2. discriminate.
Qed.

Lemma app_head : forall {A} (a p rest : list A) x, a ++ p = x :: rest -> a <> [] -> exists a', a = x :: a'.
Proof. intros A a p rest x H Hn. destruct a as [|y a']; [contradiction|]. cbn in H. inversion H; subst. eauto. Qed.

Lemma rule8_ok : read_rule_ok 8.
Proof.
  intros c s1 t s v st' W D E Hv. destruct (read_step_inv _ _ _ _ _ E) as [cs [r [Ec [Eh _]]]]. fold (St c s1) in Ec.
  destruct (hand_witness c s1 s cs v W Ec ltac:(rewrite Eh; left; reflexivity) Hv) as [tag [k [e [Hr [Hh [Hx [Ek [Ev [F L]]]]]]]]].
  eapply read_not; [exact F|]. do 7 right. split; [reflexivity|]. unfold c8. fold (Tr c s1).
  destruct (a_started (Tr c s1) (TClose s)) eqn:Hc; [reflexivity|]. unfold a_started in Hc. cbn [negb andb].
  destruct (a_fresh (Tr c s1) s k) eqn:Hf; [|reflexivity]. cbn [andb].
  assert (P0 : epc e <> E0) by (intros X; rewrite X in L; exact L).
  destruct (emitter_of_emit c s1 k e W Ek P0) as [m Em]. rewrite (dm_ty_emit c s1 k e m Ek Em).
  destruct (a_replay_due (dcfg_of_cfg c) (Tr c s1) s (mty m)) eqn:Hdue; [|reflexivity]. cbn [andb]. apply negb_false_iff.
  assert (Et : exists tys, styps cs = Some tys).
  { unfold a_replay_due in Hdue. apply andb_true_iff in Hdue. destruct Hdue as [Hd _]. apply andb_true_iff in Hd. destruct Hd as [Hw0 _].
    apply negb_true_iff in Hw0. rewrite (d_state c s1) in Hw0. fold (St c s1) in Hw0. rewrite (dm_wild_state _ _ s cs Ec) in Hw0. destruct (styps cs); [eauto|discriminate]. }
  destruct Et as [tys Et].
  destruct (replay_due_cc c s1 s cs tys (mty m) W Ec Et Hdue) as [i [n [nd [Hi [Esn [En [Tyn [lv [rest [kx [ex [P [Ekx [Evx [Hfx Hp]]]]]]]]]]]]]]].
  destruct (cc_item c s1 s cs tys i n nd lv rest kx ex W Ec Et En P Ekx Evx Esn) as [Hinx [Ff Dty]].
  rewrite <- Ev in Hx, Hr, Hh.
  destruct (item_node c s1 s cs tag (eev e) k e m W Ec ltac:(congruence) Hx Ek eq_refl Em) as [Mn [_ [i' [nd' [tys' [Hi' [_ [Et' [Hti' _]]]]]]]]].
  rewrite Et in Et'. inversion Et'; subst tys'.
  destruct (reach_cfg c s1 W) as [G [_ [_ TV]]]. destruct (TYV_TY _ TV) as [_ [_ [_ [_ T5]]]].
  assert (i' = i). { eapply (proj1 (NoDup_nth_error tys) (T5 s cs tys Ec Et) i' i); [apply nth_error_Some; congruence|congruence]. }
  subst i'. assert (Tg : tag = n) by congruence. rewrite Tg in *.
  destruct (fresh_returned _ _ _ Hf) as [Rs _]. destruct (open_sub_pcs c s1 s cs W Ec Rs Hc) as [_ [_ [Cl Dr]]].
  destruct (chan_integrity_l (init_of c) s1 s cs (init_initial c W) Ec) as [taken [Hhist Ht]]. specialize (Ht Dr). subst taken. fold (St c s1) in Hhist.
  pose proof (recv_count c s1 s cs W Ec Cl) as RC. rewrite Eh, <- Ev in RC.
  symmetry in RC. apply map_eq_app in RC. destruct RC as [r1 [r2' [Er [M1 M2]]]]. destruct r2' as [|[t0 v0] r2]; [discriminate|]. cbn in M2. inversion M2 as [[Ev0 M3]]. subst v0.
  assert (T0 : t0 = n).
  { pose proof (recv_ids_nodup c s1 s cs W Ec) as ND. rewrite map_app in ND. apply NoDup_app_l in ND.
    assert (In (t0, eev e) (recv cs)) by (rewrite Er; apply in_or_app; right; left; reflexivity).
    assert (Q : (t0, eev e) = (n, eev e)) by (apply (NoDup_map_inv_inj snd (recv cs) _ _ ND H Hr); reflexivity). inversion Q. reflexivity. }
  subst t0.
  (* the retained item is not the fresh one *)
  assert (Nv : lv <> eev e).
  { intros X. assert (kx = k) by (eapply (Proofs_RCtx.ids_unique c s1); eauto; congruence). subst kx. congruence. }
  (* the retained item is the first of its node in the history, hence received before the fresh one *)
  pose proof (exactly_once_in_order_l (init_of c) s1 s cs n (init_initial c W) Ec ltac:(congruence)) as ON. fold (St c s1) in ON. rewrite P in ON.
  assert (Hn0 : proj n (hist cs) <> []).
  { intros X. assert (In (n, eev e) (proj n (hist cs))) by (apply filter_In; split; [exact Hh|apply Nat.eqb_refl]). rewrite X in H. contradiction. }
  destruct (app_head _ _ _ _ ON Hn0) as [h' Hp'].
  rewrite Hhist, Er in Hp'. rewrite <- app_assoc in Hp'. cbn [app] in Hp'. rewrite proj_app in Hp'. cbn [proj filter fst] in Hp'. rewrite Nat.eqb_refl in Hp'.
  assert (Hr1 : In (n, lv) r1).
  { destruct (proj n r1) as [|y q] eqn:Pq.
    - cbn in Hp'. inversion Hp'. congruence.
    - cbn in Hp'. inversion Hp'; subst y. assert (In (n, lv) (proj n r1)) by (rewrite Pq; left; reflexivity). apply filter_In in H. apply H. }
  unfold a_read, a_reads. apply existsb_exists. exists lv. split; [rewrite <- M1; apply in_map_iff; exists (n, lv); auto|].
  unfold dm_ev_ty, a_nonfresh. rewrite Ff, Dty, Hfx. cbn. rewrite andb_true_r. apply Nat.eqb_eq. exact Tyn.
Qed.

(* rule 14: after Close of a typed subscription has returned its channel is closed: at a
   quiescent point every receive on it has been answered *)
Lemma rule14_ok : quiet_rule_ok 14.
Proof.
  intros c s1 s W D Q Ls. fold (St c s1) in Q. fold (Tr c s1). unfold d_check_quiet. unfold a_returned.
  destruct (o_returned (Tr c s1) (TClose s)) eqn:R; cbn [andb];
    [|repeat (match goal with |- context[if ?x then _ else _] => destruct x end); discriminate].
  destruct (dm_wild (dcfg_of_cfg c) s) eqn:Wd; cbn [negb andb];
    [repeat (match goal with |- context[if ?x then _ else _] => destruct x end); discriminate|].
  destruct (Nat.ltb (o_nread (Tr c s1) s) (o_nreq (Tr c s1) s)) eqn:Lt;
    [exfalso|repeat (match goal with |- context[if ?x then _ else _] => destruct x end); discriminate].
  apply Nat.ltb_lt in Lt.
  assert (Ex : exists cs, nth_error (subs (St c s1)) s = Some cs).
  { destruct (nth_error (subs (St c s1)) s) as [cs|] eqn:Ec; [eauto|]. apply nth_error_None in Ec.
    pose proof (d_state c s1) as Dd. unfold dcfg_of_cfg, dcfg_of_state in Dd. inversion Dd as [[D1 D2 D3]]. fold (St c s1) in D2.
    assert (length (sS (St c s1)) = length (c_subs c)) by (rewrite <- D2, map_length; reflexivity). unfold sS in H. rewrite map_length in H. lia. }
  destruct Ex as [cs Ec]. destruct (trok_cfg c s1 W) as [O _ _].
  assert (Kp : cpc cs = KDone).
  { pose proof (obC _ _ O s (cpc cs)) as N. unfold xC in N. rewrite nth_error_map in N. fold (St c s1) in N. rewrite Ec in N. specialize (N eq_refl).
    unfold tstat in N. fold (Tr c s1) in N. rewrite R in N. destruct (cpc cs); cbn in N; try discriminate. reflexivity. }
  assert (Ty : styps cs <> None).
  { rewrite (d_state c s1) in Wd. fold (St c s1) in Wd. rewrite (dm_wild_state _ _ s cs Ec) in Wd. destruct (styps cs); [discriminate|discriminate]. }
  destruct (Forall_nth_error _ _ _ _ (loc4_cfg c s1 W) Ec) as [_ [_ [_ [Q4 _]]]]. pose proof (Q4 Ty (or_intror Kp)) as Cl.
  pose proof (obW _ _ O s (want cs + length (hand cs))%nat) as OW. unfold xW in OW. rewrite nth_error_map in OW. fold (St c s1) in OW. rewrite Ec in OW. specialize (OW eq_refl). fold (Tr c s1) in OW.
  rewrite (quiet_hand _ s cs Q Ec) in OW. cbn in OW. destruct (want cs) as [|w] eqn:Ew; [lia|].
  destruct (buf cs) as [|it b] eqn:Eb.
  - eapply (quiet_no_tau (St c s1) (TRecv s)); [exact Q|]. cbn. unfold step_recv. rewrite Ec, Ew, Eb, Cl. reflexivity.
  - eapply (quiet_no_tau (St c s1) (TRecv s)); [exact Q|]. cbn. unfold step_recv. rewrite Ec, Ew, Eb. reflexivity.
Qed.

(* C15 — the property sentences as lemmas over every schedule from every
   initial state (any number of subscriptions, emitters, Emit calls, any
   buffer sizes). *)
From Coq Require Import List Arith ZArith Bool Lia.
From Verif Require Import c15.Lts c15.Model c15.Proofs_Chan c15.Proofs_Loc c15.Proofs_List c15.Proofs_Safe
  c15.Proofs_Init c15.Proofs_Once.
Import ListNotations.

Lemma initial_once : forall st, initial st -> Once st.
Proof.
  intros st [Hn [_ [_ [_ [Hs _]]]]] s c n Hc _. rewrite Forall_forall in Hs.
  rewrite (Hs c (nth_error_In _ _ Hc)). unfold pend. rewrite Hn. destruct n; reflexivity.
Qed.

Lemma initial_full : forall st, initial st -> Full st.
Proof. intros st H. split; [apply initial_safe, H|apply initial_once, H]. Qed.

(* exactly once, in node-lock order: for a typed subscription s and a node n,
   what was sent to s through n, followed by what the holder of n.lk still
   owes s, is exactly the sequence promised to s at the linearisation points
   (Emit taking n.lk while s is in n.sinks; Subscribe appending s to a node
   with a retained event) *)
Lemma exactly_once_in_order_l : forall st sched s c n, initial st ->
  nth_error (subs (run step st sched)) s = Some c -> styps c <> None ->
  proj n (hist c) ++ pend (run step st sched) s n = proj n (expd c).
Proof. intros st sched s c n H Hc Ht. exact (proj2 (full_run st sched (initial_full st H)) s c n Hc Ht). Qed.

(* ... hence, whenever n.lk is free, delivered = promised, and before Close
   starts the consumer has read a prefix of it and the rest is buffered *)
Lemma exactly_once_quiescent_l : forall st sched s c n nd, initial st ->
  nth_error (subs (run step st sched)) s = Some c -> styps c <> None ->
  nth_error (nodes (run step st sched)) n = Some nd -> holder nd = None ->
  proj n (hist c) = proj n (expd c) /\
  (drain c = 0 -> proj n (recv c) ++ proj n (buf c) = proj n (expd c)).
Proof.
  intros st sched s c n nd H Hc Ht Hn Hh. pose proof (exactly_once_in_order_l st sched s c n H Hc Ht) as X.
  rewrite (pend_free _ s n nd Hn Hh), app_nil_r in X. split; [exact X|]. intros Hd.
  destruct (chan_integrity_l st sched s c H Hc) as [tk [A B]]. rewrite <- X, A, (B Hd), proj_app. reflexivity.
Qed.

(* the promise made by one Emit when it takes n.lk: one copy of the event per
   occurrence of the subscription in n.sinks at that instant; nobody else is
   promised anything (computed from the step function) *)
Lemma emit_lock_promises : forall st k e m nd, nth_error (emits st) k = Some e -> epc e = ELock ->
  nth_error (emitters st) (eem e) = Some m -> nth_error (nodes st) (mnode m) = Some nd -> holder nd = None ->
  exists st', step st (TEmit k) = Some (None, st') /\
    forall s c, nth_error (subs st) s = Some c ->
      exists c', nth_error (subs st') s = Some c' /\
                 expd c' = expd c ++ repeat (mnode m, eev e) (cnt (sinks nd) s) /\ hist c' = hist c.
Proof.
  intros st k e m nd Ek Ep Em En Hh. cbn. unfold step_emit. rewrite Ek, Em, Ep, En, Hh. eexists. split; [reflexivity|].
  intros s c Ec. cbn [subs set_emit set_emits set_subs set_node set_nodes]. rewrite nth_error_expect, Ec. cbn.
  eexists. split; [reflexivity|]. split; reflexivity.
Qed.

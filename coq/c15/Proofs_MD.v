(* C15 — must-deliver, coupled with the trace: an Emit that started after Subscribe(s)
   returned and has passed its lock point has promised its event to s (ghost expd), unless
   Close(s) has started meanwhile. *)
From Coq Require Import List Arith ZArith Bool Lia.
From Verif Require Import lib.Wire c15.Lts c15.Model c15.Spec c15.Proofs c15.Proofs_Chan c15.Proofs_Loc c15.Proofs_List c15.Proofs_Safe
  c15.Proofs_Init c15.Proofs_Once c15.Proofs_First c15.Proofs_Grow c15.Proofs_Live c15.Proofs_Pend c15.Proofs_Idx c15.Proofs_Dead c15.Proofs_Prog c15.Proofs_Valid c15.Proofs_WildOK
  c15.Proofs_Blk c15.Proofs_Obs c15.Proofs_Loc3 c15.Proofs_WSI c15.Proofs_TY c15.Proofs_Rule13 c15.Proofs_Wire c15.Proofs_Mon c15.Proofs_Tr c15.Proofs_Cpl
  c15.Proofs_Prom c15.Proofs_R3 c15.Proofs_R4 c15.Proofs_RegA c15.Proofs_RegB c15.Proofs_RegW c15.Proofs_RegRun.
Import ListNotations.
Local Open Scope Z_scope.

Record MD (st : state) (pre : list label) : Prop := {
  md1 : forall s c k e m tys, nth_error (subs st) s = Some c -> styps c = Some tys -> nth_error (emits st) k = Some e -> epc e = ELock ->
        nth_error (emitters st) (eem e) = Some m -> In (mty m) tys -> a_fresh pre s k = true -> o_started pre (TClose s) = false ->
        exists nd, nth_error (nodes st) (mnode m) = Some nd /\ In s (sinks nd);
  md2 : forall s c k e m tys, nth_error (subs st) s = Some c -> styps c = Some tys -> nth_error (emits st) k = Some e ->
        nth_error (emitters st) (eem e) = Some m -> In (mty m) tys -> a_fresh pre s k = true -> lk_pc false (epc e) (a_ok pre k) ->
        In (mnode m, eev e) (expd c) \/ o_started pre (TClose s) = true;
  md3 : forall s c k e, nth_error (subs st) s = Some c -> styps c = None -> nth_error (emits st) k = Some e ->
        a_fresh pre s k = true -> lk_pc true (epc e) (a_ok pre k) ->
        In (k, eev e) (expd c) \/ o_started pre (TClose s) = true }.

(* ---- how a step may change what MD reads --------------------------------------------- *)
Lemma Grows_back : forall l l' s c', Grows l l' -> nth_error l' s = Some c' -> exists c, nth_error l s = Some c /\ grows c c'.
Proof.
  intros l l' s c' G. revert s. induction G as [|a b l l' H G IH]; intros s Hs; [destruct s; discriminate|].
  destruct s; cbn in Hs; [inversion Hs; subst; exists a; auto|apply IH, Hs].
Qed.

(* Emit calls are only moved by their own thread *)
Lemma emits_other : forall st t l st', (match t with TEmit _ => False | _ => True end) -> step st t = Some (l, st') -> emits st' = emits st.
Proof.
  intros st t l st' Ht E. destruct t; try contradiction; cbn [step] in E.
  - apply (proj1 (emnew_em _ _ _ _ E)). - apply (proj1 (emclose_em _ _ _ _ E)). - apply (proj1 (sub_em _ _ _ _ E)).
  - apply (proj1 (replay_em _ _ _ _ _ E)). - apply (proj1 (close_em _ _ _ _ E)).
  - unfold step_drain in E. brute E; inversion E; subst; reflexivity.
  - unfold step_req in E. brute E; inversion E; subst; reflexivity.
  - unfold step_recv in E. brute E; inversion E; subst; reflexivity.
  - unfold step_read in E. brute E; inversion E; subst; reflexivity.
Qed.

(* an emitter record of the new state, traced back: type and (once assigned) node are stable *)
Lemma emitter_back : forall st t l st' j m', step st t = Some (l, st') -> nth_error (emitters st') j = Some m' ->
  exists m, nth_error (emitters st) j = Some m /\ mty m' = mty m /\ (2 <= mnew m -> mnode m' = mnode m)%nat /\ (mnew m <= mnew m')%nat /\ (mcl m' = C0 -> mcl m = C0).
Proof.
  intros st t l st' j m' E Hj.
  assert (Same : emitters st' = emitters st -> exists m, nth_error (emitters st) j = Some m /\ mty m' = mty m /\ (2 <= mnew m -> mnode m' = mnode m)%nat /\ (mnew m <= mnew m')%nat /\ (mcl m' = C0 -> mcl m = C0)).
  { intros H. rewrite H in Hj. exists m'. auto 6. }
  destruct t; try (apply Same; eapply emitters_other; [|exact E]; exact I); cbn [step] in E.
  - unfold step_emnew in E. destruct (nth_error (emitters st) j0) as [m|] eqn:Ej; [|discriminate].
    assert (U : forall stx n a, emitters stx = emitters st -> (2 <= mnew m -> n = mnode m)%nat -> (mnew m <= a)%nat -> nth_error (emitters (set_emitter stx j0 (m_new m n a))) j = Some m' ->
                exists m0, nth_error (emitters st) j = Some m0 /\ mty m' = mty m0 /\ (2 <= mnew m0 -> mnode m' = mnode m0)%nat /\ (mnew m0 <= mnew m')%nat /\ (mcl m' = C0 -> mcl m0 = C0)).
    { intros stx n a Hx Hn Ha H. cbn in H. rewrite Hx in H. apply nth_error_upd_inv in H. destruct H as [[-> [-> _]]|[N H]]; [exists m; cbn; auto 6|exists m'; auto 6]. }
    destruct (mnew m) as [|[|[|[|?]]]] eqn:En; try discriminate.
    + inversion E; subst. eapply (U st (mnode m) 1%nat); [reflexivity|intros; lia|lia|exact Hj].
    + destruct (with_node st (mty m)) as [[st1 n]|] eqn:Ew; [|discriminate]. inversion E; subst.
      eapply (U st1 n 2%nat); [apply (proj2 (with_node_emits _ _ _ _ Ew))|intros; lia|lia|exact Hj].
    + destruct (nth_error (nodes st) (mnode m)) as [nd|]; [|discriminate]. destruct (holder nd); [discriminate|]. inversion E; subst.
      eapply (U (set_node st (mnode m) _) (mnode m) 3%nat); [reflexivity|auto|lia|exact Hj].
    + inversion E; subst. eapply (U st (mnode m) 4%nat); [reflexivity|auto|lia|exact Hj].
  - unfold step_emclose in E. destruct (nth_error (emitters st) j0) as [m|] eqn:Ej; [|discriminate].
    assert (U : forall stx c p, emitters stx = emitters st -> p <> C0 -> nth_error (emitters (set_emitter stx j0 (m_cl m c p))) j = Some m' ->
                exists m0, nth_error (emitters st) j = Some m0 /\ mty m' = mty m0 /\ (2 <= mnew m0 -> mnode m' = mnode m0)%nat /\ (mnew m0 <= mnew m')%nat /\ (mcl m' = C0 -> mcl m0 = C0)).
    { intros stx c p Hx Hp H. cbn in H. rewrite Hx in H. apply nth_error_upd_inv in H. destruct H as [[-> [-> _]]|[N H]]; [exists m; cbn; repeat split; auto; intros X; contradiction|exists m'; auto 6]. }
    destruct (mcl m); try discriminate; try solve [brute E; inversion E; subst; (eapply (U _ _ _ eq_refl); [|exact Hj]); first [discriminate | match goal with |- (if ?b then _ else _) <> _ => destruct b; discriminate end]].
    apply otau_Some in E. destruct E as [E _]. apply option_map_Some in E. destruct E as [x [E ->]].
    eapply (U x true (C4 0)); [apply (proj2 (try_drop_emits _ _ _ E))|discriminate|exact Hj].
Qed.

Lemma ok_step_other : forall pre l k, (forall c, l <> Some (LRet (TEmit k) c)) -> a_ok (pre ++ olab l) k = a_ok pre k.
Proof.
  intros pre l k H. destruct l as [l|]; [|cbn; rewrite app_nil_r; reflexivity]. cbn [olab]. unfold a_ok. rewrite existsb_snoc.
  assert (X : lab_is_ret_code (TEmit k) 0 l = false); [|rewrite X; apply orb_false_r].
  destruct l as [|t c| |]; try reflexivity. unfold lab_is_ret_code. destruct (thr_eqb (TEmit k) t) eqn:X; [|reflexivity].
  exfalso. destruct t; cbn in X; try discriminate. apply Nat.eqb_eq in X. subst. eapply H. reflexivity.
Qed.

Lemma lk_pc_ok : forall w p a b, (a = true -> b = true) -> lk_pc w p a -> lk_pc w p b.
Proof. intros w p a b H L. destruct p; cbn in *; auto. Qed.

Lemma md_other : forall st t l st' pre, (match t with TEmit _ => False | _ => True end) -> TrOK st pre -> Valid st ->
  MD st pre -> step st t = Some (l, st') -> MD st' (pre ++ olab l).
Proof.
  intros st t l st' pre Ht [O TS TC] V [M1 M2 M3] E.
  pose proof (emits_other _ _ _ _ Ht E) as EM. pose proof (step_grows _ _ _ _ E) as GR.
  assert (NL : forall k, l <> Some (LStart (TEmit k)) /\ forall c, l <> Some (LRet (TEmit k) c)).
  { intros k. split; [|intros c]; intros X; subst l; pose proof (vis_label_inv _ _ _ _ E) as [T _]; subst t; exact Ht. }
  assert (FR : forall s k, a_fresh (pre ++ olab l) s k = true -> a_fresh pre s k = true).
  { intros s k H. destruct (fresh_step _ _ _ _ H) as [X|[X _]]; [exact X|]. exfalso. exact (proj1 (NL k) X). }
  assert (OK : forall k, a_ok (pre ++ olab l) k = a_ok pre k) by (intros k; apply ok_step_other, NL).
  assert (CS : forall s, o_started (pre ++ olab l) (TClose s) = false -> o_started pre (TClose s) = false).
  { intros s H. destruct (o_started pre (TClose s)) eqn:X; [|reflexivity]. rewrite (started_mono pre l _ X) in H. discriminate. }
  destruct V as [_ [_ [V3 _]]].
  constructor.
  - intros s c' k e m' tys Ec' Et Ek Ep Em' Hty Hf Hc. rewrite EM in Ek.
    destruct (Grows_back _ _ _ _ GR Ec') as [c [Ec [_ [_ [_ [St _]]]]]]. destruct (emitter_back _ _ _ _ _ _ E Em') as [m [Em [Ty [Nd _]]]].
    assert (M4 : mnew m = 4%nat) by (apply (V3 k e m Ek); [congruence|exact Em]).
    rewrite Nd by lia. destruct (M1 s c k e m tys Ec ltac:(congruence) Ek Ep Em ltac:(congruence) (FR _ _ Hf) (CS _ Hc)) as [nd [En Hin]].
    destruct (step_sinks _ _ _ _ _ _ s E En Hin) as [X|[c0 [i [Ec0 Hk]]]]; [exact X|exfalso].
    rewrite Ec in Ec0. inversion Ec0; subst c0. pose proof (obC _ _ O s (cpc c)) as N. unfold xC in N. rewrite nth_error_map, Ec in N.
    specialize (N eq_refl). rewrite Hk in N. cbn in N. apply tstat_started in N. pose proof (CS _ Hc) as Z. rewrite (proj1 N) in Z. discriminate Z.
  - intros s c' k e m' tys Ec' Et Ek Em' Hty Hf Hl. rewrite EM in Ek.
    destruct (Grows_back _ _ _ _ GR Ec') as [c [Ec [_ [[ex Ex] [_ [St _]]]]]]. destruct (emitter_back _ _ _ _ _ _ E Em') as [m [Em [Ty [Nd _]]]].
    assert (P0 : epc e <> E0) by (intros X; rewrite X in Hl; exact Hl).
    assert (M4 : mnew m = 4%nat) by (apply (V3 k e m Ek P0 Em)).
    rewrite Nd by lia. rewrite OK in Hl.
    destruct (M2 s c k e m tys Ec ltac:(congruence) Ek Em ltac:(congruence) (FR _ _ Hf) Hl) as [X|X].
    + left. rewrite Ex. apply in_or_app. left. exact X.
    + right. apply started_mono, X.
  - intros s c' k e Ec' Et Ek Hf Hl. rewrite EM in Ek.
    destruct (Grows_back _ _ _ _ GR Ec') as [c [Ec [_ [[ex Ex] [_ [St _]]]]]]. rewrite OK in Hl.
    destruct (M3 s c k e Ec ltac:(congruence) Ek (FR _ _ Hf) Hl) as [X|X].
    + left. rewrite Ex. apply in_or_app. left. exact X.
    + right. apply started_mono, X.
Qed.

(* ---- a step of Emit call k0 ------------------------------------------------------------ *)
Lemma md_emit_gen : forall st k0 l st' pre e0 p', TrOK st pre -> Valid st -> MD st pre ->
  step st (TEmit k0) = Some (l, st') -> nth_error (emits st) k0 = Some e0 -> emits st' = upd (emits st) k0 (e_pc e0 p') ->
  (p' = ELock -> forall s c' m tys, nth_error (subs st') s = Some c' -> styps c' = Some tys -> nth_error (emitters st) (eem e0) = Some m ->
     In (mty m) tys -> a_fresh (pre ++ olab l) s k0 = true -> o_started (pre ++ olab l) (TClose s) = false ->
     exists nd, nth_error (nodes st') (mnode m) = Some nd /\ In s (sinks nd)) ->
  (lk_pc false p' (a_ok (pre ++ olab l) k0) -> (lk_pc false (epc e0) (a_ok pre k0) -> False) ->
     forall s c' m tys, nth_error (subs st') s = Some c' -> styps c' = Some tys -> nth_error (emitters st) (eem e0) = Some m ->
     In (mty m) tys -> a_fresh (pre ++ olab l) s k0 = true ->
     In (mnode m, eev e0) (expd c') \/ o_started (pre ++ olab l) (TClose s) = true) ->
  (lk_pc true p' (a_ok (pre ++ olab l) k0) -> (lk_pc true (epc e0) (a_ok pre k0) -> False) ->
     forall s c', nth_error (subs st') s = Some c' -> styps c' = None -> a_fresh (pre ++ olab l) s k0 = true ->
     In (k0, eev e0) (expd c') \/ o_started (pre ++ olab l) (TClose s) = true) ->
  MD st' (pre ++ olab l).
Proof.
  intros st k0 l st' pre e0 p' [O TS TC] V [M1 M2 M3] E Ek0 EM G1 G2 G3.
  pose proof (step_grows _ _ _ _ E) as GR.
  assert (EMs : emitters st' = emitters st) by (eapply emitters_other; [|exact E]; exact I).
  assert (LT : forall lab, l = Some lab -> (lab = LStart (TEmit k0) \/ exists c, lab = LRet (TEmit k0) c)).
  { intros lab ->. pose proof (vis_label_inv _ _ _ _ E) as X. destruct lab as [t0|t0 c| |]; cbn in X; try discriminate X.
    - destruct X as [X _]. subst t0. left. reflexivity. - destruct X as [X _]. subst t0. right. exists c. reflexivity. }
  assert (FR : forall s k, k <> k0 -> a_fresh (pre ++ olab l) s k = true -> a_fresh pre s k = true).
  { intros s k N H. destruct (fresh_step _ _ _ _ H) as [X|[X _]]; [exact X|]. exfalso. destruct (LT _ X) as [Y|[c Y]]; inversion Y. congruence. }
  assert (OK : forall k, k <> k0 -> a_ok (pre ++ olab l) k = a_ok pre k).
  { intros k N. apply ok_step_other. intros c X. destruct (LT _ X) as [Y|[c' Y]]; inversion Y. congruence. }
  assert (CS : forall s, o_started (pre ++ olab l) (TClose s) = false -> o_started pre (TClose s) = false).
  { intros s H. destruct (o_started pre (TClose s)) eqn:X; [|reflexivity]. rewrite (started_mono pre l _ X) in H. discriminate. }
  assert (SK : forall n nd s, nth_error (nodes st) n = Some nd -> In s (sinks nd) -> exists nd', nth_error (nodes st') n = Some nd' /\ In s (sinks nd')).
  { intros n nd s En Hin. destruct (step_sinks_cases _ _ _ _ E) as [S|[S|S]].
    - destruct (S n nd En) as [nd' [A B]]. exists nd'. rewrite B. auto.
    - destruct S as [s1 [c1 [i1 [n1 [nd1 [nd1' [X _]]]]]]]. discriminate X.
    - destruct S as [s1 [c1 [j1 [n1 [nd1 [X _]]]]]]. discriminate X. }
  destruct V as [_ [_ [V3 _]]].
  constructor.
  - intros s c' k e m tys Ec' Et Ek Ep Em Hty Hf Hc. rewrite EMs in Em. rewrite EM in Ek.
    destruct (Nat.eq_dec k k0) as [->|N].
    + rewrite (nth_error_upd_eq _ _ _ _ Ek0) in Ek. inversion Ek; subst e. cbn in Ep, Em. eapply G1; eassumption.
    + rewrite nth_error_upd_neq in Ek by congruence.
      destruct (Grows_back _ _ _ _ GR Ec') as [c [Ec [_ [_ [_ [St _]]]]]].
      destruct (M1 s c k e m tys Ec ltac:(congruence) Ek Ep Em Hty (FR _ _ N Hf) (CS _ Hc)) as [nd [En Hin]]. eapply SK; eassumption.
  - intros s c' k e m tys Ec' Et Ek Em Hty Hf Hl. rewrite EMs in Em. rewrite EM in Ek.
    destruct (Grows_back _ _ _ _ GR Ec') as [c [Ec [_ [[ex Ex] [_ [St _]]]]]].
    destruct (Nat.eq_dec k k0) as [->|N].
    + rewrite (nth_error_upd_eq _ _ _ _ Ek0) in Ek. inversion Ek; subst e. cbn in Hl, Em |- *.
      destruct (fresh_step _ _ _ _ Hf) as [Hf0|[Hs _]].
      * (* already locked before? then the old promise, else the new obligation *)
        assert (D : lk_pc false (epc e0) (a_ok pre k0) \/ (lk_pc false (epc e0) (a_ok pre k0) -> False)).
        { destruct (epc e0); cbn; auto; try (right; intros X; exact X); try (left; reflexivity).
          - destruct (Z.eq_dec code 0); [left; assumption|right; assumption].
          - destruct (a_ok pre k0); [left; reflexivity|right; intros X; discriminate]. }
        destruct D as [D|D]; [|eapply G2; eassumption].
        destruct (M2 s c k0 e0 m tys Ec ltac:(congruence) Ek0 Em Hty Hf0 D) as [X|X];
          [left; rewrite Ex; apply in_or_app; left; exact X|right; apply started_mono, X].
      * eapply G2; try eassumption. intros X. destruct (LT _ Hs) as [Y|[c0 Y]]; [|discriminate Y].
        subst l. pose proof (label_status st pre _ _ st' O E) as LS. cbn in LS. apply tstat_fresh in LS.
        pose proof (obM _ _ O k0 (epc e0)) as OM. unfold xM in OM. rewrite nth_error_map, Ek0 in OM. specialize (OM eq_refl).
        unfold tstat in OM. rewrite (proj1 LS), (proj2 LS) in OM. destruct (epc e0); cbn in OM, X; try discriminate; contradiction.
    + rewrite nth_error_upd_neq in Ek by congruence. rewrite (OK k N) in Hl.
      destruct (M2 s c k e m tys Ec ltac:(congruence) Ek Em Hty (FR _ _ N Hf) Hl) as [X|X];
        [left; rewrite Ex; apply in_or_app; left; exact X|right; apply started_mono, X].
  - intros s c' k e Ec' Et Ek Hf Hl. rewrite EM in Ek.
    destruct (Grows_back _ _ _ _ GR Ec') as [c [Ec [_ [[ex Ex] [_ [St _]]]]]].
    destruct (Nat.eq_dec k k0) as [->|N].
    + rewrite (nth_error_upd_eq _ _ _ _ Ek0) in Ek. inversion Ek; subst e. cbn in Hl |- *.
      destruct (fresh_step _ _ _ _ Hf) as [Hf0|[Hs _]].
      * assert (D : lk_pc true (epc e0) (a_ok pre k0) \/ (lk_pc true (epc e0) (a_ok pre k0) -> False)).
        { destruct (epc e0); cbn; auto; try (right; intros X; exact X); try (right; intros X; discriminate X); try (left; reflexivity).
          - destruct (Z.eq_dec code 0); [left; assumption|right; assumption].
          - destruct (a_ok pre k0); [left; reflexivity|right; intros X; discriminate]. }
        destruct D as [D|D]; [|eapply G3; eassumption].
        destruct (M3 s c k0 e0 Ec ltac:(congruence) Ek0 Hf0 D) as [X|X];
          [left; rewrite Ex; apply in_or_app; left; exact X|right; apply started_mono, X].
      * eapply G3; try eassumption. intros X. destruct (LT _ Hs) as [Y|[c0 Y]]; [|discriminate Y].
        subst l. pose proof (label_status st pre _ _ st' O E) as LS. cbn in LS. apply tstat_fresh in LS.
        pose proof (obM _ _ O k0 (epc e0)) as OM. unfold xM in OM. rewrite nth_error_map, Ek0 in OM. specialize (OM eq_refl).
        unfold tstat in OM. rewrite (proj1 LS), (proj2 LS) in OM. destruct (epc e0); cbn in OM, X; try discriminate; contradiction.
    + rewrite nth_error_upd_neq in Ek by congruence. rewrite (OK k N) in Hl.
      destruct (M3 s c k e Ec ltac:(congruence) Ek (FR _ _ N Hf) Hl) as [X|X];
        [left; rewrite Ex; apply in_or_app; left; exact X|right; apply started_mono, X].
Qed.

(* Subscribe(s) returned and Close(s) not started, read off the trace *)
Lemma fresh_sub_pcs : forall st pre s c k, TrOK st pre -> nth_error (subs st) s = Some c -> a_fresh pre s k = true ->
  o_started pre (TClose s) = false -> spc c = SDone /\ cpc c = K0.
Proof.
  intros st pre s c k [O TS TC] Ec Hf Hc. destruct (fresh_returned _ _ _ Hf) as [R _]. split.
  - pose proof (obS _ _ O s (spc c)) as N. unfold xS in N. rewrite nth_error_map, Ec in N. specialize (N eq_refl).
    unfold tstat in N. rewrite R in N. destruct (spc c); cbn in N; try discriminate. reflexivity.
  - pose proof (obC _ _ O s (cpc c)) as N. unfold xC in N. rewrite nth_error_map, Ec in N. specialize (N eq_refl).
    unfold tstat in N. rewrite Hc in N. destruct (o_returned pre (TClose s)) eqn:X; [rewrite (TS _ X) in Hc; discriminate|].
    destruct (cpc c); cbn in N; try discriminate. reflexivity.
Qed.

(* at the closed-check of an Emit on an open emitter every returned, unclosed subscription
   of the type is in the sink list of the emitter's node *)
Lemma echk_listed : forall st pre s c tys k e m, TrOK st pre -> Valid st -> TY st -> RegA st -> LB st -> B1 st -> Forall em_ok (emitters st) ->
  nth_error (subs st) s = Some c -> styps c = Some tys -> nth_error (emits st) k = Some e -> epc e = EChk ->
  nth_error (emitters st) (eem e) = Some m -> mclosed m = false -> In (mty m) tys -> a_fresh pre s k = true -> o_started pre (TClose s) = false ->
  exists nd, nth_error (nodes st) (mnode m) = Some nd /\ In s (sinks nd).
Proof.
  intros st pre s c tys k e m T V TYs R L B EO Ec Et Ek Ep Em Hcl Hty Hf Hc.
  destruct (fresh_sub_pcs _ _ _ _ _ T Ec Hf Hc) as [Sp Kp].
  destruct V as [V1 [V2 [V3 _]]]. destruct TYs as [T1 [_ [_ [T4 _]]]].
  assert (M4 : mnew m = 4%nat) by (apply (V3 k e m Ek); [congruence|exact Em]).
  assert (Ln : (mnode m < length (nodes st))%nat) by (apply (V1 _ m Em); lia).
  destruct (nth_error (nodes st) (mnode m)) as [nd0|] eqn:En0; [|apply nth_error_None in En0; lia].
  pose proof (T1 _ m nd0 Em ltac:(lia) En0) as Ty0.
  (* the emitter's node is registered *)
  assert (Reg0 : nth_error (bmap st) (mty m) = Some (Some (mnode m))).
  { rewrite <- Ty0. eapply (ra1 _ _ _ R (mnode m) (nty nd0) (nem nd0) (sinks nd0) (npend nd0)); [unfold vA; rewrite nth_error_map, En0; reflexivity|].
    left. pose proof (ra2 _ _ _ R (mnode m) (nty nd0) (nem nd0) (sinks nd0) (npend nd0)) as X. unfold vA in X. rewrite nth_error_map, En0 in X. specialize (X eq_refl).
    assert (Y : (cntf (openb (mnode m)) (wE st) >= 1)%nat).
    { eapply (cntf_pos (openb (mnode m)) (wE st) (eem e) (mnew m, mnode m, mcl m)); [unfold wE; rewrite nth_error_map, Em; reflexivity|].
      unfold openb. rewrite M4, Nat.eqb_refl. cbn. destruct (Forall_nth_error _ _ _ _ EO Em Hcl) as [-> | ->]; reflexivity. }
    lia. }
  (* the subscription's node for the type *)
  apply In_nth_error in Hty. destruct Hty as [i Hi].
  pose proof (B s c tys Ec Et (or_intror Sp)) as Len.
  assert (Li : (i < length (snodes c))%nat) by (rewrite Len; apply nth_error_Some; congruence).
  destruct (nth_error (snodes c) i) as [n'|] eqn:Esn; [|apply nth_error_None in Esn; lia].
  assert (Ln' : (n' < length (nodes st))%nat) by (apply (V2 s c n' Ec), (nth_error_In _ _ Esn)).
  destruct (nth_error (nodes st) n') as [nd'|] eqn:En'; [|apply nth_error_None in En'; lia].
  pose proof (T4 s c i n' tys nd' Ec Esn Et En') as Ty'. rewrite Hi in Ty'. inversion Ty' as [Ty''].
  assert (Hin : In s (sinks nd')).
  { apply cnt_In. pose proof (L s c n' nd' Ec En') as X. unfold remaining in X. rewrite Kp in X.
    assert ((cnt (snodes c) n' >= 1)%nat) by (apply cnt_In, (nth_error_In _ _ Esn)). lia. }
  assert (Reg' : nth_error (bmap st) (nty nd') = Some (Some n')).
  { eapply (ra1 _ _ _ R n' (nty nd') (nem nd') (sinks nd') (npend nd')); [unfold vA; rewrite nth_error_map, En'; reflexivity|].
    right. left. intros X. rewrite X in Hin. contradiction. }
  rewrite <- Ty'' in Reg'. rewrite Reg0 in Reg'. inversion Reg'; subst n'. rewrite En0 in En'. inversion En'; subst nd'.
  exists nd0. auto.
Qed.

Lemma In_repeat_pos : forall {A} (x : A) n, (n >= 1)%nat -> In x (repeat x n).
Proof. intros A x [|n] H; [lia|left; reflexivity]. Qed.

Lemma emit_md : forall st k0 l st' pre, TrOK st pre -> Valid st -> TY st -> RegA st -> LB st -> B1 st -> RegW st -> Forall em_ok (emitters st) ->
  MD st pre -> step st (TEmit k0) = Some (l, st') -> MD st' (pre ++ olab l).
Proof.
  intros st k0 l st' pre T V TYs R L B RWs EO M E0. pose proof E0 as E. cbn [step] in E. unfold step_emit in E.
  destruct (nth_error (emits st) k0) as [e0|] eqn:Ek0; [|discriminate].
  destruct (nth_error (emitters st) (eem e0)) as [m0|] eqn:Em0; [|discriminate].
  pose proof T as [O TS TC].
  assert (NotRet : forall c, epc e0 = ERet c -> a_ok pre k0 = false).
  { intros c Hp. pose proof (obM _ _ O k0 (epc e0)) as OM. unfold xM in OM. rewrite nth_error_map, Ek0 in OM. specialize (OM eq_refl). rewrite Hp in OM. cbn in OM.
    apply tstat_started in OM. apply not_true_is_false. intros X. apply ok_returned in X. destruct OM. congruence. }
  destruct (epc e0) as [| | |n [|x r]|n|n|n [|x r]|c|] eqn:Ep; try discriminate.
  - destruct (Nat.eqb (mnew m0) 4); inversion E; subst. eapply (md_emit_gen st k0 _ _ pre e0 EChk T V M E0 Ek0); [reflexivity|discriminate|intros []|intros []].
  - inversion E; subst. clear E. destruct (mclosed m0) eqn:Hcl.
    + eapply (md_emit_gen st k0 _ _ pre e0 (ERet 1) T V M E0 Ek0); [reflexivity|discriminate|intros X; discriminate X|intros X; discriminate X].
    + eapply (md_emit_gen st k0 _ _ pre e0 ELock T V M E0 Ek0); [reflexivity| |intros []|intros []].
      intros _ s c' m tys Ec' Et Em Hty Hf Hc. rewrite olab_none in Hf, Hc. cbn in Ec'. rewrite Em0 in Em. inversion Em; subst m.
      cbn. eapply (echk_listed st pre s c' tys k0 e0 m0); eassumption.
  - (* the lock point: everybody listed is promised *)
    destruct (nth_error (nodes st) (mnode m0)) as [nd|] eqn:En; [|discriminate]. destruct (holder nd); [discriminate|]. inversion E; subst. clear E.
    eapply (md_emit_gen st k0 _ _ pre e0 _ T V M E0 Ek0); [reflexivity|discriminate| |intros X; discriminate X].
    intros _ _ s c' m tys Ec' Et Em Hty Hf. rewrite olab_none in *. rewrite Em0 in Em. inversion Em; subst m.
    cbn in Ec'. rewrite nth_error_expect in Ec'. destruct (nth_error (subs st) s) as [c|] eqn:Ec; [|discriminate]. cbn in Ec'. inversion Ec'; subst c'. cbn [expd c_expd styps] in *.
    destruct (o_started pre (TClose s)) eqn:Hc; [right; reflexivity|left].
    destruct (md1 _ _ M s c k0 e0 m0 tys Ec Et Ek0 Ep Em0 Hty Hf Hc) as [nd1 [En1 Hin]]. rewrite En in En1. inversion En1; subst nd1.
    apply in_or_app. right. apply In_repeat_pos. apply cnt_In in Hin. exact Hin.
  - destruct (nth_error (nodes st) n) as [nd|]; [|discriminate]. inversion E; subst.
    eapply (md_emit_gen st k0 _ _ pre e0 _ T V M E0 Ek0); [reflexivity|discriminate|intros _ H; exfalso; apply H; rewrite Ep; cbn; reflexivity|intros X; discriminate X].
  - apply otau_Some in E. destruct E as [E ->]. apply option_map_Some in E. destruct E as [x0 [E ->]].
    eapply (md_emit_gen st k0 _ _ pre e0 _ T V M E0 Ek0); [cbn; rewrite (proj1 (send_emits _ _ _ _ E)); reflexivity|discriminate|intros _ H; exfalso; apply H; rewrite Ep; cbn; reflexivity|intros X; discriminate X].
  - (* after the typed loop: the wildcard node is skipped only if it has no sinks *)
    inversion E; subst. clear E. destruct (Nat.eqb (nsinks (wild st)) 0) eqn:Hz.
    + eapply (md_emit_gen st k0 _ _ pre e0 _ T V M E0 Ek0); [reflexivity|discriminate|intros _ H; exfalso; apply H; rewrite Ep; cbn; reflexivity|].
      intros _ _ s c' Ec' Et Hf. rewrite olab_none in *. cbn in Ec'. right.
      destruct (o_started pre (TClose s)) eqn:Hc; [reflexivity|exfalso].
      destruct (fresh_sub_pcs _ _ _ _ _ T Ec' Hf Hc) as [Sp Kp]. apply Nat.eqb_eq in Hz.
      pose proof (rw2 _ _ _ RWs) as X. rewrite Hz in X.
      assert (Y : (cntf wlive (wv st) >= 1)%nat).
      { eapply (cntf_pos wlive (wv st) s (fW c')); [unfold wv; rewrite nth_error_map, Ec'; reflexivity|]. unfold fW, wlive. rewrite Et, Sp, Kp. reflexivity. }
      lia.
    + eapply (md_emit_gen st k0 _ _ pre e0 _ T V M E0 Ek0); [reflexivity|discriminate|intros _ H; exfalso; apply H; rewrite Ep; cbn; reflexivity|intros X; discriminate X].
  - (* the read-lock point *)
    destruct (wpend (wild st)); [discriminate|]. inversion E; subst. clear E.
    eapply (md_emit_gen st k0 _ _ pre e0 _ T V M E0 Ek0); [reflexivity|discriminate|intros _ H; exfalso; apply H; rewrite Ep; cbn; reflexivity|].
    intros _ _ s c' Ec' Et Hf. rewrite olab_none in *.
    cbn in Ec'. rewrite nth_error_expect in Ec'. destruct (nth_error (subs st) s) as [c|] eqn:Ec; [|discriminate]. cbn in Ec'. inversion Ec'; subst c'. cbn [expd c_expd styps] in *.
    destruct (o_started pre (TClose s)) eqn:Hc; [right; reflexivity|left].
    destruct (fresh_sub_pcs _ _ _ _ _ T Ec Hf Hc) as [Sp Kp].
    assert (Hin : In s (wsinks (wild st))).
    { eapply (rw1 _ _ _ RWs s (spc c) (cpc c)); [unfold wv; rewrite nth_error_map, Ec; cbn; unfold fW; rewrite Et; reflexivity|rewrite Sp; reflexivity|rewrite Kp; reflexivity]. }
    apply in_or_app. right. apply In_repeat_pos. apply cnt_In in Hin. exact Hin.
  - inversion E; subst.
    eapply (md_emit_gen st k0 _ _ pre e0 _ T V M E0 Ek0); [reflexivity|discriminate|intros _ H; exfalso; apply H; rewrite Ep; cbn; reflexivity|intros _ H; exfalso; apply H; rewrite Ep; cbn; exact Logic.I].
  - apply otau_Some in E. destruct E as [E ->]. apply option_map_Some in E. destruct E as [x0 [E ->]].
    eapply (md_emit_gen st k0 _ _ pre e0 _ T V M E0 Ek0); [cbn; rewrite (proj1 (send_emits _ _ _ _ E)); reflexivity|discriminate|intros _ H; exfalso; apply H; rewrite Ep; cbn; reflexivity|intros _ H; exfalso; apply H; rewrite Ep; cbn; exact Logic.I].
  - (* return: the code decides whether the call counts as locked *)
    inversion E; subst. clear E. pose proof (NotRet c eq_refl) as NR.
    assert (OKn : a_ok (pre ++ olab (Some (LRet (TEmit k0) c))) k0 = true -> c = 0).
    { intros X. cbn [olab] in X. unfold a_ok in X. rewrite existsb_snoc in X. fold (a_ok pre k0) in X. rewrite NR in X.
      unfold lab_is_ret_code in X. cbn [orb] in X. apply andb_true_iff in X. destruct X as [_ X]. apply Z.eqb_eq in X. auto. }
    eapply (md_emit_gen st k0 _ _ pre e0 EDone T V M E0 Ek0); [reflexivity|discriminate| |].
    + intros X H. exfalso. apply H. rewrite Ep. cbn. cbn in X. apply OKn in X. exact X.
    + intros X H. exfalso. apply H. rewrite Ep. cbn. cbn in X. apply OKn in X. exact X.
Qed.

Lemma md_init : forall st, initial st -> MD st [].
Proof. intros st H. constructor; intros; discriminate. Qed.

Lemma md_cfg : forall c s1, cfg_wf c = true -> MD (St c s1) (Tr c s1).
Proof.
  intros c s1 W. unfold St, Tr. apply (coupled_run_all MD); [apply md_init, (cfg_wf_init c W)|].
  intros s0 t l st' M E. destruct (reach_cfg c s0 W) as [G [_ [_ TV]]].
  destruct t; try (apply (fun H => md_other _ _ _ _ _ H (trok_cfg c s0 W) (gV _ G) M E); exact I).
  eapply emit_md; [apply (trok_cfg c s0 W)|apply G|apply TYV_TY, TV|apply (rega_cfg c s0 W)|apply (lb_cfg c s0 W)|apply (b1_cfg c s0 W)
                  |apply (regw_cfg c s0 W)|apply (emok_cfg c s0 W)|exact M|exact E].
Qed.

(* C15 — rule 5: no event id is delivered twice to a subscription.  Also: the channel-level
   invariant for every reachable state of a well-formed configuration. *)
From Coq Require Import List Arith ZArith Bool Lia.
From Verif Require Import lib.Wire c15.Lts c15.Model c15.Spec c15.Proofs c15.Proofs_Chan c15.Proofs_Loc c15.Proofs_List c15.Proofs_Safe
  c15.Proofs_Init c15.Proofs_Once c15.Proofs_First c15.Proofs_Wild c15.Proofs_Thm c15.Proofs_Live c15.Proofs_Pend c15.Proofs_Idx c15.Proofs_Dead c15.Proofs_Prog c15.Proofs_Valid c15.Proofs_WildOK
  c15.Proofs_Blk c15.Proofs_Obs c15.Proofs_WSI c15.Proofs_TY c15.Proofs_Rule13 c15.Proofs_Reads c15.Proofs_Wire c15.Proofs_Disc c15.Proofs_Mon c15.Proofs_MonS
  c15.Proofs_Tr c15.Proofs_Cpl c15.Proofs_RInv c15.Proofs_RCtx c15.Proofs_Prom c15.Proofs_R3 c15.Proofs_CEv c15.Proofs_ChI.
Import ListNotations.
Local Open Scope Z_scope.

(* ---- list facts -------------------------------------------------------------------- *)
Lemma NoDup_map_inv_inj : forall {A B} (f : A -> B) l x y, NoDup (map f l) -> In x l -> In y l -> f x = f y -> x = y.
Proof.
  intros A B f l. induction l as [|a l IH]; intros x y ND Hx Hy E; [contradiction|]. cbn in ND. inversion ND; subst.
  destruct Hx as [->|Hx], Hy as [->|Hy]; auto.
  - exfalso. apply H1. rewrite E. apply in_map, Hy.
  - exfalso. apply H1. rewrite <- E. apply in_map, Hx.
Qed.

Lemma NoDup_of_map : forall {A B} (f : A -> B) l, NoDup (map f l) -> NoDup l.
Proof. intros A B f l. induction l as [|a l IH]; intros H; [constructor|]. cbn in H. inversion H; subst. constructor; [intros X; apply H2, in_map, X|auto]. Qed.

Lemma NoDup_map_of_inj : forall {A B} (f : A -> B) l, NoDup l -> (forall x y, In x l -> In y l -> f x = f y -> x = y) -> NoDup (map f l).
Proof.
  intros A B f l. induction l as [|a l IH]; intros ND Inj; [constructor|]. inversion ND; subst. cbn. constructor.
  - intros X. apply in_map_iff in X. destruct X as [y [E Hy]]. assert (y = a) by (apply Inj; [right; exact Hy|left; reflexivity|exact E]). subst. contradiction.
  - apply IH; [assumption|]. intros x y Hx Hy. apply Inj; right; assumption.
Qed.

Lemma NoDup_app_l : forall {A} (a b : list A), NoDup (a ++ b) -> NoDup a.
Proof. intros A a b. induction a as [|x a IH]; intros H; [constructor|]. cbn in H. inversion H; subst. constructor; [intros X; apply H2, in_or_app; left; exact X|auto]. Qed.

Lemma nodup_of_projs : forall (h : list item), (forall n, NoDup (proj n h)) -> NoDup h.
Proof.
  induction h as [|x r IH]; intros PN; [constructor|]. constructor.
  - intros Hx. specialize (PN (fst x)). cbn in PN. rewrite Nat.eqb_refl in PN. inversion PN; subst. apply H1. apply filter_In. split; [exact Hx|apply Nat.eqb_refl].
  - apply IH. intros n. specialize (PN n). cbn in PN. destruct (Nat.eqb (fst x) n); [inversion PN; assumption|exact PN].
Qed.

Lemma nodup_ids_sub : forall (h ex : list item), (forall n, exists p, proj n h ++ p = proj n ex) -> NoDup (map snd ex) -> NoDup (map snd h).
Proof.
  intros h ex P ND.
  assert (Sub : forall x, In x h -> In x ex).
  { intros x Hx. destruct (P (fst x)) as [p Hp]. assert (In x (proj (fst x) ex)).
    { rewrite <- Hp. apply in_or_app. left. apply filter_In. split; [exact Hx|apply Nat.eqb_refl]. }
    apply filter_In in H. apply H. }
  assert (PN : forall n, NoDup (proj n h)).
  { intros n. destruct (P n) as [p Hp]. apply (NoDup_app_l _ p). rewrite Hp. apply NoDup_filter. eapply NoDup_of_map, ND. }
  apply NoDup_map_of_inj; [apply nodup_of_projs, PN|].
  intros x y Hx Hy E. eapply NoDup_map_inv_inj; [exact ND|apply Sub, Hx|apply Sub, Hy|exact E].
Qed.

(* ---- reachable states of a well-formed configuration --------------------------------- *)
Lemma init_initial : forall c, cfg_wf c = true -> initial (init_of c).
Proof. intros c W. apply (cfg_wf_init c W). Qed.

Lemma hist_ids_nodup : forall c s1 s cs, cfg_wf c = true -> nth_error (subs (St c s1)) s = Some cs -> NoDup (map snd (hist cs)).
Proof.
  intros c s1 s cs W Ec. apply (nodup_ids_sub (hist cs) (expd cs)).
  - intros n. destruct (styps cs) as [tys|] eqn:Et.
    + exists (pend (St c s1) s n). apply (exactly_once_in_order_l (init_of c) s1 s cs n (init_initial c W) Ec). congruence.
    + exists (pendw (St c s1) n s). apply (wildcard_same_rules_l (init_of c) s1 s cs n (init_initial c W) Ec Et).
  - destruct (prom_cfg c s1 W) as [_ _ U _]. apply (U s (styps cs) (expd cs)). unfold pX. rewrite nth_error_map. unfold St in Ec. unfold St. rewrite Ec. reflexivity.
Qed.

Lemma eev_nonneg : forall c s1 k e, cfg_wf c = true -> nth_error (emits (St c s1)) k = Some e -> 0 <= eev e.
Proof.
  intros c s1 k e W Ek. assert (In (eev e) (map eev (emits (St c s1)))) by (apply in_map, (nth_error_In _ _ Ek)).
  unfold St in H. rewrite ids_static in H. unfold init_of, init_state in H. cbn in H. rewrite map_map in H. cbn in H.
  apply in_map_iff in H. destruct H as [p [Ep Hp]]. unfold cfg_wf in W. apply andb_true_iff in W. destruct W as [W _]. apply andb_true_iff in W. destruct W as [_ W].
  rewrite forallb_forall in W. specialize (W p Hp). apply andb_true_iff in W. destruct W as [_ W]. unfold nonneg in W. apply Z.leb_le in W. lia.
Qed.

Lemma hist_ids_ok : forall c s1 s cs it, cfg_wf c = true -> nth_error (subs (St c s1)) s = Some cs -> In it (hist cs) -> 0 <= snd it.
Proof.
  intros c s1 s cs [tag v] W Ec Hi. pose proof (hist_in_expd _ s1 s cs tag v (init_initial c W) Ec Hi) as Hx.
  destruct (prom_cfg c s1 W) as [T _ _ _].
  assert (Vx : nth_error (pX (St c s1)) s = Some (styps cs, expd cs)) by (unfold pX; rewrite nth_error_map; unfold St in Ec; unfold St; rewrite Ec; reflexivity).
  destruct (T s _ _ tag v Vx Hx) as [k [j [p [A _]]]]. unfold pE in A. rewrite nth_error_map in A.
  destruct (nth_error (emits (St c s1)) k) as [e|] eqn:Ek; [|discriminate]. inversion A; subst. cbn. eapply eev_nonneg; eassumption.
Qed.

Lemma bufok_cfg : forall c s1, cfg_wf c = true -> BufOK (St c s1).
Proof.
  intros c s1 W s cs it Ec Hi. destruct (prov_run _ s1 (cfg_wf_init c W)) as [_ FH]. destruct (Forall_nth_error _ _ _ _ FH Ec) as [_ [R2 _]].
  pose proof (hist_ids_ok c s1 s cs it W Ec (R2 _ Hi)). lia.
Qed.

Lemma chani_cfg : forall c s1, cfg_wf c = true -> ChanI (St c s1) (Tr c s1).
Proof.
  intros c s1 W. unfold St, Tr. apply (coupled_run_all ChanI); [apply chani_init, init_initial, W|].
  intros s0 t l st' H E. eapply chani_step; [exact H|apply (bufok_cfg c s0 W)|exact E].
Qed.

Lemma recv_ids_nodup : forall c s1 s cs, cfg_wf c = true -> nth_error (subs (St c s1)) s = Some cs -> NoDup (map snd (recv cs ++ buf cs)).
Proof.
  intros c s1 s cs W Ec. destruct (chani_cfg c s1 W s cs Ec) as [[taken [Hh Hs]] _ _ _].
  eapply subseq_nodup; [|eapply hist_ids_nodup; eassumption]. rewrite Hh. apply subseq_map. apply subseq_app; [exact Hs|apply subseq_refl].
Qed.

Lemma rule5_ok : read_rule_ok 5.
Proof.
  intros c s1 t s v st' W D E Hv. destruct (read_step_inv _ _ _ _ _ E) as [cs [r [Ec [Eh _]]]]. fold (St c s1) in Ec.
  destruct (hand_witness c s1 s cs v W Ec ltac:(rewrite Eh; left; reflexivity) Hv) as [tag [k [e [_ [_ [_ [Ek [Ev [F L]]]]]]]]].
  eapply read_not; [exact F|]. do 4 right. left. split; [reflexivity|]. unfold c5, a_read, a_reads. fold (Tr c s1).
  apply not_true_is_false. intros X. apply existsb_exists in X. destruct X as [v' [Hin Ev']]. apply Z.eqb_eq in Ev'. subst v'.
  destruct (chani_cfg c s1 W s cs Ec) as [_ RD _ _]. unfold cw in RD. cbv beta iota in RD. rewrite Eh in RD.
  pose proof (recv_ids_nodup c s1 s cs W Ec) as ND. rewrite map_app in ND. apply NoDup_app_l in ND.
  assert (ND' : NoDup (filter nm2 (reads_d (Tr c s1) s ++ v :: r))) by (rewrite RD; exact ND). clear ND. rename ND' into ND.
  rewrite filter_app in ND. cbn in ND. assert (N : nm2 v = true) by (unfold nm2; apply negb_true_iff, Z.eqb_neq, Hv). rewrite N in ND.
  apply NoDup_remove_2 in ND. apply ND. apply in_or_app. left. apply filter_In. split; [exact Hin|exact N].
Qed.

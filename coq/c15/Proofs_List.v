(* C15 — list lemmas: functional update, swap-removal, counting. *)
From Coq Require Import List Arith Bool Lia.
From Verif Require Import c15.Model.
Import ListNotations.

Lemma nth_error_upd_eq : forall {A} (l : list A) i x y, nth_error l i = Some y -> nth_error (upd l i x) i = Some x.
Proof. induction l as [|a l IH]; intros [|i] x y H; cbn in *; try discriminate; [reflexivity|eapply IH, H]. Qed.

Lemma nth_error_upd_neq : forall {A} (l : list A) i j x, i <> j -> nth_error (upd l i x) j = nth_error l j.
Proof. induction l as [|a l IH]; intros [|i] [|j] x H; cbn; try reflexivity; try congruence. apply IH. congruence. Qed.

Lemma nth_error_upd_inv : forall {A} (l : list A) i j x z, nth_error (upd l i x) j = Some z ->
  (j = i /\ z = x /\ exists y, nth_error l i = Some y) \/ (j <> i /\ nth_error l j = Some z).
Proof.
  intros A l i j x z H. destruct (Nat.eq_dec j i) as [->|N].
  - left. destruct (nth_error l i) as [y|] eqn:E.
    + rewrite (nth_error_upd_eq l i x y E) in H. inversion H. repeat split; eauto.
    + exfalso. revert i H E. induction l as [|a l IH]; intros [|i] H E; cbn in *; try discriminate. eapply IH; eassumption.
  - right. split; [exact N|]. rewrite nth_error_upd_neq in H by congruence. exact H.
Qed.

Lemma upd_length : forall {A} (l : list A) i x, length (upd l i x) = length l.
Proof. induction l as [|a l IH]; intros [|i] x; cbn; auto. Qed.

Lemma nth_error_app_old : forall {A} (l : list A) x i y, nth_error l i = Some y -> nth_error (l ++ [x]) i = Some y.
Proof. intros. rewrite nth_error_app1; [assumption|]. apply nth_error_Some. congruence. Qed.

Lemma nth_error_app_inv : forall {A} (l : list A) x i y, nth_error (l ++ [x]) i = Some y ->
  nth_error l i = Some y \/ (i = length l /\ y = x).
Proof.
  intros A l x i y H. destruct (Nat.lt_ge_cases i (length l)) as [L|G].
  - left. rewrite nth_error_app1 in H; assumption.
  - right. rewrite nth_error_app2 in H by assumption. destruct (i - length l) as [|k] eqn:E.
    + cbn in H. inversion H. split; [lia|reflexivity].
    + cbn in H. destruct k; discriminate.
Qed.

Definition cnt (l : list nat) (x : nat) : nat := count_occ Nat.eq_dec l x.

Lemma cnt_app : forall a b x, cnt (a ++ b) x = cnt a x + cnt b x.
Proof. intros. unfold cnt. apply count_occ_app. Qed.

Lemma cnt_In : forall l x, In x l <-> cnt l x >= 1.
Proof. intros. unfold cnt. rewrite (count_occ_In Nat.eq_dec). lia. Qed.

Lemma cnt_last_removelast : forall r x, r <> [] -> cnt (List.last r 0 :: removelast r) x = cnt r x.
Proof.
  intros r x H. rewrite (app_removelast_last 0 H) at 3. rewrite cnt_app.
  unfold cnt. cbn. destruct (Nat.eq_dec (List.last r 0) x); lia.
Qed.

Lemma cnt_remove_swap_same : forall l s, cnt (remove_swap s l) s = pred (cnt l s).
Proof.
  induction l as [|x r IH]; intros s; [reflexivity|]. cbn [remove_swap].
  destruct (Nat.eqb x s) eqn:E.
  - apply Nat.eqb_eq in E. subst x. destruct r as [|y r'].
    + unfold cnt. cbn. destruct (Nat.eq_dec s s); [reflexivity|congruence].
    + rewrite cnt_last_removelast by discriminate. unfold cnt. cbn [count_occ].
      destruct (Nat.eq_dec s s); [reflexivity|congruence].
  - apply Nat.eqb_neq in E. unfold cnt in *. cbn [count_occ]. destruct (Nat.eq_dec x s); [congruence|]. apply IH.
Qed.

Lemma cnt_remove_swap_other : forall l s x, x <> s -> cnt (remove_swap s l) x = cnt l x.
Proof.
  induction l as [|y r IH]; intros s x N; [reflexivity|]. cbn [remove_swap].
  destruct (Nat.eqb y s) eqn:E.
  - apply Nat.eqb_eq in E. subst y. destruct r as [|z r'].
    + unfold cnt. cbn. destruct (Nat.eq_dec s x); [congruence|reflexivity].
    + rewrite cnt_last_removelast by discriminate. unfold cnt. cbn [count_occ].
      destruct (Nat.eq_dec s x); [congruence|reflexivity].
  - unfold cnt in *. cbn [count_occ]. destruct (Nat.eq_dec y x); [f_equal|]; apply IH; assumption.
Qed.

Lemma In_remove_swap : forall l s x, In x (remove_swap s l) -> In x l.
Proof.
  intros l s x H. apply cnt_In in H. apply cnt_In. destruct (Nat.eq_dec x s) as [->|N].
  - rewrite cnt_remove_swap_same in H. lia.
  - rewrite cnt_remove_swap_other in H; assumption.
Qed.

Lemma cnt_skipn_S : forall l j n, nth_error l j = Some n -> forall x, cnt (skipn j l) x = (if Nat.eq_dec n x then 1 else 0) + cnt (skipn (S j) l) x.
Proof.
  induction l as [|a l IH]; intros [|j] n H x; cbn in H; try discriminate.
  - inversion H; subst. unfold cnt. cbn. destruct (Nat.eq_dec n x); reflexivity.
  - cbn [skipn]. apply IH. exact H.
Qed.

Lemma skipn_all_nil : forall {A} (l : list A) j, length l <= j -> skipn j l = [].
Proof. intros. apply skipn_all2. assumption. Qed.

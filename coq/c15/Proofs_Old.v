(* C15 — rule 6: an event whose Emit returned before Subscribe started reaches the subscription
   only as the retained event of a stateful type, first of its type, and it is the last
   such event. *)
From Coq Require Import List Arith ZArith Bool Lia.
From Verif Require Import lib.Wire c15.Lts c15.Model c15.Spec c15.Proofs c15.Proofs_Chan c15.Proofs_Loc c15.Proofs_List c15.Proofs_Safe
  c15.Proofs_Init c15.Proofs_Once c15.Proofs_First c15.Proofs_Wild c15.Proofs_Thm c15.Proofs_Grow c15.Proofs_Live c15.Proofs_Pend c15.Proofs_Idx c15.Proofs_Dead c15.Proofs_Prog c15.Proofs_Valid c15.Proofs_WildOK
  c15.Proofs_Blk c15.Proofs_Obs c15.Proofs_Loc3 c15.Proofs_WSI c15.Proofs_TY c15.Proofs_Rule13 c15.Proofs_Reads c15.Proofs_Wire c15.Proofs_Disc c15.Proofs_Mon c15.Proofs_MonS
  c15.Proofs_Tr c15.Proofs_Cpl c15.Proofs_RInv c15.Proofs_RCtx c15.Proofs_Prom c15.Proofs_R3 c15.Proofs_CEv c15.Proofs_ChI c15.Proofs_R5 c15.Proofs_Loc4 c15.Proofs_R4
  c15.Proofs_RegA c15.Proofs_RegB c15.Proofs_RegW c15.Proofs_RegRun c15.Proofs_MD c15.Proofs_RF c15.Proofs_R9 c15.Proofs_R7 c15.Proofs_NodeEv c15.Proofs_Keep c15.Proofs_EmitPc c15.Proofs_Last.
Import ListNotations.
Local Open Scope Z_scope.

(* the three steps that promise something *)
Inductive expd_ev (st : state) (t : thr) (l : option label) (s : nat) (c c' : sub) : Prop :=
| xe_same : expd c' = expd c -> expd_ev st t l s c c'
| xe_lock k e m nd : t = TEmit k -> nth_error (emits st) k = Some e -> epc e = ELock -> nth_error (emitters st) (eem e) = Some m ->
    nth_error (nodes st) (mnode m) = Some nd -> holder nd = None -> l = None ->
    expd c' = expd c ++ repeat (mnode m, eev e) (cnt (sinks nd) s) -> expd_ev st t l s c c'
| xe_rlock k e n : t = TEmit k -> nth_error (emits st) k = Some e -> epc e = ERLock n -> l = None ->
    expd c' = expd c ++ repeat (k, eev e) (cnt (wsinks (wild st)) s) -> expd_ev st t l s c c'
| xe_sapp i n nd lv : t = TSub s -> spc c = SApp i n -> nth_error (nodes st) n = Some nd -> holder nd = None -> keep nd = true -> nlast nd = Some lv -> l = None ->
    expd c' = expd c ++ [(n, lv)] -> expd_ev st t l s c c'.

Lemma expd_same_views : forall st st' s c', pX st' = pX st -> nth_error (subs st') s = Some c' ->
  exists c, nth_error (subs st) s = Some c /\ expd c' = expd c.
Proof.
  intros st st' s c' H Ec'. assert (X : nth_error (pX st') s = Some (styps c', expd c')) by (unfold pX; rewrite nth_error_map, Ec'; reflexivity).
  rewrite H in X. unfold pX in X. rewrite nth_error_map in X. destruct (nth_error (subs st) s) as [c|]; [|discriminate]. exists c. inversion X. auto.
Qed.

Lemma expd_step : forall st t l st' s c', step st t = Some (l, st') -> nth_error (subs st') s = Some c' ->
  exists c, nth_error (subs st) s = Some c /\ expd_ev st t l s c c'.
Proof.
  intros st t l st' s c' E Ec'.
  assert (F : pX st' = pX st -> exists c, nth_error (subs st) s = Some c /\ expd_ev st t l s c c').
  { intros H. destruct (expd_same_views _ _ _ _ H Ec') as [c [Ec Hx]]. exists c. split; [exact Ec|apply xe_same, Hx]. }
  destruct t; try (apply F; eapply other_ps; [|exact E]; exact I); cbn [step] in E.
  - (* Emit *)
    unfold step_emit in E. destruct (nth_error (emits st) k) as [e|] eqn:Ek; [|discriminate].
    destruct (nth_error (emitters st) (eem e)) as [m|] eqn:Em; [|discriminate].
    destruct (epc e) as [| | |n [|x r]|n|n|n [|x r]|c0|] eqn:Ep; try discriminate;
      try solve [brute E; inversion E; subst; apply F; unfold pX; cbn; reflexivity].
    + destruct (nth_error (nodes st) (mnode m)) as [nd|] eqn:En; [|discriminate]. destruct (holder nd) eqn:Eh; [discriminate|]. inversion E; subst. clear E.
      cbn in Ec'. rewrite nth_error_expect in Ec'. destruct (nth_error (subs st) s) as [c|] eqn:Ec; [|discriminate]. cbn in Ec'. inversion Ec'; subst c'.
      exists c. split; [reflexivity|]. eapply (xe_lock _ _ _ _ _ _ k e m nd); try eassumption; reflexivity.
    + apply otau_Some in E. destruct E as [E _]. apply option_map_Some in E. destruct E as [x0 [E ->]]. apply F. destruct (send_ps _ _ _ _ E) as [X _]. exact X.
    + destruct (wpend (wild st)); [discriminate|]. inversion E; subst. clear E.
      cbn in Ec'. rewrite nth_error_expect in Ec'. destruct (nth_error (subs st) s) as [c|] eqn:Ec; [|discriminate]. cbn in Ec'. inversion Ec'; subst c'.
      exists c. split; [reflexivity|]. eapply (xe_rlock _ _ _ _ _ _ k e n); try eassumption; reflexivity.
    + apply otau_Some in E. destruct E as [E _]. apply option_map_Some in E. destruct E as [x0 [E ->]]. apply F. destruct (send_ps _ _ _ _ E) as [X _]. exact X.
  - (* Subscribe *)
    unfold step_sub in E. destruct (nth_error (subs st) s0) as [c0|] eqn:Ec0; [|discriminate].
    destruct (spc c0) eqn:Ep; try solve [brute E; inversion E; subst; apply F; unfold pX; cbn; try reflexivity; try (eapply (map_upd_same fX); [eassumption|reflexivity])].
    + destruct (styps c0) as [tys|]; [|discriminate]. destruct (nth_error tys i) as [ty|]; [|discriminate].
      destruct (with_node st ty) as [[st1 n]|] eqn:Ew; [|discriminate]. inversion E; subst. apply F. destruct (with_node_ps _ _ _ _ Ew) as [X _]. rewrite <- X.
      unfold pX. cbn. apply (map_upd_same fX _ s0 _ c0); [rewrite (with_node_subs _ _ _ _ Ew); exact Ec0|reflexivity].
    + destruct (styps c0) as [tys|]; [|discriminate]. destruct (nth_error (nodes st) n) as [nd|] eqn:En; [|discriminate]. destruct (holder nd) eqn:Eh; [discriminate|].
      inversion E; subst. clear E. cbn in Ec'. apply nth_error_upd_inv in Ec'. destruct Ec' as [[-> [-> _]]|[N Ec']]; [|exists c'; split; [exact Ec'|apply xe_same; reflexivity]].
      exists c0. split; [exact Ec0|]. destruct (keep nd) eqn:Kp; [destruct (nlast nd) as [lv|] eqn:El|]; try (apply xe_same; reflexivity).
      eapply (xe_sapp _ _ _ _ _ _ i n nd lv); try eassumption; reflexivity.
Qed.

Lemma node_keep_fwd : forall st t l st' n nd, step st t = Some (l, st') -> nth_error (nodes st) n = Some nd ->
  exists nd', nth_error (nodes st') n = Some nd' /\ (keep nd = true -> keep nd' = true) /\ nty nd' = nty nd.
Proof.
  intros st t l st' n nd E Hn. pose proof (kv_nth _ _ _ Hn) as X.
  assert (Y : exists x, nth_error (kv st') n = Some x /\ (keep nd = true -> snd (fst x) = true) /\ fst (fst x) = nty nd).
  { destruct (step_node_ev _ _ _ _ E) as [S|ty S|k e m nd0 Ht Ek Ep Em En Eh S|j m nd0 Ht Ej Em En S]; rewrite S.
    - eexists. split; [exact X|auto].
    - eexists. split; [apply nth_error_app_old; exact X|auto].
    - destruct (Nat.eq_dec (mnode m) n) as [Hq|Hq].
      + subst n. rewrite En in Hn. inversion Hn; subst nd0. eexists. split; [eapply nth_error_upd_eq; exact X|auto].
      + eexists. split; [rewrite nth_error_upd_neq by assumption; exact X|auto].
    - destruct (Nat.eq_dec (mnode m) n) as [Hq|Hq].
      + subst n. rewrite En in Hn. inversion Hn; subst nd0. eexists. split; [eapply nth_error_upd_eq; exact X|]. cbn. split; [intros ->; reflexivity|reflexivity].
      + eexists. split; [rewrite nth_error_upd_neq by assumption; exact X|auto]. }
  destruct Y as [x [Hx [Hk Ht]]]. destruct (kv_inv _ _ _ Hx) as [nd' [Hn' Y]]. exists nd'. subst x. auto.
Qed.

Lemma old_frozen : forall pre l s k, o_started pre (TSub s) = true -> a_old (pre ++ olab l) s k = a_old pre s k.
Proof.
  intros pre l s k H. destruct l as [l|]; [|cbn; rewrite app_nil_r; reflexivity]. cbn [olab]. unfold a_old. rewrite before_app.
  fold (o_started pre (TSub s)). rewrite H. reflexivity.
Qed.

Lemma old_returned : forall pre s k, a_old pre s k = true -> o_returned pre (TEmit k) = true /\ o_started pre (TSub s) = true.
Proof. intros pre s k H. apply before_true in H. exact H. Qed.

Definition old_facts (st : state) (pre : list label) (s : nat) (c : sub) (tag k : nat) (e : emit) : Prop :=
  (exists tys, styps c = Some tys) /\
  (exists rest, proj tag (expd c) = (tag, eev e) :: rest) /\
  (exists nd, nth_error (nodes st) tag = Some nd /\ keep nd = true) /\
  (forall k2 e2 m m2, nth_error (emits st) k2 = Some e2 -> nth_error (emitters st) (eem e) = Some m -> nth_error (emitters st) (eem e2) = Some m2 ->
     mty m2 = mty m -> a_ok pre k2 = true -> a_rbs pre k k2 = true -> a_old pre s k2 = true -> False).

Definition OLD (st : state) (pre : list label) : Prop :=
  forall s c tag k e, nth_error (subs st) s = Some c -> nth_error (emits st) k = Some e -> In (tag, eev e) (expd c) ->
    o_started pre (TSub s) = true /\ (a_old pre s k = true -> old_facts st pre s c tag k e).

Lemma ok_back : forall c s0 t l st' k, cfg_wf c = true -> step (St c s0) t = Some (l, st') -> o_returned (Tr c s0) (TEmit k) = true ->
  a_ok (Tr c s0 ++ olab l) k = true -> a_ok (Tr c s0) k = true.
Proof.
  intros c s0 t l st' k W E R H. destruct (trok_cfg c s0 W) as [O _ _]. destruct l as [lab|]; [|cbn in H; rewrite app_nil_r in H; exact H].
  cbn [olab] in H. unfold a_ok in H. rewrite existsb_snoc in H. apply orb_true_iff in H. destruct H as [H|H]; [exact H|exfalso].
  destruct lab as [|t0 c0| |]; try discriminate H. unfold lab_is_ret_code in H. apply andb_true_iff in H. destruct H as [H _].
  destruct t0; cbn in H; try discriminate. apply Nat.eqb_eq in H. subst k0.
  pose proof (label_status _ _ _ _ _ O E) as LS. cbn in LS. apply tstat_started in LS. fold (Tr c s0) in LS. destruct LS. congruence.
Qed.

(* the facts about an old item survive a step that at most appends promises *)
Lemma old_facts_step : forall c s0 t l st' s cs cs' tag k e e' ex, cfg_wf c = true -> step (St c s0) t = Some (l, st') ->
  nth_error (subs (St c s0)) s = Some cs -> nth_error (subs st') s = Some cs' -> expd cs' = expd cs ++ ex ->
  nth_error (emits (St c s0)) k = Some e -> nth_error (emits st') k = Some e' -> eev e = eev e' -> eem e = eem e' ->
  o_started (Tr c s0) (TSub s) = true -> old_facts (St c s0) (Tr c s0) s cs tag k e -> old_facts st' (Tr c s0 ++ olab l) s cs' tag k e'.
Proof.
  intros c s0 t l st' s cs cs' tag k e e' ex W E Ec Ec' Hx Ek Ek' Ev Em Hs [[tys O1] [[rest O2] [[nd [Hn O3]] O4]]].
  destruct (trok_cfg c s0 W) as [O TS TC]. split; [|split; [|split]].
  - exists tys. destruct (ccap_static _ _ _ _ s cs cs' E Ec Ec') as [_ X]. congruence.
  - exists (rest ++ proj tag ex). rewrite Hx, proj_app, O2, <- Ev. reflexivity.
  - destruct (node_keep_fwd _ _ _ _ _ _ E Hn) as [nd' [Hn' [Hk _]]]. exists nd'. auto.
  - intros k2 e2' m' m2' Ek2' Em' Em2' Ty Hok Hrbs Hold.
    destruct (emit_back_static _ _ _ _ _ _ E Ek2') as [e2 [Ek2 [Em2e _]]]. rewrite <- Em in Em'. rewrite <- Em2e in Em2'.
    destruct (emitter_back _ _ _ _ _ _ E Em') as [m [Hm [Ty1 _]]]. destruct (emitter_back _ _ _ _ _ _ E Em2') as [m2 [Hm2 [Ty2 _]]].
    rewrite (old_frozen _ l s k2 Hs) in Hold. destruct (old_returned _ _ _ Hold) as [R2 _].
    pose proof (ok_back c s0 t l st' k2 W E R2 Hok) as Hok0.
    assert (Hr0 : a_rbs (Tr c s0) k k2 = true).
    { destruct (rbs_step _ _ _ _ Hrbs) as [X|[_ [X _]]]; [exact X|]. rewrite (TS _ R2) in X. discriminate. }
    exact (O4 k2 e2 m m2 Ek2 Hm Hm2 ltac:(congruence) Hok0 Hr0 Hold).
Qed.

(* a subscription that is in a sink list has started its Subscribe *)
Lemma listed_started : forall c s0 s n nd, cfg_wf c = true -> nth_error (nodes (St c s0)) n = Some nd -> In s (sinks nd) -> o_started (Tr c s0) (TSub s) = true.
Proof.
  intros c s0 s n nd W En Hin. destruct (reach_cfg c s0 W) as [G _]. destruct (trok_cfg c s0 W) as [O TS _].
  apply cnt_In in Hin. pose proof (iK _ (gI _ G) n nd s En) as K. unfold rem in K. destruct (nth_error (subs (St c s0)) s) as [cs|] eqn:Ec; [|lia].
  assert (Hr : In n (remaining cs)) by (apply cnt_In; lia). apply remaining_sub_snodes in Hr.
  pose proof (iIdx _ (gI _ G) s cs Ec) as IX. unfold idx_ok in IX.
  pose proof (obS _ _ O s (spc cs)) as N. unfold xS in N. rewrite nth_error_map in N. fold (St c s0) in N. rewrite Ec in N. specialize (N eq_refl).
  unfold tstat in N. fold (Tr c s0) in N. destruct (o_returned (Tr c s0) (TSub s)) eqn:R; [apply TS, R|].
  destruct (o_started (Tr c s0) (TSub s)); [reflexivity|]. destruct (spc cs); cbn in N; try discriminate. rewrite IX in Hr. contradiction.
Qed.

Lemma sub_pc_started : forall c s0 s cs, cfg_wf c = true -> nth_error (subs (St c s0)) s = Some cs -> spc cs <> S0 -> o_started (Tr c s0) (TSub s) = true.
Proof.
  intros c s0 s cs W Ec Hp. destruct (trok_cfg c s0 W) as [O TS _].
  pose proof (obS _ _ O s (spc cs)) as N. unfold xS in N. rewrite nth_error_map in N. fold (St c s0) in N. rewrite Ec in N. specialize (N eq_refl).
  unfold tstat in N. fold (Tr c s0) in N. destruct (o_returned (Tr c s0) (TSub s)) eqn:R; [apply TS, R|].
  destruct (o_started (Tr c s0) (TSub s)); [reflexivity|]. destruct (spc cs); cbn in N; try discriminate. contradiction.
Qed.

Lemma emit_not_returned : forall c s0 k e, cfg_wf c = true -> nth_error (emits (St c s0)) k = Some e -> (epc e = ELock \/ exists n, epc e = ERLock n) ->
  o_returned (Tr c s0) (TEmit k) = false.
Proof.
  intros c s0 k e W Ek Hp. destruct (trok_cfg c s0 W) as [O _ _].
  pose proof (obM _ _ O k (epc e)) as OM. unfold xM in OM. rewrite nth_error_map in OM. fold (St c s0) in OM. rewrite Ek in OM. specialize (OM eq_refl).
  destruct Hp as [Hp|[n Hp]]; rewrite Hp in OM; cbn in OM; apply tstat_started in OM; apply OM.
Qed.

Lemma old_step_cfg : forall c s0 t l st', cfg_wf c = true -> OLD (St c s0) (Tr c s0) -> step (St c s0) t = Some (l, st') -> OLD st' (Tr c s0 ++ olab l).
Proof.
  intros c s0 t l st' W H E s cs' tag k e' Ec' Ek' Hin.
  destruct (reach_cfg c s0 W) as [G [_ [WS TV]]]. destruct (trok_cfg c s0 W) as [O TS TC].
  destruct (expd_step _ _ _ _ _ _ E Ec') as [cs [Ec Ev]]. destruct (emit_back_static _ _ _ _ _ _ E Ek') as [e [Ek [Eem Eev]]]. rewrite <- Eev in Hin.
  (* an item that was promised before the step *)
  assert (OLDI : forall ex, expd cs' = expd cs ++ ex -> In (tag, eev e) (expd cs) ->
            o_started (Tr c s0 ++ olab l) (TSub s) = true /\ (a_old (Tr c s0 ++ olab l) s k = true -> old_facts st' (Tr c s0 ++ olab l) s cs' tag k e')).
  { intros ex Hx Hi. destruct (H s cs tag k e Ec Ek Hi) as [Hs Hf]. split; [apply started_mono, Hs|].
    intros Ho. rewrite (old_frozen _ l s k Hs) in Ho. eapply old_facts_step; try eassumption. apply Hf, Ho. }
  destruct Ev as [Hx|kl el ml nd Tl Ekl Epl Eml En Hh Hl Hx|kl el n Tl Ekl Epl Hl Hx|i n nd lv Tl Ep En Hh Kp El Hl Hx].
  - apply (OLDI []); [rewrite app_nil_r; exact Hx|rewrite <- Hx; exact Hin].
  - rewrite Hx in Hin. apply in_app_or in Hin. destruct Hin as [Hin|Hin]; [apply (OLDI _ Hx Hin)|].
    apply repeat_spec in Hin as Hi2. injection Hi2 as Ht Hv. subst l. rewrite olab_none.
    assert (Hkl : kl = k) by (eapply (Proofs_RCtx.ids_unique c s0); eauto). rewrite Hkl in *.
    assert (Hs : In s (sinks nd)). { apply cnt_In. destruct (cnt (sinks nd) s); [contradiction|lia]. }
    split; [eapply listed_started; eassumption|]. intros Ho. destruct (old_returned _ _ _ Ho) as [R _].
    rewrite (emit_not_returned c s0 k el W Ekl (or_introl Epl)) in R. discriminate.
  - rewrite Hx in Hin. apply in_app_or in Hin. destruct Hin as [Hin|Hin]; [apply (OLDI _ Hx Hin)|].
    apply repeat_spec in Hin as Hi2. injection Hi2 as Ht Hv. subst l. rewrite olab_none.
    assert (Hkl : kl = k) by (eapply (Proofs_RCtx.ids_unique c s0); eauto). rewrite Hkl in *.
    assert (Hs : In s (wsinks (wild (St c s0)))). { apply cnt_In. destruct (cnt (wsinks (wild (St c s0))) s); [contradiction|lia]. }
    split.
    + destruct WS as [WA _]. destruct (WA s Hs) as [p [q [Hp [_ [Sp _]]]]]. unfold xS in Hp. rewrite nth_error_map, Ec in Hp. inversion Hp; subst p.
      eapply sub_pc_started; [exact W|exact Ec|]. intros X. rewrite X in Sp. discriminate.
    + intros Ho. destruct (old_returned _ _ _ Ho) as [R _]. rewrite (emit_not_returned c s0 k el W Ekl (or_intror (ex_intro _ n Epl))) in R. discriminate.
  - rewrite Hx in Hin. apply in_app_or in Hin. destruct Hin as [Hin|[Hin|[]]]; [apply (OLDI _ Hx Hin)|]. inversion Hin as [[Ht Hv]]. subst tag l. rewrite olab_none.
    assert (Hs : o_started (Tr c s0) (TSub s) = true) by (eapply sub_pc_started; [exact W|exact Ec|congruence]).
    split; [exact Hs|]. intros Ho.
    destruct (gV _ G) as [V1 [V2 [V3 [_ V5]]]]. pose proof (TYV_TY _ TV) as TYs.
    assert (Ln : (n < length (nodes (St c s0)))%nat) by (apply nth_error_Some; congruence).
    assert (Tys : exists tys, styps cs = Some tys).
    { destruct (styps cs) as [tys|] eqn:Et; [eauto|]. exfalso. apply (V5 s cs Ec); [right; eauto|exact Et]. }
    destruct Tys as [tys Et].
    split; [|split; [|split]].
    + exists tys. destruct (ccap_static _ _ _ _ s cs cs' E Ec Ec') as [_ X]. congruence.
    + exists []. rewrite Hx, proj_app.
      pose proof (sapp_fresh _ s cs i n tys (gI _ G) TYs (gV _ G) Ec Ep Et Ln) as NF.
      pose proof (Forall_nth_error _ _ _ _ (proj2 (full1_run (init_of c) s0 (init_initial c W))) Ec ltac:(congruence) n NF) as Z. fold (St c s0) in Z.
      rewrite Z. cbn. rewrite Nat.eqb_refl. rewrite <- Eev, Hv. reflexivity.
    + destruct (node_keep_fwd _ _ _ _ _ _ E En) as [nd' [Hn' [Hk _]]]. exists nd'. auto.
    + intros k2 e2' m' m2' Ek2' Em' Em2' Ty Hok Hrbs Hold.
      destruct (emit_back_static _ _ _ _ _ _ E Ek2') as [e2 [Ek2 [Em2e _]]]. rewrite <- Eem in Em'. rewrite <- Em2e in Em2'.
      destruct (emitter_back _ _ _ _ _ _ E Em') as [m [Hm [Ty1 _]]]. destruct (emitter_back _ _ _ _ _ _ E Em2') as [m2 [Hm2 [Ty2 _]]].
      (* the Emit whose event is retained locked this node *)
      destruct (prom_cfg c s0 W) as [_ PN _ _].
      assert (Vl : nth_error (pL (St c s0)) n = Some (Some lv)) by (unfold pL; rewrite nth_error_map, En; cbn; rewrite El; reflexivity).
      destruct (PN n lv Vl) as [k1 [j1 [p1 [A [B Cj]]]]]. unfold pE in A. rewrite nth_error_map in A.
      destruct (nth_error (emits (St c s0)) k1) as [e1|] eqn:Ek1; [|discriminate]. inversion A as [[A1 A2 A3]].
      assert (k1 = k) by (eapply (Proofs_RCtx.ids_unique c s0); eauto; congruence). subst k1. rewrite Ek in Ek1. inversion Ek1; subst e1.
      unfold vE in Cj. rewrite nth_error_map, <- A1 in Cj. rewrite Hm in Cj. cbn in Cj. inversion Cj as [[M4 Mn]].
      (* the node is registered, with the emitter's type *)
      destruct TYs as [T1 _]. pose proof (T1 _ m nd Hm ltac:(lia) ltac:(rewrite Mn; exact En)) as Tyn.
      assert (Reg : nth_error (bmap (St c s0)) (mty m) = Some (Some (mnode m))).
      { rewrite <- Tyn, Mn. eapply (ra1 _ _ _ (rega_cfg c s0 W) n (nty nd) (nem nd) (sinks nd) (npend nd)); [unfold vA; rewrite nth_error_map, En; reflexivity|].
        right. right. eapply npend_pos_sub; [apply G|exact Ec|exact Ep|exact En]. }
      pose proof (ok_done c s0 k2 e2 W Ek2 Hok) as Ed2.
      assert (L2 : lk_pc false (epc e2) (a_ok (Tr c s0) k2)) by (rewrite Ed2; exact Hok).
      pose proof (sn1 _ _ (sn_cfg c s0 W) k k2 e e2 m m2 Ek Ek2 Hm Hm2 ltac:(congruence) Hrbs (or_intror L2) Reg) as Hq.
      pose proof (nl1 _ _ (nl_cfg c s0 W) n nd k e k2 e2 m2 En ltac:(congruence) Ek Ek2 Hm2 ltac:(congruence) L2) as X. congruence.
Qed.

Lemma old_cfg : forall c s1, cfg_wf c = true -> OLD (St c s1) (Tr c s1).
Proof.
  intros c s1 W. unfold St, Tr. apply (coupled_run_all OLD).
  - intros s cs tag k e Ec _ Hin. destruct (cfg_wf_init c W) as [[[_ [_ [_ [_ [Hs _]]]]] _] _]. rewrite (Forall_nth_error _ _ _ _ Hs Ec) in Hin. contradiction.
  - intros s0 t l st' H E. eapply old_step_cfg; eassumption.
Qed.


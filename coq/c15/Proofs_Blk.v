(* C15 — towards "the monitor accepts every model trace": the no-deadlock clause
   (rule 13).  Part 1: stall analysis.  In a quiescent state every wait chain
   ends at a sender stalled on a full open channel; this file extracts WHICH
   channel, so that the blocked operation can be related to it by type. *)
From Coq Require Import List Arith ZArith Bool Lia.
From Verif Require Import c15.Lts c15.Model c15.Spec c15.Proofs_Chan c15.Proofs_Loc c15.Proofs_List c15.Proofs_Safe
  c15.Proofs_Init c15.Proofs_Live c15.Proofs_Pend c15.Proofs_Idx c15.Proofs_Dead c15.Proofs_Prog c15.Proofs_Valid c15.Proofs_WildOK
  c15.Proofs_Once c15.Proofs_First.
Import ListNotations.

(* x's channel is open and full *)
Definition full_open (st : state) (x : nat) : Prop :=
  exists c, nth_error (subs st) x = Some c /\ closed c = false /\ room c = false.

Lemma send_or_full : forall st x it c, nth_error (subs st) x = Some c -> closed c = false ->
  (exists st1, send st x it = Some st1) \/ full_open st x.
Proof.
  intros st x it c Ec Hc. destruct (room c) eqn:Hr.
  - left. unfold send. rewrite Ec, Hc, Hr. eauto.
  - right. exists c. auto.
Qed.

(* a thread inside node n's region: it can move, or it is stalled on a full open sink of n *)
Lemma region_stall : forall st n t, Good st -> in_region st n t ->
  some_progress st \/ exists nd x, nth_error (nodes st) n = Some nd /\ In x (sinks nd) /\ full_open st x.
Proof.
  intros st n t G R. destruct G as [HL I _ HE _ _ _ _]. destruct t; cbn in R; try contradiction.
  - destruct R as [e [todo [Ek Ep]]]. destruct (iL st I k e n todo Ek Ep) as [nd [En [Hh Hs]]].
    assert (X : eem e < length (emitters st)) by (apply (HE k e Ek); rewrite Ep; discriminate).
    destruct (nth_error (emitters st) (eem e)) as [m|] eqn:Eme; [|apply nth_error_None in Eme; lia].
    destruct todo as [|x r].
    + left. exists (TEmit k). apply enabled_tau_progress. cbn. unfold step_emit. rewrite Ek, Eme, Ep, En. unfold tau. eauto.
    + destruct (listed_open st n nd x HL I En (Hs x (or_introl eq_refl))) as [c [Ec Hc]].
      destruct (send_or_full st x (n, eev e) c Ec Hc) as [[st1 E]|F].
      * left. exists (TEmit k). apply enabled_tau_progress. cbn. unfold step_emit. rewrite Ek, Eme, Ep, E. cbn. unfold tau. eauto.
      * right. exists nd, x. split; [exact En|]. split; [apply Hs; left; reflexivity|exact F].
  - destruct R as [c [Ec [Er Es]]]. destruct (iR st I s c i n Ec Er Es) as [nd [En [Hh Hin]]].
    destruct (keep nd) eqn:Hk; [destruct (nlast nd) as [lv|] eqn:Hl|].
    + destruct (listed_open st n nd s HL I En Hin) as [c0 [Ec0 Hc]]. rewrite Ec in Ec0. inversion Ec0; subst c0.
      destruct (send_or_full st s (n, lv) c Ec Hc) as [[st1 E]|F].
      * left. exists (TReplay s i). apply enabled_tau_progress. cbn. unfold step_replay. rewrite Ec, Er, Es, En, Hk, Hl, E. cbn. eauto.
      * right. exists nd, s. auto.
    + left. exists (TReplay s i). apply enabled_tau_progress. cbn. unfold step_replay. rewrite Ec, Er, Es, En, Hk, Hl. unfold tau. eauto.
    + left. exists (TReplay s i). apply enabled_tau_progress. cbn. unfold step_replay. rewrite Ec, Er, Es, En, Hk. unfold tau. eauto.
Qed.

Lemma node_lock_stall : forall st n nd, Good st -> nth_error (nodes st) n = Some nd ->
  holder nd = None \/ some_progress st \/ exists x, In x (sinks nd) /\ full_open st x.
Proof.
  intros st n nd G En. destruct (holder nd) as [t|] eqn:Hh; [right|left; reflexivity].
  destruct (region_stall st n t G (gN st G n nd t En Hh)) as [P|[nd' [x [En' [Hin F]]]]]; [left; exact P|right].
  rewrite En in En'. inversion En'; subst nd'. eauto.
Qed.

Definition wild_sub (st : state) (x : nat) : Prop := exists c, nth_error (subs st) x = Some c /\ styps c = None.

Lemma reader_stall : forall st k e n todo, Good st -> nth_error (emits st) k = Some e -> epc e = EWSend n todo ->
  some_progress st \/ exists x, In x todo /\ wild_sub st x /\ full_open st x.
Proof.
  intros st k e n todo G Ek Ep. destruct G as [HL I _ HE _ _ _ _].
  assert (X : eem e < length (emitters st)) by (apply (HE k e Ek); rewrite Ep; discriminate).
  destruct (nth_error (emitters st) (eem e)) as [m|] eqn:Eme; [|apply nth_error_None in Eme; lia].
  destruct todo as [|x r].
  - left. exists (TEmit k). apply enabled_tau_progress. cbn. unfold step_emit. rewrite Ek, Eme, Ep. unfold tau. eauto.
  - pose proof (iW2 st I k e n (x :: r) x Ek Ep (or_introl eq_refl)) as Hw.
    destruct (wild_open st x HL Hw) as [c [Ec Hc]].
    destruct (send_or_full st x (k, eev e) c Ec Hc) as [[st1 E]|F].
    + left. exists (TEmit k). apply enabled_tau_progress. cbn. unfold step_emit. rewrite Ek, Eme, Ep, E. cbn. unfold tau. eauto.
    + right. exists x. split; [left; reflexivity|]. split; [exact Hw|exact F].
Qed.

Lemma readers_stall : forall st, Good st ->
  rdrs (wild st) = 0 \/ some_progress st \/ exists x, wild_sub st x /\ full_open st x.
Proof.
  intros st G. destruct (Nat.eq_dec (rdrs (wild st)) 0) as [Z|NZ]; [left; exact Z|right].
  destruct (gW st G) as [_ W2]. destruct W2 as [k [e [n [todo [Ek Ep]]]]]; [lia|].
  destruct (reader_stall st k e n todo G Ek Ep) as [P|[x [_ [W F]]]]; [left; exact P|right; eauto].
Qed.

Lemma wild_lock_stall : forall st, Good st ->
  wpend (wild st) = None \/ some_progress st \/ exists x, wild_sub st x /\ full_open st x.
Proof.
  intros st G. destruct (wpend (wild st)) as [t|] eqn:Hw; [right|left; reflexivity].
  destruct (gW st G) as [W1 _]. destruct (readers_stall st G) as [Z|R]; [|exact R]. left.
  destruct (W1 t Hw) as [[s [c [-> [Ec Ep]]]]|[s [c [-> [Ec Ek]]]]].
  - exists (TSub s). apply enabled_tau_progress. cbn. unfold step_sub. rewrite Ec, Ep, Z. cbn. unfold tau. eauto.
  - exists (TClose s). apply enabled_tau_progress. cbn. unfold step_close. rewrite Ec, Ek, Z. cbn. unfold tau. eauto.
Qed.

(* ---- a full open channel in a state without progress is unread and unclosed ---- *)
Definition D1 (st : state) : Prop :=
  forall s c, nth_error (subs st) s = Some c -> typed_cpc (cpc c) = true -> closed c = false -> drain c = 1.

Definition kwpc (p : close_pc) : bool := match p with KW1 | KW2 | KW3 | KW4 | KW5 => true | _ => false end.
Definition KWild (st : state) : Prop :=
  forall s c, nth_error (subs st) s = Some c -> kwpc (cpc c) = true -> styps c = None.

Definition WSI (st : state) : Prop :=
  (forall x, In x (wsinks (wild st)) -> exists c, nth_error (subs st) x = Some c /\
      (spc c = SRet \/ spc c = SDone) /\ (cpc c = K0 \/ cpc c = KW1 \/ cpc c = KW2 \/ cpc c = KW3)) /\
  (forall k e n todo x, nth_error (emits st) k = Some e -> epc e = EWSend n todo -> In x todo -> In x (wsinks (wild st))).

Definition unread_unclosed (c : sub) : Prop := spc c <> S0 /\ cpc c = K0 /\ want c = 0 /\ hand c = [].

Lemma no_reader_waiting : forall st x c, ~ some_progress st -> nth_error (subs st) x = Some c -> closed c = false ->
  room c = false -> want c = 0 /\ hand c = [] /\ draining c = false.
Proof.
  intros st x c NP Ec Hc Hr. repeat split.
  - destruct (want c) as [|w] eqn:Ew; [reflexivity|]. exfalso. apply NP. exists (TRecv x). apply enabled_tau_progress.
    cbn. unfold step_recv. rewrite Ec, Ew. destruct (buf c) eqn:Eb; [|unfold tau; eauto].
    exfalso. apply (full_has_item c Hr); [left; lia|exact Eb].
  - destruct (hand c) as [|v r] eqn:Eh; [reflexivity|]. exfalso. apply NP. exists (TRead x).
    eapply vis_progress; [cbn; unfold step_read; rewrite Ec, Eh; reflexivity|reflexivity].
  - destruct (draining c) eqn:Ed; [|reflexivity]. exfalso. apply NP. exists (TDrain x). apply enabled_tau_progress.
    cbn. unfold step_drain. rewrite Ec, Ed. destruct (buf c) eqn:Eb; [|unfold tau; eauto].
    exfalso. apply (full_has_item c Hr); [right; exact Ed|exact Eb].
Qed.

Lemma typed_root : forall st n nd x, Good st -> D1 st -> ~ some_progress st ->
  nth_error (nodes st) n = Some nd -> In x (sinks nd) -> full_open st x ->
  exists c, nth_error (subs st) x = Some c /\ unread_unclosed c.
Proof.
  intros st n nd x G HD NP En Hin [c [Ec [Hc Hr]]]. exists c. split; [exact Ec|].
  destruct (no_reader_waiting st x c NP Ec Hc Hr) as [Hw [Hh Hd]].
  pose proof (iK st (gI st G) n nd x En) as K. unfold rem in K. rewrite Ec in K.
  assert (C1 : cnt (sinks nd) x >= 1) by (apply cnt_In, Hin).
  assert (Rm : remaining c <> []) by (intros X; rewrite X in K; cbn in K; lia).
  repeat split; auto.
  - intros X. pose proof (iIdx st (gI st G) x c Ec) as Hi. unfold idx_ok in Hi. rewrite X in Hi.
    pose proof (cnt_remaining_le c n) as L. rewrite Hi in L. cbn in L. lia.
  - destruct (cpc c) eqn:Ek; try reflexivity; try (exfalso; apply Rm; unfold remaining; rewrite Ek; reflexivity);
      exfalso; (assert (D : drain c = 1) by (apply (HD x c Ec); [rewrite Ek; reflexivity|exact Hc]));
      unfold draining in Hd; rewrite D in Hd; discriminate.
Qed.

Lemma wild_root : forall st x, Good st -> WSI st -> ~ some_progress st ->
  In x (wsinks (wild st)) -> full_open st x ->
  exists c, nth_error (subs st) x = Some c /\ unread_unclosed c.
Proof.
  intros st x G [W1 _] NP Hin [c [Ec [Hc Hr]]]. exists c. split; [exact Ec|].
  destruct (no_reader_waiting st x c NP Ec Hc Hr) as [Hw [Hh Hd]].
  destruct (W1 x Hin) as [c' [Ec' [Hs Hk]]]. rewrite Ec in Ec'. inversion Ec'; subst c'.
  pose proof (Forall_nth_error _ _ _ _ (gX st G) Ec) as [_ [_ [_ Q4]]].
  repeat split; auto.
  - destruct Hs as [X|X]; rewrite X; discriminate.
  - destruct Hk as [X|[X|[X|X]]]; [exact X| | |];
      exfalso; (assert (D : drain c = 1) by (apply Q4; rewrite X; reflexivity));
      unfold draining in Hd; rewrite D in Hd; discriminate.
Qed.

(* every thread that can step is one of the enumerated threads *)
Lemma flat_mapi_In : forall {A B} (f : nat -> A -> list B) l i0 i x y,
  nth_error l i = Some x -> In y (f (i0 + i) x) -> In y (flat_mapi f i0 l).
Proof.
  intros A B f l. induction l as [|a l IH]; intros i0 [|i] x y H Hy; cbn in H; try discriminate.
  - inversion H; subst. cbn. apply in_or_app. left. rewrite Nat.add_0_r in Hy. exact Hy.
  - cbn. apply in_or_app. right. eapply (IH (S i0) i x y H). replace (S i0 + i) with (i0 + S i) by lia. exact Hy.
Qed.

Lemma thrs_complete : forall st t l st', step st t = Some (l, st') -> In t (thrs st).
Proof.
  intros st t l st' E. unfold thrs.
  assert (S1 : forall s c, nth_error (subs st) s = Some c -> forall y, In y (sub_thrs s c) -> In t [y] -> In t (flat_mapi sub_thrs 0 (subs st))).
  { intros s c Hc y Hy [<-|[]]. eapply (flat_mapi_In sub_thrs (subs st) 0 s c); [exact Hc|exact Hy]. }
  destruct t; cbn in E.
  - apply in_or_app. left. unfold step_emnew in E. destruct (nth_error (emitters st) j) eqn:Ej; [|discriminate].
    apply in_flat_map. exists j. split; [apply in_seq; split; [lia|apply nth_error_Some; congruence]|left; reflexivity].
  - apply in_or_app. left. unfold step_emclose in E. destruct (nth_error (emitters st) j) eqn:Ej; [|discriminate].
    apply in_flat_map. exists j. split; [apply in_seq; split; [lia|apply nth_error_Some; congruence]|right; left; reflexivity].
  - apply in_or_app. right. apply in_or_app. left. unfold step_emit in E. destruct (nth_error (emits st) k) eqn:Ek; [|discriminate].
    apply in_map. apply in_seq. split; [lia|apply nth_error_Some; congruence].
  - apply in_or_app. right. apply in_or_app. right. unfold step_sub in E. destruct (nth_error (subs st) s) as [c|] eqn:Ec; [|discriminate].
    eapply (S1 s c Ec (TSub s)); [left; reflexivity|left; reflexivity].
  - apply in_or_app. right. apply in_or_app. right. unfold step_replay in E. destruct (nth_error (subs st) s) as [c|] eqn:Ec; [|discriminate].
    eapply (S1 s c Ec (TReplay s i)); [|left; reflexivity]. unfold sub_thrs. apply in_or_app. right. apply in_map. apply in_seq.
    destruct (nth_error (rpend c) i) eqn:Er; [|discriminate]. split; [lia|apply nth_error_Some; congruence].
  - apply in_or_app. right. apply in_or_app. right. unfold step_close in E. destruct (nth_error (subs st) s) as [c|] eqn:Ec; [|discriminate].
    eapply (S1 s c Ec (TClose s)); [right; left; reflexivity|left; reflexivity].
  - apply in_or_app. right. apply in_or_app. right. unfold step_drain in E. destruct (nth_error (subs st) s) as [c|] eqn:Ec; [|discriminate].
    eapply (S1 s c Ec (TDrain s)); [cbn; tauto|left; reflexivity].
  - apply in_or_app. right. apply in_or_app. right. unfold step_req in E. destruct (nth_error (subs st) s) as [c|] eqn:Ec; [|discriminate].
    eapply (S1 s c Ec (TReq s)); [cbn; tauto|left; reflexivity].
  - apply in_or_app. right. apply in_or_app. right. unfold step_recv in E. destruct (nth_error (subs st) s) as [c|] eqn:Ec; [|discriminate].
    eapply (S1 s c Ec (TRecv s)); [cbn; tauto|left; reflexivity].
  - apply in_or_app. right. apply in_or_app. right. unfold step_read in E. destruct (nth_error (subs st) s) as [c|] eqn:Ec; [|discriminate].
    eapply (S1 s c Ec (TRead s)); [cbn; tauto|left; reflexivity].
Qed.

Lemma quiescent_no_progress : forall st, quiescent step thrs stim st = true -> ~ some_progress st.
Proof.
  intros st Q [t [l [st' [E Hl]]]]. unfold quiescent in Q. rewrite forallb_forall in Q.
  specialize (Q t (thrs_complete st t l st' E)). rewrite E in Q. destruct l as [lab|]; [|discriminate].
  rewrite (Hl lab eq_refl) in Q. discriminate.
Qed.

(* ---- typing: nodes, emitters and subscriptions agree on event types ------------- *)
Definition TY (st : state) : Prop :=
  (forall j m nd, nth_error (emitters st) j = Some m -> 2 <= mnew m -> nth_error (nodes st) (mnode m) = Some nd -> nty nd = mty m) /\
  (forall k e m n todo, nth_error (emits st) k = Some e -> epc e = ESend n todo -> nth_error (emitters st) (eem e) = Some m -> n = mnode m) /\
  (forall s c i n tys nd, nth_error (subs st) s = Some c -> spc c = SApp i n -> styps c = Some tys ->
      nth_error (nodes st) n = Some nd -> nth_error tys i = Some (nty nd)) /\
  (forall s c j n tys nd, nth_error (subs st) s = Some c -> nth_error (snodes c) j = Some n -> styps c = Some tys ->
      nth_error (nodes st) n = Some nd -> nth_error tys j = Some (nty nd)) /\
  (forall s c tys, nth_error (subs st) s = Some c -> styps c = Some tys -> NoDup tys).

Definition ocfg_of_state (st : state) : ocfg :=
  mkOcfg (map mty (emitters st)) (map styps (subs st)) (map eem (emits st)).

Lemma In_skipn : forall {A} (l : list A) j x, In x (skipn j l) -> In x l.
Proof. induction l as [|a l IH]; intros [|j] x H; cbn in *; auto. right. eapply IH, H. Qed.

Lemma remaining_sub_snodes : forall c n, In n (remaining c) -> In n (snodes c).
Proof. intros c n H. unfold remaining in H. destruct (cpc c); try contradiction; try exact H; eapply In_skipn; exact H. Qed.

(* a sink listed in node n subscribes (among others) to n's type *)
Lemma sink_typed : forall st n nd x, Forall sub_loc (subs st) -> Inv2 st -> TY st -> nth_error (nodes st) n = Some nd -> In x (sinks nd) ->
  exists c tys, nth_error (subs st) x = Some c /\ styps c = Some tys /\ In (nty nd) tys.
Proof.
  intros st n nd x HL I [_ [_ [_ [T4 _]]]] En Hin. apply cnt_In in Hin. pose proof (iK st I n nd x En) as K. unfold rem in K.
  destruct (nth_error (subs st) x) as [c|] eqn:Ec; [|lia].
  assert (Hr : In n (remaining c)) by (apply cnt_In; lia). apply remaining_sub_snodes in Hr.
  apply In_nth_error in Hr. destruct Hr as [j Hj]. exists c.
  destruct (styps c) as [tys|] eqn:Et.
  - exists tys. split; [reflexivity|]. split; [reflexivity|]. eapply nth_error_In. eapply (T4 x c j n tys nd); eassumption.
  - exfalso. (* a wildcard subscription is in no node: its snodes is empty *)
    destruct (Forall_nth_error _ _ _ _ HL Ec) as [_ [_ [_ P4]]]. destruct (P4 Et) as [_ [_ [X _]]].
    rewrite X in Hj. destruct j; discriminate.
Qed.

(* ---- from a stalled sink to the monitor's "root" ------------------------------- *)
Record Ctx (st : state) (tr : list label) : Prop := {
  cG : Good st; cD : D1 st; cK : KWild st; cW : WSI st; cT : TY st; cN : ~ some_progress st;
  cR : forall x c, nth_error (subs st) x = Some c -> unread_unclosed c -> styps c <> Some [] -> o_root tr x = true }.

Lemma o_typed_state : forall st x c tys ty, nth_error (subs st) x = Some c -> styps c = Some tys -> In ty tys ->
  o_typed_with (ocfg_of_state st) x ty = true.
Proof.
  intros st x c tys ty Ec Et Hin. unfold o_typed_with, ocfg_of_state. cbn. rewrite nth_error_map, Ec. cbn. rewrite Et.
  apply existsb_exists. exists ty. split; [exact Hin|apply Nat.eqb_refl].
Qed.

Lemma o_wild_state : forall st x c, nth_error (subs st) x = Some c -> styps c = None -> o_wild (ocfg_of_state st) x = true.
Proof. intros st x c Ec Et. unfold o_wild, ocfg_of_state. cbn. rewrite nth_error_map, Ec. cbn. rewrite Et. reflexivity. Qed.

Lemma In_o_subs : forall st x c, nth_error (subs st) x = Some c -> In x (o_subs (ocfg_of_state st)).
Proof.
  intros st x c Ec. unfold o_subs, ocfg_of_state. cbn. rewrite map_length. apply in_seq. split; [lia|].
  apply nth_error_Some. congruence.
Qed.

(* a full open sink of node n: a root, typed with n's type *)
Lemma typed_witness : forall st tr n nd x, Ctx st tr -> nth_error (nodes st) n = Some nd -> In x (sinks nd) -> full_open st x ->
  exists c, nth_error (subs st) x = Some c /\ unread_unclosed c /\ o_root tr x = true /\
            o_typed_with (ocfg_of_state st) x (nty nd) = true.
Proof.
  intros st tr n nd x C En Hin F. destruct (typed_root st n nd x (cG _ _ C) (cD _ _ C) (cN _ _ C) En Hin F) as [c [Ec U]].
  destruct (sink_typed st n nd x (gL st (cG _ _ C)) (gI st (cG _ _ C)) (cT _ _ C) En Hin) as [c' [tys [Ec' [Et Hty]]]].
  rewrite Ec in Ec'. inversion Ec'; subst c'.
  assert (NR : styps c <> Some []) by (rewrite Et; intros X; inversion X; subst tys; destruct Hty).
  exists c. split; [exact Ec|]. split; [exact U|]. split; [exact (cR _ _ C x c Ec U NR)|].
  eapply o_typed_state; eassumption.
Qed.

Lemma wild_witness : forall st tr x, Ctx st tr -> In x (wsinks (wild st)) -> full_open st x ->
  exists c, nth_error (subs st) x = Some c /\ unread_unclosed c /\ o_root tr x = true /\ o_wild (ocfg_of_state st) x = true.
Proof.
  intros st tr x C Hin F. destruct (wild_root st x (cG _ _ C) (cW _ _ C) (cN _ _ C) Hin F) as [c [Ec U]].
  destruct (iW1 st (gI st (cG _ _ C)) x Hin) as [c' [Ec' Hw]]. rewrite Ec in Ec'. inversion Ec'; subst c'.
  assert (NR : styps c <> Some []) by (rewrite Hw; discriminate).
  exists c. split; [exact Ec|]. split; [exact U|]. split; [exact (cR _ _ C x c Ec U NR)|].
  eapply o_wild_state; eassumption.
Qed.

(* whoever waits for node n's lock in a state without progress: a typed root of n's type *)
Lemma node_wait_witness : forall st tr n nd, Ctx st tr -> nth_error (nodes st) n = Some nd -> holder nd <> None ->
  exists x c, nth_error (subs st) x = Some c /\ unread_unclosed c /\ o_root tr x = true /\
              o_typed_with (ocfg_of_state st) x (nty nd) = true /\ In x (sinks nd).
Proof.
  intros st tr n nd C En Hh. destruct (node_lock_stall st n nd (cG _ _ C) En) as [X|[P|[x [Hin F]]]].
  - contradiction.
  - exfalso. exact (cN _ _ C P).
  - destruct (typed_witness st tr n nd x C En Hin F) as [c [A [B [D E]]]]. exists x, c. auto.
Qed.

(* whoever waits for the wildcard lock or for its readers: a wildcard root *)
Lemma wild_wait_witness : forall st tr, Ctx st tr -> (wpend (wild st) <> None \/ rdrs (wild st) <> 0) ->
  exists x c, nth_error (subs st) x = Some c /\ unread_unclosed c /\ o_root tr x = true /\ o_wild (ocfg_of_state st) x = true /\
              In x (wsinks (wild st)).
Proof.
  intros st tr C H.
  assert (S : exists k e n todo x, nth_error (emits st) k = Some e /\ epc e = EWSend n todo /\ In x todo /\ full_open st x).
  { destruct (Nat.eq_dec (rdrs (wild st)) 0) as [Z|NZ].
    - destruct H as [H|H]; [|contradiction]. exfalso. destruct (wild_lock_stall st (cG _ _ C)) as [X|[P|[x [_ _]]]]; [contradiction|exact (cN _ _ C P)|].
      (* wild_lock_stall went through readers_stall, impossible with rdrs = 0 *)
      destruct (wpend (wild st)) as [t|] eqn:Hw; [|contradiction]. destruct (gW st (cG _ _ C)) as [W1 _].
      apply (cN _ _ C). destruct (W1 t Hw) as [[s [c [-> [Ec Ep]]]]|[s [c [-> [Ec Ek]]]]].
      + exists (TSub s). apply enabled_tau_progress. cbn. unfold step_sub. rewrite Ec, Ep, Z. cbn. unfold tau. eauto.
      + exists (TClose s). apply enabled_tau_progress. cbn. unfold step_close. rewrite Ec, Ek, Z. cbn. unfold tau. eauto.
    - destruct (gW st (cG _ _ C)) as [_ W2]. destruct W2 as [k [e [n [todo [Ek Ep]]]]]; [lia|].
      destruct (reader_stall st k e n todo (cG _ _ C) Ek Ep) as [P|[x [Hx [_ F]]]]; [exfalso; exact (cN _ _ C P)|].
      exists k, e, n, todo, x. auto. }
  destruct S as [k [e [n [todo [x [Ek [Ep [Hx F]]]]]]]].
  assert (Hin : In x (wsinks (wild st))) by (destruct (cW _ _ C) as [_ W2]; eapply W2; eassumption).
  destruct (wild_witness st tr x C Hin F) as [c [A [B [D E]]]]. exists x, c. auto.
Qed.

Lemma existsb_intro : forall {A} (f : A -> bool) l x, In x l -> f x = true -> existsb f l = true.
Proof. intros. apply existsb_exists. eauto. Qed.

Lemma legit_emit : forall st tr k e, Ctx st tr -> nth_error (emits st) k = Some e -> emit_in_flight e = true ->
  o_legit (ocfg_of_state st) tr (TEmit k) = true.
Proof.
  intros st tr k e C Ek Hf. pose proof (cG _ _ C) as G. pose proof G as [HL I _ HE _ _ [V1 [_ [V3 _]]] _].
  destruct (cT _ _ C) as [T1 [T2 _]].
  assert (Hp : epc e <> E0) by (intros X; unfold emit_in_flight in Hf; rewrite X in Hf; discriminate).
  pose proof (HE k e Ek Hp) as X. destruct (nth_error (emitters st) (eem e)) as [m|] eqn:Eme; [|apply nth_error_None in Eme; lia].
  assert (M4 : mnew m = 4) by (eapply V3; eassumption).
  assert (Ety : o_emit_ty (ocfg_of_state st) k = Some (mty m)).
  { unfold o_emit_ty, o_emitter_ty, ocfg_of_state. cbn. rewrite nth_error_map, Ek. cbn. rewrite nth_error_map, Eme. reflexivity. }
  cbn [o_legit]. rewrite Ety.
  assert (NodeTy : forall nd, nth_error (nodes st) (mnode m) = Some nd -> nty nd = mty m) by (intros nd En; eapply (T1 (eem e) m nd); [exact Eme|lia|exact En]).
  assert (TypedW : forall nd, nth_error (nodes st) (mnode m) = Some nd ->
     (exists x c, nth_error (subs st) x = Some c /\ unread_unclosed c /\ o_root tr x = true /\ o_typed_with (ocfg_of_state st) x (nty nd) = true) ->
     existsb (fun s => o_root tr s && (o_typed_with (ocfg_of_state st) s (mty m) || o_wild (ocfg_of_state st) s)) (o_subs (ocfg_of_state st)) = true).
  { intros nd En [x [c [Ec [_ [R Ty]]]]]. eapply existsb_intro; [eapply In_o_subs, Ec|]. rewrite R, <- (NodeTy nd En), Ty. reflexivity. }
  assert (WildW : (exists x c, nth_error (subs st) x = Some c /\ unread_unclosed c /\ o_root tr x = true /\ o_wild (ocfg_of_state st) x = true /\ In x (wsinks (wild st))) ->
     existsb (fun s => o_root tr s && (o_typed_with (ocfg_of_state st) s (mty m) || o_wild (ocfg_of_state st) s)) (o_subs (ocfg_of_state st)) = true).
  { intros [x [c [Ec [_ [R [Wd _]]]]]]. eapply existsb_intro; [eapply In_o_subs, Ec|]. rewrite R, Wd, orb_true_r. reflexivity. }
  unfold emit_in_flight in Hf. destruct (epc e) as [| | |n todo|n|n|n todo|c|] eqn:Ep; try discriminate.
  - exfalso. apply (cN _ _ C). exists (TEmit k). apply enabled_tau_progress. cbn. unfold step_emit. rewrite Ek, Eme, Ep. unfold tau. eauto.
  - assert (Hlt : mnode m < length (nodes st)) by (apply (V1 _ _ Eme); lia).
    destruct (nth_error (nodes st) (mnode m)) as [nd|] eqn:En; [|apply nth_error_None in En; lia].
    destruct (holder nd) eqn:Hh.
    + apply (TypedW nd eq_refl). destruct (node_wait_witness st tr (mnode m) nd C En) as [x [c [A [B [D [E _]]]]]]; [congruence|]. exists x, c. auto.
    + exfalso. apply (cN _ _ C). exists (TEmit k). apply enabled_tau_progress. cbn. unfold step_emit. rewrite Ek, Eme, Ep, En, Hh. unfold tau. eauto.
  - assert (Nn : n = mnode m) by (eapply T2; eassumption). subst n.
    destruct (region_stall st (mnode m) (TEmit k) G) as [P|[nd [x [En [Hin F]]]]]; [cbn; eauto|exfalso; exact (cN _ _ C P)|].
    apply (TypedW nd En). destruct (typed_witness st tr (mnode m) nd x C En Hin F) as [c H]. exists x, c. exact H.
  - exfalso. apply (cN _ _ C). exists (TEmit k). apply enabled_tau_progress. cbn. unfold step_emit. rewrite Ek, Eme, Ep. unfold tau. eauto.
  - destruct (wpend (wild st)) eqn:Hw.
    + apply WildW. eapply wild_wait_witness; [exact C|left; congruence].
    + exfalso. apply (cN _ _ C). exists (TEmit k). apply enabled_tau_progress. cbn. unfold step_emit. rewrite Ek, Eme, Ep, Hw. unfold tau. eauto.
  - destruct (reader_stall st k e n todo G Ek Ep) as [P|[x [Hx [_ F]]]]; [exfalso; exact (cN _ _ C P)|].
    assert (Hin : In x (wsinks (wild st))) by (destruct (cW _ _ C) as [_ W2]; eapply W2; eassumption).
    apply WildW. destruct (wild_witness st tr x C Hin F) as [c [A [B [D E]]]]. exists x, c. auto.
  - exfalso. apply (cN _ _ C). exists (TEmit k). eapply vis_progress; [cbn; unfold step_emit; rewrite Ek, Eme, Ep; reflexivity|reflexivity].
Qed.

Lemma legit_emitter : forall st tr j m, Ctx st tr -> nth_error (emitters st) j = Some m ->
  (match mnew m with 1 | 2 | 3 => o_legit (ocfg_of_state st) tr (TEmNew j) = true | _ => True end) /\
  (match mcl m with C0 | C5 => True | _ => False end).
Proof.
  intros st tr j m C Ej. pose proof (cG _ _ C) as G. pose proof G as [HL I _ HE P _ [V1 [_ [_ [V4 _]]]] _].
  destruct (cT _ _ C) as [T1 _]. split.
  - destruct (mnew m) as [|[|[|[|q]]]] eqn:Em; try exact Logic.I.
    + exfalso. apply (cN _ _ C). destruct (with_node_total st (mty m) P) as [st1 [n Ew]]. exists (TEmNew j). apply enabled_tau_progress.
      cbn. unfold step_emnew. rewrite Ej, Em, Ew. unfold tau. eauto.
    + assert (Hlt : mnode m < length (nodes st)) by (apply (V1 j m Ej); lia).
      destruct (nth_error (nodes st) (mnode m)) as [nd|] eqn:En; [|apply nth_error_None in En; lia].
      destruct (holder nd) eqn:Hh.
      * cbn [o_legit]. unfold o_emitter_ty, ocfg_of_state. cbn [o_em]. rewrite nth_error_map, Ej. cbn.
        destruct (node_wait_witness st tr (mnode m) nd C En) as [x [c [Ec [_ [R [Ty _]]]]]]; [congruence|].
        eapply existsb_intro; [eapply In_o_subs, Ec|]. rewrite R. rewrite <- (T1 j m nd Ej ltac:(lia) En). exact Ty.
      * exfalso. apply (cN _ _ C). exists (TEmNew j). apply enabled_tau_progress. cbn. unfold step_emnew. rewrite Ej, Em, En, Hh. unfold tau. eauto.
    + exfalso. apply (cN _ _ C). exists (TEmNew j). eapply vis_progress; [cbn; unfold step_emnew; rewrite Ej, Em; reflexivity|reflexivity].
  - destruct (mcl m) eqn:Ec; try exact Logic.I; apply (cN _ _ C); exists (TEmClose j).
    + apply enabled_tau_progress. cbn. unfold step_emclose. rewrite Ej, Ec. unfold tau. destruct (mclosed m); eauto.
    + assert (Em : mnew m = 4) by (apply (V4 j m Ej); rewrite Ec; discriminate).
      assert (Hlt : mnode m < length (nodes st)) by (apply (V1 j m Ej); lia).
      destruct (nth_error (nodes st) (mnode m)) as [nd|] eqn:En; [|apply nth_error_None in En; lia].
      apply enabled_tau_progress. cbn. unfold step_emclose. rewrite Ej, Ec, En. unfold tau. eauto.
    + apply enabled_tau_progress. cbn. unfold step_emclose. rewrite Ej, Ec. unfold tau. eauto.
    + destruct (try_drop_total st (mty m)) as [st' Et]. apply enabled_tau_progress.
      cbn. unfold step_emclose. rewrite Ej, Ec, Et. cbn. eauto.
    + eapply vis_progress; [cbn; unfold step_emclose; rewrite Ej, Ec; reflexivity|reflexivity].
Qed.

Lemma o_sub_state : forall st s c, nth_error (subs st) s = Some c -> nth_error (o_sub (ocfg_of_state st)) s = Some (styps c).
Proof. intros st s c Ec. unfold ocfg_of_state. cbn. rewrite nth_error_map, Ec. reflexivity. Qed.

Lemma typed_legit_intro : forall st tr s0 tys x c ty, nth_error (subs st) x = Some c -> x <> s0 -> o_root tr x = true ->
  In ty tys -> o_typed_with (ocfg_of_state st) x ty = true ->
  existsb (fun s => negb (Nat.eqb s s0) && o_root tr s && existsb (o_typed_with (ocfg_of_state st) s) tys) (o_subs (ocfg_of_state st)) = true.
Proof.
  intros st tr s0 tys x c ty Ec N R Hin Ty. eapply existsb_intro; [eapply In_o_subs, Ec|].
  destruct (Nat.eqb_spec x s0); [contradiction|]. rewrite R. cbn. eapply existsb_intro; eassumption.
Qed.

Lemma wild_legit_intro : forall st tr s0 x c, nth_error (subs st) x = Some c -> x <> s0 -> o_root tr x = true ->
  o_wild (ocfg_of_state st) x = true ->
  existsb (fun s => negb (Nat.eqb s s0) && o_root tr s && o_wild (ocfg_of_state st) s) (o_subs (ocfg_of_state st)) = true.
Proof.
  intros st tr s0 x c Ec N R W. eapply existsb_intro; [eapply In_o_subs, Ec|].
  destruct (Nat.eqb_spec x s0); [contradiction|]. rewrite R, W. reflexivity.
Qed.

Lemma legit_subscribe : forall st tr s0 c0, Ctx st tr -> nth_error (subs st) s0 = Some c0 ->
  (match spc c0 with S0 | SDone => False | _ => True end) -> o_legit (ocfg_of_state st) tr (TSub s0) = true.
Proof.
  intros st tr s0 c0 C E0 Hf. pose proof (cG _ _ C) as G. pose proof G as [HL I _ HE P HX [V1 [V2 [_ [_ V6]]]] _].
  destruct (cT _ _ C) as [_ [_ [T3 [T4 T5]]]].
  pose proof (Forall_nth_error _ _ _ _ HX E0) as [X1 _]. pose proof (Forall_nth_error _ _ _ _ HL E0) as [_ [_ [P3 _]]].
  cbn [o_legit]. rewrite (o_sub_state st s0 c0 E0).
  destruct (spc c0) eqn:Ep; try contradiction.
  - (* SBus: never blocks *)
    exfalso. apply (cN _ _ C). destruct (styps c0) as [tys|] eqn:Et; [|exfalso; apply (V6 s0 c0 E0); [left; eauto|exact Et]].
    pose proof (X1 i tys eq_refl eq_refl) as Hl. destruct (nth_error tys i) as [ty|] eqn:Ety; [|apply nth_error_None in Ety; lia].
    destruct (with_node_total st ty P) as [st1 [n Ew]]. exists (TSub s0). apply enabled_tau_progress.
    cbn. unfold step_sub. rewrite E0, Ep, Et, Ety, Ew. unfold tau. eauto.
  - destruct (styps c0) as [tys|] eqn:Et; [|exfalso; apply (V6 s0 c0 E0); [right; eauto|exact Et]].
    pose proof (sapp_node_exists st s0 c0 i n P E0 Ep) as Hlt.
    destruct (nth_error (nodes st) n) as [nd|] eqn:En; [|apply nth_error_None in En; lia].
    destruct (holder nd) eqn:Hh.
    + destruct (node_wait_witness st tr n nd C En) as [x [c [Ec [U [R [Ty Hin]]]]]]; [congruence|].
      pose proof (T3 s0 c0 i n tys nd E0 Ep Et En) as Hty.
      eapply (typed_legit_intro st tr s0 tys x c (nty nd)); [exact Ec| |exact R|eapply nth_error_In, Hty|exact Ty].
      intros ->. rewrite E0 in Ec. inversion Ec; subst c.
      (* s0 would already be listed in n: n among its joined nodes, so two of its types coincide *)
      apply cnt_In in Hin. pose proof (iK st I n nd s0 En) as K. unfold rem in K. rewrite E0 in K.
      assert (Hr : In n (remaining c0)) by (apply cnt_In; lia). apply remaining_sub_snodes in Hr.
      apply In_nth_error in Hr. destruct Hr as [j Hj].
      pose proof (iIdx st I s0 c0 E0) as Hi. unfold idx_ok in Hi. rewrite Ep in Hi.
      assert (Hjl : j < i) by (rewrite <- Hi; apply nth_error_Some; congruence).
      pose proof (T4 s0 c0 j n tys nd E0 Hj Et En) as Hty2.
      pose proof (T5 s0 c0 tys E0 Et) as ND. rewrite NoDup_nth_error in ND.
      assert (j = i); [|lia]. apply ND; [apply nth_error_Some; congruence|congruence].
    + exfalso. apply (cN _ _ C). exists (TSub s0). apply enabled_tau_progress. cbn. unfold step_sub. rewrite E0, Ep, Et, En, Hh. unfold tau. eauto.
  - exfalso. apply (cN _ _ C). exists (TSub s0). apply enabled_tau_progress. cbn. unfold step_sub. rewrite E0, Ep. destruct (styps c0); unfold tau; eauto.
  - rewrite (P3 eq_refl). destruct (wpend (wild st)) eqn:Hw.
    + destruct (wild_wait_witness st tr C) as [x [c [Ec [U [R [Wd Hin]]]]]]; [left; congruence|].
      eapply (wild_legit_intro st tr s0 x c); [exact Ec| |exact R|exact Wd].
      intros ->. destruct (cW _ _ C) as [W1 _]. destruct (W1 s0 Hin) as [c' [Ec' [[X|X] _]]]; rewrite E0 in Ec'; inversion Ec'; subst c'; congruence.
    + exfalso. apply (cN _ _ C). exists (TSub s0). apply enabled_tau_progress. cbn. unfold step_sub. rewrite E0, Ep. destruct (styps c0); rewrite Hw; unfold tau; eauto.
  - rewrite (P3 eq_refl). destruct (Nat.eq_dec (rdrs (wild st)) 0) as [Z|NZ].
    + exfalso. apply (cN _ _ C). exists (TSub s0). apply enabled_tau_progress. cbn. unfold step_sub. rewrite E0, Ep. destruct (styps c0); rewrite Z; cbn; unfold tau; eauto.
    + destruct (wild_wait_witness st tr C) as [x [c [Ec [U [R [Wd Hin]]]]]]; [right; exact NZ|].
      eapply (wild_legit_intro st tr s0 x c); [exact Ec| |exact R|exact Wd].
      intros ->. destruct (cW _ _ C) as [W1 _]. destruct (W1 s0 Hin) as [c' [Ec' [[X|X] _]]]; rewrite E0 in Ec'; inversion Ec'; subst c'; congruence.
  - exfalso. apply (cN _ _ C). exists (TSub s0). eapply sret_progress; eassumption.
Qed.

Lemma legit_close : forall st tr s0 c0, Ctx st tr -> nth_error (subs st) s0 = Some c0 ->
  (match cpc c0 with K0 | KDone => False | _ => True end) -> o_legit (ocfg_of_state st) tr (TClose s0) = true.
Proof.
  intros st tr s0 c0 C E0 Hf. pose proof (cG _ _ C) as G. pose proof G as [HL I _ HE P HX [V1 [V2 _]] _].
  destruct (cT _ _ C) as [_ [_ [_ [T4 _]]]].
  pose proof (Forall_nth_error _ _ _ _ HX E0) as [_ [X2 [X3 _]]]. pose proof (Forall_nth_error _ _ _ _ HL E0) as [_ [_ [_ P4]]].
  cbn [o_legit]. rewrite (o_sub_state st s0 c0 E0).
  assert (NK : forall x c, nth_error (subs st) x = Some c -> unread_unclosed c -> cpc c0 <> K0 -> x <> s0).
  { intros x c Ec [_ [K _]] N ->. rewrite E0 in Ec. inversion Ec; subst. contradiction. }
  assert (WildCase : kwpc (cpc c0) = true -> (wpend (wild st) <> None \/ rdrs (wild st) <> 0) ->
     match styps c0 with
     | Some tys => existsb (fun s => negb (Nat.eqb s s0) && o_root tr s && existsb (o_typed_with (ocfg_of_state st) s) tys) (o_subs (ocfg_of_state st))
     | None => existsb (fun s => negb (Nat.eqb s s0) && o_root tr s && o_wild (ocfg_of_state st) s) (o_subs (ocfg_of_state st)) end = true).
  { intros Hk Hw. rewrite (cK _ _ C s0 c0 E0 Hk).
    destruct (wild_wait_witness st tr C Hw) as [x [c [Ec [U [R [Wd _]]]]]].
    eapply (wild_legit_intro st tr s0 x c); [exact Ec| |exact R|exact Wd]. eapply NK; [exact Ec|exact U|].
    intros X. rewrite X in Hk. discriminate. }
  destruct (cpc c0) eqn:Ek; try contradiction.
  - (* KRem: the node lock of one of its types *)
    pose proof (X2 i eq_refl) as Hl. destruct (nth_error (snodes c0) i) as [n|] eqn:Es; [|apply nth_error_None in Es; lia].
    pose proof (V2 s0 c0 n E0 (nth_error_In _ _ Es)) as Hlt.
    destruct (nth_error (nodes st) n) as [nd|] eqn:En; [|apply nth_error_None in En; lia].
    destruct (holder nd) eqn:Hh.
    + destruct (styps c0) as [tys|] eqn:Et; [|destruct (P4 eq_refl) as [_ [X _]]; discriminate].
      destruct (node_wait_witness st tr n nd C En) as [x [c [Ec [U [R [Ty Hin]]]]]]; [congruence|].
      eapply (typed_legit_intro st tr s0 tys x c (nty nd)); [exact Ec| |exact R| |exact Ty].
      * eapply NK; [exact Ec|exact U|discriminate].
      * eapply nth_error_In. eapply (T4 s0 c0 i n tys nd); eassumption.
    + exfalso. apply (cN _ _ C). exists (TClose s0). apply enabled_tau_progress. cbn. unfold step_close. rewrite E0, Ek, Es, En, Hh. unfold tau. eauto.
  - exfalso. apply (cN _ _ C). exists (TClose s0). apply enabled_tau_progress. cbn. unfold step_close. rewrite E0, Ek. unfold tau. eauto.
  - exfalso. apply (cN _ _ C). pose proof (X2 i eq_refl) as Hl. destruct (nth_error (snodes c0) i) as [n|] eqn:Es; [|apply nth_error_None in Es; lia].
    pose proof (V2 s0 c0 n E0 (nth_error_In _ _ Es)) as Hlt.
    destruct (nth_error (nodes st) n) as [nd|] eqn:En; [|apply nth_error_None in En; lia].
    destruct (try_drop_total st (nty nd)) as [st' Et]. exists (TClose s0). apply enabled_tau_progress.
    cbn. unfold step_close. rewrite E0, Ek, Es, En, Et. cbn. eauto.
  - exfalso. apply (cN _ _ C). exists (TClose s0). apply enabled_tau_progress. cbn. unfold step_close. rewrite E0, Ek. unfold tau. eauto.
  - exfalso. apply (cN _ _ C). exists (TClose s0). apply enabled_tau_progress. cbn. unfold step_close. rewrite E0, Ek. unfold tau. eauto.
  - destruct (wpend (wild st)) eqn:Hw.
    + apply WildCase; [reflexivity|left; congruence].
    + exfalso. apply (cN _ _ C). exists (TClose s0). apply enabled_tau_progress. cbn. unfold step_close. rewrite E0, Ek, Hw. unfold tau. eauto.
  - destruct (Nat.eq_dec (rdrs (wild st)) 0) as [Z|NZ].
    + exfalso. apply (cN _ _ C). exists (TClose s0). apply enabled_tau_progress. cbn. unfold step_close. rewrite E0, Ek, Z. cbn. unfold tau. eauto.
    + apply WildCase; [reflexivity|right; exact NZ].
  - exfalso. apply (cN _ _ C). exists (TClose s0). apply enabled_tau_progress. cbn. unfold step_close. rewrite E0, Ek. unfold tau. eauto.
  - exfalso. apply (cN _ _ C). destruct (X3 eq_refl) as [D|D].
    + exists (TDrain s0). apply enabled_tau_progress. cbn. unfold step_drain. rewrite E0. unfold draining. rewrite D. cbn.
      destruct (buf c0); unfold tau; eauto.
    + exists (TClose s0). apply enabled_tau_progress. cbn. unfold step_close. rewrite E0, Ek, D. cbn. unfold tau. eauto.
  - exfalso. apply (cN _ _ C). exists (TClose s0). eapply vis_progress; [cbn; unfold step_close; rewrite E0, Ek; reflexivity|reflexivity].
Qed.

(* C15 — per-subscription control invariants (local to one sub record) and
   immutability of the subscription kind. *)
From Coq Require Import List Arith ZArith Bool Lia.
From Verif Require Import c15.Lts c15.Model c15.Proofs_Chan.
Import ListNotations.

Definition typed_cpc (p : close_pc) : bool :=
  match p with KRem _ | KBus _ | KDrop _ | KCloseCh => true | _ => false end.
Definition wild_spc (p : sub_pc) : bool :=
  match p with SW1 | SW2 | SW3 => true | _ => false end.

Definition sub_loc (c : sub) : Prop :=
  (closed c = true -> cpc c = KRet \/ cpc c = KDone) /\
  (cpc c <> K0 -> spc c = SDone) /\
  (wild_spc (spc c) = true -> styps c = None) /\
  (styps c = None -> closed c = false /\ typed_cpc (cpc c) = false /\ snodes c = [] /\ rpend c = []).

Ltac loc_sub Ec :=
  let y := fresh in let Hy := fresh in let Py := fresh in
  intros y Hy Py; rewrite Ec in Hy; inversion Hy; subst; clear Hy;
  destruct Py as [P1 [P2 [P3 P4]]]; unfold sub_loc; cbn.

Ltac otau_inv E :=
  let x := fresh "x" in
  apply otau_Some in E; destruct E as [E _]; apply option_map_Some in E; destruct E as [x [E ->]].

Lemma send_loc : forall st s it st', Forall sub_loc (subs st) -> send st s it = Some st' -> Forall sub_loc (subs st').
Proof.
  intros st s it st' H E. unfold send in E. destruct (nth_error (subs st) s) as [c|] eqn:Ec; [|discriminate].
  destruct (closed c). { inversion E; subst. exact H. }
  destruct (room c); [|discriminate]. inversion E; subst. cbn.
  apply Forall_upd; [exact H|]. loc_sub Ec. auto.
Qed.

Lemma expect_all_loc : forall l tg it i, Forall sub_loc l -> Forall sub_loc (expect_all l tg it i).
Proof.
  induction l as [|c l IH]; intros tg it i H; cbn; [constructor|]. inversion H; subst.
  constructor; [|apply IH; assumption]. exact H2.
Qed.

Lemma emit_loc : forall st k l st', Forall sub_loc (subs st) -> step_emit st k = Some (l, st') -> Forall sub_loc (subs st').
Proof.
  intros st k l st' H E. unfold step_emit in E.
  destruct (nth_error (emits st) k) as [e|]; [|discriminate].
  destruct (nth_error (emitters st) (eem e)) as [m|]; [|discriminate].
  destruct (epc e) as [| | |n todo|n|n|n todo|c|].
  - destruct (Nat.eqb (mnew m) 4); inversion E; subst; exact H.
  - inversion E; subst; exact H.
  - destruct (nth_error (nodes st) (mnode m)) as [nd|]; [|discriminate].
    destruct (holder nd); [discriminate|]. inversion E; subst. cbn. apply expect_all_loc. exact H.
  - destruct todo as [|s r].
    + destruct (nth_error (nodes st) n); inversion E; subst; exact H.
    + otau_inv E. cbn. eapply send_loc; eassumption.
  - inversion E; subst; exact H.
  - destruct (wpend (wild st)); [discriminate|]. inversion E; subst. cbn. apply expect_all_loc. exact H.
  - destruct todo as [|s r].
    + inversion E; subst; exact H.
    + otau_inv E. cbn. eapply send_loc; eassumption.
  - inversion E; subst; exact H.
  - discriminate.
Qed.

Lemma emnew_subs : forall st j l st', step_emnew st j = Some (l, st') -> subs st' = subs st.
Proof.
  intros st j l st' E. unfold step_emnew in E.
  destruct (nth_error (emitters st) j) as [m|]; [|discriminate].
  destruct (mnew m) as [|[|[|[|?]]]].
  - inversion E; subst; reflexivity.
  - destruct (with_node st (mty m)) as [[st1 n]|] eqn:Ew; [|discriminate]. inversion E; subst. cbn.
    apply (with_node_subs _ _ _ _ Ew).
  - destruct (nth_error (nodes st) (mnode m)) as [nd|]; [|discriminate].
    destruct (holder nd); [discriminate|]. inversion E; subst. reflexivity.
  - inversion E; subst; reflexivity.
  - discriminate.
Qed.

Lemma emclose_subs : forall st j l st', step_emclose st j = Some (l, st') -> subs st' = subs st.
Proof.
  intros st j l st' E. unfold step_emclose in E.
  destruct (nth_error (emitters st) j) as [m|]; [|discriminate].
  destruct (mcl m).
  - destruct (Nat.eqb (mnew m) 4); inversion E; subst; reflexivity.
  - destruct (mclosed m); inversion E; subst; reflexivity.
  - destruct (nth_error (nodes st) (mnode m)); inversion E; subst; reflexivity.
  - inversion E; subst; reflexivity.
  - otau_inv E. cbn. apply (try_drop_subs _ _ _ E).
  - inversion E; subst; reflexivity.
  - discriminate.
Qed.

Ltac loc_auto := repeat split; intros;
  try (match goal with P : styps ?c = None -> _, H : styps ?c = None |- _ => destruct (P H) as [? [? [? ?]]] end);
  try (match goal with P : @None (list nat) = None -> _ |- _ => destruct (P eq_refl) as [? [? [? ?]]] end);
  try discriminate; try congruence; auto;
  try (match goal with P : ?a <> K0 -> ?g |- ?g => apply P; discriminate end);
  try (match goal with P : wild_spc (spc ?c) = true -> _, Ep : spc ?c = _ |- _ => apply P; rewrite Ep; reflexivity end);
  try (exfalso; match goal with P : cpc _ <> K0 -> _, H : cpc _ <> K0 |- _ => specialize (P H); congruence end);
  try (exfalso; match goal with P : closed ?c = true -> _, H : closed ?c = true |- _ => destruct (P H); congruence end).

Lemma sub_loc_step : forall st s l st', Forall sub_loc (subs st) -> step_sub st s = Some (l, st') -> Forall sub_loc (subs st').
Proof.
  intros st s l st' H E. unfold step_sub in E.
  destruct (nth_error (subs st) s) as [c|] eqn:Ec; [|discriminate].
  destruct (spc c) eqn:Ep.
  - destruct (styps c) as [tys|] eqn:Et; inversion E; subst; cbn; (apply Forall_upd; [exact H|]); loc_sub Ec.
    + destruct tys; loc_auto.
    + loc_auto.
  - destruct (styps c) as [tys|] eqn:Et; [|discriminate]. destruct (nth_error tys i) as [ty|]; [|discriminate].
    destruct (with_node st ty) as [[st1 n]|] eqn:Ew; [|discriminate]. inversion E; subst. cbn.
    rewrite (with_node_subs _ _ _ _ Ew). apply Forall_upd; [exact H|]. loc_sub Ec. loc_auto.
  - destruct (styps c) as [tys|] eqn:Et; [|discriminate].
    destruct (nth_error (nodes st) n) as [nd|]; [|discriminate].
    destruct (holder nd); [discriminate|]. inversion E; subst. cbn.
    assert (Hk : cpc c = K0).
    { pose proof (Forall_nth_error _ _ _ _ H Ec) as [_ [P2 _]].
      destruct (cpc c) eqn:Ek; try reflexivity; exfalso;
        (assert (X : spc c = SDone) by (apply P2; discriminate)); congruence. }
    apply Forall_upd; [exact H|]. intros y Hy Py. rewrite Ec in Hy. inversion Hy; subst y. clear Hy.
    destruct Py as [P1 [P2 [P3 P4]]].
    assert (G : forall p, wild_spc p = false -> sub_loc (c_app c p n)).
    { intros p Hp. unfold sub_loc. cbn. rewrite Et. repeat split; intros; try congruence.
      - apply P1; assumption. }
    assert (G2 : sub_loc (c_app c (if Nat.ltb (S i) (length tys) then SBus (S i) else SRet) n)).
    { apply G. destruct (Nat.ltb (S i) (length tys)); reflexivity. }
    destruct (keep nd); [destruct (nlast nd)|]; exact G2.
  - inversion E; subst; cbn; (apply Forall_upd; [exact H|]); loc_sub Ec. loc_auto.
  - destruct (wpend (wild st)); [discriminate|]. inversion E; subst; cbn; (apply Forall_upd; [exact H|]); loc_sub Ec. loc_auto.
  - destruct (Nat.eqb (rdrs (wild st)) 0); [|discriminate]. inversion E; subst; cbn; (apply Forall_upd; [exact H|]); loc_sub Ec.
    loc_auto.
  - inversion E; subst; cbn; (apply Forall_upd; [exact H|]); loc_sub Ec. loc_auto.
  - destruct (styps c); discriminate.
Qed.

Lemma replay_loc : forall st s i l st', Forall sub_loc (subs st) -> step_replay st s i = Some (l, st') -> Forall sub_loc (subs st').
Proof.
  intros st s i l st' H E. unfold step_replay in E.
  destruct (nth_error (subs st) s) as [c|] eqn:Ec; [|discriminate].
  destruct (nth_error (rpend c) i) as [[|]|] eqn:Er; try discriminate.
  destruct (nth_error (snodes c) i) as [n|]; [|discriminate].
  destruct (nth_error (nodes st) n) as [nd|]; [|discriminate].
  assert (Hr : forall c', sub_loc c' -> nth_error (rpend c') i = Some true -> sub_loc (c_rpend c' (upd (rpend c') i false))).
  { intros c' [P1 [P2 [P3 P4]]] Hi. unfold sub_loc. cbn. split; [exact P1|]. split; [exact P2|]. split; [exact P3|].
    intros Hn. destruct (P4 Hn) as [? [? [? X]]]. rewrite X in Hi. destruct i; discriminate. }
  assert (Hfin : forall st0, Forall sub_loc (subs st0) ->
     (forall c', nth_error (subs st0) s = Some c' -> nth_error (rpend c') i = Some true) ->
     Forall sub_loc (subs (match nth_error (subs st0) s with
                           | Some c' => set_node (set_sub st0 s (c_rpend c' (upd (rpend c') i false))) n (n_holder nd None)
                           | None => st0 end))).
  { intros st0 H0 Hp. destruct (nth_error (subs st0) s) as [c'|] eqn:Ec'; [|exact H0]. cbn.
    apply Forall_upd; [exact H0|]. intros y Hy Py. rewrite Ec' in Hy. inversion Hy; subst. apply Hr; auto. }
  destruct (keep nd); [destruct (nlast nd) as [lv|]|].
  - otau_inv E. apply Hfin; [eapply send_loc; eassumption|].
    intros c' Hc'. unfold send in E. rewrite Ec in E. destruct (closed c).
    + inversion E; subst. cbn in Hc'. rewrite Ec in Hc'. inversion Hc'; subst. exact Er.
    + destruct (room c); [|discriminate]. inversion E; subst. cbn in Hc'.
      assert (X : c' = push c (n, lv)).
      { clear - Hc' Ec. revert s Hc' Ec. generalize (subs st). induction l as [|a l IH]; intros [|s] H1 H2; cbn in *; try discriminate.
        - inversion H1; reflexivity. - eapply IH; eassumption. }
      subst c'. exact Er.
  - inversion E; subst. cbn. apply Forall_upd; [exact H|]. intros y Hy Py. rewrite Ec in Hy. inversion Hy; subst. apply Hr; auto.
  - inversion E; subst. cbn. apply Forall_upd; [exact H|]. intros y Hy Py. rewrite Ec in Hy. inversion Hy; subst. apply Hr; auto.
Qed.

Lemma close_loc : forall st s l st', Forall sub_loc (subs st) -> step_close st s = Some (l, st') -> Forall sub_loc (subs st').
Proof.
  intros st s l st' H E. unfold step_close in E.
  destruct (nth_error (subs st) s) as [c|] eqn:Ec; [|discriminate].
  destruct (cpc c) eqn:Ek.
  - destruct (spc c) eqn:Ep; try discriminate. inversion E; subst. cbn.
    apply Forall_upd; [exact H|]. loc_sub Ec. destruct (styps H0) as [tys|] eqn:Et.
    + destruct (snodes H0); loc_auto.
    + loc_auto.
  - destruct (nth_error (snodes c) i) as [n|]; [|discriminate].
    destruct (nth_error (nodes st) n) as [nd|]; [|discriminate].
    destruct (holder nd); [discriminate|]. inversion E; subst. cbn. apply Forall_upd; [exact H|]. loc_sub Ec.
    rewrite Ek in *. unfold knext.
    destruct ((match remove_swap s (sinks nd) with [] => true | _ :: _ => false end) && Nat.eqb (nem nd) 0);
      [|destruct (Nat.ltb (S i) (length (snodes H0)))]; loc_auto.
  - inversion E; subst. cbn. apply Forall_upd; [exact H|]. loc_sub Ec. rewrite Ek in *. loc_auto.
  - destruct (nth_error (snodes c) i) as [n|]; [|discriminate].
    destruct (nth_error (nodes st) n) as [nd|]; [|discriminate].
    otau_inv E. cbn. rewrite (try_drop_subs _ _ _ E). apply Forall_upd; [exact H|]. loc_sub Ec.
    rewrite Ek in *. unfold knext. destruct (Nat.ltb (S i) (length (snodes H0))); loc_auto.
  - inversion E; subst. cbn. apply Forall_upd; [exact H|]. loc_sub Ec. rewrite Ek in *. loc_auto.
  - inversion E; subst. cbn. apply Forall_upd; [exact H|]. loc_sub Ec. rewrite Ek in *. loc_auto.
  - destruct (wpend (wild st)); [discriminate|]. inversion E; subst. cbn. apply Forall_upd; [exact H|]. loc_sub Ec. rewrite Ek in *. loc_auto.
  - destruct (Nat.eqb (rdrs (wild st)) 0); [|discriminate]. inversion E; subst. cbn. apply Forall_upd; [exact H|]. loc_sub Ec. rewrite Ek in *. loc_auto.
  - inversion E; subst. cbn. apply Forall_upd; [exact H|]. loc_sub Ec. rewrite Ek in *. loc_auto.
  - destruct (Nat.eqb (drain c) 3); [|discriminate]. inversion E; subst. cbn. apply Forall_upd; [exact H|]. loc_sub Ec. rewrite Ek in *. loc_auto.
  - inversion E; subst. cbn. apply Forall_upd; [exact H|]. loc_sub Ec. rewrite Ek in *. loc_auto.
  - discriminate.
Qed.

Lemma drain_loc : forall st s l st', Forall sub_loc (subs st) -> step_drain st s = Some (l, st') -> Forall sub_loc (subs st').
Proof.
  intros st s l st' H E. unfold step_drain in E.
  destruct (nth_error (subs st) s) as [c|] eqn:Ec; [|discriminate].
  destruct (draining c); [|discriminate].
  destruct (buf c).
  - destruct (Nat.eqb (drain c) 2 || closed c); [|discriminate]. inversion E; subst. cbn.
    apply Forall_upd; [exact H|]. loc_sub Ec. loc_auto.
  - inversion E; subst. cbn. apply Forall_upd; [exact H|]. loc_sub Ec. loc_auto.
Qed.

Lemma req_loc : forall st s l st', Forall sub_loc (subs st) -> step_req st s = Some (l, st') -> Forall sub_loc (subs st').
Proof.
  intros st s l st' H E. unfold step_req in E.
  destruct (nth_error (subs st) s) as [c|] eqn:Ec; [|discriminate]. inversion E; subst. cbn.
  apply Forall_upd; [exact H|]. loc_sub Ec. loc_auto.
Qed.

Lemma recv_loc : forall st s l st', Forall sub_loc (subs st) -> step_recv st s = Some (l, st') -> Forall sub_loc (subs st').
Proof.
  intros st s l st' H E. unfold step_recv in E.
  destruct (nth_error (subs st) s) as [c|] eqn:Ec; [|discriminate].
  destruct (want c) as [|w']; [discriminate|].
  destruct (buf c) as [|it r].
  - destruct (closed c) eqn:Ecl; [|discriminate]. inversion E; subst. cbn.
    apply Forall_upd; [exact H|]. loc_sub Ec. rewrite Ecl in *. loc_auto.
  - inversion E; subst. cbn. apply Forall_upd; [exact H|]. loc_sub Ec. loc_auto.
Qed.

Lemma read_loc : forall st s l st', Forall sub_loc (subs st) -> step_read st s = Some (l, st') -> Forall sub_loc (subs st').
Proof.
  intros st s l st' H E. unfold step_read in E.
  destruct (nth_error (subs st) s) as [c|] eqn:Ec; [|discriminate].
  destruct (hand c); [discriminate|]. inversion E; subst. cbn. apply Forall_upd; [exact H|]. loc_sub Ec. loc_auto.
Qed.

Lemma step_loc : forall st t l st', Forall sub_loc (subs st) -> step st t = Some (l, st') -> Forall sub_loc (subs st').
Proof.
  intros st t l st' H E. destruct t; cbn in E;
    eauto using emit_loc, sub_loc_step, replay_loc, close_loc, drain_loc, req_loc, recv_loc, read_loc.
  - rewrite (emnew_subs _ _ _ _ E). exact H.
  - rewrite (emclose_subs _ _ _ _ E). exact H.
Qed.

Lemma loc_invariant : forall st sched, Forall sub_loc (subs st) -> Forall sub_loc (subs (run step st sched)).
Proof.
  intros st sched H. apply (invariant_run _ _ _ step (fun s => Forall sub_loc (subs s))); [|exact H].
  intros s t l s' Hs E. eapply step_loc; eassumption.
Qed.

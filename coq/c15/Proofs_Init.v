(* C15 — initial states satisfy the invariants; statements over arbitrary
   configurations (any number of subscriptions, emitters, Emit calls, any
   buffer sizes) and arbitrary schedules. *)
From Coq Require Import List Arith ZArith Bool Lia.
From Verif Require Import c15.Lts c15.Model c15.Proofs_Chan c15.Proofs_Loc c15.Proofs_List c15.Proofs_Safe.
Import ListNotations.

(* an initial state: no node yet, every thread at its first program counter *)
Definition initial (st : state) : Prop :=
  nodes st = [] /\ wild st = mkWild None 0 [] 0 /\ panicked st = false /\ blk st = None /\
  Forall (fun c => c = new_sub (styps c) (ccap c)) (subs st) /\
  Forall (fun e => epc e = E0) (emits st).

Lemma init_state_initial : forall nt sl ms el,
  initial (init_state nt (map (fun p => new_sub (fst p) (snd p)) sl) ms (map (fun p => new_emit (fst p) (snd p)) el)).
Proof.
  intros. unfold initial, init_state. cbn. repeat split; auto.
  - apply Forall_forall. intros c Hc. apply in_map_iff in Hc. destruct Hc as [p [<- _]]. reflexivity.
  - apply Forall_forall. intros e He. apply in_map_iff in He. destruct He as [p [<- _]]. reflexivity.
Qed.

Lemma initial_safe : forall st, initial st -> Safe st.
Proof.
  intros st [Hn [Hw [Hp [_ [Hs He]]]]]. split.
  - apply Forall_forall. intros c Hc. rewrite Forall_forall in Hs. rewrite (Hs c Hc).
    unfold sub_loc, new_sub. cbn. repeat split; intros; try discriminate; auto. exfalso; auto.
  - constructor.
    + intros k e n todo Hk Hpc. rewrite Forall_forall in He. rewrite (He e (nth_error_In _ _ Hk)) in Hpc. discriminate.
    + intros s c i n Hc Hr _. rewrite Forall_forall in Hs. rewrite (Hs c (nth_error_In _ _ Hc)) in Hr. destruct i; discriminate.
    + intros s c Hc. rewrite Forall_forall in Hs. rewrite (Hs c (nth_error_In _ _ Hc)). reflexivity.
    + intros s c Hc. rewrite Forall_forall in Hs. rewrite (Hs c (nth_error_In _ _ Hc)). reflexivity.
    + intros n nd s Hnd. rewrite Hn in Hnd. destruct n; discriminate.
    + intros s Hin. rewrite Hw in Hin. destruct Hin.
    + intros k e n todo s Hk Hpc. rewrite Forall_forall in He. rewrite (He e (nth_error_In _ _ Hk)) in Hpc. discriminate.
    + exact Hp.
Qed.

Lemma initial_chan : forall st, initial st -> Forall chan_ok (subs st).
Proof.
  intros st [_ [_ [_ [_ [Hs _]]]]]. apply Forall_forall. intros c Hc. rewrite Forall_forall in Hs.
  rewrite (Hs c Hc). exists []. cbn. split; auto.
Qed.

(* ---- the theorems, for every schedule from every initial state ------------ *)

(* no send ever targets a closed channel: the panic flag is never raised *)
Lemma never_send_on_closed_l : forall st sched, initial st -> panicked (run step st sched) = false.
Proof. intros st sched H. exact (iG _ (proj2 (safe_run st sched (initial_safe st H)))). Qed.

(* a send is only possible on an open channel with room; on a full one it is disabled *)
Lemma send_blocks_when_full : forall st s it c, nth_error (subs st) s = Some c -> closed c = false ->
  room c = false -> send st s it = None.
Proof. intros st s it c Ec Hc Hr. unfold send. rewrite Ec, Hc, Hr. reflexivity. Qed.

(* nothing is ever discarded: the send history of every channel is what was
   taken from its head followed by what is still buffered, and until Close
   starts everything taken went to the consumer *)
Lemma chan_integrity_l : forall st sched s c, initial st ->
  nth_error (subs (run step st sched)) s = Some c ->
  exists taken, hist c = taken ++ buf c /\ (drain c = 0 -> taken = recv c).
Proof.
  intros st sched s c H Hc. pose proof (chan_integrity st sched (initial_chan st H)) as F.
  exact (Forall_nth_error _ _ _ _ F Hc).
Qed.

(* node lock discipline: a thread inside a node's critical region (an Emit in
   its send loop, a Subscribe replay goroutine) is the recorded lock holder,
   so at most one thread is inside *)
Lemma region_holds_lock : forall st sched n t, initial st ->
  in_region (run step st sched) n t ->
  exists nd, nth_error (nodes (run step st sched)) n = Some nd /\ holder nd = Some t.
Proof.
  intros st sched n t H R. destruct (safe_run st sched (initial_safe st H)) as [_ I].
  destruct t; cbn in R; try contradiction.
  - destruct R as [e [todo [A B]]]. destruct (iL _ I k e n todo A B) as [nd [X [Y _]]]. eauto.
  - destruct R as [c [A [B C]]]. destruct (iR _ I s c i n A B C) as [nd [X [Y _]]]. eauto.
Qed.

Lemma mutual_exclusion_l : forall st sched n t1 t2, initial st ->
  in_region (run step st sched) n t1 -> in_region (run step st sched) n t2 -> t1 = t2.
Proof.
  intros st sched n t1 t2 H R1 R2.
  destruct (region_holds_lock st sched n t1 H R1) as [nd [A B]].
  destruct (region_holds_lock st sched n t2 H R2) as [nd' [A' B']]. congruence.
Qed.

(* every sink an Emit is about to send to (typed or wildcard) and the sink of a
   pending replay is an open channel *)
Lemma targets_open_l : forall st sched k e n s r, initial st ->
  nth_error (emits (run step st sched)) k = Some e -> (epc e = ESend n (s :: r) \/ epc e = EWSend n (s :: r)) ->
  exists c, nth_error (subs (run step st sched)) s = Some c /\ closed c = false.
Proof.
  intros st sched k e n s r H Hk Hp. destruct (safe_run st sched (initial_safe st H)) as [HL I].
  destruct Hp as [Hp|Hp].
  - destruct (iL _ I k e n (s :: r) Hk Hp) as [nd [En [_ Hs]]].
    exact (listed_open _ n nd s HL I En (Hs s (or_introl eq_refl))).
  - exact (wild_open _ s HL (iW2 _ I k e n (s :: r) s Hk Hp (or_introl eq_refl))).
Qed.

(* a closed channel is listed nowhere: after Close removed the sink from all
   its nodes nobody can reach it *)
Lemma closed_unlisted_l : forall st sched s c n nd, initial st ->
  nth_error (subs (run step st sched)) s = Some c -> closed c = true ->
  nth_error (nodes (run step st sched)) n = Some nd -> ~ In s (sinks nd).
Proof.
  intros st sched s c n nd H Hc Hcl Hn Hin. destruct (safe_run st sched (initial_safe st H)) as [HL I].
  destruct (listed_open _ n nd s HL I Hn Hin) as [c' [A B]]. congruence.
Qed.

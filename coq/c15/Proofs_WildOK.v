(* C15 — consistency of the wildcard RW lock (used only by the progress theorem):
   a pending writer is a thread about to run its write section, and rdrs counts
   the Emits inside the wildcard send loop. *)
From Coq Require Import List Arith ZArith Bool Lia.
From Verif Require Import c15.Lts c15.Model c15.Proofs_Chan c15.Proofs_Loc c15.Proofs_List c15.Proofs_Safe
  c15.Proofs_Init c15.Proofs_Live c15.Proofs_Pend c15.Proofs_Idx c15.Proofs_Dead c15.Proofs_Prog c15.Proofs_Valid.
Import ListNotations.

Definition wsendb (p : emit_pc) : bool := match p with EWSend _ _ => true | _ => false end.
Definition xS (st : state) := map spc (subs st).
Definition xC (st : state) := map cpc (subs st).
Definition xM (st : state) := map epc (emits st).

Definition WV (wp : option thr) (rd : nat) (vs : list sub_pc) (vc : list close_pc) (vm : list emit_pc) : Prop :=
  (forall t, wp = Some t -> (exists s, t = TSub s /\ nth_error vs s = Some SW3) \/ (exists s, t = TClose s /\ nth_error vc s = Some KW3)) /\
  rd = cntf wsendb vm.
Definition WildV (st : state) : Prop := WV (wpend (wild st)) (rdrs (wild st)) (xS st) (xC st) (xM st).

Lemma WildV_OK : forall st, WildV st -> WildOK st.
Proof.
  intros st [A B]. split.
  - intros t Ht. destruct (A t Ht) as [[s [-> H]]|[s [-> H]]]; [left|right]; exists s;
      unfold xS, xC in H; rewrite nth_error_map in H; destruct (nth_error (subs st) s) as [c|] eqn:Ec; try discriminate;
      inversion H; exists c; repeat split; auto.
  - intros Hr. rewrite B in Hr. unfold cntf, xM in Hr.
    destruct (filter wsendb (map epc (emits st))) as [|p l] eqn:Ef; [cbn in Hr; lia|].
    assert (Hin : In p (filter wsendb (map epc (emits st)))) by (rewrite Ef; left; reflexivity).
    apply filter_In in Hin. destruct Hin as [Hin Hp]. apply in_map_iff in Hin. destruct Hin as [e [He Hin]].
    apply In_nth_error in Hin. destruct Hin as [k Hk]. subst p. destruct (epc e) eqn:Ep; try discriminate. exists k, e, n, todo. split; [exact Hk|exact Ep].
Qed.

Definition wv_same (st st' : state) : Prop :=
  wpend (wild st') = wpend (wild st) /\ rdrs (wild st') = rdrs (wild st) /\ xS st' = xS st /\ xC st' = xC st /\ xM st' = xM st.

Lemma WildV_same : forall st st', WildV st -> wv_same st st' -> WildV st'.
Proof. intros st st' W [A [B [C [D E]]]]. unfold WildV. rewrite A, B, C, D, E. exact W. Qed.

Ltac wv_fin :=
  unfold wv_same, xS, xC, xM;
  cbn [wild subs emits set_emitter set_emitters set_sub set_subs set_node set_nodes set_blk set_bmap set_wild set_emit set_emits set_panicked];
  repeat split; try reflexivity;
  try (eapply (map_upd_same spc); [eassumption|reflexivity]);
  try (eapply (map_upd_same cpc); [eassumption|reflexivity]).

Lemma xS_expect : forall l tg it i, map spc (expect_all l tg it i) = map spc l.
Proof. induction l as [|c l IH]; intros; cbn; [reflexivity|]. f_equal. apply IH. Qed.
Lemma xC_expect : forall l tg it i, map cpc (expect_all l tg it i) = map cpc l.
Proof. induction l as [|c l IH]; intros; cbn; [reflexivity|]. f_equal. apply IH. Qed.

Lemma send_wv : forall st s it st', send st s it = Some st' -> wv_same st st'.
Proof.
  intros st s it st' E. unfold send in E. destruct (nth_error (subs st) s) as [c|] eqn:Ec; [|discriminate].
  destruct (closed c); [inversion E; subst; wv_fin|]. destruct (room c); [|discriminate]. inversion E; subst. wv_fin.
Qed.
Lemma try_drop_wv : forall st ty st', try_drop st ty = Some st' -> wv_same st st'.
Proof. intros st ty st' E. unfold try_drop in E. brute E; inversion E; subst; wv_fin. Qed.
Lemma with_node_wv : forall st ty st1 n, with_node st ty = Some (st1, n) -> wv_same st st1.
Proof.
  intros st ty st1 n E. unfold with_node in E. destruct (lookup st ty) as [sl m] eqn:El.
  destruct (nth_error (nodes sl) m); inversion E; subst.
  unfold lookup in El. destruct (nth_error (bmap st) ty) as [[k|]|]; inversion El; subst; wv_fin.
Qed.
Lemma wv_trans : forall a b c, wv_same a b -> wv_same b c -> wv_same a c.
Proof. intros a b c [A1 [B1 [C1 [D1 E1]]]] [A2 [B2 [C2 [D2 E2]]]]. unfold wv_same. repeat split; congruence. Qed.
Lemma wv_refl : forall a, wv_same a a.
Proof. intros. unfold wv_same. repeat split. Qed.

(* changing the pc of Emit k between pcs with the same wsendb *)
Lemma WV_emit_neutral : forall wp rd vs vc vm k p p', WV wp rd vs vc vm -> nth_error vm k = Some p ->
  wsendb p' = wsendb p -> WV wp rd vs vc (upd vm k p').
Proof.
  intros wp rd vs vc vm k p p' [A B] Hk Hp. split; [exact A|].
  pose proof (cntf_upd wsendb vm k p' p Hk) as X. rewrite Hp in X. destruct (wsendb p); lia.
Qed.

Lemma xM_upd : forall st k e', xM (set_emit st k e') = upd (xM st) k (epc e').
Proof. intros. unfold xM. cbn [emits set_emit set_emits]. rewrite map_upd. reflexivity. Qed.
Lemma xS_upd : forall st s c', xS (set_sub st s c') = upd (xS st) s (spc c').
Proof. intros. unfold xS. cbn [subs set_sub set_subs]. rewrite map_upd. reflexivity. Qed.
Lemma xC_upd : forall st s c', xC (set_sub st s c') = upd (xC st) s (cpc c').
Proof. intros. unfold xC. cbn [subs set_sub set_subs]. rewrite map_upd. reflexivity. Qed.

Lemma WildV_intro : forall st' wp rd vs vc vm, wpend (wild st') = wp -> rdrs (wild st') = rd -> xS st' = vs -> xC st' = vc -> xM st' = vm ->
  WV wp rd vs vc vm -> WildV st'.
Proof. intros st' wp rd vs vc vm <- <- <- <- <- H. exact H. Qed.

Lemma emit_wildv : forall st k l st', WildV st -> step_emit st k = Some (l, st') -> WildV st'.
Proof.
  intros st k l st' W E. unfold step_emit in E.
  destruct (nth_error (emits st) k) as [e|] eqn:Ek; [|discriminate].
  destruct (nth_error (emitters st) (eem e)) as [m|]; [|discriminate].
  assert (Vk : nth_error (xM st) k = Some (epc e)) by (unfold xM; rewrite nth_error_map, Ek; reflexivity).
  assert (G : forall stx p, wv_same st stx -> wsendb p = wsendb (epc e) -> WildV (set_emit stx k (e_pc e p))).
  { intros stx p [A [B [C [D F]]]] Hp. eapply WildV_intro; [exact A|exact B|exact C|exact D|rewrite xM_upd, F; reflexivity|].
    cbn [epc e_pc]. eapply WV_emit_neutral; [exact W|exact Vk|exact Hp]. }
  destruct (epc e) as [| | |n [|x r]|n|n|n [|x r]|c|] eqn:Ep; try discriminate.
  - destruct (Nat.eqb (mnew m) 4); inversion E; subst. apply G; [apply wv_refl|reflexivity].
  - inversion E; subst. apply G; [apply wv_refl|destruct (mclosed m); reflexivity].
  - destruct (nth_error (nodes st) (mnode m)) as [nd|] eqn:En; [|discriminate]. destruct (holder nd); [discriminate|].
    inversion E; subst. apply G; [|reflexivity]. wv_fin; [apply xS_expect|apply xC_expect].
  - destruct (nth_error (nodes st) n) as [nd|] eqn:En; [|discriminate]. inversion E; subst. apply G; [wv_fin|reflexivity].
  - otau_inv E. apply G; [eapply send_wv; eassumption|reflexivity].
  - inversion E; subst. apply G; [apply wv_refl|destruct (Nat.eqb (nsinks (wild st)) 0); reflexivity].
  - (* RLock: one more reader *)
    destruct (wpend (wild st)) eqn:Hw; [discriminate|]. inversion E; subst. clear E. destruct W as [A B].
    eapply WildV_intro; [reflexivity|reflexivity| | |apply xM_upd|].
    + unfold xS. cbn. apply xS_expect.
    + unfold xC. cbn. apply xC_expect.
    + cbn [epc e_pc wild set_emit set_emits set_subs set_wild wpend rdrs]. split.
      * intros t X. discriminate.
      * change (xM (set_subs (set_wild st _) _)) with (xM st).
        pose proof (cntf_upd wsendb (xM st) k (EWSend n (wsinks (wild st))) (ERLock n) Vk) as X. cbn in X. lia.
  - (* RUnlock: one reader less *)
    inversion E; subst. clear E. destruct W as [A B].
    eapply WildV_intro; [reflexivity|reflexivity|reflexivity|reflexivity|apply xM_upd|].
    cbn [epc e_pc wild set_emit set_emits set_wild wpend rdrs]. split; [exact A|].
    change (xM (set_wild st _)) with (xM st).
    pose proof (cntf_upd wsendb (xM st) k (ERet 0) (EWSend n []) Vk) as X. cbn in X. lia.
  - otau_inv E. apply G; [eapply send_wv; eassumption|reflexivity].
  - inversion E; subst. apply G; [apply wv_refl|reflexivity].
Qed.

Lemma WV_sub_neutral : forall wp rd vs vc vm s p p', WV wp rd vs vc vm -> nth_error vs s = Some p -> p <> SW3 ->
  WV wp rd (upd vs s p') vc vm.
Proof.
  intros wp rd vs vc vm s p p' [A B] Hs Hp. split; [|exact B]. intros t Ht. destruct (A t Ht) as [[s0 [-> H]]|R]; [left|right; exact R].
  exists s0. split; [reflexivity|]. destruct (Nat.eq_dec s s0) as [->|N]; [congruence|]. rewrite nth_error_upd_neq by assumption. exact H.
Qed.

Lemma WV_close_neutral : forall wp rd vs vc vm s p p', WV wp rd vs vc vm -> nth_error vc s = Some p -> p <> KW3 ->
  WV wp rd vs (upd vc s p') vm.
Proof.
  intros wp rd vs vc vm s p p' [A B] Hs Hp. split; [|exact B]. intros t Ht. destruct (A t Ht) as [L|[s0 [-> H]]]; [left; exact L|right].
  exists s0. split; [reflexivity|]. destruct (Nat.eq_dec s s0) as [->|N]; [congruence|]. rewrite nth_error_upd_neq by assumption. exact H.
Qed.

Lemma sub_wildv : forall st s l st', WildV st -> step_sub st s = Some (l, st') -> WildV st'.
Proof.
  intros st s l st' W E. unfold step_sub in E. destruct (nth_error (subs st) s) as [c|] eqn:Ec; [|discriminate].
  assert (Vs : nth_error (xS st) s = Some (spc c)) by (unfold xS; rewrite nth_error_map, Ec; reflexivity).
  assert (G : forall stx c', wv_same st stx -> subs stx = subs st -> cpc c' = cpc c -> spc c <> SW3 -> WildV (set_sub stx s c')).
  { intros stx c' [A [B [C [D F]]]] Hs Hc Hp. eapply WildV_intro; [exact A|exact B|rewrite xS_upd, C; reflexivity| |exact F|].
    - rewrite xC_upd, D. unfold xC. eapply upd_same. rewrite nth_error_map, Ec, Hc. reflexivity.
    - eapply WV_sub_neutral; [exact W|exact Vs|exact Hp]. }
  destruct (spc c) eqn:Ep.
  - destruct (styps c); inversion E; subst; (apply G; [apply wv_refl|reflexivity|reflexivity|discriminate]).
  - destruct (styps c) as [tys|]; [|discriminate]. destruct (nth_error tys i) as [ty|]; [|discriminate].
    destruct (with_node st ty) as [[st1 n]|] eqn:Ew; [|discriminate]. inversion E; subst.
    apply G; [eapply with_node_wv; eassumption|apply (with_node_subs _ _ _ _ Ew)|reflexivity|discriminate].
  - destruct (styps c) as [tys|]; [|discriminate].
    destruct (nth_error (nodes st) n) as [nd|] eqn:En; [|discriminate]. destruct (holder nd); [discriminate|].
    inversion E; subst. apply (G (set_node st n _)); [wv_fin|reflexivity|destruct (keep nd); [destruct (nlast nd)|]; reflexivity|discriminate].
  - inversion E; subst. apply (G (set_wild st _)); [wv_fin|reflexivity|reflexivity|discriminate].
  - (* w.Lock() announced *)
    destruct (wpend (wild st)) eqn:Hw; [discriminate|]. inversion E; subst. clear E. destruct W as [A B].
    eapply WildV_intro; [reflexivity|reflexivity|apply xS_upd|reflexivity|reflexivity|].
    cbn [wild set_sub set_subs set_wild wpend rdrs spc c_spc]. split.
    + intros t X. inversion X; subst. left. exists s. split; [reflexivity|].
      change (xS (set_wild st _)) with (xS st). eapply nth_error_upd_eq, Vs.
    + exact B.
  - (* write section done *)
    destruct (Nat.eqb (rdrs (wild st)) 0) eqn:Z; [|discriminate]. apply Nat.eqb_eq in Z. inversion E; subst. clear E. destruct W as [A B].
    eapply WildV_intro; [reflexivity|reflexivity|reflexivity|reflexivity|reflexivity|].
    cbn [wild set_sub set_subs set_wild wpend rdrs]. split; [intros t X; discriminate|].
    change (xM (set_sub (set_wild st _) s _)) with (xM st). rewrite <- B. symmetry. exact Z.
  - inversion E; subst. apply G; [apply wv_refl|reflexivity|reflexivity|discriminate].
  - destruct (styps c); discriminate.
Qed.

Lemma close_wildv : forall st s l st', WildV st -> step_close st s = Some (l, st') -> WildV st'.
Proof.
  intros st s l st' W E. unfold step_close in E. destruct (nth_error (subs st) s) as [c|] eqn:Ec; [|discriminate].
  assert (Vc : nth_error (xC st) s = Some (cpc c)) by (unfold xC; rewrite nth_error_map, Ec; reflexivity).
  assert (G : forall stx c', wv_same st stx -> subs stx = subs st -> spc c' = spc c -> cpc c <> KW3 -> WildV (set_sub stx s c')).
  { intros stx c' [A [B [C [D F]]]] Hs Hc Hp. eapply WildV_intro; [exact A|exact B| |rewrite xC_upd, D; reflexivity|exact F|].
    - rewrite xS_upd, C. unfold xS. eapply upd_same. rewrite nth_error_map, Ec, Hc. reflexivity.
    - eapply WV_close_neutral; [exact W|exact Vc|exact Hp]. }
  destruct (cpc c) eqn:Ek; try discriminate.
  - destruct (spc c) eqn:Ep; try discriminate. inversion E; subst. apply G; [apply wv_refl|reflexivity|cbn; exact Ep|discriminate].
  - destruct (nth_error (snodes c) i) as [n|]; [|discriminate]. destruct (nth_error (nodes st) n) as [nd|] eqn:En; [|discriminate].
    destruct (holder nd); [discriminate|]. inversion E; subst. apply (G (set_node st n _)); [wv_fin|reflexivity|reflexivity|discriminate].
  - inversion E; subst. apply G; [apply wv_refl|reflexivity|reflexivity|discriminate].
  - destruct (nth_error (snodes c) i) as [n|]; [|discriminate]. destruct (nth_error (nodes st) n) as [nd|]; [|discriminate].
    otau_inv E. apply G; [eapply try_drop_wv; eassumption|apply (try_drop_subs _ _ _ E)|reflexivity|discriminate].
  - inversion E; subst. apply G; [apply wv_refl|reflexivity|reflexivity|discriminate].
  - inversion E; subst. apply (G (set_wild st _)); [wv_fin|reflexivity|reflexivity|discriminate].
  - destruct (wpend (wild st)) eqn:Hw; [discriminate|]. inversion E; subst. clear E. destruct W as [A B].
    eapply WildV_intro; [reflexivity|reflexivity|reflexivity|apply xC_upd|reflexivity|].
    cbn [wild set_sub set_subs set_wild wpend rdrs cpc c_cpc]. split.
    + intros t X. inversion X; subst. right. exists s. split; [reflexivity|].
      change (xC (set_wild st _)) with (xC st). eapply nth_error_upd_eq, Vc.
    + exact B.
  - destruct (Nat.eqb (rdrs (wild st)) 0) eqn:Z; [|discriminate]. apply Nat.eqb_eq in Z. inversion E; subst. clear E. destruct W as [A B].
    eapply WildV_intro; [reflexivity|reflexivity|reflexivity|reflexivity|reflexivity|].
    cbn [wild set_sub set_subs set_wild wpend rdrs]. split; [intros t X; discriminate|].
    change (xM (set_sub (set_wild st _) s _)) with (xM st). rewrite <- B. symmetry. exact Z.
  - inversion E; subst. apply G; [apply wv_refl|reflexivity|reflexivity|discriminate].
  - destruct (Nat.eqb (drain c) 3); [|discriminate]. inversion E; subst. apply G; [apply wv_refl|reflexivity|reflexivity|discriminate].
  - inversion E; subst. apply G; [apply wv_refl|reflexivity|reflexivity|discriminate].
Qed.

Lemma other_wv : forall st t l st', (match t with TEmit _ | TSub _ | TClose _ => False | _ => True end) ->
  step st t = Some (l, st') -> wv_same st st'.
Proof.
  intros st t l st' Ht E. destruct t; try contradiction; cbn in E.
  - unfold step_emnew in E. destruct (nth_error (emitters st) j) as [m|]; [|discriminate].
    destruct (mnew m) as [|[|[|[|?]]]]; try discriminate.
    + inversion E; subst; wv_fin.
    + destruct (with_node st (mty m)) as [[st1 n]|] eqn:Ew; [|discriminate]. inversion E; subst.
      eapply wv_trans; [eapply with_node_wv; eassumption|wv_fin].
    + brute E; inversion E; subst; wv_fin.
    + inversion E; subst; wv_fin.
  - unfold step_emclose in E. destruct (nth_error (emitters st) j) as [m|]; [|discriminate].
    destruct (mcl m); try discriminate; try solve [brute E; inversion E; subst; wv_fin].
    otau_inv E. eapply wv_trans; [eapply try_drop_wv; eassumption|wv_fin].
  - unfold step_replay in E. destruct (nth_error (subs st) s) as [c|] eqn:Ec; [|discriminate].
    destruct (nth_error (rpend c) i) as [[|]|]; try discriminate.
    destruct (nth_error (snodes c) i) as [n|]; [|discriminate].
    destruct (nth_error (nodes st) n) as [nd|] eqn:En; [|discriminate].
    destruct (keep nd); [destruct (nlast nd) as [lv|]|]; try solve [inversion E; subst; wv_fin].
    otau_inv E. eapply wv_trans; [eapply send_wv; eassumption|].
    destruct (nth_error (subs x) s) as [c'|] eqn:Ec'; [wv_fin|apply wv_refl].
  - unfold step_drain in E. destruct (nth_error (subs st) s) as [c|] eqn:Ec; [|discriminate]. brute E; inversion E; subst; wv_fin.
  - unfold step_req in E. destruct (nth_error (subs st) s) as [c|] eqn:Ec; [|discriminate]. inversion E; subst; wv_fin.
  - unfold step_recv in E. destruct (nth_error (subs st) s) as [c|] eqn:Ec; [|discriminate]. brute E; inversion E; subst; wv_fin.
  - unfold step_read in E. destruct (nth_error (subs st) s) as [c|] eqn:Ec; [|discriminate]. brute E; inversion E; subst; wv_fin.
Qed.

Lemma step_wildv : forall st t l st', WildV st -> step st t = Some (l, st') -> WildV st'.
Proof.
  intros st t l st' W E. destruct t;
    try (eapply WildV_same; [exact W|eapply other_wv; [|exact E]; exact Logic.I]); cbn [step] in E.
  - eapply emit_wildv; eassumption.
  - eapply sub_wildv; eassumption.
  - eapply close_wildv; eassumption.
Qed.

Lemma initial_wildv : forall st, initial st -> WildV st.
Proof.
  intros st [_ [Hw [_ [_ [_ Hm]]]]]. unfold WildV. rewrite Hw. cbn. split; [intros t X; discriminate|].
  unfold cntf, xM. induction (emits st) as [|e l IH]; [reflexivity|]. inversion Hm; subst. cbn. rewrite H1. cbn. apply IH. assumption.
Qed.

(* every reachable state is Good *)
Lemma good_run : forall st sched, fresh_init st -> Good (run step st sched).
Proof.
  intros st sched H. destruct (reach_good_but st sched H) as [A [B [C [D [E F]]]]].
  constructor; try assumption.
  - exact (valid_run st sched H).
  - apply WildV_OK. apply (invariant_run _ _ _ step WildV); [|apply initial_wildv, H].
    intros a t l b Wa X. eapply step_wildv; eassumption.
Qed.

(* THE progress theorem *)
Lemma no_deadlock_l : forall st sched, fresh_init st ->
  consumers_live (run step st sched) -> in_flight (run step st sched) = true -> some_progress (run step st sched).
Proof. intros st sched H CL F. apply progress_good; [apply good_run, H|exact CL|exact F]. Qed.

Lemma init_state_fresh_init : forall nt sl ml el,
  fresh_init (init_state nt (map (fun p => new_sub (fst p) (snd p)) sl) (map (fun p => new_emitter (fst p) (snd p)) ml)
                         (map (fun p => new_emit (fst p) (snd p)) el)).
Proof.
  intros. split; [apply init_state_initial|]. cbn. split.
  - apply Forall_forall. intros m Hm. apply in_map_iff in Hm. destruct Hm as [p [<- _]]. split; reflexivity.
  - apply Forall_forall. intros o Ho. apply repeat_spec in Ho. exact Ho.
Qed.

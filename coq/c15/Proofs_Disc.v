(* C15 — disciplined schedules: the environment issues a stimulus (the start of an
   operation, a receive request) only when the system is quiescent.  This is how the
   harness drives the real bus (one stimulus per settled point), it is what the trace
   acceptor of conform_case searches for, and it is the hypothesis of the headline
   theorem.  Generic part. *)
From Coq Require Import List Arith Bool Lia.
From Verif Require Import c15.Lts.
Import ListNotations.

Section DISC.
  Variables St Thr Lab : Type.
  Variable step : St -> Thr -> option (option Lab * St).
  Variable thrs : St -> list Thr.
  Variable stim : Lab -> bool.

  Fixpoint disciplined (s : St) (sched : list Thr) : Prop :=
    match sched with
    | [] => True
    | t :: r => match step s t with
                | Some (Some l, s') => (stim l = true -> quiescent step thrs stim s = true) /\ disciplined s' r
                | Some (None, s') => disciplined s' r
                | None => disciplined s r
                end
    end.

  Lemma disciplined_app : forall a s b, disciplined s (a ++ b) <-> disciplined s a /\ disciplined (run step s a) b.
  Proof.
    induction a as [|t r IH]; intros s b; cbn; [tauto|].
    destruct (step s t) as [[[l|] s']|]; rewrite ?IH; tauto.
  Qed.

  (* the step taken at every position of a disciplined schedule *)
  Lemma disciplined_at : forall s1 s t s2 l s', disciplined s (s1 ++ t :: s2) ->
    step (run step s s1) t = Some (Some l, s') -> stim l = true -> quiescent step thrs stim (run step s s1) = true.
  Proof.
    intros s1 s t s2 l s' D E Hs. apply disciplined_app in D. destruct D as [_ D]. cbn in D. rewrite E in D. apply D, Hs.
  Qed.

  Variable st_eqb : St -> St -> bool.
  Variable lab_eqb : Lab -> Lab -> bool.
  Hypothesis lab_eqb_eq : forall a b, lab_eqb a b = true -> a = b.

  (* the run found by the depth-first acceptor is disciplined *)
  Lemma dfs_sound_disc : forall fuel s tr memo, fst (dfs St Thr Lab step thrs st_eqb lab_eqb stim fuel s tr memo) = true ->
    exists sched, trace step s sched = tr /\ disciplined s sched.
  Proof.
    induction fuel as [|f IH]; intros s tr memo H; cbn in H; [discriminate|].
    destruct tr as [|l r]; [exists []; split; [reflexivity|exact I]|].
    destruct (memo_has St st_eqb memo (length (l :: r)) s); [discriminate|].
    set (now := if stim l && negb (quiescent step thrs stim s) then [] else map (fun x => (x, r)) (vis_succ St Thr Lab step thrs lab_eqb l s)) in H.
    set (later := map (fun x => (x, l :: r)) (tau_succ St Thr Lab step thrs s)) in H.
    assert (Hc : forall x tr', In (x, tr') (now ++ later) ->
              (exists t, step s t = Some (Some l, x) /\ tr' = r /\ (stim l = true -> quiescent step thrs stim s = true))
              \/ (exists t, step s t = Some (None, x) /\ tr' = l :: r)).
    { intros x tr' Hin. apply in_app_or in Hin. destruct Hin as [Hin|Hin].
      - left. unfold now in Hin. destruct (stim l) eqn:Es; destruct (quiescent step thrs stim s) eqn:Eq; cbn in Hin; try contradiction;
          apply in_map_iff in Hin; destruct Hin as [y [Ey Hy]]; inversion Ey; subst;
          destruct (vis_succ_step St Thr Lab step thrs lab_eqb lab_eqb_eq _ _ _ Hy) as [t Ht]; exists t; repeat split; auto; discriminate.
      - right. apply in_map_iff in Hin. destruct Hin as [y [Ey Hy]]. inversion Ey; subst.
        destruct (tau_succ_step St Thr Lab step thrs _ _ Hy) as [t Ht]. exists t. split; [exact Ht|reflexivity]. }
    revert H Hc. generalize (now ++ later). clear now later. intros cands. revert memo.
    induction cands as [|[x tr'] cs IHc]; intros memo H Hc.
    - cbn in H. discriminate.
    - cbn in H. destruct (dfs St Thr Lab step thrs st_eqb lab_eqb stim f x tr' memo) as [b m'] eqn:E. destruct b.
      + assert (E1 : fst (dfs St Thr Lab step thrs st_eqb lab_eqb stim f x tr' memo) = true) by (rewrite E; reflexivity).
        destruct (IH _ _ _ E1) as [sc [Hsc Dsc]].
        destruct (Hc x tr' (or_introl eq_refl)) as [[t [Ht [-> Hq]]]|[t [Ht ->]]];
          exists (t :: sc); cbn; rewrite Ht, Hsc; split; auto.
      + apply (IHc m').
        * destruct ((fix go (cands : list (St * list Lab)) (memo : list (nat * St)) {struct cands} : bool * list (nat * St) :=
             match cands with
             | [] => (false, memo)
             | (x, tr') :: cs => let '(b, m') := dfs St Thr Lab step thrs st_eqb lab_eqb stim f x tr' memo in if b then (true, m') else go cs m'
             end) cs m') as [b2 m2] eqn:E2. cbn in H |- *. destruct b2; [reflexivity|discriminate].
        * intros y tr2 Hin. apply Hc. right. exact Hin.
  Qed.
End DISC.
Arguments disciplined {St Thr Lab}.
Arguments disciplined_at {St Thr Lab}.
Arguments disciplined_app {St Thr Lab}.
Arguments dfs_sound_disc {St Thr Lab}.

(* C15 — which node an Emit locks, and what the node retains: an Emit that passed its
   closed-check while an emitter of the type was open uses that emitter's node; n.last of a
   node is the event of the last Emit that locked it. *)
From Coq Require Import List Arith ZArith Bool Lia.
From Verif Require Import lib.Wire c15.Lts c15.Model c15.Spec c15.Proofs c15.Proofs_Chan c15.Proofs_Loc c15.Proofs_List c15.Proofs_Safe
  c15.Proofs_Init c15.Proofs_Once c15.Proofs_First c15.Proofs_Wild c15.Proofs_Thm c15.Proofs_Grow c15.Proofs_Live c15.Proofs_Pend c15.Proofs_Idx c15.Proofs_Dead c15.Proofs_Prog c15.Proofs_Valid c15.Proofs_WildOK
  c15.Proofs_Blk c15.Proofs_Obs c15.Proofs_Loc3 c15.Proofs_WSI c15.Proofs_TY c15.Proofs_Rule13 c15.Proofs_Reads c15.Proofs_Wire c15.Proofs_Disc c15.Proofs_Mon c15.Proofs_MonS
  c15.Proofs_Tr c15.Proofs_Cpl c15.Proofs_RInv c15.Proofs_RCtx c15.Proofs_Prom c15.Proofs_R3 c15.Proofs_CEv c15.Proofs_ChI c15.Proofs_R5 c15.Proofs_Loc4 c15.Proofs_R4
  c15.Proofs_RegA c15.Proofs_RegB c15.Proofs_RegW c15.Proofs_RegRun c15.Proofs_MD c15.Proofs_RF c15.Proofs_R9 c15.Proofs_R7 c15.Proofs_NodeEv c15.Proofs_Keep c15.Proofs_EmitPc.
Import ListNotations.
Local Open Scope Z_scope.

(* an emitter that is open (created, Close not past its CompareAndSwap) keeps its node registered *)
Lemma open_registered : forall c s1 j m, cfg_wf c = true -> nth_error (emitters (St c s1)) j = Some m -> mnew m = 4%nat -> (mcl m = C0 \/ mcl m = C1) ->
  exists nd, nth_error (nodes (St c s1)) (mnode m) = Some nd /\ nty nd = mty m /\ nth_error (bmap (St c s1)) (mty m) = Some (Some (mnode m)).
Proof.
  intros c s1 j m W Em M4 Hcl. destruct (reach_cfg c s1 W) as [G [_ [_ TV]]]. pose proof (rega_cfg c s1 W) as R.
  destruct (gV _ G) as [V1 _]. destruct (TYV_TY _ TV) as [T1 _].
  assert (Ln : (mnode m < length (nodes (St c s1)))%nat) by (apply (V1 _ m Em); lia).
  destruct (nth_error (nodes (St c s1)) (mnode m)) as [nd|] eqn:En; [|apply nth_error_None in En; lia].
  pose proof (T1 _ m nd Em ltac:(lia) En) as Ty. exists nd. split; [reflexivity|]. split; [exact Ty|]. rewrite <- Ty.
  eapply (ra1 _ _ _ R (mnode m) (nty nd) (nem nd) (sinks nd) (npend nd)); [unfold vA; rewrite nth_error_map, En; reflexivity|].
  left. pose proof (ra2 _ _ _ R (mnode m) (nty nd) (nem nd) (sinks nd) (npend nd)) as X. unfold vA in X. rewrite nth_error_map, En in X. specialize (X eq_refl).
  assert (Y : (cntf (openb (mnode m)) (wE (St c s1)) >= 1)%nat).
  { eapply (cntf_pos (openb (mnode m)) (wE (St c s1)) j (mnew m, mnode m, mcl m)); [unfold wE; rewrite nth_error_map, Em; reflexivity|].
    unfold openb. rewrite M4, Nat.eqb_refl. cbn. destruct Hcl as [-> | ->]; reflexivity. }
  lia.
Qed.

(* a registration seen after a step was there before, or is of a node created by the step *)
Lemma bmap_back : forall st t l st' ty n, step st t = Some (l, st') -> nth_error (bmap st') ty = Some (Some n) ->
  nth_error (bmap st) ty = Some (Some n) \/ (length (nodes st) <= n)%nat.
Proof.
  intros st t l st' ty n E H.
  assert (WN : forall ty0 st1 n1, with_node st ty0 = Some (st1, n1) -> nth_error (bmap st1) ty = Some (Some n) ->
                nth_error (bmap st) ty = Some (Some n) \/ (length (nodes st) <= n)%nat).
  { intros ty0 st1 n1 Ew H1. unfold with_node in Ew. destruct (lookup st ty0) as [sl m] eqn:El. destruct (nth_error (nodes sl) m); inversion Ew; subst. cbn in H1.
    unfold lookup in El. destruct (nth_error (bmap st) ty0) as [[k0|]|]; inversion El; subst; cbn in H1; auto;
      apply nth_error_upd_inv in H1; destruct H1 as [[_ [X _]]|[_ H1]]; auto; inversion X; right; lia. }
  assert (TD : forall ty0 st1, try_drop st ty0 = Some st1 -> nth_error (bmap st1) ty = Some (Some n) -> nth_error (bmap st) ty = Some (Some n)).
  { intros ty0 st1 Ed H1. unfold try_drop in Ed. brute Ed; inversion Ed; subst; auto. cbn in H1. apply nth_error_upd_inv in H1. destruct H1 as [[_ [X _]]|[_ H1]]; [discriminate|exact H1]. }
  destruct t; try (apply other_ra in E; [destruct E as [_ [B _]]; rewrite B in H; left; exact H|exact I]); cbn [step] in E.
  - unfold step_emnew in E. destruct (nth_error (emitters st) j) as [m|]; [|discriminate].
    destruct (mnew m) as [|[|[|[|?]]]]; try discriminate; try solve [brute E; inversion E; subst; left; exact H].
    destruct (with_node st (mty m)) as [[st1 n1]|] eqn:Ew; [|discriminate]. inversion E; subst. eapply WN; [exact Ew|exact H].
  - unfold step_emclose in E. destruct (nth_error (emitters st) j) as [m|]; [|discriminate].
    destruct (mcl m); try discriminate; try solve [brute E; inversion E; subst; left; exact H].
    apply otau_Some in E. destruct E as [E _]. apply option_map_Some in E. destruct E as [x [E ->]]. left. eapply TD; [exact E|exact H].
  - unfold step_sub in E. destruct (nth_error (subs st) s) as [c0|]; [|discriminate].
    destruct (spc c0); try solve [brute E; inversion E; subst; left; exact H].
    destruct (styps c0) as [tys|]; [|discriminate]. destruct (nth_error tys i) as [ty0|]; [|discriminate].
    destruct (with_node st ty0) as [[st1 n1]|] eqn:Ew; [|discriminate]. inversion E; subst. eapply WN; [exact Ew|exact H].
  - unfold step_close in E. destruct (nth_error (subs st) s) as [c0|]; [|discriminate].
    destruct (cpc c0); try discriminate; try solve [brute E; inversion E; subst; left; exact H].
    destruct (nth_error (snodes c0) i) as [n0|]; [|discriminate]. destruct (nth_error (nodes st) n0) as [nd|]; [|discriminate].
    apply otau_Some in E. destruct E as [E _]. apply option_map_Some in E. destruct E as [x [E ->]]. left. eapply TD; [exact E|exact H].
Qed.

(* an Emit record of the new state, traced back with its program counter *)
Lemma emit_back_pc : forall st t l st' k e', step st t = Some (l, st') -> nth_error (emits st') k = Some e' ->
  (nth_error (emits st) k = Some e' /\ t <> TEmit k) \/
  (t = TEmit k /\ exists e m p', nth_error (emits st) k = Some e /\ nth_error (emitters st) (eem e) = Some m /\ e' = e_pc e p' /\ pc_move st k e m (epc e) p' l).
Proof.
  intros st t l st' k e' E H. destruct t; try (apply emits_other in E; [rewrite E in H; left; split; [exact H|discriminate]|exact I]).
  cbn [step] in E. destruct (emit_pc_step _ _ _ _ E) as [e [m [p' [Ek [Em [EM Mv]]]]]]. rewrite EM in H.
  apply nth_error_upd_inv in H. destruct H as [[-> [-> _]]|[N H]].
  - right. split; [reflexivity|]. exists e, m, p'. auto.
  - left. split; [exact H|congruence].
Qed.

Definition past_open (p : emit_pc) (ok : bool) : Prop := p = ELock \/ lk_pc false p ok.

(* past the closed-check after this step: it was before, or this is the check on an open emitter *)
Lemma past_open_back : forall st k e m p p' l pre, pc_move st k e m p p' l -> a_ok pre k = false \/ p = EDone ->
  past_open p' (a_ok (pre ++ olab l) k) -> past_open p (a_ok pre k) \/ (p = EChk /\ mclosed m = false /\ l = None).
Proof.
  intros st k e m p p' l pre Mv Hn [P|P].
  - destruct Mv; try discriminate. right. auto.
  - destruct (lk_back _ _ _ _ _ _ _ pre Mv Hn P) as [X|X]; [left; right; exact X|left; left; exact X].
Qed.

Record SN (st : state) (pre : list label) : Prop := {
  sn1 : forall k k2 e e2 m m2, nth_error (emits st) k = Some e -> nth_error (emits st) k2 = Some e2 ->
        nth_error (emitters st) (eem e) = Some m -> nth_error (emitters st) (eem e2) = Some m2 -> mty m = mty m2 ->
        a_rbs pre k k2 = true -> past_open (epc e2) (a_ok pre k2) ->
        nth_error (bmap st) (mty m) = Some (Some (mnode m)) -> mnode m2 = mnode m;
  sn2 : forall j mj k0 e0 m0, nth_error (emitters st) j = Some mj -> mnew mj = 4%nat -> mcl mj = C0 ->
        nth_error (emits st) k0 = Some e0 -> nth_error (emitters st) (eem e0) = Some m0 -> mty m0 = mty mj ->
        before_ pre (lab_is_ret (TEmNew j)) (lab_is_start (TEmit k0)) = true -> past_open (epc e0) (a_ok pre k0) ->
        mnode m0 = mnode mj }.

Lemma before_step : forall pre l fa t, before_ (pre ++ olab l) fa (lab_is_start t) = true ->
  before_ pre fa (lab_is_start t) = true \/ (l = Some (LStart t) /\ o_started pre t = false).
Proof.
  intros pre l fa t H. destruct l as [l|]; [|cbn in H; rewrite app_nil_r in H; left; exact H]. cbn [olab] in H.
  rewrite before_app in H. fold (o_started pre t) in H. destruct (o_started pre t) eqn:S; [left; exact H|].
  destruct (lab_is_start t l) eqn:L; [|discriminate]. right. apply lab_is_start_inv in L. subst l. auto.
Qed.

Lemma not_ret_label : forall st t l st' k, step st t = Some (l, st') -> t <> TEmit k -> forall c, l <> Some (LRet (TEmit k) c).
Proof. intros st t l st' k E N c X. subst l. pose proof (vis_label_inv _ _ _ _ E) as [T _]. congruence. Qed.

(* the Emit whose move is considered has not returned yet (or is done) *)
Lemma move_not_ret : forall c s0 k e m p' l, cfg_wf c = true -> nth_error (emits (St c s0)) k = Some e -> pc_move (St c s0) k e m (epc e) p' l ->
  a_ok (Tr c s0) k = false \/ epc e = EDone.
Proof.
  intros c s0 k e m p' l W Ek Mv. destruct (trok_cfg c s0 W) as [O _ _].
  pose proof (obM _ _ O k (epc e)) as OM. unfold xM in OM. rewrite nth_error_map in OM. fold (St c s0) in OM. rewrite Ek in OM. specialize (OM eq_refl).
  destruct (a_ok (Tr c s0) k) eqn:X; [|left; reflexivity]. right. apply ok_returned in X. unfold tstat in OM. fold (Tr c s0) in OM. rewrite X in OM.
  destruct (epc e); cbn in OM; try discriminate. reflexivity.
Qed.

Lemma emit_back_static : forall st t l st' k e', step st t = Some (l, st') -> nth_error (emits st') k = Some e' ->
  exists e, nth_error (emits st) k = Some e /\ eem e = eem e' /\ eev e = eev e'.
Proof.
  intros st t l st' k e' E H. destruct (emit_back_pc _ _ _ _ _ _ E H) as [[Ek _]|[_ [e [m [p' [Ek [_ [-> _]]]]]]]]; [exists e'; auto|exists e; auto].
Qed.

(* an Emit that has returned after the step was past E0 before it *)
Lemma returned_not_E0 : forall c s0 t l st' k e, cfg_wf c = true -> step (St c s0) t = Some (l, st') -> nth_error (emits (St c s0)) k = Some e ->
  o_returned (Tr c s0 ++ olab l) (TEmit k) = true -> epc e <> E0.
Proof.
  intros c s0 t l st' k e W E Ek R Hp. destruct (trok_cfg c s0 W) as [O _ _].
  pose proof (obM _ _ O k (epc e)) as OM. unfold xM in OM. rewrite nth_error_map in OM. fold (St c s0) in OM. rewrite Ek in OM. specialize (OM eq_refl).
  rewrite Hp in OM. cbn in OM. apply tstat_fresh in OM. destruct OM as [Ns Nr]. fold (Tr c s0) in Ns, Nr.
  destruct l as [lab|]; [|cbn in R; rewrite app_nil_r in R; congruence]. cbn [olab] in R. rewrite o_returned_app, Nr in R. cbn [orb] in R.
  destruct lab as [t0|t0 c0|s|s v]; try discriminate R. unfold lab_is_ret in R. destruct (thr_eqb (TEmit k) t0) eqn:X; [|discriminate].
  destruct t0; cbn in X; try discriminate. apply Nat.eqb_eq in X. subst k0.
  pose proof (label_status _ _ _ _ _ O E) as LS. cbn in LS. apply tstat_started in LS. fold (Tr c s0) in LS. destruct LS. congruence.
Qed.

Lemma sn_step_cfg : forall c s0 t l st', cfg_wf c = true -> SN (St c s0) (Tr c s0) -> step (St c s0) t = Some (l, st') -> SN st' (Tr c s0 ++ olab l).
Proof.
  intros c s0 t l st' W [S1 S2] E. destruct (reach_cfg c s0 W) as [G _]. destruct (gV _ G) as [V1 [_ [V3 _]]].
  destruct (trok_cfg c s0 W) as [O TS TC].
  (* an Emit at its closed-check on an open emitter sees its node registered *)
  assert (EST : forall k e m, nth_error (emits (St c s0)) k = Some e -> epc e = EChk -> nth_error (emitters (St c s0)) (eem e) = Some m -> mclosed m = false ->
                nth_error (bmap (St c s0)) (mty m) = Some (Some (mnode m))).
  { intros k e m Ek Ep Em Hc. assert (M4 : mnew m = 4%nat) by (apply (V3 k e m Ek); [congruence|exact Em]).
    destruct (open_registered c s0 (eem e) m W Em M4 (Forall_nth_error _ _ _ _ (emok_cfg c s0 W) Em Hc)) as [_ [_ [_ X]]]. exact X. }
  (* the second Emit, traced back: either it was past the check already, or this step is its check *)
  assert (BK : forall k2 e2' m2', nth_error (emits st') k2 = Some e2' -> nth_error (emitters st') (eem e2') = Some m2' ->
      past_open (epc e2') (a_ok (Tr c s0 ++ olab l) k2) ->
      exists e2 m2, nth_error (emits (St c s0)) k2 = Some e2 /\ nth_error (emitters (St c s0)) (eem e2) = Some m2 /\ mty m2' = mty m2 /\ mnode m2' = mnode m2 /\
        mnew m2 = 4%nat /\ l <> Some (LStart (TEmit k2)) /\
        (past_open (epc e2) (a_ok (Tr c s0) k2) \/ (epc e2 = EChk /\ mclosed m2 = false /\ l = None /\ bmap st' = bmap (St c s0)))).
  { intros k2 e2' m2' Ek2' Em2' Hp. destruct (emitter_back _ _ _ _ _ _ E Em2') as [m2 [Em2 [Ty2 [Nd2 _]]]].
    destruct (emit_back_pc _ _ _ _ _ _ E Ek2') as [[Ek2 Nk2]|[Tk2 [e2 [mx [p' [Ek2 [Emx [-> Mv]]]]]]]].
    - assert (P0 : epc e2' <> E0) by (intros X; rewrite X in Hp; destruct Hp as [Y|Y]; [discriminate|exact Y]).
      assert (M4 : mnew m2 = 4%nat) by (apply (V3 k2 e2' m2 Ek2 P0 Em2)).
      exists e2', m2. split; [exact Ek2|]. split; [exact Em2|]. split; [exact Ty2|]. split; [apply Nd2; lia|]. split; [exact M4|].
      split; [intros X; subst l; pose proof (vis_label_inv _ _ _ _ E) as [T _]; congruence|].
      left. rewrite (ok_step_other _ l k2 (not_ret_label _ _ _ _ k2 E Nk2)) in Hp. exact Hp.
    - cbn [eem e_pc epc] in *. rewrite Em2 in Emx. inversion Emx; subst mx.
      destruct (past_open_back _ _ _ _ _ _ _ (Tr c s0) Mv (move_not_ret c s0 k2 e2 m2 p' l W Ek2 Mv) Hp) as [X|[X1 [X2 X3]]].
      + assert (P0 : epc e2 <> E0) by (intros Y; rewrite Y in X; destruct X as [Z|Z]; [discriminate|exact Z]).
        assert (M4 : mnew m2 = 4%nat) by (apply (V3 k2 e2 m2 Ek2 P0 Em2)).
        exists e2, m2. split; [exact Ek2|]. split; [exact Em2|]. split; [exact Ty2|]. split; [apply Nd2; lia|]. split; [exact M4|]. split; [|left; exact X].
        intros Y. subst l. inversion Mv; subst; try discriminate. apply P0. congruence.
      + assert (M4 : mnew m2 = 4%nat) by (apply (V3 k2 e2 m2 Ek2); [congruence|exact Em2]).
        exists e2, m2. split; [exact Ek2|]. split; [exact Em2|]. split; [exact Ty2|]. split; [apply Nd2; lia|]. split; [exact M4|]. split; [subst l; discriminate|]. right. split; [exact X1|]. split; [exact X2|]. split; [exact X3|].
        subst t. cbn [step] in E. unfold step_emit in E. fold (St c s0) in E. rewrite Ek2, Em2, X1 in E. inversion E; subst. reflexivity. }
  constructor.
  - intros k k2 e' e2' m' m2' Ek' Ek2' Em' Em2' Ty Hr Hp Hb.
    destruct (BK k2 e2' m2' Ek2' Em2' Hp) as [e2 [m2 [Ek2 [Em2 [Ty2 [Nd2 [M42 [NS Hold]]]]]]]].
    destruct (emit_back_static _ _ _ _ _ _ E Ek') as [e [Ek [Eem _]]]. rewrite <- Eem in Em'.
    destruct (emitter_back _ _ _ _ _ _ E Em') as [m [Em [Ty1 [Nd1 _]]]].
    destruct (rbs_returned _ _ _ Hr) as [Rk _].
    assert (P0 : epc e <> E0) by (eapply returned_not_E0; eassumption).
    assert (M4 : mnew m = 4%nat) by (apply (V3 k e m Ek P0 Em)).
    rewrite Nd1, Nd2 by lia. rewrite Ty1, Nd1 in Hb by lia.
    assert (Hr0 : a_rbs (Tr c s0) k k2 = true) by (destruct (rbs_step _ _ _ _ Hr) as [X|[X _]]; [exact X|contradiction]).
    destruct Hold as [Hold|[Hc [Hcl [Hl Hbm]]]].
    + apply (S1 k k2 e e2 m m2 Ek Ek2 Em Em2 ltac:(congruence) Hr0 Hold).
      destruct (bmap_back _ _ _ _ _ _ E Hb) as [X|X]; [exact X|]. exfalso. assert ((mnode m < length (nodes (St c s0)))%nat) by (apply (V1 _ m Em); lia). lia.
    + rewrite Hbm in Hb. pose proof (EST k2 e2 m2 Ek2 Hc Em2 Hcl) as R2. assert (Tq : mty m = mty m2) by congruence. rewrite Tq in Hb. rewrite R2 in Hb. inversion Hb. reflexivity.
  - intros j mj' k0 e0' m0' Ej' M4' Cl' Ek0' Em0' Ty Hb Hp.
    destruct (BK k0 e0' m0' Ek0' Em0' Hp) as [e0 [m0 [Ek0 [Em0 [Ty0 [Nd0 [M40 [NS Hold]]]]]]]].
    destruct (emitter_back _ _ _ _ _ _ E Ej') as [mj [Ej [Tyj [Ndj [Lej Clj]]]]].
    assert (Hb0 : before_ (Tr c s0) (lab_is_ret (TEmNew j)) (lab_is_start (TEmit k0)) = true).
    { destruct (before_step _ _ _ _ Hb) as [X|[X _]]; [exact X|contradiction]. }
    assert (M4 : mnew mj = 4%nat).
    { destruct (before_true _ _ _ Hb0) as [R _]. fold (o_returned (Tr c s0) (TEmNew j)) in R.
      pose proof (obE _ _ O j (mnew mj) (mnode mj) (mcl mj)) as OE. unfold wE in OE. rewrite nth_error_map in OE. fold (St c s0) in OE. rewrite Ej in OE.
      destruct (OE eq_refl) as [OE1 _]. unfold tstat in OE1. fold (Tr c s0) in OE1. rewrite R in OE1.
      destruct (mnew mj) as [|[|[|[|?]]]]; cbn in OE1; try discriminate. lia. }
    rewrite Nd0, Ndj by lia.
    destruct Hold as [Hold|[Hc [Hcl [Hl Hbm]]]].
    + apply (S2 j mj k0 e0 m0 Ej M4 (Clj Cl') Ek0 Em0 ltac:(congruence) Hb0 Hold).
    + pose proof (EST k0 e0 m0 Ek0 Hc Em0 Hcl) as R0.
      destruct (open_registered c s0 j mj W Ej M4 (or_introl (Clj Cl'))) as [_ [_ [_ Rj]]]. assert (Tq : mty m0 = mty mj) by congruence. rewrite Tq in R0. rewrite Rj in R0. inversion R0. reflexivity.
Qed.

Lemma sn_cfg : forall c s1, cfg_wf c = true -> SN (St c s1) (Tr c s1).
Proof.
  intros c s1 W. unfold St, Tr. apply (coupled_run_all SN).
  - constructor; intros; discriminate.
  - intros s0 t l st' H E. eapply sn_step_cfg; eassumption.
Qed.

(* ---- what a node retains ------------------------------------------------------------------ *)
Record NL (st : state) (pre : list label) : Prop := {
  nl1 : forall n nd k e k2 e2 m2, nth_error (nodes st) n = Some nd -> nlast nd = Some (eev e) -> nth_error (emits st) k = Some e ->
        nth_error (emits st) k2 = Some e2 -> nth_error (emitters st) (eem e2) = Some m2 -> mnode m2 = n ->
        lk_pc false (epc e2) (a_ok pre k2) -> a_rbs pre k k2 = false;
  nl2 : forall j mj k0 e0 m0 nd, nth_error (emitters st) j = Some mj -> mstateful mj = true -> mnew mj = 4%nat -> mcl mj = C0 ->
        nth_error (emits st) k0 = Some e0 -> nth_error (emitters st) (eem e0) = Some m0 -> mty m0 = mty mj ->
        before_ pre (lab_is_ret (TEmNew j)) (lab_is_start (TEmit k0)) = true -> lk_pc false (epc e0) (a_ok pre k0) ->
        nth_error (nodes st) (mnode mj) = Some nd -> nlast nd <> None }.

(* a node of the new state, traced back *)
Lemma node_back : forall st t l st' n nd', step st t = Some (l, st') -> nth_error (nodes st') n = Some nd' ->
  (nlast nd' = None /\ keep nd' = false /\ (length (nodes st) <= n)%nat) \/
  exists nd, nth_error (nodes st) n = Some nd /\
    (nlast nd' = nlast nd \/
     exists k e m, t = TEmit k /\ nth_error (emits st) k = Some e /\ epc e = ELock /\ nth_error (emitters st) (eem e) = Some m /\ mnode m = n /\
                   holder nd = None /\ keep nd = true /\ nlast nd' = Some (eev e) /\ l = None).
Proof.
  intros st t l st' n nd' E Hn'. pose proof (kv_nth _ _ _ Hn') as X.
  destruct (step_node_ev _ _ _ _ E) as [S|ty S|k e m nd Ht Ek Ep Em En Eh S|j m nd Ht Ej Em En S]; rewrite S in X.
  - destruct (kv_inv _ _ _ X) as [nd [En Y]]. inversion Y. right. exists nd. split; [exact En|left; congruence].
  - apply nth_error_app_inv in X. destruct X as [X|[Hl Y]].
    + destruct (kv_inv _ _ _ X) as [nd [En Y]]. inversion Y. right. exists nd. split; [exact En|left; congruence].
    + inversion Y. left. unfold kv in Hl. rewrite map_length in Hl. repeat split; auto. lia.
  - apply nth_error_upd_inv in X. destruct X as [[-> [Y _]]|[N X]].
    + inversion Y as [[Y1 Y2 Y3]]. right. exists nd. split; [exact En|]. destruct (keep nd) eqn:Kp; [|left; congruence].
      right. exists k, e, m. split; [exact Ht|]. split; [exact Ek|]. split; [exact Ep|]. split; [exact Em|]. split; [reflexivity|]. split; [exact Eh|]. split; [reflexivity|].
      split; [rewrite Y3; try rewrite Y2; try rewrite Kp; reflexivity|].
      subst t. cbn [step] in E. unfold step_emit in E. rewrite Ek, Em, Ep, En, Eh in E. inversion E. reflexivity.
    + destruct (kv_inv _ _ _ X) as [nd0 [En0 Y]]. inversion Y. right. exists nd0. split; [exact En0|left; congruence].
  - apply nth_error_upd_inv in X. destruct X as [[-> [Y _]]|[N X]].
    + inversion Y as [[Y1 Y2 Y3]]. right. exists nd. split; [exact En|left; congruence].
    + destruct (kv_inv _ _ _ X) as [nd0 [En0 Y]]. inversion Y. right. exists nd0. split; [exact En0|left; congruence].
Qed.

(* locked after the step: locked before, or this step is the lock point *)
Lemma locked_back : forall c s0 t l st' k2 e2' m2', cfg_wf c = true -> step (St c s0) t = Some (l, st') ->
  nth_error (emits st') k2 = Some e2' -> nth_error (emitters st') (eem e2') = Some m2' -> lk_pc false (epc e2') (a_ok (Tr c s0 ++ olab l) k2) ->
  exists e2 m2, nth_error (emits (St c s0)) k2 = Some e2 /\ nth_error (emitters (St c s0)) (eem e2) = Some m2 /\ eev e2 = eev e2' /\ mty m2' = mty m2 /\ mnode m2' = mnode m2 /\
    mnew m2 = 4%nat /\ l <> Some (LStart (TEmit k2)) /\
    (lk_pc false (epc e2) (a_ok (Tr c s0) k2) \/ (t = TEmit k2 /\ epc e2 = ELock /\ l = None)).
Proof.
  intros c s0 t l st' k2 e2' m2' W E Ek2' Em2' Hl. destruct (reach_cfg c s0 W) as [G _]. destruct (gV _ G) as [_ [_ [V3 _]]].
  destruct (emitter_back _ _ _ _ _ _ E Em2') as [m2 [Em2 [Ty2 [Nd2 _]]]].
  destruct (emit_back_pc _ _ _ _ _ _ E Ek2') as [[Ek2 Nk2]|[Tk2 [e2 [mx [p' [Ek2 [Emx [-> Mv]]]]]]]].
  - assert (P0 : epc e2' <> E0) by (intros X; rewrite X in Hl; exact Hl).
    assert (M4 : mnew m2 = 4%nat) by (apply (V3 k2 e2' m2 Ek2 P0 Em2)).
    exists e2', m2. split; [exact Ek2|]. split; [exact Em2|]. split; [reflexivity|]. split; [exact Ty2|]. split; [apply Nd2; lia|]. split; [exact M4|].
    split; [intros X; subst l; pose proof (vis_label_inv _ _ _ _ E) as [T _]; congruence|].
    left. rewrite (ok_step_other _ l k2 (not_ret_label _ _ _ _ k2 E Nk2)) in Hl. exact Hl.
  - cbn [eem e_pc epc eev] in *. rewrite Em2 in Emx. inversion Emx; subst mx.
    destruct (lk_back _ _ _ _ _ _ _ (Tr c s0) Mv (move_not_ret c s0 k2 e2 m2 p' l W Ek2 Mv) Hl) as [X|X].
    + assert (P0 : epc e2 <> E0) by (intros Y; rewrite Y in X; exact X).
      assert (M4 : mnew m2 = 4%nat) by (apply (V3 k2 e2 m2 Ek2 P0 Em2)).
      exists e2, m2. split; [exact Ek2|]. split; [exact Em2|]. split; [reflexivity|]. split; [exact Ty2|]. split; [apply Nd2; lia|]. split; [exact M4|]. split; [|left; exact X].
      intros Y. subst l. inversion Mv; subst; try discriminate. apply P0. congruence.
    + assert (M4 : mnew m2 = 4%nat) by (apply (V3 k2 e2 m2 Ek2); [congruence|exact Em2]).
      exists e2, m2. split; [exact Ek2|]. split; [exact Em2|]. split; [reflexivity|]. split; [exact Ty2|]. split; [apply Nd2; lia|]. split; [exact M4|].
      rewrite X in Mv. inversion Mv; subst. split; [discriminate|]. right. auto.
Qed.

Lemma nl_step_cfg : forall c s0 t l st', cfg_wf c = true -> NL (St c s0) (Tr c s0) -> step (St c s0) t = Some (l, st') -> NL st' (Tr c s0 ++ olab l).
Proof.
  intros c s0 t l st' W [N1 N2] E. destruct (reach_cfg c s0 W) as [G _]. destruct (gV _ G) as [V1 [_ [V3 _]]].
  destruct (trok_cfg c s0 W) as [O TS TC]. pose proof (kp_cfg c s0 W) as [K1 K2 K3].
  assert (NR : forall k e, nth_error (emits (St c s0)) k = Some e -> epc e = ELock -> o_returned (Tr c s0) (TEmit k) = false).
  { intros k e Ek Ep. pose proof (obM _ _ O k (epc e)) as OM. unfold xM in OM. rewrite nth_error_map in OM. fold (St c s0) in OM. rewrite Ek in OM. specialize (OM eq_refl).
    rewrite Ep in OM. cbn in OM. apply tstat_started in OM. apply OM. }
  constructor.
  - intros n nd' k e' k2 e2' m2' Hn' Hl Ek' Ek2' Em2' Hmn Hlk.
    destruct (locked_back c s0 t l st' k2 e2' m2' W E Ek2' Em2' Hlk) as [e2 [m2 [Ek2 [Em2 [Ev2 [Ty2 [Nd2 [M42 [NS Hold]]]]]]]]].
    destruct (emit_back_static _ _ _ _ _ _ E Ek') as [e [Ek [_ Ev]]].
    destruct (a_rbs (Tr c s0 ++ olab l) k k2) eqn:Hr; [exfalso|reflexivity].
    assert (Hr0 : a_rbs (Tr c s0) k k2 = true) by (destruct (rbs_step _ _ _ _ Hr) as [X|[X _]]; [exact X|contradiction]).
    destruct (rbs_returned _ _ _ Hr0) as [Rk _].
    destruct (node_back _ _ _ _ _ _ E Hn') as [[X _]|[nd [Hn [Same|[kl [el [ml [Tl [Ekl [Epl [Eml [Mnl [Hh [Kp [Hll Hnone]]]]]]]]]]]]]]]; [congruence| |].
    + (* the retained event is the old one *)
      destruct Hold as [Hold|[Tk2 [Ep2 _]]].
      * rewrite (N1 n nd k e k2 e2 m2 Hn ltac:(congruence) Ek Ek2 Em2 ltac:(congruence) Hold) in Hr0. discriminate.
      * (* k2 locks this very node now: then the retained event changes, unless keep is off *)
        subst t. cbn [step] in E. unfold step_emit in E. fold (St c s0) in E. rewrite Ek2, Em2, Ep2 in E.
        assert (Hq : mnode m2 = n) by congruence. rewrite Hq, Hn in E. destruct (holder nd); [discriminate|]. inversion E; subst l st'. cbn in Hn'. rewrite (nth_error_upd_eq _ _ _ _ Hn) in Hn'. inversion Hn'; subst nd'. cbn in Hl, Same.
        destruct (keep nd) eqn:Kp; [|rewrite (K1 n nd Hn Kp) in Hl; discriminate].
        inversion Hl as [Hv]. assert (k2 = k) by (eapply (Proofs_RCtx.ids_unique c s0); eauto; congruence). subst k2.
        rewrite (NR k e2 Ek2 Ep2) in Rk. discriminate.
    + (* the retained event was just written by the Emit at its lock point *)
      assert (kl = k) by (eapply (Proofs_RCtx.ids_unique c s0); eauto; congruence). subst kl. rewrite (NR k el Ekl Epl) in Rk. discriminate.
  - intros j mj' k0 e0' m0' nd' Ej' Ms' M4' Cl' Ek0' Em0' Ty Hb Hlk Hn'.
    destruct (locked_back c s0 t l st' k0 e0' m0' W E Ek0' Em0' Hlk) as [e0 [m0 [Ek0 [Em0 [Ev0 [Ty0 [Nd0 [M40 [NS Hold]]]]]]]]].
    destruct (emitter_back _ _ _ _ _ _ E Ej') as [mj [Ej [Tyj [Ndj [Lej Clj]]]]].
    destruct (emitter_static _ _ _ _ _ _ _ E Ej Ej') as [_ Msj].
    assert (Hb0 : before_ (Tr c s0) (lab_is_ret (TEmNew j)) (lab_is_start (TEmit k0)) = true).
    { destruct (before_step _ _ _ _ Hb) as [X|[X _]]; [exact X|contradiction]. }
    assert (M4 : mnew mj = 4%nat).
    { destruct (before_true _ _ _ Hb0) as [R _]. fold (o_returned (Tr c s0) (TEmNew j)) in R.
      pose proof (obE _ _ O j (mnew mj) (mnode mj) (mcl mj)) as OE. unfold wE in OE. rewrite nth_error_map in OE. fold (St c s0) in OE. rewrite Ej in OE.
      destruct (OE eq_refl) as [OE1 _]. unfold tstat in OE1. fold (Tr c s0) in OE1. rewrite R in OE1.
      destruct (mnew mj) as [|[|[|[|?]]]]; cbn in OE1; try discriminate. lia. }
    rewrite Ndj in Hn' by lia.
    destruct (K3 j mj Ej ltac:(congruence) ltac:(lia)) as [ndk [Hnk Kpk]].
    destruct (node_back _ _ _ _ _ _ E Hn') as [[_ [_ X]]|[nd [Hn [Same|[kl [el [ml [Tl [Ekl [Epl [Eml [Mnl [Hh [Kp [Hll Hnone]]]]]]]]]]]]]]].
    + assert ((mnode mj < length (nodes (St c s0)))%nat) by (apply (V1 _ mj Ej); lia). lia.
    + rewrite Same. destruct Hold as [Hold|[Tk0 [Ep0 _]]].
      * exact (N2 j mj k0 e0 m0 nd Ej ltac:(congruence) M4 (Clj Cl') Ek0 Em0 ltac:(congruence) Hb0 Hold Hn).
      * (* k0 locks now: by the same-node invariant it locks this node, whose keep flag is set *)
        pose proof (sn2 _ _ (sn_cfg c s0 W) j mj k0 e0 m0 Ej M4 (Clj Cl') Ek0 Em0 ltac:(congruence) Hb0 (or_introl Ep0)) as Hq.
        subst t. cbn [step] in E. unfold step_emit in E. fold (St c s0) in E. rewrite Ek0, Em0, Ep0, Hq, Hn in E.
        destruct (holder nd); [discriminate|]. inversion E; subst l st'. cbn in Hn'. rewrite (nth_error_upd_eq _ _ _ _ Hn) in Hn'. inversion Hn'; subst nd'. cbn in Same.
        rewrite Hnk in Hn. inversion Hn; subst ndk. rewrite Kpk in Same. rewrite <- Same. discriminate.
    + rewrite Hll. discriminate.
Qed.

Lemma nl_cfg : forall c s1, cfg_wf c = true -> NL (St c s1) (Tr c s1).
Proof.
  intros c s1 W. unfold St, Tr. apply (coupled_run_all NL).
  - constructor; intros.
    + destruct (cfg_wf_init c W) as [[[Hn _] _] _]. rewrite Hn in H. destruct n; discriminate.
    + discriminate.
  - intros s0 t l st' H E. eapply nl_step_cfg; eassumption.
Qed.

(* C15 — invariants that couple the state with the visible trace so far: the induction
   principle (over all schedules / over disciplined schedules) and the basic facts about
   start and return labels. *)
From Coq Require Import List Arith ZArith Bool Lia.
From Verif Require Import lib.Wire c15.Lts c15.Model c15.Spec c15.Proofs c15.Proofs_Chan c15.Proofs_Loc c15.Proofs_List c15.Proofs_Safe
  c15.Proofs_Init c15.Proofs_Live c15.Proofs_Pend c15.Proofs_Idx c15.Proofs_Dead c15.Proofs_Prog c15.Proofs_Valid c15.Proofs_WildOK
  c15.Proofs_Blk c15.Proofs_Obs c15.Proofs_Rule13 c15.Proofs_Wire c15.Proofs_Disc c15.Proofs_Tr.
Import ListNotations.

Lemma coupled_run_all : forall (I : state -> list label -> Prop) init,
  I init [] ->
  (forall s1 t l st', I (run step init s1) (trace step init s1) -> step (run step init s1) t = Some (l, st') ->
      I st' (trace step init s1 ++ olab l)) ->
  forall sched, I (run step init sched) (trace step init sched).
Proof.
  intros I init H0 Hs sched. induction sched as [|t s1 IH] using rev_ind; [exact H0|].
  rewrite run_app, trace_app. cbn. destruct (step (run step init s1) t) as [[l st']|] eqn:E.
  - specialize (Hs s1 t l st' IH E). destruct l; exact Hs.
  - rewrite app_nil_r. exact IH.
Qed.

Lemma coupled_run : forall (I : state -> list label -> Prop) init,
  I init [] ->
  (forall s1 t l st', disciplined step thrs stim init (s1 ++ [t]) ->
      I (run step init s1) (trace step init s1) -> step (run step init s1) t = Some (l, st') ->
      I st' (trace step init s1 ++ olab l)) ->
  forall sched, disciplined step thrs stim init sched -> I (run step init sched) (trace step init sched).
Proof.
  intros I init H0 Hs sched. induction sched as [|t s1 IH] using rev_ind; intros D; [exact H0|].
  pose proof D as D0. apply disciplined_app in D. destruct D as [D1 _]. specialize (IH D1).
  rewrite run_app, trace_app. cbn. destruct (step (run step init s1) t) as [[l st']|] eqn:E.
  - specialize (Hs s1 t l st' D0 IH E). destruct l; exact Hs.
  - rewrite app_nil_r. exact IH.
Qed.

(* a stimulus is only issued at a quiescent state *)
Lemma disc_last : forall init s1 t l st', disciplined step thrs stim init (s1 ++ [t]) ->
  step (run step init s1) t = Some (Some l, st') -> stim l = true -> quiescent step thrs stim (run step init s1) = true.
Proof. intros. eapply disciplined_at; eassumption. Qed.

(* ---- start / return labels against the status read from the trace ---------------- *)
Lemma vis_label_inv : forall st t l st', step st t = Some (Some l, st') ->
  match l with
  | LStart t0 | LRet t0 _ => t = t0 /\ op_thr t0 = true
  | LReq s => t = TReq s | LRead s _ => t = TRead s end.
Proof.
  intros st t l st' E. destruct t; cbn [step] in E;
    [unfold step_emnew in E|unfold step_emclose in E|unfold step_emit in E|unfold step_sub in E|unfold step_replay in E
    |unfold step_close in E|unfold step_drain in E|unfold step_req in E|unfold step_recv in E|unfold step_read in E];
    unfold otau, tau, vis in E; brk E; inversion E; subst; auto.
Qed.

Lemma label_status : forall st tr t l st', Obs st tr -> step st t = Some (Some l, st') ->
  match l with
  | LStart t0 => tstat tr t0 = 0
  | LRet t0 _ => tstat tr t0 = 1
  | _ => True end.
Proof.
  intros st tr t l st' O E. destruct t; cbn [step] in E.
  - unfold step_emnew in E. destruct (nth_error (emitters st) j) as [m|] eqn:Ej; [|discriminate].
    assert (X : tstat tr (TEmNew j) = st_new (mnew m)).
    { eapply (obE _ _ O j (mnew m) (mnode m) (mcl m)). unfold wE. rewrite nth_error_map, Ej. reflexivity. }
    destruct (mnew m) as [|[|[|[|?]]]]; unfold otau, tau, vis in E; brk E; inversion E; subst; exact X.
  - unfold step_emclose in E. destruct (nth_error (emitters st) j) as [m|] eqn:Ej; [|discriminate].
    assert (X : tstat tr (TEmClose j) = st_cl (mcl m)).
    { eapply (obE _ _ O j (mnew m) (mnode m) (mcl m)). unfold wE. rewrite nth_error_map, Ej. reflexivity. }
    destruct (mcl m); unfold otau, tau, vis in E; brk E; inversion E; subst; exact X.
  - unfold step_emit in E. destruct (nth_error (emits st) k) as [e|] eqn:Ek; [|discriminate].
    assert (X : tstat tr (TEmit k) = st_emit (epc e)).
    { eapply (obM _ _ O k). unfold xM. rewrite nth_error_map, Ek. reflexivity. }
    destruct (nth_error (emitters st) (eem e)); [|discriminate].
    destruct (epc e); unfold otau, tau, vis in E; brk E; inversion E; subst; exact X.
  - unfold step_sub in E. destruct (nth_error (subs st) s) as [c|] eqn:Ec; [|discriminate].
    assert (X : tstat tr (TSub s) = st_sub (spc c)).
    { eapply (obS _ _ O s). unfold xS. rewrite nth_error_map, Ec. reflexivity. }
    destruct (spc c); unfold otau, tau, vis in E; brk E; inversion E; subst; exact X.
  - unfold step_replay in E. unfold otau, tau, vis in E; brk E; inversion E.
  - unfold step_close in E. destruct (nth_error (subs st) s) as [c|] eqn:Ec; [|discriminate].
    assert (X : tstat tr (TClose s) = st_close (cpc c)).
    { eapply (obC _ _ O s). unfold xC. rewrite nth_error_map, Ec. reflexivity. }
    destruct (cpc c); unfold otau, tau, vis in E; brk E; inversion E; subst; exact X.
  - unfold step_drain in E. unfold otau, tau, vis in E; brk E; inversion E.
  - unfold step_req in E. brk E; inversion E; exact I.
  - unfold step_recv in E. unfold otau, tau, vis in E; brk E; inversion E.
  - unfold step_read in E. brk E; inversion E; exact I.
Qed.

Lemma existsb_impl : forall {A} (f g : A -> bool) l, (forall x, f x = true -> g x = true) -> existsb f l = true -> existsb g l = true.
Proof. intros A f g l H E. apply existsb_exists in E. destruct E as [x [Hx Fx]]. apply existsb_exists. exists x. auto. Qed.

Lemma ret_code_ret : forall t c l, lab_is_ret_code t c l = true -> lab_is_ret t l = true.
Proof. intros t c [| t' c'| |]; cbn; try discriminate. intros H. apply andb_true_iff in H. apply H. Qed.

Lemma ok_returned : forall tr k, a_ok tr k = true -> o_returned tr (TEmit k) = true.
Proof. intros tr k. apply existsb_impl. intros x. apply ret_code_ret. Qed.
Lemma failed_returned : forall tr k, a_failed tr k = true -> o_returned tr (TEmit k) = true.
Proof. intros tr k. apply existsb_impl. intros x. apply ret_code_ret. Qed.

Lemma tstat_started : forall tr t, tstat tr t = 1 -> o_started tr t = true /\ o_returned tr t = false.
Proof. intros tr t H. unfold tstat in H. destruct (o_returned tr t); [discriminate|]. destruct (o_started tr t); [auto|discriminate]. Qed.
Lemma tstat_fresh : forall tr t, tstat tr t = 0 -> o_started tr t = false /\ o_returned tr t = false.
Proof. intros tr t H. unfold tstat in H. destruct (o_returned tr t); [discriminate|]. destruct (o_started tr t); [discriminate|auto]. Qed.
Lemma tstat_done : forall tr t, tstat tr t = 2 -> o_returned tr t = true.
Proof. intros tr t H. unfold tstat in H. destruct (o_returned tr t); [reflexivity|]. destruct (o_started tr t); discriminate. Qed.

(* basic well-formedness of model traces, with the state:
   returned implies started; a returned Emit has exactly one return code *)
Record TrOK (st : state) (tr : list label) : Prop := {
  tO : Obs st tr;
  tS : forall t, o_returned tr t = true -> o_started tr t = true;
  tC : forall k, a_ok tr k = true -> a_failed tr k = true -> False }.

Lemma olab_none : forall tr : list label, tr ++ olab None = tr.
Proof. intros. cbn. apply app_nil_r. Qed.

Lemma trok_step : forall st tr t l st', TrOK st tr -> step st t = Some (l, st') -> TrOK st' (tr ++ olab l).
Proof.
  intros st tr t l st' [O S C] E. constructor; [eapply step_obs; eassumption| |].
  - destruct l as [l|]; [|rewrite olab_none; exact S]. cbn [olab]. intros t0. rewrite o_returned_app, o_started_app.
    intros H. apply orb_true_iff in H. destruct H as [H|H]; [rewrite (S t0 H); reflexivity|].
    pose proof (label_status st tr t l st' O E) as L. destruct l as [t1|t1 c|s|s v]; cbn in H; try discriminate.
    apply tstat_started in L. assert (t0 = t1); [|subst; rewrite (proj1 L); reflexivity].
    destruct t0, t1; cbn in H; try discriminate; try (apply Nat.eqb_eq in H; subst; reflexivity).
    apply andb_true_iff in H. destruct H as [H1 H2]. apply Nat.eqb_eq in H1, H2. subst. reflexivity.
  - destruct l as [l|]; [|rewrite olab_none; exact C]. cbn [olab]. intros k. unfold a_ok, a_failed. rewrite !existsb_snoc.
    intros H1 H2. apply orb_true_iff in H1, H2.
    pose proof (label_status st tr t l st' O E) as L.
    assert (N : forall c, lab_is_ret_code (TEmit k) c l = true -> a_ok tr k = false /\ a_failed tr k = false).
    { intros c Hc. destruct l as [t1|t1 c1|s|s v]; cbn in Hc; try discriminate. apply andb_true_iff in Hc. destruct Hc as [Hc _].
      destruct t1; cbn in Hc; try discriminate. apply Nat.eqb_eq in Hc. subst k0. apply tstat_started in L. destruct L as [_ L].
      split; apply not_true_is_false; intros X; [apply ok_returned in X|apply failed_returned in X]; congruence. }
    destruct H1 as [H1|H1], H2 as [H2|H2].
    + exact (C k H1 H2).
    + destruct (N _ H2) as [X _]. unfold a_ok in X. congruence.
    + destruct (N _ H1) as [_ X]. unfold a_failed in X. congruence.
    + destruct l as [t1|t1 c1|s|s v]; try discriminate. unfold lab_is_ret_code in H1, H2. apply andb_true_iff in H1, H2.
      destruct H1 as [_ H1], H2 as [_ H2]. apply Z.eqb_eq in H1, H2. congruence.
Qed.

Lemma trok_init : forall st, fresh_init st -> TrOK st [].
Proof. intros st H. constructor; [apply initial_obs, H|intros t X; discriminate|intros k X; discriminate]. Qed.

Lemma trok_run : forall st sched, fresh_init st -> TrOK (run step st sched) (trace step st sched).
Proof.
  intros st sched H. apply (coupled_run_all TrOK); [apply trok_init, H|].
  intros s1 t l st' I E. eapply trok_step; eassumption.
Qed.

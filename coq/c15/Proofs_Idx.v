(* C15 — more per-subscription control invariants, needed only by the progress
   theorem: loop indices stay in range and the wildcard Close protocol keeps
   its drainer alive until wg.Wait returns. *)
From Coq Require Import List Arith ZArith Bool Lia.
From Verif Require Import c15.Lts c15.Model c15.Proofs_Chan c15.Proofs_Loc c15.Proofs_List c15.Proofs_Safe.
Import ListNotations.

Definition kw14 (p : close_pc) : bool := match p with KW1 | KW2 | KW3 | KW4 => true | _ => false end.
Definition kidx (p : close_pc) : option nat := match p with KRem i | KBus i | KDrop i => Some i | _ => None end.

Definition idx2 (c : sub) : Prop :=
  (forall i tys, spc c = SBus i -> styps c = Some tys -> i < length tys) /\
  (forall i, kidx (cpc c) = Some i -> i < length (snodes c)) /\
  (cpc c = KW5 -> drain c = 2 \/ drain c = 3) /\
  (kw14 (cpc c) = true -> drain c = 1).

Definition Both (c : sub) : Prop := sub_loc c /\ idx2 c.

Ltac i2_sub Ec :=
  let y := fresh in let Hy := fresh in let Py := fresh in
  intros y Hy Py; rewrite Ec in Hy; inversion Hy; subst; clear Hy;
  destruct Py as [Q1 [Q2 [Q3 Q4]]]; unfold idx2; cbn.

Ltac i2_auto := repeat split; intros; try discriminate; try congruence; eauto;
  try (match goal with X : kidx _ = Some _ |- _ => cbn in X; try discriminate; inversion X; subst end);
  try (cbn; lia); eauto.

Lemma send_i2 : forall st s it st', Forall idx2 (subs st) -> send st s it = Some st' -> Forall idx2 (subs st').
Proof.
  intros st s it st' H E. unfold send in E. destruct (nth_error (subs st) s) as [c|] eqn:Ec; [|discriminate].
  destruct (closed c). { inversion E; subst. exact H. }
  destruct (room c); [|discriminate]. inversion E; subst. cbn.
  apply Forall_upd; [exact H|]. i2_sub Ec. auto.
Qed.

Lemma expect_i2 : forall l tg it i, Forall idx2 l -> Forall idx2 (expect_all l tg it i).
Proof. induction l as [|c l IH]; intros tg it i H; cbn; [constructor|]. inversion H; subst. constructor; [exact H2|apply IH; assumption]. Qed.

Lemma emit_i2 : forall st k l st', Forall idx2 (subs st) -> step_emit st k = Some (l, st') -> Forall idx2 (subs st').
Proof.
  intros st k l st' H E. unfold step_emit in E.
  destruct (nth_error (emits st) k) as [e|]; [|discriminate].
  destruct (nth_error (emitters st) (eem e)) as [m|]; [|discriminate].
  destruct (epc e) as [| | |n [|x r]|n|n|n [|x r]|c|]; try discriminate.
  - destruct (Nat.eqb (mnew m) 4); inversion E; subst; exact H.
  - inversion E; subst; exact H.
  - destruct (nth_error (nodes st) (mnode m)) as [nd|]; [|discriminate].
    destruct (holder nd); [discriminate|]. inversion E; subst. cbn. apply expect_i2. exact H.
  - destruct (nth_error (nodes st) n); inversion E; subst; exact H.
  - otau_inv E. cbn. eapply send_i2; eassumption.
  - inversion E; subst; exact H.
  - destruct (wpend (wild st)); [discriminate|]. inversion E; subst. cbn. apply expect_i2. exact H.
  - inversion E; subst; exact H.
  - otau_inv E. cbn. eapply send_i2; eassumption.
  - inversion E; subst; exact H.
Qed.

Lemma sub_i2 : forall st s l st', Forall sub_loc (subs st) -> Forall idx2 (subs st) -> step_sub st s = Some (l, st') -> Forall idx2 (subs st').
Proof.
  intros st s l st' HL H E. unfold step_sub in E.
  destruct (nth_error (subs st) s) as [c|] eqn:Ec; [|discriminate].
  pose proof (Forall_nth_error _ _ _ _ HL Ec) as Hloc.
  destruct (spc c) eqn:Ep.
  - destruct (styps c) as [tys|] eqn:Et; inversion E; subst; cbn; (apply Forall_upd; [exact H|]); i2_sub Ec.
    + destruct tys; i2_auto. match goal with X : SBus 0 = SBus _ |- _ => inversion X; subst end.
      match goal with X : styps _ = Some ?t |- _ < length ?t => rewrite Et in X; inversion X; subst end. cbn. lia.
    + i2_auto.
  - destruct (styps c) as [tys|] eqn:Et; [|discriminate]. destruct (nth_error tys i) as [ty|]; [|discriminate].
    destruct (with_node st ty) as [[st1 n]|] eqn:Ew; [|discriminate]. inversion E; subst. cbn.
    rewrite (with_node_subs _ _ _ _ Ew). apply Forall_upd; [exact H|]. i2_sub Ec. i2_auto.
  - destruct (styps c) as [tys|] eqn:Et; [|discriminate].
    destruct (nth_error (nodes st) n) as [nd|]; [|discriminate].
    destruct (holder nd); [discriminate|]. inversion E; subst. cbn.
    assert (Hk : cpc c = K0) by (apply cpc_K0; [exact Hloc|congruence]).
    apply Forall_upd; [exact H|]. intros y Hy Py. rewrite Ec in Hy. inversion Hy; subst y. clear Hy.
    destruct Py as [Q1 [Q2 [Q3 Q4]]].
    assert (G : idx2 (c_app c (if Nat.ltb (S i) (length tys) then SBus (S i) else SRet) n)).
    { unfold idx2. cbn [spc styps cpc snodes drain c_app]. rewrite Et, Hk. repeat split; intros; try discriminate.
      destruct (Nat.ltb (S i) (length tys)) eqn:El; [|congruence].
      match goal with X : SBus _ = SBus _ |- _ => inversion X; subst end.
      match goal with X : Some _ = Some _ |- _ => inversion X; subst end.
      apply Nat.ltb_lt in El. exact El. }
    destruct (keep nd); [destruct (nlast nd)|]; exact G.
  - inversion E; subst; cbn; (apply Forall_upd; [exact H|]); i2_sub Ec. i2_auto.
  - destruct (wpend (wild st)); [discriminate|]. inversion E; subst; cbn; (apply Forall_upd; [exact H|]); i2_sub Ec. i2_auto.
  - destruct (Nat.eqb (rdrs (wild st)) 0); [|discriminate]. inversion E; subst; cbn; (apply Forall_upd; [exact H|]); i2_sub Ec. i2_auto.
  - inversion E; subst; cbn; (apply Forall_upd; [exact H|]); i2_sub Ec. i2_auto.
  - destruct (styps c); discriminate.
Qed.

Lemma replay_i2 : forall st s i l st', Forall idx2 (subs st) -> step_replay st s i = Some (l, st') -> Forall idx2 (subs st').
Proof.
  intros st s i l st' H E. unfold step_replay in E.
  destruct (nth_error (subs st) s) as [c|] eqn:Ec; [|discriminate].
  destruct (nth_error (rpend c) i) as [[|]|]; try discriminate.
  destruct (nth_error (snodes c) i) as [n|]; [|discriminate].
  destruct (nth_error (nodes st) n) as [nd|]; [|discriminate].
  assert (Hfin : forall st0, Forall idx2 (subs st0) ->
     Forall idx2 (subs (match nth_error (subs st0) s with
                        | Some c' => set_node (set_sub st0 s (c_rpend c' (upd (rpend c') i false))) n (n_holder nd None)
                        | None => st0 end))).
  { intros st0 H0. destruct (nth_error (subs st0) s) as [c'|] eqn:Ec'; [|exact H0]. cbn.
    apply Forall_upd; [exact H0|]. i2_sub Ec'. auto. }
  destruct (keep nd); [destruct (nlast nd) as [lv|]|].
  - otau_inv E. apply Hfin. eapply send_i2; eassumption.
  - inversion E; subst. cbn. apply Forall_upd; [exact H|]. i2_sub Ec. auto.
  - inversion E; subst. cbn. apply Forall_upd; [exact H|]. i2_sub Ec. auto.
Qed.

Lemma close_i2 : forall st s l st', Forall sub_loc (subs st) -> Forall idx2 (subs st) -> step_close st s = Some (l, st') -> Forall idx2 (subs st').
Proof.
  intros st s l st' HL H E. unfold step_close in E.
  destruct (nth_error (subs st) s) as [c|] eqn:Ec; [|discriminate].
  destruct (cpc c) eqn:Ek.
  - destruct (spc c) eqn:Ep; try discriminate. inversion E; subst. cbn.
    apply Forall_upd; [exact H|]. i2_sub Ec. destruct (styps H0) as [tys|]; [destruct (snodes H0) eqn:Es|]; i2_auto.
  - destruct (nth_error (snodes c) i) as [n|] eqn:Es; [|discriminate].
    destruct (nth_error (nodes st) n) as [nd|]; [|discriminate].
    destruct (holder nd); [discriminate|]. inversion E; subst. cbn. apply Forall_upd; [exact H|]. i2_sub Ec.
    rewrite Ek in *. unfold knext.
    destruct ((match remove_swap s (sinks nd) with [] => true | _ :: _ => false end) && Nat.eqb (nem nd) 0);
      [|destruct (Nat.ltb (S i) (length (snodes H0))) eqn:El]; i2_auto; apply Nat.ltb_lt in El; exact El.
  - inversion E; subst. cbn. apply Forall_upd; [exact H|]. i2_sub Ec. rewrite Ek in *. i2_auto.
  - destruct (nth_error (snodes c) i) as [n|]; [|discriminate].
    destruct (nth_error (nodes st) n) as [nd|]; [|discriminate].
    otau_inv E. cbn. rewrite (try_drop_subs _ _ _ E). apply Forall_upd; [exact H|]. i2_sub Ec.
    rewrite Ek in *. unfold knext. destruct (Nat.ltb (S i) (length (snodes H0))) eqn:El; i2_auto; apply Nat.ltb_lt in El; exact El.
  - inversion E; subst. cbn. apply Forall_upd; [exact H|]. i2_sub Ec. rewrite Ek in *. i2_auto.
  - inversion E; subst. cbn. apply Forall_upd; [exact H|]. i2_sub Ec. rewrite Ek in *. i2_auto.
  - destruct (wpend (wild st)); [discriminate|]. inversion E; subst. cbn. apply Forall_upd; [exact H|]. i2_sub Ec. rewrite Ek in *. i2_auto.
  - destruct (Nat.eqb (rdrs (wild st)) 0); [|discriminate]. inversion E; subst. cbn. apply Forall_upd; [exact H|]. i2_sub Ec. rewrite Ek in *. i2_auto.
  - inversion E; subst. cbn. apply Forall_upd; [exact H|]. i2_sub Ec. rewrite Ek in *.
    assert (D1 : drain H0 = 1) by (apply Q4; reflexivity). rewrite D1. cbn. i2_auto.
  - destruct (Nat.eqb (drain c) 3); [|discriminate]. inversion E; subst. cbn. apply Forall_upd; [exact H|]. i2_sub Ec. rewrite Ek in *. i2_auto.
  - inversion E; subst. cbn. apply Forall_upd; [exact H|]. i2_sub Ec. rewrite Ek in *. i2_auto.
  - discriminate.
Qed.

Lemma drain_i2 : forall st s l st', Forall sub_loc (subs st) -> Forall idx2 (subs st) -> step_drain st s = Some (l, st') -> Forall idx2 (subs st').
Proof.
  intros st s l st' HL H E. unfold step_drain in E.
  destruct (nth_error (subs st) s) as [c|] eqn:Ec; [|discriminate].
  pose proof (Forall_nth_error _ _ _ _ HL Ec) as [P1 [_ [_ P4]]].
  destruct (draining c) eqn:Ed; [|discriminate].
  destruct (buf c).
  - destruct (Nat.eqb (drain c) 2 || closed c) eqn:Ex; [|discriminate]. inversion E; subst. cbn.
    apply Forall_upd; [exact H|]. i2_sub Ec. repeat split; intros; auto.
    exfalso. specialize (Q4 H1). rewrite Q4 in Ex. cbn in Ex.
    destruct (P1 Ex) as [X|X]; rewrite X in H1; discriminate.
  - inversion E; subst. cbn. apply Forall_upd; [exact H|]. i2_sub Ec. auto.
Qed.

Lemma step_i2 : forall st t l st', Forall sub_loc (subs st) -> Forall idx2 (subs st) -> step st t = Some (l, st') -> Forall idx2 (subs st').
Proof.
  intros st t l st' HL H E. destruct t; cbn in E.
  - rewrite (emnew_subs _ _ _ _ E). exact H.
  - rewrite (emclose_subs _ _ _ _ E). exact H.
  - eapply emit_i2; eassumption.
  - eapply sub_i2; eassumption.
  - eapply replay_i2; eassumption.
  - eapply close_i2; eassumption.
  - eapply drain_i2; eassumption.
  - unfold step_req in E. destruct (nth_error (subs st) s) as [c|] eqn:Ec; [|discriminate]. inversion E; subst. cbn.
    apply Forall_upd; [exact H|]. i2_sub Ec. auto.
  - unfold step_recv in E. destruct (nth_error (subs st) s) as [c|] eqn:Ec; [|discriminate].
    destruct (want c); [discriminate|]. destruct (buf c).
    + destruct (closed c); [|discriminate]. inversion E; subst. cbn. apply Forall_upd; [exact H|]. i2_sub Ec. auto.
    + inversion E; subst. cbn. apply Forall_upd; [exact H|]. i2_sub Ec. auto.
  - unfold step_read in E. destruct (nth_error (subs st) s) as [c|] eqn:Ec; [|discriminate].
    destruct (hand c); [discriminate|]. inversion E; subst. cbn. apply Forall_upd; [exact H|]. i2_sub Ec. auto.
Qed.

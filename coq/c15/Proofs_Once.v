(* C15 — exactly once, in node-lock order.  For a typed subscription s and a
   node n, the items tagged n that were sent into s's channel (ghost hist),
   followed by what the current holder of n.lk still owes s, are exactly the
   items s was promised at the linearisation points (ghost expd: appended when
   an Emit takes n.lk while s is in n.sinks, and when Subscribe appends s to a
   node that retains an event). *)
From Coq Require Import List Arith ZArith Bool Lia.
From Verif Require Import c15.Lts c15.Model c15.Proofs_Chan c15.Proofs_Loc c15.Proofs_List c15.Proofs_Safe.
Import ListNotations.

Definition proj (n : nat) (l : list item) : list item := filter (fun it => Nat.eqb (fst it) n) l.

Definition pend_emit (st : state) (k s n : nat) : list item :=
  match nth_error (emits st) k with
  | Some e => match epc e with
              | ESend n' todo => if Nat.eqb n' n then repeat (n, eev e) (cnt todo s) else []
              | _ => [] end
  | None => []
  end.

Definition retained (nd : node) (n : nat) : list item :=
  match keep nd, nlast nd with true, Some l => [(n, l)] | _, _ => [] end.

Definition pend_replay (st : state) (nd : node) (s' i s n : nat) : list item :=
  if Nat.eqb s' s then
    match nth_error (subs st) s with
    | Some c => match nth_error (rpend c) i, nth_error (snodes c) i with
                | Some true, Some m => if Nat.eqb m n then retained nd n else []
                | _, _ => [] end
    | None => [] end
  else [].

Definition pend (st : state) (s n : nat) : list item :=
  match nth_error (nodes st) n with
  | Some nd => match holder nd with
               | Some (TEmit k) => pend_emit st k s n
               | Some (TReplay s' i) => pend_replay st nd s' i s n
               | _ => [] end
  | None => []
  end.

Definition Once (st : state) : Prop :=
  forall s c n, nth_error (subs st) s = Some c -> styps c <> None ->
    proj n (hist c) ++ pend st s n = proj n (expd c).

Lemma proj_app : forall n a b, proj n (a ++ b) = proj n a ++ proj n b.
Proof. intros. unfold proj. apply filter_app. Qed.

Lemma proj_repeat_same : forall n v k, proj n (repeat (n, v) k) = repeat (n, v) k.
Proof. intros n v k. induction k as [|k IH]; cbn; [reflexivity|]. rewrite Nat.eqb_refl. cbn. f_equal. exact IH. Qed.

Lemma proj_repeat_other : forall n m v k, m <> n -> proj n (repeat (m, v) k) = [].
Proof. intros n m v k H. induction k as [|k IH]; cbn; [reflexivity|]. destruct (Nat.eqb_spec m n); [congruence|]. exact IH. Qed.

(* ---- frames for pend ---------------------------------------------------------- *)
Lemma pend_set_sub : forall st x c c' s n, nth_error (subs st) x = Some c ->
  rpend c' = rpend c -> snodes c' = snodes c -> pend (set_sub st x c') s n = pend st s n.
Proof.
  intros st x c c' s n Ec H1 H2. unfold pend. cbn [nodes set_sub set_subs].
  destruct (nth_error (nodes st) n) as [nd|]; [|reflexivity]. destruct (holder nd) as [[]|]; try reflexivity.
  unfold pend_replay. destruct (Nat.eqb s0 s); [|reflexivity]. cbn [subs set_sub set_subs].
  destruct (Nat.eq_dec x s) as [->|N].
  - rewrite (nth_error_upd_eq _ _ _ _ Ec), Ec, H1, H2. reflexivity.
  - rewrite nth_error_upd_neq by assumption. reflexivity.
Qed.

Lemma pend_set_emit : forall st k e p s n, nth_error (emits st) k = Some e ->
  (forall m t, epc e <> ESend m t) -> (forall m t, p <> ESend m t) ->
  pend (set_emit st k (e_pc e p)) s n = pend st s n.
Proof.
  intros st k e p s n Ek H1 H2. unfold pend. cbn [nodes set_emit set_emits].
  destruct (nth_error (nodes st) n) as [nd|]; [|reflexivity]. destruct (holder nd) as [[]|]; try reflexivity.
  unfold pend_emit. cbn [emits set_emit set_emits]. destruct (Nat.eq_dec k k0) as [->|N].
  - rewrite (nth_error_upd_eq _ _ _ _ Ek), Ek. cbn [epc e_pc].
    destruct (epc e) eqn:E1; try (exfalso; eapply H1; reflexivity);
      destruct p eqn:E2; try (exfalso; eapply H2; reflexivity); reflexivity.
  - rewrite nth_error_upd_neq by assumption. reflexivity.
Qed.

Lemma pend_set_node : forall st m nd nd' s n, nth_error (nodes st) m = Some nd ->
  holder nd' = holder nd -> keep nd' = keep nd -> nlast nd' = nlast nd ->
  pend (set_node st m nd') s n = pend st s n.
Proof.
  intros st m nd nd' s n Em H1 H2 H3. unfold pend. cbn [nodes set_node set_nodes].
  destruct (Nat.eq_dec m n) as [->|N].
  - rewrite (nth_error_upd_eq _ _ _ _ Em), Em, H1. destruct (holder nd) as [[]|]; try reflexivity.
    unfold pend_replay, retained. rewrite H2, H3. reflexivity.
  - rewrite nth_error_upd_neq by assumption. reflexivity.
Qed.

Lemma pend_nodes_app : forall st nd0 s n, holder nd0 = None ->
  pend (set_nodes st (nodes st ++ [nd0])) s n = pend st s n.
Proof.
  intros st nd0 s n Hh. unfold pend. cbn [nodes set_nodes].
  destruct (nth_error (nodes st) n) as [nd|] eqn:En.
  - rewrite (nth_error_app_old _ _ _ _ En). reflexivity.
  - destruct (nth_error (nodes st ++ [nd0]) n) as [nd|] eqn:En'; [|reflexivity].
    apply nth_error_app_inv in En'. destruct En' as [X|[_ ->]]; [congruence|]. rewrite Hh. reflexivity.
Qed.

(* ---- frames for Once ------------------------------------------------------------ *)
Definition same_hist (c c' : sub) : Prop :=
  hist c' = hist c /\ expd c' = expd c /\ rpend c' = rpend c /\ snodes c' = snodes c /\ styps c' = styps c.

Lemma O_sub : forall st x c c', Once st -> nth_error (subs st) x = Some c -> same_hist c c' -> Once (set_sub st x c').
Proof.
  intros st x c c' O Ec [H1 [H2 [H3 [H4 H5]]]] s cs n Hs Ht.
  rewrite (pend_set_sub st x c c' s n Ec H3 H4). cbn in Hs. apply nth_error_upd_inv in Hs.
  destruct Hs as [[-> [-> _]]|[N Hs]].
  - rewrite H1, H2. apply (O x c n Ec). congruence.
  - apply (O s cs n Hs Ht).
Qed.

Lemma O_emit : forall st k e p, Once st -> nth_error (emits st) k = Some e ->
  (forall m t, epc e <> ESend m t) -> (forall m t, p <> ESend m t) -> Once (set_emit st k (e_pc e p)).
Proof.
  intros st k e p O Ek H1 H2 s c n Hs Ht. rewrite (pend_set_emit st k e p s n Ek H1 H2). exact (O s c n Hs Ht).
Qed.

Lemma O_node : forall st m nd nd', Once st -> nth_error (nodes st) m = Some nd ->
  holder nd' = holder nd -> keep nd' = keep nd -> nlast nd' = nlast nd -> Once (set_node st m nd').
Proof.
  intros st m nd nd' O Em H1 H2 H3 s c n Hs Ht. rewrite (pend_set_node st m nd nd' s n Em H1 H2 H3). exact (O s c n Hs Ht).
Qed.

Lemma O_same : forall st st', Once st -> subs st' = subs st -> nodes st' = nodes st -> emits st' = emits st -> Once st'.
Proof.
  intros st st' O H1 H2 H3 s c n Hs Ht. unfold pend, pend_emit, pend_replay. rewrite H1, H2, H3. rewrite H1 in Hs.
  exact (O s c n Hs Ht).
Qed.

Lemma O_lookup : forall st ty, Once st -> Once (fst (lookup st ty)).
Proof.
  intros st ty O. unfold lookup. destruct (nth_error (bmap st) ty) as [[n|]|]; cbn [fst]; try exact O.
  - intros s c n Hs Ht. cbn in Hs.
    change (pend (set_bmap (set_nodes st (nodes st ++ [mkNode ty None [] None false 0 0])) (upd (bmap st) ty (Some (length (nodes st))))) s n)
      with (pend (set_nodes st (nodes st ++ [mkNode ty None [] None false 0 0])) s n).
    rewrite pend_nodes_app by reflexivity. exact (O s c n Hs Ht).
  - intros s c n Hs Ht. cbn in Hs.
    change (pend (set_bmap (set_nodes st (nodes st ++ [mkNode ty None [] None false 0 0])) (upd (bmap st) ty (Some (length (nodes st))))) s n)
      with (pend (set_nodes st (nodes st ++ [mkNode ty None [] None false 0 0])) s n).
    rewrite pend_nodes_app by reflexivity. exact (O s c n Hs Ht).
Qed.

Lemma O_with_node : forall st ty st1 n, Once st -> with_node st ty = Some (st1, n) -> Once st1.
Proof.
  intros st ty st1 n O E. unfold with_node in E. pose proof (O_lookup st ty O) as O1.
  destruct (lookup st ty) as [sl m]. cbn in O1. destruct (nth_error (nodes sl) m) as [nd|] eqn:En; inversion E; subst.
  eapply O_node; [exact O1|exact En|reflexivity|reflexivity|reflexivity].
Qed.

Lemma O_try_drop : forall st ty st', Once st -> try_drop st ty = Some st' -> Once st'.
Proof.
  intros st ty st' O E. unfold try_drop in E.
  repeat match type of E with context[match ?x with _ => _ end] => destruct x end;
    inversion E; subst; (eapply O_same; [exact O| | |]; reflexivity).
Qed.

(* when nobody holds n.lk nothing is owed through n *)
Lemma pend_free : forall st s n nd, nth_error (nodes st) n = Some nd -> holder nd = None -> pend st s n = [].
Proof. intros st s n nd En Hh. unfold pend. rewrite En, Hh. reflexivity. Qed.

Lemma cnt_cons : forall x r s, cnt (x :: r) s = (if Nat.eq_dec x s then 1 else 0) + cnt r s.
Proof. intros. unfold cnt. cbn. destruct (Nat.eq_dec x s); reflexivity. Qed.

Lemma typed_not_wild : forall st s c, nth_error (subs st) s = Some c -> styps c <> None -> ~ is_wild st s.
Proof. intros st s c Ec Ht [c' [A B]]. congruence. Qed.

Lemma O_sub_wild : forall st x c c', Once st -> nth_error (subs st) x = Some c -> styps c = None ->
  rpend c' = rpend c -> snodes c' = snodes c -> styps c' = styps c -> Once (set_sub st x c').
Proof.
  intros st x c c' O Ec Hw H3 H4 H5 s cs n Hs Ht.
  rewrite (pend_set_sub st x c c' s n Ec H3 H4). cbn in Hs. apply nth_error_upd_inv in Hs.
  destruct Hs as [[-> [-> _]]|[N Hs]]; [congruence|]. apply (O s cs n Hs Ht).
Qed.

(* pend at a node whose holder is a given Emit thread *)
Lemma pend_at_emit : forall st s n nd k, nth_error (nodes st) n = Some nd -> holder nd = Some (TEmit k) ->
  pend st s n = pend_emit st k s n.
Proof. intros st s n nd k En Hh. unfold pend. rewrite En, Hh. reflexivity. Qed.

(* changing Emit k's program counter only matters at the node it names *)
Lemma pend_emit_pc_other : forall st k e p s n0, nth_error (emits st) k = Some e ->
  (forall t, epc e <> ESend n0 t) -> (forall t, p <> ESend n0 t) ->
  pend (set_emit st k (e_pc e p)) s n0 = pend st s n0.
Proof.
  intros st k e p s n0 Ek H1 H2. unfold pend. cbn [nodes set_emit set_emits].
  destruct (nth_error (nodes st) n0) as [nd|]; [|reflexivity]. destruct (holder nd) as [[]|]; try reflexivity.
  unfold pend_emit. cbn [emits set_emit set_emits]. destruct (Nat.eq_dec k k0) as [->|N].
  - rewrite (nth_error_upd_eq _ _ _ _ Ek), Ek. cbn [epc eev e_pc].
    assert (A : forall q, (forall t, q <> ESend n0 t) ->
               match q with ESend n' todo => if Nat.eqb n' n0 then repeat (n0, eev e) (cnt todo s) else [] | _ => [] end = []).
    { intros q Hq. destruct q; try reflexivity. destruct (Nat.eqb_spec n n0); [subst; exfalso; eapply Hq; reflexivity|reflexivity]. }
    transitivity (@nil item); [apply A, H2|symmetry; apply A, H1].
  - rewrite nth_error_upd_neq by assumption. reflexivity.
Qed.

Lemma pend_emit_self : forall st k e n todo s, nth_error (emits st) k = Some e ->
  pend_emit (set_emit st k (e_pc e (ESend n todo))) k s n = repeat (n, eev e) (cnt todo s).
Proof.
  intros st k e n todo s Ek. unfold pend_emit. cbn [emits set_emit set_emits].
  rewrite (nth_error_upd_eq _ _ _ _ Ek). cbn [epc eev e_pc]. rewrite Nat.eqb_refl. reflexivity.
Qed.

Lemma not_esend_at : forall p n0, (forall m t, p <> ESend m t) -> forall t, p <> ESend n0 t.
Proof. intros p n0 H t. apply H. Qed.

Ltac npc := intros; try (match goal with Ep : epc _ = _ |- _ => rewrite Ep end); discriminate.

Lemma emit_once : forall st k l st', Forall sub_loc (subs st) -> Inv2 st -> Once st ->
  step_emit st k = Some (l, st') -> Once st'.
Proof.
  intros st k l st' HL I O E. unfold step_emit in E.
  destruct (nth_error (emits st) k) as [e|] eqn:Ek; [|discriminate].
  destruct (nth_error (emitters st) (eem e)) as [m|]; [|discriminate].
  destruct (epc e) as [| | |n todo|n|n|n todo|c|] eqn:Ep.
  - destruct (Nat.eqb (mnew m) 4); inversion E; subst. apply O_emit; [exact O|exact Ek|npc|npc].
  - inversion E; subst. apply O_emit; [exact O|exact Ek|npc|destruct (mclosed m); npc].
  - (* n.lk.Lock() *)
    destruct (nth_error (nodes st) (mnode m)) as [nd|] eqn:En; [|discriminate].
    destruct (holder nd) eqn:Hh; [discriminate|]. inversion E; subst. clear E.
    set (n := mnode m) in *. set (it := (n, eev e)).
    set (nd' := n_last (n_holder nd (Some (TEmit k))) (if keep nd then Some (eev e) else nlast nd)).
    intros s c' n0 Hs Ht. cbn [subs set_emit set_emits set_subs] in Hs.
    rewrite nth_error_expect in Hs. cbn [subs set_node set_nodes] in Hs.
    destruct (nth_error (subs st) s) as [c|] eqn:Ec; [|discriminate]. cbn in Hs. inversion Hs; subst c'. clear Hs.
    cbn [hist expd c_expd styps] in *. rewrite proj_app. specialize (O s c n0 Ec Ht).
    destruct (Nat.eq_dec n0 n) as [->|N].
    + rewrite (pend_free st s n nd En Hh), app_nil_r in O. rewrite O. f_equal.
      unfold it. rewrite proj_repeat_same. unfold pend. cbn [nodes set_emit set_emits set_subs set_node set_nodes].
      rewrite (nth_error_upd_eq _ _ _ _ En). cbn [holder nd' n_last n_holder].
      unfold pend_emit. cbn [emits set_emit set_emits]. rewrite (nth_error_upd_eq _ _ _ _ Ek). cbn [epc eev e_pc].
      rewrite Nat.eqb_refl. reflexivity.
    + unfold it. rewrite proj_repeat_other by congruence. rewrite app_nil_r. rewrite <- O. f_equal.
      rewrite pend_emit_pc_other; [|exact Ek|rewrite Ep; discriminate|intros t X; inversion X; congruence].
      unfold pend. cbn [nodes set_subs set_node set_nodes]. rewrite nth_error_upd_neq by congruence.
      destruct (nth_error (nodes st) n0) as [nd0|]; [|reflexivity]. destruct (holder nd0) as [[]|]; try reflexivity.
      unfold pend_replay. destruct (Nat.eqb s0 s); [|reflexivity]. cbn [subs set_subs set_node set_nodes].
      rewrite nth_error_expect, Ec. reflexivity.
  - destruct todo as [|x r].
    + (* n.lk.Unlock() *)
      destruct (nth_error (nodes st) n) as [nd|] eqn:En; [|discriminate]. inversion E; subst. clear E.
      destruct (iL st I k e n [] Ek Ep) as [nd0 [A [B _]]]. rewrite En in A. inversion A; subst nd0.
      intros s c n0 Hs Ht. cbn in Hs. specialize (O s c n0 Hs Ht). rewrite <- O. f_equal.
      destruct (Nat.eq_dec n0 n) as [->|N].
      * rewrite (pend_at_emit st s n nd k En B). unfold pend_emit. rewrite Ek, Ep, Nat.eqb_refl. cbn.
        unfold pend. cbn [nodes set_emit set_emits set_node set_nodes]. rewrite (nth_error_upd_eq _ _ _ _ En). reflexivity.
      * rewrite pend_emit_pc_other; [|exact Ek|rewrite Ep; intros t X; inversion X; congruence|discriminate].
        unfold pend. cbn [nodes set_node set_nodes]. rewrite nth_error_upd_neq by congruence. reflexivity.
    + (* sink.ch <- evt *)
      otau_inv E. destruct (iL st I k e n (x :: r) Ek Ep) as [nd [En [Hh Hsk]]].
      destruct (listed_open st n nd x HL I En (Hsk x (or_introl eq_refl))) as [cx [Ecx Hc]].
      rewrite (send_open _ _ _ _ _ Ecx Hc E). clear E.
      intros s c' n0 Hs Ht. cbn [subs set_emit set_emits set_sub set_subs] in Hs.
      assert (P : pend (set_emit (set_sub st x (push cx (n, eev e))) k (e_pc e (ESend n r))) s n0
                  = if Nat.eq_dec n0 n then repeat (n, eev e) (cnt r s) else pend st s n0).
      { destruct (Nat.eq_dec n0 n) as [->|N].
        - unfold pend. cbn [nodes set_emit set_emits set_sub set_subs]. rewrite En, Hh. apply pend_emit_self.
          cbn. exact Ek.
        - rewrite pend_emit_pc_other; [|exact Ek|rewrite Ep; intros t X; inversion X; congruence|intros t X; inversion X; congruence].
          apply (pend_set_sub st x cx); [exact Ecx|reflexivity|reflexivity]. }
      rewrite P. clear P.
      assert (Pold : pend st s n = repeat (n, eev e) (cnt (x :: r) s)).
      { rewrite (pend_at_emit st s n nd k En Hh). unfold pend_emit. rewrite Ek, Ep, Nat.eqb_refl. reflexivity. }
      apply nth_error_upd_inv in Hs. destruct Hs as [[-> [-> _]]|[Nx Hs]].
      * cbn [hist expd push c_chan styps] in *. specialize (O x cx n0 Ecx Ht). rewrite proj_app.
        destruct (Nat.eq_dec n0 n) as [->|N].
        -- rewrite Pold, cnt_cons in O. destruct (Nat.eq_dec x x); [|congruence]. cbn in O.
           unfold proj at 2. cbn. rewrite Nat.eqb_refl. cbn. rewrite <- app_assoc. exact O.
        -- unfold proj at 2. cbn. destruct (Nat.eqb_spec n n0); [congruence|]. cbn. rewrite app_nil_r. exact O.
      * specialize (O s c' n0 Hs Ht). destruct (Nat.eq_dec n0 n) as [->|N]; [|exact O].
        rewrite Pold, cnt_cons in O. destruct (Nat.eq_dec x s); [congruence|]. exact O.
  - inversion E; subst. apply O_emit; [exact O|exact Ek|npc|destruct (Nat.eqb (nsinks (wild st)) 0); npc].
  - (* w.RLock(): only wildcard subscriptions are promised anything *)
    destruct (wpend (wild st)); [discriminate|]. inversion E; subst. clear E.
    intros s c' n0 Hs Ht. cbn [subs set_emit set_emits set_subs] in Hs.
    rewrite nth_error_expect in Hs. cbn [subs set_wild] in Hs.
    destruct (nth_error (subs st) s) as [c|] eqn:Ec; [|discriminate]. cbn in Hs. inversion Hs; subst c'. clear Hs.
    cbn [hist expd c_expd styps] in *.
    assert (Z : count_occ Nat.eq_dec (wsinks (wild st)) s = 0).
    { apply count_occ_not_In. intros Hin. apply (typed_not_wild st s c Ec Ht). exact (iW1 st I s Hin). }
    rewrite Z. cbn. rewrite app_nil_r. rewrite <- (O s c n0 Ec Ht). f_equal.
    rewrite pend_emit_pc_other; [|exact Ek|rewrite Ep; discriminate|discriminate].
    unfold pend. cbn [nodes set_subs set_wild].
    destruct (nth_error (nodes st) n0) as [nd0|]; [|reflexivity]. destruct (holder nd0) as [[]|]; try reflexivity.
    unfold pend_replay. destruct (Nat.eqb s0 s); [|reflexivity]. cbn [subs set_subs set_wild].
    rewrite nth_error_expect, Ec. reflexivity.
  - destruct todo as [|x r].
    + inversion E; subst. clear E.
      apply (O_emit (set_wild st (mkWild (wpend (wild st)) (pred (rdrs (wild st))) (wsinks (wild st)) (nsinks (wild st)))) k e (ERet 0));
        [eapply O_same; [exact O| | |]; reflexivity|exact Ek|npc|npc].
    + otau_inv E. pose proof (iW2 st I k e n (x :: r) x Ek Ep (or_introl eq_refl)) as Hw.
      destruct (wild_open st x HL Hw) as [cx [Ecx Hc]]. rewrite (send_open _ _ _ _ _ Ecx Hc E).
      destruct Hw as [cx' [A B]]. rewrite Ecx in A. inversion A; subst cx'.
      apply O_emit; [|cbn; exact Ek|npc|npc].
      eapply O_sub_wild; [exact O|exact Ecx|exact B|reflexivity|reflexivity|reflexivity].
  - inversion E; subst. apply O_emit; [exact O|exact Ek|npc|npc].
  - discriminate.
Qed.

Lemma O_node_free : forall st m nd nd', Once st -> nth_error (nodes st) m = Some nd ->
  holder nd = None -> holder nd' = None -> Once (set_node st m nd').
Proof.
  intros st m nd nd' O Em H1 H2 s c n Hs Ht. specialize (O s c n Hs Ht). rewrite <- O. f_equal.
  unfold pend. cbn [nodes set_node set_nodes]. destruct (Nat.eq_dec m n) as [->|N].
  - rewrite (nth_error_upd_eq _ _ _ _ Em), Em, H1, H2. reflexivity.
  - rewrite nth_error_upd_neq by assumption. reflexivity.
Qed.

Lemma O_emitters : forall st x, Once st -> Once (set_emitters st x).
Proof. intros st x O. eapply O_same; [exact O| | |]; reflexivity. Qed.
Lemma O_blk : forall st x, Once st -> Once (set_blk st x).
Proof. intros st x O. eapply O_same; [exact O| | |]; reflexivity. Qed.
Lemma O_wild : forall st x, Once st -> Once (set_wild st x).
Proof. intros st x O. eapply O_same; [exact O| | |]; reflexivity. Qed.

Lemma emnew_once : forall st j l st', Once st -> step_emnew st j = Some (l, st') -> Once st'.
Proof.
  intros st j l st' O E. unfold step_emnew in E.
  destruct (nth_error (emitters st) j) as [m|]; [|discriminate].
  destruct (mnew m) as [|[|[|[|?]]]].
  - inversion E; subst. apply O_emitters, O.
  - destruct (with_node st (mty m)) as [[st1 n]|] eqn:Ew; [|discriminate]. inversion E; subst.
    apply O_emitters. eapply O_with_node; eassumption.
  - destruct (nth_error (nodes st) (mnode m)) as [nd|] eqn:En; [|discriminate].
    destruct (holder nd) eqn:Hh; [discriminate|]. inversion E; subst. apply O_emitters.
    eapply O_node_free; [exact O|exact En|exact Hh|exact Hh].
  - inversion E; subst. apply O_emitters, O.
  - discriminate.
Qed.

Lemma emclose_once : forall st j l st', Once st -> step_emclose st j = Some (l, st') -> Once st'.
Proof.
  intros st j l st' O E. unfold step_emclose in E.
  destruct (nth_error (emitters st) j) as [m|]; [|discriminate].
  destruct (mcl m).
  - destruct (Nat.eqb (mnew m) 4); inversion E; subst. apply O_emitters, O.
  - destruct (mclosed m); inversion E; subst; apply O_emitters, O.
  - destruct (nth_error (nodes st) (mnode m)) as [nd|] eqn:En; inversion E; subst. apply O_emitters.
    eapply O_node; [exact O|exact En|reflexivity|reflexivity|reflexivity].
  - inversion E; subst. apply O_emitters, O.
  - otau_inv E. apply O_emitters. eapply O_try_drop; eassumption.
  - inversion E; subst. apply O_emitters, O.
  - discriminate.
Qed.

Lemma hist_same_spc : forall c p, same_hist c (c_spc c p).
Proof. intros. repeat split. Qed.
Lemma hist_same_cpc : forall c p, same_hist c (c_cpc c p).
Proof. intros. repeat split. Qed.

Lemma drain_once : forall st s l st', Once st -> step_drain st s = Some (l, st') -> Once st'.
Proof.
  intros st s l st' O E. unfold step_drain in E.
  destruct (nth_error (subs st) s) as [c|] eqn:Ec; [|discriminate].
  destruct (draining c); [|discriminate]. destruct (buf c).
  - destruct (Nat.eqb (drain c) 2 || closed c); [|discriminate]. inversion E; subst.
    eapply O_sub; [exact O|exact Ec|repeat split].
  - inversion E; subst. eapply O_sub; [exact O|exact Ec|repeat split].
Qed.

Lemma req_once : forall st s l st', Once st -> step_req st s = Some (l, st') -> Once st'.
Proof.
  intros st s l st' O E. unfold step_req in E.
  destruct (nth_error (subs st) s) as [c|] eqn:Ec; [|discriminate]. inversion E; subst.
  eapply O_sub; [exact O|exact Ec|repeat split].
Qed.

Lemma recv_once : forall st s l st', Once st -> step_recv st s = Some (l, st') -> Once st'.
Proof.
  intros st s l st' O E. unfold step_recv in E.
  destruct (nth_error (subs st) s) as [c|] eqn:Ec; [|discriminate].
  destruct (want c); [discriminate|]. destruct (buf c).
  - destruct (closed c); [|discriminate]. inversion E; subst. eapply O_sub; [exact O|exact Ec|repeat split].
  - inversion E; subst. eapply O_sub; [exact O|exact Ec|repeat split].
Qed.

Lemma read_once : forall st s l st', Once st -> step_read st s = Some (l, st') -> Once st'.
Proof.
  intros st s l st' O E. unfold step_read in E.
  destruct (nth_error (subs st) s) as [c|] eqn:Ec; [|discriminate].
  destruct (hand c); [discriminate|]. inversion E; subst. eapply O_sub; [exact O|exact Ec|repeat split].
Qed.

Lemma close_once : forall st s l st', Once st -> step_close st s = Some (l, st') -> Once st'.
Proof.
  intros st s l st' O E. unfold step_close in E.
  destruct (nth_error (subs st) s) as [c|] eqn:Ec; [|discriminate].
  destruct (cpc c) eqn:Ek.
  - destruct (spc c); try discriminate. inversion E; subst. eapply O_sub; [exact O|exact Ec|repeat split].
  - destruct (nth_error (snodes c) i) as [n|]; [|discriminate].
    destruct (nth_error (nodes st) n) as [nd|] eqn:En; [|discriminate].
    destruct (holder nd) eqn:Hh; [discriminate|]. inversion E; subst.
    eapply O_sub; [eapply O_node; [exact O|exact En|reflexivity|reflexivity|reflexivity]|exact Ec|repeat split].
  - inversion E; subst. eapply O_sub; [exact O|exact Ec|repeat split].
  - destruct (nth_error (snodes c) i) as [n|]; [|discriminate].
    destruct (nth_error (nodes st) n) as [nd|]; [|discriminate].
    otau_inv E. eapply O_sub; [eapply O_try_drop; eassumption|rewrite (try_drop_subs _ _ _ E); exact Ec|repeat split].
  - inversion E; subst. eapply O_sub; [exact O|exact Ec|repeat split].
  - inversion E; subst. eapply O_sub; [apply O_wild, O|exact Ec|repeat split].
  - destruct (wpend (wild st)); [discriminate|]. inversion E; subst. eapply O_sub; [apply O_wild, O|exact Ec|repeat split].
  - destruct (Nat.eqb (rdrs (wild st)) 0); [|discriminate]. inversion E; subst. eapply O_sub; [apply O_wild, O|exact Ec|repeat split].
  - inversion E; subst. eapply O_sub; [exact O|exact Ec|repeat split].
  - destruct (Nat.eqb (drain c) 3); [|discriminate]. inversion E; subst. eapply O_sub; [exact O|exact Ec|repeat split].
  - inversion E; subst. eapply O_sub; [exact O|exact Ec|repeat split].
  - discriminate.
Qed.

Lemma proj_retained_same : forall nd n, proj n (retained nd n) = retained nd n.
Proof. intros nd n. unfold retained. destruct (keep nd); [destruct (nlast nd)|]; cbn; try reflexivity. rewrite Nat.eqb_refl. reflexivity. Qed.
Lemma proj_retained_other : forall nd n n0, n <> n0 -> proj n0 (retained nd n) = [].
Proof. intros nd n n0 H. unfold retained. destruct (keep nd); [destruct (nlast nd)|]; cbn; try reflexivity.
  destruct (Nat.eqb_spec n n0); [congruence|reflexivity]. Qed.

Lemma O_subscribe : forall st s0 c n nd i c2 nd',
  Once st -> Inv2 st -> nth_error (subs st) s0 = Some c -> nth_error (nodes st) n = Some nd -> holder nd = None ->
  spc c = SApp i n ->
  holder nd' = Some (TReplay s0 i) -> keep nd' = keep nd -> nlast nd' = nlast nd ->
  rpend c2 = rpend c ++ [true] -> snodes c2 = snodes c ++ [n] -> styps c2 = styps c -> hist c2 = hist c ->
  expd c2 = expd c ++ retained nd n ->
  Once (set_sub (set_node st n nd') s0 c2).
Proof.
  intros st s0 c n nd i c2 nd' O I Ec En Hh Hp Hh' Hk' Hl' Hr2 Hn2 Ht2 Hh2 He2.
  pose proof (iIdx st I s0 c Ec) as Hi. unfold idx_ok in Hi. rewrite Hp in Hi.
  pose proof (iLen st I s0 c Ec) as Hlen.
  intros s cs n0 Hs Ht. cbn [subs set_sub set_subs set_node set_nodes] in Hs.
  assert (P : pend (set_sub (set_node st n nd') s0 c2) s n0 =
              if Nat.eq_dec n0 n then (if Nat.eq_dec s0 s then retained nd n else []) else pend st s n0).
  { unfold pend. cbn [nodes set_sub set_subs set_node set_nodes]. destruct (Nat.eq_dec n0 n) as [->|N].
    - rewrite (nth_error_upd_eq _ _ _ _ En), Hh'. unfold pend_replay.
      destruct (Nat.eq_dec s0 s) as [->|Ns]; [rewrite Nat.eqb_refl|destruct (Nat.eqb_spec s0 s); [congruence|reflexivity]].
      cbn [subs set_sub set_subs set_node set_nodes]. rewrite (nth_error_upd_eq _ _ _ _ Ec), Hr2, Hn2.
      rewrite nth_error_app2 by lia. rewrite nth_error_app2 by lia.
      replace (i - length (rpend c)) with 0 by lia. replace (i - length (snodes c)) with 0 by lia. cbn.
      rewrite Nat.eqb_refl. unfold retained. rewrite Hk', Hl'. reflexivity.
    - rewrite nth_error_upd_neq by congruence.
      destruct (nth_error (nodes st) n0) as [nd0|]; [|reflexivity]. destruct (holder nd0) as [[]|]; try reflexivity.
      unfold pend_replay. destruct (Nat.eqb s1 s); [|reflexivity]. cbn [subs set_sub set_subs set_node set_nodes].
      destruct (Nat.eq_dec s0 s) as [->|Ns]; [|rewrite nth_error_upd_neq by assumption; reflexivity].
      rewrite (nth_error_upd_eq _ _ _ _ Ec), Ec, Hr2, Hn2.
      destruct (Nat.lt_ge_cases i0 (length (rpend c))) as [L|G].
      + rewrite !nth_error_app1 by lia. reflexivity.
      + assert (X : nth_error (rpend c) i0 = None) by (apply nth_error_None; lia). rewrite X.
        rewrite !nth_error_app2 by lia. destruct (i0 - length (rpend c)) as [|d] eqn:Ed.
        * replace (i0 - length (snodes c)) with 0 by lia. cbn. destruct (Nat.eqb_spec n n0); [congruence|reflexivity].
        * cbn. destruct d; reflexivity. }
  rewrite P. clear P. apply nth_error_upd_inv in Hs. destruct Hs as [[-> [-> _]]|[Ns Hs]].
  - rewrite Hh2, He2, proj_app. assert (Ht' : styps c <> None) by congruence. specialize (O s0 c n0 Ec Ht').
    destruct (Nat.eq_dec n0 n) as [->|N].
    + rewrite (pend_free st s0 n nd En Hh), app_nil_r in O. destruct (Nat.eq_dec s0 s0); [|congruence].
      rewrite proj_retained_same, O. reflexivity.
    + rewrite proj_retained_other by congruence. rewrite app_nil_r. exact O.
  - specialize (O s cs n0 Hs Ht). destruct (Nat.eq_dec n0 n) as [->|N]; [|exact O].
    rewrite (pend_free st s n nd En Hh) in O. destruct (Nat.eq_dec s0 s); [congruence|]. exact O.
Qed.

Lemma sub_once : forall st s l st', Forall sub_loc (subs st) -> Inv2 st -> Once st -> step_sub st s = Some (l, st') -> Once st'.
Proof.
  intros st s l st' HL I O E. unfold step_sub in E.
  destruct (nth_error (subs st) s) as [c|] eqn:Ec; [|discriminate].
  destruct (spc c) eqn:Ep.
  - destruct (styps c); inversion E; subst; (eapply O_sub; [exact O|exact Ec|apply hist_same_spc]).
  - destruct (styps c) as [tys|] eqn:Et; [|discriminate]. destruct (nth_error tys i) as [ty|]; [|discriminate].
    destruct (with_node st ty) as [[st1 n]|] eqn:Ew; [|discriminate]. inversion E; subst.
    eapply O_sub; [eapply O_with_node; eassumption|rewrite (with_node_subs _ _ _ _ Ew); exact Ec|apply hist_same_spc].
  - destruct (styps c) as [tys|] eqn:Et; [|discriminate].
    destruct (nth_error (nodes st) n) as [nd|] eqn:En; [|discriminate].
    destruct (holder nd) eqn:Hh; [discriminate|]. inversion E; subst. clear E.
    eapply (O_subscribe st s c n nd i); try reflexivity.
    + exact O.
    + exact I.
    + exact Ec.
    + exact En.
    + exact Hh.
    + exact Ep.
    + destruct (keep nd); [destruct (nlast nd)|]; reflexivity.
    + destruct (keep nd); [destruct (nlast nd)|]; reflexivity.
    + destruct (keep nd); [destruct (nlast nd)|]; reflexivity.
    + destruct (keep nd); [destruct (nlast nd)|]; reflexivity.
    + unfold retained. destruct (keep nd); [destruct (nlast nd)|]; cbn; rewrite ?app_nil_r; reflexivity.
  - inversion E; subst. eapply O_sub; [apply O_wild, O|exact Ec|apply hist_same_spc].
  - destruct (wpend (wild st)); [discriminate|]. inversion E; subst. eapply O_sub; [apply O_wild, O|exact Ec|apply hist_same_spc].
  - destruct (Nat.eqb (rdrs (wild st)) 0); [|discriminate]. inversion E; subst. eapply O_sub; [apply O_wild, O|exact Ec|apply hist_same_spc].
  - inversion E; subst. eapply O_sub; [exact O|exact Ec|apply hist_same_spc].
  - destruct (styps c); discriminate.
Qed.

(* the replay goroutine sends the retained event (if any) and releases n.lk *)
Lemma O_replay_done : forall st s0 c i n nd c2,
  Once st -> Inv2 st -> nth_error (subs st) s0 = Some c -> nth_error (rpend c) i = Some true ->
  nth_error (snodes c) i = Some n -> nth_error (nodes st) n = Some nd ->
  rpend c2 = upd (rpend c) i false -> snodes c2 = snodes c -> styps c2 = styps c ->
  hist c2 = hist c ++ retained nd n -> expd c2 = expd c ->
  Once (set_node (set_sub st s0 c2) n (n_holder nd None)).
Proof.
  intros st s0 c i n nd c2 O I Ec Hr Hn En H1 H2 H3 H4 H5.
  destruct (iR st I s0 c i n Ec Hr Hn) as [ndx [A [Hh _]]]. rewrite En in A. inversion A; subst ndx. clear A.
  intros s cs n0 Hs Ht. cbn [subs set_sub set_subs set_node set_nodes] in Hs.
  assert (P : pend (set_node (set_sub st s0 c2) n (n_holder nd None)) s n0 = if Nat.eq_dec n0 n then [] else pend st s n0).
  { unfold pend. cbn [nodes set_sub set_subs set_node set_nodes]. destruct (Nat.eq_dec n0 n) as [->|N].
    - rewrite (nth_error_upd_eq _ _ _ _ En). reflexivity.
    - rewrite nth_error_upd_neq by congruence.
      destruct (nth_error (nodes st) n0) as [nd0|] eqn:En0; [|reflexivity]. destruct (holder nd0) as [[]|] eqn:Hh0; try reflexivity.
      unfold pend_replay. destruct (Nat.eqb s1 s) eqn:Es; [|reflexivity]. apply Nat.eqb_eq in Es. subst s1.
      cbn [subs set_sub set_subs set_node set_nodes].
      destruct (Nat.eq_dec s0 s) as [->|Ns]; [|rewrite nth_error_upd_neq by assumption; reflexivity].
      rewrite (nth_error_upd_eq _ _ _ _ Ec), Ec, H1, H2.
      destruct (Nat.eq_dec i0 i) as [->|Ni]; [|rewrite nth_error_upd_neq by congruence; reflexivity].
      rewrite Hr, Hn. destruct (Nat.eqb_spec n n0); [congruence|].
      destruct (nth_error (upd (rpend c) i false) i) as [[|]|]; reflexivity. }
  rewrite P. clear P.
  assert (Pold : pend st s0 n = retained nd n).
  { unfold pend. rewrite En, Hh. unfold pend_replay. rewrite Nat.eqb_refl, Ec, Hr, Hn, Nat.eqb_refl. reflexivity. }
  apply nth_error_upd_inv in Hs. destruct Hs as [[-> [-> _]]|[Ns Hs]].
  - rewrite H4, H5, proj_app. assert (Ht' : styps c <> None) by congruence. specialize (O s0 c n0 Ec Ht').
    destruct (Nat.eq_dec n0 n) as [->|N].
    + rewrite Pold in O. rewrite proj_retained_same, app_nil_r. exact O.
    + rewrite proj_retained_other by congruence. rewrite app_nil_r. exact O.
  - specialize (O s cs n0 Hs Ht). destruct (Nat.eq_dec n0 n) as [->|N]; [|exact O].
    rewrite <- O. f_equal. unfold pend. rewrite En, Hh. unfold pend_replay.
    destruct (Nat.eqb_spec s0 s); [congruence|reflexivity].
Qed.

Lemma replay_once : forall st s i l st', Forall sub_loc (subs st) -> Inv2 st -> Once st ->
  step_replay st s i = Some (l, st') -> Once st'.
Proof.
  intros st s i l st' HL I O E. unfold step_replay in E.
  destruct (nth_error (subs st) s) as [c|] eqn:Ec; [|discriminate].
  destruct (nth_error (rpend c) i) as [[|]|] eqn:Er; try discriminate.
  destruct (nth_error (snodes c) i) as [n|] eqn:Es; [|discriminate].
  destruct (nth_error (nodes st) n) as [nd|] eqn:En; [|discriminate].
  destruct (keep nd) eqn:Hk; [destruct (nlast nd) as [lv|] eqn:Hlv|].
  - otau_inv E. destruct (iR st I s c i n Ec Er Es) as [ndx [A [Hh Hin]]]. rewrite En in A. inversion A; subst ndx.
    destruct (listed_open st n nd s HL I En Hin) as [c0 [Ec0 Hc]]. rewrite Ec in Ec0. inversion Ec0; subst c0.
    rewrite (send_open _ _ _ _ _ Ec Hc E). cbn [subs set_sub set_subs]. rewrite (nth_error_upd_eq _ _ _ _ Ec).
    assert (X : set_sub (set_sub st s (push c (n, lv))) s (c_rpend (push c (n, lv)) (upd (rpend (push c (n, lv))) i false))
              = set_sub st s (c_rpend (push c (n, lv)) (upd (rpend c) i false))).
    { unfold set_sub, set_subs. cbn. f_equal. clear. generalize (subs st). intros l. revert s.
      induction l as [|a l IH]; intros [|s]; cbn; try reflexivity. f_equal. apply IH. }
    rewrite X. eapply (O_replay_done st s c i n nd); try eassumption; try reflexivity.
    cbn. unfold retained. rewrite Hk, Hlv. reflexivity.
  - inversion E; subst. eapply (O_replay_done st s c i n nd); try eassumption; try reflexivity.
    cbn. unfold retained. rewrite Hk, Hlv, app_nil_r. reflexivity.
  - inversion E; subst. eapply (O_replay_done st s c i n nd); try eassumption; try reflexivity.
    cbn. unfold retained. rewrite Hk, app_nil_r. reflexivity.
Qed.

Definition Full (st : state) : Prop := Safe st /\ Once st.

Lemma step_full : forall st t l st', Full st -> step st t = Some (l, st') -> Full st'.
Proof.
  intros st t l st' [[HL I] O] E. split; [eapply step_safe; [split; eassumption|eassumption]|].
  destruct t; cbn in E;
    eauto using emnew_once, emclose_once, emit_once, sub_once, replay_once, close_once, drain_once, req_once, recv_once, read_once.
Qed.

Lemma full_run : forall st sched, Full st -> Full (run step st sched).
Proof.
  intros st sched H. apply (invariant_run _ _ _ step Full); [|exact H].
  intros s t l s' Hs E. eapply step_full; eassumption.
Qed.

(* C15 — listing: a typed subscription is in the sink list of every node it has joined and
   its Close has not yet processed; a returned typed Subscribe has joined all its types. *)
From Coq Require Import List Arith ZArith Bool Lia.
From Verif Require Import c15.Lts c15.Model c15.Spec c15.Proofs_Chan c15.Proofs_Loc c15.Proofs_List c15.Proofs_Safe
  c15.Proofs_Init c15.Proofs_Live c15.Proofs_Pend c15.Proofs_Idx c15.Proofs_Dead c15.Proofs_Prog c15.Proofs_Valid c15.Proofs_WildOK
  c15.Proofs_Blk c15.Proofs_WSI c15.Proofs_TY.
Import ListNotations.

Definition LB (st : state) : Prop :=
  forall s c n nd, nth_error (subs st) s = Some c -> nth_error (nodes st) n = Some nd -> cnt (remaining c) n <= cnt (sinks nd) s.

(* frame: sink lists unchanged (new nodes have none), the closers' remaining lists only shrink *)
Definition sinks_same (st st' : state) : Prop :=
  forall n nd', nth_error (nodes st') n = Some nd' ->
    (exists nd, nth_error (nodes st) n = Some nd /\ sinks nd' = sinks nd) \/ (length (nodes st) <= n /\ sinks nd' = []).
Definition rem_shrink (st st' : state) : Prop :=
  forall s c', nth_error (subs st') s = Some c' -> exists c, nth_error (subs st) s = Some c /\ forall n, cnt (remaining c') n <= cnt (remaining c) n.

Lemma LB_frame : forall st st', Valid st -> LB st -> sinks_same st st' -> rem_shrink st st' -> LB st'.
Proof.
  intros st st' [_ [V2 _]] L S R s c' n nd' Ec' En'. destruct (R s c' Ec') as [c [Ec Hc]]. specialize (Hc n).
  destruct (S n nd' En') as [[nd [En Hs]]|[Hl Hs]].
  - rewrite Hs. specialize (L s c n nd Ec En). lia.
  - assert (Z : cnt (remaining c) n = 0); [|lia]. destruct (cnt (remaining c) n) eqn:X; [reflexivity|exfalso].
    assert (In n (remaining c)) by (apply cnt_In; lia). apply remaining_sub_snodes in H. specialize (V2 s c n Ec H). lia.
Qed.

Lemma ss_refl : forall st, sinks_same st st.
Proof. intros st n nd H. left. exists nd. auto. Qed.
Lemma rs_refl : forall st, rem_shrink st st.
Proof. intros st s c H. exists c. auto. Qed.

Lemma ss_eq : forall st st', map sinks (nodes st') = map sinks (nodes st) -> sinks_same st st'.
Proof.
  intros st st' H n nd' En'. left. assert (X : nth_error (map sinks (nodes st')) n = Some (sinks nd')) by (rewrite nth_error_map, En'; reflexivity).
  rewrite H, nth_error_map in X. destruct (nth_error (nodes st) n) as [nd|]; [|discriminate]. exists nd. inversion X. auto.
Qed.
Lemma rs_eq : forall st st', map (fun c => (cpc c, snodes c)) (subs st') = map (fun c => (cpc c, snodes c)) (subs st) -> rem_shrink st st'.
Proof.
  intros st st' H s c' Ec'. assert (X : nth_error (map (fun c => (cpc c, snodes c)) (subs st')) s = Some (cpc c', snodes c')) by (rewrite nth_error_map, Ec'; reflexivity).
  rewrite H, nth_error_map in X. destruct (nth_error (subs st) s) as [c|]; [|discriminate]. exists c. split; [reflexivity|]. inversion X as [[A B]].
  intros n. unfold remaining. rewrite A, B. lia.
Qed.

Definition fK (c : sub) := (cpc c, snodes c).
Lemma fK_expect : forall l tg it i, map fK (expect_all l tg it i) = map fK l.
Proof. induction l as [|c l IH]; intros; cbn; [reflexivity|]. f_equal. apply IH. Qed.

Ltac lb_same :=
  split; [apply ss_eq|apply rs_eq];
  cbn [nodes subs set_emitter set_emitters set_sub set_subs set_node set_nodes set_blk set_bmap set_wild set_emit set_emits set_panicked];
  try reflexivity; try apply fK_expect;
  try (eapply (map_upd_same sinks); [eassumption|reflexivity]);
  try (eapply (map_upd_same fK); [eassumption|reflexivity]).

Lemma send_lb : forall st s it st', send st s it = Some st' -> sinks_same st st' /\ rem_shrink st st'.
Proof.
  intros st s it st' E. unfold send in E. destruct (nth_error (subs st) s) as [c|] eqn:Ec; [|discriminate].
  destruct (closed c); [inversion E; subst; lb_same|]. destruct (room c); [|discriminate]. inversion E; subst. lb_same.
Qed.
Lemma try_drop_lb : forall st ty st', try_drop st ty = Some st' -> sinks_same st st' /\ rem_shrink st st'.
Proof. intros st ty st' E. unfold try_drop in E. brute E; inversion E; subst; lb_same. Qed.
Lemma with_node_lb : forall st ty st1 n, with_node st ty = Some (st1, n) -> sinks_same st st1 /\ subs st1 = subs st.
Proof.
  intros st ty st1 n E. split; [|eapply with_node_subs, E]. unfold with_node in E. destruct (lookup st ty) as [sl m] eqn:El.
  destruct (nth_error (nodes sl) m) as [nd|] eqn:En; inversion E; subst. clear E.
  unfold lookup in El. destruct (nth_error (bmap st) ty) as [[k|]|]; inversion El; subst.
  - apply ss_eq. cbn. apply (map_upd_same sinks _ n _ nd); [exact En|reflexivity].
  - intros n0 nd' H. cbn in H, En. rewrite nth_error_app2 in En by lia. rewrite Nat.sub_diag in En. inversion En; subst nd. clear En.
    apply nth_error_upd_inv in H. destruct H as [[-> [-> _]]|[N H]]; [right; split; [lia|reflexivity]|].
    apply nth_error_app_inv in H. destruct H as [H|[-> ->]]; [left; exists nd'; auto|contradiction].
  - intros n0 nd' H. cbn in H, En. rewrite nth_error_app2 in En by lia. rewrite Nat.sub_diag in En. inversion En; subst nd. clear En.
    apply nth_error_upd_inv in H. destruct H as [[-> [-> _]]|[N H]]; [right; split; [lia|reflexivity]|].
    apply nth_error_app_inv in H. destruct H as [H|[-> ->]]; [left; exists nd'; auto|contradiction].
Qed.

Lemma send_nodes' : forall st s it st', send st s it = Some st' -> nodes st' = nodes st.
Proof. intros st s it st' E. unfold send in E. brute E; inversion E; subst; reflexivity. Qed.

Lemma rs_upd : forall st stx st' s c c', subs stx = subs st -> nth_error (subs st) s = Some c -> subs st' = upd (subs stx) s c' ->
  (forall n, cnt (remaining c') n <= cnt (remaining c) n) -> rem_shrink st st'.
Proof.
  intros st stx st' s c c' Hx Ec Hs Hc s0 c0' H. rewrite Hs, Hx in H. apply nth_error_upd_inv in H. destruct H as [[-> [-> _]]|[N H]].
  - exists c. auto.
  - exists c0'. auto.
Qed.

Lemma ss_trans_eq : forall a b c, sinks_same a b -> map sinks (nodes c) = map sinks (nodes b) -> sinks_same a c.
Proof.
  intros a b c S H n nd' En'. assert (X : nth_error (map sinks (nodes c)) n = Some (sinks nd')) by (rewrite nth_error_map, En'; reflexivity).
  rewrite H, nth_error_map in X. destruct (nth_error (nodes b) n) as [ndb|] eqn:Eb; [|discriminate]. inversion X as [Y].
  destruct (S n ndb Eb) as [[nd [En Hs]]|[Hl Hs]]; [left; exists nd; split; [exact En|congruence]|right; split; [exact Hl|congruence]].
Qed.

Lemma sapp_lb : forall st s c i n nd tys sp c2, Forall sub_loc (subs st) -> LB st -> nth_error (subs st) s = Some c -> spc c = SApp i n ->
  styps c = Some tys -> nth_error (nodes st) n = Some nd ->
  snodes c2 = snodes c ++ [n] -> cpc c2 = cpc c ->
  LB (set_sub (set_node st n (n_pend (n_sinks (n_holder nd (Some (TReplay s i))) (sinks nd ++ [s])) sp)) s c2).
Proof.
  intros st s c i n nd tys sp c2 HL L Ec Ep Et En Hs Hk s0 c0' n0 nd0' H0 Hn0. cbn in H0, Hn0.
  assert (K0c : cpc c = K0).
  { destruct (Forall_nth_error _ _ _ _ HL Ec) as [_ [P2 _]]. destruct (cpc c) eqn:X; try reflexivity; exfalso; (assert (Y : spc c = SDone) by (apply P2; congruence)); congruence. }
  assert (R2 : remaining c2 = snodes c ++ [n]) by (unfold remaining; rewrite Hk, K0c; exact Hs).
  assert (R1 : remaining c = snodes c) by (unfold remaining; rewrite K0c; reflexivity).
  apply nth_error_upd_inv in H0. apply nth_error_upd_inv in Hn0.
  destruct H0 as [[-> [-> _]]|[Ns H0]], Hn0 as [[-> [-> _]]|[Nn Hn0]]; cbn [sinks n_pend n_sinks n_holder].
  - rewrite R2, !cnt_app. pose proof (L s c n nd Ec En) as X. rewrite R1 in X. cbn. destruct (Nat.eq_dec n n); [|congruence]. destruct (Nat.eq_dec s s); [|congruence]. lia.
  - rewrite R2, cnt_app. pose proof (L s c n0 nd0' Ec Hn0) as X. rewrite R1 in X. cbn. destruct (Nat.eq_dec n n0); [congruence|]. lia.
  - rewrite cnt_app. pose proof (L s0 c0' n nd H0 En) as X. lia.
  - exact (L s0 c0' n0 nd0' H0 Hn0).
Qed.

Lemma krem_lb : forall st s c j n nd c', LB st -> nth_error (subs st) s = Some c -> cpc c = KRem j ->
  nth_error (snodes c) j = Some n -> nth_error (nodes st) n = Some nd -> snodes c' = snodes c ->
  (cpc c' = KBus j \/ cpc c' = KRem (S j) \/ cpc c' = KCloseCh) ->
  LB (set_sub (set_node st n (n_sinks nd (remove_swap s (sinks nd)))) s c').
Proof.
  intros st s c j n nd c' L Ec Ek Ej En Hs Hk s0 c0' n0 nd0' H0 Hn0. cbn in H0, Hn0.
  assert (R1 : remaining c = skipn j (snodes c)) by (unfold remaining; rewrite Ek; reflexivity).
  assert (R2 : forall x, cnt (remaining c') x <= cnt (skipn (S j) (snodes c)) x).
  { intros x. unfold remaining. destruct Hk as [-> |[-> | ->]]; rewrite ?Hs; cbn [cnt]; try lia. unfold cnt. cbn. lia. }
  pose proof (cnt_skipn_S (snodes c) j n Ej) as SK.
  apply nth_error_upd_inv in H0. apply nth_error_upd_inv in Hn0.
  destruct H0 as [[-> [-> _]]|[Ns H0]], Hn0 as [[-> [-> _]]|[Nn Hn0]]; cbn [sinks n_sinks].
  - rewrite cnt_remove_swap_same. pose proof (L s c n nd Ec En) as X. rewrite R1, (SK n) in X. specialize (R2 n). destruct (Nat.eq_dec n n); [|congruence]. lia.
  - pose proof (L s c n0 nd0' Ec Hn0) as X. rewrite R1, (SK n0) in X. specialize (R2 n0). destruct (Nat.eq_dec n n0); [congruence|]. lia.
  - rewrite cnt_remove_swap_other by congruence. exact (L s0 c0' n nd H0 En).
  - exact (L s0 c0' n0 nd0' H0 Hn0).
Qed.

Lemma step_lb : forall st t l st', Forall sub_loc (subs st) -> Valid st -> LB st -> step st t = Some (l, st') -> LB st'.
Proof.
  intros st t l st' HL V L E.
  assert (F : sinks_same st st' /\ rem_shrink st st' -> LB st') by (intros [A B]; eapply LB_frame; eassumption).
  destruct t; cbn [step] in E.
  - unfold step_emnew in E. destruct (nth_error (emitters st) j) as [m|]; [|discriminate].
    destruct (mnew m) as [|[|[|[|?]]]]; try discriminate; try solve [brute E; inversion E; subst; apply F; lb_same].
    destruct (with_node st (mty m)) as [[st1 n]|] eqn:Ew; [|discriminate]. inversion E; subst. destruct (with_node_lb _ _ _ _ Ew) as [A B].
    apply F. split; [eapply ss_trans_eq; [exact A|reflexivity]|apply rs_eq; cbn; rewrite B; reflexivity].
  - unfold step_emclose in E. destruct (nth_error (emitters st) j) as [m|]; [|discriminate].
    destruct (mcl m); try discriminate; try solve [brute E; inversion E; subst; apply F; lb_same].
    apply otau_Some in E. destruct E as [E _]. apply option_map_Some in E. destruct E as [x [E ->]]. destruct (try_drop_lb _ _ _ E) as [A B].
    apply F. split; [eapply ss_trans_eq; [exact A|reflexivity]|]. intros s0 c0 H. apply B. exact H.
  - unfold step_emit in E. destruct (nth_error (emits st) k) as [e|]; [|discriminate].
    destruct (nth_error (emitters st) (eem e)) as [m|]; [|discriminate].
    destruct (epc e) as [| | |n [|x r]|n|n|n [|x r]|c|]; try discriminate; try solve [brute E; inversion E; subst; apply F; lb_same];
      apply otau_Some in E; destruct E as [E _]; apply option_map_Some in E; destruct E as [x0 [E ->]]; destruct (send_lb _ _ _ _ E) as [A B];
      apply F; (split; [eapply ss_trans_eq; [exact A|reflexivity]|intros s0 c0 H; apply B; exact H]).
  - unfold step_sub in E. destruct (nth_error (subs st) s) as [c|] eqn:Ec; [|discriminate].
    destruct (spc c) eqn:Ep; try solve [brute E; inversion E; subst; apply F; lb_same].
    + destruct (styps c) as [tys|]; [|discriminate]. destruct (nth_error tys i) as [ty|]; [|discriminate].
      destruct (with_node st ty) as [[st1 n]|] eqn:Ew; [|discriminate]. inversion E; subst. destruct (with_node_lb _ _ _ _ Ew) as [A B].
      apply F. split; [eapply ss_trans_eq; [exact A|reflexivity]|]. eapply (rs_upd st st1 _ s c); [exact B|exact Ec|reflexivity|intros n0; unfold remaining; cbn; apply Nat.le_refl].
    + destruct (styps c) as [tys|] eqn:Et; [|discriminate]. destruct (nth_error (nodes st) n) as [nd|] eqn:En; [|discriminate].
      destruct (holder nd); [discriminate|]. inversion E; subst. clear E.
      eapply sapp_lb; try eassumption; destruct (keep nd); try destruct (nlast nd); reflexivity.
  - unfold step_replay in E. destruct (nth_error (subs st) s) as [c|] eqn:Ec; [|discriminate].
    destruct (nth_error (rpend c) i) as [[|]|]; try discriminate.
    destruct (nth_error (snodes c) i) as [n|]; [|discriminate]. destruct (nth_error (nodes st) n) as [nd|] eqn:En; [|discriminate].
    destruct (keep nd); [destruct (nlast nd) as [lv|]|]; try solve [inversion E; subst; apply F; lb_same].
    apply otau_Some in E. destruct E as [E _]. apply option_map_Some in E. destruct E as [x [E ->]]. destruct (send_lb _ _ _ _ E) as [A B].
    destruct (nth_error (subs x) s) as [c'|] eqn:Ec'; [|apply F; split; assumption].
    apply F. split.
    * eapply ss_trans_eq; [exact A|]. cbn. rewrite (send_nodes' _ _ _ _ E). apply (map_upd_same sinks _ n _ nd); [exact En|reflexivity].
    * intros s0 c0 H. cbn in H. apply nth_error_upd_inv in H. destruct H as [[-> [-> _]]|[N H]]; [|apply B; exact H].
      destruct (B s c' Ec') as [c1 [Ec1 Hc1]]. exists c1. split; [exact Ec1|]. intros n0. specialize (Hc1 n0). unfold remaining in *. cbn. exact Hc1.
  - unfold step_close in E. destruct (nth_error (subs st) s) as [c|] eqn:Ec; [|discriminate].
    assert (RS : forall stx c', subs stx = subs st -> (forall n, cnt (remaining c') n <= cnt (remaining c) n) -> rem_shrink st (set_sub stx s c')).
    { intros stx c' Hx Hc. eapply (rs_upd st stx _ s c c'); [exact Hx|exact Ec|reflexivity|exact Hc]. }
    destruct (cpc c) eqn:Ek; try discriminate.
    + destruct (spc c); try discriminate. inversion E; subst. apply F. split; [apply ss_eq; reflexivity|]. apply RS; [reflexivity|].
      intros n0. unfold remaining at 2. rewrite Ek. unfold remaining. cbn [cpc c_cpc c_drain c_chan snodes]. destruct (styps c); [destruct (snodes c); cbn; lia|cbn; lia].
    + destruct (nth_error (snodes c) i) as [n|] eqn:Ei; [|discriminate]. destruct (nth_error (nodes st) n) as [nd|] eqn:En; [|discriminate].
      destruct (holder nd); [discriminate|]. inversion E; subst. clear E.
      eapply krem_lb; try eassumption; [reflexivity|]. cbn. unfold knext.
      destruct ((match remove_swap s (sinks nd) with [] => true | _ :: _ => false end) && Nat.eqb (nem nd) 0); [left; reflexivity|].
      destruct (Nat.ltb (S i) (length (snodes c))); [right; left; reflexivity|right; right; reflexivity].
    + inversion E; subst. apply F. split; [apply ss_eq; reflexivity|]. apply RS; [reflexivity|]. intros n0. unfold remaining. cbn. rewrite Ek. apply Nat.le_refl.
    + destruct (nth_error (snodes c) i) as [n|] eqn:Ei; [|discriminate]. destruct (nth_error (nodes st) n) as [nd|]; [|discriminate].
      apply otau_Some in E. destruct E as [E _]. apply option_map_Some in E. destruct E as [x [E ->]]. destruct (try_drop_lb _ _ _ E) as [A B].
      apply F. split; [eapply ss_trans_eq; [exact A|reflexivity]|]. apply RS; [eapply try_drop_subs, E|].
      intros n0. unfold remaining. cbn. rewrite Ek. unfold knext. destruct (Nat.ltb (S i) (length (snodes c))); cbn; try apply Nat.le_refl; try apply Nat.le_0_l.
    + inversion E; subst. apply F. split; [apply ss_eq; reflexivity|]. apply RS; [reflexivity|]. intros n0. unfold remaining. cbn. apply Nat.le_0_l.
    + inversion E; subst. apply F. split; [apply ss_eq; reflexivity|]. apply RS; [reflexivity|]. intros n0. unfold remaining. cbn. apply Nat.le_0_l.
    + destruct (wpend (wild st)); [discriminate|]. inversion E; subst. apply F. split; [apply ss_eq; reflexivity|]. apply RS; [reflexivity|]. intros n0. unfold remaining. cbn. apply Nat.le_0_l.
    + destruct (Nat.eqb (rdrs (wild st)) 0); [|discriminate]. inversion E; subst. apply F. split; [apply ss_eq; reflexivity|]. apply RS; [reflexivity|]. intros n0. unfold remaining. cbn. apply Nat.le_0_l.
    + inversion E; subst. apply F. split; [apply ss_eq; reflexivity|]. apply RS; [reflexivity|]. intros n0. unfold remaining. cbn. apply Nat.le_0_l.
    + destruct (Nat.eqb (drain c) 3); [|discriminate]. inversion E; subst. apply F. split; [apply ss_eq; reflexivity|]. apply RS; [reflexivity|]. intros n0. unfold remaining. cbn. apply Nat.le_0_l.
    + inversion E; subst. apply F. split; [apply ss_eq; reflexivity|]. apply RS; [reflexivity|]. intros n0. unfold remaining. cbn. apply Nat.le_0_l.
  - unfold step_drain in E. destruct (nth_error (subs st) s) as [c|] eqn:Ec; [|discriminate]. brute E; inversion E; subst; apply F; lb_same.
  - unfold step_req in E. destruct (nth_error (subs st) s) as [c|] eqn:Ec; [|discriminate]. inversion E; subst; apply F; lb_same.
  - unfold step_recv in E. destruct (nth_error (subs st) s) as [c|] eqn:Ec; [|discriminate]. brute E; inversion E; subst; apply F; lb_same.
  - unfold step_read in E. destruct (nth_error (subs st) s) as [c|] eqn:Ec; [|discriminate]. brute E; inversion E; subst; apply F; lb_same.
Qed.

(* ---- a returned typed Subscribe has joined all its types ---------------------------------- *)
Definition B1 (st : state) : Prop :=
  forall s c tys, nth_error (subs st) s = Some c -> styps c = Some tys -> (spc c = SRet \/ spc c = SDone) -> length (snodes c) = length tys.

Lemma B1_same : forall st st', B1 st -> wS st' = wS st -> B1 st'.
Proof.
  intros st st' B H s c' tys Ec' Et Hp.
  assert (X : nth_error (wS st') s = Some (snodes c', spc c', styps c')) by (unfold wS; rewrite nth_error_map, Ec'; reflexivity).
  rewrite H in X. unfold wS in X. rewrite nth_error_map in X. destruct (nth_error (subs st) s) as [c|] eqn:Ec; [|discriminate].
  cbn in X. inversion X as [[X1 X2 X3]].
  assert (Z : length (snodes c) = length tys) by (apply (B s c tys Ec); [congruence|destruct Hp; [left|right]; congruence]). congruence.
Qed.

Lemma other_wS : forall st t l st', (match t with TSub _ => False | _ => True end) -> step st t = Some (l, st') -> wS st' = wS st.
Proof.
  intros st t l st' Ht E. destruct t; try contradiction; cbn [step] in E.
  - unfold wS. rewrite (emnew_subs _ _ _ _ E). reflexivity.
  - unfold wS. rewrite (emclose_subs _ _ _ _ E). reflexivity.
  - unfold step_emit in E. destruct (nth_error (emits st) k) as [e|]; [|discriminate].
    destruct (nth_error (emitters st) (eem e)) as [m|]; [|discriminate].
    destruct (epc e) as [| | |n [|x r]|n|n|n [|x r]|c|]; try discriminate;
      try solve [brute E; inversion E; subst; unfold wS; cbn; try apply wS_expect; reflexivity];
      apply otau_Some in E; destruct E as [E _]; apply option_map_Some in E; destruct E as [x0 [E ->]]; destruct (send_vv _ _ _ _ E) as [_ [_ [X _]]]; exact X.
  - destruct (replay_vv _ _ _ _ _ E) as [_ [_ [X _]]]. exact X.
  - destruct (close_vv _ _ _ _ E) as [_ [_ [X _]]]. exact X.
  - unfold step_drain in E. destruct (nth_error (subs st) s) as [c|] eqn:Ec; [|discriminate]. brute E; inversion E; subst; rewrite wS_upd; apply upd_same; unfold wS; rewrite nth_error_map, Ec; reflexivity.
  - unfold step_req in E. destruct (nth_error (subs st) s) as [c|] eqn:Ec; [|discriminate]. inversion E; subst; rewrite wS_upd; apply upd_same; unfold wS; rewrite nth_error_map, Ec; reflexivity.
  - unfold step_recv in E. destruct (nth_error (subs st) s) as [c|] eqn:Ec; [|discriminate]. brute E; inversion E; subst; rewrite wS_upd; apply upd_same; unfold wS; rewrite nth_error_map, Ec; reflexivity.
  - unfold step_read in E. destruct (nth_error (subs st) s) as [c|] eqn:Ec; [|discriminate]. brute E; inversion E; subst; rewrite wS_upd; apply upd_same; unfold wS; rewrite nth_error_map, Ec; reflexivity.
Qed.

Lemma sub_b1 : forall st s l st', Forall sub_loc (subs st) -> Inv2 st -> TY st -> B1 st -> step_sub st s = Some (l, st') -> B1 st'.
Proof.
  intros st s l st' HL I T B E. unfold step_sub in E. destruct (nth_error (subs st) s) as [c|] eqn:Ec; [|discriminate].
  assert (G : forall stx c', subs stx = subs st -> styps c' = styps c ->
            (forall tys, styps c = Some tys -> (spc c' = SRet \/ spc c' = SDone) -> length (snodes c') = length tys) -> B1 (set_sub stx s c')).
  { intros stx c' Hx Ht Hc s0 c0 tys H0 Et Hp. cbn in H0. rewrite Hx in H0. apply nth_error_upd_inv in H0. destruct H0 as [[-> [-> _]]|[N H0]].
    - apply Hc; [congruence|exact Hp].
    - eapply B; eassumption. }
  pose proof (iIdx st I s c Ec) as IX. unfold idx_ok in IX.
  destruct (spc c) eqn:Ep.
  - destruct (styps c) as [tys|] eqn:Et; inversion E; subst; apply G; try reflexivity; try exact Et.
    + intros tys0 H0 Hp. inversion H0; subst tys0. cbn in Hp. destruct tys; [cbn; rewrite IX; reflexivity|destruct Hp; discriminate].
    + intros tys0 H0. discriminate.
  - destruct (styps c) as [tys|] eqn:Et; [|discriminate]. destruct (nth_error tys i) as [ty|]; [|discriminate].
    destruct (with_node st ty) as [[st1 n]|] eqn:Ew; [|discriminate]. inversion E; subst. apply G; [eapply with_node_subs, Ew|exact Et|].
    intros tys0 _ Hp. cbn in Hp. destruct Hp; discriminate.
  - destruct (styps c) as [tys|] eqn:Et; [|discriminate]. destruct (nth_error (nodes st) n) as [nd|] eqn:En; [|discriminate].
    destruct (holder nd); [discriminate|]. inversion E; subst l st'. clear E.
    destruct T as [_ [_ [T3 _]]]. pose proof (T3 s c i n tys nd Ec Ep Et En) as Hi.
    assert (Li : i < length tys) by (apply nth_error_Some; congruence).
    assert (Fin : forall ndx c', snodes c' = snodes c ++ [n] -> spc c' = (if Nat.ltb (S i) (length tys) then SBus (S i) else SRet) ->
                  styps c' = Some tys -> B1 (set_sub (set_node st n ndx) s c')).
    { intros ndx c' Sn Sp St. apply (G (set_node st n ndx)); [reflexivity|exact St|].
      intros tys0 H0 Hp. inversion H0; subst tys0. rewrite Sn, app_length, IX. rewrite Sp in Hp.
      destruct (Nat.ltb (S i) (length tys)) eqn:Lt; [destruct Hp; discriminate|]. apply Nat.ltb_ge in Lt. cbn. lia. }
    destruct (keep nd); [destruct (nlast nd)|]; apply Fin; try reflexivity; exact Et.
  - inversion E; subst. apply (G (set_wild st _)); [reflexivity|reflexivity|]. intros tys0 _ Hp. cbn in Hp. destruct Hp; discriminate.
  - destruct (wpend (wild st)); [discriminate|]. inversion E; subst. apply (G (set_wild st _)); [reflexivity|reflexivity|]. intros tys0 _ Hp. cbn in Hp. destruct Hp; discriminate.
  - destruct (Nat.eqb (rdrs (wild st)) 0); [|discriminate]. inversion E; subst. apply (G (set_wild st _)); [reflexivity|reflexivity|].
    intros tys0 H0 _. exfalso. destruct (Forall_nth_error _ _ _ _ HL Ec) as [_ [_ [P3 _]]]. rewrite P3 in H0 by (rewrite Ep; reflexivity). discriminate.
  - inversion E; subst. apply G; [reflexivity|reflexivity|]. intros tys0 H0 _. cbn. apply (B s c tys0 Ec H0). left. exact Ep.
  - destruct (styps c); discriminate.
Qed.

(* ---- the only steps that change a sink list ------------------------------------------------ *)
Definition sinks_fwd (st st' : state) : Prop :=
  forall n nd, nth_error (nodes st) n = Some nd -> exists nd', nth_error (nodes st') n = Some nd' /\ sinks nd' = sinks nd.

Lemma sf_eq : forall st st', map sinks (nodes st') = map sinks (nodes st) -> sinks_fwd st st'.
Proof.
  intros st st' H n nd En. assert (X : nth_error (map sinks (nodes st)) n = Some (sinks nd)) by (rewrite nth_error_map, En; reflexivity).
  rewrite <- H, nth_error_map in X. destruct (nth_error (nodes st') n) as [nd'|]; [|discriminate]. exists nd'. inversion X. auto.
Qed.
Lemma sf_trans : forall a b c, sinks_fwd a b -> sinks_fwd b c -> sinks_fwd a c.
Proof. intros a b c H1 H2 n nd En. destruct (H1 n nd En) as [nb [A B]]. destruct (H2 n nb A) as [nc [C D]]. exists nc. split; [exact C|congruence]. Qed.
Lemma send_sf : forall st s it st', send st s it = Some st' -> sinks_fwd st st'.
Proof. intros st s it st' E. apply sf_eq. rewrite (send_nodes' _ _ _ _ E). reflexivity. Qed.
Lemma try_drop_sf : forall st ty st', try_drop st ty = Some st' -> sinks_fwd st st'.
Proof. intros st ty st' E. apply sf_eq. unfold try_drop in E. brute E; inversion E; subst; reflexivity. Qed.
Lemma with_node_sf : forall st ty st1 n, with_node st ty = Some (st1, n) -> sinks_fwd st st1.
Proof.
  intros st ty st1 n1 Ew n0 nd0 H0. unfold with_node in Ew. destruct (lookup st ty) as [sl m] eqn:El.
  destruct (nth_error (nodes sl) m) as [ndm|] eqn:Em; [|discriminate]. inversion Ew; subst. clear Ew.
  unfold lookup in El. destruct (nth_error (bmap st) ty) as [[k0|]|]; inversion El; subst; cbn.
  - destruct (Nat.eq_dec n1 n0) as [->|N]; [rewrite H0 in Em; inversion Em; subst; exists (n_pend ndm (S (npend ndm))); rewrite (nth_error_upd_eq _ _ _ _ H0); auto|].
    exists nd0. rewrite nth_error_upd_neq by assumption. auto.
  - assert (L : n0 < length (nodes st)) by (apply nth_error_Some; congruence).
    exists nd0. rewrite nth_error_upd_neq by lia. rewrite (nth_error_app_old _ _ _ _ H0). auto.
  - assert (L : n0 < length (nodes st)) by (apply nth_error_Some; congruence).
    exists nd0. rewrite nth_error_upd_neq by lia. rewrite (nth_error_app_old _ _ _ _ H0). auto.
Qed.

Definition sapp_shape (st : state) (t : thr) (st' : state) : Prop :=
  exists s c i n nd nd', t = TSub s /\ nth_error (subs st) s = Some c /\ spc c = SApp i n /\ nth_error (nodes st) n = Some nd /\
    nodes st' = upd (nodes st) n nd' /\ sinks nd' = sinks nd ++ [s].
Definition krem_shape (st : state) (t : thr) (st' : state) : Prop :=
  exists s c j n nd, t = TClose s /\ nth_error (subs st) s = Some c /\ cpc c = KRem j /\ nth_error (nodes st) n = Some nd /\
    nodes st' = upd (nodes st) n (n_sinks nd (remove_swap s (sinks nd))).

Ltac sf_only :=
  left; apply sf_eq;
  cbn [nodes subs set_emitter set_emitters set_sub set_subs set_node set_nodes set_blk set_bmap set_wild set_emit set_emits set_panicked];
  try reflexivity; try (eapply (map_upd_same sinks); [eassumption|reflexivity]).

Lemma step_sinks_cases : forall st t l st', step st t = Some (l, st') ->
  sinks_fwd st st' \/ sapp_shape st t st' \/ krem_shape st t st'.
Proof.
  intros st t l st' E. destruct t; cbn [step] in E.
  - unfold step_emnew in E. destruct (nth_error (emitters st) j) as [m|]; [|discriminate].
    destruct (mnew m) as [|[|[|[|?]]]]; try discriminate; try solve [brute E; inversion E; subst; sf_only].
    destruct (with_node st (mty m)) as [[st1 n]|] eqn:Ew; [|discriminate]. inversion E; subst.
    left. eapply sf_trans; [eapply with_node_sf, Ew|apply sf_eq; reflexivity].
  - unfold step_emclose in E. destruct (nth_error (emitters st) j) as [m|]; [|discriminate].
    destruct (mcl m); try discriminate; try solve [brute E; inversion E; subst; sf_only].
    apply otau_Some in E. destruct E as [E _]. apply option_map_Some in E. destruct E as [x [E ->]].
    left. eapply sf_trans; [eapply try_drop_sf, E|apply sf_eq; reflexivity].
  - unfold step_emit in E. destruct (nth_error (emits st) k) as [e|]; [|discriminate].
    destruct (nth_error (emitters st) (eem e)) as [m|]; [|discriminate].
    destruct (epc e) as [| | |n [|x r]|n|n|n [|x r]|c|]; try discriminate; try solve [brute E; inversion E; subst; sf_only];
      apply otau_Some in E; destruct E as [E _]; apply option_map_Some in E; destruct E as [x0 [E ->]];
      left; (eapply sf_trans; [eapply send_sf, E|apply sf_eq; reflexivity]).
  - unfold step_sub in E. destruct (nth_error (subs st) s) as [c|] eqn:Ec; [|discriminate].
    destruct (spc c) eqn:Ep; try solve [brute E; inversion E; subst; sf_only].
    + destruct (styps c) as [tys|]; [|discriminate]. destruct (nth_error tys i) as [ty|]; [|discriminate].
      destruct (with_node st ty) as [[st1 n]|] eqn:Ew; [|discriminate]. inversion E; subst.
      left. eapply sf_trans; [eapply with_node_sf, Ew|apply sf_eq; reflexivity].
    + destruct (styps c) as [tys|] eqn:Et; [|discriminate]. destruct (nth_error (nodes st) n) as [nd|] eqn:En; [|discriminate].
      destruct (holder nd); [discriminate|]. inversion E; subst. clear E.
      right. left. exists s, c, i, n, nd. eexists. repeat split; try eassumption; reflexivity.
  - unfold step_replay in E. destruct (nth_error (subs st) s) as [c|] eqn:Ec; [|discriminate].
    destruct (nth_error (rpend c) i) as [[|]|]; try discriminate.
    destruct (nth_error (snodes c) i) as [n|]; [|discriminate]. destruct (nth_error (nodes st) n) as [nd|] eqn:En; [|discriminate].
    destruct (keep nd); [destruct (nlast nd) as [lv|]|]; try solve [inversion E; subst; sf_only].
    apply otau_Some in E. destruct E as [E _]. apply option_map_Some in E. destruct E as [x [E ->]].
    destruct (nth_error (subs x) s) as [c'|] eqn:Ec'; [|left; eapply send_sf, E].
    left. eapply sf_trans; [eapply send_sf, E|]. apply sf_eq. cbn. apply (map_upd_same sinks _ n _ nd); [rewrite (send_nodes' _ _ _ _ E); exact En|reflexivity].
  - unfold step_close in E. destruct (nth_error (subs st) s) as [c|] eqn:Ec; [|discriminate].
    destruct (cpc c) eqn:Ek; try discriminate; try solve [brute E; inversion E; subst; sf_only].
    + destruct (nth_error (snodes c) i) as [n|] eqn:Ei; [|discriminate]. destruct (nth_error (nodes st) n) as [nd|] eqn:En; [|discriminate].
      destruct (holder nd); [discriminate|]. inversion E; subst. clear E.
      right. right. exists s, c, i, n, nd. repeat split; try eassumption; reflexivity.
    + destruct (nth_error (snodes c) i) as [n|] eqn:Ei; [|discriminate]. destruct (nth_error (nodes st) n) as [nd|]; [|discriminate].
      apply otau_Some in E. destruct E as [E _]. apply option_map_Some in E. destruct E as [x [E ->]].
      left. eapply sf_trans; [eapply try_drop_sf, E|apply sf_eq; reflexivity].
  - unfold step_drain in E. destruct (nth_error (subs st) s) as [c|] eqn:Ec; [|discriminate]. brute E; inversion E; subst; sf_only.
  - unfold step_req in E. destruct (nth_error (subs st) s) as [c|] eqn:Ec; [|discriminate]. inversion E; subst; sf_only.
  - unfold step_recv in E. destruct (nth_error (subs st) s) as [c|] eqn:Ec; [|discriminate]. brute E; inversion E; subst; sf_only.
  - unfold step_read in E. destruct (nth_error (subs st) s) as [c|] eqn:Ec; [|discriminate]. brute E; inversion E; subst; sf_only.
Qed.

(* a listed subscription stays listed unless its own Close removes it *)
Lemma step_sinks : forall st t l st' n nd s0, step st t = Some (l, st') -> nth_error (nodes st) n = Some nd -> In s0 (sinks nd) ->
  (exists nd', nth_error (nodes st') n = Some nd' /\ In s0 (sinks nd')) \/
  (exists c0 i, nth_error (subs st) s0 = Some c0 /\ cpc c0 = KRem i).
Proof.
  intros st t l st' n nd s0 E En Hin. destruct (step_sinks_cases _ _ _ _ E) as [S|[S|S]].
  - left. destruct (S n nd En) as [nd' [A B]]. exists nd'. rewrite B. auto.
  - left. destruct S as [s [c [i [n1 [nd1 [nd1' [_ [_ [_ [En1 [Hn Hs]]]]]]]]]]]. rewrite Hn. destruct (Nat.eq_dec n1 n) as [->|N].
    + rewrite En in En1. inversion En1; subst nd1. exists nd1'. rewrite (nth_error_upd_eq _ _ _ _ En), Hs. split; [reflexivity|apply in_or_app; left; exact Hin].
    + exists nd. rewrite nth_error_upd_neq by assumption. auto.
  - destruct S as [s [c [j [n1 [nd1 [_ [Ec [Ek [En1 Hn]]]]]]]]]. destruct (Nat.eq_dec s s0) as [->|Ns]; [right; exists c, j; auto|].
    left. rewrite Hn. destruct (Nat.eq_dec n1 n) as [->|N].
    + rewrite En in En1. inversion En1; subst nd1. eexists. rewrite (nth_error_upd_eq _ _ _ _ En). split; [reflexivity|]. cbn.
      apply cnt_In. rewrite cnt_remove_swap_other by congruence. apply cnt_In, Hin.
    + exists nd. rewrite nth_error_upd_neq by assumption. auto.
Qed.

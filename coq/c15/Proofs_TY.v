(* C15 — typing invariant: the node an emitter / a Subscribe step / a joined
   subscription refers to is a node of the corresponding event type. *)
From Coq Require Import List Arith ZArith Bool Lia.
From Verif Require Import c15.Lts c15.Model c15.Spec c15.Proofs_Chan c15.Proofs_Loc c15.Proofs_List c15.Proofs_Safe
  c15.Proofs_Init c15.Proofs_Live c15.Proofs_Pend c15.Proofs_Idx c15.Proofs_Dead c15.Proofs_Prog c15.Proofs_Valid c15.Proofs_WildOK
  c15.Proofs_Once c15.Proofs_First c15.Proofs_Blk.
Import ListNotations.

Definition nT (st : state) := map nty (nodes st).
Definition tE (st : state) := map (fun m => (mnew m, mnode m, mty m)) (emitters st).

Definition TYv (nt : list nat) (te : list (nat * nat * nat)) (ts : list (list nat * sub_pc * option (list nat)))
               (tm : list (nat * emit_pc)) : Prop :=
  (forall j a b ty, nth_error te j = Some (a, b, ty) -> 2 <= a -> nth_error nt b = Some ty) /\
  (forall k j n todo a b ty, nth_error tm k = Some (j, ESend n todo) -> nth_error te j = Some (a, b, ty) -> n = b) /\
  (forall s sn i n tys, nth_error ts s = Some (sn, SApp i n, Some tys) -> exists t, nth_error nt n = Some t /\ nth_error tys i = Some t) /\
  (forall s sn p tys j n, nth_error ts s = Some (sn, p, Some tys) -> nth_error sn j = Some n ->
      exists t, nth_error nt n = Some t /\ nth_error tys j = Some t) /\
  (forall s sn p tys, nth_error ts s = Some (sn, p, Some tys) -> NoDup tys).
Definition TYV (st : state) : Prop := TYv (nT st) (tE st) (wS st) (wM st).

Lemma TYV_TY : forall st, TYV st -> TY st.
Proof.
  intros st [A [B [C [D F]]]]. unfold nT, tE, wS, wM in *. repeat split.
  - intros j m nd Hj Hm Hn. assert (X : nth_error (map nty (nodes st)) (mnode m) = Some (mty m)).
    { eapply (A j); [rewrite nth_error_map, Hj; reflexivity|exact Hm]. }
    rewrite nth_error_map, Hn in X. inversion X. reflexivity.
  - intros k e m n todo Hk Hp Hm. eapply (B k (eem e) n todo); [rewrite nth_error_map, Hk; cbn; rewrite Hp; reflexivity|rewrite nth_error_map, Hm; reflexivity].
  - intros s c i n tys nd Hs Hp Ht Hn. destruct (C s (snodes c) i n tys) as [t [X Y]]; [rewrite nth_error_map, Hs; cbn; rewrite Hp, Ht; reflexivity|].
    rewrite nth_error_map, Hn in X. inversion X; subst. exact Y.
  - intros s c j n tys nd Hs Hj Ht Hn. destruct (D s (snodes c) (spc c) tys j n) as [t [X Y]]; [rewrite nth_error_map, Hs; cbn; rewrite Ht; reflexivity|exact Hj|].
    rewrite nth_error_map, Hn in X. inversion X; subst. exact Y.
  - intros s c tys Hs Ht. eapply (F s (snodes c) (spc c)). rewrite nth_error_map, Hs. cbn. rewrite Ht. reflexivity.
Qed.

Definition ext (nt nt' : list nat) : Prop := forall n t, nth_error nt n = Some t -> nth_error nt' n = Some t.

Lemma TYv_mono : forall nt nt' te ts tm, ext nt nt' -> TYv nt te ts tm -> TYv nt' te ts tm.
Proof.
  intros nt nt' te ts tm X [A [B [C [D F]]]]. repeat split; eauto.
  - intros s sn i n tys H. destruct (C s sn i n tys H) as [t [P Q]]. eauto.
  - intros s sn p tys j n H Hj. destruct (D s sn p tys j n H Hj) as [t [P Q]]. eauto.
Qed.

Definition ty_same (st st' : state) : Prop := ext (nT st) (nT st') /\ tE st' = tE st /\ wS st' = wS st /\ wM st' = wM st.
Lemma TYV_same : forall st st', TYV st -> ty_same st st' -> TYV st'.
Proof. intros st st' T [A [B [C D]]]. unfold TYV. rewrite B, C, D. eapply TYv_mono; eassumption. Qed.
Lemma ty_trans : forall a b c, ty_same a b -> ty_same b c -> ty_same a c.
Proof. intros a b c [A1 [A2 [A3 A4]]] [B1 [B2 [B3 B4]]]. unfold ty_same. repeat split; try congruence. intros n t H. apply B1, A1, H. Qed.
Lemma ext_refl : forall l, ext l l.
Proof. intros l n t H. exact H. Qed.
Lemma ty_refl : forall a, ty_same a a.
Proof. intros. unfold ty_same. repeat split. apply ext_refl. Qed.

Lemma nT_upd_same : forall st n nd nd', nth_error (nodes st) n = Some nd -> nty nd' = nty nd -> map nty (upd (nodes st) n nd') = nT st.
Proof. intros. unfold nT. eapply map_upd_same; eassumption. Qed.

Ltac ty_fin :=
  unfold ty_same, tE, wS, wM;
  cbn [nodes bmap subs emitters emits set_emitter set_emitters set_sub set_subs set_node set_nodes set_blk set_bmap set_wild set_emit set_emits set_panicked];
  repeat split; try reflexivity; try apply ext_refl;
  try (unfold nT; cbn [nodes set_node set_nodes set_sub set_subs set_emit set_emits set_emitter set_emitters];
       erewrite (map_upd_same nty); [apply ext_refl|eassumption|reflexivity]);
  try (eapply (map_upd_same (fun c => (snodes c, spc c, styps c))); [eassumption|reflexivity]);
  try (eapply (map_upd_same (fun m => (mnew m, mnode m, mty m))); [eassumption|reflexivity]);
  try apply wS_expect.

Lemma send_ty : forall st s it st', send st s it = Some st' -> ty_same st st'.
Proof.
  intros st s it st' E. unfold send in E. destruct (nth_error (subs st) s) as [c|] eqn:Ec; [|discriminate].
  destruct (closed c); [inversion E; subst; ty_fin|]. destruct (room c); [|discriminate]. inversion E; subst. ty_fin.
Qed.
Lemma try_drop_ty : forall st ty st', try_drop st ty = Some st' -> ty_same st st'.
Proof. intros st ty st' E. unfold try_drop in E. brute E; inversion E; subst; ty_fin. Qed.

Lemma with_node_ty : forall st ty st1 n, Pend st -> with_node st ty = Some (st1, n) ->
  ty_same st st1 /\ nth_error (nT st1) n = Some ty.
Proof.
  intros st ty st1 n P E. unfold with_node in E. pose proof (lookup_pend st ty P) as L.
  destruct (lookup st ty) as [sl m] eqn:El. destruct L as [_ [_ [_ [k [Hk _]]]]].
  destruct (nth_error (nodes sl) m) as [nd|] eqn:En; inversion E; subst. clear E.
  assert (Hn : nth_error (nT sl) n = Some ty).
  { unfold vN in Hk. rewrite nth_error_map, En in Hk. inversion Hk; subst. unfold nT. rewrite nth_error_map, En. reflexivity. }
  assert (L : ty_same st sl).
  { assert (F : ty_same st (set_bmap (set_nodes st (nodes st ++ [mkNode ty None [] None false 0 0])) (upd (bmap st) ty (Some (length (nodes st)))))).
    { unfold ty_same. split; [|repeat split]. intros x t H. unfold nT in *. cbn. rewrite map_app. apply nth_error_app_old. exact H. }
    unfold lookup in El. destruct (nth_error (bmap st) ty) as [[q|]|]; inversion El; subst; [apply ty_refl|exact F|exact F]. }
  split.
  - eapply ty_trans; [exact L|]. ty_fin.
  - unfold nT. cbn [nodes set_node set_nodes]. erewrite (map_upd_same nty); [exact Hn|exact En|reflexivity].
Qed.

Lemma TYV_intro : forall st' nt te ts tm, nT st' = nt -> tE st' = te -> wS st' = ts -> wM st' = tm -> TYv nt te ts tm -> TYV st'.
Proof. intros st' nt te ts tm <- <- <- <- H. exact H. Qed.

Lemma tE_upd : forall st j m', tE (set_emitter st j m') = upd (tE st) j (mnew m', mnode m', mty m').
Proof. intros. unfold tE. cbn [emitters set_emitter set_emitters]. rewrite map_upd. reflexivity. Qed.

(* Emit steps: the pc enters ESend only at the lock step, with the emitter's node *)
Lemma emit_ty : forall st k l st', TYV st -> step_emit st k = Some (l, st') -> TYV st'.
Proof.
  intros st k l st' T E. unfold step_emit in E.
  destruct (nth_error (emits st) k) as [e|] eqn:Ek; [|discriminate].
  destruct (nth_error (emitters st) (eem e)) as [m|] eqn:Em; [|discriminate].
  assert (Vk : nth_error (wM st) k = Some (eem e, epc e)) by (unfold wM; rewrite nth_error_map, Ek; reflexivity).
  assert (Ve : nth_error (tE st) (eem e) = Some (mnew m, mnode m, mty m)) by (unfold tE; rewrite nth_error_map, Em; reflexivity).
  assert (G : forall stx p, ty_same st stx -> (forall n todo, p = ESend n todo -> n = mnode m) -> TYV (set_emit stx k (e_pc e p))).
  { intros stx p [A [B [C D]]] Hp. eapply TYV_intro; [reflexivity|exact B|exact C|rewrite wM_upd, D; reflexivity|].
    cbn [eem epc e_pc]. change (nT (set_emit stx k (e_pc e p))) with (nT stx).
    destruct (TYv_mono _ _ _ _ _ A T) as [T1 [T2 [T3 [T4 T5]]]]. repeat split; auto.
    intros k' j n todo a b ty H Hj. apply nth_error_upd_inv in H. destruct H as [[-> [X _]]|[N H]].
    - injection X as Xj Xp. subst j. rewrite Ve in Hj. injection Hj as Ha Hb Hty. subst b. apply (Hp n todo). symmetry. exact Xp.
    - eapply T2; eassumption. }
  destruct (epc e) as [| | |n [|x r]|n|n|n [|x r]|c|] eqn:Ep; try discriminate.
  - destruct (Nat.eqb (mnew m) 4); inversion E; subst. apply G; [apply ty_refl|intros; discriminate].
  - inversion E; subst. apply G; [apply ty_refl|intros; destruct (mclosed m); discriminate].
  - destruct (nth_error (nodes st) (mnode m)) as [nd|] eqn:En; [|discriminate]. destruct (holder nd); [discriminate|].
    inversion E; subst. apply G; [ty_fin|]. intros n todo X. inversion X. reflexivity.
  - destruct (nth_error (nodes st) n) as [nd|] eqn:En; [|discriminate]. inversion E; subst. apply G; [ty_fin|intros; discriminate].
  - otau_inv E. apply G; [eapply send_ty; eassumption|]. intros n0 todo X. inversion X; subst n0 todo.
    destruct T as [_ [T2 _]]. eapply (T2 k (eem e) n (x :: r)); eassumption.
  - inversion E; subst. apply G; [apply ty_refl|intros; destruct (Nat.eqb (nsinks (wild st)) 0); discriminate].
  - destruct (wpend (wild st)); [discriminate|]. inversion E; subst. apply G; [ty_fin|intros; discriminate].
  - inversion E; subst. apply G; [ty_fin|intros; discriminate].
  - otau_inv E. apply G; [eapply send_ty; eassumption|intros; discriminate].
  - inversion E; subst. apply G; [apply ty_refl|intros; discriminate].
Qed.

(* replacing an emitter view: allowed if nobody's Emit is inside the send loop with
   a different node, i.e. the node field is unchanged or the emitter is not yet created *)
Lemma TYv_em_upd : forall nt te ts tm j a b ty a' b', TYv nt te ts tm -> nth_error te j = Some (a, b, ty) ->
  (2 <= a' -> nth_error nt b' = Some ty) ->
  (b' = b \/ forall k n todo, nth_error tm k = Some (j, ESend n todo) -> False) ->
  TYv nt (upd te j (a', b', ty)) ts tm.
Proof.
  intros nt te ts tm j a b ty a' b' [T1 [T2 [T3 [T4 T5]]]] Hj H1 H2. repeat split; auto.
  - intros j0 x y z H Hx. apply nth_error_upd_inv in H. destruct H as [[-> [X _]]|[N H]]; [inversion X; subst; auto|eauto].
  - intros k j0 n todo x y z H Hj0. apply nth_error_upd_inv in Hj0. destruct Hj0 as [[-> [X _]]|[N Hj0]]; [|eauto].
    inversion X; subst x y z. destruct H2 as [->|H2]; [eapply T2; eassumption|exfalso; eapply H2; eassumption].
Qed.

Lemma emnew_ty : forall st j l st', Pend st -> Valid st -> TYV st -> step_emnew st j = Some (l, st') -> TYV st'.
Proof.
  intros st j l st' P [_ [_ [V3 _]]] T E. unfold step_emnew in E. destruct (nth_error (emitters st) j) as [m|] eqn:Ej; [|discriminate].
  assert (Vj : nth_error (tE st) j = Some (mnew m, mnode m, mty m)) by (unfold tE; rewrite nth_error_map, Ej; reflexivity).
  assert (NoEmit : mnew m <> 4 -> forall k n todo, nth_error (wM st) k = Some (j, ESend n todo) -> False).
  { intros N k n todo H. unfold wM in H. rewrite nth_error_map in H. destruct (nth_error (emits st) k) as [e|] eqn:Ek; [|discriminate].
    injection H as Hj Hp. apply N. eapply (V3 k e m Ek); [rewrite Hp; discriminate|rewrite Hj; exact Ej]. }
  destruct (mnew m) as [|[|[|[|?]]]] eqn:Em; try discriminate.
  - inversion E; subst. eapply TYV_intro; [reflexivity|apply tE_upd|reflexivity|reflexivity|]. cbn [mnew mnode mty m_new].
    eapply TYv_em_upd; [exact T|exact Vj|lia|left; reflexivity].
  - destruct (with_node st (mty m)) as [[st1 n]|] eqn:Ew; [|discriminate]. inversion E; subst.
    destruct (with_node_ty _ _ _ _ P Ew) as [[A [B [C D]]] Hn].
    eapply TYV_intro; [reflexivity|rewrite tE_upd, B; reflexivity|exact C|exact D|]. cbn [mnew mnode mty m_new].
    change (nT (set_emitter st1 j (m_new m n 2))) with (nT st1).
    eapply TYv_em_upd; [eapply TYv_mono; [exact A|exact T]|exact Vj|intros _; exact Hn|right; apply NoEmit; lia].
  - destruct (nth_error (nodes st) (mnode m)) as [nd|] eqn:En; [|discriminate]. destruct (holder nd); [discriminate|].
    inversion E; subst. eapply TYV_intro; [|rewrite tE_upd; reflexivity|reflexivity|reflexivity|].
    { change (nT (set_emitter ?a j ?b)) with (nT a). unfold nT. cbn [nodes set_node set_nodes]. eapply map_upd_same; [exact En|reflexivity]. }
    cbn [mnew mnode mty m_new]. eapply TYv_em_upd; [exact T|exact Vj| |left; reflexivity].
    intros _. destruct T as [T1 _]. eapply (T1 j); [exact Vj|lia].
  - inversion E; subst. eapply TYV_intro; [reflexivity|apply tE_upd|reflexivity|reflexivity|]. cbn [mnew mnode mty m_new].
    eapply TYv_em_upd; [exact T|exact Vj| |left; reflexivity]. intros _. destruct T as [T1 _]. eapply (T1 j); [exact Vj|lia].
Qed.

Lemma emclose_ty : forall st j l st', TYV st -> step_emclose st j = Some (l, st') -> ty_same st st'.
Proof.
  intros st j l st' T E. unfold step_emclose in E. destruct (nth_error (emitters st) j) as [m|] eqn:Ej; [|discriminate].
  destruct (mcl m); try discriminate; try solve [brute E; inversion E; subst; ty_fin].
  otau_inv E. eapply ty_trans; [eapply try_drop_ty; eassumption|].
  assert (Ej' : nth_error (emitters x) j = Some m) by (rewrite (proj2 (try_drop_emits _ _ _ E)); exact Ej). ty_fin.
Qed.

Lemma TYv_sub_upd : forall nt te ts tm s sn p t sn' p', TYv nt te ts tm -> nth_error ts s = Some (sn, p, t) ->
  (forall i n tys, p' = SApp i n -> t = Some tys -> exists ty, nth_error nt n = Some ty /\ nth_error tys i = Some ty) ->
  (forall tys j n, t = Some tys -> nth_error sn' j = Some n -> exists ty, nth_error nt n = Some ty /\ nth_error tys j = Some ty) ->
  TYv nt te (upd ts s (sn', p', t)) tm.
Proof.
  intros nt te ts tm s sn p t sn' p' [T1 [T2 [T3 [T4 T5]]]] Hs H3 H4. repeat split; auto.
  - intros s0 sn0 i n tys H. apply nth_error_upd_inv in H. destruct H as [[-> [X _]]|[N H]]; [|eauto].
    injection X as X1 X2 X3. subst. eapply H3; reflexivity.
  - intros s0 sn0 p0 tys j n H Hj. apply nth_error_upd_inv in H. destruct H as [[-> [X _]]|[N H]]; [|eauto].
    injection X as X1 X2 X3. subst. eapply H4; [reflexivity|exact Hj].
  - intros s0 sn0 p0 tys H. apply nth_error_upd_inv in H. destruct H as [[-> [X _]]|[N H]]; [|eauto].
    injection X as X1 X2 X3. subst. eapply T5; eassumption.
Qed.

Lemma sub_ty : forall st s l st', Inv2 st -> Pend st -> TYV st -> step_sub st s = Some (l, st') -> TYV st'.
Proof.
  intros st s l st' I P T E. unfold step_sub in E. destruct (nth_error (subs st) s) as [c|] eqn:Ec; [|discriminate].
  assert (Vs : nth_error (wS st) s = Some (snodes c, spc c, styps c)) by (unfold wS; rewrite nth_error_map, Ec; reflexivity).
  assert (Old4 : forall nt', ext (nT st) nt' -> forall tys j n, styps c = Some tys -> nth_error (snodes c) j = Some n ->
            exists ty, nth_error nt' n = Some ty /\ nth_error tys j = Some ty).
  { intros nt' X tys j n Ht Hj. destruct T as [_ [_ [_ [T4 _]]]]. destruct (T4 s (snodes c) (spc c) tys j n) as [ty [A B]]; [rewrite Vs, Ht; reflexivity|exact Hj|]. eauto. }
  assert (G : forall stx c', ty_same st stx -> subs stx = subs st -> snodes c' = snodes c -> styps c' = styps c ->
            (forall i n, spc c' <> SApp i n) -> TYV (set_sub stx s c')).
  { intros stx c' [A [B [C D]]] Hs Hn Ht Hp. eapply TYV_intro; [reflexivity|exact B|rewrite wS_upd, C; reflexivity|exact D|].
    change (nT (set_sub stx s c')) with (nT stx). rewrite Hn, Ht. eapply TYv_sub_upd; [eapply TYv_mono; [exact A|exact T]|exact Vs| |].
    - intros i n tys X. exfalso. eapply Hp, X.
    - apply Old4, A. }
  destruct (spc c) eqn:Ep.
  - destruct (styps c) as [[|? ?]|] eqn:Et; inversion E; subst; (apply G; [apply ty_refl|reflexivity|reflexivity|cbn; exact Et|intros; discriminate]).
  - destruct (styps c) as [tys|] eqn:Et; [|discriminate]. destruct (nth_error tys i) as [ty|] eqn:Ety; [|discriminate].
    destruct (with_node st ty) as [[st1 n]|] eqn:Ew; [|discriminate]. inversion E; subst.
    destruct (with_node_ty _ _ _ _ P Ew) as [[A [B [C D]]] Hn].
    eapply TYV_intro; [reflexivity|exact B|rewrite wS_upd, C; reflexivity|exact D|].
    change (nT (set_sub st1 s ?a)) with (nT st1). cbn [snodes spc styps c_spc]. rewrite Et.
    eapply TYv_sub_upd; [eapply TYv_mono; [exact A|exact T]|exact Vs| |].
    + intros i0 n0 tys0 X Y. injection X as -> ->. injection Y as <-. exists ty. auto.
    + intros tys0 j n0 Y. injection Y as <-. apply Old4; [exact A|reflexivity].
  - destruct (styps c) as [tys|] eqn:Et; [|discriminate].
    destruct (nth_error (nodes st) n) as [nd|] eqn:En; [|discriminate]. destruct (holder nd); [discriminate|].
    inversion E; subst. clear E.
    pose proof (iIdx st I s c Ec) as Hi. unfold idx_ok in Hi. rewrite Ep in Hi.
    set (p' := if Nat.ltb (S i) (length tys) then SBus (S i) else SRet).
    assert (T3n : exists ty, nth_error (nT st) n = Some ty /\ nth_error tys i = Some ty).
    { destruct T as [_ [_ [T3 _]]]. eapply (T3 s (snodes c) i n tys). exact Vs. }
    eapply (TYV_intro _ (nT st) (tE st) (upd (wS st) s (snodes c ++ [n], p', Some tys)) (wM st)).
    + unfold nT. cbn [nodes set_sub set_subs set_node set_nodes]. eapply map_upd_same; [exact En|reflexivity].
    + reflexivity.
    + rewrite wS_upd. f_equal. destruct (keep nd); [destruct (nlast nd)|]; cbn; rewrite Et; reflexivity.
    + reflexivity.
    + eapply TYv_sub_upd; [exact T|exact Vs| |].
      * intros i0 n0 tys0 X. exfalso. unfold p' in X. destruct (Nat.ltb (S i) (length tys)); discriminate.
      * intros tys0 j n0 Y Hj. injection Y as <-. apply nth_error_app_inv in Hj. destruct Hj as [Hj|[-> ->]].
        -- apply (Old4 (nT st) (ext_refl _) tys j n0 eq_refl Hj).
        -- rewrite Hi. exact T3n.
  - inversion E; subst. apply (G (set_wild st _)); [ty_fin|reflexivity|reflexivity|reflexivity|intros; discriminate].
  - destruct (wpend (wild st)); [discriminate|]. inversion E; subst. apply (G (set_wild st _)); [ty_fin|reflexivity|reflexivity|reflexivity|intros; discriminate].
  - destruct (Nat.eqb (rdrs (wild st)) 0); [|discriminate]. inversion E; subst. apply (G (set_wild st _)); [ty_fin|reflexivity|reflexivity|reflexivity|intros; discriminate].
  - inversion E; subst. apply G; [apply ty_refl|reflexivity|reflexivity|reflexivity|intros; discriminate].
  - destruct (styps c); discriminate.
Qed.

Lemma other_ty : forall st t l st', (match t with TReplay _ _ | TClose _ | TDrain _ | TReq _ | TRecv _ | TRead _ => True | _ => False end) ->
  step st t = Some (l, st') -> ty_same st st'.
Proof.
  intros st t l st' Ht E. destruct t; try contradiction; cbn [step] in E.
  - unfold step_replay in E. destruct (nth_error (subs st) s) as [c|] eqn:Ec; [|discriminate].
    destruct (nth_error (rpend c) i) as [[|]|]; try discriminate.
    destruct (nth_error (snodes c) i) as [n|]; [|discriminate].
    destruct (nth_error (nodes st) n) as [nd|] eqn:En; [|discriminate].
    destruct (keep nd); [destruct (nlast nd) as [lv|]|]; try solve [inversion E; subst; ty_fin].
    otau_inv E. eapply ty_trans; [eapply send_ty; eassumption|].
    assert (En' : nth_error (nodes x) n = Some nd).
    { unfold send in E. rewrite Ec in E. brute E; inversion E; subst; exact En. }
    destruct (nth_error (subs x) s) as [c'|] eqn:Ec'; [ty_fin|apply ty_refl].
  - unfold step_close in E. destruct (nth_error (subs st) s) as [c|] eqn:Ec; [|discriminate].
    destruct (cpc c); try discriminate; try solve [brute E; inversion E; subst; ty_fin].
    destruct (nth_error (snodes c) i) as [n|]; [|discriminate]. destruct (nth_error (nodes st) n) as [nd|]; [|discriminate].
    otau_inv E. eapply ty_trans; [eapply try_drop_ty; eassumption|].
    assert (Ec' : nth_error (subs x) s = Some c) by (rewrite (try_drop_subs _ _ _ E); exact Ec). ty_fin.
  - unfold step_drain in E. destruct (nth_error (subs st) s) as [c|] eqn:Ec; [|discriminate]. brute E; inversion E; subst; ty_fin.
  - unfold step_req in E. destruct (nth_error (subs st) s) as [c|] eqn:Ec; [|discriminate]. inversion E; subst; ty_fin.
  - unfold step_recv in E. destruct (nth_error (subs st) s) as [c|] eqn:Ec; [|discriminate]. brute E; inversion E; subst; ty_fin.
  - unfold step_read in E. destruct (nth_error (subs st) s) as [c|] eqn:Ec; [|discriminate]. brute E; inversion E; subst; ty_fin.
Qed.

Lemma step_ty : forall st t l st', Inv2 st -> Pend st -> Valid st -> TYV st -> step st t = Some (l, st') -> TYV st'.
Proof.
  intros st t l st' I P V T E. destruct t;
    try (eapply TYV_same; [exact T|eapply other_ty; [|exact E]; exact Logic.I]); cbn [step] in E.
  - eapply emnew_ty; eassumption.
  - eapply TYV_same; [exact T|eapply emclose_ty; eassumption].
  - eapply emit_ty; eassumption.
  - eapply sub_ty; eassumption.
Qed.

Definition nodup_types (st : state) : Prop := forall c tys, In c (subs st) -> styps c = Some tys -> NoDup tys.

Lemma initial_ty : forall st, fresh_init st -> nodup_types st -> TYV st.
Proof.
  intros st [[Hn [_ [_ [_ [Hs Hm]]]]] [He _]] ND. unfold TYV, nT, tE, wS, wM. repeat split.
  - intros j a b ty H Ha. rewrite nth_error_map in H. destruct (nth_error (emitters st) j) as [m|] eqn:Ej; [|discriminate].
    injection H as <- _ _. rewrite Forall_forall in He. destruct (He m (nth_error_In _ _ Ej)) as [X _]. lia.
  - intros k j n todo a b ty H. rewrite nth_error_map in H. destruct (nth_error (emits st) k) as [e|] eqn:Ek; [|discriminate].
    injection H as _ Hp. rewrite Forall_forall in Hm. rewrite (Hm e (nth_error_In _ _ Ek)) in Hp. discriminate.
  - intros s sn i n tys H. rewrite nth_error_map in H. destruct (nth_error (subs st) s) as [c|] eqn:Ec; [|discriminate].
    injection H as _ Hp _. rewrite Forall_forall in Hs. rewrite (Hs c (nth_error_In _ _ Ec)) in Hp. discriminate.
  - intros s sn p tys j n H Hj. rewrite nth_error_map in H. destruct (nth_error (subs st) s) as [c|] eqn:Ec; [|discriminate].
    injection H as Hsn _ _. rewrite Forall_forall in Hs. rewrite (Hs c (nth_error_In _ _ Ec)) in Hsn. cbn in Hsn. subst sn. destruct j; discriminate.
  - intros s sn p tys H. rewrite nth_error_map in H. destruct (nth_error (subs st) s) as [c|] eqn:Ec; [|discriminate].
    injection H as _ _ Ht. eapply ND; [eapply nth_error_In, Ec|exact Ht].
Qed.

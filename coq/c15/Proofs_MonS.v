(* C15 — the monitor's view of the configuration (dm_* of Spec.v) read off a state. *)
From Coq Require Import List Arith ZArith Bool Lia.
From Verif Require Import lib.Wire c15.Lts c15.Model c15.Spec c15.Proofs_Mon.
Import ListNotations.

Section S.
  Variable nt : nat.
  Variable st : state.
  Let d := dcfg_of_state nt st.

  Lemma dm_ev_state : forall k, dm_ev d k = option_map eev (nth_error (emits st) k).
  Proof. intros k. unfold dm_ev, d, dcfg_of_state, sM. cbn. rewrite nth_error_map. destruct (nth_error (emits st) k); reflexivity. Qed.

  Lemma dm_ty_state : forall k, dm_ty d k =
    match nth_error (emits st) k with Some e => option_map mty (nth_error (emitters st) (eem e)) | None => None end.
  Proof.
    intros k. unfold dm_ty, d, dcfg_of_state, sM, sE. cbn. rewrite nth_error_map. destruct (nth_error (emits st) k) as [e|]; [|reflexivity].
    cbn. rewrite nth_error_map. destruct (nth_error (emitters st) (eem e)); reflexivity.
  Qed.

  Lemma dm_wild_state : forall s c, nth_error (subs st) s = Some c -> dm_wild d s = match styps c with None => true | Some _ => false end.
  Proof. intros s c H. unfold dm_wild, d, dcfg_of_state, sS. cbn. rewrite nth_error_map, H. cbn. destruct (styps c); reflexivity. Qed.

  Lemma dm_tys_state : forall s c, nth_error (subs st) s = Some c -> dm_tys d s = match styps c with None => [] | Some tys => tys end.
  Proof. intros s c H. unfold dm_tys, d, dcfg_of_state, sS. cbn. rewrite nth_error_map, H. cbn. destruct (styps c); reflexivity. Qed.

  Lemma dm_cap_state : forall s c, nth_error (subs st) s = Some c -> dm_cap d s = ccap c.
  Proof. intros s c H. unfold dm_cap, d, dcfg_of_state, sS. cbn. rewrite nth_error_map, H. reflexivity. Qed.

  Lemma dm_em_state : forall j, nth_error (d_em d) j = option_map fE (nth_error (emitters st) j).
  Proof. intros j. unfold d, dcfg_of_state, sE. cbn. rewrite nth_error_map. reflexivity. Qed.

  Lemma find_ev_some : forall l v i k, find_ev l v i = Some k -> exists p, nth_error l (k - i) = Some p /\ snd p = v /\ i <= k.
  Proof.
    induction l as [|[a x] l IH]; intros v i k H; cbn in H; [discriminate|]. destruct (Z.eqb x v) eqn:E.
    - inversion H; subst. apply Z.eqb_eq in E. exists (a, x). rewrite Nat.sub_diag. auto.
    - destruct (IH v (S i) k H) as [p [Hp [Hv Hi]]]. exists p. replace (k - i) with (S (k - S i)) by lia. cbn. auto with arith.
  Qed.

  Lemma find_ev_first : forall l v i k p, NoDup (map snd l) -> nth_error l k = Some p -> snd p = v -> find_ev l v i = Some (i + k).
  Proof.
    induction l as [|[a x] l IH]; intros v i k p ND Hk Hv; [destruct k; discriminate|]. cbn. inversion ND; subst.
    destruct k as [|k]; cbn in Hk.
    - inversion Hk; subst. cbn. rewrite Z.eqb_refl. f_equal. lia.
    - destruct (Z.eqb x (snd p)) eqn:E.
      + apply Z.eqb_eq in E. exfalso. apply H1. cbn in E. subst x. apply in_map, (nth_error_In _ _ Hk).
      + rewrite (IH (snd p) (S i) k p H2 Hk eq_refl). f_equal. lia.
  Qed.

  Lemma dm_find_some : forall v k, dm_find d v = Some k -> exists e, nth_error (emits st) k = Some e /\ eev e = v.
  Proof.
    intros v k H. unfold dm_find in H. destruct (find_ev_some _ _ _ _ H) as [p [Hp [Hv _]]]. rewrite Nat.sub_0_r in Hp.
    unfold d, dcfg_of_state, sM in Hp. cbn in Hp. rewrite nth_error_map in Hp. destruct (nth_error (emits st) k) as [e|]; [|discriminate].
    exists e. inversion Hp; subst. auto.
  Qed.

  Lemma dm_find_uniq : forall k e, NoDup (map eev (emits st)) -> nth_error (emits st) k = Some e -> dm_find d (eev e) = Some k.
  Proof.
    intros k e ND H. unfold dm_find. replace k with (0 + k) at 2 by lia. apply (find_ev_first _ _ 0 k (fM e)).
    - unfold d, dcfg_of_state, sM. cbn. rewrite map_map. exact ND.
    - unfold d, dcfg_of_state, sM. cbn. rewrite nth_error_map, H. reflexivity.
    - reflexivity.
  Qed.

  Lemma dm_emits_state : dm_emits d = seq 0 (length (emits st)).
  Proof. unfold dm_emits, d, dcfg_of_state, sM. cbn. rewrite map_length. reflexivity. Qed.
End S.

(* C15 — coupling between the visible trace and the state: which operations have
   started / returned, and how many receives are outstanding, can be read off
   the program counters.  Proved jointly over run and trace for every schedule. *)
From Coq Require Import List Arith ZArith Bool Lia.
From Verif Require Import c15.Lts c15.Model c15.Spec c15.Proofs c15.Proofs_Chan c15.Proofs_Loc c15.Proofs_List c15.Proofs_Safe
  c15.Proofs_Init c15.Proofs_Live c15.Proofs_Pend c15.Proofs_Idx c15.Proofs_Dead c15.Proofs_Prog c15.Proofs_Valid c15.Proofs_WildOK.
Import ListNotations.

Definition xW (st : state) := map (fun c => want c + length (hand c)) (subs st).

(* status read from a program counter: 0 not started, 1 in flight, 2 returned *)
Definition st_emit (p : emit_pc) : nat := match p with E0 => 0 | EDone => 2 | _ => 1 end.
Definition st_new (a : nat) : nat := match a with 0 => 0 | 1 | 2 | 3 => 1 | _ => 2 end.
Definition st_cl (c : cl_pc) : nat := match c with C0 => 0 | C5 => 2 | _ => 1 end.
Definition st_sub (p : sub_pc) : nat := match p with S0 => 0 | SDone => 2 | _ => 1 end.
Definition st_close (p : close_pc) : nat := match p with K0 => 0 | KDone => 2 | _ => 1 end.

(* status read from the trace *)
Definition tstat (tr : list label) (t : thr) : nat :=
  if o_returned tr t then 2 else if o_started tr t then 1 else 0.

Record Obs (st : state) (tr : list label) : Prop := {
  obE : forall j a b c, nth_error (wE st) j = Some (a, b, c) -> tstat tr (TEmNew j) = st_new a /\ tstat tr (TEmClose j) = st_cl c;
  obM : forall k p, nth_error (xM st) k = Some p -> tstat tr (TEmit k) = st_emit p;
  obS : forall s p, nth_error (xS st) s = Some p -> tstat tr (TSub s) = st_sub p;
  obC : forall s p, nth_error (xC st) s = Some p -> tstat tr (TClose s) = st_close p;
  obW : forall s w, nth_error (xW st) s = Some w -> o_nreq tr s = o_nread tr s + w }.

(* appending a label that does not concern t *)
Definition concerns (l : label) (t : thr) : bool :=
  match l with LStart t' | LRet t' _ => thr_eqb t t' | _ => false end.

Lemma o_started_app : forall tr l t, o_started (tr ++ [l]) t = o_started tr t || lab_is_start t l.
Proof. intros. unfold o_started. rewrite existsb_app. cbn. rewrite orb_false_r. reflexivity. Qed.
Lemma o_returned_app : forall tr l t, o_returned (tr ++ [l]) t = o_returned tr t || lab_is_ret t l.
Proof. intros. unfold o_returned. rewrite existsb_app. cbn. rewrite orb_false_r. reflexivity. Qed.

Lemma tstat_other : forall tr l t, concerns l t = false -> tstat (tr ++ [l]) t = tstat tr t.
Proof.
  intros tr l t H. unfold tstat. rewrite o_started_app, o_returned_app.
  destruct l; cbn in *; rewrite ?H, ?orb_false_r; reflexivity.
Qed.

Lemma thr_eqb_refl : forall t, thr_eqb t t = true.
Proof. destruct t; cbn; rewrite ?Nat.eqb_refl; reflexivity. Qed.

Lemma tstat_start : forall tr t, tstat tr t = 0 -> tstat (tr ++ [LStart t]) t = 1.
Proof.
  intros tr t H. unfold tstat in *. rewrite o_started_app, o_returned_app. cbn. rewrite thr_eqb_refl, orb_true_r, orb_false_r.
  destruct (o_returned tr t); [discriminate|reflexivity].
Qed.

Lemma tstat_ret : forall tr t c, tstat (tr ++ [LRet t c]) t = 2.
Proof. intros tr t c. unfold tstat. rewrite o_returned_app. cbn. rewrite thr_eqb_refl, orb_true_r. reflexivity. Qed.

Lemma nreq_app : forall tr l s, o_nreq (tr ++ [l]) s = o_nreq tr s + (match l with LReq s' => if Nat.eqb s s' then 1 else 0 | _ => 0 end).
Proof. intros. unfold o_nreq. rewrite filter_app, app_length. cbn. destruct l; cbn; try lia. destruct (Nat.eqb s s0); cbn; lia. Qed.
Lemma nread_app : forall tr l s, o_nread (tr ++ [l]) s = o_nread tr s + (match l with LRead s' _ => if Nat.eqb s s' then 1 else 0 | _ => 0 end).
Proof. intros. unfold o_nread. rewrite filter_app, app_length. cbn. destruct l; cbn; try lia. destruct (Nat.eqb s s0); cbn; lia. Qed.

Definition olab (l : option label) : list label := match l with Some x => [x] | None => [] end.

(* how a step of operation thread t0 may move its status, together with its label *)
Definition op_move (t0 : thr) (l : option label) (s0 s1 : nat) : Prop :=
  (l = None /\ s1 = s0) \/ (l = Some (LStart t0) /\ s0 = 0 /\ s1 = 1) \/ (exists c, l = Some (LRet t0 c) /\ s1 = 2).

Lemma thr_eqb_neq : forall a b, a <> b -> thr_eqb a b = false.
Proof. intros a b N. destruct (thr_eqb a b) eqn:E; [|reflexivity]. exfalso. apply N. apply thr_eqb_eq. exact E. Qed.

Lemma tstat_move_self : forall tr t0 l s0 s1, tstat tr t0 = s0 -> op_move t0 l s0 s1 -> tstat (tr ++ olab l) t0 = s1.
Proof.
  intros tr t0 l s0 s1 H [[-> ->]|[[-> [-> ->]]|[c [-> ->]]]]; cbn.
  - rewrite app_nil_r. exact H.
  - apply tstat_start. exact H.
  - apply tstat_ret.
Qed.

Lemma tstat_move_other : forall tr t0 t l s0 s1, t <> t0 -> op_move t0 l s0 s1 -> tstat (tr ++ olab l) t = tstat tr t.
Proof.
  intros tr t0 t l s0 s1 N [[-> _]|[[-> _]|[c [-> _]]]]; cbn.
  - rewrite app_nil_r. reflexivity.
  - apply tstat_other. cbn. apply thr_eqb_neq, N.
  - apply tstat_other. cbn. apply thr_eqb_neq, N.
Qed.

Lemma counts_move : forall tr t0 l s0 s1 s, op_move t0 l s0 s1 ->
  o_nreq (tr ++ olab l) s = o_nreq tr s /\ o_nread (tr ++ olab l) s = o_nread tr s.
Proof.
  intros tr t0 l s0 s1 s [[-> _]|[[-> _]|[c [-> _]]]]; cbn; rewrite ?app_nil_r, ?nreq_app, ?nread_app; cbn; split; lia.
Qed.

Lemma Obs_emit : forall st st' tr k p p' l, Obs st tr ->
  wE st' = wE st -> xS st' = xS st -> xC st' = xC st -> xW st' = xW st ->
  nth_error (xM st) k = Some p -> xM st' = upd (xM st) k p' -> op_move (TEmit k) l (st_emit p) (st_emit p') ->
  Obs st' (tr ++ olab l).
Proof.
  intros st st' tr k p p' l [A B C D W] HE HS HC HW Hk HM Mv.
  assert (Oth : forall t, t <> TEmit k -> tstat (tr ++ olab l) t = tstat tr t) by (intros t N; eapply tstat_move_other; eassumption).
  constructor.
  - rewrite HE. intros j a b c H. destruct (A j a b c H) as [X Y]. split; (rewrite Oth by discriminate; assumption).
  - rewrite HM. intros k' q H. apply nth_error_upd_inv in H. destruct H as [[-> [-> _]]|[N H]].
    + eapply tstat_move_self; [apply (B k p Hk)|exact Mv].
    + rewrite Oth by (intros X; inversion X; subst; contradiction); apply (B k' q H).
  - rewrite HS. intros s q H. rewrite Oth by discriminate; apply (C s q H).
  - rewrite HC. intros s q H. rewrite Oth by discriminate; apply (D s q H).
  - rewrite HW. intros s w H. destruct (counts_move tr _ l _ _ s Mv) as [-> ->]. apply (W s w H).
Qed.

Lemma Obs_sub : forall st st' tr s0 p p' l, Obs st tr ->
  wE st' = wE st -> xM st' = xM st -> xC st' = xC st -> xW st' = xW st ->
  nth_error (xS st) s0 = Some p -> xS st' = upd (xS st) s0 p' -> op_move (TSub s0) l (st_sub p) (st_sub p') ->
  Obs st' (tr ++ olab l).
Proof.
  intros st st' tr s0 p p' l [A B C D W] HE HM HC HW Hk HS Mv.
  assert (Oth : forall t, t <> TSub s0 -> tstat (tr ++ olab l) t = tstat tr t) by (intros t N; eapply tstat_move_other; eassumption).
  constructor.
  - rewrite HE. intros j a b c H. destruct (A j a b c H) as [X Y]. split; (rewrite Oth by discriminate; assumption).
  - rewrite HM. intros k q H. rewrite Oth by discriminate; apply (B k q H).
  - rewrite HS. intros s q H. apply nth_error_upd_inv in H. destruct H as [[-> [-> _]]|[N H]].
    + eapply tstat_move_self; [apply (C s0 p Hk)|exact Mv].
    + rewrite Oth by (intros X; inversion X; subst; contradiction); apply (C s q H).
  - rewrite HC. intros s q H. rewrite Oth by discriminate; apply (D s q H).
  - rewrite HW. intros s w H. destruct (counts_move tr _ l _ _ s Mv) as [-> ->]. apply (W s w H).
Qed.

Lemma Obs_close : forall st st' tr s0 p p' l, Obs st tr ->
  wE st' = wE st -> xM st' = xM st -> xS st' = xS st -> xW st' = xW st ->
  nth_error (xC st) s0 = Some p -> xC st' = upd (xC st) s0 p' -> op_move (TClose s0) l (st_close p) (st_close p') ->
  Obs st' (tr ++ olab l).
Proof.
  intros st st' tr s0 p p' l [A B C D W] HE HM HS HW Hk HC Mv.
  assert (Oth : forall t, t <> TClose s0 -> tstat (tr ++ olab l) t = tstat tr t) by (intros t N; eapply tstat_move_other; eassumption).
  constructor.
  - rewrite HE. intros j a b c H. destruct (A j a b c H) as [X Y]. split; (rewrite Oth by discriminate; assumption).
  - rewrite HM. intros k q H. rewrite Oth by discriminate; apply (B k q H).
  - rewrite HS. intros s q H. rewrite Oth by discriminate; apply (C s q H).
  - rewrite HC. intros s q H. apply nth_error_upd_inv in H. destruct H as [[-> [-> _]]|[N H]].
    + eapply tstat_move_self; [apply (D s0 p Hk)|exact Mv].
    + rewrite Oth by (intros X; inversion X; subst; contradiction); apply (D s q H).
  - rewrite HW. intros s w H. destruct (counts_move tr _ l _ _ s Mv) as [-> ->]. apply (W s w H).
Qed.

Lemma Obs_em : forall st st' tr j a b c a' b' c' l, Obs st tr ->
  xM st' = xM st -> xS st' = xS st -> xC st' = xC st -> xW st' = xW st ->
  nth_error (wE st) j = Some (a, b, c) -> wE st' = upd (wE st) j (a', b', c') ->
  (op_move (TEmNew j) l (st_new a) (st_new a') /\ c' = c) \/ (op_move (TEmClose j) l (st_cl c) (st_cl c') /\ st_new a' = st_new a) ->
  Obs st' (tr ++ olab l).
Proof.
  intros st st' tr j a b c a' b' c' l [A B C D W] HM HS HC HW Hj HE Mv.
  assert (Oth : forall t, t <> TEmNew j -> t <> TEmClose j -> tstat (tr ++ olab l) t = tstat tr t).
  { intros t N1 N2. destruct Mv as [[Mv _]|[Mv _]]; [apply (tstat_move_other tr (TEmNew j) t l _ _ N1 Mv)|apply (tstat_move_other tr (TEmClose j) t l _ _ N2 Mv)]. }
  assert (Cn : forall s, o_nreq (tr ++ olab l) s = o_nreq tr s /\ o_nread (tr ++ olab l) s = o_nread tr s).
  { intros s. destruct Mv as [[Mv _]|[Mv _]]; eapply counts_move; eassumption. }
  constructor.
  - rewrite HE. intros j' x y z H. apply nth_error_upd_inv in H. destruct H as [[-> [X _]]|[N H]].
    + inversion X; subst x y z. destruct (A j a b c Hj) as [P Q]. destruct Mv as [[Mv ->]|[Mv E]].
      * split; [eapply tstat_move_self; eassumption|]. rewrite (tstat_move_other tr (TEmNew j) (TEmClose j) l _ _ ltac:(discriminate) Mv). exact Q.
      * split; [|eapply tstat_move_self; eassumption]. rewrite (tstat_move_other tr (TEmClose j) (TEmNew j) l _ _ ltac:(discriminate) Mv). rewrite E. exact P.
    + destruct (A j' x y z H) as [P Q]. split; (rewrite Oth by (intros X; inversion X; subst; contradiction); assumption).
  - rewrite HM. intros k q H. rewrite Oth by discriminate. apply (B k q H).
  - rewrite HS. intros s q H. rewrite Oth by discriminate. apply (C s q H).
  - rewrite HC. intros s q H. rewrite Oth by discriminate. apply (D s q H).
  - rewrite HW. intros s w H. destruct (Cn s) as [-> ->]. apply (W s w H).
Qed.

Lemma Obs_same : forall st st' tr, Obs st tr -> wE st' = wE st -> xM st' = xM st -> xS st' = xS st -> xC st' = xC st ->
  xW st' = xW st -> Obs st' (tr ++ olab None).
Proof. intros st st' tr [A B C D W] HE HM HS HC HW. cbn. rewrite app_nil_r. constructor; rewrite ?HE, ?HM, ?HS, ?HC, ?HW; assumption. Qed.

Lemma Obs_req : forall st st' tr s0 w, Obs st tr -> wE st' = wE st -> xM st' = xM st -> xS st' = xS st -> xC st' = xC st ->
  nth_error (xW st) s0 = Some w -> xW st' = upd (xW st) s0 (S w) -> Obs st' (tr ++ [LReq s0]).
Proof.
  intros st st' tr s0 w [A B C D W] HE HM HS HC Hs HW.
  assert (Oth : forall t, tstat (tr ++ [LReq s0]) t = tstat tr t) by (intros t; apply tstat_other; reflexivity).
  constructor.
  - rewrite HE. intros j a b c H. rewrite !Oth. apply (A j a b c H).
  - rewrite HM. intros k q H. rewrite Oth. apply (B k q H).
  - rewrite HS. intros s q H. rewrite Oth. apply (C s q H).
  - rewrite HC. intros s q H. rewrite Oth. apply (D s q H).
  - rewrite HW. intros s x H. rewrite nreq_app, nread_app. cbn. apply nth_error_upd_inv in H. destruct H as [[-> [-> _]]|[N H]].
    + rewrite Nat.eqb_refl. rewrite (W s0 w Hs). lia.
    + destruct (Nat.eqb_spec s s0); [contradiction|]. rewrite (W s x H). lia.
Qed.

Lemma Obs_read : forall st st' tr s0 w v, Obs st tr -> wE st' = wE st -> xM st' = xM st -> xS st' = xS st -> xC st' = xC st ->
  nth_error (xW st) s0 = Some (S w) -> xW st' = upd (xW st) s0 w -> Obs st' (tr ++ [LRead s0 v]).
Proof.
  intros st st' tr s0 w v [A B C D W] HE HM HS HC Hs HW.
  assert (Oth : forall t, tstat (tr ++ [LRead s0 v]) t = tstat tr t) by (intros t; apply tstat_other; reflexivity).
  constructor.
  - rewrite HE. intros j a b c H. rewrite !Oth. apply (A j a b c H).
  - rewrite HM. intros k q H. rewrite Oth. apply (B k q H).
  - rewrite HS. intros s q H. rewrite Oth. apply (C s q H).
  - rewrite HC. intros s q H. rewrite Oth. apply (D s q H).
  - rewrite HW. intros s x H. rewrite nreq_app, nread_app. cbn. apply nth_error_upd_inv in H. destruct H as [[-> [-> _]]|[N H]].
    + rewrite Nat.eqb_refl. rewrite (W s0 (S w) Hs). lia.
    + destruct (Nat.eqb_spec s s0); [contradiction|]. rewrite (W s x H). lia.
Qed.

Ltac otau_inv2 E :=
  let x := fresh "x" in let L := fresh "L" in
  apply otau_Some in E; destruct E as [E L]; rewrite L in *; apply option_map_Some in E; destruct E as [x [E ->]].

Ltac ob_same :=
  unfold wE, xM, xS, xC, xW;
  cbn [nodes bmap wild subs emits emitters set_emitter set_emitters set_sub set_subs set_node set_nodes set_blk set_bmap set_wild set_emit set_emits set_panicked];
  try reflexivity;
  try (eapply (map_upd_same spc); [eassumption|reflexivity]);
  try (eapply (map_upd_same cpc); [eassumption|reflexivity]);
  try (eapply (map_upd_same (fun c => want c + length (hand c))); [eassumption|reflexivity]);
  try (eapply (map_upd_same (fun m => (mnew m, mnode m, mcl m))); [eassumption|reflexivity]).

Lemma xW_expect : forall l tg it i, map (fun c => want c + length (hand c)) (expect_all l tg it i) = map (fun c => want c + length (hand c)) l.
Proof. induction l as [|c l IH]; intros; cbn; [reflexivity|]. f_equal. apply IH. Qed.

Definition ops_same (st st' : state) : Prop :=
  wE st' = wE st /\ xM st' = xM st /\ xS st' = xS st /\ xC st' = xC st /\ xW st' = xW st.

Lemma ops_trans : forall a b c, ops_same a b -> ops_same b c -> ops_same a c.
Proof. intros a b c [A1 [A2 [A3 [A4 A5]]]] [B1 [B2 [B3 [B4 B5]]]]. unfold ops_same. repeat split; congruence. Qed.
Lemma ops_refl : forall a, ops_same a a.
Proof. intros. unfold ops_same. repeat split. Qed.

Lemma send_ops : forall st s it st', send st s it = Some st' -> ops_same st st'.
Proof.
  intros st s it st' E. unfold send in E. destruct (nth_error (subs st) s) as [c|] eqn:Ec; [|discriminate].
  destruct (closed c); [inversion E; subst; unfold ops_same; repeat split; ob_same|]. destruct (room c); [|discriminate]. inversion E; subst.
  unfold ops_same. repeat split; ob_same.
Qed.
Lemma try_drop_ops : forall st ty st', try_drop st ty = Some st' -> ops_same st st'.
Proof. intros st ty st' E. unfold try_drop in E. brute E; inversion E; subst; unfold ops_same; repeat split; ob_same. Qed.
Lemma with_node_ops : forall st ty st1 n, with_node st ty = Some (st1, n) -> ops_same st st1.
Proof.
  intros st ty st1 n E. unfold with_node in E. destruct (lookup st ty) as [sl m] eqn:El.
  destruct (nth_error (nodes sl) m); inversion E; subst.
  unfold lookup in El. destruct (nth_error (bmap st) ty) as [[k|]|]; inversion El; subst; unfold ops_same; repeat split; ob_same.
Qed.

Lemma xM_set_emit : forall st k e p, xM (set_emit st k (e_pc e p)) = upd (xM st) k p.
Proof. intros. unfold xM. cbn [emits set_emit set_emits]. rewrite map_upd. reflexivity. Qed.

Lemma emit_obs : forall st k l st' tr, Obs st tr -> step_emit st k = Some (l, st') -> Obs st' (tr ++ olab l).
Proof.
  intros st k l st' tr O E. unfold step_emit in E.
  destruct (nth_error (emits st) k) as [e|] eqn:Ek; [|discriminate].
  destruct (nth_error (emitters st) (eem e)) as [m|]; [|discriminate].
  assert (Vk : nth_error (xM st) k = Some (epc e)) by (unfold xM; rewrite nth_error_map, Ek; reflexivity).
  assert (G : forall stx p lab, ops_same st stx -> op_move (TEmit k) lab (st_emit (epc e)) (st_emit p) ->
            Obs (set_emit stx k (e_pc e p)) (tr ++ olab lab)).
  { intros stx p lab [A1 [A2 [A3 [A4 A5]]]] Mv. eapply (Obs_emit st _ tr k (epc e) p lab O); try assumption.
    rewrite xM_set_emit, A2. reflexivity. }
  destruct (epc e) as [| | |n [|x r]|n|n|n [|x r]|c|] eqn:Ep; try discriminate.
  - destruct (Nat.eqb (mnew m) 4); inversion E; subst. apply G; [apply ops_refl|right; left; auto].
  - inversion E; subst. apply G; [apply ops_refl|left; split; [reflexivity|destruct (mclosed m); reflexivity]].
  - destruct (nth_error (nodes st) (mnode m)) as [nd|] eqn:En; [|discriminate]. destruct (holder nd); [discriminate|].
    inversion E; subst. apply G; [|left; auto]. unfold ops_same. repeat split; ob_same; [apply xS_expect|apply xC_expect|apply xW_expect].
  - destruct (nth_error (nodes st) n) as [nd|] eqn:En; [|discriminate]. inversion E; subst. apply G; [unfold ops_same; repeat split; ob_same|left; auto].
  - otau_inv2 E. apply G; [eapply send_ops; eassumption|left; auto].
  - inversion E; subst. apply G; [apply ops_refl|left; split; [reflexivity|destruct (Nat.eqb (nsinks (wild st)) 0); reflexivity]].
  - destruct (wpend (wild st)); [discriminate|]. inversion E; subst. apply G; [|left; auto].
    unfold ops_same. repeat split; ob_same; [apply xS_expect|apply xC_expect|apply xW_expect].
  - inversion E; subst. apply G; [unfold ops_same; repeat split; ob_same|left; auto].
  - otau_inv2 E. apply G; [eapply send_ops; eassumption|left; auto].
  - inversion E; subst. apply G; [apply ops_refl|right; right; eauto].
Qed.

Lemma wE_set_emitter : forall st j m', wE (set_emitter st j m') = upd (wE st) j (mnew m', mnode m', mcl m').
Proof. intros. unfold wE. cbn [emitters set_emitter set_emitters]. rewrite map_upd. reflexivity. Qed.

Lemma emnew_obs : forall st j l st' tr, Obs st tr -> step_emnew st j = Some (l, st') -> Obs st' (tr ++ olab l).
Proof.
  intros st j l st' tr O E. unfold step_emnew in E. destruct (nth_error (emitters st) j) as [m|] eqn:Ej; [|discriminate].
  assert (Vj : nth_error (wE st) j = Some (mnew m, mnode m, mcl m)) by (unfold wE; rewrite nth_error_map, Ej; reflexivity).
  assert (G : forall stx n a lab, ops_same st stx -> op_move (TEmNew j) lab (st_new (mnew m)) (st_new a) ->
            Obs (set_emitter stx j (m_new m n a)) (tr ++ olab lab)).
  { intros stx n a lab [A1 [A2 [A3 [A4 A5]]]] Mv. eapply (Obs_em st _ tr j _ _ _ a n (mcl m) lab O); try eassumption.
    - rewrite wE_set_emitter, A1. reflexivity.
    - left. split; [exact Mv|reflexivity]. }
  destruct (mnew m) as [|[|[|[|?]]]] eqn:Em; try discriminate.
  - inversion E; subst. apply G; [apply ops_refl|right; left; auto].
  - destruct (with_node st (mty m)) as [[st1 n]|] eqn:Ew; [|discriminate]. inversion E; subst.
    apply G; [eapply with_node_ops; eassumption|left; auto].
  - destruct (nth_error (nodes st) (mnode m)) as [nd|] eqn:En; [|discriminate]. destruct (holder nd); [discriminate|].
    inversion E; subst. apply G; [unfold ops_same; repeat split; ob_same|left; auto].
  - inversion E; subst. apply G; [apply ops_refl|right; right; eauto].
Qed.

Lemma emclose_obs : forall st j l st' tr, Obs st tr -> step_emclose st j = Some (l, st') -> Obs st' (tr ++ olab l).
Proof.
  intros st j l st' tr O E. unfold step_emclose in E. destruct (nth_error (emitters st) j) as [m|] eqn:Ej; [|discriminate].
  assert (Vj : nth_error (wE st) j = Some (mnew m, mnode m, mcl m)) by (unfold wE; rewrite nth_error_map, Ej; reflexivity).
  assert (G : forall stx cl p lab, ops_same st stx -> op_move (TEmClose j) lab (st_cl (mcl m)) (st_cl p) ->
            Obs (set_emitter stx j (m_cl m cl p)) (tr ++ olab lab)).
  { intros stx cl p lab [A1 [A2 [A3 [A4 A5]]]] Mv. eapply (Obs_em st _ tr j _ _ _ (mnew m) (mnode m) p lab O); try eassumption.
    - rewrite wE_set_emitter, A1. reflexivity.
    - right. split; [exact Mv|reflexivity]. }
  destruct (mcl m) eqn:Ec; try discriminate.
  - destruct (Nat.eqb (mnew m) 4); inversion E; subst. apply G; [apply ops_refl|right; left; auto].
  - destruct (mclosed m); inversion E; subst; (apply G; [apply ops_refl|left; auto]).
  - destruct (nth_error (nodes st) (mnode m)) as [nd|] eqn:En; inversion E; subst.
    apply G; [unfold ops_same; repeat split; ob_same|left; split; [reflexivity|destruct (Nat.eqb (pred (nem nd)) 0); reflexivity]].
  - inversion E; subst. apply G; [apply ops_refl|left; auto].
  - otau_inv2 E. apply G; [eapply try_drop_ops; eassumption|left; auto].
  - inversion E; subst. apply G; [apply ops_refl|right; right; eauto].
Qed.

Lemma xS_set_sub : forall st s c', xS (set_sub st s c') = upd (xS st) s (spc c').
Proof. intros. unfold xS. cbn [subs set_sub set_subs]. rewrite map_upd. reflexivity. Qed.
Lemma xC_set_sub : forall st s c', xC (set_sub st s c') = upd (xC st) s (cpc c').
Proof. intros. unfold xC. cbn [subs set_sub set_subs]. rewrite map_upd. reflexivity. Qed.
Lemma xW_set_sub : forall st s c', xW (set_sub st s c') = upd (xW st) s (want c' + length (hand c')).
Proof. intros. unfold xW. cbn [subs set_sub set_subs]. rewrite map_upd. reflexivity. Qed.

Lemma sub_obs : forall st s l st' tr, Obs st tr -> step_sub st s = Some (l, st') -> Obs st' (tr ++ olab l).
Proof.
  intros st s l st' tr O E. unfold step_sub in E. destruct (nth_error (subs st) s) as [c|] eqn:Ec; [|discriminate].
  assert (Vs : nth_error (xS st) s = Some (spc c)) by (unfold xS; rewrite nth_error_map, Ec; reflexivity).
  assert (G : forall stx c' lab, ops_same st stx -> subs stx = subs st -> cpc c' = cpc c -> want c' = want c -> hand c' = hand c ->
            op_move (TSub s) lab (st_sub (spc c)) (st_sub (spc c')) -> Obs (set_sub stx s c') (tr ++ olab lab)).
  { intros stx c' lab [A1 [A2 [A3 [A4 A5]]]] Hs Hc Hw Hh Mv. eapply (Obs_sub st _ tr s (spc c) (spc c') lab O); try eassumption.
    - rewrite xC_set_sub, A4. unfold xC. apply upd_same. rewrite nth_error_map, Ec, Hc. reflexivity.
    - rewrite xW_set_sub, A5. unfold xW. apply upd_same. rewrite nth_error_map, Ec, Hw, Hh. reflexivity.
    - rewrite xS_set_sub, A3. reflexivity. }
  destruct (spc c) eqn:Ep.
  - destruct (styps c) as [[|? ?]|]; inversion E; subst; (apply G; [apply ops_refl|reflexivity|reflexivity|reflexivity|reflexivity|right; left; auto]).
  - destruct (styps c) as [tys|]; [|discriminate]. destruct (nth_error tys i) as [ty|]; [|discriminate].
    destruct (with_node st ty) as [[st1 n]|] eqn:Ew; [|discriminate]. inversion E; subst.
    apply G; [eapply with_node_ops; eassumption|apply (with_node_subs _ _ _ _ Ew)|reflexivity|reflexivity|reflexivity|left; auto].
  - destruct (styps c) as [tys|]; [|discriminate].
    destruct (nth_error (nodes st) n) as [nd|] eqn:En; [|discriminate]. destruct (holder nd); [discriminate|].
    inversion E; subst. destruct (keep nd); [destruct (nlast nd)|];
      (apply (G (set_node st n _)); [unfold ops_same; repeat split; ob_same|reflexivity|reflexivity|reflexivity|reflexivity|
        left; split; [reflexivity|cbn [spc c_app c_expd]; destruct (Nat.ltb (S i) (length tys)); reflexivity]]).
  - inversion E; subst. apply (G (set_wild st _)); [unfold ops_same; repeat split; ob_same|reflexivity|reflexivity|reflexivity|reflexivity|left; auto].
  - destruct (wpend (wild st)); [discriminate|]. inversion E; subst.
    apply (G (set_wild st _)); [unfold ops_same; repeat split; ob_same|reflexivity|reflexivity|reflexivity|reflexivity|left; auto].
  - destruct (Nat.eqb (rdrs (wild st)) 0); [|discriminate]. inversion E; subst.
    apply (G (set_wild st _)); [unfold ops_same; repeat split; ob_same|reflexivity|reflexivity|reflexivity|reflexivity|left; auto].
  - inversion E; subst. apply G; [apply ops_refl|reflexivity|reflexivity|reflexivity|reflexivity|right; right; eauto].
  - destruct (styps c); discriminate.
Qed.

Lemma close_obs : forall st s l st' tr, Obs st tr -> step_close st s = Some (l, st') -> Obs st' (tr ++ olab l).
Proof.
  intros st s l st' tr O E. unfold step_close in E. destruct (nth_error (subs st) s) as [c|] eqn:Ec; [|discriminate].
  assert (Vc : nth_error (xC st) s = Some (cpc c)) by (unfold xC; rewrite nth_error_map, Ec; reflexivity).
  assert (G : forall stx c' lab, ops_same st stx -> subs stx = subs st -> spc c' = spc c -> want c' = want c -> hand c' = hand c ->
            op_move (TClose s) lab (st_close (cpc c)) (st_close (cpc c')) -> Obs (set_sub stx s c') (tr ++ olab lab)).
  { intros stx c' lab [A1 [A2 [A3 [A4 A5]]]] Hs Hc Hw Hh Mv. eapply (Obs_close st _ tr s (cpc c) (cpc c') lab O); try eassumption.
    - rewrite xS_set_sub, A3. unfold xS. apply upd_same. rewrite nth_error_map, Ec, Hc. reflexivity.
    - rewrite xW_set_sub, A5. unfold xW. apply upd_same. rewrite nth_error_map, Ec, Hw, Hh. reflexivity.
    - rewrite xC_set_sub, A4. reflexivity. }
  destruct (cpc c) eqn:Ek; try discriminate.
  - destruct (spc c) eqn:Ep; try discriminate. inversion E; subst.
    apply G; [apply ops_refl|reflexivity|cbn; exact Ep|reflexivity|reflexivity|].
    right; left. split; [reflexivity|]. split; [reflexivity|]. cbn. destruct (styps c); [destruct (snodes c)|]; reflexivity.
  - destruct (nth_error (snodes c) i) as [n|]; [|discriminate]. destruct (nth_error (nodes st) n) as [nd|] eqn:En; [|discriminate].
    destruct (holder nd); [discriminate|]. inversion E; subst.
    apply (G (set_node st n _)); [unfold ops_same; repeat split; ob_same|reflexivity|reflexivity|reflexivity|reflexivity|].
    left. split; [reflexivity|]. cbn. unfold knext.
    destruct ((match remove_swap s (sinks nd) with [] => true | _ :: _ => false end) && Nat.eqb (nem nd) 0); [reflexivity|].
    destruct (Nat.ltb (S i) (length (snodes c))); reflexivity.
  - inversion E; subst. apply G; [apply ops_refl|reflexivity|reflexivity|reflexivity|reflexivity|left; auto].
  - destruct (nth_error (snodes c) i) as [n|]; [|discriminate]. destruct (nth_error (nodes st) n) as [nd|]; [|discriminate].
    otau_inv2 E. apply G; [eapply try_drop_ops; eassumption|apply (try_drop_subs _ _ _ E)|reflexivity|reflexivity|reflexivity|].
    left. split; [reflexivity|]. cbn. unfold knext. destruct (Nat.ltb (S i) (length (snodes c))); reflexivity.
  - inversion E; subst. apply G; [apply ops_refl|reflexivity|reflexivity|reflexivity|reflexivity|left; auto].
  - inversion E; subst. apply (G (set_wild st _)); [unfold ops_same; repeat split; ob_same|reflexivity|reflexivity|reflexivity|reflexivity|left; auto].
  - destruct (wpend (wild st)); [discriminate|]. inversion E; subst.
    apply (G (set_wild st _)); [unfold ops_same; repeat split; ob_same|reflexivity|reflexivity|reflexivity|reflexivity|left; auto].
  - destruct (Nat.eqb (rdrs (wild st)) 0); [|discriminate]. inversion E; subst.
    apply (G (set_wild st _)); [unfold ops_same; repeat split; ob_same|reflexivity|reflexivity|reflexivity|reflexivity|left; auto].
  - inversion E; subst. apply G; [apply ops_refl|reflexivity|reflexivity|reflexivity|reflexivity|left; auto].
  - destruct (Nat.eqb (drain c) 3); [|discriminate]. inversion E; subst. apply G; [apply ops_refl|reflexivity|reflexivity|reflexivity|reflexivity|left; auto].
  - inversion E; subst. apply G; [apply ops_refl|reflexivity|reflexivity|reflexivity|reflexivity|right; right; eauto].
Qed.

Lemma replay_ops : forall st s i l st', step_replay st s i = Some (l, st') -> ops_same st st' /\ l = None.
Proof.
  intros st s i l st' E. unfold step_replay in E.
  destruct (nth_error (subs st) s) as [c|] eqn:Ec; [|discriminate].
  destruct (nth_error (rpend c) i) as [[|]|]; try discriminate.
  destruct (nth_error (snodes c) i) as [n|]; [|discriminate].
  destruct (nth_error (nodes st) n) as [nd|] eqn:En; [|discriminate].
  destruct (keep nd); [destruct (nlast nd) as [lv|]|]; try solve [inversion E; subst; split; [unfold ops_same; repeat split; ob_same|reflexivity]].
  otau_inv2 E. split; [|reflexivity]. eapply ops_trans; [eapply send_ops; eassumption|].
  destruct (nth_error (subs x) s) as [c'|] eqn:Ec'; [unfold ops_same; repeat split; ob_same|apply ops_refl].
Qed.

Lemma step_obs : forall st t l st' tr, Obs st tr -> step st t = Some (l, st') -> Obs st' (tr ++ olab l).
Proof.
  intros st t l st' tr O E. destruct t; cbn [step] in E.
  - eapply emnew_obs; eassumption.
  - eapply emclose_obs; eassumption.
  - eapply emit_obs; eassumption.
  - eapply sub_obs; eassumption.
  - destruct (replay_ops _ _ _ _ _ E) as [[A1 [A2 [A3 [A4 A5]]]] ->]. eapply Obs_same; eassumption.
  - eapply close_obs; eassumption.
  - unfold step_drain in E. destruct (nth_error (subs st) s) as [c|] eqn:Ec; [|discriminate].
    brute E; inversion E; subst; (eapply Obs_same; [exact O|ob_same|ob_same|ob_same|ob_same|ob_same]).
  - unfold step_req in E. destruct (nth_error (subs st) s) as [c|] eqn:Ec; [|discriminate]. inversion E; subst.
    eapply (Obs_req st _ tr s (want c + length (hand c)) O); [ob_same|ob_same|ob_same|ob_same| |].
    + unfold xW. rewrite nth_error_map, Ec. reflexivity.
    + rewrite xW_set_sub. reflexivity.
  - unfold step_recv in E. destruct (nth_error (subs st) s) as [c|] eqn:Ec; [|discriminate].
    destruct (want c) as [|w] eqn:Ew; [discriminate|]. destruct (buf c).
    + destruct (closed c); [|discriminate]. inversion E; subst. eapply Obs_same; [exact O|ob_same|ob_same|ob_same|ob_same|].
      rewrite xW_set_sub. unfold xW. apply upd_same. rewrite nth_error_map, Ec. cbn. rewrite Ew, app_length. cbn. f_equal. lia.
    + inversion E; subst. eapply Obs_same; [exact O|ob_same|ob_same|ob_same|ob_same|].
      rewrite xW_set_sub. unfold xW. apply upd_same. rewrite nth_error_map, Ec. cbn. rewrite Ew, app_length. cbn. f_equal. lia.
  - unfold step_read in E. destruct (nth_error (subs st) s) as [c|] eqn:Ec; [|discriminate].
    destruct (hand c) as [|v r] eqn:Eh; [discriminate|]. inversion E; subst.
    eapply (Obs_read st _ tr s (want c + length r) v O); [ob_same|ob_same|ob_same|ob_same| |].
    + unfold xW. rewrite nth_error_map, Ec. cbn. rewrite Eh. cbn. f_equal. lia.
    + rewrite xW_set_sub. reflexivity.
Qed.

Lemma obs_run_gen : forall sched st tr, Obs st tr -> Obs (run step st sched) (tr ++ trace step st sched).
Proof.
  induction sched as [|t r IH]; intros st tr O; cbn.
  - rewrite app_nil_r. exact O.
  - destruct (step st t) as [[l st']|] eqn:E.
    + pose proof (step_obs st t l st' tr O E) as O'. specialize (IH st' _ O').
      destruct l as [lab|]; cbn in IH |- *; [rewrite <- app_assoc in IH; exact IH|rewrite app_nil_r in IH; exact IH].
    + apply IH, O.
Qed.

Lemma initial_obs : forall st, fresh_init st -> Obs st [].
Proof.
  intros st [[Hn [_ [_ [_ [Hs Hm]]]]] [He _]]. constructor.
  - intros j a b c H. unfold wE in H. rewrite nth_error_map in H. destruct (nth_error (emitters st) j) as [m|] eqn:Ej; [|discriminate].
    inversion H; subst. rewrite Forall_forall in He. destruct (He m (nth_error_In _ _ Ej)) as [X Y]. rewrite X, Y. split; reflexivity.
  - intros k p H. unfold xM in H. rewrite nth_error_map in H. destruct (nth_error (emits st) k) as [e|] eqn:Ek; [|discriminate].
    inversion H; subst. rewrite Forall_forall in Hm. rewrite (Hm e (nth_error_In _ _ Ek)). reflexivity.
  - intros s p H. unfold xS in H. rewrite nth_error_map in H. destruct (nth_error (subs st) s) as [c|] eqn:Ec; [|discriminate].
    inversion H; subst. rewrite Forall_forall in Hs. rewrite (Hs c (nth_error_In _ _ Ec)). reflexivity.
  - intros s p H. unfold xC in H. rewrite nth_error_map in H. destruct (nth_error (subs st) s) as [c|] eqn:Ec; [|discriminate].
    inversion H; subst. rewrite Forall_forall in Hs. rewrite (Hs c (nth_error_In _ _ Ec)). reflexivity.
  - intros s w H. unfold xW in H. rewrite nth_error_map in H. destruct (nth_error (subs st) s) as [c|] eqn:Ec; [|discriminate].
    inversion H; subst. rewrite Forall_forall in Hs. rewrite (Hs c (nth_error_In _ _ Ec)). reflexivity.
Qed.

(* the coupling, for every schedule *)
Lemma obs_run : forall st sched, fresh_init st -> Obs (run step st sched) (trace step st sched).
Proof. intros st sched H. exact (obs_run_gen sched st [] (initial_obs st H)). Qed.

(* C15 — wildcard subscriptions obey the same rule: for a wildcard
   subscription s and an Emit call k, what k has sent to s, followed by what
   k still owes s while it holds the read lock, is exactly what s was promised
   when k took the read lock (one copy per occurrence of s in the wildcard
   sink list at that instant). *)
From Coq Require Import List Arith ZArith Bool Lia.
From Verif Require Import c15.Lts c15.Model c15.Proofs_Chan c15.Proofs_Loc c15.Proofs_List c15.Proofs_Safe
  c15.Proofs_Init c15.Proofs_Once.
Import ListNotations.

Definition pendw (st : state) (k s : nat) : list item :=
  match nth_error (emits st) k with
  | Some e => match epc e with EWSend _ todo => repeat (k, eev e) (cnt todo s) | _ => [] end
  | None => []
  end.

Definition OnceW (st : state) : Prop :=
  forall s c k, nth_error (subs st) s = Some c -> styps c = None ->
    proj k (hist c) ++ pendw st k s = proj k (expd c).

Definition wsend_pc (p : emit_pc) : bool := match p with EWSend _ _ => true | _ => false end.

Lemma pendw_set_emit : forall st k e p k' s, nth_error (emits st) k = Some e ->
  wsend_pc (epc e) = false -> wsend_pc p = false -> pendw (set_emit st k (e_pc e p)) k' s = pendw st k' s.
Proof.
  intros st k e p k' s Ek H1 H2. unfold pendw. cbn [emits set_emit set_emits]. destruct (Nat.eq_dec k k') as [->|N].
  - rewrite (nth_error_upd_eq _ _ _ _ Ek), Ek. cbn [epc eev e_pc]. destruct (epc e); try discriminate; destruct p; try discriminate; reflexivity.
  - rewrite nth_error_upd_neq by assumption. reflexivity.
Qed.

Lemma W_same : forall st st', OnceW st -> subs st' = subs st -> emits st' = emits st -> OnceW st'.
Proof. intros st st' O H1 H2 s c k Hs Ht. unfold pendw. rewrite H2. rewrite H1 in Hs. exact (O s c k Hs Ht). Qed.

Lemma W_emit : forall st k e p, OnceW st -> nth_error (emits st) k = Some e ->
  wsend_pc (epc e) = false -> wsend_pc p = false -> OnceW (set_emit st k (e_pc e p)).
Proof. intros st k e p O Ek H1 H2 s c k' Hs Ht. rewrite (pendw_set_emit st k e p k' s Ek H1 H2). exact (O s c k' Hs Ht). Qed.

(* updating a subscription without touching its history, or a typed one at all *)
Lemma W_sub : forall st x c c', OnceW st -> nth_error (subs st) x = Some c -> styps c' = styps c ->
  (styps c = None -> hist c' = hist c /\ expd c' = expd c) -> OnceW (set_sub st x c').
Proof.
  intros st x c c' O Ec Ht H s cs k Hs Hw. cbn in Hs. apply nth_error_upd_inv in Hs.
  change (pendw (set_sub st x c') k s) with (pendw st k s).
  destruct Hs as [[-> [-> _]]|[N Hs]].
  - assert (Hw' : styps c = None) by congruence. destruct (H Hw') as [A B]. rewrite A, B. exact (O x c k Ec Hw').
  - exact (O s cs k Hs Hw).
Qed.

Lemma wild_not_listed : forall st s c n nd, Forall sub_loc (subs st) -> Inv2 st -> nth_error (subs st) s = Some c ->
  styps c = None -> nth_error (nodes st) n = Some nd -> cnt (sinks nd) s = 0.
Proof.
  intros st s c n nd HL I Ec Hw En. pose proof (iK st I n nd s En) as K. unfold rem in K. rewrite Ec in K.
  destruct (Forall_nth_error _ _ _ _ HL Ec) as [_ [_ [_ P4]]]. destruct (P4 Hw) as [_ [Htc [Hsn _]]].
  unfold remaining in K. rewrite Hsn in K. destruct (cpc c); try discriminate; cbn in K; try lia.
Qed.

Lemma W_expect_typed : forall st tg it, OnceW st ->
  (forall s c, nth_error (subs st) s = Some c -> styps c = None -> count_occ Nat.eq_dec tg s = 0) ->
  OnceW (set_subs st (expect_all (subs st) tg it 0)).
Proof.
  intros st tg it O Hz s c' k Hs Hw. cbn [subs set_subs] in Hs. rewrite nth_error_expect in Hs.
  destruct (nth_error (subs st) s) as [c|] eqn:Ec; [|discriminate]. cbn in Hs. inversion Hs; subst c'. clear Hs.
  cbn [hist expd c_expd styps] in *. rewrite (Hz s c Ec Hw). cbn. rewrite app_nil_r.
  change (pendw (set_subs st (expect_all (subs st) tg it 0)) k s) with (pendw st k s). exact (O s c k Ec Hw).
Qed.

Lemma emit_wild : forall st k l st', Forall sub_loc (subs st) -> Inv2 st -> OnceW st ->
  step_emit st k = Some (l, st') -> OnceW st'.
Proof.
  intros st k l st' HL I O E. unfold step_emit in E.
  destruct (nth_error (emits st) k) as [e|] eqn:Ek; [|discriminate].
  destruct (nth_error (emitters st) (eem e)) as [m|]; [|discriminate].
  destruct (epc e) as [| | |n todo|n|n|n todo|c|] eqn:Ep.
  - destruct (Nat.eqb (mnew m) 4); inversion E; subst. apply W_emit; auto. rewrite Ep. reflexivity.
  - inversion E; subst. apply W_emit; auto; [rewrite Ep; reflexivity|destruct (mclosed m); reflexivity].
  - destruct (nth_error (nodes st) (mnode m)) as [nd|] eqn:En; [|discriminate].
    destruct (holder nd) eqn:Hh; [discriminate|]. inversion E; subst. clear E.
    apply (W_emit (set_subs (set_node st (mnode m) _) _) k e); [|exact Ek|rewrite Ep; reflexivity|reflexivity].
    apply (W_expect_typed (set_node st (mnode m) _)); [eapply W_same; [exact O| |]; reflexivity|].
    intros s c Ec Hw. cbn in Ec. exact (wild_not_listed st s c (mnode m) nd HL I Ec Hw En).
  - destruct todo as [|x r].
    + destruct (nth_error (nodes st) n) as [nd|]; [|discriminate]. inversion E; subst.
      apply (W_emit (set_node st n _) k e); [eapply W_same; [exact O| |]; reflexivity|exact Ek|rewrite Ep; reflexivity|reflexivity].
    + otau_inv E. destruct (iL st I k e n (x :: r) Ek Ep) as [nd [En [Hh Hsk]]].
      destruct (listed_open st n nd x HL I En (Hsk x (or_introl eq_refl))) as [cx [Ecx Hc]].
      rewrite (send_open _ _ _ _ _ Ecx Hc E).
      apply W_emit; [|cbn; exact Ek|rewrite Ep; reflexivity|reflexivity].
      eapply W_sub; [exact O|exact Ecx|reflexivity|]. intros Hw. exfalso.
      pose proof (wild_not_listed st x cx n nd HL I Ecx Hw En) as Z.
      assert (cnt (sinks nd) x >= 1) by (apply cnt_In, Hsk; left; reflexivity). lia.
  - inversion E; subst. apply W_emit; auto; [rewrite Ep; reflexivity|destruct (Nat.eqb (nsinks (wild st)) 0); reflexivity].
  - (* w.RLock() *)
    destruct (wpend (wild st)); [discriminate|]. inversion E; subst. clear E.
    intros s c' k' Hs Hw. cbn [subs set_emit set_emits set_subs] in Hs. rewrite nth_error_expect in Hs. cbn [subs set_wild] in Hs.
    destruct (nth_error (subs st) s) as [c|] eqn:Ec; [|discriminate]. cbn in Hs. inversion Hs; subst c'. clear Hs.
    cbn [hist expd c_expd styps] in *. rewrite proj_app. specialize (O s c k' Ec Hw).
    fold (cnt (wsinks (wild st)) s). destruct (Nat.eq_dec k' k) as [->|N].
    + rewrite proj_repeat_same. unfold pendw in *. cbn [emits set_emit set_emits set_subs set_wild].
      rewrite (nth_error_upd_eq _ _ _ _ Ek). cbn [epc eev e_pc]. rewrite Ek, Ep, app_nil_r in O. rewrite O. reflexivity.
    + rewrite proj_repeat_other by congruence. rewrite app_nil_r. rewrite <- O. f_equal.
      unfold pendw. cbn [emits set_emit set_emits set_subs set_wild]. rewrite nth_error_upd_neq by congruence. reflexivity.
  - destruct todo as [|x r].
    + inversion E; subst. clear E.
      intros s c k' Hs Hw. cbn in Hs. specialize (O s c k' Hs Hw). rewrite <- O. f_equal.
      unfold pendw. cbn [emits set_emit set_emits set_wild]. destruct (Nat.eq_dec k k') as [->|N].
      * rewrite (nth_error_upd_eq _ _ _ _ Ek), Ek, Ep. reflexivity.
      * rewrite nth_error_upd_neq by assumption. reflexivity.
    + otau_inv E. pose proof (iW2 st I k e n (x :: r) x Ek Ep (or_introl eq_refl)) as Hwx.
      destruct (wild_open st x HL Hwx) as [cx [Ecx Hc]]. rewrite (send_open _ _ _ _ _ Ecx Hc E). clear E.
      intros s c' k' Hs Hw. cbn [subs set_emit set_emits set_sub set_subs] in Hs.
      assert (P : pendw (set_emit (set_sub st x (push cx (k, eev e))) k (e_pc e (EWSend n r))) k' s
                  = if Nat.eq_dec k' k then repeat (k, eev e) (cnt r s) else pendw st k' s).
      { unfold pendw. cbn [emits set_emit set_emits set_sub set_subs]. destruct (Nat.eq_dec k' k) as [->|N].
        - rewrite (nth_error_upd_eq _ _ _ _ Ek). reflexivity.
        - rewrite nth_error_upd_neq by congruence. reflexivity. }
      rewrite P. clear P.
      assert (Pold : pendw st k s = repeat (k, eev e) (cnt (x :: r) s)) by (unfold pendw; rewrite Ek, Ep; reflexivity).
      apply nth_error_upd_inv in Hs. destruct Hs as [[-> [-> _]]|[Nx Hs]].
      * cbn [hist expd push c_chan styps] in *. specialize (O x cx k' Ecx Hw). rewrite proj_app.
        destruct (Nat.eq_dec k' k) as [->|N].
        -- rewrite Pold, cnt_cons in O. destruct (Nat.eq_dec x x); [|congruence]. cbn in O.
           unfold proj at 2. cbn. rewrite Nat.eqb_refl. cbn. rewrite <- app_assoc. exact O.
        -- unfold proj at 2. cbn. destruct (Nat.eqb_spec k k'); [congruence|]. cbn. rewrite app_nil_r. exact O.
      * specialize (O s c' k' Hs Hw). destruct (Nat.eq_dec k' k) as [->|N]; [|exact O].
        rewrite Pold, cnt_cons in O. destruct (Nat.eq_dec x s); [congruence|]. exact O.
  - inversion E; subst. apply W_emit; auto. rewrite Ep. reflexivity.
  - discriminate.
Qed.

Ltac w_same O := eapply W_same; [exact O| |]; reflexivity.
Ltac w_sub O Ec := eapply W_sub; [exact O|exact Ec|reflexivity|intros _; split; reflexivity].

Lemma W_with_node : forall st ty st1 n, OnceW st -> with_node st ty = Some (st1, n) -> OnceW st1.
Proof.
  intros st ty st1 n O E. eapply W_same; [exact O|apply (with_node_subs _ _ _ _ E)|].
  unfold with_node in E. destruct (lookup st ty) as [sl m] eqn:El. destruct (nth_error (nodes sl) m); inversion E; subst. cbn.
  unfold lookup in El. destruct (nth_error (bmap st) ty) as [[k|]|]; inversion El; reflexivity.
Qed.
Lemma W_try_drop : forall st ty st', OnceW st -> try_drop st ty = Some st' -> OnceW st'.
Proof.
  intros st ty st' O E. unfold try_drop in E.
  repeat match type of E with context[match ?x with _ => _ end] => destruct x end; inversion E; subst; w_same O.
Qed.
Lemma W_lookup : forall st ty, OnceW st -> OnceW (fst (lookup st ty)).
Proof. intros st ty O. unfold lookup. destruct (nth_error (bmap st) ty) as [[n|]|]; cbn [fst]; try exact O; w_same O. Qed.

Lemma emnew_wild : forall st j l st', OnceW st -> step_emnew st j = Some (l, st') -> OnceW st'.
Proof.
  intros st j l st' O E. eapply W_same; [exact O|apply (emnew_subs _ _ _ _ E)|].
  unfold step_emnew in E. destruct (nth_error (emitters st) j) as [m|]; [|discriminate].
  destruct (mnew m) as [|[|[|[|?]]]]; try discriminate.
  - inversion E; reflexivity.
  - destruct (with_node st (mty m)) as [[st1 n]|] eqn:Ew; [|discriminate]. inversion E; subst. cbn.
    unfold with_node in Ew. destruct (lookup st (mty m)) as [sl k] eqn:El. destruct (nth_error (nodes sl) k); inversion Ew; subst. cbn.
    unfold lookup in El. destruct (nth_error (bmap st) (mty m)) as [[q|]|]; inversion El; reflexivity.
  - repeat match type of E with context[match ?x with _ => _ end] => destruct x end; inversion E; reflexivity.
  - inversion E; reflexivity.
Qed.

Lemma emclose_wild : forall st j l st', OnceW st -> step_emclose st j = Some (l, st') -> OnceW st'.
Proof.
  intros st j l st' O E. eapply W_same; [exact O|apply (emclose_subs _ _ _ _ E)|].
  unfold step_emclose in E. destruct (nth_error (emitters st) j) as [m|]; [|discriminate].
  destruct (mcl m); try discriminate.
  - destruct (Nat.eqb (mnew m) 4); inversion E; reflexivity.
  - destruct (mclosed m); inversion E; reflexivity.
  - destruct (nth_error (nodes st) (mnode m)); inversion E; reflexivity.
  - inversion E; reflexivity.
  - otau_inv E. unfold try_drop in E.
    repeat match type of E with context[match ?x with _ => _ end] => destruct x end; inversion E; reflexivity.
  - inversion E; reflexivity.
Qed.

Lemma sub_wild : forall st s l st', OnceW st -> step_sub st s = Some (l, st') -> OnceW st'.
Proof.
  intros st s l st' O E. unfold step_sub in E.
  destruct (nth_error (subs st) s) as [c|] eqn:Ec; [|discriminate].
  destruct (spc c) eqn:Ep.
  - destruct (styps c); inversion E; subst; w_sub O Ec.
  - destruct (styps c) as [tys|] eqn:Et; [|discriminate]. destruct (nth_error tys i) as [ty|]; [|discriminate].
    destruct (with_node st ty) as [[st1 n]|] eqn:Ew; [|discriminate]. inversion E; subst.
    eapply W_sub; [eapply W_with_node; eassumption|rewrite (with_node_subs _ _ _ _ Ew); exact Ec|reflexivity|intros _; split; reflexivity].
  - destruct (styps c) as [tys|] eqn:Et; [|discriminate].
    destruct (nth_error (nodes st) n) as [nd|]; [|discriminate].
    destruct (holder nd); [discriminate|]. inversion E; subst.
    eapply (W_sub (set_node st n _) s c).
    + eapply W_same; [exact O| |]; reflexivity.
    + exact Ec.
    + destruct (keep nd); [destruct (nlast nd)|]; cbn; reflexivity.
    + intros X. congruence.
  - inversion E; subst. eapply W_sub; [eapply W_same; [exact O| |]; reflexivity|exact Ec|reflexivity|intros _; split; reflexivity].
  - destruct (wpend (wild st)); [discriminate|]. inversion E; subst.
    eapply W_sub; [eapply W_same; [exact O| |]; reflexivity|exact Ec|reflexivity|intros _; split; reflexivity].
  - destruct (Nat.eqb (rdrs (wild st)) 0); [|discriminate]. inversion E; subst.
    eapply W_sub; [eapply W_same; [exact O| |]; reflexivity|exact Ec|reflexivity|intros _; split; reflexivity].
  - inversion E; subst. w_sub O Ec.
  - destruct (styps c); discriminate.
Qed.

Lemma replay_wild : forall st s i l st', Forall sub_loc (subs st) -> OnceW st -> step_replay st s i = Some (l, st') -> OnceW st'.
Proof.
  intros st s i l st' HL O E. unfold step_replay in E.
  destruct (nth_error (subs st) s) as [c|] eqn:Ec; [|discriminate].
  destruct (nth_error (rpend c) i) as [[|]|] eqn:Er; try discriminate.
  destruct (nth_error (snodes c) i) as [n|]; [|discriminate].
  destruct (nth_error (nodes st) n) as [nd|]; [|discriminate].
  assert (Ht : styps c <> None).
  { intros Hw. destruct (Forall_nth_error _ _ _ _ HL Ec) as [_ [_ [_ P4]]]. destruct (P4 Hw) as [_ [_ [_ X]]].
    rewrite X in Er. destruct i; discriminate. }
  assert (G : forall c2, styps c2 = styps c -> OnceW (set_node (set_sub st s c2) n (n_holder nd None))).
  { intros c2 H2. eapply (W_same (set_sub st s c2)); [|reflexivity|reflexivity].
    eapply W_sub; [exact O|exact Ec|exact H2|intros X; congruence]. }
  destruct (keep nd); [destruct (nlast nd) as [lv|]|].
  - otau_inv E. unfold send in E. rewrite Ec in E. destruct (closed c).
    + inversion E; subst. cbn [subs set_panicked]. rewrite Ec.
      eapply (W_same (set_sub st s (c_rpend c (upd (rpend c) i false)))); [|reflexivity|reflexivity].
      eapply W_sub; [exact O|exact Ec|reflexivity|intros X; congruence].
    + destruct (room c); [|discriminate]. inversion E; subst. cbn [subs set_sub set_subs]. rewrite (nth_error_upd_eq _ _ _ _ Ec).
      assert (X : set_sub (set_sub st s (push c (n, lv))) s (c_rpend (push c (n, lv)) (upd (rpend (push c (n, lv))) i false))
                = set_sub st s (c_rpend (push c (n, lv)) (upd (rpend c) i false))).
      { unfold set_sub, set_subs. cbn. f_equal. clear. generalize (subs st). intros l. revert s.
        induction l as [|a l IH]; intros [|s]; cbn; try reflexivity. f_equal. apply IH. }
      rewrite X. apply G. reflexivity.
  - inversion E; subst. apply G. reflexivity.
  - inversion E; subst. apply G. reflexivity.
Qed.

Lemma close_wild : forall st s l st', OnceW st -> step_close st s = Some (l, st') -> OnceW st'.
Proof.
  intros st s l st' O E. unfold step_close in E.
  destruct (nth_error (subs st) s) as [c|] eqn:Ec; [|discriminate].
  destruct (cpc c).
  - destruct (spc c); try discriminate. inversion E; subst. w_sub O Ec.
  - destruct (nth_error (snodes c) i) as [n|]; [|discriminate].
    destruct (nth_error (nodes st) n) as [nd|]; [|discriminate].
    destruct (holder nd); [discriminate|]. inversion E; subst.
    eapply W_sub; [eapply W_same; [exact O| |]; reflexivity|exact Ec|reflexivity|intros _; split; reflexivity].
  - inversion E; subst. w_sub O Ec.
  - destruct (nth_error (snodes c) i) as [n|]; [|discriminate].
    destruct (nth_error (nodes st) n) as [nd|]; [|discriminate].
    otau_inv E. eapply W_sub; [eapply W_try_drop; eassumption|rewrite (try_drop_subs _ _ _ E); exact Ec|reflexivity|intros _; split; reflexivity].
  - inversion E; subst. w_sub O Ec.
  - inversion E; subst. eapply W_sub; [eapply W_same; [exact O| |]; reflexivity|exact Ec|reflexivity|intros _; split; reflexivity].
  - destruct (wpend (wild st)); [discriminate|]. inversion E; subst.
    eapply W_sub; [eapply W_same; [exact O| |]; reflexivity|exact Ec|reflexivity|intros _; split; reflexivity].
  - destruct (Nat.eqb (rdrs (wild st)) 0); [|discriminate]. inversion E; subst.
    eapply W_sub; [eapply W_same; [exact O| |]; reflexivity|exact Ec|reflexivity|intros _; split; reflexivity].
  - inversion E; subst. w_sub O Ec.
  - destruct (Nat.eqb (drain c) 3); [|discriminate]. inversion E; subst. w_sub O Ec.
  - inversion E; subst. w_sub O Ec.
  - discriminate.
Qed.

Lemma drain_wild : forall st s l st', OnceW st -> step_drain st s = Some (l, st') -> OnceW st'.
Proof.
  intros st s l st' O E. unfold step_drain in E.
  destruct (nth_error (subs st) s) as [c|] eqn:Ec; [|discriminate].
  destruct (draining c); [|discriminate]. destruct (buf c).
  - destruct (Nat.eqb (drain c) 2 || closed c); [|discriminate]. inversion E; subst. w_sub O Ec.
  - inversion E; subst. w_sub O Ec.
Qed.

Lemma req_wild : forall st s l st', OnceW st -> step_req st s = Some (l, st') -> OnceW st'.
Proof.
  intros st s l st' O E. unfold step_req in E.
  destruct (nth_error (subs st) s) as [c|] eqn:Ec; [|discriminate]. inversion E; subst. w_sub O Ec.
Qed.

Lemma recv_wild : forall st s l st', OnceW st -> step_recv st s = Some (l, st') -> OnceW st'.
Proof.
  intros st s l st' O E. unfold step_recv in E.
  destruct (nth_error (subs st) s) as [c|] eqn:Ec; [|discriminate].
  destruct (want c); [discriminate|]. destruct (buf c).
  - destruct (closed c); [|discriminate]. inversion E; subst. w_sub O Ec.
  - inversion E; subst. w_sub O Ec.
Qed.

Lemma read_wild : forall st s l st', OnceW st -> step_read st s = Some (l, st') -> OnceW st'.
Proof.
  intros st s l st' O E. unfold step_read in E.
  destruct (nth_error (subs st) s) as [c|] eqn:Ec; [|discriminate].
  destruct (hand c); [discriminate|]. inversion E; subst. w_sub O Ec.
Qed.

Definition FullW (st : state) : Prop := Safe st /\ OnceW st.

Lemma step_fullw : forall st t l st', FullW st -> step st t = Some (l, st') -> FullW st'.
Proof.
  intros st t l st' [[HL I] O] E. split; [eapply step_safe; [split; eassumption|eassumption]|].
  destruct t; cbn in E;
    eauto using emnew_wild, emclose_wild, emit_wild, sub_wild, replay_wild, close_wild, drain_wild, req_wild, recv_wild, read_wild.
Qed.

Lemma initial_fullw : forall st, initial st -> FullW st.
Proof.
  intros st H. split; [apply initial_safe, H|]. destruct H as [_ [_ [_ [_ [Hs He]]]]].
  intros s c k Hc _. rewrite Forall_forall in Hs. rewrite (Hs c (nth_error_In _ _ Hc)). unfold pendw.
  destruct (nth_error (emits st) k) as [e|] eqn:Ek; [|reflexivity].
  rewrite Forall_forall in He. rewrite (He e (nth_error_In _ _ Ek)). reflexivity.
Qed.

Lemma wildcard_same_rules_l : forall st sched s c k, initial st ->
  nth_error (subs (run step st sched)) s = Some c -> styps c = None ->
  proj k (hist c) ++ pendw (run step st sched) k s = proj k (expd c).
Proof.
  intros st sched s c k H Hc Hw.
  assert (F : FullW (run step st sched)).
  { apply (invariant_run _ _ _ step FullW); [|apply initial_fullw, H]. intros a t l b Ha E. eapply step_fullw; eassumption. }
  exact (proj2 F s c k Hc Hw).
Qed.

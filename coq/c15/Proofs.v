(* C15 — lemmas: basic facts about the executable model and the acceptor. *)
From Coq Require Import List Arith ZArith Bool Lia.
From Verif Require Import lib.Wire c15.Lts c15.Model c15.Spec.
Import ListNotations.

Lemma thr_eqb_eq : forall a b, thr_eqb a b = true -> a = b.
Proof.
  intros a b H. destruct a, b; cbn in H; try discriminate;
    try (apply Nat.eqb_eq in H; subst; reflexivity).
  apply andb_true_iff in H. destruct H as [H1 H2].
  apply Nat.eqb_eq in H1. apply Nat.eqb_eq in H2. subst. reflexivity.
Qed.

Lemma lab_eqb_eq : forall a b, lab_eqb a b = true -> a = b.
Proof.
  intros a b H. destruct a, b; cbn in H; try discriminate.
  - apply thr_eqb_eq in H. subst. reflexivity.
  - apply andb_true_iff in H. destruct H as [H1 H2]. apply thr_eqb_eq in H1.
    apply Z.eqb_eq in H2. subst. reflexivity.
  - apply Nat.eqb_eq in H. subst. reflexivity.
  - apply andb_true_iff in H. destruct H as [H1 H2]. apply Nat.eqb_eq in H1.
    apply Z.eqb_eq in H2. subst. reflexivity.
Qed.

(* the checked tie: a label trace accepted by conform_case's search is the
   visible trace of the LTS under some schedule *)
Lemma accepted_sound : forall fuel st tr,
  accepted fuel st tr = true -> exists sched, trace step st sched = tr.
Proof.
  intros fuel st tr H. unfold accepted in H.
  eapply trace_accepted_dfs_sound; [exact lab_eqb_eq|exact H].
Qed.

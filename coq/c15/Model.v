(* C15 — executable LTS transcription of p2p/host/eventbus/basic.go.
   NO proofs here.  Atomic steps = mutex-protected sections that contain no
   channel operation, and the individual channel operations; a lock that is
   held across channel sends (node.emit, the Subscribe replay goroutine, the
   wildcard read lock) is an explicit holder in the state.  Abstractions:
   basicBus.lk protects only non-blocking sections since fix 8aeecd5 (withNode:
   lookup, pending++; tryDropNode: pending / TryLock check), each one atomic
   step; the blk field is kept but never held across steps; metrics and logging are ignored; the 1 s
   slow-consumer timer only logs and is not modelled.
   Ghost fields (hist, recv, expd) record history for the theorems and are
   never read by a step. *)
From Coq Require Import List Arith ZArith Bool.
From Verif Require Import c15.Lts.
Import ListNotations.

(* (tag, event id): the tag is ghost information used by the theorems only -
   for a send by node.emit / the replay goroutine it is the node id, for a send by
   wildcardNode.emit it is the index of the Emit call *)
Definition item := (nat * Z)%type.

Inductive thr :=
| TEmNew (j : nat)       (* bus.Emitter(type j.ty, [Stateful]) *)
| TEmClose (j : nat)     (* emitter j .Close() *)
| TEmit (k : nat)        (* one call emitter.Emit(ev) *)
| TSub (s : nat)         (* bus.Subscribe(...) creating subscription s *)
| TReplay (s i : nat)    (* the async goroutine of withNode for s's i-th type *)
| TClose (s : nat)       (* subscription s .Close() *)
| TDrain (s : nat)       (* the drainer goroutine started by Close *)
| TReq (s : nat)         (* the consumer of s starts a receive on Out() *)
| TRecv (s : nat)        (* that receive completes (takes an item / sees the close) *)
| TRead (s : nat).       (* the consumer reports what it received (visible) *)

Inductive label :=
| LStart (t : thr) | LRet (t : thr) (code : Z) | LReq (s : nat) | LRead (s : nat) (v : Z).

(* npend: withNode callers that looked the node up under basicBus.lk and have not
   locked it yet (node.pending) *)
Record node := mkNode { nty : nat; holder : option thr; sinks : list nat;
                        nlast : option Z; keep : bool; nem : nat; npend : nat }.

Record wildn := mkWild { wpend : option thr; rdrs : nat; wsinks : list nat; nsinks : nat }.

Inductive sub_pc := S0 | SBus (i : nat) | SApp (i : nat) (n : nat) | SW1 | SW2 | SW3 | SRet | SDone.
Inductive close_pc := K0 | KRem (i : nat) | KBus (i : nat) | KDrop (i : nat) | KCloseCh
                    | KW1 | KW2 | KW3 | KW4 | KW5 | KRet | KDone.

(* a subscription = its channel + the control state of the threads it owns.
   drain: 0 no drainer, 1 draining, 2 wildcard drainer after close(done), 3 drainer gone *)
Record sub := mkSub {
  styps : option (list nat);      (* None = wildcard *)
  ccap : nat; buf : list item; closed : bool; want : nat; drain : nat;
  spc : sub_pc; snodes : list nat; rpend : list bool; cpc : close_pc;
  hist : list item; recv : list item; expd : list item;
  hand : list Z }.                (* received by the consumer, not yet reported *)

(* ESend n todo: inside node n's emit loop, n.lk held; EWSend n todo: inside the
   wildcard loop, read lock held (n only tags the items) *)
Inductive emit_pc := E0 | EChk | ELock | ESend (n : nat) (todo : list nat) | EWChk (n : nat) | ERLock (n : nat)
                   | EWSend (n : nat) (todo : list nat) | ERet (code : Z) | EDone.
Record emit := mkEmit { eem : nat; eev : Z; epc : emit_pc }.

Inductive cl_pc := C0 | C1 | C2 | C3 | C3d | C4 (code : Z) | C5.
Record emitter := mkEmitter { mty : nat; mstateful : bool; mnode : nat; mclosed : bool;
                              mnew : nat; mcl : cl_pc }.

Record state := mkState { nodes : list node; bmap : list (option nat); wild : wildn;
                          subs : list sub; emitters : list emitter; emits : list emit;
                          panicked : bool; blk : option thr }.

(* ---- functional updates ------------------------------------------------ *)
Fixpoint upd {A} (l : list A) (i : nat) (x : A) : list A :=
  match l, i with
  | [], _ => []
  | _ :: r, O => x :: r
  | y :: r, S i' => y :: upd r i' x
  end.

Definition set_nodes st x := mkState x (bmap st) (wild st) (subs st) (emitters st) (emits st) (panicked st) (blk st).
Definition set_bmap st x := mkState (nodes st) x (wild st) (subs st) (emitters st) (emits st) (panicked st) (blk st).
Definition set_wild st x := mkState (nodes st) (bmap st) x (subs st) (emitters st) (emits st) (panicked st) (blk st).
Definition set_subs st x := mkState (nodes st) (bmap st) (wild st) x (emitters st) (emits st) (panicked st) (blk st).
Definition set_emitters st x := mkState (nodes st) (bmap st) (wild st) (subs st) x (emits st) (panicked st) (blk st).
Definition set_emits st x := mkState (nodes st) (bmap st) (wild st) (subs st) (emitters st) x (panicked st) (blk st).
Definition set_blk st x := mkState (nodes st) (bmap st) (wild st) (subs st) (emitters st) (emits st) (panicked st) x.
Definition set_panicked st := mkState (nodes st) (bmap st) (wild st) (subs st) (emitters st) (emits st) true (blk st).

Definition set_node st n x := set_nodes st (upd (nodes st) n x).
Definition set_sub st s x := set_subs st (upd (subs st) s x).
Definition set_emit st k x := set_emits st (upd (emits st) k x).
Definition set_emitter st j x := set_emitters st (upd (emitters st) j x).

Definition n_holder (n : node) h := mkNode (nty n) h (sinks n) (nlast n) (keep n) (nem n) (npend n).
Definition n_sinks (n : node) x := mkNode (nty n) (holder n) x (nlast n) (keep n) (nem n) (npend n).
Definition n_last (n : node) x := mkNode (nty n) (holder n) (sinks n) x (keep n) (nem n) (npend n).
Definition n_emitters (n : node) k e := mkNode (nty n) (holder n) (sinks n) (nlast n) k e (npend n).
Definition n_pend (n : node) p := mkNode (nty n) (holder n) (sinks n) (nlast n) (keep n) (nem n) p.

Definition c_chan (c : sub) b cl w d h r :=
  mkSub (styps c) (ccap c) b cl w d (spc c) (snodes c) (rpend c) (cpc c) h r (expd c) (hand c).
Definition c_spc (c : sub) p := mkSub (styps c) (ccap c) (buf c) (closed c) (want c) (drain c) p (snodes c) (rpend c) (cpc c) (hist c) (recv c) (expd c) (hand c).
Definition c_cpc (c : sub) p := mkSub (styps c) (ccap c) (buf c) (closed c) (want c) (drain c) (spc c) (snodes c) (rpend c) p (hist c) (recv c) (expd c) (hand c).
Definition c_drain (c : sub) d := c_chan c (buf c) (closed c) (want c) d (hist c) (recv c).
Definition c_expd (c : sub) x := mkSub (styps c) (ccap c) (buf c) (closed c) (want c) (drain c) (spc c) (snodes c) (rpend c) (cpc c) (hist c) (recv c) x (hand c).
Definition c_app (c : sub) p n := mkSub (styps c) (ccap c) (buf c) (closed c) (want c) (drain c) p (snodes c ++ [n]) (rpend c ++ [true]) (cpc c) (hist c) (recv c) (expd c) (hand c).
Definition c_rpend (c : sub) x := mkSub (styps c) (ccap c) (buf c) (closed c) (want c) (drain c) (spc c) (snodes c) x (cpc c) (hist c) (recv c) (expd c) (hand c).

Definition c_hand (c : sub) x := mkSub (styps c) (ccap c) (buf c) (closed c) (want c) (drain c) (spc c) (snodes c) (rpend c) (cpc c) (hist c) (recv c) (expd c) x.
Definition e_pc (e : emit) p := mkEmit (eem e) (eev e) p.
Definition m_new (m : emitter) n k := mkEmitter (mty m) (mstateful m) n (mclosed m) k (mcl m).
Definition m_cl (m : emitter) c p := mkEmitter (mty m) (mstateful m) (mnode m) c (mnew m) p.

(* ---- channels ----------------------------------------------------------- *)
(* A Go channel holds at most cap buffered items plus one per receiver that
   is already waiting; the drainer is a receiver that is always waiting. *)
Definition draining (c : sub) : bool := Nat.eqb (drain c) 1 || Nat.eqb (drain c) 2.
Definition room (c : sub) : bool :=
  Nat.ltb (length (buf c)) (ccap c + want c + (if draining c then 1 else 0)).
Definition push (c : sub) (it : item) : sub :=
  c_chan c (buf c ++ [it]) (closed c) (want c) (drain c) (hist c ++ [it]) (recv c).

(* `sink.ch <- evt` by some thread: panics on a closed channel, blocks
   (None) while there is no room *)
Definition send (st : state) (s : nat) (it : item) : option state :=
  match nth_error (subs st) s with
  | None => None
  | Some c => if closed c then Some (set_panicked st)
              else if room c then Some (set_sub st s (push c it)) else None
  end.

(* ghost: every subscription listed in [targets] is owed the item, once per
   occurrence in the list (the emit loop sends once per list entry) *)
Fixpoint expect_all (l : list sub) (targets : list nat) (it : item) (i : nat) : list sub :=
  match l with
  | [] => []
  | c :: r => c_expd c (expd c ++ repeat it (count_occ Nat.eq_dec targets i)) :: expect_all r targets it (S i)
  end.

(* n.sinks[i], n.sinks[last] = n.sinks[last], nil; truncate  (first match only) *)
Fixpoint remove_swap (s : nat) (l : list nat) : list nat :=
  match l with
  | [] => []
  | x :: r => if Nat.eqb x s
              then match r with [] => [] | _ => List.last r 0 :: removelast r end
              else x :: remove_swap s r
  end.

(* withNode: look the type up in the bus map, creating the node *)
Definition lookup (st : state) (ty : nat) : state * nat :=
  match nth_error (bmap st) ty with
  | Some (Some n) => (st, n)
  | _ => let n := length (nodes st) in
         (set_bmap (set_nodes st (nodes st ++ [mkNode ty None [] None false 0 0])) (upd (bmap st) ty (Some n)), n)
  end.

Definition lock_free (st : state) (n : nat) : bool :=
  match nth_error (nodes st) n with
  | Some nd => match holder nd with None => true | Some _ => false end
  | None => false
  end.

(* the first half of withNode, one section under basicBus.lk (nothing in it
   blocks): look the node up or create it, n.pending++ *)
Definition with_node (st : state) (ty : nat) : option (state * nat) :=
  let '(st1, n) := lookup st ty in
  match nth_error (nodes st1) n with
  | Some nd => Some (set_node st1 n (n_pend nd (S (npend nd))), n)
  | None => None
  end.

(* tryDropNode, one section under basicBus.lk: pending > 0 or TryLock failure =
   in use; never waits for n.lk *)
Definition try_drop (st : state) (ty : nat) : option state :=
  match nth_error (bmap st) ty with
  | Some (Some n) =>
      match nth_error (nodes st) n with
      | Some nd => match holder nd with
                   | Some _ => Some st
                   | None => if Nat.eqb (npend nd) 0 && Nat.eqb (nem nd) 0 && (match sinks nd with [] => true | _ => false end)
                             then Some (set_bmap st (upd (bmap st) ty None)) else Some st
                   end
      | None => Some st
      end
  | _ => Some st
  end.

Definition tau (st : state) : option (option label * state) := Some (None, st).
Definition vis (l : label) (st : state) : option (option label * state) := Some (Some l, st).
Definition otau (o : option state) : option (option label * state) :=
  match o with Some st => Some (None, st) | None => None end.

(* ---- Emit ---------------------------------------------------------------- *)
Definition step_emit (st : state) (k : nat) : option (option label * state) :=
  match nth_error (emits st) k with
  | None => None
  | Some e =>
    match nth_error (emitters st) (eem e) with
    | None => None
    | Some m =>
      let go p st' := set_emit st' k (e_pc e p) in
      match epc e with
      | E0 => if Nat.eqb (mnew m) 4 then vis (LStart (TEmit k)) (go EChk st) else None
      | EChk => tau (go (if mclosed m then ERet 1 else ELock) st)       (* e.closed.Load() *)
      | ELock =>                                                        (* n.lk.Lock(); n.last = evt *)
          let n := mnode m in
          match nth_error (nodes st) n with
          | Some nd =>
              match holder nd with
              | Some _ => None
              | None =>
                  let nd' := n_last (n_holder nd (Some (TEmit k))) (if keep nd then Some (eev e) else nlast nd) in
                  let st1 := set_node st n nd' in
                  let st2 := set_subs st1 (expect_all (subs st1) (sinks nd) (n, eev e) 0) in
                  tau (go (ESend n (sinks nd)) st2)
              end
          | None => None
          end
      | ESend n (s :: r) => otau (option_map (go (ESend n r)) (send st s (n, eev e)))   (* sink.ch <- evt *)
      | ESend n [] =>                                                   (* n.lk.Unlock() *)
          match nth_error (nodes st) n with
          | Some nd => tau (go (EWChk n) (set_node st n (n_holder nd None)))
          | None => None
          end
      | EWChk n => tau (go (if Nat.eqb (nsinks (wild st)) 0 then ERet 0 else ERLock n) st)
      | ERLock n =>                                                     (* w.RLock() *)
          let w := wild st in
          match wpend w with
          | Some _ => None
          | None =>
              let st1 := set_wild st (mkWild None (S (rdrs w)) (wsinks w) (nsinks w)) in
              let st2 := set_subs st1 (expect_all (subs st1) (wsinks w) (k, eev e) 0) in
              tau (go (EWSend n (wsinks w)) st2)
          end
      | EWSend n (s :: r) => otau (option_map (go (EWSend n r)) (send st s (k, eev e)))
      | EWSend n [] =>                                                  (* w.RUnlock() *)
          let w := wild st in
          tau (go (ERet 0) (set_wild st (mkWild (wpend w) (pred (rdrs w)) (wsinks w) (nsinks w))))
      | ERet c => vis (LRet (TEmit k) c) (go EDone st)
      | EDone => None
      end
    end
  end.

(* ---- Emitter creation / Close ------------------------------------------- *)
Definition step_emnew (st : state) (j : nat) : option (option label * state) :=
  match nth_error (emitters st) j with
  | None => None
  | Some m =>
    match mnew m with
    | 0 => vis (LStart (TEmNew j)) (set_emitter st j (m_new m (mnode m) 1))
    | 1 => match with_node st (mty m) with                                  (* b.lk: lookup, pending++ *)
           | Some (st1, n) => tau (set_emitter st1 j (m_new m n 2))
           | None => None
           end
    | 2 => let n := mnode m in                                             (* n.lk.Lock(); pending--; cb; Unlock *)
           match nth_error (nodes st) n with
           | Some nd => match holder nd with
                        | Some _ => None
                        | None => tau (set_emitter (set_node st n (n_pend (n_emitters nd (keep nd || mstateful m) (S (nem nd))) (pred (npend nd))))
                                                   j (m_new m n 3))
                        end
           | None => None
           end
    | 3 => vis (LRet (TEmNew j) 0) (set_emitter st j (m_new m (mnode m) 4))
    | _ => None
    end
  end.

Definition step_emclose (st : state) (j : nat) : option (option label * state) :=
  match nth_error (emitters st) j with
  | None => None
  | Some m =>
    let go c p st' := set_emitter st' j (m_cl m c p) in
    match mcl m with
    | C0 => if Nat.eqb (mnew m) 4 then vis (LStart (TEmClose j)) (go (mclosed m) C1 st) else None
    | C1 => tau (if mclosed m then go true (C4 1) st else go true C2 st)    (* closed.CompareAndSwap *)
    | C2 => match nth_error (nodes st) (mnode m) with                      (* nEmitters.Add(-1) *)
            | Some nd => let k := pred (nem nd) in
                         tau (go true (if Nat.eqb k 0 then C3 else C4 0)
                                 (set_node st (mnode m) (n_emitters nd (keep nd) k)))
            | None => None
            end
    | C3 => tau (go true C3d st)                                            (* b.lk.Lock() *)
    | C3d => otau (option_map (go true (C4 0)) (try_drop st (mty m)))
    | C4 c => vis (LRet (TEmClose j) c) (go true C5 st)
    | C5 => None
    end
  end.

(* ---- Subscribe ------------------------------------------------------------
   A REJECTED Subscribe (some entry of the type list is not a pointer / is nil) is the
   subscription with styps = Some []: the code validates every entry in a loop of its own
   BEFORE the loop that wires the subscription to the nodes, so such a call touches no
   node, no lock and no channel: S0 -> SRet -> SDone, returning code 1 (theorem
   c15_rejected_subscribe_is_noop).  No subscription object is handed out: the harness
   issues neither a receive nor a Close for it (as for receives, the model does not
   restrict what the environment may issue). *)
Definition step_sub (st : state) (s : nat) : option (option label * state) :=
  match nth_error (subs st) s with
  | None => None
  | Some c =>
    let w := wild st in
    match spc c, styps c with
    | S0, Some tys => vis (LStart (TSub s)) (set_sub st s (c_spc c (match tys with [] => SRet | _ => SBus 0 end)))
    | S0, None => vis (LStart (TSub s)) (set_sub st s (c_spc c SW1))
    | SBus i, Some tys =>                                   (* withNode, under b.lk: lookup, pending++ *)
        match nth_error tys i with
        | None => None
        | Some ty => match with_node st ty with
                     | Some (st1, n) => tau (set_sub st1 s (c_spc c (SApp i n)))
                     | None => None
                     end
        end
    | SApp i n, Some tys =>
        (* n.lk.Lock(); pending--; n.sinks = append(n.sinks, sink); go func(){ defer n.lk.Unlock(); replay }() *)
        match nth_error (nodes st) n with
        | Some nd =>
            match holder nd with
            | Some _ => None
            | None =>
                let nd' := n_pend (n_sinks (n_holder nd (Some (TReplay s i))) (sinks nd ++ [s])) (pred (npend nd)) in
                let c1 := c_app c (if Nat.ltb (S i) (length tys) then SBus (S i) else SRet) n in
                let c2 := match keep nd, nlast nd with
                          | true, Some l => c_expd c1 (expd c1 ++ [(n, l)])
                          | _, _ => c1 end in
                tau (set_sub (set_node st n nd') s c2)
            end
        | None => None
        end
    | SW1, _ => tau (set_sub (set_wild st (mkWild (wpend w) (rdrs w) (wsinks w) (S (nsinks w)))) s (c_spc c SW2))
    | SW2, _ => match wpend w with                                        (* w.Lock(): announce *)
                | Some _ => None
                | None => tau (set_sub (set_wild st (mkWild (Some (TSub s)) (rdrs w) (wsinks w) (nsinks w))) s (c_spc c SW3))
                end
    | SW3, _ => if Nat.eqb (rdrs w) 0                                     (* readers gone: append; Unlock *)
                then tau (set_sub (set_wild st (mkWild None 0 (wsinks w ++ [s]) (nsinks w))) s (c_spc c SRet))
                else None
    | SRet, _ =>                                             (* return: `out, nil`, or the error of the up-front validation loop *)
        vis (LRet (TSub s) (match styps c with Some [] => 1%Z | _ => 0%Z end)) (set_sub st s (c_spc c SDone))
    | _, _ => None
    end
  end.

Definition step_replay (st : state) (s i : nat) : option (option label * state) :=
  match nth_error (subs st) s with
  | None => None
  | Some c =>
    match nth_error (rpend c) i, nth_error (snodes c) i with
    | Some true, Some n =>
        match nth_error (nodes st) n with
        | Some nd =>
            let fin st' := match nth_error (subs st') s with
                           | Some c' => set_node (set_sub st' s (c_rpend c' (upd (rpend c') i false))) n (n_holder nd None)
                           | None => st' end in
            match keep nd, nlast nd with
            | true, Some l => otau (option_map fin (send st s (n, l)))       (* out.ch <- l *)
            | _, _ => tau (fin st)
            end
        | None => None
        end
    | _, _ => None
    end
  end.

(* ---- Subscription.Close, drainer, consumer -------------------------------- *)
Definition knext (c : sub) (i : nat) : close_pc :=
  if Nat.ltb (S i) (length (snodes c)) then KRem (S i) else KCloseCh.

Definition step_close (st : state) (s : nat) : option (option label * state) :=
  match nth_error (subs st) s with
  | None => None
  | Some c =>
    let w := wild st in
    match cpc c with
    | K0 => match spc c with
            | SDone => vis (LStart (TClose s))
                         (set_sub st s (c_cpc (c_drain c 1)
                            (match styps c with None => KW1
                             | Some _ => match snodes c with [] => KCloseCh | _ => KRem 0 end end)))
            | _ => None
            end
    | KRem i =>                                       (* n.lk.Lock(); swap-remove; tryDrop := ...; Unlock *)
        match nth_error (snodes c) i with
        | None => None
        | Some n =>
            match nth_error (nodes st) n with
            | Some nd =>
                match holder nd with
                | Some _ => None
                | None => let sk := remove_swap s (sinks nd) in
                          let drop := (match sk with [] => true | _ => false end) && Nat.eqb (nem nd) 0 in
                          tau (set_sub (set_node st n (n_sinks nd sk)) s (c_cpc c (if drop then KBus i else knext c i)))
                end
            | None => None
            end
        end
    | KBus i => tau (set_sub st s (c_cpc c (KDrop i)))                    (* b.lk.Lock() *)
    | KDrop i =>
        match nth_error (snodes c) i with
        | None => None
        | Some n => match nth_error (nodes st) n with
                    | Some nd => otau (option_map (fun st' => set_sub st' s (c_cpc c (knext c i))) (try_drop st (nty nd)))
                    | None => None
                    end
        end
    | KCloseCh => tau (set_sub st s (c_cpc (c_chan c (buf c) true (want c) (drain c) (hist c) (recv c)) KRet))
    | KW1 => tau (set_sub (set_wild st (mkWild (wpend w) (rdrs w) (wsinks w) (pred (nsinks w)))) s (c_cpc c KW2))
    | KW2 => match wpend w with
             | Some _ => None
             | None => tau (set_sub (set_wild st (mkWild (Some (TClose s)) (rdrs w) (wsinks w) (nsinks w))) s (c_cpc c KW3))
             end
    | KW3 => if Nat.eqb (rdrs w) 0
             then tau (set_sub (set_wild st (mkWild None 0 (filter (fun x => negb (Nat.eqb x s)) (wsinks w)) (nsinks w))) s (c_cpc c KW4))
             else None
    | KW4 => tau (set_sub st s (c_cpc (c_drain c (if Nat.eqb (drain c) 1 then 2 else drain c)) KW5))   (* close(done) *)
    | KW5 => if Nat.eqb (drain c) 3 then tau (set_sub st s (c_cpc c KRet)) else None            (* wg.Wait() *)
    | KRet => vis (LRet (TClose s) 0) (set_sub st s (c_cpc c KDone))
    | KDone => None
    end
  end.

Definition step_drain (st : state) (s : nat) : option (option label * state) :=
  match nth_error (subs st) s with
  | None => None
  | Some c =>
    if draining c then
      match buf c with
      | _ :: r => tau (set_sub st s (c_chan c r (closed c) (want c) (drain c) (hist c) (recv c)))
      | [] => if Nat.eqb (drain c) 2 || closed c then tau (set_sub st s (c_drain c 3)) else None
      end
    else None
  end.

Definition step_req (st : state) (s : nat) : option (option label * state) :=
  match nth_error (subs st) s with
  | None => None
  | Some c => vis (LReq s) (set_sub st s (c_chan c (buf c) (closed c) (S (want c)) (drain c) (hist c) (recv c)))
  end.

Definition step_recv (st : state) (s : nat) : option (option label * state) :=
  match nth_error (subs st) s with
  | None => None
  | Some c =>
    match want c with
    | O => None
    | S w' =>
      match buf c with
      | it :: r => tau (set_sub st s (c_hand (c_chan c r (closed c) w' (drain c) (hist c) (recv c ++ [it])) (hand c ++ [snd it])))
      | [] => if closed c then tau (set_sub st s (c_hand (c_chan c [] true w' (drain c) (hist c) (recv c)) (hand c ++ [(-2)%Z])))
              else None
      end
    end
  end.

Definition step_read (st : state) (s : nat) : option (option label * state) :=
  match nth_error (subs st) s with
  | None => None
  | Some c => match hand c with
              | v :: r => vis (LRead s v) (set_sub st s (c_hand c r))
              | [] => None
              end
  end.

Definition step (st : state) (t : thr) : option (option label * state) :=
  match t with
  | TEmNew j => step_emnew st j | TEmClose j => step_emclose st j | TEmit k => step_emit st k
  | TSub s => step_sub st s | TReplay s i => step_replay st s i | TClose s => step_close st s
  | TDrain s => step_drain st s | TReq s => step_req st s | TRecv s => step_recv st s
  | TRead s => step_read st s
  end.

(* ---- candidate threads, equality tests (for the trace acceptor) ----------- *)
Definition sub_thrs (s : nat) (c : sub) : list thr :=
  [TSub s; TClose s; TRecv s; TRead s; TDrain s; TReq s] ++ map (TReplay s) (seq 0 (length (rpend c))).

Fixpoint flat_mapi {A B} (f : nat -> A -> list B) (i : nat) (l : list A) : list B :=
  match l with [] => [] | x :: r => f i x ++ flat_mapi f (S i) r end.

Definition thrs (st : state) : list thr :=
  flat_map (fun j => [TEmNew j; TEmClose j]) (seq 0 (length (emitters st)))
  ++ map TEmit (seq 0 (length (emits st)))
  ++ flat_mapi sub_thrs 0 (subs st).

Definition thr_eqb (a b : thr) : bool :=
  match a, b with
  | TEmNew x, TEmNew y | TEmClose x, TEmClose y | TEmit x, TEmit y | TSub x, TSub y
  | TClose x, TClose y | TDrain x, TDrain y | TReq x, TReq y | TRead x, TRead y
  | TRecv x, TRecv y => Nat.eqb x y
  | TReplay x i, TReplay y j => Nat.eqb x y && Nat.eqb i j
  | _, _ => false
  end.

Definition lab_eqb (a b : label) : bool :=
  match a, b with
  | LStart x, LStart y => thr_eqb x y
  | LRet x c, LRet y d => thr_eqb x y && Z.eqb c d
  | LReq x, LReq y => Nat.eqb x y
  | LRead x v, LRead y w => Nat.eqb x y && Z.eqb v w
  | _, _ => false
  end.

Fixpoint leqb {A} (eqb : A -> A -> bool) (l1 l2 : list A) : bool :=
  match l1, l2 with
  | [], [] => true
  | x :: r1, y :: r2 => eqb x y && leqb eqb r1 r2
  | _, _ => false
  end.
Definition oeqb {A} (eqb : A -> A -> bool) (a b : option A) : bool :=
  match a, b with Some x, Some y => eqb x y | None, None => true | _, _ => false end.
Definition item_eqb (a b : item) := Nat.eqb (fst a) (fst b) && Z.eqb (snd a) (snd b).

Definition node_eqb (a b : node) : bool :=
  Nat.eqb (nty a) (nty b) && oeqb thr_eqb (holder a) (holder b) && leqb Nat.eqb (sinks a) (sinks b)
  && oeqb Z.eqb (nlast a) (nlast b) && Bool.eqb (keep a) (keep b) && Nat.eqb (nem a) (nem b)
  && Nat.eqb (npend a) (npend b).
Definition wild_eqb (a b : wildn) : bool :=
  oeqb thr_eqb (wpend a) (wpend b) && Nat.eqb (rdrs a) (rdrs b) && leqb Nat.eqb (wsinks a) (wsinks b)
  && Nat.eqb (nsinks a) (nsinks b).
Definition spc_eqb (a b : sub_pc) : bool :=
  match a, b with
  | S0, S0 | SW1, SW1 | SW2, SW2 | SW3, SW3 | SRet, SRet | SDone, SDone => true
  | SBus i, SBus j => Nat.eqb i j | SApp i n, SApp j m => Nat.eqb i j && Nat.eqb n m | _, _ => false end.
Definition cpc_eqb (a b : close_pc) : bool :=
  match a, b with
  | K0, K0 | KCloseCh, KCloseCh | KW1, KW1 | KW2, KW2 | KW3, KW3 | KW4, KW4 | KW5, KW5
  | KRet, KRet | KDone, KDone => true
  | KRem i, KRem j | KDrop i, KDrop j | KBus i, KBus j => Nat.eqb i j | _, _ => false end.
(* ghost fields are deliberately not compared *)
Definition sub_eqb (a b : sub) : bool :=
  cpc_eqb (cpc a) (cpc b) && spc_eqb (spc a) (spc b) && Nat.eqb (drain a) (drain b)
  && leqb Bool.eqb (rpend a) (rpend b) && Nat.eqb (want a) (want b) && Bool.eqb (closed a) (closed b)
  && leqb item_eqb (buf a) (buf b) && leqb Nat.eqb (snodes a) (snodes b) && leqb Z.eqb (hand a) (hand b).
Definition epc_eqb (a b : emit_pc) : bool :=
  match a, b with
  | E0, E0 | EChk, EChk | ELock, ELock | EDone, EDone => true
  | EWChk n, EWChk n' | ERLock n, ERLock n' => Nat.eqb n n'
  | ESend n x, ESend n' y | EWSend n x, EWSend n' y => Nat.eqb n n' && leqb Nat.eqb x y
  | ERet c, ERet d => Z.eqb c d | _, _ => false end.
Definition emit_eqb (a b : emit) : bool := epc_eqb (epc a) (epc b).
Definition cl_eqb (a b : cl_pc) : bool :=
  match a, b with
  | C0, C0 | C1, C1 | C2, C2 | C3, C3 | C3d, C3d | C5, C5 => true | C4 c, C4 d => Z.eqb c d | _, _ => false end.
Definition emitter_eqb (a b : emitter) : bool :=
  Nat.eqb (mnode a) (mnode b) && Bool.eqb (mclosed a) (mclosed b) && Nat.eqb (mnew a) (mnew b) && cl_eqb (mcl a) (mcl b).
Definition st_eqb (a b : state) : bool :=
  leqb emit_eqb (emits a) (emits b) && leqb sub_eqb (subs a) (subs b)
  && leqb emitter_eqb (emitters a) (emitters b) && oeqb thr_eqb (blk a) (blk b)
  && wild_eqb (wild a) (wild b) && leqb node_eqb (nodes a) (nodes b)
  && leqb (oeqb Nat.eqb) (bmap a) (bmap b) && Bool.eqb (panicked a) (panicked b).

(* stimuli: what the environment (the harness main goroutine) issues *)
Definition stim (l : label) : bool :=
  match l with LStart _ | LReq _ => true | _ => false end.

(* ---- initial states -------------------------------------------------------- *)
Definition new_sub (tys : option (list nat)) (cap : nat) : sub :=
  mkSub tys cap [] false 0 0 S0 [] [] K0 [] [] [] [].
Definition new_emitter (ty : nat) (stateful : bool) : emitter := mkEmitter ty stateful 0 false 0 C0.
Definition new_emit (j : nat) (e : Z) : emit := mkEmit j e E0.
Definition init_state (ntypes : nat) (ss : list sub) (ms : list emitter) (es : list emit) : state :=
  mkState [] (repeat None ntypes) (mkWild None 0 [] 0) ss ms es false None.

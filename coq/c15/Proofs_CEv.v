(* C15 — classification of the steps by what they do to the channels (buffer, flags,
   histories, the consumer's hand): one lemma, used by every channel-level invariant. *)
From Coq Require Import List Arith ZArith Bool Lia.
From Verif Require Import lib.Wire c15.Lts c15.Model c15.Spec c15.Proofs c15.Proofs_Chan c15.Proofs_Loc c15.Proofs_List c15.Proofs_Safe
  c15.Proofs_Init c15.Proofs_Live c15.Proofs_Pend.
Import ListNotations.
Local Open Scope Z_scope.

Definition cw (c : sub) := (buf c, closed c, want c, drain c, hist c, recv c, hand c).

(* who may send what to s *)
Definition pusher (st : state) (t : thr) (s : nat) (it : item) : Prop :=
  (exists k e n r, t = TEmit k /\ nth_error (emits st) k = Some e /\
     ((epc e = ESend n (s :: r) /\ it = (n, eev e)) \/ (epc e = EWSend n (s :: r) /\ it = (k, eev e)))) \/
  (exists i c n nd l, t = TReplay s i /\ nth_error (subs st) s = Some c /\ nth_error (rpend c) i = Some true /\
     nth_error (snodes c) i = Some n /\ nth_error (nodes st) n = Some nd /\ keep nd = true /\ nlast nd = Some l /\ it = (n, l)).

Inductive cev (st : state) (t : thr) (l : option label) (s : nat) (c c' : sub) : Prop :=
| ce_push it : l = None -> closed c = false -> room c = true -> pusher st t s it ->
    cw c' = (buf c ++ [it], closed c, want c, drain c, hist c ++ [it], recv c, hand c) -> cev st t l s c c'
| ce_recv it b w : t = TRecv s -> l = None -> want c = S w -> buf c = it :: b ->
    cw c' = (b, closed c, w, drain c, hist c, recv c ++ [it], hand c ++ [snd it]) -> cev st t l s c c'
| ce_recv_closed w : t = TRecv s -> l = None -> want c = S w -> buf c = [] -> closed c = true ->
    cw c' = ([], true, w, drain c, hist c, recv c, hand c ++ [-2]) -> cev st t l s c c'
| ce_drain it b : t = TDrain s -> l = None -> draining c = true -> buf c = it :: b ->
    cw c' = (b, closed c, want c, drain c, hist c, recv c, hand c) -> cev st t l s c c'
| ce_drain_exit : t = TDrain s -> l = None -> draining c = true -> buf c = [] -> (drain c = 2%nat \/ closed c = true) ->
    cw c' = (buf c, closed c, want c, 3%nat, hist c, recv c, hand c) -> cev st t l s c c'
| ce_req : t = TReq s -> l = Some (LReq s) ->
    cw c' = (buf c, closed c, S (want c), drain c, hist c, recv c, hand c) -> cev st t l s c c'
| ce_read v r : t = TRead s -> l = Some (LRead s v) -> hand c = v :: r ->
    cw c' = (buf c, closed c, want c, drain c, hist c, recv c, r) -> cev st t l s c c'
| ce_close_start : t = TClose s -> l = Some (LStart (TClose s)) -> cpc c = K0 -> spc c = SDone ->
    cw c' = (buf c, closed c, want c, 1%nat, hist c, recv c, hand c) -> cev st t l s c c'
| ce_close_ch : t = TClose s -> l = None -> cpc c = KCloseCh -> cpc c' = KRet ->
    cw c' = (buf c, true, want c, drain c, hist c, recv c, hand c) -> cev st t l s c c'
| ce_wclose_done : t = TClose s -> l = None -> cpc c = KW4 ->
    cw c' = (buf c, closed c, want c, (if Nat.eqb (drain c) 1 then 2%nat else drain c), hist c, recv c, hand c) -> cev st t l s c c'.

Definition quiet_label (l : option label) : Prop :=
  match l with Some (LReq _) | Some (LRead _ _) => False | _ => True end.

Definition chan_ev (st : state) (t : thr) (l : option label) (st' : state) : Prop :=
  (map cw (subs st') = map cw (subs st) /\ quiet_label l) \/
  (exists s c c', nth_error (subs st) s = Some c /\ nth_error (subs st') s = Some c' /\
     map cw (subs st') = upd (map cw (subs st)) s (cw c') /\ cev st t l s c c').

Lemma cw_expect : forall l tg it i, map cw (expect_all l tg it i) = map cw l.
Proof. induction l as [|c l IH]; intros; cbn; [reflexivity|]. f_equal. apply IH. Qed.

Ltac cw_q :=
  left; split; [|exact Logic.I];
  cbn [subs set_emitter set_emitters set_sub set_subs set_node set_nodes set_blk set_bmap set_wild set_emit set_emits set_panicked];
  try reflexivity; try apply cw_expect;
  try (eapply (map_upd_same cw); [eassumption|reflexivity]).

Lemma send_cw : forall st s it st', send st s it = Some st' ->
  (subs st' = subs st) \/
  (exists c, nth_error (subs st) s = Some c /\ closed c = false /\ room c = true /\ subs st' = upd (subs st) s (push c it)).
Proof.
  intros st s it st' E. unfold send in E. destruct (nth_error (subs st) s) as [c|] eqn:Ec; [|discriminate].
  destruct (closed c) eqn:Ecl; [inversion E; subst; left; reflexivity|]. destruct (room c) eqn:Er; [|discriminate]. inversion E; subst.
  right. exists c. auto.
Qed.

Ltac otau_inv2 E :=
  let x := fresh "x" in let L := fresh "L" in
  apply otau_Some in E; destruct E as [E L]; rewrite L in *; apply option_map_Some in E; destruct E as [x [E ->]].

Lemma upd_upd : forall {A} (l : list A) i x y, upd (upd l i x) i y = upd l i y.
Proof. induction l as [|a l IH]; intros [|i] x y; cbn; try reflexivity. f_equal. apply IH. Qed.

(* the step replaced subscription s by c' *)
Lemma ev_intro : forall st t l st' s c c', nth_error (subs st) s = Some c -> subs st' = upd (subs st) s c' ->
  cev st t l s c c' -> chan_ev st t l st'.
Proof.
  intros st t l st' s c c' Ec Hs H. right. exists s, c, c'. split; [exact Ec|]. split; [rewrite Hs; eapply nth_error_upd_eq, Ec|].
  split; [rewrite Hs; apply (map_upd cw)|exact H].
Qed.

Lemma emit_cev : forall st k l st', step_emit st k = Some (l, st') -> chan_ev st (TEmit k) l st'.
Proof.
  intros st k l st' E. unfold step_emit in E. destruct (nth_error (emits st) k) as [e|] eqn:Ek; [|discriminate].
  destruct (nth_error (emitters st) (eem e)) as [m|]; [|discriminate].
  destruct (epc e) as [| | |n [|x r]|n|n|n [|x r]|c|] eqn:Ep; try discriminate; try solve [brute E; inversion E; subst; cw_q].
  - otau_inv2 E. destruct (send_cw _ _ _ _ E) as [S|[c [Ec [Cl [Rm S]]]]].
    + left. split; [cbn; rewrite S; reflexivity|exact Logic.I].
    + eapply (ev_intro _ _ _ _ x c (push c (n, eev e))); [exact Ec|cbn; exact S|].
      eapply ce_push; try reflexivity; try assumption. left. exists k, e, n, r. auto.
  - otau_inv2 E. destruct (send_cw _ _ _ _ E) as [S|[c [Ec [Cl [Rm S]]]]].
    + left. split; [cbn; rewrite S; reflexivity|exact Logic.I].
    + eapply (ev_intro _ _ _ _ x c (push c (k, eev e))); [exact Ec|cbn; exact S|].
      eapply ce_push; try reflexivity; try assumption. left. exists k, e, n, r. auto.
Qed.

Lemma sub_cev : forall st s l st', step_sub st s = Some (l, st') -> chan_ev st (TSub s) l st'.
Proof.
  intros st s l st' E. unfold step_sub in E. destruct (nth_error (subs st) s) as [c|] eqn:Ec; [|discriminate].
  destruct (spc c); try solve [brute E; inversion E; subst; cw_q].
  destruct (styps c) as [tys|]; [|discriminate]. destruct (nth_error tys i) as [ty|]; [|discriminate].
  destruct (with_node st ty) as [[st1 n]|] eqn:Ew; [|discriminate]. inversion E; subst.
  left. split; [|exact Logic.I]. cbn. rewrite <- (with_node_subs _ _ _ _ Ew).
  apply (map_upd_same cw _ s _ c); [rewrite (with_node_subs _ _ _ _ Ew); exact Ec|reflexivity].
Qed.

Lemma emnew_cev : forall st j l st', step_emnew st j = Some (l, st') -> chan_ev st (TEmNew j) l st'.
Proof.
  intros st j l st' E. unfold step_emnew in E. destruct (nth_error (emitters st) j) as [m|]; [|discriminate].
  destruct (mnew m) as [|[|[|[|?]]]]; try discriminate; try solve [brute E; inversion E; subst; cw_q].
  destruct (with_node st (mty m)) as [[st1 n]|] eqn:Ew; [|discriminate]. inversion E; subst.
  left. split; [|exact Logic.I]. cbn. rewrite (with_node_subs _ _ _ _ Ew). reflexivity.
Qed.

Lemma emclose_cev : forall st j l st', step_emclose st j = Some (l, st') -> chan_ev st (TEmClose j) l st'.
Proof.
  intros st j l st' E. unfold step_emclose in E. destruct (nth_error (emitters st) j) as [m|]; [|discriminate].
  destruct (mcl m); try discriminate; try solve [brute E; inversion E; subst; cw_q].
  otau_inv2 E. left. split; [|exact Logic.I]. cbn. rewrite (try_drop_subs _ _ _ E). reflexivity.
Qed.

Lemma replay_cev : forall st s i l st', step_replay st s i = Some (l, st') -> chan_ev st (TReplay s i) l st'.
Proof.
  intros st s i l st' E. unfold step_replay in E. destruct (nth_error (subs st) s) as [c|] eqn:Ec; [|discriminate].
  destruct (nth_error (rpend c) i) as [[|]|] eqn:Er; try discriminate.
  destruct (nth_error (snodes c) i) as [n|] eqn:Esn; [|discriminate]. destruct (nth_error (nodes st) n) as [nd|] eqn:En; [|discriminate].
  destruct (keep nd) eqn:Ek; [destruct (nlast nd) as [lv|] eqn:El|]; try solve [inversion E; subst; cw_q].
  otau_inv2 E. destruct (send_cw _ _ _ _ E) as [S|[c0 [Ec0 [Cl [Rm S]]]]].
  - rewrite S, Ec. left. split; [|exact Logic.I]. cbn. rewrite S. apply (map_upd_same cw _ s _ c); [exact Ec|reflexivity].
  - rewrite Ec in Ec0. inversion Ec0; subst c0. rewrite S, (nth_error_upd_eq _ _ _ _ Ec).
    eapply (ev_intro _ _ _ _ s c (c_rpend (push c (n, lv)) (upd (rpend (push c (n, lv))) i false))); [exact Ec|cbn; rewrite S; apply upd_upd|].
    eapply ce_push; try reflexivity; try assumption. right. exists i, c, n, nd, lv. auto 10.
Qed.

Lemma close_cev : forall st s l st', step_close st s = Some (l, st') -> chan_ev st (TClose s) l st'.
Proof.
  intros st s l st' E. unfold step_close in E. destruct (nth_error (subs st) s) as [c|] eqn:Ec; [|discriminate].
  destruct (cpc c) eqn:Ek; try discriminate; try solve [brute E; inversion E; subst; cw_q].
  - destruct (spc c) eqn:Ep; try discriminate. inversion E; subst.
    eapply ev_intro; [exact Ec|reflexivity|]. eapply ce_close_start; auto.
  - destruct (nth_error (snodes c) i) as [n|]; [|discriminate]. destruct (nth_error (nodes st) n) as [nd|]; [|discriminate].
    otau_inv2 E. left. split; [|exact Logic.I]. cbn. rewrite (try_drop_subs _ _ _ E).
    apply (map_upd_same cw _ s _ c); [exact Ec|reflexivity].
  - inversion E; subst. eapply ev_intro; [exact Ec|reflexivity|]. eapply ce_close_ch; auto.
  - inversion E; subst. eapply ev_intro; [exact Ec|reflexivity|]. eapply ce_wclose_done; auto.
Qed.

Lemma drain_cev : forall st s l st', step_drain st s = Some (l, st') -> chan_ev st (TDrain s) l st'.
Proof.
  intros st s l st' E. unfold step_drain in E. destruct (nth_error (subs st) s) as [c|] eqn:Ec; [|discriminate].
  destruct (draining c) eqn:Ed; [|discriminate]. destruct (buf c) as [|it b] eqn:Eb.
  - destruct (Nat.eqb (drain c) 2 || closed c) eqn:Ex; [|discriminate]. inversion E; subst.
    eapply ev_intro; [exact Ec|reflexivity|]. eapply ce_drain_exit; auto; try (unfold cw; cbn; rewrite Eb; reflexivity).
    apply orb_true_iff in Ex. destruct Ex as [Ex|Ex]; [left; apply Nat.eqb_eq, Ex|right; exact Ex].
  - inversion E; subst. eapply ev_intro; [exact Ec|reflexivity|]. eapply ce_drain; eauto.
Qed.

Lemma req_cev : forall st s l st', step_req st s = Some (l, st') -> chan_ev st (TReq s) l st'.
Proof.
  intros st s l st' E. unfold step_req in E. destruct (nth_error (subs st) s) as [c|] eqn:Ec; [|discriminate]. inversion E; subst.
  eapply ev_intro; [exact Ec|reflexivity|]. eapply ce_req; auto.
Qed.

Lemma recv_cev : forall st s l st', step_recv st s = Some (l, st') -> chan_ev st (TRecv s) l st'.
Proof.
  intros st s l st' E. unfold step_recv in E. destruct (nth_error (subs st) s) as [c|] eqn:Ec; [|discriminate].
  destruct (want c) as [|w] eqn:Ew; [discriminate|]. destruct (buf c) as [|it b] eqn:Eb.
  - destruct (closed c) eqn:Ecl; [|discriminate]. inversion E; subst. eapply ev_intro; [exact Ec|reflexivity|]. eapply ce_recv_closed; eauto.
  - inversion E; subst. eapply ev_intro; [exact Ec|reflexivity|]. eapply ce_recv; eauto.
Qed.

Lemma read_cev : forall st s l st', step_read st s = Some (l, st') -> chan_ev st (TRead s) l st'.
Proof.
  intros st s l st' E. unfold step_read in E. destruct (nth_error (subs st) s) as [c|] eqn:Ec; [|discriminate].
  destruct (hand c) as [|v r] eqn:Eh; [discriminate|]. inversion E; subst. eapply ev_intro; [exact Ec|reflexivity|]. eapply ce_read; eauto.
Qed.

Theorem step_chan_ev : forall st t l st', step st t = Some (l, st') -> chan_ev st t l st'.
Proof.
  intros st t l st' E. destruct t; cbn [step] in E.
  - eapply emnew_cev, E. - eapply emclose_cev, E. - eapply emit_cev, E. - eapply sub_cev, E. - eapply replay_cev, E.
  - eapply close_cev, E. - eapply drain_cev, E. - eapply req_cev, E. - eapply recv_cev, E. - eapply read_cev, E.
Qed.

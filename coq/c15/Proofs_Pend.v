(* C15 — the pending count (fix 8aeecd5): between withNode's lookup under
   basicBus.lk and its n.lk.Lock() the node cannot be dropped from the bus map.
   The invariant is stated over four "views" of the state: per node (type,
   pending), the bus map, the Subscribe program counters, and per emitter
   (creation pc, node). *)
From Coq Require Import List Arith ZArith Bool Lia.
From Verif Require Import c15.Lts c15.Model c15.Proofs_Chan c15.Proofs_Loc c15.Proofs_List c15.Proofs_Live.
Import ListNotations.

Definition sappb (n : nat) (p : sub_pc) : bool := match p with SApp _ m => Nat.eqb m n | _ => false end.
Definition emb (n : nat) (q : nat * nat) : bool := Nat.eqb (fst q) 2 && Nat.eqb (snd q) n.
Definition cntf {A} (f : A -> bool) (l : list A) : nat := length (filter f l).
Definition pfv (vS : list sub_pc) (vE : list (nat * nat)) (n : nat) : nat := cntf (sappb n) vS + cntf (emb n) vE.

Record PV (vN : list (nat * nat)) (bm : list (option nat)) (vS : list sub_pc) (vE : list (nat * nat)) : Prop := {
  pA : forall n p, nth_error vN n = Some p -> pfv vS vE n <= snd p;
  pB : forall ty n, nth_error bm ty = Some (Some n) -> exists p, nth_error vN n = Some p /\ fst p = ty;
  pQ : forall n p, nth_error vN n = Some p -> snd p > 0 -> fst p < length bm -> nth_error bm (fst p) = Some (Some n);
  pV : forall n, pfv vS vE n > 0 -> n < length vN }.

Definition vN (st : state) := map (fun nd => (nty nd, npend nd)) (nodes st).
Definition vS (st : state) := map spc (subs st).
Definition vE (st : state) := map (fun m => (mnew m, mnode m)) (emitters st).
Definition Pend (st : state) : Prop := PV (vN st) (bmap st) (vS st) (vE st).

Lemma cntf_upd : forall {A} (f : A -> bool) l i x y, nth_error l i = Some y ->
  cntf f (upd l i x) + (if f y then 1 else 0) = cntf f l + (if f x then 1 else 0).
Proof.
  intros A f l. induction l as [|a l IH]; intros [|i] x y H; cbn in H; try discriminate.
  - inversion H; subst. unfold cntf. cbn. destruct (f x), (f y); cbn; lia.
  - specialize (IH i x y H). unfold cntf in *. cbn. destruct (f a); cbn; lia.
Qed.

Lemma map_upd : forall {A B} (f : A -> B) l i x, map f (upd l i x) = upd (map f l) i (f x).
Proof. intros A B f l. induction l as [|a l IH]; intros [|i] x; cbn; try reflexivity. f_equal. apply IH. Qed.

Lemma upd_same : forall {A} (l : list A) i x, nth_error l i = Some x -> upd l i x = l.
Proof. induction l as [|a l IH]; intros [|i] x H; cbn in *; try discriminate; [inversion H; reflexivity|f_equal; apply IH, H]. Qed.

Lemma map_upd_same : forall {A B} (f : A -> B) l i x y, nth_error l i = Some y -> f x = f y -> map f (upd l i x) = map f l.
Proof. intros. rewrite map_upd. apply upd_same. rewrite nth_error_map, H. cbn. congruence. Qed.

(* replacing a Subscribe pc / an emitter view without touching any marker *)
Lemma PV_sub_neutral : forall vn bm vs ve s p p', PV vn bm vs ve -> nth_error vs s = Some p ->
  (forall n, sappb n p' = sappb n p) -> PV vn bm (upd vs s p') ve.
Proof.
  intros vn bm vs ve s p p' [A B Q V] Hs Hn.
  assert (E : forall n, pfv (upd vs s p') ve n = pfv vs ve n).
  { intros n. unfold pfv. pose proof (cntf_upd (sappb n) vs s p' p Hs) as X. rewrite Hn in X. destruct (sappb n p); lia. }
  constructor; intros; try rewrite E in *; eauto.
Qed.

Lemma PV_em_neutral : forall vn bm vs ve j q q', PV vn bm vs ve -> nth_error ve j = Some q ->
  (forall n, emb n q' = emb n q) -> PV vn bm vs (upd ve j q').
Proof.
  intros vn bm vs ve j q q' [A B Q V] Hs Hn.
  assert (E : forall n, pfv vs (upd ve j q') n = pfv vs ve n).
  { intros n. unfold pfv. pose proof (cntf_upd (emb n) ve j q' q Hs) as X. rewrite Hn in X. destruct (emb n q); lia. }
  constructor; intros; try rewrite E in *; eauto.
Qed.

(* tryDropNode deletes an entry whose node has no pending locker *)
Lemma PV_drop : forall vn bm vs ve ty n p, PV vn bm vs ve -> nth_error bm ty = Some (Some n) ->
  nth_error vn n = Some p -> snd p = 0 -> PV vn (upd bm ty None) vs ve.
Proof.
  intros vn bm vs ve ty n p [A B Q V] Hb Hn H0. constructor; auto.
  - intros ty' n' H. apply nth_error_upd_inv in H. destruct H as [[_ [X _]]|[N H]]; [discriminate|]. eauto.
  - intros n' p' Hn' Hp Hl. rewrite upd_length in Hl. specialize (Q n' p' Hn' Hp Hl).
    destruct (Nat.eq_dec ty (fst p')) as [->|N].
    + rewrite Hb in Q. inversion Q; subst n'. rewrite Hn in Hn'. inversion Hn'; subst p'. lia.
    + rewrite nth_error_upd_neq by assumption. exact Q.
Qed.

Lemma PV_enter : forall vn bm vs ve vs' ve' n ty k, PV vn bm vs ve -> nth_error vn n = Some (ty, k) ->
  (ty < length bm -> nth_error bm ty = Some (Some n)) ->
  (forall m, pfv vs' ve' m = pfv vs ve m + (if Nat.eq_dec n m then 1 else 0)) ->
  PV (upd vn n (ty, S k)) bm vs' ve'.
Proof.
  intros vn bm vs ve vs' ve' n ty k [A B Q V] Hn Hb He. constructor.
  - intros m p Hm. rewrite He. apply nth_error_upd_inv in Hm. destruct Hm as [[-> [-> _]]|[N Hm]].
    + specialize (A n (ty, k) Hn). cbn in *. destruct (Nat.eq_dec n n); lia.
    + specialize (A m p Hm). destruct (Nat.eq_dec n m); [congruence|lia].
  - intros ty' m H. destruct (B ty' m H) as [p [P1 P2]]. destruct (Nat.eq_dec n m) as [->|N].
    + rewrite Hn in P1. inversion P1; subst p. exists (ty, S k). rewrite (nth_error_upd_eq _ _ _ _ Hn). auto.
    + exists p. rewrite nth_error_upd_neq by assumption. auto.
  - intros m p Hm Hp Hl. apply nth_error_upd_inv in Hm. destruct Hm as [[-> [-> _]]|[N Hm]]; [apply Hb, Hl|eauto].
  - intros m Hm. rewrite upd_length. rewrite He in Hm. destruct (Nat.eq_dec n m) as [<-|N].
    + apply nth_error_Some. congruence.
    + apply V. lia.
Qed.

Lemma PV_leave : forall vn bm vs ve vs' ve' n ty k, PV vn bm vs ve -> nth_error vn n = Some (ty, k) ->
  (forall m, pfv vs' ve' m + (if Nat.eq_dec n m then 1 else 0) = pfv vs ve m) ->
  PV (upd vn n (ty, pred k)) bm vs' ve'.
Proof.
  intros vn bm vs ve vs' ve' n ty k [A B Q V] Hn He. constructor.
  - intros m p Hm. specialize (He m). apply nth_error_upd_inv in Hm. destruct Hm as [[-> [-> _]]|[N Hm]].
    + specialize (A n (ty, k) Hn). cbn in *. destruct (Nat.eq_dec n n); lia.
    + specialize (A m p Hm). destruct (Nat.eq_dec n m); [congruence|lia].
  - intros ty' m H. destruct (B ty' m H) as [p [P1 P2]]. destruct (Nat.eq_dec n m) as [->|N].
    + rewrite Hn in P1. inversion P1; subst p. exists (ty, pred k). rewrite (nth_error_upd_eq _ _ _ _ Hn). auto.
    + exists p. rewrite nth_error_upd_neq by assumption. auto.
  - intros m p Hm Hp Hl. apply nth_error_upd_inv in Hm. destruct Hm as [[-> [-> _]]|[N Hm]]; [|eauto].
    cbn in *. apply (Q n (ty, k) Hn); cbn; [lia|exact Hl].
  - intros m Hm. rewrite upd_length. apply V. specialize (He m). lia.
Qed.

Lemma PV_new_node : forall vn bm vs ve ty, PV vn bm vs ve ->
  (forall n, nth_error bm ty <> Some (Some n)) ->
  PV (vn ++ [(ty, 0)]) (upd bm ty (Some (length vn))) vs ve.
Proof.
  intros vn bm vs ve ty [A B Q V] Hb. constructor.
  - intros m p Hm. apply nth_error_app_inv in Hm. destruct Hm as [Hm|[-> ->]]; [eauto|].
    cbn. destruct (pfv vs ve (length vn)) eqn:E; [lia|]. exfalso. assert (length vn < length vn) by (apply V; lia). lia.
  - intros ty' m H. apply nth_error_upd_inv in H. destruct H as [[-> [X _]]|[N H]].
    + inversion X; subst m. exists (ty, 0). rewrite nth_error_app2 by lia. rewrite Nat.sub_diag. auto.
    + destruct (B ty' m H) as [p [P1 P2]]. exists p. rewrite (nth_error_app_old _ _ _ _ P1). auto.
  - intros m p Hm Hp Hl. rewrite upd_length in Hl. apply nth_error_app_inv in Hm. destruct Hm as [Hm|[-> ->]]; [|cbn in Hp; lia].
    specialize (Q m p Hm Hp Hl). destruct (Nat.eq_dec ty (fst p)) as [->|N]; [exfalso; eapply Hb, Q|].
    rewrite nth_error_upd_neq by assumption. exact Q.
  - intros m Hm. rewrite app_length. cbn. specialize (V m Hm). lia.
Qed.

(* lookup keeps Pend and returns a node registered for ty (when ty is in range) *)
Lemma lookup_pend : forall st ty, Pend st -> let '(st1, n) := lookup st ty in
  Pend st1 /\ vS st1 = vS st /\ vE st1 = vE st /\
  exists k, nth_error (vN st1) n = Some (ty, k) /\ (ty < length (bmap st1) -> nth_error (bmap st1) ty = Some (Some n)).
Proof.
  intros st ty P. unfold lookup. destruct (nth_error (bmap st) ty) as [[n|]|] eqn:Eb.
  - split; [exact P|]. split; [reflexivity|]. split; [reflexivity|]. destruct (pB _ _ _ _ P ty n Eb) as [[t k] [P1 P2]].
    cbn in P2. subst t. exists k. auto.
  - split; [|split; [reflexivity|split; [reflexivity|]]].
    + unfold Pend, vN. cbn. rewrite map_app. cbn. rewrite <- (map_length (fun nd => (nty nd, npend nd)) (nodes st)).
      apply PV_new_node; [exact P|]. intros n X. fold (vN st) in *. congruence.
    + exists 0. cbn. unfold vN. cbn. rewrite map_app. cbn. rewrite nth_error_app2 by (rewrite map_length; lia).
      rewrite map_length, Nat.sub_diag. split; [reflexivity|]. intros Hl. rewrite upd_length in Hl.
      apply (nth_error_upd_eq _ _ _ None). exact Eb.
  - split; [|split; [reflexivity|split; [reflexivity|]]].
    + unfold Pend, vN. cbn. rewrite map_app. cbn. rewrite <- (map_length (fun nd => (nty nd, npend nd)) (nodes st)).
      apply PV_new_node; [exact P|]. intros n X. fold (vN st) in *. congruence.
    + exists 0. cbn. unfold vN. cbn. rewrite map_app. cbn. rewrite nth_error_app2 by (rewrite map_length; lia).
      rewrite map_length, Nat.sub_diag. split; [reflexivity|]. intros Hl. rewrite upd_length in Hl.
      apply nth_error_None in Eb. lia.
Qed.

Lemma vN_set_node : forall st n nd nd', nth_error (nodes st) n = Some nd -> nty nd' = nty nd -> npend nd' = npend nd ->
  map (fun x => (nty x, npend x)) (upd (nodes st) n nd') = vN st.
Proof. intros. unfold vN. eapply map_upd_same; [eassumption|congruence]. Qed.

Lemma vS_set_sub : forall l s c c', nth_error l s = Some c -> spc c' = spc c -> map spc (upd l s c') = map spc l.
Proof. intros. eapply map_upd_same; eassumption. Qed.

Lemma vS_expect : forall l tg it i, map spc (expect_all l tg it i) = map spc l.
Proof. induction l as [|c l IH]; intros; cbn; [reflexivity|]. f_equal. apply IH. Qed.

Lemma send_vS : forall st s it st', send st s it = Some st' ->
  vN st' = vN st /\ bmap st' = bmap st /\ vS st' = vS st /\ vE st' = vE st.
Proof.
  intros st s it st' E. unfold send in E. destruct (nth_error (subs st) s) as [c|] eqn:Ec; [|discriminate].
  destruct (closed c); [inversion E; subst; repeat split|]. destruct (room c); [|discriminate]. inversion E; subst.
  repeat split. unfold vS. cbn. eapply vS_set_sub; [exact Ec|reflexivity].
Qed.

Definition views_same (st st' : state) : Prop := vN st' = vN st /\ bmap st' = bmap st /\ vS st' = vS st /\ vE st' = vE st.

Lemma Pend_same : forall st st', Pend st -> views_same st st' -> Pend st'.
Proof. intros st st' P [A [B [C D]]]. unfold Pend. rewrite A, B, C, D. exact P. Qed.

Ltac vs_fin :=
  unfold views_same, vN, vS, vE;
  cbn [nodes bmap subs emitters set_emitter set_emitters set_sub set_subs set_node set_nodes set_blk set_bmap set_wild set_emit set_emits set_panicked];
  repeat split; try reflexivity;
  try (eapply vS_set_sub; [eassumption|reflexivity]);
  try (eapply (map_upd_same (fun x => (nty x, npend x))); [eassumption|reflexivity]);
  try (rewrite vS_expect; reflexivity).

Lemma emit_views : forall st k l st', step_emit st k = Some (l, st') -> views_same st st'.
Proof.
  intros st k l st' E. unfold step_emit in E.
  destruct (nth_error (emits st) k) as [e|]; [|discriminate].
  destruct (nth_error (emitters st) (eem e)) as [m|]; [|discriminate].
  destruct (epc e) as [| | |n [|x r]|n|n|n [|x r]|c|]; try discriminate.
  - brute E; inversion E; subst; vs_fin.
  - inversion E; subst; vs_fin.
  - destruct (nth_error (nodes st) (mnode m)) as [nd|] eqn:En; [|discriminate]. destruct (holder nd); [discriminate|].
    inversion E; subst. vs_fin.
  - destruct (nth_error (nodes st) n) as [nd|] eqn:En; [|discriminate]. inversion E; subst. vs_fin.
  - otau_inv E. destruct (send_vS _ _ _ _ E) as [A [B [C D]]]. unfold views_same. cbn. auto.
  - inversion E; subst; vs_fin.
  - brute E; inversion E; subst; vs_fin.
  - inversion E; subst; vs_fin.
  - otau_inv E. destruct (send_vS _ _ _ _ E) as [A [B [C D]]]. unfold views_same. cbn. auto.
  - inversion E; subst; vs_fin.
Qed.

Lemma simple_views : forall st t l st', (match t with TDrain _ | TReq _ | TRecv _ | TRead _ => True | _ => False end) ->
  step st t = Some (l, st') -> views_same st st'.
Proof.
  intros st t l st' Ht E. destruct t; try contradiction; cbn in E.
  - unfold step_drain in E. destruct (nth_error (subs st) s) as [c|] eqn:Ec; [|discriminate]. brute E; inversion E; subst; vs_fin.
  - unfold step_req in E. destruct (nth_error (subs st) s) as [c|] eqn:Ec; [|discriminate]. inversion E; subst; vs_fin.
  - unfold step_recv in E. destruct (nth_error (subs st) s) as [c|] eqn:Ec; [|discriminate]. brute E; inversion E; subst; vs_fin.
  - unfold step_read in E. destruct (nth_error (subs st) s) as [c|] eqn:Ec; [|discriminate]. brute E; inversion E; subst; vs_fin.
Qed.

Lemma replay_views : forall st s i l st', step_replay st s i = Some (l, st') -> views_same st st'.
Proof.
  intros st s i l st' E. unfold step_replay in E.
  destruct (nth_error (subs st) s) as [c|] eqn:Ec; [|discriminate].
  destruct (nth_error (rpend c) i) as [[|]|]; try discriminate.
  destruct (nth_error (snodes c) i) as [n|]; [|discriminate].
  destruct (nth_error (nodes st) n) as [nd|] eqn:En; [|discriminate].
  destruct (keep nd); [destruct (nlast nd) as [lv|]|]; try solve [inversion E; subst; vs_fin].
  otau_inv E. destruct (send_vS _ _ _ _ E) as [A [B [C D]]].
  assert (En' : nth_error (nodes x) n <> None -> True) by auto.
  destruct (nth_error (subs x) s) as [c'|] eqn:Ec'; [|unfold views_same; auto].
  unfold views_same, vN, vS, vE in *. cbn. repeat split; auto.
  - rewrite <- A. unfold send in E. rewrite Ec in E. brute E; inversion E; subst; cbn in *;
      (eapply (map_upd_same (fun x => (nty x, npend x))); [eassumption|reflexivity]).
  - rewrite <- C. eapply vS_set_sub; [exact Ec'|reflexivity].
Qed.

Lemma try_drop_pend : forall st ty st', Pend st -> try_drop st ty = Some st' -> Pend st'.
Proof.
  intros st ty st' P E. unfold try_drop in E.
  destruct (nth_error (bmap st) ty) as [[n|]|] eqn:Eb; try (inversion E; subst; exact P).
  destruct (nth_error (nodes st) n) as [nd|] eqn:En; [|inversion E; subst; exact P].
  destruct (holder nd); [inversion E; subst; exact P|].
  destruct (Nat.eqb (npend nd) 0 && Nat.eqb (nem nd) 0 && match sinks nd with [] => true | _ => false end) eqn:Ec;
    inversion E; subst; [|exact P].
  apply andb_true_iff in Ec. destruct Ec as [Ec _]. apply andb_true_iff in Ec. destruct Ec as [Ec _]. apply Nat.eqb_eq in Ec.
  unfold Pend. cbn. eapply (PV_drop _ _ _ _ ty n (nty nd, npend nd)); [exact P|exact Eb| |exact Ec].
  unfold vN. rewrite nth_error_map, En. reflexivity.
Qed.

Lemma pfv_sub_upd : forall vs ve s p p' m, nth_error vs s = Some p ->
  pfv (upd vs s p') ve m + (if sappb m p then 1 else 0) = pfv vs ve m + (if sappb m p' then 1 else 0).
Proof. intros. unfold pfv. pose proof (cntf_upd (sappb m) vs s p' p H). lia. Qed.

Lemma pfv_em_upd : forall vs ve j q q' m, nth_error ve j = Some q ->
  pfv vs (upd ve j q') m + (if emb m q then 1 else 0) = pfv vs ve m + (if emb m q' then 1 else 0).
Proof. intros. unfold pfv. pose proof (cntf_upd (emb m) ve j q' q H). lia. Qed.

Lemma eqb_dec_if : forall n m, (if Nat.eqb n m then 1 else 0) = (if Nat.eq_dec n m then 1 else 0).
Proof. intros. destruct (Nat.eqb_spec n m), (Nat.eq_dec n m); congruence. Qed.

(* withNode's first half followed by recording the node in the caller *)
Lemma with_node_pend : forall st ty st1 n, Pend st -> with_node st ty = Some (st1, n) ->
  vS st1 = vS st /\ vE st1 = vE st /\
  forall vs' ve', (forall m, pfv vs' ve' m = pfv (vS st) (vE st) m + (if Nat.eq_dec n m then 1 else 0)) ->
                  PV (vN st1) (bmap st1) vs' ve'.
Proof.
  intros st ty st1 n P E. unfold with_node in E. pose proof (lookup_pend st ty P) as L.
  destruct (lookup st ty) as [sl m]. destruct L as [P1 [S1 [E1 [k [Hk Hb]]]]].
  destruct (nth_error (nodes sl) m) as [nd|] eqn:En; inversion E; subst. clear E.
  split; [exact S1|]. split; [exact E1|]. intros vs' ve' He.
  assert (X : nth_error (vN sl) n = Some (nty nd, npend nd)) by (unfold vN; rewrite nth_error_map, En; reflexivity).
  rewrite Hk in X. inversion X; subst.
  replace (vN (set_node sl n (n_pend nd (S (npend nd))))) with (upd (vN sl) n (nty nd, S (npend nd)))
    by (unfold vN; cbn; rewrite map_upd; reflexivity).
  eapply PV_enter; [exact P1|exact Hk|exact Hb|]. intros m0. rewrite He, S1, E1. reflexivity.
Qed.

Lemma Pend_intro : forall st' vn bm vs ve, vN st' = vn -> bmap st' = bm -> vS st' = vs -> vE st' = ve ->
  PV vn bm vs ve -> Pend st'.
Proof. intros st' vn bm vs ve <- <- <- <- H. exact H. Qed.

Lemma vE_upd : forall st j m', vE (set_emitter st j m') = upd (vE st) j (mnew m', mnode m').
Proof. intros. unfold vE. cbn [emitters set_emitter set_emitters]. rewrite map_upd. reflexivity. Qed.
Lemma vS_upd : forall st s c', vS (set_sub st s c') = upd (vS st) s (spc c').
Proof. intros. unfold vS. cbn [subs set_sub set_subs]. rewrite map_upd. reflexivity. Qed.
Lemma vN_upd : forall st n nd', vN (set_node st n nd') = upd (vN st) n (nty nd', npend nd').
Proof. intros. unfold vN. cbn [nodes set_node set_nodes]. rewrite map_upd. reflexivity. Qed.

Lemma emnew_pend : forall st j l st', Pend st -> step_emnew st j = Some (l, st') -> Pend st'.
Proof.
  intros st j l st' P E. unfold step_emnew in E. destruct (nth_error (emitters st) j) as [m|] eqn:Ej; [|discriminate].
  assert (Vj : nth_error (vE st) j = Some (mnew m, mnode m)) by (unfold vE; rewrite nth_error_map, Ej; reflexivity).
  destruct (mnew m) as [|[|[|[|?]]]] eqn:Em; try discriminate.
  - inversion E; subst. eapply Pend_intro; [reflexivity|reflexivity|reflexivity|apply vE_upd|].
    eapply PV_em_neutral; [exact P|exact Vj|]. intros n. reflexivity.
  - destruct (with_node st (mty m)) as [[st1 n]|] eqn:Ew; [|discriminate]. inversion E; subst.
    destruct (with_node_pend _ _ _ _ P Ew) as [S1 [E1 G]].
    eapply Pend_intro; [reflexivity|reflexivity|reflexivity|apply vE_upd|]. cbn [mnew mnode m_new].
    change (vN (set_emitter st1 j (m_new m n 2))) with (vN st1). change (bmap (set_emitter st1 j (m_new m n 2))) with (bmap st1).
    change (vS (set_emitter st1 j (m_new m n 2))) with (vS st1).
    apply G. intros m0. rewrite S1, E1.
    pose proof (pfv_em_upd (vS st) (vE st) j (1, mnode m) (2, n) m0 Vj) as X. unfold emb in X at 1 2. cbn in X.
    rewrite eqb_dec_if in X. lia.
  - destruct (nth_error (nodes st) (mnode m)) as [nd|] eqn:En; [|discriminate]. destruct (holder nd); [discriminate|].
    inversion E; subst. eapply Pend_intro; [|reflexivity|reflexivity|apply vE_upd|].
    { change (vN (set_emitter ?a j ?b)) with (vN a). apply vN_upd. }
    cbn [mnew mnode m_new nty npend n_pend n_emitters].
    eapply (PV_leave _ _ (vS st) (vE st)); [exact P|unfold vN; rewrite nth_error_map, En; reflexivity|].
    intros m0. pose proof (pfv_em_upd (vS st) (vE st) j (2, mnode m) (3, mnode m) m0 Vj) as X. unfold emb in X at 1 2. cbn in X.
    rewrite eqb_dec_if in X.
    unfold vS, vE in *. cbn [subs emitters set_emitter set_emitters set_node set_nodes] in *. lia.
  - inversion E; subst. eapply Pend_intro; [reflexivity|reflexivity|reflexivity|apply vE_upd|].
    eapply PV_em_neutral; [exact P|exact Vj|]. intros n. reflexivity.
Qed.

Lemma emclose_pend : forall st j l st', Pend st -> step_emclose st j = Some (l, st') -> Pend st'.
Proof.
  intros st j l st' P E. unfold step_emclose in E. destruct (nth_error (emitters st) j) as [m|] eqn:Ej; [|discriminate].
  assert (G : forall stx c p, Pend stx -> emitters stx = emitters st -> Pend (set_emitter stx j (m_cl m c p))).
  { intros stx c p Px Ex. eapply Pend_same; [exact Px|]. unfold views_same, vN, vS, vE. cbn. repeat split.
    rewrite Ex. eapply (map_upd_same (fun m0 => (mnew m0, mnode m0))); [exact Ej|reflexivity]. }
  destruct (mcl m); try discriminate.
  - destruct (Nat.eqb (mnew m) 4); inversion E; subst. apply G; auto.
  - destruct (mclosed m); inversion E; subst; apply G; auto.
  - destruct (nth_error (nodes st) (mnode m)) as [nd|] eqn:En; inversion E; subst. apply G; [|reflexivity].
    eapply Pend_same; [exact P|]. vs_fin.
  - inversion E; subst. apply G; auto.
  - otau_inv E. apply G; [eapply try_drop_pend; eassumption|]. unfold try_drop in E. brute E; inversion E; subst; reflexivity.
  - inversion E; subst. apply G; auto.
Qed.

Lemma sub_pend : forall st s l st', Pend st -> step_sub st s = Some (l, st') -> Pend st'.
Proof.
  intros st s l st' P E. unfold step_sub in E. destruct (nth_error (subs st) s) as [c|] eqn:Ec; [|discriminate].
  assert (Vs : nth_error (vS st) s = Some (spc c)) by (unfold vS; rewrite nth_error_map, Ec; reflexivity).
  assert (Neutral : forall stx p, vN stx = vN st -> bmap stx = bmap st -> subs stx = subs st -> vE stx = vE st ->
            (forall n, sappb n (spc c) = false) -> (forall n, sappb n p = false) -> Pend (set_sub stx s (c_spc c p))).
  { intros stx p A B C D H1 H2. eapply Pend_intro; [exact A|exact B|apply vS_upd|exact D|]. unfold vS. rewrite C. fold (vS st).
    eapply PV_sub_neutral; [exact P|exact Vs|]. intros n. cbn. rewrite H1, H2. reflexivity. }
  destruct (spc c) eqn:Ep.
  - destruct (styps c) as [[|]|]; inversion E; subst; apply Neutral; auto.
  - destruct (styps c) as [tys|]; [|discriminate]. destruct (nth_error tys i) as [ty|]; [|discriminate].
    destruct (with_node st ty) as [[st1 n]|] eqn:Ew; [|discriminate]. inversion E; subst.
    destruct (with_node_pend _ _ _ _ P Ew) as [S1 [E1 G]].
    eapply Pend_intro; [reflexivity|reflexivity|apply vS_upd|reflexivity|]. cbn [spc c_spc].
    change (vN (set_sub st1 s ?a)) with (vN st1). change (bmap (set_sub st1 s ?a)) with (bmap st1). change (vE (set_sub st1 s ?a)) with (vE st1).
    apply G. intros m0. rewrite S1, E1.
    pose proof (pfv_sub_upd (vS st) (vE st) s (SBus i) (SApp i n) m0 Vs) as X. cbn in X. rewrite eqb_dec_if in X. lia.
  - destruct (styps c) as [tys|]; [|discriminate].
    destruct (nth_error (nodes st) n) as [nd|] eqn:En; [|discriminate]. destruct (holder nd); [discriminate|].
    inversion E; subst. clear E.
    set (p' := if Nat.ltb (S i) (length tys) then SBus (S i) else SRet).
    eapply (Pend_intro _ (upd (vN st) n (nty nd, pred (npend nd))) (bmap st) (upd (vS st) s p') (vE st)).
    + change (vN (set_sub ?a s ?b)) with (vN a). rewrite vN_upd. reflexivity.
    + reflexivity.
    + rewrite vS_upd. f_equal. destruct (keep nd); [destruct (nlast nd)|]; reflexivity.
    + reflexivity.
    + eapply (PV_leave _ _ (vS st) (vE st)); [exact P|unfold vN; rewrite nth_error_map, En; reflexivity|].
      intros m0. pose proof (pfv_sub_upd (vS st) (vE st) s (SApp i n) p' m0 Vs) as X. cbn in X. rewrite eqb_dec_if in X.
      assert (Z : sappb m0 p' = false) by (unfold p'; destruct (Nat.ltb (S i) (length tys)); reflexivity). rewrite Z in X. lia.
  - inversion E; subst. apply Neutral; auto.
  - destruct (wpend (wild st)); [discriminate|]. inversion E; subst. apply Neutral; auto.
  - destruct (Nat.eqb (rdrs (wild st)) 0); [|discriminate]. inversion E; subst. apply Neutral; auto.
  - inversion E; subst. apply Neutral; auto.
  - destruct (styps c); discriminate.
Qed.

Lemma close_pend : forall st s l st', Pend st -> step_close st s = Some (l, st') -> Pend st'.
Proof.
  intros st s l st' P E. unfold step_close in E. destruct (nth_error (subs st) s) as [c|] eqn:Ec; [|discriminate].
  destruct (cpc c); try discriminate.
  - destruct (spc c); try discriminate. inversion E; subst. eapply Pend_same; [exact P|vs_fin].
  - destruct (nth_error (snodes c) i) as [n|]; [|discriminate]. destruct (nth_error (nodes st) n) as [nd|] eqn:En; [|discriminate].
    destruct (holder nd); [discriminate|]. inversion E; subst. eapply Pend_same; [exact P|vs_fin].
  - inversion E; subst. eapply Pend_same; [exact P|vs_fin].
  - destruct (nth_error (snodes c) i) as [n|]; [|discriminate]. destruct (nth_error (nodes st) n) as [nd|]; [|discriminate].
    otau_inv E. pose proof (try_drop_pend _ _ _ P E) as P1. eapply Pend_same; [exact P1|].
    unfold views_same, vN, vS, vE. cbn. repeat split. eapply vS_set_sub; [rewrite (try_drop_subs _ _ _ E); exact Ec|reflexivity].
  - inversion E; subst. eapply Pend_same; [exact P|vs_fin].
  - inversion E; subst. eapply Pend_same; [exact P|vs_fin].
  - destruct (wpend (wild st)); [discriminate|]. inversion E; subst. eapply Pend_same; [exact P|vs_fin].
  - destruct (Nat.eqb (rdrs (wild st)) 0); [|discriminate]. inversion E; subst. eapply Pend_same; [exact P|vs_fin].
  - inversion E; subst. eapply Pend_same; [exact P|vs_fin].
  - destruct (Nat.eqb (drain c) 3); [|discriminate]. inversion E; subst. eapply Pend_same; [exact P|vs_fin].
  - inversion E; subst. eapply Pend_same; [exact P|vs_fin].
Qed.

Lemma step_pend : forall st t l st', Pend st -> step st t = Some (l, st') -> Pend st'.
Proof.
  intros st t l st' P E. destruct t; cbn in E.
  - eapply emnew_pend; eassumption.
  - eapply emclose_pend; eassumption.
  - eapply Pend_same; [exact P|eapply emit_views, E].
  - eapply sub_pend; eassumption.
  - eapply Pend_same; [exact P|eapply replay_views, E].
  - eapply close_pend; eassumption.
  - eapply Pend_same; [exact P|]. eapply (simple_views st (TDrain s)); [exact Logic.I|exact E].
  - eapply Pend_same; [exact P|]. eapply (simple_views st (TReq s)); [exact Logic.I|exact E].
  - eapply Pend_same; [exact P|]. eapply (simple_views st (TRecv s)); [exact Logic.I|exact E].
  - eapply Pend_same; [exact P|]. eapply (simple_views st (TRead s)); [exact Logic.I|exact E].
Qed.

Lemma initial_pend : forall st, Proofs_Init.initial st ->
  Forall (fun m => mnew m = 0) (emitters st) -> Forall (fun o => o = None) (bmap st) -> Pend st.
Proof.
  intros st [Hn [_ [_ [_ [Hs _]]]]] He Hb.
  assert (Z : forall n, pfv (vS st) (vE st) n = 0).
  { intros n. unfold pfv, cntf, vS, vE. rewrite !map_length || idtac.
    assert (A : filter (sappb n) (map spc (subs st)) = []).
    { induction (subs st) as [|c l IH]; [reflexivity|]. inversion Hs; subst. cbn. rewrite H1. cbn. apply IH. assumption. }
    assert (B : filter (emb n) (map (fun m => (mnew m, mnode m)) (emitters st)) = []).
    { induction (emitters st) as [|m l IH]; [reflexivity|]. inversion He; subst. cbn. unfold emb at 1. cbn. rewrite H1. cbn. apply IH. assumption. }
    rewrite A, B. reflexivity. }
  constructor.
  - intros n p Hp. unfold vN in Hp. rewrite Hn in Hp. destruct n; discriminate.
  - intros ty n Hb'. rewrite Forall_forall in Hb. specialize (Hb _ (nth_error_In _ _ Hb')). discriminate.
  - intros n p Hp. unfold vN in Hp. rewrite Hn in Hp. destruct n; discriminate.
  - intros n Hp. rewrite Z in Hp. lia.
Qed.

(* THE pending-count theorem: while a Subscribe (or Emitter()) call is between
   withNode's lookup and its n.lk.Lock() for node n, the node exists, its pending
   count is positive, and the bus map still maps the node's type to n: it cannot
   be dropped in between (tryDropNode treats pending > 0 as "in use") *)
Lemma not_dropped_before_lock_l : forall st sched s c i n, Proofs_Init.initial st ->
  Forall (fun m => mnew m = 0) (emitters st) -> Forall (fun o => o = None) (bmap st) ->
  nth_error (subs (run step st sched)) s = Some c -> spc c = SApp i n ->
  exists nd, nth_error (nodes (run step st sched)) n = Some nd /\ npend nd > 0 /\
             (nty nd < length (bmap (run step st sched)) -> nth_error (bmap (run step st sched)) (nty nd) = Some (Some n)).
Proof.
  intros st sched s c i n H He Hb Hc Hp.
  assert (P : Pend (run step st sched)).
  { apply (invariant_run _ _ _ step Pend); [|apply initial_pend; assumption]. intros a t l b Pa E. eapply step_pend; eassumption. }
  set (s1 := run step st sched) in *.
  assert (F : pfv (vS s1) (vE s1) n > 0).
  { unfold pfv. assert (cntf (sappb n) (vS s1) > 0); [|lia]. unfold cntf, vS.
    assert (In (spc c) (filter (sappb n) (map spc (subs s1)))).
    { apply filter_In. split; [apply in_map, (nth_error_In _ _ Hc)|rewrite Hp; cbn; apply Nat.eqb_refl]. }
    destruct (filter (sappb n) (map spc (subs s1))); [contradiction|cbn; lia]. }
  pose proof (pV _ _ _ _ P n F) as L. unfold vN in L. rewrite map_length in L.
  destruct (nth_error (nodes s1) n) as [nd|] eqn:En; [|apply nth_error_None in En; lia].
  assert (Vn : nth_error (vN s1) n = Some (nty nd, npend nd)) by (unfold vN; rewrite nth_error_map, En; reflexivity).
  exists nd. split; [reflexivity|]. pose proof (pA _ _ _ _ P n _ Vn) as A. cbn in A. split; [lia|].
  intros Hl. apply (pQ _ _ _ _ P n _ Vn); cbn; [lia|exact Hl].
Qed.

Lemma init_state_fresh : forall nt ss ml es,
  Forall (fun m => mnew m = 0) (emitters (init_state nt ss (map (fun p => new_emitter (fst p) (snd p)) ml) es)) /\
  Forall (fun o => o = None) (bmap (init_state nt ss (map (fun p => new_emitter (fst p) (snd p)) ml) es)).
Proof.
  intros. cbn. split.
  - apply Forall_forall. intros m Hm. apply in_map_iff in Hm. destruct Hm as [p [<- _]]. reflexivity.
  - apply Forall_forall. intros o Ho. apply repeat_spec in Ho. exact Ho.
Qed.

(* C15 — how a step may change the retained event (n.last) and the keep flag of a node:
   the only writer of n.last is the lock point of an Emit, the only writer of keep is the
   registration callback of Emitter(). *)
From Coq Require Import List Arith ZArith Bool Lia.
From Verif Require Import c15.Lts c15.Model c15.Spec c15.Proofs_Chan c15.Proofs_Loc c15.Proofs_List c15.Proofs_Safe
  c15.Proofs_Init c15.Proofs_Live c15.Proofs_Pend.
Import ListNotations.

Definition kview := (nat * bool * option Z)%type.
Definition fKv (nd : node) : kview := (nty nd, keep nd, nlast nd).
Definition kv (st : state) := map fKv (nodes st).

Inductive node_ev (st : state) (t : thr) (st' : state) : Prop :=
| ne_same : kv st' = kv st -> node_ev st t st'
| ne_new ty : kv st' = kv st ++ [(ty, false, None)] -> node_ev st t st'
| ne_lock k e m nd : t = TEmit k -> nth_error (emits st) k = Some e -> epc e = ELock -> nth_error (emitters st) (eem e) = Some m ->
    nth_error (nodes st) (mnode m) = Some nd -> holder nd = None ->
    kv st' = upd (kv st) (mnode m) (nty nd, keep nd, if keep nd then Some (eev e) else nlast nd) -> node_ev st t st'
| ne_keep j m nd : t = TEmNew j -> nth_error (emitters st) j = Some m -> mnew m = 2 -> nth_error (nodes st) (mnode m) = Some nd ->
    kv st' = upd (kv st) (mnode m) (nty nd, keep nd || mstateful m, nlast nd) -> node_ev st t st'.

Ltac kv_same :=
  apply ne_same; unfold kv;
  cbn [nodes set_emitter set_emitters set_sub set_subs set_node set_nodes set_blk set_bmap set_wild set_emit set_emits set_panicked];
  try reflexivity; try (eapply (map_upd_same fKv); [eassumption|reflexivity]).

Lemma send_kv : forall st s it st', send st s it = Some st' -> kv st' = kv st.
Proof. intros st s it st' E. unfold send in E. brute E; inversion E; subst; reflexivity. Qed.
Lemma try_drop_kv : forall st ty st', try_drop st ty = Some st' -> kv st' = kv st.
Proof. intros st ty st' E. unfold try_drop in E. brute E; inversion E; subst; reflexivity. Qed.
Lemma with_node_kv : forall st ty st1 n, with_node st ty = Some (st1, n) -> kv st1 = kv st \/ exists ty0, kv st1 = kv st ++ [(ty0, false, None)].
Proof.
  intros st ty st1 n E. unfold with_node in E. destruct (lookup st ty) as [sl m] eqn:El.
  destruct (nth_error (nodes sl) m) as [nd|] eqn:En; inversion E; subst. clear E.
  unfold lookup in El. destruct (nth_error (bmap st) ty) as [[k|]|]; inversion El; subst.
  - left. unfold kv. cbn. apply (map_upd_same fKv _ n _ nd); [exact En|reflexivity].
  - right. exists ty. unfold kv. cbn in *. rewrite nth_error_app2 in En by lia. rewrite Nat.sub_diag in En. inversion En; subst nd.
    rewrite map_upd, map_app. cbn. apply upd_same. rewrite nth_error_app2 by (rewrite map_length; lia). rewrite map_length, Nat.sub_diag. reflexivity.
  - right. exists ty. unfold kv. cbn in *. rewrite nth_error_app2 in En by lia. rewrite Nat.sub_diag in En. inversion En; subst nd.
    rewrite map_upd, map_app. cbn. apply upd_same. rewrite nth_error_app2 by (rewrite map_length; lia). rewrite map_length, Nat.sub_diag. reflexivity.
Qed.

Theorem step_node_ev : forall st t l st', step st t = Some (l, st') -> node_ev st t st'.
Proof.
  intros st t l st' E. destruct t; cbn [step] in E.
  - unfold step_emnew in E. destruct (nth_error (emitters st) j) as [m|] eqn:Ej; [|discriminate].
    destruct (mnew m) as [|[|[|[|?]]]] eqn:En; try discriminate; try solve [brute E; inversion E; subst; kv_same].
    + destruct (with_node st (mty m)) as [[st1 n]|] eqn:Ew; [|discriminate]. inversion E; subst.
      destruct (with_node_kv _ _ _ _ Ew) as [X|[ty0 X]]; [apply ne_same; exact X|eapply ne_new; exact X].
    + destruct (nth_error (nodes st) (mnode m)) as [nd|] eqn:Hn; [|discriminate]. destruct (holder nd); [discriminate|]. inversion E; subst.
      eapply (ne_keep _ _ _ j m nd); try eassumption; try reflexivity. unfold kv. cbn. rewrite map_upd. reflexivity.
  - unfold step_emclose in E. destruct (nth_error (emitters st) j) as [m|]; [|discriminate].
    destruct (mcl m); try discriminate; try solve [brute E; inversion E; subst; kv_same].
    apply otau_Some in E. destruct E as [E _]. apply option_map_Some in E. destruct E as [x [E ->]]. apply ne_same. cbn. apply (try_drop_kv _ _ _ E).
  - unfold step_emit in E. destruct (nth_error (emits st) k) as [e|] eqn:Ek; [|discriminate].
    destruct (nth_error (emitters st) (eem e)) as [m|] eqn:Em; [|discriminate].
    destruct (epc e) as [| | |n [|x r]|n|n|n [|x r]|c|] eqn:Ep; try discriminate; try solve [brute E; inversion E; subst; kv_same].
    + destruct (nth_error (nodes st) (mnode m)) as [nd|] eqn:En; [|discriminate]. destruct (holder nd) eqn:Eh; [discriminate|]. inversion E; subst.
      eapply (ne_lock _ _ _ k e m nd); try eassumption; try reflexivity. unfold kv. cbn. rewrite map_upd. reflexivity.
    + apply otau_Some in E. destruct E as [E _]. apply option_map_Some in E. destruct E as [x0 [E ->]]. apply ne_same. cbn. apply (send_kv _ _ _ _ E).
    + apply otau_Some in E. destruct E as [E _]. apply option_map_Some in E. destruct E as [x0 [E ->]]. apply ne_same. cbn. apply (send_kv _ _ _ _ E).
  - unfold step_sub in E. destruct (nth_error (subs st) s) as [c|] eqn:Ec; [|discriminate].
    destruct (spc c); try solve [brute E; inversion E; subst; kv_same].
    destruct (styps c) as [tys|]; [|discriminate]. destruct (nth_error tys i) as [ty|]; [|discriminate].
    destruct (with_node st ty) as [[st1 n]|] eqn:Ew; [|discriminate]. inversion E; subst.
    destruct (with_node_kv _ _ _ _ Ew) as [X|[ty0 X]]; [apply ne_same; exact X|eapply ne_new; exact X].
  - unfold step_replay in E. destruct (nth_error (subs st) s) as [c|] eqn:Ec; [|discriminate].
    destruct (nth_error (rpend c) i) as [[|]|]; try discriminate.
    destruct (nth_error (snodes c) i) as [n|]; [|discriminate]. destruct (nth_error (nodes st) n) as [nd|] eqn:En; [|discriminate].
    destruct (keep nd); [destruct (nlast nd) as [lv|]|]; try solve [inversion E; subst; kv_same].
    apply otau_Some in E. destruct E as [E _]. apply option_map_Some in E. destruct E as [x [E ->]].
    apply ne_same. destruct (nth_error (subs x) s); [|apply (send_kv _ _ _ _ E)].
    unfold kv. cbn. assert (X : nodes x = nodes st) by (unfold send in E; brute E; inversion E; subst; reflexivity). rewrite X.
    apply (map_upd_same fKv _ n _ nd); [exact En|reflexivity].
  - unfold step_close in E. destruct (nth_error (subs st) s) as [c|] eqn:Ec; [|discriminate].
    destruct (cpc c); try discriminate; try solve [brute E; inversion E; subst; kv_same].
    destruct (nth_error (snodes c) i) as [n|]; [|discriminate]. destruct (nth_error (nodes st) n) as [nd|]; [|discriminate].
    apply otau_Some in E. destruct E as [E _]. apply option_map_Some in E. destruct E as [x [E ->]]. apply ne_same. cbn. apply (try_drop_kv _ _ _ E).
  - unfold step_drain in E. destruct (nth_error (subs st) s) as [c|] eqn:Ec; [|discriminate]. brute E; inversion E; subst; kv_same.
  - unfold step_req in E. destruct (nth_error (subs st) s) as [c|] eqn:Ec; [|discriminate]. inversion E; subst; kv_same.
  - unfold step_recv in E. destruct (nth_error (subs st) s) as [c|] eqn:Ec; [|discriminate]. brute E; inversion E; subst; kv_same.
  - unfold step_read in E. destruct (nth_error (subs st) s) as [c|] eqn:Ec; [|discriminate]. brute E; inversion E; subst; kv_same.
Qed.

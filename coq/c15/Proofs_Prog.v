(* C15 — the progress theorem.  In a reachable state in which some operation is
   unfinished, some thread can take a step that is not an environment stimulus,
   provided every full open channel has a receive pending or its Close has
   started (liveness of the consumers is the environment's business). *)
From Coq Require Import List Arith ZArith Bool Lia.
From Verif Require Import c15.Lts c15.Model c15.Proofs_Chan c15.Proofs_Loc c15.Proofs_List c15.Proofs_Safe
  c15.Proofs_Init c15.Proofs_Live c15.Proofs_Pend c15.Proofs_Idx c15.Proofs_Dead.
Import ListNotations.

(* a step that is not a stimulus of the environment *)
Definition progress (st : state) (t : thr) : Prop :=
  exists l st', step st t = Some (l, st') /\ (forall lab, l = Some lab -> stim lab = false).
Definition some_progress (st : state) : Prop := exists t, progress st t.

(* the consumers' side: a full open channel has a receive pending or is being closed *)
Definition consumers_live (st : state) : Prop :=
  forall s c, nth_error (subs st) s = Some c -> closed c = false -> room c = false -> want c > 0 \/ draining c = true.

(* indices stored in the state point at existing nodes *)
Definition Valid (st : state) : Prop :=
  (forall j m, nth_error (emitters st) j = Some m -> 2 <= mnew m -> mnode m < length (nodes st)) /\
  (forall s c n, nth_error (subs st) s = Some c -> In n (snodes c) -> n < length (nodes st)) /\
  (forall k e m, nth_error (emits st) k = Some e -> epc e <> E0 -> nth_error (emitters st) (eem e) = Some m -> mnew m = 4) /\
  (forall j m, nth_error (emitters st) j = Some m -> mcl m <> C0 -> mnew m = 4) /\
  (forall s c, nth_error (subs st) s = Some c -> (exists i, spc c = SBus i) \/ (exists i n, spc c = SApp i n) -> styps c <> None).

(* the wildcard write lock is pending only for a thread about to use it, and
   rdrs counts the Emits inside the wildcard send loop *)
Definition WildOK (st : state) : Prop :=
  (forall t, wpend (wild st) = Some t ->
     (exists s c, t = TSub s /\ nth_error (subs st) s = Some c /\ spc c = SW3) \/
     (exists s c, t = TClose s /\ nth_error (subs st) s = Some c /\ cpc c = KW3)) /\
  (rdrs (wild st) > 0 -> exists k e n todo, nth_error (emits st) k = Some e /\ epc e = EWSend n todo).

Lemma tau_progress : forall st t st', step st t = Some (None, st') -> progress st t.
Proof. intros st t st' E. exists None, st'. split; [exact E|]. intros lab X. discriminate. Qed.

Lemma enabled_tau_progress : forall st t, (exists st', step st t = Some (None, st')) -> progress st t.
Proof. intros st t [st' E]. eapply tau_progress, E. Qed.

Lemma recv_is_tau : forall st s l st', step_recv st s = Some (l, st') -> l = None.
Proof. intros st s l st' E. unfold step_recv in E. brute E; inversion E; reflexivity. Qed.
Lemma drain_is_tau : forall st s l st', step_drain st s = Some (l, st') -> l = None.
Proof. intros st s l st' E. unfold step_drain in E. brute E; inversion E; reflexivity. Qed.

Lemma stalled_progress : forall st x, consumers_live st -> stalled_on_full st x -> some_progress st.
Proof.
  intros st x CL [c [Ec [Hc [Hr [Hw Hd]]]]]. destruct (CL x c Ec Hc Hr) as [W|D].
  - exists (TRecv x). destruct (Hw W) as [l [st' E]]. pose proof E as E2. cbn in E2. apply recv_is_tau in E2. subst l.
    eapply tau_progress, E.
  - exists (TDrain x). destruct (Hd D) as [l [st' E]]. pose proof E as E2. cbn in E2. apply drain_is_tau in E2. subst l.
    eapply tau_progress, E.
Qed.

Record Good (st : state) : Prop := {
  gL : Forall sub_loc (subs st); gI : Inv2 st; gN : NoLeak st; gE : has_emitter st; gP : Pend st;
  gX : Forall idx2 (subs st); gV : Valid st; gW : WildOK st }.

Lemma send_tau_progress : forall st x it c (k : state -> state) t, nth_error (subs st) x = Some c -> closed c = false ->
  (forall st1, send st x it = Some st1 -> exists st', step st t = Some (None, st')) ->
  consumers_live st -> some_progress st.
Proof.
  intros st x it c k t Ec Hc Hs CL. destruct (send_progress st x it c Ec Hc) as [[st1 E]|S].
  - exists t. apply enabled_tau_progress. exact (Hs st1 E).
  - eapply stalled_progress; eassumption.
Qed.

(* a thread inside a node's critical region: it or a consumer/drainer can move *)
Lemma region_progress_st : forall st n t, Good st -> consumers_live st -> in_region st n t -> some_progress st.
Proof.
  intros st n t G CL R. destruct G as [HL I _ HE _ _ _ _]. destruct t; cbn in R; try contradiction.
  - destruct R as [e [todo [Ek Ep]]]. destruct (iL st I k e n todo Ek Ep) as [nd [En [Hh Hs]]].
    assert (X : eem e < length (emitters st)) by (apply (HE k e Ek); rewrite Ep; discriminate).
    destruct (nth_error (emitters st) (eem e)) as [m|] eqn:Eme; [|apply nth_error_None in Eme; lia].
    destruct todo as [|x r].
    + exists (TEmit k). apply enabled_tau_progress. cbn. unfold step_emit. rewrite Ek, Eme, Ep, En. unfold tau. eauto.
    + destruct (listed_open st n nd x HL I En (Hs x (or_introl eq_refl))) as [c [Ec Hc]].
      eapply (send_tau_progress st x (n, eev e) c (fun s => s) (TEmit k) Ec Hc); [|exact CL].
      intros st1 E. cbn. unfold step_emit. rewrite Ek, Eme, Ep, E. cbn. unfold tau. eauto.
  - destruct R as [c [Ec [Er Es]]]. destruct (iR st I s c i n Ec Er Es) as [nd [En [Hh Hin]]].
    destruct (keep nd) eqn:Hk; [destruct (nlast nd) as [lv|] eqn:Hl|].
    + destruct (listed_open st n nd s HL I En Hin) as [c0 [Ec0 Hc]]. rewrite Ec in Ec0. inversion Ec0; subst c0.
      eapply (send_tau_progress st s (n, lv) c (fun s => s) (TReplay s i) Ec Hc); [|exact CL].
      intros st1 E. cbn. unfold step_replay. rewrite Ec, Er, Es, En, Hk, Hl, E. cbn. eauto.
    + exists (TReplay s i). apply enabled_tau_progress. cbn. unfold step_replay. rewrite Ec, Er, Es, En, Hk, Hl. unfold tau. eauto.
    + exists (TReplay s i). apply enabled_tau_progress. cbn. unfold step_replay. rewrite Ec, Er, Es, En, Hk. unfold tau. eauto.
Qed.

(* whoever needs node n's lock: it is free, or somebody can move *)
Lemma node_lock_chain : forall st n nd, Good st -> consumers_live st -> nth_error (nodes st) n = Some nd ->
  holder nd = None \/ some_progress st.
Proof.
  intros st n nd G CL En. destruct (holder nd) as [t|] eqn:Hh; [right|left; reflexivity].
  eapply region_progress_st; [exact G|exact CL|]. exact (gN st G n nd t En Hh).
Qed.

(* a wildcard read-lock holder *)
Lemma reader_progress_st : forall st k e n todo, Good st -> consumers_live st ->
  nth_error (emits st) k = Some e -> epc e = EWSend n todo -> some_progress st.
Proof.
  intros st k e n todo G CL Ek Ep. destruct G as [HL I _ HE _ _ _ _].
  assert (X : eem e < length (emitters st)) by (apply (HE k e Ek); rewrite Ep; discriminate).
  destruct (nth_error (emitters st) (eem e)) as [m|] eqn:Eme; [|apply nth_error_None in Eme; lia].
  destruct todo as [|x r].
  - exists (TEmit k). apply enabled_tau_progress. cbn. unfold step_emit. rewrite Ek, Eme, Ep. unfold tau. eauto.
  - destruct (wild_open st x HL (iW2 st I k e n (x :: r) x Ek Ep (or_introl eq_refl))) as [c [Ec Hc]].
    eapply (send_tau_progress st x (k, eev e) c (fun s => s) (TEmit k) Ec Hc); [|exact CL].
    intros st1 E. cbn. unfold step_emit. rewrite Ek, Eme, Ep, E. cbn. unfold tau. eauto.
Qed.

(* whoever needs the wildcard lock (read or write): it is free and unannounced, or somebody can move *)
Lemma wild_lock_chain : forall st, Good st -> consumers_live st ->
  (wpend (wild st) = None) \/ some_progress st.
Proof.
  intros st G CL. destruct (wpend (wild st)) as [t|] eqn:Hw; [right|left; reflexivity].
  destruct (gW st G) as [W1 W2]. destruct (Nat.eq_dec (rdrs (wild st)) 0) as [Z|NZ].
  - destruct (W1 t Hw) as [[s [c [-> [Ec Ep]]]]|[s [c [-> [Ec Ek]]]]].
    + exists (TSub s). apply enabled_tau_progress. cbn. unfold step_sub. rewrite Ec, Ep, Z. cbn. unfold tau. eauto.
    + exists (TClose s). apply enabled_tau_progress. cbn. unfold step_close. rewrite Ec, Ek, Z. cbn. unfold tau. eauto.
  - destruct W2 as [k [e [n [todo [Ek Ep]]]]]; [lia|]. eapply reader_progress_st; eassumption.
Qed.

Lemma readers_chain : forall st, Good st -> consumers_live st -> rdrs (wild st) = 0 \/ some_progress st.
Proof.
  intros st G CL. destruct (Nat.eq_dec (rdrs (wild st)) 0) as [Z|NZ]; [left; exact Z|right].
  destruct (gW st G) as [_ W2]. destruct W2 as [k [e [n [todo [Ek Ep]]]]]; [lia|]. eapply reader_progress_st; eassumption.
Qed.

(* unfinished operations (consumers and drainers are not operations of the bus API) *)
Definition emit_in_flight (e : emit) : bool := match epc e with E0 | EDone => false | _ => true end.
Definition sub_in_flight (c : sub) : bool :=
  (match spc c with S0 | SDone => false | _ => true end) || (match cpc c with K0 | KDone => false | _ => true end)
  || existsb (fun b : bool => b) (rpend c).
Definition emitter_in_flight (m : emitter) : bool :=
  (match mnew m with 1 | 2 | 3 => true | _ => false end) || (match mcl m with C0 | C5 => false | _ => true end).
Definition in_flight (st : state) : bool :=
  existsb emit_in_flight (emits st) || existsb sub_in_flight (subs st) || existsb emitter_in_flight (emitters st).

Lemma vis_progress : forall st t lab st', step st t = Some (Some lab, st') -> stim lab = false -> progress st t.
Proof. intros st t lab st' E Hs. exists (Some lab), st'. split; [exact E|]. intros l X. inversion X; subst. exact Hs. Qed.

(* the return step of Subscribe (ok, or the error of a rejected call) is always enabled *)
Lemma sret_progress : forall st s c, nth_error (subs st) s = Some c -> spc c = SRet -> progress st (TSub s).
Proof.
  intros st s c Ec Ep. destruct (styps c) as [[|? ?]|] eqn:Et;
    (eapply vis_progress; [cbn; unfold step_sub; rewrite Ec, Ep, Et; reflexivity|reflexivity]).
Qed.

Lemma emit_progress : forall st k e, Good st -> consumers_live st -> nth_error (emits st) k = Some e ->
  emit_in_flight e = true -> some_progress st.
Proof.
  intros st k e G CL Ek Hf. pose proof G as [HL I _ HE _ _ [V1 [_ [V3 _]]] _].
  assert (Hp : epc e <> E0) by (intros X; unfold emit_in_flight in Hf; rewrite X in Hf; discriminate).
  pose proof (HE k e Ek Hp) as X. destruct (nth_error (emitters st) (eem e)) as [m|] eqn:Eme; [|apply nth_error_None in Eme; lia].
  unfold emit_in_flight in Hf. destruct (epc e) as [| | |n todo|n|n|n todo|c|] eqn:Ep; try discriminate.
  - exists (TEmit k). apply enabled_tau_progress. cbn. unfold step_emit. rewrite Ek, Eme, Ep. unfold tau. eauto.
  - (* n.lk.Lock() *)
    assert (Hm : 2 <= mnew m) by (rewrite (V3 k e m Ek ltac:(rewrite Ep; discriminate) Eme); lia).
    pose proof (V1 _ _ Eme Hm) as Hlt. destruct (nth_error (nodes st) (mnode m)) as [nd|] eqn:En; [|apply nth_error_None in En; lia].
    destruct (node_lock_chain st (mnode m) nd G CL En) as [Hh|P]; [|exact P].
    exists (TEmit k). apply enabled_tau_progress. cbn. unfold step_emit. rewrite Ek, Eme, Ep, En, Hh. unfold tau. eauto.
  - eapply region_progress_st; [exact G|exact CL|]. instantiate (1 := TEmit k). instantiate (1 := n). cbn. eauto.
  - exists (TEmit k). apply enabled_tau_progress. cbn. unfold step_emit. rewrite Ek, Eme, Ep. unfold tau. eauto.
  - destruct (wild_lock_chain st G CL) as [Hw|P]; [|exact P].
    exists (TEmit k). apply enabled_tau_progress. cbn. unfold step_emit. rewrite Ek, Eme, Ep, Hw. unfold tau. eauto.
  - eapply reader_progress_st; eassumption.
  - exists (TEmit k). eapply vis_progress; [cbn; unfold step_emit; rewrite Ek, Eme, Ep; reflexivity|reflexivity].
Qed.

(* withNode's first half never blocks *)
Lemma with_node_total : forall st ty, Pend st -> exists st1 n, with_node st ty = Some (st1, n).
Proof.
  intros st ty P. unfold with_node. pose proof (lookup_pend st ty P) as L. destruct (lookup st ty) as [sl m].
  destruct L as [_ [_ [_ [k [Hk _]]]]]. unfold vN in Hk. rewrite nth_error_map in Hk.
  destruct (nth_error (nodes sl) m); [eauto|discriminate].
Qed.

Lemma emitter_progress : forall st j m, Good st -> consumers_live st -> nth_error (emitters st) j = Some m ->
  emitter_in_flight m = true -> some_progress st.
Proof.
  intros st j m G CL Ej Hf. pose proof G as [HL I _ HE P _ [V1 [_ [_ [V4 _]]]] _]. unfold emitter_in_flight in Hf.
  destruct (mcl m) eqn:Ec.
  - (* Close not started: the creation is in flight *)
    rewrite orb_false_r in Hf. destruct (mnew m) as [|[|[|[|q]]]] eqn:Em; try discriminate.
    + destruct (with_node_total st (mty m) P) as [st1 [n Ew]]. exists (TEmNew j). apply enabled_tau_progress.
      cbn. unfold step_emnew. rewrite Ej, Em, Ew. unfold tau. eauto.
    + assert (Hlt : mnode m < length (nodes st)) by (apply (V1 j m Ej); lia).
      destruct (nth_error (nodes st) (mnode m)) as [nd|] eqn:En; [|apply nth_error_None in En; lia].
      destruct (node_lock_chain st (mnode m) nd G CL En) as [Hh|X]; [|exact X].
      exists (TEmNew j). apply enabled_tau_progress. cbn. unfold step_emnew. rewrite Ej, Em, En, Hh. unfold tau. eauto.
    + exists (TEmNew j). eapply vis_progress; [cbn; unfold step_emnew; rewrite Ej, Em; reflexivity|reflexivity].
  - exists (TEmClose j). apply enabled_tau_progress. cbn. unfold step_emclose. rewrite Ej, Ec. unfold tau. destruct (mclosed m); eauto.
  - assert (Em : mnew m = 4) by (apply (V4 j m Ej); rewrite Ec; discriminate).
    assert (Hlt : mnode m < length (nodes st)) by (apply (V1 j m Ej); lia).
    destruct (nth_error (nodes st) (mnode m)) as [nd|] eqn:En; [|apply nth_error_None in En; lia].
    exists (TEmClose j). apply enabled_tau_progress. cbn. unfold step_emclose. rewrite Ej, Ec, En. unfold tau. eauto.
  - exists (TEmClose j). apply enabled_tau_progress. cbn. unfold step_emclose. rewrite Ej, Ec. unfold tau. eauto.
  - destruct (try_drop_total st (mty m)) as [st' Et]. exists (TEmClose j). apply enabled_tau_progress.
    cbn. unfold step_emclose. rewrite Ej, Ec, Et. cbn. eauto.
  - exists (TEmClose j). eapply vis_progress; [cbn; unfold step_emclose; rewrite Ej, Ec; reflexivity|reflexivity].
  - (* C5: Close finished, so the creation finished long ago *)
    assert (Em : mnew m = 4) by (apply (V4 j m Ej); rewrite Ec; discriminate). rewrite Em in Hf. discriminate.
Qed.

Lemma sapp_node_exists : forall st s c i n, Pend st -> nth_error (subs st) s = Some c -> spc c = SApp i n ->
  n < length (nodes st).
Proof.
  intros st s c i n P Hc Hp.
  assert (F : pfv (vS st) (vE st) n > 0).
  { unfold pfv. assert (cntf (sappb n) (vS st) > 0); [|lia]. unfold cntf, vS.
    assert (In (spc c) (filter (sappb n) (map spc (subs st)))).
    { apply filter_In. split; [apply in_map, (nth_error_In _ _ Hc)|rewrite Hp; cbn; apply Nat.eqb_refl]. }
    destruct (filter (sappb n) (map spc (subs st))); [contradiction|cbn; lia]. }
  pose proof (pV _ _ _ _ P n F) as L. unfold vN in L. rewrite map_length in L. exact L.
Qed.

Lemma sub_progress : forall st s c, Good st -> consumers_live st -> nth_error (subs st) s = Some c ->
  sub_in_flight c = true -> some_progress st.
Proof.
  intros st s c G CL Ec Hf. pose proof G as [HL I _ HE P HX [V1 [V2 [_ [_ V6]]]] _].
  pose proof (Forall_nth_error _ _ _ _ HX Ec) as [X1 [X2 [X3 X4]]].
  (* a pending replay goroutine *)
  destruct (existsb (fun b : bool => b) (rpend c)) eqn:Er.
  { apply existsb_exists in Er. destruct Er as [b [Hin Hb]]. subst b. apply In_nth_error in Hin. destruct Hin as [i Hi].
    assert (Hl : i < length (snodes c)) by (rewrite <- (iLen st I s c Ec); apply nth_error_Some; congruence).
    destruct (nth_error (snodes c) i) as [n|] eqn:Es; [|apply nth_error_None in Es; lia].
    eapply (region_progress_st st n (TReplay s i)); [exact G|exact CL|]. cbn. eauto. }
  unfold sub_in_flight in Hf. rewrite Er, orb_false_r in Hf.
  destruct (spc c) eqn:Ep; cbn in Hf.
  - (* S0: only Close could be in flight, but Close needs SDone *) 
    destruct (Forall_nth_error _ _ _ _ HL Ec) as [_ [P2 _]].
    assert (Z : spc c = SDone) by (apply P2; intros Ek; rewrite Ek in Hf; discriminate). congruence.
  - destruct (styps c) as [tys|] eqn:Et; [|exfalso; apply (V6 s c Ec); [left; eauto|exact Et]].
    pose proof (X1 i tys eq_refl eq_refl) as Hl. destruct (nth_error tys i) as [ty|] eqn:Ety; [|apply nth_error_None in Ety; lia].
    destruct (with_node_total st ty P) as [st1 [n Ew]]. exists (TSub s). apply enabled_tau_progress.
    cbn. unfold step_sub. rewrite Ec, Ep, Et, Ety, Ew. unfold tau. eauto.
  - destruct (styps c) as [tys|] eqn:Et; [|exfalso; apply (V6 s c Ec); [right; eauto|exact Et]].
    pose proof (sapp_node_exists st s c i n P Ec Ep) as Hlt.
    destruct (nth_error (nodes st) n) as [nd|] eqn:En; [|apply nth_error_None in En; lia].
    destruct (node_lock_chain st n nd G CL En) as [Hh|X]; [|exact X].
    exists (TSub s). apply enabled_tau_progress. cbn. unfold step_sub. rewrite Ec, Ep, Et, En, Hh. unfold tau. eauto.
  - exists (TSub s). apply enabled_tau_progress. cbn. unfold step_sub. rewrite Ec, Ep. destruct (styps c); unfold tau; eauto.
  - destruct (wild_lock_chain st G CL) as [Hw|X]; [|exact X].
    exists (TSub s). apply enabled_tau_progress. cbn. unfold step_sub. rewrite Ec, Ep. destruct (styps c); rewrite Hw; unfold tau; eauto.
  - destruct (readers_chain st G CL) as [Z|X]; [|exact X].
    exists (TSub s). apply enabled_tau_progress. cbn. unfold step_sub. rewrite Ec, Ep. destruct (styps c); rewrite Z; cbn; unfold tau; eauto.
  - exists (TSub s). eapply sret_progress; eassumption.
  - (* Subscribe done: Close in flight *)
    destruct (cpc c) eqn:Ek; try discriminate.
    + pose proof (X2 i eq_refl) as Hl. destruct (nth_error (snodes c) i) as [n|] eqn:Es; [|apply nth_error_None in Es; lia].
      pose proof (V2 s c n Ec (nth_error_In _ _ Es)) as Hlt.
      destruct (nth_error (nodes st) n) as [nd|] eqn:En; [|apply nth_error_None in En; lia].
      destruct (node_lock_chain st n nd G CL En) as [Hh|X]; [|exact X].
      exists (TClose s). apply enabled_tau_progress. cbn. unfold step_close. rewrite Ec, Ek, Es, En, Hh. unfold tau. eauto.
    + exists (TClose s). apply enabled_tau_progress. cbn. unfold step_close. rewrite Ec, Ek. unfold tau. eauto.
    + pose proof (X2 i eq_refl) as Hl. destruct (nth_error (snodes c) i) as [n|] eqn:Es; [|apply nth_error_None in Es; lia].
      pose proof (V2 s c n Ec (nth_error_In _ _ Es)) as Hlt.
      destruct (nth_error (nodes st) n) as [nd|] eqn:En; [|apply nth_error_None in En; lia].
      destruct (try_drop_total st (nty nd)) as [st' Et]. exists (TClose s). apply enabled_tau_progress.
      cbn. unfold step_close. rewrite Ec, Ek, Es, En, Et. cbn. eauto.
    + exists (TClose s). apply enabled_tau_progress. cbn. unfold step_close. rewrite Ec, Ek. unfold tau. eauto.
    + exists (TClose s). apply enabled_tau_progress. cbn. unfold step_close. rewrite Ec, Ek. unfold tau. eauto.
    + destruct (wild_lock_chain st G CL) as [Hw|X]; [|exact X].
      exists (TClose s). apply enabled_tau_progress. cbn. unfold step_close. rewrite Ec, Ek, Hw. unfold tau. eauto.
    + destruct (readers_chain st G CL) as [Z|X]; [|exact X].
      exists (TClose s). apply enabled_tau_progress. cbn. unfold step_close. rewrite Ec, Ek, Z. cbn. unfold tau. eauto.
    + exists (TClose s). apply enabled_tau_progress. cbn. unfold step_close. rewrite Ec, Ek. unfold tau. eauto.
    + destruct (X3 eq_refl) as [D|D].
      * exists (TDrain s). apply enabled_tau_progress. cbn. unfold step_drain. rewrite Ec. unfold draining. rewrite D. cbn.
        destruct (buf c); unfold tau; eauto.
      * exists (TClose s). apply enabled_tau_progress. cbn. unfold step_close. rewrite Ec, Ek, D. cbn. unfold tau. eauto.
    + exists (TClose s). eapply vis_progress; [cbn; unfold step_close; rewrite Ec, Ek; reflexivity|reflexivity].
Qed.

Lemma progress_good : forall st, Good st -> consumers_live st -> in_flight st = true -> some_progress st.
Proof.
  intros st G CL Hf. unfold in_flight in Hf. apply orb_true_iff in Hf. destruct Hf as [Hf|Hf]; [apply orb_true_iff in Hf; destruct Hf as [Hf|Hf]|].
  - apply existsb_exists in Hf. destruct Hf as [e [Hin He]]. apply In_nth_error in Hin. destruct Hin as [k Hk].
    eapply emit_progress; eassumption.
  - apply existsb_exists in Hf. destruct Hf as [c [Hin Hc]]. apply In_nth_error in Hin. destruct Hin as [s Hs].
    eapply sub_progress; eassumption.
  - apply existsb_exists in Hf. destruct Hf as [m [Hin Hm]]. apply In_nth_error in Hin. destruct Hin as [j Hj].
    eapply emitter_progress; eassumption.
Qed.

(* everything in Good except Valid and WildOK is already an invariant of every run *)
Definition fresh_init (st : state) : Prop :=
  initial st /\ Forall (fun m => mnew m = 0 /\ mcl m = C0) (emitters st) /\ Forall (fun o => o = None) (bmap st).

Lemma reach_good_but : forall st sched, fresh_init st ->
  let s1 := run step st sched in
  Forall sub_loc (subs s1) /\ Inv2 s1 /\ NoLeak s1 /\ has_emitter s1 /\ Pend s1 /\ Forall idx2 (subs s1).
Proof.
  intros st sched [H [He Hb]] s1.
  assert (He0 : Forall (fun m => mnew m = 0) (emitters st)) by (eapply Forall_impl; [|exact He]; intros m [A _]; exact A).
  assert (F : (Safe s1 /\ NoLeak s1) /\ has_emitter s1 /\ Pend s1 /\ Forall idx2 (subs s1)).
  { unfold s1. apply (invariant_run _ _ _ step (fun s => (Safe s /\ NoLeak s) /\ has_emitter s /\ Pend s /\ Forall idx2 (subs s))).
    - intros a t l b [[Sa Na] [Ea [Pa Xa]]] E.
      split; [split; [eapply step_safe; eassumption|eapply step_nl; eassumption]|].
      split; [eapply step_has_emitter; eassumption|]. split; [eapply step_pend; eassumption|].
      eapply step_i2; [apply Sa|exact Xa|exact E].
    - split; [split; [apply (initial_safe st H)|]|].
      + destruct H as [Hn _]. intros n0 nd0 t0 X. rewrite Hn in X. destruct n0; discriminate.
      + split; [apply initial_has_emitter, H|]. split; [apply initial_pend; assumption|].
        destruct H as [_ [_ [_ [_ [Hs _]]]]]. apply Forall_forall. intros c Hc. rewrite Forall_forall in Hs. rewrite (Hs c Hc).
        unfold idx2. cbn. repeat split; intros; discriminate. }
  destruct F as [[[A B] C] [D [E G]]]. exact (conj A (conj B (conj C (conj D (conj E G))))).
Qed.

(* C15 — rule 4: no event is delivered for a receive that started after Close returned.
   Needs the discipline: a receive request is a stimulus, issued at a quiescent state, where
   the drainer of a closed subscription has finished. *)
From Coq Require Import List Arith ZArith Bool Lia.
From Verif Require Import lib.Wire c15.Lts c15.Model c15.Spec c15.Proofs c15.Proofs_Chan c15.Proofs_Loc c15.Proofs_List c15.Proofs_Safe
  c15.Proofs_Init c15.Proofs_Once c15.Proofs_First c15.Proofs_Wild c15.Proofs_Thm c15.Proofs_Live c15.Proofs_Pend c15.Proofs_Idx c15.Proofs_Dead c15.Proofs_Prog c15.Proofs_Valid c15.Proofs_WildOK
  c15.Proofs_Blk c15.Proofs_Obs c15.Proofs_Loc3 c15.Proofs_WSI c15.Proofs_TY c15.Proofs_Rule13 c15.Proofs_Reads c15.Proofs_Wire c15.Proofs_Disc c15.Proofs_Mon c15.Proofs_MonS
  c15.Proofs_Tr c15.Proofs_Cpl c15.Proofs_RInv c15.Proofs_RCtx c15.Proofs_Prom c15.Proofs_R3 c15.Proofs_CEv c15.Proofs_ChI c15.Proofs_R5 c15.Proofs_Loc4.
Import ListNotations.
Local Open Scope Z_scope.

Lemma quiet_no_tau : forall st t st', quiescent step thrs stim st = true -> step st t = Some (None, st') -> False.
Proof.
  intros st t st' Q E. apply (quiescent_no_progress st Q). exists t, None, st'. split; [exact E|intros lab X; discriminate].
Qed.

Lemma reach_cfg : forall c s1, cfg_wf c = true ->
  Good (St c s1) /\ Forall loc3 (subs (St c s1)) /\ WSV (St c s1) /\ TYV (St c s1).
Proof. intros c s1 W. exact (reach_all (init_of c) s1 (cfg_wf_init c W)). Qed.

Lemma loc4_cfg : forall c s1, cfg_wf c = true -> Forall loc4 (subs (St c s1)).
Proof.
  intros c s1 W. unfold St. apply (coupled_run_all (fun st _ => Forall loc4 (subs st))); [apply initial_l4, init_initial, W|].
  intros s0 t l st' H E. destruct (reach_cfg c s0 W) as [G [L3 [WS TV]]]. unfold St in *.
  eapply step_l4; [apply G|apply G|apply TYV_TY, TV|exact WS|apply G|exact L3|exact H|exact E].
Qed.

(* Close(s) has returned: its program counter is at the end *)
Lemma close_returned_pc : forall st tr s c p1, Obs st tr -> nth_error (subs st) s = Some c ->
  cut (lab_is_ret (TClose s)) tr = Some p1 -> cpc c = KDone.
Proof.
  intros st tr s c p1 O Ec C.
  assert (R : o_returned tr (TClose s) = true).
  { unfold o_returned. destruct (existsb (lab_is_ret (TClose s)) tr) eqn:X; [reflexivity|]. apply cut_none in X. congruence. }
  pose proof (obC _ _ O s (cpc c)) as N. unfold xC in N. rewrite nth_error_map, Ec in N. specialize (N eq_refl).
  unfold tstat in N. rewrite R in N. destruct (cpc c); cbn in N; try discriminate. reflexivity.
Qed.

(* nobody sends to a subscription whose Close has returned *)
Lemma no_push_done : forall st t s c it, Inv2 st -> WSV st -> nth_error (subs st) s = Some c -> cpc c = KDone ->
  pusher st t s it -> False.
Proof.
  intros st t s c it I [WA WB] Ec Hk P.
  assert (NS : forall n nd, nth_error (nodes st) n = Some nd -> In s (sinks nd) -> False).
  { intros n nd En Hin. apply cnt_In in Hin. pose proof (iK st I n nd s En) as K. unfold rem in K. rewrite Ec in K. unfold remaining in K. rewrite Hk in K. cbn in K. lia. }
  destruct P as [[k [e [n [r [_ [Ek [[Ep _]|[Ep _]]]]]]]]|[i [c0 [n [nd [lv [_ [Ec0 [Er [Es [En _]]]]]]]]]]].
  - destruct (iL st I k e n (s :: r) Ek Ep) as [nd [En [_ Hin]]]. eapply NS; [exact En|apply Hin; left; reflexivity].
  - assert (Vk : nth_error (xM st) k = Some (EWSend n (s :: r))) by (unfold xM; rewrite nth_error_map, Ek; cbn; rewrite Ep; reflexivity).
    pose proof (WB k n (s :: r) s Vk (or_introl eq_refl)) as Hw. destruct (WA s Hw) as [p [q [_ [Hq [_ Cq]]]]].
    unfold xC in Hq. rewrite nth_error_map, Ec in Hq. inversion Hq; subst q. rewrite Hk in Cq. discriminate.
  - rewrite Ec in Ec0. inversion Ec0; subst c0. destruct (iR st I s c i n Ec Er Es) as [nd' [En' [_ Hin]]]. eapply NS; eassumption.
Qed.

Definition R4T (s : nat) (hd : list Z) (b : list item) (pre : list label) : Prop :=
  forall p1, cut (lab_is_ret (TClose s)) pre = Some p1 ->
    (forall i v, nth_error hd i = Some v -> (o_nreq p1 s < o_nread pre s + i + 1)%nat -> v = -2) /\
    ((o_nreq p1 s < o_nreq pre s)%nat -> b = []).
Definition R4I (st : state) (pre : list label) : Prop :=
  forall s c, nth_error (subs st) s = Some c -> R4T s (hand c) (buf c) pre.

Definition counts_same (l : option label) (s : nat) : Prop :=
  match l with Some (LReq s') | Some (LRead s' _) => s' <> s | _ => True end.

Lemma counts_other : forall pre l s, counts_same l s ->
  o_nreq (pre ++ olab l) s = o_nreq pre s /\ o_nread (pre ++ olab l) s = o_nread pre s.
Proof.
  intros pre l s H. destruct l as [l|]; [|cbn; rewrite app_nil_r; auto]. cbn [olab]. rewrite nreq_app, nread_app.
  destruct l; cbn in H; try (split; lia); destruct (Nat.eqb_spec s s0); try (subst; contradiction); split; lia.
Qed.

(* a step that neither touches the channel of s nor is the return of Close(s) *)
Lemma R4T_frame : forall s hd b pre l, counts_same l s ->
  (match l with Some lab => lab_is_ret (TClose s) lab = false | None => True end) ->
  R4T s hd b pre -> R4T s hd b (pre ++ olab l).
Proof.
  intros s hd b pre l Hc Hr H p1 C. destruct (counts_other pre l s Hc) as [A B]. rewrite A, B.
  destruct l as [lab|]; [|cbn in C; rewrite app_nil_r in C; exact (H p1 C)].
  cbn [olab] in C. rewrite cut_app in C. destruct (cut (lab_is_ret (TClose s)) pre) as [p|] eqn:C0.
  - inversion C; subst. exact (H p1 C0).
  - rewrite Hr in C. discriminate.
Qed.

(* the return of Close(s): every request so far was made before it *)
Lemma R4T_new : forall s hd b pre code w, o_returned pre (TClose s) = false ->
  o_nreq pre s = (o_nread pre s + w + length hd)%nat ->
  R4T s hd b (pre ++ [LRet (TClose s) code]).
Proof.
  intros s hd b pre code w Hn Hw p1 C. rewrite cut_app in C.
  assert (X : cut (lab_is_ret (TClose s)) pre = None) by (apply cut_none; exact Hn). rewrite X in C.
  cbn in C. rewrite Nat.eqb_refl in C. inversion C; subst p1. rewrite nreq_app, nread_app. split.
  - intros i v Hi Hlt. assert (i < length hd)%nat by (apply nth_error_Some; congruence). lia.
  - intros Hlt. lia.
Qed.

(* at a quiescent state the channel of a subscription whose Close has returned is empty *)
Lemma done_quiet_empty : forall st s c, quiescent step thrs stim st = true -> loc4 c ->
  nth_error (subs st) s = Some c -> cpc c = KDone -> buf c = [].
Proof.
  intros st s c Q [Q1 [Q2 [Q3 [Q4 [Q5 [Q6 [Q7 [Q8 Q9]]]]]]]] Ec Hk.
  destruct (Nat.eq_dec (drain c) 3) as [D3|N3]; [exact (Q3 D3)|].
  assert (D0 : drain c <> 0%nat) by (apply Q2; congruence).
  destruct (styps c) as [tys|] eqn:Et; [|exfalso; apply N3, Q6; auto].
  assert (Cl : closed c = true) by (apply Q4; [congruence|auto]).
  assert (Dr : draining c = true).
  { unfold draining. destruct (drain c) as [|[|[|[|?]]]]; try reflexivity; try congruence; lia. }
  exfalso. destruct (buf c) as [|it r] eqn:Eb.
  - eapply (quiet_no_tau st (TDrain s)); [exact Q|]. cbn. unfold step_drain. rewrite Ec, Dr, Eb, Cl, orb_true_r. reflexivity.
  - eapply (quiet_no_tau st (TDrain s)); [exact Q|]. cbn. unfold step_drain. rewrite Ec, Dr, Eb. reflexivity.
Qed.

Lemma nth_error_snoc_inv : forall {A} (l : list A) x i v, nth_error (l ++ [x]) i = Some v ->
  nth_error l i = Some v \/ (i = length l /\ v = x).
Proof.
  intros A l x i v H. destruct (Nat.lt_ge_cases i (length l)) as [L|L].
  - rewrite nth_error_app1 in H by exact L. left. exact H.
  - rewrite nth_error_app2 in H by exact L. destruct (i - length l)%nat as [|k] eqn:E; cbn in H; [|destruct k; discriminate].
    inversion H; subst. right. split; [lia|reflexivity].
Qed.

Lemma R4T_ev : forall st t l s c c' pre, Obs st pre -> Inv2 st -> WSV st -> loc4 c -> nth_error (subs st) s = Some c ->
  cev st t l s c c' -> (l = Some (LReq s) -> quiescent step thrs stim st = true) ->
  R4T s (hand c) (buf c) pre -> R4T s (hand c') (buf c') (pre ++ olab l).
Proof.
  intros st t l s c c' pre O I W L4 Ec Ev Qh H p1 C.
  assert (NR : match l with Some lab => lab_is_ret (TClose s) lab = false | None => True end).
  { destruct Ev; subst l; try exact Logic.I; reflexivity. }
  assert (C0 : cut (lab_is_ret (TClose s)) pre = Some p1).
  { destruct l as [lab|]; [|cbn in C; rewrite app_nil_r in C; exact C]. cbn [olab] in C. rewrite cut_app in C.
    destruct (cut (lab_is_ret (TClose s)) pre); [exact C|]. rewrite NR in C. discriminate. }
  pose proof (close_returned_pc st pre s c p1 O Ec C0) as Hk. destruct (H p1 C0) as [Ha Hb].
  pose proof (obW _ _ O s (want c + length (hand c))%nat) as OW. unfold xW in OW. rewrite nth_error_map, Ec in OW. specialize (OW eq_refl).
  destruct Ev as [it Hl Hc Hr Hp Hw|it b w Ht Hl Hwn Hb' Hw|w Ht Hl Hwn Hb' Hc Hw|it b Ht Hl Hd Hb' Hw|Ht Hl Hd Hb' Hx Hw
                 |Ht Hl Hw|v r Ht Hl Hh' Hw|Ht Hl Hk0 Hp Hw|Ht Hl Hk0 Hk' Hw|Ht Hl Hk0 Hw]; try congruence;
    unfold cw in Hw; inversion Hw as [[B1 B2 B3 B4 B5 B6 B7]]; subst l; rewrite ?olab_none; cbn [olab]; rewrite ?B1, ?B7; rewrite ?nreq_app, ?nread_app, ?Nat.eqb_refl, ?Nat.add_0_r.
  - exfalso. eapply no_push_done; eassumption.
  - assert (Le : (o_nreq pre s <= o_nreq p1 s)%nat). { destruct (Nat.le_gt_cases (o_nreq pre s) (o_nreq p1 s)); [assumption|]. rewrite (Hb H0) in Hb'. discriminate. }
    split; [|intros X; lia]. intros i v Hi Hlt. apply nth_error_snoc_inv in Hi. destruct Hi as [Hi|[-> ->]]; [eapply Ha; eassumption|lia].
  - split; [|intros _; reflexivity]. intros i v Hi Hlt. apply nth_error_snoc_inv in Hi. destruct Hi as [Hi|[-> ->]]; [eapply Ha; eassumption|reflexivity].
  - assert (Le : (o_nreq pre s <= o_nreq p1 s)%nat). { destruct (Nat.le_gt_cases (o_nreq pre s) (o_nreq p1 s)); [assumption|]. rewrite (Hb H0) in Hb'. discriminate. }
    split; [exact Ha|intros X; lia].
  - split; [exact Ha|]. intros X. rewrite Hb'. reflexivity.
  - split; [exact Ha|]. intros _. eapply done_quiet_empty; [apply Qh; reflexivity|exact L4|exact Ec|exact Hk].
  - rewrite Hh' in Ha. split; [|exact Hb]. intros i v0 Hi Hlt. apply (Ha (S i) v0 Hi). lia.
Qed.

Lemma r4_step : forall st t l st' pre, TrOK st pre -> Inv2 st -> WSV st -> Forall loc4 (subs st) ->
  (forall lab, l = Some lab -> stim lab = true -> quiescent step thrs stim st = true) ->
  R4I st pre -> step st t = Some (l, st') -> R4I st' (pre ++ olab l).
Proof.
  intros st t l st' pre [O TS TC] I W L4 Qh H E s c' Ec'.
  assert (FR : forall c, nth_error (subs st) s = Some c -> cw c' = cw c -> counts_same l s ->
               (forall code, l = Some (LRet (TClose s) code) -> False) -> R4T s (hand c') (buf c') (pre ++ olab l)).
  { intros c Ec Y Cs NR. assert (Hh : hand c' = hand c /\ buf c' = buf c) by (unfold cw in Y; inversion Y; auto). destruct Hh as [-> ->].
    apply R4T_frame; [exact Cs| |apply H, Ec]. destruct l as [lab|]; [|exact Logic.I].
    destruct lab as [| t0 code| |]; try reflexivity. unfold lab_is_ret. destruct (thr_eqb (TClose s) t0) eqn:X; [|reflexivity].
    exfalso. destruct t0; cbn in X; try discriminate. apply Nat.eqb_eq in X. subst. eapply NR. reflexivity. }
  destruct (step_chan_ev _ _ _ _ E) as [[M Q]|[s0 [c0 [c0' [Ec0 [Ec0' [M Ev]]]]]]].
  - assert (X : nth_error (map cw (subs st')) s = nth_error (map cw (subs st)) s) by (rewrite M; reflexivity).
    rewrite !nth_error_map, Ec' in X. destruct (nth_error (subs st) s) as [c|] eqn:Ec; [|discriminate]. cbn in X. assert (Y : cw c' = cw c) by congruence.
    destruct l as [[t0|t0 code|s1|s1 v1]|] eqn:El; try contradiction; try (apply (FR c eq_refl Y); [exact Logic.I|intros code0 Z; discriminate]).
    destruct (thr_eqb (TClose s) t0) eqn:X0.
    + destruct t0; cbn in X0; try discriminate. apply Nat.eqb_eq in X0. subst s0.
      assert (Hh : hand c' = hand c /\ buf c' = buf c) by (unfold cw in Y; inversion Y; auto). destruct Hh as [-> ->]. cbn [olab].
      pose proof (label_status st pre t _ st' O E) as LS. cbn in LS. apply tstat_started in LS. destruct LS as [_ NR].
      pose proof (obW _ _ O s (want c + length (hand c))%nat) as OW. unfold xW in OW. rewrite nth_error_map, Ec in OW. specialize (OW eq_refl).
      eapply (R4T_new s (hand c) (buf c) pre code (want c)); [exact NR|lia].
    + apply (FR c eq_refl Y); [exact Logic.I|]. intros code0 Z. inversion Z; subst. cbn in X0. rewrite Nat.eqb_refl in X0. discriminate.
  - destruct (Nat.eq_dec s s0) as [->|N].
    + rewrite Ec0' in Ec'. inversion Ec'; subst c0'. eapply R4T_ev; [exact O|exact I|exact W|exact (Forall_nth_error _ _ _ _ L4 Ec0)|exact Ec0|exact Ev| |apply H, Ec0].
      intros Hl. apply (Qh (LReq s0) Hl). reflexivity.
    + assert (X : nth_error (map cw (subs st')) s = nth_error (upd (map cw (subs st)) s0 (cw c0')) s) by (rewrite M; reflexivity).
      rewrite nth_error_upd_neq in X by congruence. rewrite !nth_error_map, Ec' in X.
      destruct (nth_error (subs st) s) as [c|] eqn:Ec; [|discriminate]. cbn in X. assert (Y : cw c' = cw c) by congruence.
      apply (FR c eq_refl Y).
      * destruct Ev; subst l; try exact Logic.I; cbn; congruence.
      * intros code Z. destruct Ev; subst l; discriminate.
Qed.

Lemma r4_init : forall st, R4I st [].
Proof. intros st s c Ec p1 C. cbn in C. discriminate. Qed.

Lemma r4_cfg : forall c s1, cfg_wf c = true -> Disc c s1 -> R4I (St c s1) (Tr c s1).
Proof.
  intros c s1 W D. unfold St, Tr. apply (coupled_run R4I); [apply r4_init| |exact D].
  intros s0 t l st' D0 H E. destruct (reach_cfg c s0 W) as [G [_ [WS _]]].
  eapply r4_step; [apply (trok_cfg c s0 W)|apply G|exact WS|apply (loc4_cfg c s0 W)| |exact H|exact E].
  intros lab -> Hs. eapply disc_last; eassumption.
Qed.

Lemma rule4_ok : read_rule_ok 4.
Proof.
  intros c s1 t s v st' W D E Hv. destruct (read_step_inv _ _ _ _ _ E) as [cs [r [Ec [Eh _]]]]. fold (St c s1) in Ec.
  destruct (hand_witness c s1 s cs v W Ec ltac:(rewrite Eh; left; reflexivity) Hv) as [tag [k [e [_ [_ [_ [Ek [Ev [F L]]]]]]]]].
  eapply read_not; [exact F|]. do 3 right. left. split; [reflexivity|]. unfold c4, a_after_close. fold (Tr c s1).
  destruct (cut (lab_is_ret (TClose s)) (Tr c s1)) as [p1|] eqn:C; [|reflexivity].
  apply Nat.leb_gt. destruct (r4_cfg c s1 W D s cs Ec p1 C) as [Ha _].
  destruct (Nat.le_gt_cases (o_nreq p1 s) (o_nread (Tr c s1) s)) as [Le|Gt]; [|exact Gt].
  exfalso. apply Hv. apply (Ha 0%nat v); [rewrite Eh; reflexivity|lia].
Qed.

(* C15 — how the monitor's trace predicates (order of two labels, values read, return
   codes) change when one label is appended.  Pure list reasoning. *)
From Coq Require Import List Arith ZArith Bool Lia.
From Verif Require Import c15.Lts c15.Model c15.Spec c15.Proofs_Obs.
Import ListNotations.

Lemma cut_app : forall f pre l, cut f (pre ++ [l]) =
  match cut f pre with Some p => Some p | None => if f l then Some pre else None end.
Proof.
  induction pre as [|x r IH]; intros l; cbn.
  - destruct (f l); reflexivity.
  - destruct (f x); [reflexivity|]. rewrite IH. destruct (cut f r); [reflexivity|]. destruct (f l); reflexivity.
Qed.

Lemma cut_none : forall f pre, cut f pre = None <-> existsb f pre = false.
Proof.
  induction pre as [|x r IH]; cbn; [tauto|]. destruct (f x); cbn; [split; discriminate|].
  destruct (cut f r); [split; [discriminate|intros H; apply IH in H; discriminate]|]. split; intros; [apply IH; reflexivity|reflexivity].
Qed.

Lemma cut_prefix : forall f pre p, cut f pre = Some p -> exists x post, pre = p ++ x :: post /\ f x = true /\ existsb f p = false.
Proof.
  induction pre as [|x r IH]; intros p H; cbn in H; [discriminate|]. destruct (f x) eqn:E.
  - inversion H; subst. exists x, r. repeat split; auto.
  - destruct (cut f r) as [q|] eqn:C; [|discriminate]. inversion H; subst. destruct (IH q eq_refl) as [y [post [-> [Hy Hq]]]].
    exists y, post. cbn. rewrite E. repeat split; auto.
Qed.

(* before_ (some fa label before the first fb label) after one more label *)
Lemma before_app : forall pre l fa fb, before_ (pre ++ [l]) fa fb =
  if existsb fb pre then before_ pre fa fb else if fb l then existsb fa pre else false.
Proof.
  intros. unfold before_. rewrite cut_app. destruct (cut fb pre) as [p|] eqn:C.
  - assert (X : existsb fb pre = true).
    { destruct (existsb fb pre) eqn:Y; [reflexivity|]. apply cut_none in Y. congruence. }
    rewrite X. reflexivity.
  - apply cut_none in C. rewrite C. destruct (fb l); reflexivity.
Qed.

Lemma before_true : forall pre fa fb, before_ pre fa fb = true -> existsb fa pre = true /\ existsb fb pre = true.
Proof.
  intros pre fa fb H. unfold before_ in H. destruct (cut fb pre) as [p|] eqn:C; [|discriminate].
  destruct (cut_prefix _ _ _ C) as [x [post [-> [Hx _]]]]. rewrite !existsb_app. cbn. rewrite H, Hx. split; [reflexivity|apply orb_true_r].
Qed.

Lemma reads_d_app : forall pre l s, reads_d (pre ++ [l]) s =
  reads_d pre s ++ (match l with LRead s' v => if Nat.eqb s s' then [v] else [] | _ => [] end).
Proof.
  induction pre as [|x r IH]; intros l s.
  - cbn. destruct l; reflexivity.
  - cbn [app reads_d]. destruct x; rewrite ?IH; try reflexivity. destruct (Nat.eqb s s0); reflexivity.
Qed.

Lemma reads_d_length : forall pre s, length (reads_d pre s) = o_nread pre s.
Proof.
  induction pre as [|x r IH]; intros s; cbn; [reflexivity|]. unfold o_nread in *. cbn.
  destruct x; try apply IH. destruct (Nat.eqb s s0); cbn; rewrite IH; reflexivity.
Qed.

Lemma existsb_snoc : forall {A} (f : A -> bool) l x, existsb f (l ++ [x]) = existsb f l || f x.
Proof. intros. rewrite existsb_app. cbn. rewrite orb_false_r. reflexivity. Qed.

(* ---- the order predicates of the monitor, one label later ----------------------------- *)
Lemma lab_is_start_inv : forall t l, lab_is_start t l = true -> l = LStart t.
Proof.
  intros t l H. destruct l as [t'| | |]; cbn in H; try discriminate. f_equal.
  destruct t, t'; cbn in H; try discriminate; try (apply Nat.eqb_eq in H; subst; reflexivity).
  apply andb_true_iff in H. destruct H as [A B]. apply Nat.eqb_eq in A, B. subst. reflexivity.
Qed.

Lemma fresh_step : forall pre l s k, a_fresh (pre ++ olab l) s k = true ->
  a_fresh pre s k = true \/ (l = Some (LStart (TEmit k)) /\ o_started pre (TEmit k) = false /\ o_returned pre (TSub s) = true).
Proof.
  intros pre l s k H. destruct l as [l|]; [|cbn in H; rewrite app_nil_r in H; left; exact H]. cbn [olab] in H.
  unfold a_fresh in *. rewrite before_app in H. fold (o_started pre (TEmit k)) in H. destruct (o_started pre (TEmit k)) eqn:S; [left; exact H|].
  destruct (lab_is_start (TEmit k) l) eqn:L; [|discriminate]. right. apply lab_is_start_inv in L. subst l. auto.
Qed.

Lemma fresh_mono : forall pre l s k, a_fresh pre s k = true -> a_fresh (pre ++ olab l) s k = true.
Proof.
  intros pre l s k H. destruct l as [l|]; [|cbn; rewrite app_nil_r; exact H]. cbn [olab]. unfold a_fresh in *. rewrite before_app.
  destruct (before_true _ _ _ H) as [_ X]. rewrite X. exact H.
Qed.

Lemma fresh_returned : forall pre s k, a_fresh pre s k = true -> o_returned pre (TSub s) = true /\ o_started pre (TEmit k) = true.
Proof. intros pre s k H. apply before_true in H. exact H. Qed.

Lemma started_mono : forall pre l t, o_started pre t = true -> o_started (pre ++ olab l) t = true.
Proof. intros pre l t H. unfold o_started in *. rewrite existsb_app, H. reflexivity. Qed.
Lemma returned_mono : forall pre l t, o_returned pre t = true -> o_returned (pre ++ olab l) t = true.
Proof. intros pre l t H. unfold o_returned in *. rewrite existsb_app, H. reflexivity. Qed.

(* C15 — rule 6 of the monitor on model traces. *)
From Coq Require Import List Arith ZArith Bool Lia.
From Verif Require Import lib.Wire c15.Lts c15.Model c15.Spec c15.Proofs c15.Proofs_Chan c15.Proofs_Loc c15.Proofs_List c15.Proofs_Safe
  c15.Proofs_Init c15.Proofs_Once c15.Proofs_First c15.Proofs_Wild c15.Proofs_Thm c15.Proofs_Grow c15.Proofs_Live c15.Proofs_Pend c15.Proofs_Idx c15.Proofs_Dead c15.Proofs_Prog c15.Proofs_Valid c15.Proofs_WildOK
  c15.Proofs_Blk c15.Proofs_Obs c15.Proofs_Loc3 c15.Proofs_WSI c15.Proofs_TY c15.Proofs_Rule13 c15.Proofs_Reads c15.Proofs_Wire c15.Proofs_Disc c15.Proofs_Mon c15.Proofs_MonS
  c15.Proofs_Tr c15.Proofs_Cpl c15.Proofs_RInv c15.Proofs_RCtx c15.Proofs_Prom c15.Proofs_R3 c15.Proofs_CEv c15.Proofs_ChI c15.Proofs_R5 c15.Proofs_Loc4 c15.Proofs_R4
  c15.Proofs_RegA c15.Proofs_RegB c15.Proofs_RegW c15.Proofs_RegRun c15.Proofs_MD c15.Proofs_RF c15.Proofs_R9 c15.Proofs_R7 c15.Proofs_NodeEv c15.Proofs_Keep c15.Proofs_EmitPc c15.Proofs_Last c15.Proofs_Old.
Import ListNotations.
Local Open Scope Z_scope.

Lemma subseq_filter : forall {A} (f : A -> bool) a b, subseq a b -> subseq (filter f a) (filter f b).
Proof. intros A f a b H. induction H; cbn; [constructor|destruct (f x); [constructor|]; assumption|destruct (f x); [constructor|]; assumption]. Qed.
Lemma subseq_app_r : forall {A} (a b c : list A), subseq a b -> subseq a (b ++ c).
Proof. intros A a b c H. rewrite <- (app_nil_r a). apply subseq_app; [exact H|apply subseq_nil]. Qed.

(* in a duplicate-free list that starts with x, nothing of a subsequence precedes x *)
Lemma subseq_head_first : forall {A} (a1 a2 R : list A) x, subseq (a1 ++ x :: a2) (x :: R) -> NoDup (x :: R) -> a1 = [].
Proof.
  intros A a1 a2 R x H ND. destruct a1 as [|y a1]; [reflexivity|exfalso]. inversion ND as [|? ? Hn _]; subst.
  assert (Hx : In x (a1 ++ x :: a2)) by (apply in_or_app; right; left; reflexivity).
  cbn in H. inversion H; subst.
  - apply Hn. eapply subseq_in; [eassumption|]. right. exact Hx.
  - apply Hn. eapply subseq_in; eassumption.
Qed.

(* the node tag of a promised item is one of the nodes the subscription joined; items of the same event type carry the same tag *)
Lemma item_node : forall c s1 s cs tag v k e m, cfg_wf c = true -> nth_error (subs (St c s1)) s = Some cs -> styps cs <> None -> In (tag, v) (expd cs) ->
  nth_error (emits (St c s1)) k = Some e -> eev e = v -> nth_error (emitters (St c s1)) (eem e) = Some m ->
  mnode m = tag /\ mnew m = 4%nat /\ exists i nd tys, nth_error (snodes cs) i = Some tag /\ nth_error (nodes (St c s1)) tag = Some nd /\ styps cs = Some tys /\
    nth_error tys i = Some (mty m) /\ nty nd = mty m.
Proof.
  intros c s1 s cs tag v k e m W Ec Ht Hx Ek Ev Em. destruct (reach_cfg c s1 W) as [G [_ [_ TV]]]. destruct (TYV_TY _ TV) as [T1 [_ [_ [T4 _]]]].
  destruct (prom_cfg c s1 W) as [T _ _ _].
  assert (Vx : nth_error (pX (St c s1)) s = Some (styps cs, expd cs)) by (unfold pX; rewrite nth_error_map, Ec; reflexivity).
  destruct (T s _ _ tag v Vx Hx) as [k0 [j [p [A [_ Cj]]]]]. unfold pE in A. rewrite nth_error_map in A.
  destruct (nth_error (emits (St c s1)) k0) as [e0|] eqn:Ek0; [|discriminate]. inversion A as [[A1 A2 A3]].
  assert (k0 = k) by (eapply (Proofs_RCtx.ids_unique c s1); eauto; congruence). subst k0. rewrite Ek in Ek0. inversion Ek0; subst e0.
  destruct (styps cs) as [tys|] eqn:Et; [|congruence]. unfold vE in Cj. rewrite nth_error_map, <- A1, Em in Cj. cbn in Cj. inversion Cj as [[M4 Mn]]. subst tag.
  split; [reflexivity|]. split; [first [exact M4|reflexivity]|].
  assert (Hs : In (mnode m) (snodes cs)).
  { destruct (in_dec Nat.eq_dec (mnode m) (snodes cs)) as [X|X]; [exact X|exfalso].
    pose proof (Forall_nth_error _ _ _ _ (proj2 (full1_run (init_of c) s1 (init_initial c W))) Ec ltac:(congruence) (mnode m) X) as Z. fold (St c s1) in Z.
    assert (In (mnode m, v) (proj (mnode m) (expd cs))) by (apply filter_In; split; [exact Hx|apply Nat.eqb_refl]). rewrite Z in H. contradiction. }
  apply In_nth_error in Hs. destruct Hs as [i Hi].
  destruct (gV _ G) as [V1 _]. assert (Ln : (mnode m < length (nodes (St c s1)))%nat) by (apply (V1 _ m Em); lia).
  destruct (nth_error (nodes (St c s1)) (mnode m)) as [nd|] eqn:En; [|apply nth_error_None in En; lia].
  exists i, nd, tys. pose proof (T1 _ m nd Em ltac:(lia) En) as Ty. repeat split; auto. rewrite <- Ty. eapply T4; eassumption.
Qed.

Lemma ty_eqb_true : forall a b, ty_eqb a b = true -> exists t, a = Some t /\ b = Some t.
Proof. intros [x|] [y|] H; cbn in H; try discriminate. apply Nat.eqb_eq in H. subst. eauto. Qed.

Lemma dm_ty_emit : forall c s1 k e m, nth_error (emits (St c s1)) k = Some e -> nth_error (emitters (St c s1)) (eem e) = Some m ->
  dm_ty (dcfg_of_cfg c) k = Some (mty m).
Proof. intros c s1 k e m Ek Em. rewrite (d_state c s1), dm_ty_state. fold (St c s1). rewrite Ek, Em. reflexivity. Qed.

Lemma emitter_of_emit : forall c s1 k e, cfg_wf c = true -> nth_error (emits (St c s1)) k = Some e -> epc e <> E0 ->
  exists m, nth_error (emitters (St c s1)) (eem e) = Some m.
Proof.
  intros c s1 k e W Ek Hp. destruct (reach_cfg c s1 W) as [G _]. pose proof (gE _ G k e Ek Hp) as L.
  destruct (nth_error (emitters (St c s1)) (eem e)) as [m|] eqn:Em; [eauto|apply nth_error_None in Em; lia].
Qed.

Lemma rule6_ok : read_rule_ok 6.
Proof.
  intros c s1 t s v st' W D E Hv. destruct (read_step_inv _ _ _ _ _ E) as [cs [r [Ec [Eh _]]]]. fold (St c s1) in Ec.
  destruct (hand_witness c s1 s cs v W Ec ltac:(rewrite Eh; left; reflexivity) Hv) as [tag [k [e [Hr [Hh [Hx [Ek [Ev [F L]]]]]]]]].
  eapply read_not; [exact F|]. do 5 right. left. split; [reflexivity|]. unfold c6. fold (Tr c s1).
  destruct (a_old (Tr c s1) s k) eqn:Ho; [|reflexivity]. cbn [andb].
  rewrite <- Ev in Hx, Hr, Hh. destruct (old_cfg c s1 W s cs tag k e Ec Ek Hx) as [Hs Hf].
  destruct (Hf Ho) as [[tys Et] [[rest O2] [[nd [Hn O3]] O4]]].
  assert (P0 : epc e <> E0) by (intros X; rewrite X in L; exact L).
  destruct (emitter_of_emit c s1 k e W Ek P0) as [m Em].
  destruct (item_node c s1 s cs tag (eev e) k e m W Ec ltac:(congruence) Hx Ek eq_refl Em) as [Mn [M4 [i [nd1 [tys1 [Hi [Hn1 [Et1 [Hti Tyn]]]]]]]]].
  rewrite Hn in Hn1. inversion Hn1; subst nd1. rewrite Et in Et1. inversion Et1; subst tys1.
  pose proof (dm_ty_emit c s1 k e m Ek Em) as Dk.
  destruct (reach_cfg c s1 W) as [G [_ [_ TV]]]. destruct (TYV_TY _ TV) as [T1 [_ [_ [T4 T5]]]]. destruct (trok_cfg c s1 W) as [O TS TC].
  (* A: not a wildcard subscription *)
  assert (A : dm_wild (dcfg_of_cfg c) s = false) by (rewrite (d_state c s1); fold (St c s1); rewrite (dm_wild_state _ _ s cs Ec), Et; reflexivity).
  rewrite A. cbn [orb].
  (* B: a stateful emitter of the type has been created *)
  assert (B : existsb (fun j => match nth_error (d_em (dcfg_of_cfg c)) j with
                                | Some (t0, true) => ty_eqb (Some t0) (dm_ty (dcfg_of_cfg c) k) && a_started (Tr c s1) (TEmNew j) | _ => false end)
                      (seq 0 (length (d_em (dcfg_of_cfg c)))) = true).
  { destruct (kp2 _ (kp_cfg c s1 W) tag nd Hn O3) as [j [mj [Ej [Ms [Mnj M3]]]]].
    assert (Dj : nth_error (d_em (dcfg_of_cfg c)) j = Some (mty mj, true)).
    { rewrite (d_state c s1), dm_em_state. fold (St c s1). rewrite Ej. cbn. unfold fE. rewrite Ms. reflexivity. }
    apply existsb_exists. exists j. split; [apply in_seq; split; [lia|]; cbn [Nat.add]; apply nth_error_Some; rewrite Dj; discriminate|]. rewrite Dj, Dk.
    pose proof (T1 _ mj nd Ej ltac:(lia) ltac:(rewrite Mnj; exact Hn)) as Tyj.
    apply andb_true_iff. split; [cbn; apply Nat.eqb_eq; congruence|].
    pose proof (obE _ _ O j (mnew mj) (mnode mj) (mcl mj)) as OE. unfold wE in OE. rewrite nth_error_map in OE. fold (St c s1) in OE. rewrite Ej in OE.
    destruct (OE eq_refl) as [OE1 _]. unfold tstat in OE1. fold (Tr c s1) in OE1. unfold a_started.
    destruct (o_returned (Tr c s1) (TEmNew j)) eqn:R; [apply TS, R|]. destruct (o_started (Tr c s1) (TEmNew j)); [reflexivity|].
    destruct (mnew mj) as [|[|[|[|?]]]]; cbn in OE1; try discriminate; lia. }
  rewrite B. cbn [negb orb].
  (* D: no later Emit of the type had returned before Subscribe started *)
  assert (Dd : existsb (fun k2 => ty_eqb (dm_ty (dcfg_of_cfg c) k2) (dm_ty (dcfg_of_cfg c) k) && a_ok (Tr c s1) k2 && a_rbs (Tr c s1) k k2 && a_old (Tr c s1) s k2)
                       (dm_emits (dcfg_of_cfg c)) = false).
  { apply not_true_is_false. intros X. apply existsb_exists in X. destruct X as [k2 [Hk2 X]].
    repeat (apply andb_true_iff in X; destruct X as [X ?]). rename H into Hold2, H0 into Hrbs, H1 into Hok2.
    rewrite (d_state c s1), dm_emits_state in Hk2. apply in_seq in Hk2. fold (St c s1) in Hk2.
    destruct (nth_error (emits (St c s1)) k2) as [e2|] eqn:Ek2; [|apply nth_error_None in Ek2; lia].
    pose proof (ok_done c s1 k2 e2 W Ek2 Hok2) as Ed2. destruct (emitter_of_emit c s1 k2 e2 W Ek2 ltac:(congruence)) as [m2 Em2].
    rewrite (dm_ty_emit c s1 k2 e2 m2 Ek2 Em2), Dk in X. cbn in X. apply Nat.eqb_eq in X.
    exact (O4 k2 e2 m m2 Ek2 Em Em2 X Hok2 Hrbs Hold2). }
  rewrite Dd, orb_false_r.
  (* C: no event of the type was read before *)
  apply not_true_is_false. intros X. unfold a_read, a_reads in X. apply existsb_exists in X. destruct X as [v' [Hv' X]].
  destruct (ty_eqb_true _ _ X) as [ty [X1 X2]]. rewrite Dk in X2. inversion X2; subst ty. clear X2.
  unfold dm_ev_ty in X1. destruct (dm_find (dcfg_of_cfg c) v') as [k'|] eqn:F'; [|discriminate].
  rewrite (d_state c s1) in F'. destruct (dm_find_some _ _ _ _ F') as [e' [Ek' Ev']]. fold (St c s1) in Ek'.
  assert (N2 : nm2 v' = true). { pose proof (eev_nonneg c s1 k' e' W Ek'). unfold nm2. apply negb_true_iff, Z.eqb_neq. lia. }
  assert (N1 : nm2 (eev e) = true) by (unfold nm2; apply negb_true_iff, Z.eqb_neq; congruence).
  destruct (chani_cfg c s1 W s cs Ec) as [[taken [Hhist Hsub]] RD _ _]. unfold cw in RD. cbv beta iota in RD. rewrite Eh, <- Ev in RD.
  rewrite filter_app in RD. cbn [filter] in RD. rewrite N1 in RD. symmetry in RD. apply map_eq_app in RD. destruct RD as [r1 [r2' [Er [M1 M2]]]].
  destruct r2' as [|[t0 v0] r2]; [discriminate|]. cbn in M2. inversion M2 as [[Ev0 M3]]. subst v0.
  (* the received item with this id is the promised one *)
  assert (T0 : t0 = tag).
  { pose proof (recv_ids_nodup c s1 s cs W Ec) as ND. rewrite map_app in ND. apply NoDup_app_l in ND.
    assert (In (t0, eev e) (recv cs)) by (rewrite Er; apply in_or_app; right; left; reflexivity).
    assert (Q : (t0, eev e) = (tag, eev e)) by (eapply (NoDup_map_inv_inj snd (recv cs)); eauto). inversion Q. reflexivity. }
  subst t0.
  (* the earlier value of the same type went through the same node *)
  assert (Hin1 : In v' (map snd r1)) by (rewrite M1; apply filter_In; split; [exact Hv'|exact N2]).
  apply in_map_iff in Hin1. destruct Hin1 as [[t' v1] [Ev1 Hin1]]. cbn in Ev1. subst v1.
  assert (Hr' : In (t', v') (recv cs)) by (rewrite Er; apply in_or_app; left; exact Hin1).
  destruct (prov_run _ s1 (cfg_wf_init c W)) as [_ FH]. destruct (Forall_nth_error _ _ _ _ FH Ec) as [R1 _].
  pose proof (hist_in_expd _ s1 s cs t' v' (init_initial c W) Ec (R1 _ Hr')) as Hx'.
  pose proof (hist_locked c s1 s cs t' v' k' e' W Ec (R1 _ Hr') Ek' Ev') as L'.
  assert (P0' : epc e' <> E0) by (intros Y; rewrite Y in L'; exact L').
  destruct (emitter_of_emit c s1 k' e' W Ek' P0') as [m' Em'].
  destruct (item_node c s1 s cs t' v' k' e' m' W Ec ltac:(congruence) Hx' Ek' Ev' Em') as [Mn' [_ [i' [nd' [tys' [Hi' [_ [Et' [Hti' _]]]]]]]]].
  rewrite Et in Et'. inversion Et'; subst tys'.
  rewrite (dm_ty_emit c s1 k' e' m' Ek' Em') in X1. inversion X1 as [Tq].
  assert (i' = i). { eapply (proj1 (NoDup_nth_error tys) (T5 s cs tys Ec Et) i' i); [apply nth_error_Some; congruence|congruence]. }
  subst i'. assert (Tg : t' = tag) by congruence.
  (* order: the promised item is the first of its node, so nothing of that node precedes it *)
  pose proof (exactly_once_in_order_l (init_of c) s1 s cs tag (init_initial c W) Ec ltac:(congruence)) as ON. fold (St c s1) in ON.
  rewrite O2, Hhist, proj_app in ON.
  assert (NDL : NoDup ((tag, eev e) :: rest)).
  { rewrite <- O2. apply NoDup_filter. destruct (prom_cfg c s1 W) as [_ _ U _]. eapply NoDup_of_map. apply (U s (styps cs) (expd cs)).
    unfold pX. rewrite nth_error_map, Ec. reflexivity. }
  assert (SS : subseq (proj tag (recv cs)) ((tag, eev e) :: rest)).
  { rewrite <- ON, <- app_assoc. apply subseq_app_r. apply subseq_filter, Hsub. }
  rewrite Er, proj_app in SS. cbn [proj filter fst] in SS. rewrite Nat.eqb_refl in SS.
  pose proof (subseq_head_first _ _ _ _ SS NDL) as Z.
  rewrite Tg in Hin1. assert (In (tag, v') (proj tag r1)) by (apply filter_In; split; [exact Hin1|apply Nat.eqb_refl]). rewrite Z in H. contradiction.
Qed.

(* C15 — channel integrity: nothing is ever discarded.  Everything sent into
   a subscription's channel (ghost [hist]) is still buffered or was taken
   from the head by a receiver, in FIFO order; until Close starts the only
   receiver is the consumer, so hist = recv ++ buf. *)
From Coq Require Import List Arith ZArith Bool Lia.
From Verif Require Import c15.Lts c15.Model.
Import ListNotations.

Definition chan_ok (c : sub) : Prop :=
  exists pre, hist c = pre ++ buf c /\ (drain c = 0 -> pre = recv c).

Lemma Forall_upd : forall {A} (P : A -> Prop) l i x,
  Forall P l -> (forall y, nth_error l i = Some y -> P y -> P x) -> Forall P (upd l i x).
Proof.
  intros A P l. induction l as [|a l IH]; intros i x H Hx; cbn; [destruct i; constructor|].
  inversion H; subst. destruct i; cbn.
  - constructor; [apply (Hx a eq_refl); assumption|assumption].
  - constructor; [assumption|]. apply IH; [assumption|]. intros y Hy. apply Hx. exact Hy.
Qed.

Lemma Forall_nth_error : forall {A} (P : A -> Prop) l i x, Forall P l -> nth_error l i = Some x -> P x.
Proof. intros A P l i x H E. rewrite Forall_forall in H. apply H. eapply nth_error_In, E. Qed.

Lemma expect_all_ok : forall l tg it i, Forall chan_ok l -> Forall chan_ok (expect_all l tg it i).
Proof.
  induction l as [|c l IH]; intros tg it i H; cbn; [constructor|]. inversion H; subst.
  constructor; [|apply IH; assumption]. exact H2.
Qed.

Lemma push_ok : forall c it, chan_ok c -> chan_ok (push c it).
Proof. intros c it [pre [H1 H2]]. exists pre. cbn. split; [rewrite H1, app_assoc; reflexivity|exact H2]. Qed.

Lemma send_ok : forall st s it st', Forall chan_ok (subs st) -> send st s it = Some st' -> Forall chan_ok (subs st').
Proof.
  intros st s it st' H E. unfold send in E. destruct (nth_error (subs st) s) as [c|] eqn:Ec; [|discriminate].
  destruct (closed c). { inversion E; subst. exact H. }
  destruct (room c); [|discriminate]. inversion E; subst. cbn.
  apply Forall_upd; [exact H|]. intros y Hy Py. rewrite Ec in Hy. inversion Hy; subst. apply push_ok, Py.
Qed.

Lemma try_drop_subs : forall st ty st', try_drop st ty = Some st' -> subs st' = subs st.
Proof.
  intros st ty st' E. unfold try_drop in E.
  repeat match type of E with context[match ?x with _ => _ end] => destruct x end;
    inversion E; reflexivity.
Qed.

Lemma with_node_subs : forall st ty st1 n, with_node st ty = Some (st1, n) -> subs st1 = subs st.
Proof.
  intros st ty st1 n E. unfold with_node in E. destruct (lookup st ty) as [sl m] eqn:El.
  destruct (nth_error (nodes sl) m); inversion E; subst. cbn.
  unfold lookup in El. destruct (nth_error (bmap st) ty) as [[k|]|]; inversion El; reflexivity.
Qed.

Lemma lookup_subs : forall st ty, subs (fst (lookup st ty)) = subs st.
Proof. intros st ty. unfold lookup. destruct (nth_error (bmap st) ty) as [[n|]|]; reflexivity. Qed.

Ltac dmatch E :=
  repeat match type of E with
         | context[match ?x with _ => _ end] => let Q := fresh "Q" in destruct x eqn:Q
         | context[if ?x then _ else _] => let Q := fresh "Q" in destruct x eqn:Q
         end.

(* the new element differs from the old one only in control fields *)
Ltac same_sub Ec :=
  let y := fresh in let Hy := fresh in let Py := fresh in
  intros y Hy Py; rewrite Ec in Hy; inversion Hy; subst; exact Py.

Lemma option_map_Some : forall {A B} (f : A -> B) o y, option_map f o = Some y -> exists x, o = Some x /\ y = f x.
Proof. intros A B f [x|] y H; cbn in H; inversion H. exists x. split; reflexivity. Qed.

Lemma otau_Some : forall o l st', otau o = Some (l, st') -> o = Some st' /\ l = None.
Proof. intros [x|] l st' H; cbn in H; inversion H. split; reflexivity. Qed.

Lemma emit_chan : forall st k l st', Forall chan_ok (subs st) -> step_emit st k = Some (l, st') -> Forall chan_ok (subs st').
Proof.
  intros st k l st' H E. unfold step_emit in E.
  destruct (nth_error (emits st) k) as [e|]; [|discriminate].
  destruct (nth_error (emitters st) (eem e)) as [m|]; [|discriminate].
  destruct (epc e) as [| | |n todo|n|n|n todo|c|].
  - destruct (Nat.eqb (mnew m) 4); inversion E; subst; exact H.
  - inversion E; subst; exact H.
  - destruct (nth_error (nodes st) (mnode m)) as [nd|]; [|discriminate].
    destruct (holder nd); [discriminate|]. inversion E; subst. cbn. apply expect_all_ok. exact H.
  - destruct todo as [|s r].
    + destruct (nth_error (nodes st) n); inversion E; subst; exact H.
    + apply otau_Some in E. destruct E as [E _]. apply option_map_Some in E. destruct E as [x [E ->]].
      cbn. eapply send_ok; eassumption.
  - inversion E; subst; exact H.
  - destruct (wpend (wild st)); [discriminate|]. inversion E; subst. cbn. apply expect_all_ok. exact H.
  - destruct todo as [|s r].
    + inversion E; subst; exact H.
    + apply otau_Some in E. destruct E as [E _]. apply option_map_Some in E. destruct E as [x [E ->]].
      cbn. eapply send_ok; eassumption.
  - inversion E; subst; exact H.
  - discriminate.
Qed.

Lemma emnew_chan : forall st j l st', Forall chan_ok (subs st) -> step_emnew st j = Some (l, st') -> Forall chan_ok (subs st').
Proof.
  intros st j l st' H E. unfold step_emnew in E.
  destruct (nth_error (emitters st) j) as [m|]; [|discriminate].
  destruct (mnew m) as [|[|[|[|?]]]].
  - inversion E; subst; exact H.
  - destruct (with_node st (mty m)) as [[st1 n]|] eqn:Ew; [|discriminate]. inversion E; subst. cbn.
    rewrite (with_node_subs _ _ _ _ Ew). exact H.
  - destruct (nth_error (nodes st) (mnode m)) as [nd|]; [|discriminate].
    destruct (holder nd); [discriminate|]. inversion E; subst. exact H.
  - inversion E; subst; exact H.
  - discriminate.
Qed.

Lemma emclose_chan : forall st j l st', Forall chan_ok (subs st) -> step_emclose st j = Some (l, st') -> Forall chan_ok (subs st').
Proof.
  intros st j l st' H E. unfold step_emclose in E.
  destruct (nth_error (emitters st) j) as [m|]; [|discriminate].
  destruct (mcl m).
  - destruct (Nat.eqb (mnew m) 4); inversion E; subst; exact H.
  - destruct (mclosed m); inversion E; subst; exact H.
  - destruct (nth_error (nodes st) (mnode m)); inversion E; subst; exact H.
  - inversion E; subst; exact H.
  - apply otau_Some in E. destruct E as [E _]. apply option_map_Some in E. destruct E as [x [E ->]].
    cbn. rewrite (try_drop_subs _ _ _ E). exact H.
  - inversion E; subst; exact H.
  - discriminate.
Qed.

Lemma sub_chan : forall st s l st', Forall chan_ok (subs st) -> step_sub st s = Some (l, st') -> Forall chan_ok (subs st').
Proof.
  intros st s l st' H E. unfold step_sub in E.
  destruct (nth_error (subs st) s) as [c|] eqn:Ec; [|discriminate].
  destruct (spc c) eqn:Ep.
  - destruct (styps c); inversion E; subst; cbn; (apply Forall_upd; [exact H|same_sub Ec]).
  - destruct (styps c) as [tys|]; [|discriminate]. destruct (nth_error tys i) as [ty|]; [|discriminate].
    destruct (with_node st ty) as [[st1 n]|] eqn:Ew; [|discriminate]. inversion E; subst. cbn.
    rewrite (with_node_subs _ _ _ _ Ew). apply Forall_upd; [exact H|same_sub Ec].
  - destruct (styps c) as [tys|]; [|discriminate].
    destruct (nth_error (nodes st) n) as [nd|]; [|discriminate].
    destruct (holder nd); [discriminate|]. inversion E; subst. cbn.
    apply Forall_upd; [exact H|]. destruct (keep nd); [destruct (nlast nd)|]; same_sub Ec.
  - inversion E; subst; cbn; (apply Forall_upd; [exact H|same_sub Ec]).
  - destruct (wpend (wild st)); [discriminate|]. inversion E; subst; cbn; (apply Forall_upd; [exact H|same_sub Ec]).
  - destruct (Nat.eqb (rdrs (wild st)) 0); [|discriminate]. inversion E; subst; cbn; (apply Forall_upd; [exact H|same_sub Ec]).
  - inversion E; subst; cbn; (apply Forall_upd; [exact H|same_sub Ec]).
  - destruct (styps c); discriminate.
Qed.

Lemma replay_chan : forall st s i l st', Forall chan_ok (subs st) -> step_replay st s i = Some (l, st') -> Forall chan_ok (subs st').
Proof.
  intros st s i l st' H E. unfold step_replay in E.
  destruct (nth_error (subs st) s) as [c|] eqn:Ec; [|discriminate].
  destruct (nth_error (rpend c) i) as [[|]|]; try discriminate.
  destruct (nth_error (snodes c) i) as [n|]; [|discriminate].
  destruct (nth_error (nodes st) n) as [nd|]; [|discriminate].
  assert (Hfin : forall st0, Forall chan_ok (subs st0) ->
     Forall chan_ok (subs (match nth_error (subs st0) s with
                           | Some c' => set_node (set_sub st0 s (c_rpend c' (upd (rpend c') i false))) n (n_holder nd None)
                           | None => st0 end))).
  { intros st0 H0. destruct (nth_error (subs st0) s) as [c'|] eqn:Ec'; [|exact H0]. cbn.
    apply Forall_upd; [exact H0|same_sub Ec']. }
  destruct (keep nd); [destruct (nlast nd) as [lv|]|].
  - apply otau_Some in E. destruct E as [E _]. apply option_map_Some in E. destruct E as [x [E ->]].
    apply Hfin. eapply send_ok; eassumption.
  - inversion E; subst. cbn. apply Forall_upd; [exact H|same_sub Ec].
  - inversion E; subst. cbn. apply Forall_upd; [exact H|same_sub Ec].
Qed.

Lemma close_chan : forall st s l st', Forall chan_ok (subs st) -> step_close st s = Some (l, st') -> Forall chan_ok (subs st').
Proof.
  intros st s l st' H E. unfold step_close in E.
  destruct (nth_error (subs st) s) as [c|] eqn:Ec; [|discriminate].
  assert (Hd : forall d p, d <> 0 -> Forall chan_ok (upd (subs st) s (c_cpc (c_drain c d) p))).
  { intros d p Hd. apply Forall_upd; [exact H|]. intros y Hy Py. rewrite Ec in Hy. inversion Hy; subst.
    destruct Py as [pre [P1 P2]]. exists pre. cbn. split; [exact P1|intros; contradiction]. }
  destruct (cpc c).
  - destruct (spc c); try discriminate. inversion E; subst. cbn. apply Hd. discriminate.
  - destruct (nth_error (snodes c) i) as [n|]; [|discriminate].
    destruct (nth_error (nodes st) n) as [nd|]; [|discriminate].
    destruct (holder nd); [discriminate|]. inversion E; subst. cbn. apply Forall_upd; [exact H|same_sub Ec].
  - inversion E; subst. cbn. apply Forall_upd; [exact H|same_sub Ec].
  - destruct (nth_error (snodes c) i) as [n|]; [|discriminate].
    destruct (nth_error (nodes st) n) as [nd|]; [|discriminate].
    apply otau_Some in E. destruct E as [E _]. apply option_map_Some in E. destruct E as [x [E ->]].
    cbn. rewrite (try_drop_subs _ _ _ E). apply Forall_upd; [exact H|same_sub Ec].
  - inversion E; subst. cbn. apply Forall_upd; [exact H|same_sub Ec].
  - inversion E; subst. cbn. apply Forall_upd; [exact H|same_sub Ec].
  - destruct (wpend (wild st)); [discriminate|]. inversion E; subst. cbn. apply Forall_upd; [exact H|same_sub Ec].
  - destruct (Nat.eqb (rdrs (wild st)) 0); [|discriminate]. inversion E; subst. cbn. apply Forall_upd; [exact H|same_sub Ec].
  - inversion E; subst. cbn. destruct (Nat.eqb (drain c) 1) eqn:Ed.
    + apply Hd. discriminate.
    + apply Forall_upd; [exact H|same_sub Ec].
  - destruct (Nat.eqb (drain c) 3); [|discriminate]. inversion E; subst. cbn. apply Forall_upd; [exact H|same_sub Ec].
  - inversion E; subst. cbn. apply Forall_upd; [exact H|same_sub Ec].
  - discriminate.
Qed.

Lemma draining_nz : forall c, draining c = true -> drain c <> 0.
Proof. intros c H E. unfold draining in H. rewrite E in H. discriminate. Qed.

Lemma drain_chan : forall st s l st', Forall chan_ok (subs st) -> step_drain st s = Some (l, st') -> Forall chan_ok (subs st').
Proof.
  intros st s l st' H E. unfold step_drain in E.
  destruct (nth_error (subs st) s) as [c|] eqn:Ec; [|discriminate].
  destruct (draining c) eqn:Ed; [|discriminate]. apply draining_nz in Ed.
  destruct (buf c) as [|it r] eqn:Eb.
  - destruct (Nat.eqb (drain c) 2 || closed c); [|discriminate]. inversion E; subst. cbn.
    apply Forall_upd; [exact H|]. intros y Hy Py. rewrite Ec in Hy. inversion Hy; subst.
    destruct Py as [pre [P1 P2]]. exists pre. cbn. split; [exact P1|discriminate].
  - inversion E; subst. cbn. apply Forall_upd; [exact H|]. intros y Hy Py. rewrite Ec in Hy. inversion Hy; subst.
    destruct Py as [pre [P1 P2]]. exists (pre ++ [it]). cbn. rewrite Eb in P1.
    split; [rewrite P1, <- app_assoc; reflexivity|intros; contradiction].
Qed.

Lemma req_chan : forall st s l st', Forall chan_ok (subs st) -> step_req st s = Some (l, st') -> Forall chan_ok (subs st').
Proof.
  intros st s l st' H E. unfold step_req in E.
  destruct (nth_error (subs st) s) as [c|] eqn:Ec; [|discriminate]. inversion E; subst. cbn.
  apply Forall_upd; [exact H|same_sub Ec].
Qed.

Lemma recv_chan : forall st s l st', Forall chan_ok (subs st) -> step_recv st s = Some (l, st') -> Forall chan_ok (subs st').
Proof.
  intros st s l st' H E. unfold step_recv in E.
  destruct (nth_error (subs st) s) as [c|] eqn:Ec; [|discriminate].
  destruct (want c) as [|w']; [discriminate|].
  destruct (buf c) as [|it r] eqn:Eb.
  - destruct (closed c) eqn:Ecl; [|discriminate]. inversion E; subst. cbn.
    apply Forall_upd; [exact H|]. intros y Hy Py. rewrite Ec in Hy. inversion Hy; subst.
    destruct Py as [pre [P1 P2]]. exists pre. cbn. rewrite Eb in P1. split; [exact P1|exact P2].
  - inversion E; subst. cbn. apply Forall_upd; [exact H|]. intros y Hy Py. rewrite Ec in Hy. inversion Hy; subst.
    destruct Py as [pre [P1 P2]]. exists (pre ++ [it]). cbn. rewrite Eb in P1.
    split; [rewrite P1, <- app_assoc; reflexivity|]. intros Hd. rewrite (P2 Hd). reflexivity.
Qed.

Lemma read_chan : forall st s l st', Forall chan_ok (subs st) -> step_read st s = Some (l, st') -> Forall chan_ok (subs st').
Proof.
  intros st s l st' H E. unfold step_read in E.
  destruct (nth_error (subs st) s) as [c|] eqn:Ec; [|discriminate].
  destruct (hand c); [discriminate|]. inversion E; subst. cbn. apply Forall_upd; [exact H|same_sub Ec].
Qed.

Lemma step_chan : forall st t l st', Forall chan_ok (subs st) -> step st t = Some (l, st') -> Forall chan_ok (subs st').
Proof.
  intros st t l st' H E. destruct t; cbn in E;
    eauto using emnew_chan, emclose_chan, emit_chan, sub_chan, replay_chan, close_chan, drain_chan, req_chan, recv_chan, read_chan.
Qed.

(* for EVERY schedule *)
Lemma chan_integrity : forall st sched, Forall chan_ok (subs st) -> Forall chan_ok (subs (run step st sched)).
Proof.
  intros st sched H. apply (invariant_run _ _ _ step (fun s => Forall chan_ok (subs s))); [|exact H].
  intros s t l s' Hs E. eapply step_chan; eassumption.
Qed.

(* C15 — wire format, conformance (is the recorded label trace a trace of the
   LTS of Model.v?) and the property monitor (judges the recorded observations
   by the property text alone; does not use Model.v's step functions).
   No proofs here.

   One case = one line of integers:
     ntypes nE nS nK
     nE x (type stateful)                       emitters (stateful: 0/1)
     nS x (wild cap ntys ty_1..ty_ntys)         subscriptions (wild: 0 typed, 1 wildcard,
                                                >= 2 a REJECTED Subscribe call: wild = 2 + 2*pos + kind, the call
                                                passes the listed (valid) types with one invalid entry inserted at
                                                index pos (0..ntys); kind 0 = a non-pointer value, 1 = an untyped nil.
                                                It must return an error (label 1 3 s 1; for the nil entry the
                                                nil-dereference panic raised in the CALLER by the validation loop
                                                counts as the rejection) and leave no trace on the bus; no receive
                                                and no Close is ever issued for it)
     nK x (emitter eventid)                     Emit calls; event ids are distinct, >= 0
     nL
     nL x (kind a b v)                          label trace in log order
   labels:  0 a b 0  start of operation (a = 0 Emitter(), 1 Emitter.Close, 2 Emit, 3 Subscribe,
                     4 Subscription.Close; b = index of the emitter / emit call / subscription)
            1 a b v  return of that operation, v = 0 ok, 1 error
            2 s 0 0  the consumer of subscription s starts a receive on Out()
            3 s 0 v  that receive completed: v = event id, or -2 = channel closed
            4 _ _ _  a panic was recovered in some goroutine
            5 0 0 0  end of run (the harness waited for quiescence)
   Labels 0, 2 and 5 are written by the harness main goroutine after
   synctest.Wait(), i.e. when every other goroutine is durably blocked. *)
From Coq Require Import List Arith ZArith Bool.
From Verif Require Import lib.Wire c15.Lts c15.Model.
Import ListNotations.
Local Open Scope Z_scope.

Definition wl := (Z * Z * Z * Z)%type.
Record cfg := mkCfg { c_ntypes : Z; c_emitters : list (Z * Z); c_subs : list (Z * Z * list Z);
                      c_emits : list (Z * Z) }.

(* ---- decoding --------------------------------------------------------------- *)
Fixpoint take_pairs (n : nat) (l : list Z) : option (list (Z * Z) * list Z) :=
  match n with
  | O => Some ([], l)
  | S n' => match l with
            | a :: b :: r => match take_pairs n' r with Some (ps, r') => Some ((a, b) :: ps, r') | None => None end
            | _ => None end
  end.

Fixpoint take_subs (n : nat) (l : list Z) : option (list (Z * Z * list Z) * list Z) :=
  match n with
  | O => Some ([], l)
  | S n' => match l with
            | w :: c :: k :: r =>
                if Z.ltb k 0 || Z.ltb (zlen r) k then None else
                match take_subs n' (zdrop k r) with
                | Some (ss, r') => Some ((w, c, ztake k r) :: ss, r') | None => None end
            | _ => None end
  end.

Fixpoint take_labels (n : nat) (l : list Z) : option (list wl) :=
  match n with
  | O => match l with [] => Some [] | _ => None end
  | S n' => match l with
            | k :: a :: b :: v :: r => match take_labels n' r with Some ls => Some ((k, a, b, v) :: ls) | None => None end
            | _ => None end
  end.

Definition nonneg (z : Z) : bool := Z.leb 0 z.

Definition decode (l : list Z) : option (cfg * list wl) :=
  match l with
  | nt :: ne :: ns :: nk :: r =>
      if nonneg nt && nonneg ne && nonneg ns && nonneg nk then
      match take_pairs (Z.to_nat ne) r with
      | Some (ems, r1) =>
          match take_subs (Z.to_nat ns) r1 with
          | Some (ss, r2) =>
              match take_pairs (Z.to_nat nk) r2 with
              | Some (es, nl :: r3) =>
                  if nonneg nl then
                    match take_labels (Z.to_nat nl) r3 with
                    | Some ls => Some (mkCfg nt ems ss es, ls) | None => None end
                  else None
              | _ => None end
          | None => None end
      | None => None end
      else None
  | _ => None
  end.

(* well-formed configuration: indices in range, event ids distinct and >= 0,
   types of one subscription distinct, capacities >= 0 *)
Fixpoint znodup (l : list Z) : bool :=
  match l with [] => true | x :: r => negb (existsb (Z.eqb x) r) && znodup r end.
Definition in_range (n x : Z) : bool := Z.leb 0 x && Z.ltb x n.
(* the kind of a subscription entry: a typed Subscribe lists at least one type; the invalid entry of a
   rejected call sits at an index 0..ntys *)
Definition sub_w_ok (w : Z) (tys : list Z) : bool :=
  Z.leb 0 w && (if w =? 0 then negb (zlen tys =? 0) else if w =? 1 then true else Z.leb ((w - 2) / 2) (zlen tys)).
(* the types a Subscribe call gets wired to: none when the call is rejected *)
Definition vtys (w : Z) (tys : list Z) : list Z := if Z.leb 2 w then [] else tys.
Definition cfg_wf (c : cfg) : bool :=
  forallb (fun p => in_range (c_ntypes c) (fst p) && in_range 2 (snd p)) (c_emitters c)
  && forallb (fun s => let '(w, cap, tys) := s in
                sub_w_ok w tys && nonneg cap && forallb (in_range (c_ntypes c)) tys && znodup tys
                && (if Z.eqb w 1 then match tys with [] => true | _ => false end else true)) (c_subs c)
  && forallb (fun p => in_range (zlen (c_emitters c)) (fst p) && nonneg (snd p)) (c_emits c)
  && znodup (map snd (c_emits c)).

(* ---- conformance -------------------------------------------------------------- *)
Definition init_of (c : cfg) : state :=
  init_state (Z.to_nat (c_ntypes c))
    (map (fun s => let '(w, cap, tys) := s in
                   new_sub (if Z.eqb w 1 then None else Some (map Z.to_nat (vtys w tys))) (Z.to_nat cap)) (c_subs c))
    (map (fun p => new_emitter (Z.to_nat (fst p)) (zbool (snd p))) (c_emitters c))
    (map (fun p => new_emit (Z.to_nat (fst p)) (snd p)) (c_emits c)).

Definition thr_of (a b : Z) : option thr :=
  let i := Z.to_nat b in
  if a =? 0 then Some (TEmNew i) else if a =? 1 then Some (TEmClose i) else if a =? 2 then Some (TEmit i)
  else if a =? 3 then Some (TSub i) else if a =? 4 then Some (TClose i) else None.

(* label 5 (end) is not a model label; a panic (4) has no model counterpart at all *)
Fixpoint labels_of (ls : list wl) : option (list label) :=
  match ls with
  | [] => Some []
  | (k, a, b, v) :: r =>
      match labels_of r with
      | None => None
      | Some lr =>
          if k =? 5 then Some lr
          else if k =? 2 then Some (LReq (Z.to_nat a) :: lr)
          else if k =? 3 then Some (LRead (Z.to_nat a) v :: lr)
          else if (k =? 0) || (k =? 1) then
            match thr_of a b with
            | Some t => Some ((if k =? 0 then LStart t else LRet t v) :: lr)
            | None => None end
          else None
      end
  end.

Definition fuel_of (l : list Z) : nat := 64 + 8 * length l.

Definition accepted (fuel : nat) (st : state) (tr : list label) : bool :=
  trace_accepted_dfs step thrs st_eqb lab_eqb stim fuel st tr.

(* index of the first label at which no candidate state is left (diagnostic only) *)
Fixpoint first_reject (fuel : nat) (st : state) (tr : list label) (n k : nat) : Z :=
  match k with
  | O => Z.of_nat n
  | S k' => if accepted fuel st (firstn n tr) then first_reject fuel st tr (S n) k' else Z.of_nat n
  end.

Definition conform_case (l : list Z) : list Z :=
  match decode l with
  | None => [ERR_MALFORMED; 0]
  | Some (c, ls) =>
      if negb (cfg_wf c) then [ERR_MALFORMED; 1] else
      match labels_of ls with
      | None => [ERR_MISMATCH; -1]          (* a panic or unknown label: never a model trace *)
      | Some tr =>
          let f := fuel_of l in
          if accepted f (init_of c) tr then []
          else [ERR_MISMATCH; first_reject f (init_of c) tr 1 (length tr)]
      end
  end.

(* ---- the no-deadlock clause (rule 13) -------------------------------------------
   Judged at a quiescent point (a label written by the harness after every other
   goroutine is blocked) on the labels seen so far.  A call that has started and
   not returned must be LEGITIMATELY blocked: directly or transitively waiting for
   an Emit that is stalled on a subscription whose consumer is not receiving
   and whose Close has not started ("blocks when a subscriber is slow") - a
   subscription, i.e. one whose Subscribe call has begun and did not return an
   error: the channel of a rejected Subscribe call is nobody's, nothing may wait on it.  What
   may wait for what is the characterisation behind c15_no_deadlock:
     Emit of type T        a subscription of T (typed with T, or wildcard) may stall it
     Emitter() of type T   only the node lock of T: a stalled Emit/replay on a typed subscription of T
     Subscribe / Close     typed: the node locks of its types, held by an Emit stalled on ANOTHER
                           typed subscription sharing a type; wildcard: the wildcard lock, held by
                           Emits stalled on ANOTHER wildcard subscription
     Emitter.Close         never blocks (tryDropNode never waits)
   In particular a call on an unrelated type, or any call while every stalled
   subscription has a receive pending or is being closed, must not be blocked. *)
Record ocfg := mkOcfg { o_em : list nat;                  (* type of each emitter *)
                        o_sub : list (option (list nat));  (* types of each subscription, None = wildcard *)
                        o_emit : list nat }.               (* emitter of each Emit call *)

Definition lab_is_start (t : thr) (l : label) : bool := match l with LStart t' => thr_eqb t t' | _ => false end.
Definition lab_is_ret (t : thr) (l : label) : bool := match l with LRet t' _ => thr_eqb t t' | _ => false end.
Definition o_started (tr : list label) (t : thr) : bool := existsb (lab_is_start t) tr.
Definition o_returned (tr : list label) (t : thr) : bool := existsb (lab_is_ret t) tr.
Definition o_nreq (tr : list label) (s : nat) : nat :=
  length (filter (fun l => match l with LReq s' => Nat.eqb s s' | _ => false end) tr).
Definition o_nread (tr : list label) (s : nat) : nat :=
  length (filter (fun l => match l with LRead s' _ => Nat.eqb s s' | _ => false end) tr).

Definition lab_is_ret_code (t : thr) (c : Z) (l : label) : bool := match l with LRet t' c' => thr_eqb t t' && (c =? c') | _ => false end.
(* the Subscribe call of s returned an error: no subscription s exists *)
Definition o_rejected (tr : list label) (s : nat) : bool := existsb (lab_is_ret_code (TSub s) 1) tr.

(* s may be stalling senders: a subscription that some caller holds or is about to get (its Subscribe has
   at least begun and did not return an error), not being closed, consumer not receiving.  In particular
   nothing may ever stall on the channel of a Subscribe call that was rejected. *)
Definition o_root (tr : list label) (s : nat) : bool :=
  (o_started tr (TSub s) || o_returned tr (TSub s)) && negb (o_started tr (TClose s)) && Nat.leb (o_nreq tr s) (o_nread tr s)
  && negb (o_rejected tr s).

Definition o_typed_with (o : ocfg) (s ty : nat) : bool :=
  match nth_error (o_sub o) s with Some (Some tys) => existsb (Nat.eqb ty) tys | _ => false end.
Definition o_wild (o : ocfg) (s : nat) : bool :=
  match nth_error (o_sub o) s with Some None => true | _ => false end.
Definition o_emitter_ty (o : ocfg) (j : nat) : option nat := nth_error (o_em o) j.
Definition o_emit_ty (o : ocfg) (k : nat) : option nat :=
  match nth_error (o_emit o) k with Some j => o_emitter_ty o j | None => None end.

Definition o_subs (o : ocfg) : list nat := seq 0 (length (o_sub o)).

Definition o_legit (o : ocfg) (tr : list label) (t : thr) : bool :=
  match t with
  | TEmit k => match o_emit_ty o k with
               | Some ty => existsb (fun s => o_root tr s && (o_typed_with o s ty || o_wild o s)) (o_subs o)
               | None => false end
  | TEmNew j => match o_emitter_ty o j with
                | Some ty => existsb (fun s => o_root tr s && o_typed_with o s ty) (o_subs o)
                | None => false end
  | TEmClose _ => false
  | TSub s0 | TClose s0 =>
      match nth_error (o_sub o) s0 with
      | Some (Some tys) => existsb (fun s => negb (Nat.eqb s s0) && o_root tr s && existsb (o_typed_with o s) tys) (o_subs o)
      | Some None => existsb (fun s => negb (Nat.eqb s s0) && o_root tr s && o_wild o s) (o_subs o)
      | None => false end
  | _ => true
  end.

Definition o_ops (o : ocfg) : list thr :=
  flat_map (fun j => [TEmNew j; TEmClose j]) (seq 0 (length (o_em o)))
  ++ map TEmit (seq 0 (length (o_emit o)))
  ++ flat_map (fun s => [TSub s; TClose s]) (o_subs o).

(* the first operation that is blocked without a legitimate reason, if any *)
Definition blocked_badly (o : ocfg) (tr : list label) : option thr :=
  find (fun t => o_started tr t && negb (o_returned tr t) && negb (o_legit o tr t)) (o_ops o).

Definition ocfg_of_cfg (c : cfg) : ocfg :=
  mkOcfg (map (fun p => Z.to_nat (fst p)) (c_emitters c))
         (map (fun s => let '(w, _, tys) := s in if w =? 1 then None else Some (map Z.to_nat (vtys w tys))) (c_subs c))
         (map (fun p => Z.to_nat (fst p)) (c_emits c)).

Definition thr_code (t : thr) : Z * Z :=
  match t with
  | TEmNew j => (0, Z.of_nat j) | TEmClose j => (1, Z.of_nat j) | TEmit k => (2, Z.of_nat k)
  | TSub s => (3, Z.of_nat s) | TClose s => (4, Z.of_nat s) | _ => (9, 0)
  end.


(* ==== the monitor in decoded form ==========================================================
   Same rules as above, stated on the decoded label list (Model.label) and a decoded
   configuration, each check looking only at the labels BEFORE the label being judged.
   This is the form the theorems are about; monitor_case decodes the wire line and runs it. *)
Record dcfg := mkDcfg { d_nt : nat; d_em : list (nat * bool); d_sub : list (option (list nat) * nat); d_emit : list (nat * Z) }.

Definition dcfg_of_cfg (c : cfg) : dcfg :=
  mkDcfg (Z.to_nat (c_ntypes c))
         (map (fun p => (Z.to_nat (fst p), zbool (snd p))) (c_emitters c))
         (map (fun s => let '(w, cap, tys) := s in ((if w =? 1 then None else Some (map Z.to_nat (vtys w tys))), Z.to_nat cap)) (c_subs c))
         (map (fun p => (Z.to_nat (fst p), snd p)) (c_emits c)).
Definition ocfg_of_dcfg (d : dcfg) : ocfg := mkOcfg (map fst (d_em d)) (map fst (d_sub d)) (map fst (d_emit d)).

(* prefix before the first label satisfying f *)
Fixpoint cut (f : label -> bool) (l : list label) : option (list label) :=
  match l with
  | [] => None
  | x :: r => if f x then Some [] else match cut f r with Some p => Some (x :: p) | None => None end
  end.
(* some A-label occurs before the first B-label *)
Definition before_ (pre : list label) (fa fb : label -> bool) : bool :=
  match cut fb pre with Some p1 => existsb fa p1 | None => false end.

Definition lab_is_req (s : nat) (l : label) : bool := match l with LReq s' => Nat.eqb s s' | _ => false end.
Fixpoint reads_d (pre : list label) (s : nat) : list Z :=
  match pre with
  | [] => []
  | LRead s' v :: r => if Nat.eqb s s' then v :: reads_d r s else reads_d r s
  | _ :: r => reads_d r s
  end.

Section DMON.
  Variable d : dcfg.
  Definition dm_ty (k : nat) : option nat := match nth_error (d_emit d) k with Some (j, _) => option_map fst (nth_error (d_em d) j) | None => None end.
  Definition dm_ev (k : nat) : option Z := option_map snd (nth_error (d_emit d) k).
  Fixpoint find_ev (l : list (nat * Z)) (v : Z) (i : nat) : option nat :=
    match l with [] => None | (_, x) :: r => if x =? v then Some i else find_ev r v (S i) end.
  Definition dm_find (v : Z) : option nat := find_ev (d_emit d) v 0.
  Definition dm_wild (s : nat) : bool := match nth_error (d_sub d) s with Some (None, _) => true | _ => false end.
  Definition dm_tys (s : nat) : list nat := match nth_error (d_sub d) s with Some (Some tys, _) => tys | _ => [] end.
  Definition dm_cap (s : nat) : nat := match nth_error (d_sub d) s with Some (_, c) => c | None => 0%nat end.
  Definition ty_eqb (a b : option nat) : bool := match a, b with Some x, Some y => Nat.eqb x y | _, _ => false end.
  Definition dm_matches (s k : nat) : bool :=
    dm_wild s || match dm_ty k with Some ty => existsb (Nat.eqb ty) (dm_tys s) | None => false end.
  Definition dm_emits : list nat := seq 0 (length (d_emit d)).
  Definition dm_ev_ty (v : Z) : option nat := match dm_find v with Some k => dm_ty k | None => None end.

  Section AT.
    Variable pre : list label.
    Definition a_started t := o_started pre t.
    Definition a_returned t := o_returned pre t.
    Definition a_ok k := existsb (lab_is_ret_code (TEmit k) 0) pre.
    Definition a_failed k := existsb (lab_is_ret_code (TEmit k) 1) pre.
    Definition a_fresh s k := before_ pre (lab_is_ret (TSub s)) (lab_is_start (TEmit k)).
    Definition a_old s k := before_ pre (lab_is_ret (TEmit k)) (lab_is_start (TSub s)).
    Definition a_rbs k2 k := before_ pre (lab_is_ret (TEmit k2)) (lab_is_start (TEmit k)).
    Definition a_reads s := reads_d pre s.
    Definition a_read s (f : Z -> bool) := existsb f (a_reads s).
    (* a stateful emitter of the type was open from before Emit k0 started until Subscribe s returned *)
    Definition a_sf_open (ty : nat) (k0 s : nat) : bool :=
      existsb (fun j => match nth_error (d_em d) j with
                        | Some (t, true) => Nat.eqb t ty && before_ pre (lab_is_ret (TEmNew j)) (lab_is_start (TEmit k0))
                                            && a_returned (TSub s) && negb (before_ pre (lab_is_start (TEmClose j)) (lab_is_ret (TSub s)))
                        | _ => false end) (seq 0 (length (d_em d))).
    Definition a_replay_due (s ty : nat) : bool :=
      negb (dm_wild s) && existsb (Nat.eqb ty) (dm_tys s) &&
      existsb (fun k => ty_eqb (dm_ty k) (Some ty) && a_ok k && a_old s k && a_sf_open ty k s) dm_emits.
    Definition a_nonfresh s (v : Z) : bool := match dm_find v with Some k => negb (a_fresh s k) | None => false end.
    (* the receive that produced the next report on s started after Close(s) returned *)
    Definition a_after_close s : bool :=
      match cut (lab_is_ret (TClose s)) pre with
      | Some p1 => Nat.leb (o_nreq p1 s) (o_nread pre s)
      | None => false end.

    Definition d_check_read (s : nat) (v : Z) : Z :=
      match dm_find v with
      | None => 1
      | Some k =>
          if negb (dm_matches s k) then 2
          else if negb (a_started (TEmit k)) || a_failed k then 3
          else if a_after_close s then 4
          else if a_read s (Z.eqb v) then 5
          else if a_old s k &&
                  (dm_wild s
                   || negb (existsb (fun j => match nth_error (d_em d) j with
                                              | Some (t, true) => ty_eqb (Some t) (dm_ty k) && a_started (TEmNew j) | _ => false end)
                                    (seq 0 (length (d_em d))))
                   || a_read s (fun v' => ty_eqb (dm_ev_ty v') (dm_ty k))
                   || existsb (fun k2 => ty_eqb (dm_ty k2) (dm_ty k) && a_ok k2 && a_rbs k k2 && a_old s k2) dm_emits)
               then 6
          else if negb (a_started (TClose s)) &&
                  existsb (fun k2 => negb (Nat.eqb k2 k) && dm_matches s k2 && a_ok k2 && a_fresh s k2 && a_rbs k2 k
                                     && match dm_ev k2 with Some v2 => negb (a_read s (Z.eqb v2)) | None => false end) dm_emits
               then 7
          else if negb (a_started (TClose s)) && a_fresh s k
                  && match dm_ty k with Some ty => a_replay_due s ty | None => false end
                  && negb (a_read s (fun v' => ty_eqb (dm_ev_ty v') (dm_ty k) && a_nonfresh s v'))
               then 8
          else 0
      end.

    Definition a_due s : list nat :=
      filter (fun k => dm_matches s k && a_ok k && a_fresh s k) dm_emits.
    (* rule 14: once Close of a typed subscription has returned its channel is closed, so at a
       quiescent point no receive on it is still outstanding *)
    Definition d_check_quiet (s : nat) : Z :=
      if a_returned (TClose s) && negb (dm_wild s) && Nat.ltb (o_nread pre s) (o_nreq pre s) then 14 else
      if negb (a_returned (TSub s)) || a_started (TClose s) then 0 else
      if Nat.ltb (o_nread pre s + dm_cap s) (length (a_due s)) then 9
      else if Nat.ltb (o_nread pre s) (o_nreq pre s) &&
              (existsb (fun k => match dm_ev k with Some v => negb (a_read s (Z.eqb v)) | None => false end) (a_due s)
               || existsb (fun ty => a_replay_due s ty && negb (a_read s (fun v' => ty_eqb (dm_ev_ty v') (Some ty)))) (dm_tys s))
           then 10
      else 0.
  End AT.
End DMON.

Fixpoint first_bad (f : nat -> Z) (l : list nat) : option (nat * Z) :=
  match l with [] => None | x :: r => if f x =? 0 then first_bad f r else Some (x, f x) end.

(* the checks made when the harness is at a quiescent point, having seen [pre] *)
Definition d_quiet_point (d : dcfg) (pre : list label) : list Z :=
  let p := Z.of_nat (length pre) in
  match first_bad (d_check_quiet d pre) (seq 0 (length (d_sub d))) with
  | Some (s, r) => [ERR_PROPERTY; r; p; Z.of_nat s]
  | None => match blocked_badly (ocfg_of_dcfg d) pre with
            | Some t => [ERR_PROPERTY; 13; p; fst (thr_code t); snd (thr_code t)]
            | None => [] end
  end.

Definition d_check_label (d : dcfg) (pre : list label) (l : label) : list Z :=
  match l with
  | LRead s v => if v =? -2 then [] else
                 let r := d_check_read d pre s v in
                 if r =? 0 then [] else [ERR_PROPERTY; r; Z.of_nat (length pre); Z.of_nat s; v]
  | LStart _ | LReq _ => d_quiet_point d pre
  | LRet _ _ => []
  end.

Fixpoint d_go (d : dcfg) (pre rest : list label) : list Z :=
  match rest with
  | [] => []
  | l :: r => match d_check_label d pre l with [] => d_go d (pre ++ [l]) r | res => res end
  end.

(* at the end marker: the quiescent-point checks, and every started operation has returned *)
Definition d_end (d : dcfg) (tr : list label) : list Z :=
  match d_quiet_point d tr with
  | [] => if existsb (fun t => o_started tr t && negb (o_returned tr t)) (o_ops (ocfg_of_dcfg d))
          then [ERR_PROPERTY; 12; Z.of_nat (length tr)] else []
  | res => res
  end.

(* [fin]: 0 the log simply stops, 4 a panic label follows, 5 the end marker follows *)
Definition d_monitor (d : dcfg) (tr : list label) (fin : Z) : list Z :=
  match d_go d [] tr with
  | [] => if fin =? 4 then [ERR_PROPERTY; 11; Z.of_nat (length tr)]
          else if fin =? 5 then d_end d tr else []
  | res => res
  end.

(* the labels up to the first panic / end marker, and which of them came *)
Fixpoint wire_labels (ls : list wl) : option (list label * Z) :=
  match ls with
  | [] => Some ([], 0)
  | (k, a, b, v) :: r =>
      if (k =? 4) || (k =? 5) then Some ([], k)
      else match wire_labels r with
           | None => None
           | Some (lr, fin) =>
               if k =? 2 then Some (LReq (Z.to_nat a) :: lr, fin)
               else if k =? 3 then Some (LRead (Z.to_nat a) v :: lr, fin)
               else if (k =? 0) || (k =? 1) then
                 match thr_of a b with
                 | Some t => Some ((if k =? 0 then LStart t else LRet t v) :: lr, fin)
                 | None => None end
               else None
           end
  end.

Definition monitor_case (l : list Z) : list Z :=
  match decode l with
  | None => [ERR_MALFORMED; 0]
  | Some (c, ls) =>
      if negb (cfg_wf c) then [ERR_MALFORMED; 1] else
      match wire_labels ls with
      | None => [ERR_MALFORMED; 2]
      | Some (tr, fin) => d_monitor (dcfg_of_cfg c) tr fin
      end
  end.

(* C15 — wire format, conformance (is the recorded label trace a trace of the
   LTS of Model.v?) and the property monitor (judges the recorded observations
   by the property text alone; does not use Model.v's step functions).
   No proofs here.

   One case = one line of integers:
     ntypes nE nS nK
     nE x (type stateful)                       emitters (stateful: 0/1)
     nS x (wild cap ntys ty_1..ty_ntys)         subscriptions (wild: 0 typed, 1 wildcard)
     nK x (emitter eventid)                     Emit calls; event ids are distinct, >= 0
     nL
     nL x (kind a b v)                          label trace in log order
   labels:  0 a b 0  start of operation (a = 0 Emitter(), 1 Emitter.Close, 2 Emit, 3 Subscribe,
                     4 Subscription.Close; b = index of the emitter / emit call / subscription)
            1 a b v  return of that operation, v = 0 ok, 1 error
            2 s 0 0  the consumer of subscription s starts a receive on Out()
            3 s 0 v  that receive completed: v = event id, or -2 = channel closed
            4 _ _ _  a panic was recovered in some goroutine
            5 0 0 0  end of run (the harness waited for quiescence)
   Labels 0, 2 and 5 are written by the harness main goroutine after
   synctest.Wait(), i.e. when every other goroutine is durably blocked. *)
From Coq Require Import List Arith ZArith Bool.
From Verif Require Import lib.Wire c15.Lts c15.Model.
Import ListNotations.
Local Open Scope Z_scope.

Definition wl := (Z * Z * Z * Z)%type.
Record cfg := mkCfg { c_ntypes : Z; c_emitters : list (Z * Z); c_subs : list (Z * Z * list Z);
                      c_emits : list (Z * Z) }.

(* ---- decoding --------------------------------------------------------------- *)
Fixpoint take_pairs (n : nat) (l : list Z) : option (list (Z * Z) * list Z) :=
  match n with
  | O => Some ([], l)
  | S n' => match l with
            | a :: b :: r => match take_pairs n' r with Some (ps, r') => Some ((a, b) :: ps, r') | None => None end
            | _ => None end
  end.

Fixpoint take_subs (n : nat) (l : list Z) : option (list (Z * Z * list Z) * list Z) :=
  match n with
  | O => Some ([], l)
  | S n' => match l with
            | w :: c :: k :: r =>
                if Z.ltb k 0 || Z.ltb (zlen r) k then None else
                match take_subs n' (zdrop k r) with
                | Some (ss, r') => Some ((w, c, ztake k r) :: ss, r') | None => None end
            | _ => None end
  end.

Fixpoint take_labels (n : nat) (l : list Z) : option (list wl) :=
  match n with
  | O => match l with [] => Some [] | _ => None end
  | S n' => match l with
            | k :: a :: b :: v :: r => match take_labels n' r with Some ls => Some ((k, a, b, v) :: ls) | None => None end
            | _ => None end
  end.

Definition nonneg (z : Z) : bool := Z.leb 0 z.

Definition decode (l : list Z) : option (cfg * list wl) :=
  match l with
  | nt :: ne :: ns :: nk :: r =>
      if nonneg nt && nonneg ne && nonneg ns && nonneg nk then
      match take_pairs (Z.to_nat ne) r with
      | Some (ems, r1) =>
          match take_subs (Z.to_nat ns) r1 with
          | Some (ss, r2) =>
              match take_pairs (Z.to_nat nk) r2 with
              | Some (es, nl :: r3) =>
                  if nonneg nl then
                    match take_labels (Z.to_nat nl) r3 with
                    | Some ls => Some (mkCfg nt ems ss es, ls) | None => None end
                  else None
              | _ => None end
          | None => None end
      | None => None end
      else None
  | _ => None
  end.

(* well-formed configuration: indices in range, event ids distinct and >= 0,
   types of one subscription distinct, capacities >= 0 *)
Fixpoint znodup (l : list Z) : bool :=
  match l with [] => true | x :: r => negb (existsb (Z.eqb x) r) && znodup r end.
Definition in_range (n x : Z) : bool := Z.leb 0 x && Z.ltb x n.
Definition cfg_wf (c : cfg) : bool :=
  forallb (fun p => in_range (c_ntypes c) (fst p) && in_range 2 (snd p)) (c_emitters c)
  && forallb (fun s => let '(w, cap, tys) := s in
                in_range 2 w && nonneg cap && forallb (in_range (c_ntypes c)) tys && znodup tys
                && (if Z.eqb w 1 then match tys with [] => true | _ => false end else true)) (c_subs c)
  && forallb (fun p => in_range (zlen (c_emitters c)) (fst p) && nonneg (snd p)) (c_emits c)
  && znodup (map snd (c_emits c)).

(* ---- conformance -------------------------------------------------------------- *)
Definition init_of (c : cfg) : state :=
  init_state (Z.to_nat (c_ntypes c))
    (map (fun s => let '(w, cap, tys) := s in
                   new_sub (if Z.eqb w 1 then None else Some (map Z.to_nat tys)) (Z.to_nat cap)) (c_subs c))
    (map (fun p => new_emitter (Z.to_nat (fst p)) (zbool (snd p))) (c_emitters c))
    (map (fun p => new_emit (Z.to_nat (fst p)) (snd p)) (c_emits c)).

Definition thr_of (a b : Z) : option thr :=
  let i := Z.to_nat b in
  if a =? 0 then Some (TEmNew i) else if a =? 1 then Some (TEmClose i) else if a =? 2 then Some (TEmit i)
  else if a =? 3 then Some (TSub i) else if a =? 4 then Some (TClose i) else None.

(* label 5 (end) is not a model label; a panic (4) has no model counterpart at all *)
Fixpoint labels_of (ls : list wl) : option (list label) :=
  match ls with
  | [] => Some []
  | (k, a, b, v) :: r =>
      match labels_of r with
      | None => None
      | Some lr =>
          if k =? 5 then Some lr
          else if k =? 2 then Some (LReq (Z.to_nat a) :: lr)
          else if k =? 3 then Some (LRead (Z.to_nat a) v :: lr)
          else if (k =? 0) || (k =? 1) then
            match thr_of a b with
            | Some t => Some ((if k =? 0 then LStart t else LRet t v) :: lr)
            | None => None end
          else None
      end
  end.

Definition fuel_of (l : list Z) : nat := 64 + 8 * length l.

Definition accepted (fuel : nat) (st : state) (tr : list label) : bool :=
  trace_accepted_dfs step thrs st_eqb lab_eqb stim fuel st tr.

(* index of the first label at which no candidate state is left (diagnostic only) *)
Fixpoint first_reject (fuel : nat) (st : state) (tr : list label) (n k : nat) : Z :=
  match k with
  | O => Z.of_nat n
  | S k' => if accepted fuel st (firstn n tr) then first_reject fuel st tr (S n) k' else Z.of_nat n
  end.

Definition conform_case (l : list Z) : list Z :=
  match decode l with
  | None => [ERR_MALFORMED; 0]
  | Some (c, ls) =>
      if negb (cfg_wf c) then [ERR_MALFORMED; 1] else
      match labels_of ls with
      | None => [ERR_MISMATCH; -1]          (* a panic or unknown label: never a model trace *)
      | Some tr =>
          let f := fuel_of l in
          if accepted f (init_of c) tr then []
          else [ERR_MISMATCH; first_reject f (init_of c) tr 1 (length tr)]
      end
  end.

(* ---- the no-deadlock clause (rule 13) -------------------------------------------
   Judged at a quiescent point (a label written by the harness after every other
   goroutine is blocked) on the labels seen so far.  A call that has started and
   not returned must be LEGITIMATELY blocked: directly or transitively waiting for
   an Emit that is stalled on a subscription whose consumer is not receiving
   and whose Close has not started ("blocks when a subscriber is slow").  What
   may wait for what is the characterisation behind c15_no_deadlock:
     Emit of type T        a subscription of T (typed with T, or wildcard) may stall it
     Emitter() of type T   only the node lock of T: a stalled Emit/replay on a typed subscription of T
     Subscribe / Close     typed: the node locks of its types, held by an Emit stalled on ANOTHER
                           typed subscription sharing a type; wildcard: the wildcard lock, held by
                           Emits stalled on ANOTHER wildcard subscription
     Emitter.Close         never blocks (tryDropNode never waits)
   In particular a call on an unrelated type, or any call while every stalled
   subscription has a receive pending or is being closed, must not be blocked. *)
Record ocfg := mkOcfg { o_em : list nat;                  (* type of each emitter *)
                        o_sub : list (option (list nat));  (* types of each subscription, None = wildcard *)
                        o_emit : list nat }.               (* emitter of each Emit call *)

Definition lab_is_start (t : thr) (l : label) : bool := match l with LStart t' => thr_eqb t t' | _ => false end.
Definition lab_is_ret (t : thr) (l : label) : bool := match l with LRet t' _ => thr_eqb t t' | _ => false end.
Definition o_started (tr : list label) (t : thr) : bool := existsb (lab_is_start t) tr.
Definition o_returned (tr : list label) (t : thr) : bool := existsb (lab_is_ret t) tr.
Definition o_nreq (tr : list label) (s : nat) : nat :=
  length (filter (fun l => match l with LReq s' => Nat.eqb s s' | _ => false end) tr).
Definition o_nread (tr : list label) (s : nat) : nat :=
  length (filter (fun l => match l with LRead s' _ => Nat.eqb s s' | _ => false end) tr).

(* s may be stalling senders: subscribed (at least begun), not being closed, consumer not receiving *)
Definition o_root (tr : list label) (s : nat) : bool :=
  (o_started tr (TSub s) || o_returned tr (TSub s)) && negb (o_started tr (TClose s)) && Nat.leb (o_nreq tr s) (o_nread tr s).

Definition o_typed_with (o : ocfg) (s ty : nat) : bool :=
  match nth_error (o_sub o) s with Some (Some tys) => existsb (Nat.eqb ty) tys | _ => false end.
Definition o_wild (o : ocfg) (s : nat) : bool :=
  match nth_error (o_sub o) s with Some None => true | _ => false end.
Definition o_emitter_ty (o : ocfg) (j : nat) : option nat := nth_error (o_em o) j.
Definition o_emit_ty (o : ocfg) (k : nat) : option nat :=
  match nth_error (o_emit o) k with Some j => o_emitter_ty o j | None => None end.

Definition o_subs (o : ocfg) : list nat := seq 0 (length (o_sub o)).

Definition o_legit (o : ocfg) (tr : list label) (t : thr) : bool :=
  match t with
  | TEmit k => match o_emit_ty o k with
               | Some ty => existsb (fun s => o_root tr s && (o_typed_with o s ty || o_wild o s)) (o_subs o)
               | None => false end
  | TEmNew j => match o_emitter_ty o j with
                | Some ty => existsb (fun s => o_root tr s && o_typed_with o s ty) (o_subs o)
                | None => false end
  | TEmClose _ => false
  | TSub s0 | TClose s0 =>
      match nth_error (o_sub o) s0 with
      | Some (Some tys) => existsb (fun s => negb (Nat.eqb s s0) && o_root tr s && existsb (o_typed_with o s) tys) (o_subs o)
      | Some None => existsb (fun s => negb (Nat.eqb s s0) && o_root tr s && o_wild o s) (o_subs o)
      | None => false end
  | _ => true
  end.

Definition o_ops (o : ocfg) : list thr :=
  flat_map (fun j => [TEmNew j; TEmClose j]) (seq 0 (length (o_em o)))
  ++ map TEmit (seq 0 (length (o_emit o)))
  ++ flat_map (fun s => [TSub s; TClose s]) (o_subs o).

(* the first operation that is blocked without a legitimate reason, if any *)
Definition blocked_badly (o : ocfg) (tr : list label) : option thr :=
  find (fun t => o_started tr t && negb (o_returned tr t) && negb (o_legit o tr t)) (o_ops o).

(* ---- the property monitor ------------------------------------------------------ *)
(* Positions are indices into the label list.  [before a b] = both known and a < b. *)
Fixpoint find_pos (f : wl -> bool) (ls : list wl) (i : nat) : option nat :=
  match ls with [] => None | x :: r => if f x then Some i else find_pos f r (S i) end.
Definition is_lab (k a b : Z) (x : wl) : bool :=
  let '(k', a', b', _) := x in (k' =? k) && (a' =? a) && (b' =? b).
Definition st_pos (ls : list wl) (a : Z) (b : nat) := find_pos (is_lab 0 a (Z.of_nat b)) ls 0.
Definition rt_pos (ls : list wl) (a : Z) (b : nat) := find_pos (is_lab 1 a (Z.of_nat b)) ls 0.
Definition rt_code (ls : list wl) (a : Z) (b : nat) : Z :=
  match find (is_lab 1 a (Z.of_nat b)) ls with Some (_, _, _, v) => v | None => -1 end.
Definition before (a b : option nat) : bool :=
  match a, b with Some x, Some y => Nat.ltb x y | _, _ => false end.
Definition lt_pos (a : option nat) (q : nat) : bool :=
  match a with Some x => Nat.ltb x q | None => false end.
Definition none_or_after (a : option nat) (q : nat) : bool :=
  match a with Some x => Nat.ltb q x | None => true end.

(* reads of subscription s with their positions; receive-starts of s *)
Fixpoint reads_of (ls : list wl) (s : Z) (i : nat) : list (nat * Z) :=
  match ls with
  | [] => []
  | (k, a, _, v) :: r => if (k =? 3) && (a =? s) then (i, v) :: reads_of r s (S i) else reads_of r s (S i)
  end.
Fixpoint reqs_of (ls : list wl) (s : Z) (i : nat) : list nat :=
  match ls with
  | [] => []
  | (k, a, _, _) :: r => if (k =? 2) && (a =? s) then i :: reqs_of r s (S i) else reqs_of r s (S i)
  end.

Definition ocfg_of_cfg (c : cfg) : ocfg :=
  mkOcfg (map (fun p => Z.to_nat (fst p)) (c_emitters c))
         (map (fun s => let '(w, _, tys) := s in if w =? 1 then None else Some (map Z.to_nat tys)) (c_subs c))
         (map (fun p => Z.to_nat (fst p)) (c_emits c)).

Definition thr_code (t : thr) : Z * Z :=
  match t with
  | TEmNew j => (0, Z.of_nat j) | TEmClose j => (1, Z.of_nat j) | TEmit k => (2, Z.of_nat k)
  | TSub s => (3, Z.of_nat s) | TClose s => (4, Z.of_nat s) | _ => (9, 0)
  end.

Section MON.
  Variable c : cfg.
  Variable ls : list wl.

  Definition emitter_ty (j : Z) : Z := fst (nth (Z.to_nat j) (c_emitters c) (-1, 0)).
  Definition emitter_sf (j : Z) : bool := zbool (snd (nth (Z.to_nat j) (c_emitters c) (0, 0))).
  Definition emit_ty (k : nat) : Z := emitter_ty (fst (nth k (c_emits c) (-1, 0))).
  Definition emit_ev (k : nat) : Z := snd (nth k (c_emits c) (0, -1)).
  Definition find_emit (v : Z) : option nat := find_pos (fun p : wl => let '(_, _, _, x) := p in x =? v)
      (map (fun p : Z * Z => (0, 0, 0, snd p)) (c_emits c)) 0.
  Definition nemits : nat := length (c_emits c).
  Definition sub_wild (s : nat) : bool := let '(w, _, _) := nth s (c_subs c) (0, 0, []) in w =? 1.
  Definition sub_cap (s : nat) : Z := let '(_, cp, _) := nth s (c_subs c) (0, 0, []) in cp.
  Definition sub_tys (s : nat) : list Z := let '(_, _, t) := nth s (c_subs c) (0, 0, []) in t.
  Definition matches (s k : nat) : bool := sub_wild s || existsb (Z.eqb (emit_ty k)) (sub_tys s).

  Definition e_start k := st_pos ls 2 k.  Definition e_ret k := rt_pos ls 2 k.
  Definition e_ok k := rt_code ls 2 k =? 0.
  Definition s_start s := st_pos ls 3 s.  Definition s_ret s := rt_pos ls 3 s.
  Definition k_start s := st_pos ls 4 s.  Definition k_ret s := rt_pos ls 4 s.

  (* event k counts as "emitted while s was subscribed": Emit started after
     Subscribe returned and succeeded *)
  Definition fresh (s k : nat) : bool := before (s_ret s) (e_start k).

  (* a retained event is due for (s, type ty): some successful emit of ty
     returned before Subscribe started while a stateful emitter of ty was open
     from before that emit until after Subscribe returned (so the node and its
     retained event existed throughout: DESIGN.md section 9 item 12) *)
  Definition sf_open (ty : Z) (from to : option nat) : bool :=
    existsb (fun j => (emitter_ty (Z.of_nat j) =? ty) && emitter_sf (Z.of_nat j)
                      && before (rt_pos ls 0 j) from
                      && match to with Some q => none_or_after (st_pos ls 1 j) q | None => false end)
            (seq 0 (length (c_emitters c))).
  Definition replay_due (s : nat) (ty : Z) : bool :=
    negb (sub_wild s) && existsb (Z.eqb ty) (sub_tys s) &&
    existsb (fun k => (emit_ty k =? ty) && e_ok k && before (e_ret k) (s_start s)
                      && sf_open ty (e_start k) (s_ret s)) (seq 0 nemits).

  Definition read_before (rs : list (nat * Z)) (p : nat) (f : Z -> bool) : bool :=
    existsb (fun r => Nat.ltb (fst r) p && f (snd r)) rs.
  Definition ev_ty (v : Z) : Z := match find_emit v with Some k => emit_ty k | None => -1 end.
  Definition ev_nonfresh (s : nat) (v : Z) : bool :=
    match find_emit v with Some k => negb (fresh s k) | None => false end.

  (* one delivered value v to s at position p, its receive having started at rq *)
  Definition check_read (s : nat) (rs : list (nat * Z)) (p rq : nat) (v : Z) : Z :=
    match find_emit v with
    | None => 1                                              (* not an emitted event *)
    | Some k =>
        if negb (matches s k) then 2                         (* wrong type *)
        else if negb (lt_pos (e_start k) p) || (rt_code ls 2 k =? 1) then 3   (* never (successfully) emitted yet *)
        else if lt_pos (k_ret s) rq then 4                   (* delivered after Close returned *)
        else if read_before rs p (Z.eqb v) then 5            (* duplicate *)
        else if before (e_ret k) (s_start s) &&
                (sub_wild s
                 || negb (existsb (fun j => (emitter_ty (Z.of_nat j) =? emit_ty k) && emitter_sf (Z.of_nat j)
                                            && lt_pos (st_pos ls 0 j) p) (seq 0 (length (c_emitters c))))
                 || read_before rs p (fun v' => ev_ty v' =? emit_ty k)
                 || existsb (fun k2 => (emit_ty k2 =? emit_ty k) && e_ok k2 && before (e_ret k) (e_start k2)
                                       && before (e_ret k2) (s_start s)) (seq 0 nemits))
             then 6                                          (* an old event that is not the retained one *)
        else if none_or_after (k_start s) p &&
                existsb (fun k2 => negb (Nat.eqb k2 k) && matches s k2 && e_ok k2 && fresh s k2
                                   && before (e_ret k2) (e_start k)
                                   && negb (read_before rs p (Z.eqb (emit_ev k2)))) (seq 0 nemits)
             then 7                                          (* overtook / skipped an earlier event *)
        else if none_or_after (k_start s) p && fresh s k && replay_due s (emit_ty k)
                && negb (read_before rs p (fun v' => (ev_ty v' =? emit_ty k) && ev_nonfresh s v'))
             then 8                                          (* a later event arrived before the retained one (judged only
                                                                before Close starts: afterwards the drainer may have taken it) *)
        else 0
    end.

  (* at a quiescent point q (a label written by the harness after Wait) *)
  Definition check_quiet (s : nat) (q : nat) : Z :=
    let rs := reads_of ls (Z.of_nat s) 0 in
    let nreads := length (filter (fun r => Nat.ltb (fst r) q) rs) in
    let nreqs := length (filter (fun r => Nat.ltb r q) (reqs_of ls (Z.of_nat s) 0)) in
    if negb (lt_pos (s_ret s) q) || negb (none_or_after (k_start s) q) then 0 else
    let due := filter (fun k => matches s k && e_ok k && fresh s k && lt_pos (e_ret k) q) (seq 0 nemits) in
    if Z.ltb (Z.of_nat nreads + sub_cap s) (Z.of_nat (length due)) then 9     (* Emit returned although the sink was full *)
    else if Nat.ltb nreads nreqs &&
            (existsb (fun k => negb (read_before rs q (Z.eqb (emit_ev k)))) due
             || existsb (fun ty => replay_due s ty && negb (read_before rs q (fun v' => ev_ty v' =? ty))) (sub_tys s))
         then 10                                             (* consumer waiting, event emitted, not delivered *)
    else 0.

  Fixpoint first_nz (f : nat -> Z) (l : list nat) : Z * nat :=
    match l with [] => (0, O) | x :: r => if f x =? 0 then first_nz f r else (f x, x) end.

  Definition nth_req (l : list nat) (i : nat) : nat := nth i l 0%nat.

  Fixpoint mon_go (rest : list wl) (p : nat) : list Z :=
    match rest with
    | [] => []
    | (k, a, b, v) :: r =>
        let subsq := seq 0 (length (c_subs c)) in
        let res :=
          if k =? 4 then [ERR_PROPERTY; 11; Z.of_nat p]
          else if (k =? 3) && (0 <=? v) then
            let s := Z.to_nat a in
            let rs := reads_of ls a 0 in
            let idx := length (filter (fun x => Nat.ltb (fst x) p) rs) in
            let d := check_read s rs p (nth_req (reqs_of ls a 0) idx) v in
            if d =? 0 then [] else [ERR_PROPERTY; d; Z.of_nat p; a; v]
          else if (k =? 0) || (k =? 2) || (k =? 5) then
            let '(d, s) := first_nz (fun s => check_quiet s p) subsq in
            if negb (d =? 0) then [ERR_PROPERTY; d; Z.of_nat p; Z.of_nat s]
            else match (match labels_of (firstn p ls) with
                        | Some tr => blocked_badly (ocfg_of_cfg c) tr | None => None end) with
                 | Some t => [ERR_PROPERTY; 13; Z.of_nat p; fst (thr_code t); snd (thr_code t)]   (* a call is blocked without a stalled subscriber to blame *)
                 | None =>
            if (k =? 5) &&
                    existsb (fun x : wl => let '(k', a', b', _) := x in
                               (k' =? 0) && negb (existsb (is_lab 1 a' b') ls)) ls
                 then [ERR_PROPERTY; 12; Z.of_nat p]          (* an operation never returned: deadlock *)
            else []
                 end
          else [] in
        match res with [] => mon_go r (S p) | _ => res end
    end.
End MON.

Definition monitor_case (l : list Z) : list Z :=
  match decode l with
  | None => [ERR_MALFORMED; 0]
  | Some (c, ls) => if negb (cfg_wf c) then [ERR_MALFORMED; 1] else mon_go c ls ls 0
  end.

(* base58btc (Bitcoin alphabet) and RFC 4648 base32 (lower case, no padding) on
   byte lists, over c08.Digits.  Characters are ASCII codes (N).  Reusable.

     From Verif Require Import c08.Digits c08.Base58.

   base58btc as implemented by github.com/mr-tron/base58: every leading zero
   byte becomes one '1'; the remaining bytes, read as a big-endian number, are
   written in base 58 without leading zeros.  Decoding rejects the empty
   string and any character outside the alphabet.

   base32 as used for CIDv1 text (multibase prefix 'b'): the bytes are read as
   one big-endian number, shifted left to a multiple of 5 bits and written
   with exactly ceil(8 L / 5) digits.

   Main results:
     b58_roundtrip       bytes_ok bs -> bs <> [] -> b58_decode (b58_encode bs) = Some bs
                         (any number of leading zero bytes)
     b58_leading_zero    b58_encode (0 :: r) starts with '1'
     b58_sha256_Qm       a 34-byte string 0x12 0x20 ++ (32 bytes) encodes to 46
                         characters starting "Qm"
     b32_roundtrip       bytes_ok bs -> b32_decode (b32_encode bs) = Some bs *)
From Coq Require Import List NArith ZArith Lia Bool Arith.
From Verif Require Import c08.Varint c08.Digits.
Import ListNotations.
Local Open Scope N_scope.
Local Ltac Zify.zify_post_hook ::= Z.to_euclidean_division_equations.

Fixpoint map_opt {A B} (f : A -> option B) (l : list A) : option (list B) :=
  match l with
  | [] => Some []
  | x :: r =>
      match f x, map_opt f r with
      | Some y, Some ys => Some (y :: ys)
      | _, _ => None
      end
  end.

Fixpoint index_of (c : N) (l : list N) (i : N) : option N :=
  match l with
  | [] => None
  | x :: r => if x =? c then Some i else index_of c r (i + 1)
  end.

(* "123456789ABCDEFGHJKLMNPQRSTUVWXYZabcdefghijkmnopqrstuvwxyz" *)
Definition b58_alphabet : list N :=
  [49; 50; 51; 52; 53; 54; 55; 56; 57; 65; 66; 67; 68; 69; 70; 71; 72; 74; 75; 76; 77; 78; 80;
   81; 82; 83; 84; 85; 86; 87; 88; 89; 90; 97; 98; 99; 100; 101; 102; 103; 104; 105; 106; 107;
   109; 110; 111; 112; 113; 114; 115; 116; 117; 118; 119; 120; 121; 122].
Definition b58_char (d : N) : N := nth (N.to_nat d) b58_alphabet 0.
Definition b58_val (c : N) : option N := index_of c b58_alphabet 0.

Definition b58_encode (bs : list N) : list N :=
  map b58_char (repeat 0 (count_zeros bs) ++ to_digits 58 (of_digits 256 bs)).

Definition b58_decode (s : list N) : option (list N) :=
  match s with
  | [] => None
  | _ =>
      match map_opt b58_val s with
      | Some ds => Some (repeat 0 (count_zeros ds) ++ to_digits 256 (of_digits 58 ds))
      | None => None
      end
  end.

(* "abcdefghijklmnopqrstuvwxyz234567" *)
Definition b32_alphabet : list N :=
  [97; 98; 99; 100; 101; 102; 103; 104; 105; 106; 107; 108; 109; 110; 111; 112; 113; 114; 115;
   116; 117; 118; 119; 120; 121; 122; 50; 51; 52; 53; 54; 55].
Definition b32_char (d : N) : N := nth (N.to_nat d) b32_alphabet 0.
Definition b32_val (c : N) : option N := index_of c b32_alphabet 0.

Definition b32_encode (bs : list N) : list N :=
  let L := length bs in
  let k := ((8 * L + 4) / 5)%nat in
  map b32_char (fixed 32 k (of_digits 256 bs * 2 ^ N.of_nat (5 * k - 8 * L))).

Definition b32_decode (s : list N) : option (list N) :=
  match map_opt b32_val s with
  | Some ds =>
      let k := length ds in
      let L := (5 * k / 8)%nat in
      Some (fixed 256 L (of_digits 32 ds / 2 ^ N.of_nat (5 * k - 8 * L)))
  | None => None
  end.

(* ---- alphabets ------------------------------------------------------------ *)
Lemma b58_val_char : forall d, d < 58 -> b58_val (b58_char d) = Some d.
Proof.
  intros d H. destruct d as [|p]; [reflexivity|].
  do 6 (try (destruct p as [p|p|]; try reflexivity; try (exfalso; lia))).
Qed.

Lemma b32_val_char : forall d, d < 32 -> b32_val (b32_char d) = Some d.
Proof.
  intros d H. destruct d as [|p]; [reflexivity|].
  do 5 (try (destruct p as [p|p|]; try reflexivity; try (exfalso; lia))).
Qed.

Lemma map_opt_map : forall (f : N -> N) (g : N -> option N) (bound : N) ds,
  (forall d, d < bound -> g (f d) = Some d) -> digits_ok bound ds ->
  map_opt g (map f ds) = Some ds.
Proof.
  intros f g bound ds Hfg. induction ds as [|d ds IH]; intros Hok; [reflexivity|].
  inversion Hok; subst. cbn [map map_opt]. rewrite Hfg by assumption. rewrite IH by assumption.
  reflexivity.
Qed.

Lemma bytes_ok_digits : forall bs, bytes_ok bs -> digits_ok 256 bs.
Proof. intros bs H. exact H. Qed.

Lemma zeros_ok : forall b z, 0 < b -> digits_ok b (repeat 0 z).
Proof. intros b z Hb. induction z; constructor; assumption. Qed.

(* ---- base58 round trip ----------------------------------------------------- *)
Theorem b58_roundtrip : forall bs, bytes_ok bs -> bs <> [] ->
  b58_decode (b58_encode bs) = Some bs.
Proof.
  intros bs Hok Hne. unfold b58_decode, b58_encode.
  set (ds := repeat 0 (count_zeros bs) ++ to_digits 58 (of_digits 256 bs)).
  assert (Hds : digits_ok 58 ds).
  { apply Forall_app. split; [apply zeros_ok; lia|apply to_digits_range; lia]. }
  assert (Hnn : map b58_char ds <> []).
  { destruct bs as [|b0 bs']; [congruence|]. subst ds. destruct b0 as [|p].
    - cbn. discriminate.
    - cbn [count_zeros repeat app].
      assert (Hnz : of_digits 256 (N.pos p :: bs') <> 0)
        by (apply of_digits_nolead_nonzero; [lia|discriminate|cbn; discriminate]).
      pose proof (to_digits_nonzero 58 ltac:(lia) _ Hnz) as Hd.
      destruct (to_digits 58 (of_digits 256 (N.pos p :: bs'))); [congruence|cbn; discriminate]. }
  destruct (map b58_char ds) as [|c0 cs] eqn:Em; [congruence|]. rewrite <- Em.
  rewrite (map_opt_map b58_char b58_val 58 ds b58_val_char Hds).
  f_equal. subst ds.
  pose proof (to_digits_nolead 58 ltac:(lia) (of_digits 256 bs)) as Hnl.
  rewrite count_zeros_repeat by exact Hnl.
  rewrite of_digits_zeros by lia. rewrite of_to_digits by lia.
  destruct (zeros_split bs) as [Hs Hl].
  rewrite <- (of_digits_strip 256 ltac:(lia) bs).
  rewrite to_of_digits; [symmetry; exact Hs|lia| |exact Hl].
  apply strip_zeros_ok. exact Hok.
Qed.

(* identity multihashes (code 0x00) print with a leading '1' *)
Theorem b58_leading_zero : forall r, exists t, b58_encode (0 :: r) = 49 :: t.
Proof.
  intros r. unfold b58_encode. cbn [count_zeros repeat app map].
  eexists. reflexivity.
Qed.

(* ---- sha2-256 multihashes print as 46 characters starting "Qm" ------------- *)
Lemma qm_lo : 1378 * 58 ^ 44 <= 4640 * 256 ^ 32.
Proof. apply N.leb_le. vm_compute. reflexivity. Qed.
Lemma qm_hi : 4640 * 256 ^ 32 + 256 ^ 32 <= 1379 * 58 ^ 44.
Proof. apply N.leb_le. vm_compute. reflexivity. Qed.
Lemma digits_1378 : to_digits 58 1378 = [23; 44].
Proof. vm_compute. reflexivity. Qed.

Theorem b58_sha256_Qm : forall digest, bytes_ok digest -> length digest = 32%nat ->
  exists t, b58_encode (18 :: 32 :: digest) = 81 :: 109 :: t /\ length t = 44%nat.
Proof.
  intros digest Hok Hlen. unfold b58_encode. cbn [count_zeros repeat app].
  set (n := of_digits 256 (18 :: 32 :: digest)).
  assert (Hn : n = 4640 * 256 ^ 32 + of_digits 256 digest).
  { subst n. rewrite of_digits_cons by lia. rewrite of_digits_cons by lia.
    cbn [length]. rewrite Hlen.
    change (N.of_nat 33) with 33. change (N.of_nat 32) with 32.
    replace (256 ^ 33) with (256 * 256 ^ 32) by (rewrite <- N.pow_succ_r'; reflexivity). lia. }
  assert (Hv : of_digits 256 digest < 256 ^ 32).
  { pose proof (of_digits_bound 256 ltac:(lia) digest Hok) as H. rewrite Hlen in H. exact H. }
  pose proof qm_lo as Hlo. pose proof qm_hi as Hhi.
  set (P := 58 ^ 44) in *. set (B := 256 ^ 32) in *. set (v := of_digits 256 digest) in *.
  assert (Hsplit : n = 1378 * 58 ^ N.of_nat 44 + (n - 1378 * P)).
  { change (N.of_nat 44) with 44. fold P. lia. }
  rewrite Hsplit.
  rewrite to_digits_shift; [|lia|lia|change (N.of_nat 44) with 44; fold P; lia].
  rewrite digits_1378. cbn [app map]. eexists. split; [reflexivity|].
  rewrite map_length. apply fixed_length; lia.
Qed.

(* ---- base32 round trip ------------------------------------------------------ *)
Lemma pow256 : forall L, 256 ^ N.of_nat L = 2 ^ N.of_nat (8 * L).
Proof.
  intros L. change 256 with (2 ^ 8). rewrite <- N.pow_mul_r. f_equal. lia.
Qed.
Lemma pow32 : forall k, 32 ^ N.of_nat k = 2 ^ N.of_nat (5 * k).
Proof.
  intros k. change 32 with (2 ^ 5). rewrite <- N.pow_mul_r. f_equal. lia.
Qed.

Theorem b32_roundtrip : forall bs, bytes_ok bs -> b32_decode (b32_encode bs) = Some bs.
Proof.
  intros bs Hok. unfold b32_decode, b32_encode. cbv zeta.
  set (L := length bs). set (k := ((8 * L + 4) / 5)%nat).
  set (V := of_digits 256 bs). set (pad := (5 * k - 8 * L)%nat).
  assert (Hk : (8 * L <= 5 * k /\ 5 * k <= 8 * L + 4)%nat).
  { subst k. pose proof (Nat.div_mod (8 * L + 4) 5). pose proof (Nat.mod_upper_bound (8 * L + 4) 5). lia. }
  destruct Hk as [Hk1 Hk2].
  rewrite (map_opt_map b32_char b32_val 32 _ b32_val_char) by (apply fixed_range; lia).
  rewrite fixed_length by lia.
  assert (HL : (5 * k / 8)%nat = L).
  { pose proof (Nat.div_mod (5 * k) 8). pose proof (Nat.mod_upper_bound (5 * k) 8). lia. }
  rewrite HL. fold pad.
  assert (HV : V < 256 ^ N.of_nat L) by (apply of_digits_bound; [lia|exact Hok]).
  assert (Hp : 0 < 2 ^ N.of_nat pad) by (apply N.neq_0_lt_0, N.pow_nonzero; lia).
  rewrite of_fixed; [|lia|].
  - rewrite N.div_mul by lia. f_equal. subst V L. apply fixed_of_digits; [lia|exact Hok].
  - rewrite pow32. rewrite pow256 in HV.
    replace (5 * k)%nat with (8 * L + pad)%nat by (subst pad; lia).
    rewrite Nat2N.inj_add, N.pow_add_r. nia.
Qed.

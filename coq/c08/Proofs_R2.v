(* C08 - round 2: /p2p address form, relay vouchers, the inlining switch, and the
   verify-exactness clause of the monitor under an ideal signature scheme. *)
From Coq Require Import List NArith ZArith Lia Bool Arith.
From Verif Require Import lib.Wire c08.Varint c08.Protobuf c08.Digits c08.Base58 c08.SymCrypto
  c08.Model c08.Proofs c08.Spec.
Import ListNotations.
Local Open Scope N_scope.

(* ---- IDFromP2PAddr: the last component decides ------------------------------------------ *)
Lemma id_from_p2p_addr_snoc : forall cs code v,
  id_from_p2p_addr (cs ++ [(code, v)]) = if code =? P_P2P then Some v else None.
Proof. intros cs code v. unfold id_from_p2p_addr. rewrite rev_app_distr. reflexivity. Qed.

Lemma id_from_p2p_addr_last : forall cs v, id_from_p2p_addr (cs ++ [(P_P2P, v)]) = Some v.
Proof. intros cs v. rewrite id_from_p2p_addr_snoc. reflexivity. Qed.

(* a relayed address names the TARGET, not the relay; one ending in /p2p-circuit names nobody *)
Lemma id_from_p2p_addr_circuit : forall cs relay target,
  id_from_p2p_addr (cs ++ [(P_P2P, relay); (P_CIRCUIT, []); (P_P2P, target)]) = Some target /\
  id_from_p2p_addr (cs ++ [(P_P2P, relay); (P_CIRCUIT, [])]) = None.
Proof.
  intros cs relay target. split.
  - change [(P_P2P, relay); (P_CIRCUIT, []); (P_P2P, target)]
      with ([(P_P2P, relay); (P_CIRCUIT, [])] ++ [(P_P2P, target)]).
    rewrite app_assoc. apply id_from_p2p_addr_last.
  - change [(P_P2P, relay); (P_CIRCUIT, [])] with ([(P_P2P, relay)] ++ [(P_CIRCUIT, [])]).
    rewrite app_assoc. rewrite id_from_p2p_addr_snoc. reflexivity.
Qed.

(* ---- vouchers ------------------------------------------------------------------------------ *)
Lemma voucher_roundtrip_l : forall relay peer e c1 d1 c2 d2,
  mh_decode relay = Some (c1, d1) -> mh_decode peer = Some (c2, d2) ->
  nlen relay < 2 ^ 64 -> nlen peer < 2 ^ 64 -> e < 2 ^ 64 ->
  voucher_fields (marshal_voucher relay peer e) = Some (relay, peer, e).
Proof.
  intros relay peer e c1 d1 c2 d2 H1 H2 L1 L2 He. unfold voucher_fields, marshal_voucher.
  rewrite pb_fields_len_field by (try exact L1; lia).
  rewrite pb_fields_len_field by (try exact L2; lia).
  rewrite <- (app_nil_r (put_varint_field 3 e)).
  rewrite pb_fields_varint_field by (try exact He; lia).
  rewrite pb_fields_nil.
  cbn [last_bytes last_varint N.eqb Pos.eqb opt_bytes].
  rewrite H1, H2. rewrite N.mod_small by exact He. reflexivity.
Qed.

Lemma mh_decode_nil : mh_decode [] = None.
Proof. reflexivity. Qed.

(* a payload without the peer field (or without the relay field) is not a voucher *)
Lemma voucher_needs_peer_l : forall relay e, nlen relay < 2 ^ 64 -> e < 2 ^ 64 ->
  voucher_fields (put_len_field 1 relay ++ put_varint_field 3 e) = None.
Proof.
  intros relay e L He. unfold voucher_fields.
  rewrite pb_fields_len_field by (try exact L; lia).
  rewrite <- (app_nil_r (put_varint_field 3 e)).
  rewrite pb_fields_varint_field by (try exact He; lia).
  rewrite pb_fields_nil.
  cbn [last_bytes last_varint N.eqb Pos.eqb opt_bytes]. rewrite mh_decode_nil.
  destruct (mh_decode relay); reflexivity.
Qed.

(* ---- the inlining switch -------------------------------------------------------------------- *)
Lemma extract_key_flag_l : forall inl mx m dg, nlen m <= 2 ^ 31 - 1 -> length dg = 32%nat ->
  extract_key (id_of_key_flag inl mx m dg) = if inl && (nlen m <=? mx) then ExKey m else ExNoKey.
Proof.
  intros inl mx m dg Hm Hd. unfold id_of_key_flag. destruct inl; cbn [andb].
  - apply id_embeds_key_l; assumption.
  - unfold extract_key. rewrite mh_roundtrip_l; [reflexivity|reflexivity|].
    unfold nlen. rewrite Hd. vm_compute. discriminate.
Qed.

(* ---- the monitor's verify-exactness clause holds for every ideal scheme ------------------- *)
Local Open Scope Z_scope.
Section Exact.
  Variable K : Type.
  Variable K_eqb : K -> K -> bool.
  Hypothesis K_eqb_eq : forall a b, K_eqb a b = true <-> a = b.
  Variable verify : K -> bytes -> bytes -> bool.
  Variable origin : bytes -> option (K * bytes).
  Hypothesis verify_ideal : forall k m s, verify k m s = true <-> origin s = Some (k, m).

  (* s was issued by key k on m; any key k2 and message m2 are then tried with s *)
  Lemma monitor7_accepts_ideal_l : forall k m s k2 m2,
    origin s = Some (k, m) ->
    monitor7 (boolz (K_eqb k2 k)) m s m2 s (boolz (verify k2 m2 s)) = [].
  Proof.
    intros k m s k2 m2 Ho. unfold monitor7.
    destruct (verify k2 m2 s) eqn:V.
    - apply verify_ideal in V. rewrite Ho in V. injection V as Hk Hm. subst k2 m2.
      assert (E : K_eqb k k = true) by (apply K_eqb_eq; reflexivity). rewrite E.
      unfold beq. cbn [boolz Z.eqb Pos.eqb negb orb andb first_fail]. rewrite !bytes_eqb_refl.
      reflexivity.
    - cbn [boolz Z.eqb negb orb first_fail].
      destruct (K_eqb k2 k) eqn:E; cbn [boolz Z.eqb Pos.eqb andb].
      + apply K_eqb_eq in E. subst k2. unfold beq.
        destruct (bytes_eqb m m2) eqn:Em; cbn [andb negb orb first_fail]; [|reflexivity].
        apply bytes_eqb_eq in Em. subst m2.
        exfalso. apply verify_ideal in Ho. congruence.
      + reflexivity.
  Qed.
End Exact.

(* ---- round 3: private keys ---------------------------------------------------------------- *)
Local Open Scope N_scope.

Lemma privkey_marshal_injective_l : forall kt d kt' d',
  kt < 2 ^ 32 -> kt' < 2 ^ 32 -> nlen d < 2 ^ 64 -> nlen d' < 2 ^ 64 ->
  marshal_privkey kt d = marshal_privkey kt' d' -> kt = kt' /\ d = d'.
Proof. exact marshal_pubkey_injective_l. Qed.

Lemma privkey_proto_roundtrip_l : forall kt d, kt < 2 ^ 32 -> nlen d < 2 ^ 64 ->
  parse_privkey (marshal_privkey kt d) = Some (kt, d).
Proof. exact pubkey_proto_roundtrip_l. Qed.

Lemma ed25519_priv_parts_unchecked_raw : forall seed pub, length seed = 32%nat -> length pub = 32%nat ->
  ed25519_priv_parts_unchecked (ed25519_priv_raw seed pub) = Some (seed, pub).
Proof.
  intros seed pub Hs Hp. unfold ed25519_priv_parts_unchecked, ed25519_priv_raw, nlen.
  rewrite app_length, Hs, Hp. cbn [Nat.add N.of_nat N.eqb Pos.of_succ_nat Pos.succ Pos.eqb].
  change (N.of_nat 64 =? 64) with true. cbv iota.
  rewrite <- Hs at 1. rewrite firstn_app, Nat.sub_diag, firstn_all, firstn_O, app_nil_r.
  rewrite <- Hs. rewrite skipn_app, Nat.sub_diag, skipn_all. reflexivity.
Qed.

(* the encoding of an Ed25519 private key determines both halves *)
Lemma ed25519_priv_raw_injective : forall s p s' p',
  length s = 32%nat -> length p = 32%nat -> length s' = 32%nat -> length p' = 32%nat ->
  ed25519_priv_raw s p = ed25519_priv_raw s' p' -> s = s' /\ p = p'.
Proof.
  intros s p s' p' H1 H2 H3 H4 H.
  pose proof (ed25519_priv_parts_unchecked_raw s p H1 H2) as R. rewrite H in R.
  rewrite ed25519_priv_parts_unchecked_raw in R by assumption. inversion R. split; reflexivity.
Qed.

Lemma ed25519_priv_equal_iff : forall a b, ed25519_priv_equal a b = true <-> a = b.
Proof.
  intros [s p] [s' p']. unfold ed25519_priv_equal. cbn [fst snd].
  rewrite andb_true_iff, !bytes_eqb_eq. split.
  - intros [-> ->]. reflexivity.
  - intros H. inversion H. split; reflexivity.
Qed.

(* the key written by Raw() of a generated key (public half = derive seed) reads back *)
Lemma ed25519_priv_roundtrip_l : forall derive seed,
  length seed = 32%nat -> length (derive seed) = 32%nat ->
  ed25519_priv_parts derive (ed25519_priv_raw seed (derive seed)) = Some (seed, derive seed).
Proof.
  intros derive seed H1 H2. unfold ed25519_priv_parts.
  rewrite ed25519_priv_parts_unchecked_raw by assumption. rewrite bytes_eqb_refl. reflexivity.
Qed.

(* REPAIRED (a5f52a7): every blob that unmarshals is consistent - its public half is the
   public key of its seed, for every derive function *)
Definition ed25519_priv_consistent (derive : bytes -> bytes) : Prop :=
  forall data s p, ed25519_priv_parts derive data = Some (s, p) -> p = derive s.

Lemma ed25519_priv_consistent_l : forall derive, ed25519_priv_consistent derive.
Proof.
  intros derive data s p H. unfold ed25519_priv_parts in H.
  destruct (ed25519_priv_parts_unchecked data) as [[s' p']|]; [|discriminate].
  destruct (bytes_eqb p' (derive s')) eqn:E; [|discriminate].
  inversion H; subst. apply bytes_eqb_eq. exact E.
Qed.

(* hence, under an ideal signature scheme in which signing with seed s issues signatures for
   the public key derive s, whatever unmarshals signs for its own GetPublic() (= its public
   half): the monitor's clause 192 *)
Section SignsForOwnKey.
  Variable derive : bytes -> bytes.
  Variable verify : bytes -> bytes -> bytes -> bool.
  Variable origin : bytes -> option (bytes * bytes).
  Variable sign : bytes -> bytes -> bytes.
  Hypothesis verify_ideal : forall k m s, verify k m s = true <-> origin s = Some (k, m).
  Hypothesis sign_origin : forall seed m, origin (sign seed m) = Some (derive seed, m).

  Lemma ed25519_unmarshalled_signs_for_own_key_l : forall data seed pub m,
    ed25519_priv_parts derive data = Some (seed, pub) -> verify pub m (sign seed m) = true.
  Proof.
    intros data seed pub m H. apply ed25519_priv_consistent_l in H. subst pub.
    apply verify_ideal. apply sign_origin.
  Qed.
End SignsForOwnKey.

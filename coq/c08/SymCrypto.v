(* Symbolic (Dolev-Yao) cryptography: ideal signature / MAC / hash as
   computation rules on a free term algebra, an abstract "ideal signature
   scheme" interface as Section variables + hypotheses, and the adversary's
   derivability.  Reusable: stdlib only.   From Verif Require Import c08.SymCrypto.

   Part 1  Section IdealSig: a signature scheme given by
             verify : K -> M -> S -> bool      (public key, message, signature value)
             origin : S -> option (K * M)      (which key/message a value was issued for;
                                                None = never issued: garbage, forgery attempt)
           with the single hypothesis  verify k m s = true <-> origin s = Some (k, m).
           Several values may have the same origin (randomised or malleable
           schemes: ECDSA), one value never has two.
           Results: sig_exact, sig_complete, sig_wrong_key, sig_wrong_msg.
   Part 2  the free term algebra [term] (Bytes, Key, Pub, Sig, Mac, Hash, Pair,
           Garbage), decidable equality [term_eqb] (term_eqb_eq), and the
           computation rules sym_verify / sym_mac_check; sym_ideal shows that the
           algebra satisfies the hypothesis of Part 1 (so it is consistent), and
           it is what makes models executable.
   Part 3  derivability [knows kn t] from a knowledge set closed under
           projection, and sig_unforgeable / mac_unforgeable: a signature (MAC) under a
           key the adversary cannot derive is derivable only if it already occurs in
           what honest parties sent. *)
From Coq Require Import List NArith Bool.
Import ListNotations.
Local Open Scope N_scope.

(* ---- Part 1: the ideal signature interface ------------------------------------ *)
Section IdealSig.
  Variables K M S : Type.
  Variable verify : K -> M -> S -> bool.
  Variable origin : S -> option (K * M).
  Hypothesis verify_ideal : forall k m s, verify k m s = true <-> origin s = Some (k, m).

  (* a value verifies for exactly one (key, message) *)
  Theorem sig_exact : forall k m k' m' s,
    verify k m s = true -> verify k' m' s = true -> k = k' /\ m = m'.
  Proof.
    intros k m k' m' s H1 H2. apply verify_ideal in H1. apply verify_ideal in H2.
    rewrite H1 in H2. inversion H2. split; reflexivity.
  Qed.

  (* what was issued for (k, m) verifies under k for m *)
  Theorem sig_complete : forall k m s, origin s = Some (k, m) -> verify k m s = true.
  Proof. intros k m s H. apply verify_ideal. exact H. Qed.

  Theorem sig_wrong_key : forall k m s k', origin s = Some (k, m) -> k' <> k -> verify k' m s = false.
  Proof.
    intros k m s k' H Hk. destruct (verify k' m s) eqn:E; [|reflexivity].
    apply verify_ideal in E. rewrite H in E. inversion E. congruence.
  Qed.

  Theorem sig_wrong_msg : forall k m s m', origin s = Some (k, m) -> m' <> m -> verify k m' s = false.
  Proof.
    intros k m s m' H Hm. destruct (verify k m' s) eqn:E; [|reflexivity].
    apply verify_ideal in E. rewrite H in E. inversion E. congruence.
  Qed.

  Theorem sig_never_issued : forall k m s, origin s = None -> verify k m s = false.
  Proof.
    intros k m s H. destruct (verify k m s) eqn:E; [|reflexivity].
    apply verify_ideal in E. congruence.
  Qed.
End IdealSig.

(* ---- Part 2: terms --------------------------------------------------------------- *)
Inductive term :=
| TBytes (b : list N)              (* public data *)
| TKey (k : N)                     (* private signing key / MAC secret number k *)
| TPub (k : N)                     (* its public key *)
| TSig (k : N) (m : term) (r : N)  (* a signature by key k on m; r = randomness / re-encoding *)
| TMac (k : N) (m : term)
| THash (m : term)
| TPair (a b : term)
| TGarbage (n : N).

Fixpoint nlist_eqb (a b : list N) : bool :=
  match a, b with
  | [], [] => true
  | x :: r, y :: s => (x =? y) && nlist_eqb r s
  | _, _ => false
  end.

Fixpoint term_eqb (a b : term) : bool :=
  match a, b with
  | TBytes x, TBytes y => nlist_eqb x y
  | TKey x, TKey y => x =? y
  | TPub x, TPub y => x =? y
  | TSig k m r, TSig k' m' r' => (k =? k') && term_eqb m m' && (r =? r')
  | TMac k m, TMac k' m' => (k =? k') && term_eqb m m'
  | THash m, THash m' => term_eqb m m'
  | TPair x y, TPair x' y' => term_eqb x x' && term_eqb y y'
  | TGarbage x, TGarbage y => x =? y
  | _, _ => false
  end.

Lemma nlist_eqb_eq : forall a b, nlist_eqb a b = true <-> a = b.
Proof.
  induction a as [|x a IH]; intros [|y b]; cbn; split; intro H; try reflexivity; try discriminate.
  - apply andb_true_iff in H. destruct H as [H1 H2]. apply N.eqb_eq in H1. apply IH in H2. congruence.
  - inversion H; subst. rewrite N.eqb_refl. cbn. apply IH. reflexivity.
Qed.

Lemma term_eqb_eq : forall a b, term_eqb a b = true <-> a = b.
Proof.
  induction a; intros t2; destruct t2; cbn; split; intro H; try discriminate; try reflexivity.
  - apply nlist_eqb_eq in H. congruence.
  - inversion H. apply nlist_eqb_eq. reflexivity.
  - apply N.eqb_eq in H. congruence.
  - inversion H. apply N.eqb_refl.
  - apply N.eqb_eq in H. congruence.
  - inversion H. apply N.eqb_refl.
  - apply andb_true_iff in H. destruct H as [H H3]. apply andb_true_iff in H. destruct H as [H1 H2].
    apply N.eqb_eq in H1. apply N.eqb_eq in H3. apply IHa in H2. congruence.
  - inversion H; subst. rewrite !N.eqb_refl. rewrite (proj2 (IHa _) eq_refl). reflexivity.
  - apply andb_true_iff in H. destruct H as [H1 H2]. apply N.eqb_eq in H1. apply IHa in H2. congruence.
  - inversion H; subst. rewrite N.eqb_refl. rewrite (proj2 (IHa _) eq_refl). reflexivity.
  - apply IHa in H. congruence.
  - inversion H; subst. apply IHa. reflexivity.
  - apply andb_true_iff in H. destruct H as [H1 H2]. apply IHa1 in H1. apply IHa2 in H2. congruence.
  - inversion H; subst. rewrite (proj2 (IHa1 _) eq_refl), (proj2 (IHa2 _) eq_refl). reflexivity.
  - apply N.eqb_eq in H. congruence.
  - inversion H. apply N.eqb_refl.
Qed.

(* perfect cryptography as computation rules *)
Definition sym_verify (p m s : term) : bool :=
  match p, s with
  | TPub k, TSig k' m' _ => (k =? k') && term_eqb m m'
  | _, _ => false
  end.

Definition sym_origin (s : term) : option (term * term) :=
  match s with
  | TSig k m _ => Some (TPub k, m)
  | _ => None
  end.

Definition sym_sign (k : N) (m : term) (r : N) : term := TSig k m r.

Definition sym_mac_check (k : N) (m tag : term) : bool := term_eqb tag (TMac k m).

(* the algebra is an ideal signature scheme: the hypothesis of Part 1 is satisfiable *)
Theorem sym_ideal : forall p m s, sym_verify p m s = true <-> sym_origin s = Some (p, m).
Proof.
  intros p m s. unfold sym_verify, sym_origin. split.
  - destruct p; try discriminate. destruct s; try discriminate. intros H.
    apply andb_true_iff in H. destruct H as [H1 H2]. apply N.eqb_eq in H1. apply term_eqb_eq in H2.
    congruence.
  - destruct s; try discriminate. intros H. inversion H; subst.
    rewrite N.eqb_refl. cbn. apply term_eqb_eq. reflexivity.
Qed.

Theorem sym_sign_verifies : forall k m r, sym_verify (TPub k) m (sym_sign k m r) = true.
Proof. intros. apply sym_ideal. reflexivity. Qed.

(* different randomness / encodings of a signature carry the same content:
   malleability does not change what is signed *)
Theorem sym_malleable_same_content : forall k m r r' p m',
  sym_verify p m' (TSig k m r) = sym_verify p m' (TSig k m r').
Proof. intros. destruct p; reflexivity. Qed.

(* ---- Part 3: what an adversary can build ------------------------------------------- *)
Definition mem_term (t : term) (kn : list term) : bool := existsb (term_eqb t) kn.

(* close a knowledge set under projection of pairs (fuel = total size suffices) *)
Fixpoint tsize (t : term) : nat :=
  match t with
  | TPair a b => S (tsize a + tsize b)
  | TSig _ m _ | TMac _ m | THash m => S (tsize m)
  | _ => 1%nat
  end.

Fixpoint analyse_f (fuel : nat) (todo acc : list term) : list term :=
  match fuel with
  | O => todo ++ acc
  | S f =>
      match todo with
      | [] => acc
      | TPair a b :: r => analyse_f f (a :: b :: r) (TPair a b :: acc)
      | (TSig _ m _ as t) :: r => analyse_f f (m :: r) (t :: acc)   (* signatures reveal the message *)
      | t :: r => analyse_f f r (t :: acc)
      end
  end.
Definition analyse (kn : list term) : list term :=
  analyse_f (fold_right (fun t n => (tsize t + n)%nat) 1%nat kn) kn [].

(* synthesis over an analysed knowledge set *)
Fixpoint knows (kn : list term) (t : term) : bool :=
  mem_term t kn ||
  match t with
  | TBytes _ => true                               (* public data *)
  | TPub _ => true                                 (* public keys are public *)
  | TGarbage _ => true
  | TKey _ => false
  | TSig k m _ => mem_term (TKey k) kn && knows kn m
  | TMac k m => mem_term (TKey k) kn && knows kn m
  | THash m => knows kn m
  | TPair a b => knows kn a && knows kn b
  end.

Theorem sig_unforgeable : forall kn k m r,
  mem_term (TKey k) kn = false -> knows kn (TSig k m r) = true -> mem_term (TSig k m r) kn = true.
Proof.
  intros kn k m r Hk H. cbn [knows] in H. rewrite Hk in H. cbn in H.
  rewrite orb_false_r in H. exact H.
Qed.

Theorem mac_unforgeable : forall kn k m,
  mem_term (TKey k) kn = false -> knows kn (TMac k m) = true -> mem_term (TMac k m) kn = true.
Proof.
  intros kn k m Hk H. cbn [knows] in H. rewrite Hk in H. cbn in H.
  rewrite orb_false_r in H. exact H.
Qed.

Theorem key_underivable : forall kn k, mem_term (TKey k) kn = false -> knows kn (TKey k) = false.
Proof. intros kn k H. cbn [knows]. rewrite H. reflexivity. Qed.

(* C08 - the property as decidable predicates over what the implementation
   answered (monitor_case), the model-vs-implementation comparison
   (conform_case) and the wire format.  No proofs here.

   WIRE FORMAT.  One case per line, integers.  A byte string travels as
   "len b1 .. blen" with 0 <= bi <= 255 (written <x> below).  First integer =
   case kind.

   1 hi lo <enc>             binary.AppendUvarint(nil, hi*2^32+lo) = enc
   2 <buf> (ok hi lo n)x3    the three bounded decoders on buf: encoding/binary.Uvarint,
                             protowire.ConsumeVarint, go-varint.FromUvarint
                             (ok=1: value hi*2^32+lo, n bytes consumed)
   3 <d> <t> <p> <out>       makeUnsigned(d, t, p) = out          (in-package call)
   4 <d1> <t1> <p1> <out1> <d2> <t2> <p2> <out2>
                             two triples whose plain concatenations coincide
   5 kt <raw> <marshalled> <digest> <id> <b58> <cid>  f1..f8
                             a freshly generated key: kt = key type, raw = PubKey.Raw(),
                             marshalled = MarshalPublicKey, digest = SHA-256(marshalled)
                             (computed by the harness), id = IDFromPublicKey, b58 =
                             id.String(), cid = ToCid(id).String(); flags:
                             f1 UnmarshalPublicKey(marshalled) equals the key
                             f2 UnmarshalPrivateKey(MarshalPrivateKey(sk)) equals sk
                             f3 IDFromPublicKey again gives the same id (and IDFromPrivateKey)
                             f4 Decode(b58) = id      f5 Decode(cid) = id
                             f6 ExtractPublicKey: 0 = equal key, 1 = ErrNoPublicKey,
                                2 = other error, 3 = a different key
                             f7 id.MatchesPublicKey(pk)
                             f8 IDFromBytes(id.Marshal()) = id, UnmarshalText/JSON round trip
   6 mode nkeys {kt <raw> <canon> <digest> <goid>}* nseals {kidx <dom> <pt> <pl> <sig>}*
     <envbytes> <domasked>  h_ok h_kt <h_kd> kdec  um_ok <um_pt> <um_pl>
     res <acc_signer> <acc_pt> <acc_pl> <acc_id>  pr_res <rec_id>
                             one consumption attempt of a (mutated) envelope; see below
   7 same_key <msg> <sig> <msg2> <sig2> res
                             Verify(key2, msg2, sig2) where sig = Sign(key1, msg);
                             same_key = 1 iff key2 is key1's public key; res 0 false,
                             1 true, 2 error
   8 <bytes> h_ok h_kt <h_kd> cls rt     UnmarshalPublicKey on edited bytes: cls 0 protobuf
                             error, 1 bad key type, 2 key data rejected, 3 accepted;
                             rt = 1 iff the accepted key survives Marshal/Unmarshal
   9 <text> res <id>         peer.Decode(text): res 1 accepted with id
   10 <bytes> cast_ok ex     IDFromBytes ok?; ExtractPublicKey: 0 key, 1 ErrNoPublicKey, 2 error
   11 kt <raw> <canon> <goid> <edited> cls eq <remarsh> <id2>
                             a non-canonical serialization [edited] of the key whose Raw() is raw,
                             MarshalPublicKey canon and IDFromPublicKey goid: cls as in kind 8; when
                             accepted: eq = parsed.Equals(original) (both ways), remarsh =
                             MarshalPublicKey(parsed), id2 = IDFromPublicKey(parsed)
   12 <canon> <digest> <goid> <probe> matches
                             peer.ID(probe).MatchesPublicKey(pk)
   13 bits priv cls rt       an RSA key whose modulus has exactly [bits] bits, unmarshalled as a
                             public (priv = 0) or private (priv = 1) key: cls 3 accepted, else
                             rejected; rt = 1 iff it then survives Marshal/Unmarshal unchanged

   14 inl_gen inl_ext <canon> <digest> <id> ex
                             id = IDFromPublicKey(pk) computed with AdvancedEnableInlining = inl_gen;
                             ex = id.ExtractPublicKey() with AdvancedEnableInlining = inl_ext
                             (0 equal key, 1 ErrNoPublicKey, 2 other error, 3 a different key)
   15 api ispr <goid> <payload> <sealed_pid> <sealed_rest> got_ok <got_pid> <got_rest>
      pr_res <stored_pid> <stored_addrs> <sealed_addrs>
                             Seal(rec, sk); the producer then MUTATES rec; the same *Envelope is
                             consumed in-process (api 0 Record(), 1 TypedRecord(fresh), 2 pstoremem
                             / 3 pstoreds ConsumePeerRecord).  sealed_* = a fresh decoding of
                             env.RawPayload (= payload), got_* = what the envelope handed out,
                             stored_* = where and what the peerstore stored; goid = signer's ID
   16 n {code <value>}*n res <id> s_ok <s_id> a_ok <a_id>
                             a multiaddr built from these components; IDFromP2PAddr, SplitAddr and
                             AddrInfoFromP2pAddr on it (ok flag, ID)
   17 api reuse <payload> res <relay> <peer> exp_hi exp_lo
                             a relay voucher payload sealed by hand and consumed (api 0
                             ConsumeEnvelope, 1 ConsumeTypedEnvelope; reuse = 1: into a destination
                             that already holds another voucher): res as in kind 6; the voucher's
                             fields after consumption

   19 kt region <orig> <mut> <derived> cls eq_any eq_all remeq selfok crossok
                             MarshalPrivateKey(sk) = orig, one edit of it = mut (region: 0 none,
                             1 protobuf framing, 2 Ed25519 seed, 3 Ed25519 public half, 4 other key
                             data, 5 truncation, 6 extension, 7 legacy 96-byte Ed25519 form, 8 legacy
                             form with diverging copies of the public half, 9 a standard-library Ed25519 key
                             with an altered seed imported with KeyPairFromStdKey: cls = 4, mut = its
                             MarshalPrivateKey; only the equality clause applies); derived = for an Ed25519
                             blob, the public key of its first 32 data bytes (ed25519.NewKeyFromSeed,
                             computed by the harness), else empty; UnmarshalPrivateKey(mut):
                             cls as in kind 8; when accepted: eq_any / eq_all = some / all of
                             Equals (both directions) and KeyEqual say "equal to sk", remeq =
                             MarshalPrivateKey(parsed) = orig, selfok = a signature made with the
                             parsed key verifies under the parsed key's own GetPublic(), crossok = it
                             verifies under the ORIGINAL public key

   20 book <prdom> <prcodec> nkeys {key row}* nseals {seal row}* nkd {kt <kd> kdec}* nops {op}*
                             a HISTORY of one address book (book 0 pstoremem, 1 pstoreds with
                             CacheSize 0, 2 pstoreds with a cache); prdom / prcodec =
                             peer.PeerRecordEnvelopeDomain / PeerRecordEnvelopePayloadType as read
                             from the code; key and seal rows as in kind 6; the kd table holds the
                             key-type specific unmarshaller's answer (kdec as in kind 6) for every
                             (key type, key data) that occurs in a byte string of the history.  Ops:
                             1 <env> res <asigner> <apt> <apl> <aid> prres <recid>
                               ConsumeEnvelope(env, prdom) (res, acc_* as in kind 6) and, when it
                               returned a PeerRecord, book.ConsumePeerRecord: prres 0 not attempted,
                               1 stored, 2 "signing key does not match", 3 refused otherwise (older
                               than the stored record); recid = the record's PeerID
                             2 <p> ok <gsigner> <gpt> <gpl> <gid> reval
                               book.GetPeerRecord(p): ok = 1 iff an envelope came back; then its
                               MarshalPublicKey(PublicKey), PayloadType, RawPayload,
                               IDFromPublicKey(PublicKey); reval = 1 iff its Marshal() passes
                               ConsumeEnvelope(.., prdom) again (informational)
                             3 <p> <raw>   the harness overwrites CertifiedRecord.Raw of p's
                               datastore entry with raw (nothing happens when p has no entry)
                             4             restart: the book is closed and a new one opened over
                               the same datastore

   Kind 6 in detail.  The key table lists every key of the case (canon =
   MarshalPublicKey(pk), goid = IDFromPublicKey(pk) as computed by Go), the seal
   table every signature value issued in the case: Sign(key kidx,
   makeUnsigned(dom, pt, pl)) = sig.  h_* = the harness's own proto.Unmarshal of
   envbytes into pb.Envelope (ok, PublicKey.GetType(), GetData()); kdec = answer
   of the key-type specific unmarshaller on that (type, data): -1 rejected, -2 a
   valid key that is not in the table, i >= 0 the table index of an equal key,
   -3 not applicable.  um_* = UnmarshalEnvelope (no validation).  res = outcome
   of ConsumeEnvelope / ConsumeTypedEnvelope(domasked): 0 "failed when
   unmarshalling", 1 accepted, 2 "failed to validate", 3 validated but the
   payload did not unmarshal as a record, 4 other; when accepted, acc_* are the
   returned envelope's MarshalPublicKey(PublicKey), PayloadType, RawPayload and
   IDFromPublicKey(PublicKey).
   mode 2/3: the accepted envelope was then given to pstoremem / pstoreds
   ConsumePeerRecord: pr_res 0 not attempted, 1 accepted, 2 rejected, and rec_id
   = the decoded record's PeerID.

   THE MONITOR (what the property states, judged from observations only):
   kind 6: accepted => some seal event of the case has exactly the accepted
   (signer, domain asked, payload type, payload); the signature bytes are not
   content.  Peerstore accepted => the record's peer ID is the ID of the
   signing key, byte for byte.  kind 11: equal keys have equal IDs.  kind 12:
   MatchesPublicKey iff the ID is IDFromPublicKey(pk).  kind 13: every RSA size
   that can be generated ([MinRsaKeyBits, maxRsaKeyBits]) unmarshals and round-trips.
   kind 19: a key reported equal to sk is interchangeable with sk; every accepted
   private key signs for its own public key; the untouched blob round-trips.
   kind 20: every ConsumeEnvelope / ConsumePeerRecord step as in kind 6 (domain asked =
   prdom); every envelope GetPeerRecord hands out has exactly the (signer, prdom, payload
   type, payload) of some seal event - whatever was done to the stored bytes in between.
   kind 7: verified => the signer's key and the signed message;
   the untouched triple verifies.  kind 5: the round trips.  kinds 3/4:
   reading the pre-image back gives exactly the triple; equal pre-images only
   for equal triples.  kind 1: the prefix decodes to the value. *)
From Coq Require Import List NArith ZArith Bool.
From Verif Require Import lib.Wire c08.Varint c08.Protobuf c08.Digits c08.Base58 c08.Model gen.Consts_c08.
Import ListNotations.
Local Open Scope Z_scope.

Definition obind {A B} (o : option A) (f : A -> option B) : option B :=
  match o with Some a => f a | None => None end.
Notation "'do' x <- e ; k" := (obind e (fun x => k)) (at level 200, x pattern, e at level 100, k at level 200).

(* ---- reading the line ------------------------------------------------------ *)
Definition get_z (l : list Z) : option (Z * list Z) :=
  match l with x :: r => Some (x, r) | [] => None end.

Definition byte_z_ok (z : Z) : bool := (0 <=? z) && (z <=? 255).

Definition get_bytes (l : list Z) : option (bytes * list Z) :=
  match l with
  | n :: r =>
      if (0 <=? n) && (n <=? zlen r) then
        let b := ztake n r in
        if forallb byte_z_ok b then Some (map Z.to_N b, zdrop n r) else None
      else None
  | [] => None
  end.

Definition get_u64 (l : list Z) : option (N * list Z) :=
  match l with
  | hi :: lo :: r =>
      if (0 <=? hi) && (hi <? 2 ^ 32) && (0 <=? lo) && (lo <? 2 ^ 32)
      then Some (Z.to_N (hi * 2 ^ 32 + lo), r) else None
  | _ => None
  end.

Definition beq := bytes_eqb.
Definition mism (code : Z) : list Z := [ERR_MISMATCH; code].
Definition viol (code : Z) : list Z := [ERR_PROPERTY; code].
Definition malformed (code : Z) : list Z := [ERR_MALFORMED; code].

(* first failing check *)
Fixpoint first_fail (checks : list (bool * Z)) (mk : Z -> list Z) : list Z :=
  match checks with
  | [] => []
  | (true, _) :: r => first_fail r mk
  | (false, c) :: _ => mk c
  end.

Definition max_inline : N := Z.to_N maxInlineKeyLength.
Definition rsa_ok (bits : Z) : bool := rsa_size_ok (Z.to_N minRsaKeyBits) (Z.to_N maxRsaKeyBits) (Z.to_N bits).

(* ---- kind 1/2: varints ------------------------------------------------------ *)
Definition dec_obs := (Z * N * Z)%type.   (* ok, value, consumed *)
Definition get_dec_obs (l : list Z) : option (dec_obs * list Z) :=
  do (ok, r1) <- get_z l; do (v, r2) <- get_u64 r1; do (n, r3) <- get_z r2; Some ((ok, v, n), r3).

Definition dec_agrees (buf : bytes) (m : option (N * bytes)) (o : dec_obs) : bool :=
  let '(ok, v, n) := o in
  match m with
  | Some (v', r) => (ok =? 1) && (N.eqb v v') && (n =? zlen buf - zlen r)
  | None => ok =? 0
  end.

(* ---- kind 5 ------------------------------------------------------------------ *)
Definition dec_is (r : decode_result) (id : bytes) : bool :=
  match r with DecId x => beq x id | _ => false end.

Definition conform5 (kt : N) (raw marsh digest id b58 cid : bytes) (f6 : Z) : list Z :=
  first_fail
    [ (beq (marshal_pubkey kt raw) marsh, 51);
      (match parse_pubkey marsh with Some (t, d) => N.eqb t kt && beq d raw | None => false end, 52);
      (beq (id_of_key max_inline marsh digest) id, 53);
      (beq (id_b58 id) b58, 54);
      (beq (id_cid_text id) cid, 55);
      (dec_is (peer_decode b58) id, 56);
      (dec_is (peer_decode cid) id, 57);
      (match extract_key id with
       | ExKey m => beq m marsh && (f6 =? 0)
       | ExNoKey => f6 =? 1
       | ExInvalid => false
       end, 58) ] mism.

Definition monitor5 (id : bytes) (f1 f2 f3 f4 f5 f6 f7 f8 : Z) : list Z :=
  first_fail
    [ (f1 =? 1, 1); (f2 =? 1, 2); (f3 =? 1, 3); (f4 =? 1, 4); (f5 =? 1, 5);
      (negb (f6 =? 3), 6);
      (* the key is recoverable from IDs that embed it (identity multihash) *)
      (match id with 0%N :: _ => f6 =? 0 | _ => true end, 7);
      (f7 =? 1, 8); (f8 =? 1, 9) ] viol.

(* ---- kind 6 ------------------------------------------------------------------ *)
Record keyrow := mkKey { k_kt : N; k_raw : bytes; k_canon : bytes; k_digest : bytes; k_goid : bytes }.
Record sealrow := mkSeal { s_kidx : Z; s_dom : bytes; s_pt : bytes; s_pl : bytes; s_sig : bytes }.

Fixpoint get_keys (n : nat) (l : list Z) : option (list keyrow * list Z) :=
  match n with
  | O => Some ([], l)
  | S n' =>
      do (kt, r0) <- get_z l;
      do (raw, r1) <- get_bytes r0; do (canon, r2) <- get_bytes r1;
      do (dg, r3) <- get_bytes r2; do (goid, r4) <- get_bytes r3;
      do (ks, r5) <- get_keys n' r4;
      Some (mkKey (Z.to_N kt) raw canon dg goid :: ks, r5)
  end.

Fixpoint get_seals (n : nat) (l : list Z) : option (list sealrow * list Z) :=
  match n with
  | O => Some ([], l)
  | S n' =>
      do (ki, r0) <- get_z l;
      do (dom, r1) <- get_bytes r0; do (pt, r2) <- get_bytes r1;
      do (pl, r3) <- get_bytes r2; do (sg, r4) <- get_bytes r3;
      do (ss, r5) <- get_seals n' r4;
      Some (mkSeal ki dom pt pl sg :: ss, r5)
  end.

Record case6 := mkCase6 {
  c_mode : Z; c_keys : list keyrow; c_seals : list sealrow;
  c_env : bytes; c_dom : bytes;
  c_hok : Z; c_hkt : Z; c_hkd : bytes; c_kdec : Z;
  c_umok : Z; c_umpt : bytes; c_umpl : bytes;
  c_res : Z; c_asigner : bytes; c_apt : bytes; c_apl : bytes; c_aid : bytes;
  c_prres : Z; c_recid : bytes }.

Definition small_count (z : Z) : bool := (0 <=? z) && (z <=? 64).

Definition decode6 (l : list Z) : option case6 :=
  do (mode, r0) <- get_z l;
  do (nk, r1) <- get_z r0;
  if negb (small_count nk) then None else
  do (keys, r2) <- get_keys (Z.to_nat nk) r1;
  do (ns, r3) <- get_z r2;
  if negb (small_count ns) then None else
  do (seals, r4) <- get_seals (Z.to_nat ns) r3;
  do (env, r5) <- get_bytes r4; do (dom, r6) <- get_bytes r5;
  do (hok, r7) <- get_z r6; do (hkt, r8) <- get_z r7; do (hkd, r9) <- get_bytes r8;
  do (kdec, r10) <- get_z r9;
  do (umok, r11) <- get_z r10; do (umpt, r12) <- get_bytes r11; do (umpl, r13) <- get_bytes r12;
  do (res, r14) <- get_z r13;
  do (asg, r15) <- get_bytes r14; do (apt, r16) <- get_bytes r15; do (apl, r17a) <- get_bytes r16;
  do (aid, r17) <- get_bytes r17a;
  do (prres, r18) <- get_z r17; do (recid, r19) <- get_bytes r18;
  match r19 with
  | [] => Some (mkCase6 mode keys seals env dom hok hkt hkd kdec umok umpt umpl res asg apt apl aid prres recid)
  | _ => None
  end.

Definition key_at (keys : list keyrow) (i : Z) : option keyrow :=
  if i <? 0 then None else nth_error keys (Z.to_nat i).

(* the ideal signature scheme of the case: a signature value verifies exactly
   for the (key, message) it was issued for; values never issued verify for
   nothing *)
Definition table_verify (seals : list sealrow) (k : Z) (m s : bytes) : bool :=
  existsb (fun sl => beq (s_sig sl) s && (s_kidx sl =? k)
                     && beq (make_unsigned (s_dom sl) (s_pt sl) (s_pl sl)) m) seals.

Definition sig_known (seals : list sealrow) (s : bytes) : bool :=
  existsb (fun sl => beq (s_sig sl) s) seals.

Definition oracle_key_dec (kdec : Z) (_ : N) (_ : bytes) : option Z :=
  if (kdec =? -2) || (0 <=? kdec) then Some kdec else None.

Definition z_of_enum32 (v : N) : Z :=
  let z := Z.of_N v in if z <? 2 ^ 31 then z else z - 2 ^ 32.

Definition conform6 (c : case6) : list Z :=
  let pe := parse_envelope (c_env c) in
  let keys_ok :=
    forallb (fun k => beq (marshal_pubkey (k_kt k) (k_raw k)) (k_canon k)
                      && beq (id_of_key max_inline (k_canon k) (k_digest k)) (k_goid k)) (c_keys c) in
  let seals_ok :=
    forallb (fun sl => match key_at (c_keys c) (s_kidx sl) with Some _ => true | None => false end)
            (c_seals c) in
  let proto_ok :=
    match pe with
    | Some e => (c_hok c =? 1) && (z_of_enum32 (e_kt e) =? c_hkt c) && beq (e_kd e) (c_hkd c)
    | None => c_hok c =? 0
    end in
  let um := unmarshal_envelope Z (oracle_key_dec (c_kdec c)) (c_env c) in
  let um_ok :=
    match um with
    | Some (_, e) => (c_umok c =? 1) && beq (e_pt e) (c_umpt c) && beq (e_pl e) (c_umpl c)
    | None => c_umok c =? 0
    end in
  let pred := consume Z (oracle_key_dec (c_kdec c)) (table_verify (c_seals c)) (c_env c) (c_dom c) in
  let res := c_res c in
  let acc_matches (k : Z) (pt pl : bytes) :=
    beq pt (c_apt c) && beq pl (c_apl c) &&
    match key_at (c_keys c) k with
    | Some kr => beq (k_canon kr) (c_asigner c) && beq (k_goid kr) (c_aid c)
    | None => k =? -2          (* a key outside the table: nothing to compare with *)
    end in
  let consume_ok :=
    match pred with
    | CBadEnvelope => res =? 0
    | CAccept k pt pl => (res =? 3) || ((res =? 1) && acc_matches k pt pl)
    | CBadSignature =>
        match um with
        | Some (k, e) =>
            if sig_known (c_seals c) (e_sg e) then res =? 2
            else (* a signature value never issued: the ideal scheme rejects, a real
                    one may accept a malleated encoding; then the content must still
                    be the parsed one *)
              (res =? 2) || (res =? 3) || ((res =? 1) && acc_matches k (e_pt e) (e_pl e))
        | None => false
        end
    end in
  let pr_ok :=
    if (c_prres c =? 0) then true else
    match pred, um with
    | CAccept k _ pl, _ | CBadSignature, Some (k, mkEnv _ _ _ pl _) =>
        match record_peer_id pl, key_at (c_keys c) k with
        | Some rid, Some kr =>
            beq rid (c_recid c) &&
            (if beq rid (id_of_key max_inline (k_canon kr) (k_digest kr))
             then c_prres c =? 1 else c_prres c =? 2)
        | None, _ => false       (* the record did not unmarshal: no attempt possible *)
        | _, None => c_prres c =? 2
        end
    | _, _ => false
    end in
  first_fail [ (keys_ok, 60); (seals_ok, 69); (proto_ok, 61); (um_ok, 62); (consume_ok, 64); (pr_ok, 67) ] mism.

(* some seal event of the case has exactly the accepted (signer, domain asked,
   payload type, payload); the accepted key re-marshals to the signer's canonical
   bytes and has the signer's ID *)
Definition sealed_as_accepted (c : case6) : bool :=
  existsb (fun sl =>
             match key_at (c_keys c) (s_kidx sl) with
             | Some kr => beq (k_canon kr) (c_asigner c) && beq (k_goid kr) (c_aid c)
             | None => false
             end
             && beq (s_dom sl) (c_dom c) && beq (s_pt sl) (c_apt c) && beq (s_pl sl) (c_apl c))
          (c_seals c).

(* the record's peer ID is the ID (as computed by IDFromPublicKey) of the accepted signer *)
Definition id_is_signers (c : case6) : bool :=
  existsb (fun kr => beq (k_canon kr) (c_asigner c) && beq (k_goid kr) (c_recid c)) (c_keys c).

Definition monitor6 (c : case6) : list Z :=
  first_fail
    [ (negb (c_res c =? 1) || sealed_as_accepted c, 1);
      (negb (c_prres c =? 1) || ((c_res c =? 1) && id_is_signers c), 2) ] viol.

(* kind 7: Verify(key2, m2, s2) = res where s = Sign(key1, m); same = 1 iff key2 is key1's
   public key *)
Definition monitor7 (same : Z) (m s m2 s2 : bytes) (res : Z) : list Z :=
  first_fail
    [ (* verifies only under the signer's key, only for the signed message *)
      (negb (res =? 1) || ((same =? 1) && beq m m2), 71);
      (* and the untouched (key, message, signature) does verify *)
      (negb ((same =? 1) && beq m m2 && beq s s2) || (res =? 1), 72) ] viol.

(* kind 19: UnmarshalPrivateKey on an edited blob *)
Definition monitor19 (untouched : bool) (cls eqany eqall remeq selfok crossok : Z) : list Z :=
  first_fail
    [ (* marshalling then unmarshalling yields an equal key *)
      (negb untouched || (((cls =? 3) || (cls =? 4)) && (eqall =? 1) && (remeq =? 1)), 190);
      (* a key reported equal to the original is interchangeable with it: what it signs
         verifies under the original public key (an equal encoding is not demanded: RSA keeps a
         redundant private exponent next to the CRT values it signs with) *)
      (negb (((cls =? 3) || (cls =? 4)) && (eqany =? 1)) || (crossok =? 1), 191);
      (* whatever unmarshals signs for its own public key *)
      (negb (cls =? 3) || (selfok =? 1), 192) ] viol.

Fixpoint get_comps (n : nat) (l : list Z) : option (list (N * bytes) * list Z) :=
  match n with
  | O => Some ([], l)
  | S n' =>
      do (code, r0) <- get_z l; do (v, r1) <- get_bytes r0;
      do (cs, r2) <- get_comps n' r1;
      Some ((Z.to_N code, v) :: cs, r2)
  end.

(* ---- kind 20: a history of one address book --------------------------------------- *)
Inductive op20 :=
| Op20Consume (env : bytes) (res : Z) (asigner apt apl aid : bytes) (prres : Z) (recid : bytes)
| Op20Get (p : bytes) (ok : Z) (gsigner gpt gpl gid : bytes) (reval : Z)
| Op20Edit (p raw : bytes)
| Op20Reopen.

Record case20 := mkCase20 {
  h_book : Z; h_prdom : bytes; h_prcodec : bytes;
  h_keys : list keyrow; h_seals : list sealrow;
  h_kd : list (N * bytes * Z); h_ops : list op20 }.

Fixpoint get_kds (n : nat) (l : list Z) : option (list (N * bytes * Z) * list Z) :=
  match n with
  | O => Some ([], l)
  | S n' =>
      do (kt, r0) <- get_z l; do (kd, r1) <- get_bytes r0; do (a, r2) <- get_z r1;
      do (ks, r3) <- get_kds n' r2;
      Some ((Z.to_N kt, kd, a) :: ks, r3)
  end.

Fixpoint get_ops20 (n : nat) (l : list Z) : option (list op20 * list Z) :=
  match n with
  | O => Some ([], l)
  | S n' =>
      do (tag, r0) <- get_z l;
      do (o, r) <-
        (if tag =? 1 then
           do (env, r1) <- get_bytes r0; do (res, r2) <- get_z r1;
           do (asg, r3) <- get_bytes r2; do (apt, r4) <- get_bytes r3; do (apl, r5) <- get_bytes r4;
           do (aid, r6) <- get_bytes r5; do (prres, r7) <- get_z r6; do (recid, r8) <- get_bytes r7;
           Some (Op20Consume env res asg apt apl aid prres recid, r8)
         else if tag =? 2 then
           do (p, r1) <- get_bytes r0; do (ok, r2) <- get_z r1;
           do (gs, r3) <- get_bytes r2; do (gpt, r4) <- get_bytes r3; do (gpl, r5) <- get_bytes r4;
           do (gid, r6) <- get_bytes r5; do (rv, r7) <- get_z r6;
           Some (Op20Get p ok gs gpt gpl gid rv, r7)
         else if tag =? 3 then
           do (p, r1) <- get_bytes r0; do (raw, r2) <- get_bytes r1; Some (Op20Edit p raw, r2)
         else if tag =? 4 then Some (Op20Reopen, r0)
         else None);
      do (os, r') <- get_ops20 n' r;
      Some (o :: os, r')
  end.

Definition decode20 (l : list Z) : option case20 :=
  do (bk, r0) <- get_z l;
  do (prdom, r1) <- get_bytes r0; do (prcodec, r2) <- get_bytes r1;
  do (nk, r3) <- get_z r2;
  if negb (small_count nk) then None else
  do (keys, r4) <- get_keys (Z.to_nat nk) r3;
  do (ns, r5) <- get_z r4;
  if negb (small_count ns) then None else
  do (seals, r6) <- get_seals (Z.to_nat ns) r5;
  do (nd, r7) <- get_z r6;
  if negb (small_count nd) then None else
  do (kds, r8) <- get_kds (Z.to_nat nd) r7;
  do (no, r9) <- get_z r8;
  if negb (small_count no) then None else
  do (ops, r10) <- get_ops20 (Z.to_nat no) r9;
  match r10 with
  | [] => Some (mkCase20 bk prdom prcodec keys seals kds ops)
  | _ => None
  end.

(* the key decoder of a history: the recorded answers *)
Fixpoint table_key_dec (kds : list (N * bytes * Z)) (kt : N) (kd : bytes) : option Z :=
  match kds with
  | [] => None
  | (t, d, a) :: r =>
      if N.eqb t kt && beq d kd
      then (if (a =? -2) || (0 <=? a) then Some a else None)
      else table_key_dec r kt kd
  end.

Definition key_goid (keys : list keyrow) (k : Z) : bytes :=
  match key_at keys k with Some kr => k_goid kr | None => [] end.
Definition key_canon (keys : list keyrow) (k : Z) : bytes :=
  match key_at keys k with Some kr => k_canon kr | None => [] end.
Definition key_proto_of (keys : list keyrow) (k : Z) : N * bytes :=
  match key_at keys k with Some kr => (k_kt kr, k_raw kr) | None => (0%N, []) end.

(* some seal event has exactly this (signer, domain, payload type, payload); the signer is
   named by its canonical marshalled key and its ID *)
Definition sealed_content (keys : list keyrow) (seals : list sealrow)
           (signer sid dom pt pl : bytes) : bool :=
  existsb (fun sl =>
             match key_at keys (s_kidx sl) with
             | Some kr => beq (k_canon kr) signer && beq (k_goid kr) sid
             | None => false
             end
             && beq (s_dom sl) dom && beq (s_pt sl) pt && beq (s_pl sl) pl)
          seals.

Definition signer_has_id (keys : list keyrow) (signer rid : bytes) : bool :=
  existsb (fun kr => beq (k_canon kr) signer && beq (k_goid kr) rid) keys.

(* THE MONITOR of a history: judged from the observations and the seal events only *)
Definition monitor_op20 (keys : list keyrow) (seals : list sealrow) (prdom : bytes) (o : op20) : list Z :=
  match o with
  | Op20Consume _ res asg apt apl aid prres recid =>
      first_fail
        [ (negb (res =? 1) || sealed_content keys seals asg aid prdom apt apl, 201);
          (negb (prres =? 1) || ((res =? 1) && signer_has_id keys asg recid), 202) ] viol
  | Op20Get _ ok gs gpt gpl gid _ =>
      (* what a peerstore hands out as a peer's signed record is what its signer sealed *)
      first_fail [ (negb (ok =? 1) || sealed_content keys seals gs gid prdom gpt gpl, 203) ] viol
  | _ => []
  end.

Fixpoint monitor_ops20 (keys : list keyrow) (seals : list sealrow) (prdom : bytes) (ops : list op20) : list Z :=
  match ops with
  | [] => []
  | o :: r =>
      match monitor_op20 keys seals prdom o with
      | [] => monitor_ops20 keys seals prdom r
      | d => d
      end
  end.

Definition monitor20 (c : case20) : list Z := monitor_ops20 (h_keys c) (h_seals c) (h_prdom c) (h_ops c).

(* conformance: the model's book replays the history.  [None] = stop comparing (a signature
   value never issued was accepted by the real scheme: the ideal scheme has no prediction) *)
Section Conform20.
  Variable keys : list keyrow.
  Variable seals : list sealrow.
  Variable kds : list (N * bytes * Z).
  Variables prdom prcodec : bytes.

  Notation KD := (table_key_dec kds).
  Notation VF := (table_verify seals).
  Definition m_get := ps_get Z KD VF prdom prcodec.
  Definition m_consume := ps_consume Z KD VF (key_goid keys) (key_proto_of keys) prdom prcodec.

  Definition acc_is (k : Z) (pt pl : bytes) (signer sid opt opl : bytes) : bool :=
    beq pt opt && beq pl opl &&
    match key_at keys k with
    | Some kr => beq (k_canon kr) signer && beq (k_goid kr) sid
    | None => k =? -2
    end.

  Definition unknown_sig (b : bytes) : bool :=
    match unmarshal_envelope Z KD b with
    | Some (_, e) => negb (sig_known seals (e_sg e))
    | None => false
    end.

  Definition conform_op20 (o : op20) (b : book) : option (list Z * book) :=
    match o with
    | Op20Consume env res asg apt apl aid prres recid =>
        let '((r, pr, rid), b') := m_consume env b in
        match r with
        | CBadEnvelope => Some (if (res =? 0) && (prres =? 0) then [] else mism 204, b')
        | CBadSignature =>
            if unknown_sig env && negb (res =? 2) then None
            else Some (if (res =? 2) && (prres =? 0) then [] else mism 205, b')
        | CAccept k pt pl =>
            if N.eqb pr 0 then Some (if ((res =? 3) || ((res =? 1) && acc_is k pt pl asg aid apt apl)) && (prres =? 0) then [] else mism 206, b')
            else Some (if (res =? 1) && acc_is k pt pl asg aid apt apl && (prres =? Z.of_N pr) && beq rid recid
                       then [] else mism 207, b')
        end
    | Op20Get p ok gs gpt gpl gid _ =>
        let '(g, b') := m_get p b in
        match g with
        | Some (k, pt, pl) => Some (if (ok =? 1) && acc_is k pt pl gs gid gpt gpl then [] else mism 208, b')
        | None =>
            if ok =? 0 then Some ([], b')
            else
              match fst (ps_load p b) with
              | Some (_, raw) => if unknown_sig raw then None else Some (mism 209, b')
              | None => Some (mism 209, b')
              end
        end
    | Op20Edit p raw => Some ([], ps_edit p raw b)
    | Op20Reopen => Some ([], ps_reopen b)
    end.

  Fixpoint conform_ops20 (ops : list op20) (b : book) : list Z :=
    match ops with
    | [] => []
    | o :: r =>
        match conform_op20 o b with
        | None => []
        | Some ([], b') => conform_ops20 r b'
        | Some (d, _) => d
        end
    end.
End Conform20.

Definition conform20 (c : case20) : list Z :=
  let keys_ok :=
    forallb (fun k => beq (marshal_pubkey (k_kt k) (k_raw k)) (k_canon k)
                      && beq (id_of_key max_inline (k_canon k) (k_digest k)) (k_goid k)) (h_keys c) in
  let seals_ok :=
    forallb (fun sl => match key_at (h_keys c) (s_kidx sl) with Some _ => true | None => false end)
            (h_seals c) in
  if negb keys_ok then mism 200 else if negb seals_ok then mism 199 else
  conform_ops20 (h_keys c) (h_seals c) (h_kd c) (h_prdom c) (h_prcodec c) (h_ops c)
                (mkBook (h_book c =? 2) [] []).

(* ---- the two entry points ------------------------------------------------------ *)
Definition conform_case (l : list Z) : list Z :=
  match l with
  | 1 :: r =>
      match (do (n, r1) <- get_u64 r; do (enc, r2) <- get_bytes r1;
             match r2 with [] => Some (n, enc) | _ => None end) with
      | Some (n, enc) => if beq (encode n) enc then [] else mism 11
      | None => malformed 1
      end
  | 2 :: r =>
      match (do (buf, r1) <- get_bytes r; do (o1, r2) <- get_dec_obs r1;
             do (o2, r3) <- get_dec_obs r2; do (o3, r4) <- get_dec_obs r3;
             match r4 with [] => Some (buf, o1, o2, o3) | _ => None end) with
      | Some (buf, o1, o2, o3) =>
          first_fail [ (dec_agrees buf (decode_u64 buf) o1, 21);
                       (dec_agrees buf (decode_u64 buf) o2, 22);
                       (dec_agrees buf (decode_mf buf) o3, 23) ] mism
      | None => malformed 2
      end
  | 3 :: r =>
      match (do (d, r1) <- get_bytes r; do (t, r2) <- get_bytes r1; do (p, r3) <- get_bytes r2;
             do (out, r4) <- get_bytes r3;
             match r4 with [] => Some (d, t, p, out) | _ => None end) with
      | Some (d, t, p, out) => if beq (make_unsigned d t p) out then [] else mism 31
      | None => malformed 3
      end
  | 4 :: r =>
      match (do (d, r1) <- get_bytes r; do (t, r2) <- get_bytes r1; do (p, r3) <- get_bytes r2;
             do (out, r4) <- get_bytes r3;
             do (d', r5) <- get_bytes r4; do (t', r6) <- get_bytes r5; do (p', r7) <- get_bytes r6;
             do (out', r8) <- get_bytes r7;
             match r8 with [] => Some (d, t, p, out, (d', t', p', out')) | _ => None end) with
      | Some (d, t, p, out, (d', t', p', out')) =>
          first_fail [ (beq (make_unsigned d t p) out, 41); (beq (make_unsigned d' t' p') out', 42) ] mism
      | None => malformed 4
      end
  | 5 :: r =>
      match (do (kt, r0) <- get_z r;
             do (raw, r1) <- get_bytes r0; do (marsh, r2) <- get_bytes r1; do (dg, r3) <- get_bytes r2;
             do (id, r4) <- get_bytes r3; do (b58, r5) <- get_bytes r4; do (cid, r6) <- get_bytes r5;
             match r6 with
             | [f1; f2; f3; f4; f5; f6; f7; f8] => Some (kt, raw, marsh, dg, (id, b58, cid, f6))
             | _ => None
             end) with
      | Some (kt, raw, marsh, dg, (id, b58, cid, f6)) =>
          conform5 (Z.to_N kt) raw marsh dg id b58 cid f6
      | None => malformed 5
      end
  | 6 :: r =>
      match decode6 r with
      | Some c => conform6 c
      | None => malformed 6
      end
  | 7 :: r =>
      match (do (same, r0) <- get_z r;
             do (m, r1) <- get_bytes r0; do (s, r2) <- get_bytes r1;
             do (m2, r3) <- get_bytes r2; do (s2, r4) <- get_bytes r3;
             match r4 with [res] => Some (same, m, s, m2, (s2, res)) | _ => None end) with
      | Some (same, m, s, m2, (s2, res)) =>
          (* ideal scheme: the issued signature value verifies exactly for the
             signer's key and the signed message; other values: no prediction *)
          if beq s s2 then
            if Bool.eqb (res =? 1) ((same =? 1) && beq m m2) then [] else mism 71
          else []
      | None => malformed 7
      end
  | 8 :: r =>
      match (do (b, r0) <- get_bytes r;
             do (hok, r1) <- get_z r0; do (hkt, r2) <- get_z r1; do (hkd, r3) <- get_bytes r2;
             match r3 with [cls; rt] => Some (b, hok, hkt, hkd, cls) | _ => None end) with
      | Some (b, hok, hkt, hkd, cls) =>
          match parse_pubkey b with
          | Some (t, d) =>
              first_fail [ ((hok =? 1) && (z_of_enum32 t =? hkt) && beq d hkd, 81);
                           (if key_type_ok t then (cls =? 2) || (cls =? 3) else cls =? 1, 82) ] mism
          | None => first_fail [ (hok =? 0, 81); (cls =? 0, 82) ] mism
          end
      | None => malformed 8
      end
  | 9 :: r =>
      match (do (text, r0) <- get_bytes r; do (res, r1) <- get_z r0; do (id, r2) <- get_bytes r1;
             match r2 with [] => Some (text, res, id) | _ => None end) with
      | Some (text, res, id) =>
          match peer_decode text with
          | DecId x => if (res =? 1) && beq x id then [] else mism 91
          | DecReject => if res =? 0 then [] else mism 92
          | DecUnmodelled => []
          end
      | None => malformed 9
      end
  | 10 :: r =>
      match (do (b, r0) <- get_bytes r;
             match r0 with [cast; ex] => Some (b, cast, ex) | _ => None end) with
      | Some (b, cast, ex) =>
          first_fail
            [ (Bool.eqb (cast =? 1) (match mh_decode b with Some _ => true | None => false end), 101);
              (match extract_key b with
               | ExKey m =>
                   match parse_pubkey m with
                   | Some (t, _) => if key_type_ok t then (ex =? 0) || (ex =? 2) else ex =? 2
                   | None => ex =? 2
                   end
               | ExNoKey => ex =? 1
               | ExInvalid => ex =? 2
               end, 102) ] mism
      | None => malformed 10
      end
  | 11 :: r =>
      match (do (kt, r0) <- get_z r;
             do (raw, r1) <- get_bytes r0; do (canon, r2) <- get_bytes r1; do (goid, r3) <- get_bytes r2;
             do (ed, r4) <- get_bytes r3; do (cls, r5) <- get_z r4; do (eq, r6) <- get_z r5;
             do (rem, r7) <- get_bytes r6; do (id2, r8) <- get_bytes r7;
             match r8 with [] => Some (kt, raw, canon, goid, (ed, cls, eq, rem, id2)) | _ => None end) with
      | Some (kt, raw, canon, goid, (ed, cls, eq, rem, id2)) =>
          match parse_pubkey ed with
          | Some (t, d) =>
              (* the same (type, data): the same key, whose marshalled form and ID are
                 functions of the key alone *)
              if N.eqb t (Z.to_N kt) && beq d raw
              then first_fail [ ((cls =? 3) && (eq =? 1), 111); (beq rem canon, 112); (beq id2 goid, 113) ] mism
              else []
          | None => if cls =? 0 then [] else mism 114
          end
      | None => malformed 11
      end
  | 12 :: r =>
      match (do (canon, r1) <- get_bytes r; do (dg, r2) <- get_bytes r1; do (goid, r3) <- get_bytes r2;
             do (probe, r4) <- get_bytes r3;
             match r4 with [m] => Some (canon, dg, goid, probe, m) | _ => None end) with
      | Some (canon, dg, goid, probe, m) =>
          first_fail [ (beq (id_of_key max_inline canon dg) goid, 120);
                       (Bool.eqb (m =? 1) (beq probe (id_of_key max_inline canon dg)), 121) ] mism
      | None => malformed 12
      end
  | [13; bits; priv; cls; rt] =>
      if Bool.eqb (cls =? 3) (rsa_ok bits) then [] else mism 131
  | 19 :: kt :: region :: r =>
      match (do (orig, r1) <- get_bytes r; do (mut, r2a) <- get_bytes r1; do (derived, r2) <- get_bytes r2a;
             match r2 with [cls; eqany; eqall; remeq; selfok; crossok] => Some (orig, mut, derived, cls, eqany) | _ => None end) with
      | Some (orig, mut, derived, cls, eqany) =>
          if cls =? 4 then [] else     (* imported, not unmarshalled: no prediction *)
          match parse_privkey mut with
          | Some (t, d) =>
              if negb (key_type_ok t) then (if cls =? 1 then [] else mism 191)
              else if N.eqb t 1 then
                (* Ed25519: acceptance and equality are decided by the two halves *)
                match ed25519_priv_parts (fun _ => derived) d with
                | Some parts =>
                    first_fail
                      [ (cls =? 3, 192);
                        (match parse_privkey orig with
                         | Some (1%N, d0) =>
                             match ed25519_priv_parts_unchecked d0 with
                             | Some parts0 => Bool.eqb (eqany =? 1) (ed25519_priv_equal parts parts0)
                             | None => true
                             end
                         | _ => eqany =? 0
                         end, 193) ] mism
                | None => if cls =? 2 then [] else mism 192
                end
              else if (cls =? 2) || (cls =? 3) then [] else mism 191
          | None => if cls =? 0 then [] else mism 190
          end
      | None => malformed 19
      end
  | 14 :: ig :: ie :: r =>
      match (do (canon, r1) <- get_bytes r; do (dg, r2) <- get_bytes r1; do (id, r3) <- get_bytes r2;
             match r3 with [ex] => Some (canon, dg, id, ex) | _ => None end) with
      | Some (canon, dg, id, ex) =>
          first_fail
            [ (beq (id_of_key_flag (ig =? 1) max_inline canon dg) id, 141);
              (match extract_key id with
               | ExKey m => beq m canon && (ex =? 0)
               | ExNoKey => ex =? 1
               | ExInvalid => false
               end, 142) ] mism
      | None => malformed 14
      end
  | 15 :: api :: ispr :: r =>
      match (do (goid, r1) <- get_bytes r; do (pl, r2) <- get_bytes r1; do (spid, r3) <- get_bytes r2;
             Some (pl, spid)) with
      | Some (pl, spid) =>
          if ispr =? 1 then
            match record_peer_id pl with
            | Some x => if beq x spid then [] else mism 151
            | None => mism 152
            end
          else []
      | None => malformed 15
      end
  | 16 :: n :: r =>
      if negb (small_count n) then malformed 16 else
      match (do (cs, r1) <- get_comps (Z.to_nat n) r;
             do (res, r2) <- get_z r1; do (id, r3) <- get_bytes r2;
             do (sok, r4) <- get_z r3; do (sid, r5) <- get_bytes r4;
             do (aok, r6) <- get_z r5; do (aid, r7) <- get_bytes r6;
             match r7 with [] => Some (cs, res, id, (sok, sid, aok, aid)) | _ => None end) with
      | Some (cs, res, id, (sok, sid, aok, aid)) =>
          let agrees (ok : Z) (x : bytes) :=
            match id_from_p2p_addr cs with
            | Some v => (ok =? 1) && beq x v
            | None => ok =? 0
            end in
          first_fail [ (agrees res id, 161); (agrees sok sid, 162); (agrees aok aid, 163) ] mism
      | None => malformed 16
      end
  | 17 :: api :: reuse :: r =>
      match (do (pl, r1) <- get_bytes r; do (res, r2) <- get_z r1;
             do (rl, r3) <- get_bytes r2; do (pe, r4) <- get_bytes r3; do (ex, r5) <- get_u64 r4;
             match r5 with [] => Some (pl, res, rl, pe, ex) | _ => None end) with
      | Some (pl, res, rl, pe, ex) =>
          match voucher_fields pl with
          | Some (rl', pe', ex') =>
              if (res =? 1) && beq rl rl' && beq pe pe' && N.eqb ex ex' then [] else mism 171
          | None => if res =? 1 then mism 172 else []
          end
      | None => malformed 17
      end
  | 20 :: r =>
      match decode20 r with
      | Some c => conform20 c
      | None => malformed 20
      end
  | _ => malformed 0
  end.

Definition monitor_case (l : list Z) : list Z :=
  match l with
  | 1 :: r =>
      match (do (n, r1) <- get_u64 r; do (enc, r2) <- get_bytes r1;
             match r2 with [] => Some (n, enc) | _ => None end) with
      | Some (n, enc) =>
          match decode enc with
          | Some (v, []) => if N.eqb v n then [] else viol 11
          | _ => viol 12
          end
      | None => malformed 1
      end
  | 2 :: _ => []
  | 3 :: r =>
      match (do (d, r1) <- get_bytes r; do (t, r2) <- get_bytes r1; do (p, r3) <- get_bytes r2;
             do (out, r4) <- get_bytes r3;
             match r4 with [] => Some (d, t, p, out) | _ => None end) with
      | Some (d, t, p, out) =>
          match parse_unsigned out with
          | Some (d', t', p') => if beq d d' && beq t t' && beq p p' then [] else viol 31
          | None => viol 32
          end
      | None => malformed 3
      end
  | 4 :: r =>
      match (do (d, r1) <- get_bytes r; do (t, r2) <- get_bytes r1; do (p, r3) <- get_bytes r2;
             do (out, r4) <- get_bytes r3;
             do (d', r5) <- get_bytes r4; do (t', r6) <- get_bytes r5; do (p', r7) <- get_bytes r6;
             do (out', r8) <- get_bytes r7;
             match r8 with [] => Some (d, t, p, out, (d', t', p', out')) | _ => None end) with
      | Some (d, t, p, out, (d', t', p', out')) =>
          (* equal pre-images only for equal triples *)
          if beq out out' && negb (beq d d' && beq t t' && beq p p') then viol 41 else []
      | None => malformed 4
      end
  | 5 :: r =>
      match (do (kt, r0) <- get_z r;
             do (raw, r1) <- get_bytes r0; do (marsh, r2) <- get_bytes r1; do (dg, r3) <- get_bytes r2;
             do (id, r4) <- get_bytes r3; do (b58, r5) <- get_bytes r4; do (cid, r6) <- get_bytes r5;
             match r6 with
             | [f1; f2; f3; f4; f5; f6; f7; f8] => Some (id, f1, f2, f3, (f4, f5, f6, f7, f8))
             | _ => None
             end) with
      | Some (id, f1, f2, f3, (f4, f5, f6, f7, f8)) => monitor5 id f1 f2 f3 f4 f5 f6 f7 f8
      | None => malformed 5
      end
  | 6 :: r =>
      match decode6 r with
      | Some c => monitor6 c
      | None => malformed 6
      end
  | 7 :: r =>
      match (do (same, r0) <- get_z r;
             do (m, r1) <- get_bytes r0; do (s, r2) <- get_bytes r1;
             do (m2, r3) <- get_bytes r2; do (s2, r4) <- get_bytes r3;
             match r4 with [res] => Some (same, m, s, m2, (s2, res)) | _ => None end) with
      | Some (same, m, s, m2, (s2, res)) =>
          monitor7 same m s m2 s2 res
      | None => malformed 7
      end
  | 8 :: r =>
      match (do (b, r0) <- get_bytes r;
             do (hok, r1) <- get_z r0; do (hkt, r2) <- get_z r1; do (hkd, r3) <- get_bytes r2;
             match r3 with [cls; rt] => Some (cls, rt) | _ => None end) with
      | Some (cls, rt) => if (cls =? 3) && negb (rt =? 1) then viol 81 else []
      | None => malformed 8
      end
  | 9 :: _ => []
  | 10 :: _ => []
  | 11 :: r =>
      match (do (kt, r0) <- get_z r;
             do (raw, r1) <- get_bytes r0; do (canon, r2) <- get_bytes r1; do (goid, r3) <- get_bytes r2;
             do (ed, r4) <- get_bytes r3; do (cls, r5) <- get_z r4; do (eq, r6) <- get_z r5;
             do (rem, r7) <- get_bytes r6; do (id2, r8) <- get_bytes r7;
             match r8 with [] => Some (canon, goid, cls, eq, (rem, id2)) | _ => None end) with
      | Some (canon, goid, cls, eq, (rem, id2)) =>
          (* the peer ID is a function of the public key: an equal key has the same ID
             (and the same marshalled form, from which the ID is computed) *)
          if (cls =? 3) && (eq =? 1)
          then first_fail [ (beq id2 goid, 111); (beq rem canon, 112) ] viol
          else []
      | None => malformed 11
      end
  | 12 :: r =>
      match (do (canon, r1) <- get_bytes r; do (dg, r2) <- get_bytes r1; do (goid, r3) <- get_bytes r2;
             do (probe, r4) <- get_bytes r3;
             match r4 with [m] => Some (goid, probe, m) | _ => None end) with
      | Some (goid, probe, m) =>
          (* an ID matches a key iff it is that key's ID, byte for byte *)
          if Bool.eqb (m =? 1) (beq probe goid) then [] else viol 121
      | None => malformed 12
      end
  | [13; bits; priv; cls; rt] =>
      (* every size that can be generated unmarshals and round-trips *)
      if rsa_ok bits && negb ((cls =? 3) && (rt =? 1)) then viol 131 else []
  | 19 :: kt :: region :: r =>
      match (do (orig, r1) <- get_bytes r; do (mut, r2a) <- get_bytes r1; do (derived, r2) <- get_bytes r2a;
             match r2 with
             | [cls; eqany; eqall; remeq; selfok; crossok] => Some (orig, mut, cls, (eqany, eqall, remeq, (selfok, crossok)))
             | _ => None
             end) with
      | Some (orig, mut, cls, (eqany, eqall, remeq, (selfok, crossok))) =>
          monitor19 (beq orig mut) cls eqany eqall remeq selfok crossok
      | None => malformed 19
      end
  | 14 :: ig :: ie :: r =>
      match (do (canon, r1) <- get_bytes r; do (dg, r2) <- get_bytes r1; do (id, r3) <- get_bytes r2;
             match r3 with [ex] => Some (id, ex) | _ => None end) with
      | Some (id, ex) =>
          (* the key is recoverable from every ID that embeds it, whatever the inlining
             switch is now; never a different key *)
          first_fail [ (negb (ex =? 3), 141);
                       (match id with 0%N :: _ => ex =? 0 | _ => true end, 142) ] viol
      | None => malformed 14
      end
  | 15 :: api :: ispr :: r =>
      match (do (goid, r1) <- get_bytes r; do (pl, r2) <- get_bytes r1; do (spid, r3) <- get_bytes r2;
             do (srest, r4) <- get_bytes r3; do (gok, r5) <- get_z r4;
             do (gpid, r6) <- get_bytes r5; do (grest, r7) <- get_bytes r6;
             do (prres, r8) <- get_z r7; do (stpid, r9) <- get_bytes r8;
             do (staddrs, r10) <- get_bytes r9; do (saddrs, r11) <- get_bytes r10;
             match r11 with [] => Some (goid, spid, srest, gok, (gpid, grest, prres, stpid, (staddrs, saddrs))) | _ => None end) with
      | Some (goid, spid, srest, gok, (gpid, grest, prres, stpid, (staddrs, saddrs))) =>
          first_fail
            [ (* what the envelope hands out is the decoding of what was sealed *)
              (negb (gok =? 1) || (beq gpid spid && beq grest srest), 151);
              (* a peerstore accepts only the sealed record, whose ID is the signer's,
                 and stores the sealed addresses under that ID *)
              (negb (prres =? 1) || (beq spid goid && beq stpid goid && beq staddrs saddrs), 152) ] viol
      | None => malformed 15
      end
  | 16 :: n :: r =>
      if negb (small_count n) then malformed 16 else
      match (do (cs, r1) <- get_comps (Z.to_nat n) r;
             do (res, r2) <- get_z r1; do (id, r3) <- get_bytes r2;
             do (sok, r4) <- get_z r3; do (sid, r5) <- get_bytes r4;
             do (aok, r6) <- get_z r5; do (aid, r7) <- get_bytes r6;
             match r7 with [] => Some (cs, res, id, (sok, sid, aok, aid)) | _ => None end) with
      | Some (cs, res, id, (sok, sid, aok, aid)) =>
          first_fail
            [ (* the three readers of the /p2p form agree *)
              ((res =? sok) && (res =? aok) && beq id sid && beq id aid, 161);
              (* an address ending in /p2p/ID names ID (the form AddrInfoToP2pAddrs writes) *)
              (match id_from_p2p_addr cs with
               | Some v => (res =? 1) && beq id v
               | None => res =? 0
               end, 162) ] viol
      | None => malformed 16
      end
  | 17 :: api :: reuse :: r =>
      match (do (pl, r1) <- get_bytes r; do (res, r2) <- get_z r1;
             do (rl, r3) <- get_bytes r2; do (pe, r4) <- get_bytes r3; do (ex, r5) <- get_u64 r4;
             match r5 with [] => Some (pl, res, rl, pe, ex) | _ => None end) with
      | Some (pl, res, rl, pe, ex) =>
          (* an accepted voucher holds exactly the (relay, peer, expiration) of the
             sealed payload, both being peer IDs *)
          if res =? 1 then
            match voucher_fields pl with
            | Some (rl', pe', ex') => if beq rl rl' && beq pe pe' && N.eqb ex ex' then [] else viol 171
            | None => viol 172
            end
          else []
      | None => malformed 17
      end
  | 20 :: r =>
      match decode20 r with
      | Some c => monitor20 c
      | None => malformed 20
      end
  | _ => malformed 0
  end.

(* C08 - property theorems only.  Each is closed by [exact] of a lemma from the
   libraries / Proofs*.v and followed by Print Assumptions.

   Byte level (all N, all byte strings, by induction): uvarint, makeUnsigned,
   protobuf framing of PublicKey and Envelope, multihash, base58/base32, peer-ID
   text dispatch.  Symbolic level: envelope acceptance, peer records and
   signatures under an IDEAL signature scheme (Section hypothesis
   [verify_ideal], shown consistent by the free term algebra).  SHA-256 is an
   arbitrary function with 32-byte output ([digest_ok]); the key-type specific
   inner encodings are the parameter [key_dec]. *)
From Coq Require Import List NArith ZArith Bool.
From Verif Require Import lib.Wire c08.Varint c08.Protobuf c08.Digits c08.Base58 c08.SymCrypto
  c08.Model c08.Spec c08.Proofs c08.Proofs_Env c08.Proofs_R2 gen.Consts_c08.
Import ListNotations.
Local Open Scope N_scope.

(* ---- unsigned varints ------------------------------------------------------------ *)
Theorem c08_uvarint_roundtrip : forall n r, decode (encode n ++ r) = Some (n, r).
Proof. exact decode_encode. Qed.
Print Assumptions c08_uvarint_roundtrip.

(* no encoding is a prefix of another: a string starting with one splits uniquely *)
Theorem c08_uvarint_prefix_free : forall a b x y, encode a ++ x = encode b ++ y -> a = b /\ x = y.
Proof. exact encode_prefix_free. Qed.
Print Assumptions c08_uvarint_prefix_free.

(* nothing that decodes to n is shorter than [encode n] *)
Theorem c08_uvarint_minimal : forall l n r, decode l = Some (n, r) ->
  exists p, l = p ++ r /\ (length (encode n) <= length p)%nat.
Proof. exact decode_min_length. Qed.
Print Assumptions c08_uvarint_minimal.

(* the minimal-only decoder (go-varint, used by multihash and CID) accepts exactly the encoder's output *)
Theorem c08_uvarint_canonical : forall l n r, bytes_ok l ->
  (decode_min l = Some (n, r) <-> l = encode n ++ r).
Proof. exact decode_min_iff. Qed.
Print Assumptions c08_uvarint_canonical.

(* ---- the signed pre-image --------------------------------------------------------- *)
(* makeUnsigned is injective, including triples whose plain concatenations coincide *)
Theorem c08_make_unsigned_injective : forall d t p d' t' p',
  make_unsigned d t p = make_unsigned d' t' p' -> d = d' /\ t = t' /\ p = p'.
Proof. exact make_unsigned_injective_l. Qed.
Print Assumptions c08_make_unsigned_injective.

(* the reader used by the run-time monitor is a left inverse of makeUnsigned *)
Theorem c08_make_unsigned_readback : forall d t p, parse_unsigned (make_unsigned d t p) = Some (d, t, p).
Proof. exact parse_make_unsigned. Qed.
Print Assumptions c08_make_unsigned_readback.

(* ---- marshalled public keys ---------------------------------------------------------- *)
Theorem c08_pubkey_proto_roundtrip : forall kt d, kt < 2 ^ 32 -> nlen d < 2 ^ 64 ->
  parse_pubkey (marshal_pubkey kt d) = Some (kt, d).
Proof. exact pubkey_proto_roundtrip_l. Qed.
Print Assumptions c08_pubkey_proto_roundtrip.

Theorem c08_pubkey_marshal_injective : forall kt d kt' d',
  kt < 2 ^ 32 -> kt' < 2 ^ 32 -> nlen d < 2 ^ 64 -> nlen d' < 2 ^ 64 ->
  marshal_pubkey kt d = marshal_pubkey kt' d' -> kt = kt' /\ d = d'.
Proof. exact marshal_pubkey_injective_l. Qed.
Print Assumptions c08_pubkey_marshal_injective.

(* ---- multihash, peer IDs ---------------------------------------------------------------- *)
Theorem c08_mh_roundtrip : forall code dg, code < 2 ^ 63 -> nlen dg <= 2 ^ 31 - 1 ->
  mh_decode (mh_wrap code dg) = Some (code, dg).
Proof. exact mh_roundtrip_l. Qed.
Print Assumptions c08_mh_roundtrip.

(* ExtractPublicKey recovers the marshalled key iff the identity form was used
   (marshalled length <= maxInlineKeyLength) *)
Theorem c08_id_embeds_key : forall mx m dg, nlen m <= 2 ^ 31 - 1 -> length dg = 32%nat ->
  extract_key (id_of_key mx m dg) = if nlen m <=? mx then ExKey m else ExNoKey.
Proof. exact id_embeds_key_l. Qed.
Print Assumptions c08_id_embeds_key.

(* every ID derived from a key is a valid multihash (IDFromBytes round trip) *)
Theorem c08_id_binary_roundtrip : forall mx m dg, nlen m <= 2 ^ 31 - 1 -> length dg = 32%nat ->
  exists c d, mh_decode (id_of_key mx m dg) = Some (c, d).
Proof. exact id_of_key_valid. Qed.
Print Assumptions c08_id_binary_roundtrip.

(* ---- text forms --------------------------------------------------------------------------- *)
Theorem c08_base58_roundtrip : forall bs, bytes_ok bs -> bs <> [] -> b58_decode (b58_encode bs) = Some bs.
Proof. exact b58_roundtrip. Qed.
Print Assumptions c08_base58_roundtrip.

Theorem c08_base32_roundtrip : forall bs, bytes_ok bs -> b32_decode (b32_encode bs) = Some bs.
Proof. exact b32_roundtrip. Qed.
Print Assumptions c08_base32_roundtrip.

(* what peer.Decode dispatches on: sha2-256 IDs print as 46 characters "Qm...",
   identity IDs as "1..." *)
Theorem c08_b58_sha256_is_Qm : forall digest, bytes_ok digest -> length digest = 32%nat ->
  exists t, b58_encode (18 :: 32 :: digest) = 81 :: 109 :: t /\ length t = 44%nat.
Proof. exact b58_sha256_Qm. Qed.
Print Assumptions c08_b58_sha256_is_Qm.

Theorem c08_b58_identity_is_1 : forall r, exists t, b58_encode (0 :: r) = 49 :: t.
Proof. exact b58_leading_zero. Qed.
Print Assumptions c08_b58_identity_is_1.

(* Decode (String id) = id and Decode (ToCid id).String() = id for every ID derived from a key *)
Theorem c08_peerid_text_dispatch : forall mx m dg,
  bytes_ok m -> digest_ok dg -> nlen m <= 2 ^ 31 - 1 ->
  peer_decode (id_b58 (id_of_key mx m dg)) = DecId (id_of_key mx m dg) /\
  peer_decode (id_cid_text (id_of_key mx m dg)) = DecId (id_of_key mx m dg).
Proof.
  intros mx m dg H1 H2 H3. split; [apply peer_decode_b58_l|apply peer_decode_cid_l]; assumption.
Qed.
Print Assumptions c08_peerid_text_dispatch.

(* ---- envelopes ------------------------------------------------------------------------------ *)
Theorem c08_envelope_wire_roundtrip : forall e, env_wf e -> parse_envelope (marshal_envelope e) = Some e.
Proof. exact parse_marshal_envelope. Qed.
Print Assumptions c08_envelope_wire_roundtrip.

(* for every key decoder and every ideal signature scheme: consume accepts iff
   the bytes decode to (key, type, payload, sig) and sig was issued for exactly
   (key, makeUnsigned domain type payload) *)
Theorem c08_consume_accept_iff :
  forall (K : Type) (key_dec : N -> bytes -> option K) (verify : K -> bytes -> bytes -> bool)
         (origin : bytes -> option (K * bytes)),
  (forall k m s, verify k m s = true <-> origin s = Some (k, m)) ->
  forall b dom k t p,
    consume K key_dec verify b dom = CAccept k t p <->
    exists e, unmarshal_envelope K key_dec b = Some (k, e) /\ t = e_pt e /\ p = e_pl e /\
              origin (e_sg e) = Some (k, make_unsigned dom t p).
Proof. exact consume_accept_iff. Qed.
Print Assumptions c08_consume_accept_iff.

(* an envelope whose signature was issued by sealing (d0, t0, p0) with k0 is
   accepted iff the domain asked, the payload type, the payload and the key are
   exactly those; and whatever is accepted is exactly the sealed content *)
Theorem c08_envelope_accept_iff_sealed :
  forall (K : Type) (key_dec : N -> bytes -> option K) (verify : K -> bytes -> bytes -> bool)
         (origin : bytes -> option (K * bytes)),
  (forall k m s, verify k m s = true <-> origin s = Some (k, m)) ->
  forall b dom k e k0 d0 t0 p0,
    unmarshal_envelope K key_dec b = Some (k, e) -> sealed_with K origin (e_sg e) k0 d0 t0 p0 ->
    ((exists k' t' p', consume K key_dec verify b dom = CAccept k' t' p') <->
     (k = k0 /\ dom = d0 /\ e_pt e = t0 /\ e_pl e = p0)) /\
    (forall k' t' p', consume K key_dec verify b dom = CAccept k' t' p' ->
       k' = k0 /\ dom = d0 /\ t' = t0 /\ p' = p0).
Proof. exact envelope_accept_iff_sealed_l. Qed.
Print Assumptions c08_envelope_accept_iff_sealed.

Theorem c08_seal_then_consume :
  forall (K : Type) (key_dec : N -> bytes -> option K) (verify : K -> bytes -> bytes -> bool)
         (origin : bytes -> option (K * bytes)),
  (forall k m s, verify k m s = true <-> origin s = Some (k, m)) ->
  forall kt kd k d t p s,
    env_wf (mkEnv kt kd t p s) -> key_type_ok kt = true -> key_dec kt kd = Some k ->
    sealed_with K origin s k d t p ->
    consume K key_dec verify (marshal_envelope (mkEnv kt kd t p s)) d = CAccept k t p.
Proof. exact seal_then_consume_l. Qed.
Print Assumptions c08_seal_then_consume.

(* peerstore consumption requires record.PeerID = ID of the signing key; with a
   sealed signature that key, the domain and the record are the sealed ones *)
Theorem c08_peer_record_bound_to_signer :
  forall (K : Type) (key_dec : N -> bytes -> option K) (verify : K -> bytes -> bytes -> bool)
         (origin : bytes -> option (K * bytes)),
  (forall k m s, verify k m s = true <-> origin s = Some (k, m)) ->
  forall (id_of : K -> bytes) b dom k e k0 d0 t0 p0 k' rid pl,
    unmarshal_envelope K key_dec b = Some (k, e) -> sealed_with K origin (e_sg e) k0 d0 t0 p0 ->
    consume_peer_record K key_dec verify id_of b dom = Some (k', rid, pl) ->
    k' = k0 /\ dom = d0 /\ pl = p0 /\ record_peer_id p0 = Some (id_of k0).
Proof. exact peer_record_sealed_l. Qed.
Print Assumptions c08_peer_record_bound_to_signer.

Theorem c08_peer_record_id_is_signers :
  forall (K : Type) (key_dec : N -> bytes -> option K) (verify : K -> bytes -> bytes -> bool)
         (id_of : K -> bytes) b dom k rid pl,
    consume_peer_record K key_dec verify id_of b dom = Some (k, rid, pl) ->
    rid = id_of k /\ record_peer_id pl = Some rid /\
    exists t, consume K key_dec verify b dom = CAccept k t pl.
Proof. exact peer_record_bound_to_signer_l. Qed.
Print Assumptions c08_peer_record_id_is_signers.

(* ---- signatures -------------------------------------------------------------------------------- *)
(* a signature value verifies for exactly one (key, message) *)
Theorem c08_sig_exact :
  forall (K M S : Type) (verify : K -> M -> S -> bool) (origin : S -> option (K * M)),
  (forall k m s, verify k m s = true <-> origin s = Some (k, m)) ->
  forall k m k' m' s, verify k m s = true -> verify k' m' s = true -> k = k' /\ m = m'.
Proof. exact sig_exact. Qed.
Print Assumptions c08_sig_exact.

(* the hypothesis is satisfiable: the free term algebra is an ideal scheme *)
Theorem c08_symbolic_scheme_is_ideal : forall p m s,
  sym_verify p m s = true <-> sym_origin s = Some (p, m).
Proof. exact sym_ideal. Qed.
Print Assumptions c08_symbolic_scheme_is_ideal.

(* a signature under a key the adversary cannot derive is derivable only if it was sent *)
Theorem c08_sig_unforgeable : forall kn k m r,
  mem_term (TKey k) kn = false -> knows kn (TSig k m r) = true -> mem_term (TSig k m r) kn = true.
Proof. exact sig_unforgeable. Qed.
Print Assumptions c08_sig_unforgeable.

(* ---- THE monitor accepts every case the model produces --------------------------------------- *)
(* for every key table, every set of seal events, every byte string offered as
   an envelope, every domain asked and every answer of the key decoder: the
   observations of the model (ideal signatures given by the seal table) satisfy
   the very monitor that is run on the implementation's observations *)
Theorem c08_monitor_accepts_model : forall mode keys seals env dom kdec,
  seals_wf keys seals ->
  monitor6 (model_case6 mode keys seals env dom kdec) = [].
Proof. exact monitor_accepts_model_l. Qed.
Print Assumptions c08_monitor_accepts_model.

(* ---- round 4: what a peerstore hands out as a peer's signed record ---------------------------- *)
(* "no edit of the serialized form can make a receiver accept different content": the receiver
   here is the address book reading its own store.  For every ideal scheme and EVERY state of
   the book - whatever bytes sit in the datastore entry or the cache, edited or not, before or
   after a restart - GetPeerRecord hands out (k, type, payload) only if the entry's signature was
   issued by k for exactly (PeerRecordEnvelopeDomain, type, payload) *)
Theorem c08_peerstore_hands_out_only_sealed :
  forall (K : Type) (key_dec : N -> bytes -> option K) (verify : K -> bytes -> bytes -> bool)
         (origin : bytes -> option (K * bytes)),
  (forall k m s, verify k m s = true <-> origin s = Some (k, m)) ->
  forall prdom prcodec p b k pt pl b',
    ps_get K key_dec verify prdom prcodec p b = (Some (k, pt, pl), b') ->
    exists sq raw e, fst (ps_load p b) = Some (sq, raw) /\
      unmarshal_envelope K key_dec raw = Some (k, e) /\ pt = e_pt e /\ pl = e_pl e /\
      origin (e_sg e) = Some (k, make_unsigned prdom pt pl).
Proof. exact ps_get_only_sealed_l. Qed.
Print Assumptions c08_peerstore_hands_out_only_sealed.

(* an entry carrying a sealed signature next to another key, type or payload (or sealed for
   another domain) is not handed out at all *)
Theorem c08_peerstore_refuses_edited_entry :
  forall (K : Type) (key_dec : N -> bytes -> option K) (verify : K -> bytes -> bytes -> bool)
         (origin : bytes -> option (K * bytes)),
  (forall k m s, verify k m s = true <-> origin s = Some (k, m)) ->
  forall prdom prcodec p b sq raw k e k0 d0 t0 p0,
    fst (ps_load p b) = Some (sq, raw) ->
    unmarshal_envelope K key_dec raw = Some (k, e) -> sealed_with K origin (e_sg e) k0 d0 t0 p0 ->
    (k <> k0 \/ prdom <> d0 \/ e_pt e <> t0 \/ e_pl e <> p0) ->
    fst (ps_get K key_dec verify prdom prcodec p b) = None.
Proof. exact ps_get_edited_is_refused_l. Qed.
Print Assumptions c08_peerstore_refuses_edited_entry.

(* ConsumeEnvelope + ConsumePeerRecord store a record only when the envelope validates for the
   peer-record domain and the record's peer ID is the ID of the signing key *)
Theorem c08_peerstore_stores_under_signers_id :
  forall (K : Type) (key_dec : N -> bytes -> option K) (verify : K -> bytes -> bytes -> bool)
         (id_of : K -> bytes) (key_proto : K -> N * bytes) prdom prcodec env b r rid b',
    ps_consume K key_dec verify id_of key_proto prdom prcodec env b = ((r, 1, rid), b') ->
    exists k pt pl, r = CAccept k pt pl /\ consume K key_dec verify env prdom = CAccept k pt pl /\
                    rid = id_of k /\ record_peer_id pl = Some rid.
Proof. exact ps_consume_stored_id_is_signers_l. Qed.
Print Assumptions c08_peerstore_stores_under_signers_id.

(* THE monitor of address-book histories (kind 20) accepts every history of the model: every
   key table, seal table, key decoder, every sequence of consume / get / datastore edit /
   restart steps, from every initial state of the book *)
Theorem c08_monitor_accepts_peerstore_model :
  forall keys seals (kd : N -> bytes -> option Z) prdom prcodec,
  seals_wf keys seals ->
  forall ss b, monitor_ops20 keys seals prdom (model_ops20 keys seals kd prdom prcodec ss b) = [].
Proof. exact monitor_accepts_peerstore_model_l. Qed.
Print Assumptions c08_monitor_accepts_peerstore_model.

(* ---- regenerated constants ----------------------------------------------------------------------- *)
(* specification: keys of at most 42 marshalled bytes are inlined, and inlining
   is on.  Ed25519 (36 bytes) and secp256k1 (37) are inlined; ECDSA P-256 (95)
   and RSA are hashed. *)
Theorem c08_inline_threshold :
  (maxInlineKeyLength = 42 /\ advancedEnableInlining = 1 /\
   36 <= maxInlineKeyLength /\ 37 <= maxInlineKeyLength /\ maxInlineKeyLength < 95)%Z.
Proof. vm_compute. repeat split; discriminate. Qed.
Print Assumptions c08_inline_threshold.

(* RSA: the size checks of GenerateRSAKeyPair, UnmarshalRsaPublicKey and
   UnmarshalRsaPrivateKey (one predicate, transcribed in Model.rsa_size_ok) accept
   exactly the closed range [MinRsaKeyBits, maxRsaKeyBits] = [2048, 8192]: both
   boundary sizes are supported *)
Theorem c08_rsa_size_range :
  (minRsaKeyBits = 2048 /\ maxRsaKeyBits = 8192)%Z /\
  forall bits, rsa_size_ok (Z.to_N minRsaKeyBits) (Z.to_N maxRsaKeyBits) bits = true <->
               2048 <= bits /\ bits <= 8192.
Proof. exact rsa_size_range_l. Qed.
Print Assumptions c08_rsa_size_range.

(* ---- round 2: /p2p form, vouchers, the inlining switch, verify exactness ------------------ *)
(* IDFromP2PAddr / SplitAddr / AddrInfoFromP2pAddr: the LAST component decides *)
Theorem c08_p2p_addr_last_component : forall cs code v,
  id_from_p2p_addr (cs ++ [(code, v)]) = if (code =? P_P2P)%N then Some v else None.
Proof. exact id_from_p2p_addr_snoc. Qed.
Print Assumptions c08_p2p_addr_last_component.

(* a relayed address /../p2p/RELAY/p2p-circuit/p2p/TARGET names TARGET; one that ends in
   /p2p-circuit names nobody *)
Theorem c08_p2p_addr_circuit : forall cs relay target,
  id_from_p2p_addr (cs ++ [(P_P2P, relay); (P_CIRCUIT, []); (P_P2P, target)]) = Some target /\
  id_from_p2p_addr (cs ++ [(P_P2P, relay); (P_CIRCUIT, [])]) = None.
Proof. exact id_from_p2p_addr_circuit. Qed.
Print Assumptions c08_p2p_addr_circuit.

Theorem c08_voucher_roundtrip : forall relay peer e c1 d1 c2 d2,
  mh_decode relay = Some (c1, d1) -> mh_decode peer = Some (c2, d2) ->
  nlen relay < 2 ^ 64 -> nlen peer < 2 ^ 64 -> e < 2 ^ 64 ->
  voucher_fields (marshal_voucher relay peer e) = Some (relay, peer, e).
Proof. exact voucher_roundtrip_l. Qed.
Print Assumptions c08_voucher_roundtrip.

(* removing the peer field from a voucher payload makes it unacceptable *)
Theorem c08_voucher_needs_peer : forall relay e, nlen relay < 2 ^ 64 -> e < 2 ^ 64 ->
  voucher_fields (put_len_field 1 relay ++ put_varint_field 3 e) = None.
Proof. exact voucher_needs_peer_l. Qed.
Print Assumptions c08_voucher_needs_peer.

(* ExtractPublicKey is a function of the ID alone: an ID made with inlining on embeds the key
   and yields it, whatever the switch is at extraction time *)
Theorem c08_extract_under_inlining_switch : forall inl mx m dg,
  nlen m <= 2 ^ 31 - 1 -> length dg = 32%nat ->
  extract_key (id_of_key_flag inl mx m dg) = if inl && (nlen m <=? mx) then ExKey m else ExNoKey.
Proof. exact extract_key_flag_l. Qed.
Print Assumptions c08_extract_under_inlining_switch.

(* the monitor's verify-exactness clause (kind 7) accepts every observation of every ideal
   signature scheme: any key, any message tried against an issued signature value *)
Theorem c08_monitor_verify_exact :
  forall (K : Type) (K_eqb : K -> K -> bool), (forall a b, K_eqb a b = true <-> a = b) ->
  forall (verify : K -> bytes -> bytes -> bool) (origin : bytes -> option (K * bytes)),
  (forall k m s, verify k m s = true <-> origin s = Some (k, m)) ->
  forall k m s k2 m2, origin s = Some (k, m) ->
    monitor7 (boolz (K_eqb k2 k)) m s m2 s (boolz (verify k2 m2 s)) = [].
Proof. exact monitor7_accepts_ideal_l. Qed.
Print Assumptions c08_monitor_verify_exact.

(* ---- round 3: private keys ------------------------------------------------------------------ *)
(* the marshalled form of a private key determines its type and its (secret, public) data *)
Theorem c08_privkey_marshal_injective : forall kt d kt' d',
  kt < 2 ^ 32 -> kt' < 2 ^ 32 -> nlen d < 2 ^ 64 -> nlen d' < 2 ^ 64 ->
  marshal_privkey kt d = marshal_privkey kt' d' -> kt = kt' /\ d = d'.
Proof. exact privkey_marshal_injective_l. Qed.
Print Assumptions c08_privkey_marshal_injective.

Theorem c08_privkey_proto_roundtrip : forall kt d, kt < 2 ^ 32 -> nlen d < 2 ^ 64 ->
  parse_privkey (marshal_privkey kt d) = Some (kt, d).
Proof. exact privkey_proto_roundtrip_l. Qed.
Print Assumptions c08_privkey_proto_roundtrip.

(* Ed25519: Raw() = seed ++ public half is injective, Equals is equality of (secret, public),
   and the blob of a generated key (public half = derive seed) reads back as that key *)
Theorem c08_ed25519_priv_roundtrip : forall derive seed,
  length seed = 32%nat -> length (derive seed) = 32%nat ->
  ed25519_priv_parts derive (ed25519_priv_raw seed (derive seed)) = Some (seed, derive seed).
Proof. exact ed25519_priv_roundtrip_l. Qed.
Print Assumptions c08_ed25519_priv_roundtrip.

Theorem c08_ed25519_priv_raw_injective : forall s p s' p',
  length s = 32%nat -> length p = 32%nat -> length s' = 32%nat -> length p' = 32%nat ->
  ed25519_priv_raw s p = ed25519_priv_raw s' p' -> s = s' /\ p = p'.
Proof. exact ed25519_priv_raw_injective. Qed.
Print Assumptions c08_ed25519_priv_raw_injective.

Theorem c08_ed25519_priv_equal_is_identity : forall a b, ed25519_priv_equal a b = true <-> a = b.
Proof. exact ed25519_priv_equal_iff. Qed.
Print Assumptions c08_ed25519_priv_equal_is_identity.

(* REPAIRED in /repo a5f52a7 (was a finding: UnmarshalEd25519PrivateKey did not compare the
   public half with the seed).  Every Ed25519 private-key blob that unmarshals is consistent:
   its public half is the public key of its seed - for every derive function ... *)
Theorem c08_ed25519_priv_consistent : forall derive data s p,
  ed25519_priv_parts derive data = Some (s, p) -> p = derive s.
Proof. exact ed25519_priv_consistent_l. Qed.
Print Assumptions c08_ed25519_priv_consistent.

(* ... hence it signs for its own GetPublic(), under every ideal scheme whose signatures made
   with seed s are issued for the public key derive s (the monitor's clause 192) *)
Theorem c08_ed25519_unmarshalled_signs_for_own_key :
  forall (derive : bytes -> bytes) (verify : bytes -> bytes -> bytes -> bool)
         (origin : bytes -> option (bytes * bytes)) (sign : bytes -> bytes -> bytes),
  (forall k m s, verify k m s = true <-> origin s = Some (k, m)) ->
  (forall seed m, origin (sign seed m) = Some (derive seed, m)) ->
  forall data seed pub m,
    ed25519_priv_parts derive data = Some (seed, pub) -> verify pub m (sign seed m) = true.
Proof. exact ed25519_unmarshalled_signs_for_own_key_l. Qed.
Print Assumptions c08_ed25519_unmarshalled_signs_for_own_key.

(* ---- non-vacuity ------------------------------------------------------------------------------------ *)
(* a toy ideal scheme: signature value [7] was issued by key 1 on
   makeUnsigned "d" [3;1] [5]; the envelope carrying it is accepted for domain
   "d" = [100] and rejected for [101] *)
Definition toy_origin (s : bytes) : option (N * bytes) :=
  if bytes_eqb s [7] then Some (1, make_unsigned [100] [3; 1] [5]) else None.
Definition toy_verify (k : N) (m s : bytes) : bool :=
  match toy_origin s with Some (k', m') => (k =? k') && bytes_eqb m m' | None => false end.
Definition toy_key_dec (kt : N) (kd : bytes) : option N :=
  if bytes_eqb kd [9] then Some 1 else if bytes_eqb kd [8] then Some 2 else None.
Definition toy_env (kd : bytes) := marshal_envelope (mkEnv 1 kd [3; 1] [5] [7]).

Example toy_accepts : consume N toy_key_dec toy_verify (toy_env [9]) [100] = CAccept 1 [3; 1] [5].
Proof. vm_compute. reflexivity. Qed.
Example toy_rejects_domain : consume N toy_key_dec toy_verify (toy_env [9]) [101] = CBadSignature.
Proof. vm_compute. reflexivity. Qed.
Example toy_rejects_foreign_key : consume N toy_key_dec toy_verify (toy_env [8]) [100] = CBadSignature.
Proof. vm_compute. reflexivity. Qed.
(* a colliding concatenation: domain "d"++[3], type [1] has the same plain concatenation *)
Example toy_rejects_shifted : consume N toy_key_dec toy_verify
  (marshal_envelope (mkEnv 1 [9] [1] [5] [7])) [100; 3] = CBadSignature.
Proof. vm_compute. reflexivity. Qed.

(* the monitor rejects an acceptance under a domain other than the sealed one ... *)
Example monitor_rejects_wrong_domain :
  monitor_case [6; 1; 1;  1; 1;9; 1;8; 0; 0;  1;  0; 1;100; 1;3; 1;5; 1;7;  0;  1;101;
                0; 0; 0; -3;  0; 0; 0;  1; 1;8; 1;3; 1;5; 0;  0; 0]%Z = [ERR_PROPERTY; 1]%Z.
Proof. vm_compute. reflexivity. Qed.
(* ... accepts it under the sealed one ... *)
Example monitor_accepts_right_domain :
  monitor_case [6; 1; 1;  1; 1;9; 1;8; 0; 0;  1;  0; 1;100; 1;3; 1;5; 1;7;  0;  1;100;
                0; 0; 0; -3;  0; 0; 0;  1; 1;8; 1;3; 1;5; 0;  0; 0]%Z = [].
Proof. vm_compute. reflexivity. Qed.
(* ... rejects a peerstore acceptance when the record's ID is not the signer's ... *)
Example monitor_rejects_foreign_record_id :
  monitor_case [6; 2; 1;  1; 1;9; 1;8; 0; 1;77;  1;  0; 1;100; 1;3; 1;5; 1;7;  0;  1;100;
                0; 0; 0; -3;  0; 0; 0;  1; 1;8; 1;3; 1;5; 1;77;  1; 1;78]%Z = [ERR_PROPERTY; 2]%Z.
Proof. vm_compute. reflexivity. Qed.
(* ... and a signature that verifies for another message *)
Example monitor_rejects_other_message :
  monitor_case [7; 1; 1;5; 1;7; 1;6; 1;7; 1]%Z = [ERR_PROPERTY; 71]%Z.
Proof. vm_compute. reflexivity. Qed.

(* ... an alias ID that "matches" a key, an equal key with another ID, and a
   supported RSA size that does not unmarshal *)
Example monitor_rejects_alias_match :
  monitor_case [12; 1;8; 0; 1;77; 1;78; 1]%Z = [ERR_PROPERTY; 121]%Z.
Proof. vm_compute. reflexivity. Qed.
Example monitor_rejects_equal_key_other_id :
  monitor_case [11; 1; 1;9; 1;8; 1;77; 2;8;0; 3; 1; 1;8; 1;78]%Z = [ERR_PROPERTY; 111]%Z.
Proof. vm_compute. reflexivity. Qed.
Example monitor_rejects_rsa_boundary :
  monitor_case [13; 8192; 0; 2; 0]%Z = [ERR_PROPERTY; 131]%Z.
Proof. vm_compute. reflexivity. Qed.
Example monitor_allows_rsa_too_big_rejected : monitor_case [13; 8193; 0; 2; 0]%Z = [].
Proof. vm_compute. reflexivity. Qed.

(* round 2: the relay's ID for a relayed address, a mutated record handed out by the envelope,
   a voucher without a peer, a signature that also verifies for the digest of its message *)
Example monitor_rejects_relay_id :
  monitor_case [16; 3; 421; 1;7; 290; 0; 421; 1;9;  1; 1;7;  1; 1;9;  1; 1;9]%Z = [ERR_PROPERTY; 161]%Z.
Proof. vm_compute. reflexivity. Qed.
Example monitor_rejects_mutated_record :
  monitor_case [15; 0; 0; 1;5; 0; 1;5; 1;1; 1; 1;6; 1;1; 0; 0; 0; 0]%Z = [ERR_PROPERTY; 151]%Z.
Proof. vm_compute. reflexivity. Qed.
Example monitor_rejects_voucher_without_peer :
  monitor_case [17; 0; 0; 6; 10;2;0;0;24;5;  1; 2;0;0; 0; 0; 5]%Z = [ERR_PROPERTY; 172]%Z.
Proof. vm_compute. reflexivity. Qed.
Example monitor_accepts_full_voucher :
  monitor_case [17; 0; 0; 10; 10;2;0;0;18;2;0;0;24;5;  1; 2;0;0; 2;0;0; 0; 5]%Z = [].
Proof. vm_compute. reflexivity. Qed.

(* round 3: a key reported equal although it is not interchangeable with the original; an accepted private key that
   does not sign for its own public key; a destination that keeps the previous record's addresses *)
Example monitor_rejects_equal_but_different_secret :
  monitor_case [19; 1; 2; 2;8;1; 2;8;2; 0; 3; 1; 1; 0; 1; 0]%Z = [ERR_PROPERTY; 191]%Z.
Proof. vm_compute. reflexivity. Qed.
Example monitor_rejects_inconsistent_private_key :
  monitor_case [19; 1; 3; 2;8;1; 2;8;2; 0; 3; 0; 0; 0; 0; 0]%Z = [ERR_PROPERTY; 192]%Z.
Proof. vm_compute. reflexivity. Qed.
Example monitor_accepts_private_roundtrip :
  monitor_case [19; 1; 0; 2;8;1; 2;8;1; 0; 3; 1; 1; 1; 1; 1]%Z = [].
Proof. vm_compute. reflexivity. Qed.
Example monitor_rejects_stale_addresses :
  monitor_case [15; 4; 0; 1;5; 0; 1;5; 2;0;7; 1; 1;5; 3;0;7;9; 0; 0; 0; 0]%Z = [ERR_PROPERTY; 151]%Z.
Proof. vm_compute. reflexivity. Qed.

(* the old witness: the UNCHECKED reader (the code before a5f52a7) accepts seed 0^32 with the
   public half 1^32, which no derive function mapping 0^32 to something else allows; the
   repaired reader rejects it *)
Example unchecked_reader_accepts_inconsistent_halves :
  ed25519_priv_parts_unchecked (repeat 0 32 ++ repeat 1 32) = Some (repeat 0 32, repeat 1 32).
Proof. vm_compute. reflexivity. Qed.
Example repaired_reader_rejects_inconsistent_halves :
  ed25519_priv_parts (fun _ => repeat 0 32) (repeat 0 32 ++ repeat 1 32) = None.
Proof. vm_compute. reflexivity. Qed.
Example repaired_reader_accepts_consistent_halves :
  ed25519_priv_parts (fun _ => repeat 1 32) (repeat 0 32 ++ repeat 1 32) = Some (repeat 0 32, repeat 1 32).
Proof. vm_compute. reflexivity. Qed.

(* round 4: a toy address book.  Key 1 (data [9], ID [0;1;9]) sealed the peer record
   payload [10;3;0;1;9] (peer_id = [0;1;9]) for domain [100] with signature value [7] *)
Definition toy4_origin (s : bytes) : option (N * bytes) :=
  if bytes_eqb s [7] then Some (1, make_unsigned [100] [3; 1] [10; 3; 0; 1; 9]) else None.
Definition toy4_verify (k : N) (m s : bytes) : bool :=
  match toy4_origin s with Some (k', m') => (k =? k') && bytes_eqb m m' | None => false end.
Definition toy4_book (payload : bytes) : book :=
  mkBook false [([0; 1; 9], (0, marshal_envelope (mkEnv 1 [9] [3; 1] payload [7])))] [].
(* the stored envelope as sealed is handed out ... *)
Example toy_book_hands_out_sealed :
  fst (ps_get N toy_key_dec toy4_verify [100] [3; 1] [0; 1; 9] (toy4_book [10; 3; 0; 1; 9]))
  = Some (1, [3; 1], [10; 3; 0; 1; 9]).
Proof. vm_compute. reflexivity. Qed.
(* ... the entry with an edited payload (an appended seq field) is not ... *)
Example toy_book_refuses_edited_payload :
  fst (ps_get N toy_key_dec toy4_verify [100] [3; 1] [0; 1; 9] (toy4_book [10; 3; 0; 1; 9; 16; 5])) = None.
Proof. vm_compute. reflexivity. Qed.
(* ... while a reader that only parses the stored bytes (UnmarshalEnvelope instead of
   ConsumeEnvelope) hands out the edited payload as the peer's signed record *)
Definition ps_get_unvalidated (p : bytes) (b : book) : option (N * bytes * bytes) :=
  match fst (ps_load p b) with
  | Some (_, raw) =>
      match unmarshal_envelope N toy_key_dec raw with Some (k, e) => Some (k, e_pt e, e_pl e) | None => None end
  | None => None
  end.
Example unvalidated_reader_hands_out_edited_payload :
  ps_get_unvalidated [0; 1; 9] (toy4_book [10; 3; 0; 1; 9; 16; 5]) = Some (1, [3; 1], [10; 3; 0; 1; 9; 16; 5]).
Proof. vm_compute. reflexivity. Qed.
(* the monitor rejects a history in which GetPeerRecord returned a payload nobody sealed, and
   accepts the one in which it returned the sealed payload *)
Example monitor_rejects_unsealed_record_from_store :
  monitor_case [20; 1; 1;100; 2;3;1;  1; 1; 1;9; 1;8; 0; 1;77;  1; 0; 1;100; 2;3;1; 1;5; 1;7;  0;
                1;  2; 1;77; 1; 1;8; 2;3;1; 1;6; 1;77; 0]%Z = [ERR_PROPERTY; 203]%Z.
Proof. vm_compute. reflexivity. Qed.
Example monitor_accepts_sealed_record_from_store :
  monitor_case [20; 1; 1;100; 2;3;1;  1; 1; 1;9; 1;8; 0; 1;77;  1; 0; 1;100; 2;3;1; 1;5; 1;7;  0;
                1;  2; 1;77; 1; 1;8; 2;3;1; 1;5; 1;77; 1]%Z = [].
Proof. vm_compute. reflexivity. Qed.

(* C08 - property theorems only (work in progress header; see the final list below). *)
From Coq Require Import List NArith ZArith Bool.
From Verif Require Import lib.Wire c08.Varint c08.Protobuf c08.Digits c08.Base58 c08.Model c08.Spec c08.Proofs gen.Consts_c08.
Import ListNotations.
Local Open Scope N_scope.

Theorem c08_uvarint_roundtrip : forall n r, decode (encode n ++ r) = Some (n, r).
Proof. exact decode_encode. Qed.
Print Assumptions c08_uvarint_roundtrip.

Theorem c08_uvarint_prefix_free : forall a b x y, encode a ++ x = encode b ++ y -> a = b /\ x = y.
Proof. exact encode_prefix_free. Qed.
Print Assumptions c08_uvarint_prefix_free.

Theorem c08_make_unsigned_injective : forall d t p d' t' p',
  make_unsigned d t p = make_unsigned d' t' p' -> d = d' /\ t = t' /\ p = p'.
Proof. exact make_unsigned_injective_l. Qed.
Print Assumptions c08_make_unsigned_injective.

(* C08 - executable transcription of the byte-level code paths (NO proofs here).

   core/record/envelope.go   makeUnsigned, Envelope.Marshal, UnmarshalEnvelope,
                             validate / ConsumeEnvelope / ConsumeTypedEnvelope
   core/crypto/key.go        MarshalPublicKey, UnmarshalPublicKey (protobuf framing,
                             key-type dispatch; the type specific inner encodings are
                             external: parameter [key_dec])
   core/peer/peer.go         IDFromPublicKey, ExtractPublicKey, IDFromBytes, String,
                             ToCid(..).String(), Decode
   core/peer/record.go       PeerRecord.peer_id
   peerstore ConsumePeerRecord   rec.PeerID.MatchesPublicKey(envelope.PublicKey)

   Bytes are N < 256, byte strings are lists.  SHA-256 and the signature
   algorithms are NOT modelled: the digest is an argument, signature
   verification is a parameter (Proofs.v: Section variables + hypotheses;
   Spec.v: instantiated from what the harness reports). *)
From Coq Require Import List NArith Bool.
From Verif Require Import c08.Varint c08.Protobuf c08.Digits c08.Base58.
Import ListNotations.
Local Open Scope N_scope.

Definition bytes := list N.

Fixpoint bytes_eqb (a b : bytes) : bool :=
  match a, b with
  | [], [] => true
  | x :: r, y :: s => (x =? y) && bytes_eqb r s
  | _, _ => false
  end.

(* ---- envelope.go: makeUnsigned ------------------------------------------- *)
(* fields = {domain, payloadType, payload}; each prefixed with its length as
   an unsigned varint (binary.AppendUvarint), concatenated in that order *)
Definition make_unsigned (domain ptype payload : bytes) : bytes :=
  put_field domain ++ put_field ptype ++ put_field payload.

(* the reader of that format (not in the Go code: it is the left inverse that
   makes injectivity a computation; the monitor uses it) *)
Definition parse_unsigned (b : bytes) : option (bytes * bytes * bytes) :=
  match take_field b with
  | Some (d, r1) =>
      match take_field r1 with
      | Some (t, r2) =>
          match take_field r2 with
          | Some (p, []) => Some (d, t, p)
          | _ => None
          end
      | None => None
      end
  | None => None
  end.

(* ---- crypto/pb PublicKey { required KeyType Type = 1; required bytes Data = 2 } *)
Definition marshal_pubkey (kt : N) (data : bytes) : bytes :=
  put_varint_field 1 kt ++ put_len_field 2 data.

(* KeyType is an int32 enum: the varint is truncated to 32 bits (values with
   the sign bit set are negative, hence never a known key type) *)
Definition enum32 (v : N) : N := v mod 2 ^ 32.

Definition merge_pubkey (fs : list field) (acc : option N * option bytes) : option N * option bytes :=
  (last_varint 1 fs (fst acc), last_bytes 2 fs (snd acc)).

(* proto.Unmarshal into pb.PublicKey: scan, last occurrence wins, both required
   fields must be present *)
Definition parse_pubkey (b : bytes) : option (N * bytes) :=
  match pb_fields b with
  | Some fs =>
      match merge_pubkey fs (None, None) with
      | (Some t, Some d) => Some (enum32 t, d)
      | _ => None
      end
  | None => None
  end.

(* PubKeyUnmarshallers has exactly the four key types 0..3 *)
Definition key_type_ok (kt : N) : bool := kt <? 4.

(* rsa_go.go UnmarshalRsaPublicKey / UnmarshalRsaPrivateKey / GenerateRSAKeyPair: the same two
   size checks everywhere: BitLen < MinRsaKeyBits -> too small, BitLen > maxRsaKeyBits -> too big *)
Definition rsa_size_ok (min_bits max_bits bits : N) : bool :=
  negb (bits <? min_bits) && negb (max_bits <? bits).

(* ---- multihash ------------------------------------------------------------ *)
Definition MH_IDENTITY : N := 0.
Definition MH_SHA2_256 : N := 18.

(* multihash.Encode *)
Definition mh_wrap (code : N) (digest : bytes) : bytes :=
  encode code ++ put_field digest.

(* multihash.Decode / Cast: at least 2 bytes, two minimal varints of at most 9
   bytes, length <= MaxInt32, and the digest is exactly the rest *)
Definition mh_decode (b : bytes) : option (N * bytes) :=
  if nlen b <? 2 then None else
  match decode_mf b with
  | Some (code, r1) =>
      match decode_mf r1 with
      | Some (len, r2) =>
          if (len <=? 2 ^ 31 - 1) && (len =? nlen r2) then Some (code, r2) else None
      | None => None
      end
  | None => None
  end.

(* ---- peer.go --------------------------------------------------------------- *)
(* IDFromPublicKey: [marshalled] = MarshalPublicKey(pk); [digest] = SHA-256 of
   it (computed outside); AdvancedEnableInlining is true *)
Definition id_of_key (max_inline : N) (marshalled digest : bytes) : bytes :=
  if nlen marshalled <=? max_inline
  then mh_wrap MH_IDENTITY marshalled
  else mh_wrap MH_SHA2_256 digest.

Inductive extract_result :=
| ExKey (marshalled : bytes)   (* identity multihash: the embedded marshalled key *)
| ExNoKey                      (* valid multihash, other code: ErrNoPublicKey *)
| ExInvalid.                   (* not a multihash *)

(* ExtractPublicKey up to (not including) UnmarshalPublicKey of the digest *)
Definition extract_key (id : bytes) : extract_result :=
  match mh_decode id with
  | Some (code, digest) => if code =? MH_IDENTITY then ExKey digest else ExNoKey
  | None => ExInvalid
  end.

(* ID.String *)
Definition id_b58 (id : bytes) : bytes := b58_encode id.

(* ToCid(id).String(): CIDv1, codec libp2p-key 0x72, multibase base32 'b' *)
Definition CID_V1 : N := 1.
Definition LIBP2P_KEY : N := 114.
Definition MB_BASE32 : N := 98.   (* 'b' *)
Definition cid_bytes (id : bytes) : bytes := encode CID_V1 ++ encode LIBP2P_KEY ++ id.
Definition id_cid_text (id : bytes) : bytes := MB_BASE32 :: b32_encode (cid_bytes id).

Inductive decode_result :=
| DecId (id : bytes)
| DecReject
| DecUnmodelled.   (* a multibase other than base32-lower: not modelled *)

Definition starts_with (p s : bytes) : bool := bytes_eqb p (firstn (length p) s).

(* cid.Cast + peer.FromCid for a CIDv1 *)
Definition id_of_cid_bytes (data : bytes) : decode_result :=
  match data with
  | 18 :: 32 :: _ :: _ => DecReject     (* would be a CIDv0 (dag-pb): not a libp2p-key *)
  | _ =>
      match decode_mf data with
      | Some (vers, r1) =>
          if vers =? CID_V1 then
            match decode_mf r1 with
            | Some (codec, r2) =>
                match mh_decode r2 with
                | Some _ => if codec =? LIBP2P_KEY then DecId r2 else DecReject
                | None => DecReject
                end
            | None => DecReject
            end
          else DecReject
      | None => DecReject
      end
  end.

(* peer.Decode *)
Definition peer_decode (s : bytes) : decode_result :=
  if starts_with [81; 109] s || starts_with [49] s then     (* "Qm" / "1" *)
    match b58_decode s with
    | Some b => match mh_decode b with Some _ => DecId b | None => DecReject end
    | None => DecReject
    end
  else
    match s with
    | c :: rest =>
        if nlen s <? 2 then DecReject
        else if c =? MB_BASE32 then
          match b32_decode rest with
          | Some data => id_of_cid_bytes data
          | None => DecUnmodelled      (* go-base32 is more lenient than the model *)
          end
        else DecUnmodelled
    | [] => DecReject
    end.

(* ---- record/pb Envelope { PublicKey public_key = 1; bytes payload_type = 2;
                             bytes payload = 3; bytes signature = 5 }  (proto3) --- *)
Record envelope := mkEnv {
  e_kt : N; e_kd : bytes;          (* public_key.Type, public_key.Data *)
  e_pt : bytes; e_pl : bytes; e_sg : bytes }.

(* Envelope.Marshal: fields in number order, empty bytes fields omitted *)
Definition marshal_envelope (e : envelope) : bytes :=
  put_len_field 1 (marshal_pubkey (e_kt e) (e_kd e))
  ++ put_len_field_opt 2 (e_pt e) ++ put_len_field_opt 3 (e_pl e) ++ put_len_field_opt 5 (e_sg e).

(* every occurrence of the embedded message is scanned and merged *)
Fixpoint merge_pubkeys (occ : list bytes) (acc : option N * option bytes)
  : option (option N * option bytes) :=
  match occ with
  | [] => Some acc
  | m :: r =>
      match pb_fields m with
      | Some fs => merge_pubkeys r (merge_pubkey fs acc)
      | None => None
      end
  end.

Definition opt_bytes (o : option bytes) : bytes := match o with Some b => b | None => [] end.

(* proto.Unmarshal into pb.Envelope (the first half of UnmarshalEnvelope).
   Without any public_key field the Go getters yield Type = RSA (0) and empty
   Data.  With one, both required fields must be present after merging. *)
Definition parse_envelope (b : bytes) : option envelope :=
  match pb_fields b with
  | Some fs =>
      let pt := opt_bytes (last_bytes 2 fs None) in
      let pl := opt_bytes (last_bytes 3 fs None) in
      let sg := opt_bytes (last_bytes 5 fs None) in
      match all_bytes 1 fs with
      | [] => Some (mkEnv 0 [] pt pl sg)
      | occ =>
          match merge_pubkeys occ (None, None) with
          | Some (Some t, Some d) => Some (mkEnv (enum32 t) d pt pl sg)
          | _ => None
          end
      end
  | None => None
  end.

(* ---- UnmarshalEnvelope + validate ------------------------------------------ *)
Inductive consume_result (K : Type) :=
| CAccept (signer : K) (ptype payload : bytes)
| CBadEnvelope          (* "failed when unmarshalling the envelope" *)
| CBadSignature.        (* "failed to validate envelope" *)
Arguments CAccept {K}. Arguments CBadEnvelope {K}. Arguments CBadSignature {K}.

Section Consume.
  Variable K : Type.
  (* the key-type specific unmarshallers (PKIX/DER, raw Ed25519, compressed
     secp256k1): external *)
  Variable key_dec : N -> bytes -> option K.
  (* PubKey.Verify(data, sig): external *)
  Variable verify : K -> bytes -> bytes -> bool.

  Definition unmarshal_envelope (b : bytes) : option (K * envelope) :=
    match parse_envelope b with
    | Some e =>
        if key_type_ok (e_kt e) then
          match key_dec (e_kt e) (e_kd e) with
          | Some k => Some (k, e)
          | None => None
          end
        else None
    | None => None
    end.

  Definition consume (b : bytes) (domain : bytes) : consume_result K :=
    match unmarshal_envelope b with
    | Some (k, e) =>
        if verify k (make_unsigned domain (e_pt e) (e_pl e)) (e_sg e)
        then CAccept k (e_pt e) (e_pl e)
        else CBadSignature
    | None => CBadEnvelope
    end.

  (* peer/pb PeerRecord { bytes peer_id = 1; ... }: the record's peer ID *)
  Definition record_peer_id (payload : bytes) : option bytes :=
    match pb_fields payload with
    | Some fs =>
        let id := opt_bytes (last_bytes 1 fs None) in
        match mh_decode id with Some _ => Some id | None => None end
    | None => None
    end.

  (* the ID of a decoded key: IDFromPublicKey (re-marshals it and hashes) *)
  Variable id_of : K -> bytes.

  (* ConsumeEnvelope followed by a peerstore's ConsumePeerRecord *)
  Definition consume_peer_record (b : bytes) (domain : bytes) : option (K * bytes * bytes) :=
    match consume b domain with
    | CAccept k _ payload =>
        match record_peer_id payload with
        | Some rid => if bytes_eqb rid (id_of k) then Some (k, rid, payload) else None
        | None => None
        end
    | _ => None
    end.
End Consume.

(* ---- round 2 additions ----------------------------------------------------------------- *)
(* IDFromPublicKey with the process-wide switch AdvancedEnableInlining *)
Definition id_of_key_flag (inlining : bool) (max_inline : N) (marshalled digest : bytes) : bytes :=
  if inlining then id_of_key max_inline marshalled digest else mh_wrap MH_SHA2_256 digest.

(* circuitv2/pb ReservationVoucher { optional bytes relay = 1; optional bytes peer = 2;
   optional uint64 expiration = 3 } as read by ReservationVoucher.UnmarshalRecord: both
   IDs go through peer.IDFromBytes (a valid multihash; an absent field is the empty
   string, which is not), the expiration defaults to 0 and is a uint64 *)
Definition voucher_fields (payload : bytes) : option (bytes * bytes * N) :=
  match pb_fields payload with
  | Some fs =>
      let relay := opt_bytes (last_bytes 1 fs None) in
      let peer := opt_bytes (last_bytes 2 fs None) in
      let exp := match last_varint 3 fs None with Some v => v mod 2 ^ 64 | None => 0 end in
      match mh_decode relay, mh_decode peer with
      | Some _, Some _ => Some (relay, peer, exp)
      | _, _ => None
      end
  | None => None
  end.

(* the hand-written canonical voucher payload *)
Definition marshal_voucher (relay peer : bytes) (exp : N) : bytes :=
  put_len_field 1 relay ++ put_len_field 2 peer ++ put_varint_field 3 exp.

(* peer.IDFromP2PAddr over the component list (protocol code, raw value) of a
   multiaddr: the LAST component must be /p2p and its value is the ID; SplitAddr /
   AddrInfoFromP2pAddr answer the same question with ma.SplitLast *)
Definition P_P2P : N := 421.
Definition P_CIRCUIT : N := 290.
Definition id_from_p2p_addr (comps : list (N * bytes)) : option bytes :=
  match rev comps with
  | (code, v) :: _ => if code =? P_P2P then Some v else None
  | [] => None
  end.

(* ---- round 3: private keys ------------------------------------------------------------------- *)
(* crypto/pb PrivateKey { required KeyType Type = 1; required bytes Data = 2 }: the same framing
   as PublicKey *)
Definition marshal_privkey (kt : N) (data : bytes) : bytes := marshal_pubkey kt data.
Definition parse_privkey (b : bytes) : option (N * bytes) := parse_pubkey b.

(* ed25519.go: Raw() of a private key is seed (32) ++ public half (32).
   UnmarshalEd25519PrivateKey accepts exactly 64 bytes, or the legacy 96 bytes
   seed ++ pub ++ pub whose two copies of the public half agree ... *)
Definition ed25519_priv_raw (seed pub : bytes) : bytes := seed ++ pub.

Definition ed25519_priv_parts_unchecked (data : bytes) : option (bytes * bytes) :=
  if nlen data =? 64 then Some (firstn 32 data, skipn 32 data)
  else if nlen data =? 96 then
    let pub := firstn 32 (skipn 32 data) in
    if bytes_eqb pub (skipn 64 data) then Some (firstn 32 data, pub) else None
  else None.

(* ... and (since a5f52a7) only if the public half is the public key of the seed:
   [derive] = ed25519.NewKeyFromSeed(seed)[32:], the curve's scalar multiplication, external *)
Definition ed25519_priv_parts (derive : bytes -> bytes) (data : bytes) : option (bytes * bytes) :=
  match ed25519_priv_parts_unchecked data with
  | Some (seed, pub) => if bytes_eqb pub (derive seed) then Some (seed, pub) else None
  | None => None
  end.

(* Ed25519PrivateKey.Equals: the whole 64 bytes, i.e. both halves *)
Definition ed25519_priv_equal (a b : bytes * bytes) : bool :=
  bytes_eqb (fst a) (fst b) && bytes_eqb (snd a) (snd b).

(* ---- round 4: the peerstores' signed-record path ------------------------------------------------
   ConsumeEnvelope(bytes, PeerRecordEnvelopeDomain) -> AddrBook.ConsumePeerRecord(envelope) ->
   AddrBook.GetPeerRecord(p), for pstoremem and pstoreds (p2p/host/peerstore/*/addr_book.go).

   pstoreds keeps, per peer, an AddrBookRecord in the datastore whose CertifiedRecord is
   { Seq; Raw = Envelope.Marshal() } and (with CacheSize > 0) a cache of loaded records in front
   of it.  GetPeerRecord loads the record (cache first) and hands out
   ConsumeEnvelope(Raw, PeerRecordEnvelopeDomain): the stored bytes are validated AGAIN on every
   read, so whatever sits in the datastore - edited between write and read, found after a restart -
   is handed out only if it is a sealed envelope.  pstoremem keeps the consumed envelope itself;
   nothing can edit it, which is the same book without [ps_edit] steps.

   Not modelled: addresses and their expiry (every record of a history carries at least one
   address and nothing expires: GetPeerRecord's "no addresses" exit is not taken), cache
   eviction, the cached EMPTY record of a peer never written (a datastore entry is only ever
   edited where one exists, so an empty cached record never hides one), pstoremem's
   maxSignedPeerRecords. *)

(* peer/pb PeerRecord { bytes peer_id = 1; uint64 seq = 2; repeated AddressInfo addresses = 3 } *)
Definition record_seq (payload : bytes) : N :=
  match pb_fields payload with
  | Some fs => match last_varint 2 fs None with Some v => v mod 2 ^ 64 | None => 0 end
  | None => 0
  end.

Definition ps_entry := (N * bytes)%type.                 (* CertifiedRecord: Seq, Raw *)
Definition ps_store := list (bytes * ps_entry).          (* peer ID -> entry; the first match counts *)
Record book := mkBook { b_cached : bool; b_ds : ps_store; b_cache : ps_store }.

Fixpoint st_get (p : bytes) (s : ps_store) : option ps_entry :=
  match s with
  | [] => None
  | (q, v) :: r => if bytes_eqb q p then Some v else st_get p r
  end.

(* loadRecord: the cache first; a record read from the datastore enters the cache *)
Definition ps_load (p : bytes) (b : book) : option ps_entry * book :=
  if b_cached b then
    match st_get p (b_cache b) with
    | Some v => (Some v, b)
    | None =>
        match st_get p (b_ds b) with
        | Some v => (Some v, mkBook true (b_ds b) ((p, v) :: b_cache b))
        | None => (None, b)
        end
    end
  else (st_get p (b_ds b), b).

(* flush of a record held in the cache: written through *)
Definition ps_write (p : bytes) (v : ps_entry) (b : book) : book :=
  mkBook (b_cached b) ((p, v) :: b_ds b) (if b_cached b then (p, v) :: b_cache b else b_cache b).

(* somebody else writes the datastore entry's envelope bytes (only where an entry exists) *)
Definition ps_edit (p raw : bytes) (b : book) : book :=
  match st_get p (b_ds b) with
  | Some (sq, _) => mkBook (b_cached b) ((p, (sq, raw)) :: b_ds b) (b_cache b)
  | None => b
  end.

(* restart: a new address book over the same datastore *)
Definition ps_reopen (b : book) : book := mkBook (b_cached b) (b_ds b) [].

Section Peerstore.
  Variable K : Type.
  Variable key_dec : N -> bytes -> option K.
  Variable verify : K -> bytes -> bytes -> bool.
  Variable id_of : K -> bytes.
  Variable key_proto : K -> N * bytes.       (* PublicKeyToProto of a decoded key: Type, Raw() *)
  Variable prdom : bytes.                    (* peer.PeerRecordEnvelopeDomain *)
  Variable prcodec : bytes.                  (* peer.PeerRecordEnvelopePayloadType *)

  (* the payload as a PeerRecord: (peer ID, seq) *)
  Definition rec_dec (pt pl : bytes) : option (bytes * N) :=
    if bytes_eqb pt prcodec then
      match record_peer_id pl with
      | Some rid => Some (rid, record_seq pl)
      | None => None
      end
    else None.

  (* GetPeerRecord *)
  Definition ps_get (p : bytes) (b : book) : option (K * bytes * bytes) * book :=
    let '(cur, b1) := ps_load p b in
    (match cur with
     | Some (_, raw) =>
         match consume K key_dec verify raw prdom with
         | CAccept k pt pl => match rec_dec pt pl with Some _ => Some (k, pt, pl) | None => None end
         | _ => None
         end
     | None => None
     end, b1).

  (* latestPeerRecordSeq *)
  Definition ps_latest (cur : option ps_entry) : N :=
    match cur with
    | Some (sq, _ :: _) => sq
    | _ => 0
    end.

  (* ConsumeEnvelope(env, PeerRecordEnvelopeDomain), then ConsumePeerRecord on what it returned:
     (envelope verdict, peerstore verdict 0 not attempted / 1 stored / 2 the record's ID is not the
     signer's / 3 older than the stored one, the record's peer ID) *)
  Definition ps_consume (env : bytes) (b : book) : (consume_result K * N * bytes) * book :=
    match unmarshal_envelope K key_dec env with
    | Some (k, e) =>
        if verify k (make_unsigned prdom (e_pt e) (e_pl e)) (e_sg e) then
          let r := CAccept k (e_pt e) (e_pl e) in
          match rec_dec (e_pt e) (e_pl e) with
          | Some (rid, sq) =>
              if bytes_eqb rid (id_of k) then
                let '(cur, b1) := ps_load rid b in
                if sq <? ps_latest cur then ((r, 3, rid), b1)
                else
                  let '(kt, kd) := key_proto k in
                  ((r, 1, rid),
                   ps_write rid (sq, marshal_envelope (mkEnv kt kd (e_pt e) (e_pl e) (e_sg e))) b1)
              else ((r, 2, rid), b)
          | None => ((r, 0, []), b)
          end
        else ((CBadSignature, 0, []), b)
    | None => ((CBadEnvelope, 0, []), b)
    end.
End Peerstore.

(* Positional notation in an arbitrary base b >= 2 on N, big-endian digit
   lists.  Reusable: stdlib only.     From Verif Require Import c08.Digits.

     of_digits b ds      value of a digit string (leading zeros allowed)
     to_digits b n       the minimal digit string of n ([] for 0)
     fixed b k n         exactly k digits of n (zero padded on the left)
     count_zeros / strip_zeros   leading zero digits

   Main results (every base b >= 2, every n, every digit string):
     to_digits_unfold    to_digits b n = if n = 0 then [] else to_digits b (n / b) ++ [n mod b]
     of_to_digits        of_digits b (to_digits b n) = n
     to_of_digits        digits < b, no leading zero -> to_digits b (of_digits b ds) = ds
     to_digits_range / to_digits_nolead     the output is canonical
     of_fixed / fixed_of_digits             fixed-width round trip (n < b^k; length ds = k)
     to_digits_shift     0 < q, r < b^k -> to_digits b (q * b^k + r) = to_digits b q ++ fixed b k r
                         (the leading digits of a number in a known range - this is what
                         makes "sha2-256 multihashes print as Qm..." a theorem)
     zeros_split         ds = repeat 0 (count_zeros ds) ++ strip_zeros ds, the latter canonical *)
From Coq Require Import List NArith ZArith Lia Bool Arith.
Import ListNotations.
Local Open Scope N_scope.
Local Ltac Zify.zify_post_hook ::= Z.to_euclidean_division_equations.

Definition of_digits_acc (b : N) (a : N) (ds : list N) : N :=
  fold_left (fun acc d => acc * b + d) ds a.
Definition of_digits (b : N) (ds : list N) : N := of_digits_acc b 0 ds.

Fixpoint to_digits_f (fuel : nat) (b n : N) (acc : list N) : list N :=
  match fuel with
  | O => acc
  | S f => if n =? 0 then acc else to_digits_f f b (n / b) (n mod b :: acc)
  end.
Definition to_digits (b n : N) : list N := to_digits_f (N.to_nat (N.size n)) b n [].

Fixpoint fixed_acc (k : nat) (b n : N) (acc : list N) : list N :=
  match k with
  | O => acc
  | S k' => fixed_acc k' b (n / b) (n mod b :: acc)
  end.
Definition fixed (b : N) (k : nat) (n : N) : list N := fixed_acc k b n [].

Fixpoint count_zeros (l : list N) : nat :=
  match l with
  | 0 :: r => S (count_zeros r)
  | _ => O
  end.
Fixpoint strip_zeros (l : list N) : list N :=
  match l with
  | 0 :: r => strip_zeros r
  | _ => l
  end.

Definition nolead (ds : list N) : Prop :=
  match ds with [] => True | d :: _ => d <> 0 end.
Definition digits_ok (b : N) (ds : list N) : Prop := Forall (fun d => d < b) ds.

Section Base.
Variable b : N.
Hypothesis Hb : 2 <= b.

Lemma of_digits_acc_app : forall x y a,
  of_digits_acc b a (x ++ y) = of_digits_acc b (of_digits_acc b a x) y.
Proof. intros x y a. unfold of_digits_acc. apply fold_left_app. Qed.

Lemma of_digits_acc_pow : forall ds a,
  of_digits_acc b a ds = a * b ^ N.of_nat (length ds) + of_digits b ds.
Proof.
  induction ds as [|d ds IH]; intros a.
  - cbn. lia.
  - unfold of_digits. cbn [of_digits_acc fold_left length].
    fold (of_digits_acc b (a * b + d) ds). fold (of_digits_acc b (0 * b + d) ds).
    rewrite (IH (a * b + d)), (IH (0 * b + d)).
    rewrite Nat2N.inj_succ, N.pow_succ_r'. lia.
Qed.

Lemma of_digits_cons : forall d ds,
  of_digits b (d :: ds) = d * b ^ N.of_nat (length ds) + of_digits b ds.
Proof.
  intros d ds. unfold of_digits at 1. cbn [of_digits_acc fold_left].
  fold (of_digits_acc b (0 * b + d) ds). rewrite of_digits_acc_pow. lia.
Qed.

Lemma of_digits_snoc : forall ds d, of_digits b (ds ++ [d]) = of_digits b ds * b + d.
Proof. intros ds d. unfold of_digits. rewrite of_digits_acc_app. reflexivity. Qed.

Lemma of_digits_nil : of_digits b [] = 0.
Proof. reflexivity. Qed.

Lemma pow_pos : forall k, 0 < b ^ k.
Proof. intros k. apply N.neq_0_lt_0, N.pow_nonzero. lia. Qed.

Lemma of_digits_bound : forall ds, digits_ok b ds -> of_digits b ds < b ^ N.of_nat (length ds).
Proof.
  induction ds as [|d ds IH] using rev_ind; intros H.
  - cbn. lia.
  - apply Forall_app in H. destruct H as [H1 H2]. inversion H2; subst.
    rewrite of_digits_snoc, app_length. cbn [length].
    replace (length ds + 1)%nat with (S (length ds)) by lia.
    rewrite Nat2N.inj_succ, N.pow_succ_r'. specialize (IH H1). nia.
Qed.

(* ---- to_digits: fuel independence and the defining equation -------------- *)
Lemma to_digits_f_acc : forall f n acc,
  to_digits_f f b n acc = to_digits_f f b n [] ++ acc.
Proof.
  induction f as [|f IH]; intros n acc; [reflexivity|].
  cbn [to_digits_f]. destruct (n =? 0); [reflexivity|].
  rewrite (IH (n / b) (n mod b :: acc)), (IH (n / b) [n mod b]).
  rewrite <- app_assoc. reflexivity.
Qed.

Lemma half_lt : forall n f, n < 2 ^ N.of_nat (S f) -> n / b < 2 ^ N.of_nat f.
Proof.
  intros n f H. rewrite Nat2N.inj_succ, N.pow_succ_r' in H.
  apply N.div_lt_upper_bound; [lia|].
  assert (0 < 2 ^ N.of_nat f) by (apply N.neq_0_lt_0, N.pow_nonzero; lia). nia.
Qed.

Lemma to_digits_f_enough : forall f1 f2 n acc,
  n < 2 ^ N.of_nat f1 -> n < 2 ^ N.of_nat f2 ->
  to_digits_f f1 b n acc = to_digits_f f2 b n acc.
Proof.
  induction f1 as [|f1 IH]; intros f2 n acc H1 H2.
  - cbn in H1. assert (n = 0) by lia. subst n. destruct f2; reflexivity.
  - destruct f2 as [|f2].
    + cbn in H2. assert (n = 0) by lia. subst n. reflexivity.
    + cbn [to_digits_f]. destruct (n =? 0); [reflexivity|].
      apply IH; apply half_lt; assumption.
Qed.

Lemma size_bound : forall n, n < 2 ^ N.of_nat (N.to_nat (N.size n)).
Proof. intros n. rewrite N2Nat.id. apply N.size_gt. Qed.

Lemma to_digits_unfold : forall n,
  to_digits b n = if n =? 0 then [] else to_digits b (n / b) ++ [n mod b].
Proof.
  intros n. unfold to_digits at 1.
  destruct (N.to_nat (N.size n)) as [|f] eqn:E.
  - pose proof (size_bound n) as H. rewrite E in H. cbn in H.
    assert (n = 0) by lia. subst n. reflexivity.
  - cbn [to_digits_f]. destruct (n =? 0) eqn:Z; [reflexivity|].
    rewrite to_digits_f_acc. f_equal. unfold to_digits. apply to_digits_f_enough.
    + apply half_lt. rewrite <- E. apply size_bound.
    + apply size_bound.
Qed.

Lemma to_digits_0 : to_digits b 0 = [].
Proof. reflexivity. Qed.

(* induction following the recursion of to_digits *)
Lemma digits_ind : forall P : N -> Prop,
  P 0 -> (forall n, n <> 0 -> P (n / b) -> P n) -> forall n, P n.
Proof.
  intros P H0 Hs n. induction n as [n IH] using (well_founded_induction N.lt_wf_0).
  destruct (N.eq_dec n 0) as [->|Hn]; [exact H0|].
  apply Hs; [exact Hn|]. apply IH. apply N.div_lt; lia.
Qed.

Theorem of_to_digits : forall n, of_digits b (to_digits b n) = n.
Proof.
  apply digits_ind.
  - reflexivity.
  - intros n Hn IH. rewrite to_digits_unfold. apply N.eqb_neq in Hn. rewrite Hn.
    rewrite of_digits_snoc, IH. rewrite (N.div_mod n b) at 3 by lia. lia.
Qed.

Theorem to_digits_range : forall n, digits_ok b (to_digits b n).
Proof.
  apply (digits_ind (fun n => digits_ok b (to_digits b n))).
  - constructor.
  - intros n Hn IH. rewrite to_digits_unfold. apply N.eqb_neq in Hn. rewrite Hn.
    apply Forall_app. split; [exact IH|]. constructor; [|constructor].
    apply N.mod_upper_bound. lia.
Qed.

Lemma nolead_app : forall x y, x <> [] -> nolead x -> nolead (x ++ y).
Proof. intros x y Hx H. destruct x; [congruence|exact H]. Qed.

Theorem to_digits_nolead : forall n, nolead (to_digits b n).
Proof.
  apply (digits_ind (fun n => nolead (to_digits b n))).
  - exact I.
  - intros n Hn IH. rewrite to_digits_unfold.
    pose proof Hn as Hn'. apply N.eqb_neq in Hn'. rewrite Hn'.
    destruct (N.eq_dec (n / b) 0) as [E|E].
    + rewrite E, to_digits_0. cbn. assert (n < b) by (apply N.div_small_iff in E; lia).
      rewrite N.mod_small by assumption. exact Hn.
    + apply nolead_app; [|exact IH]. rewrite to_digits_unfold.
      apply N.eqb_neq in E. rewrite E. intros C. apply app_eq_nil in C. destruct C; discriminate.
Qed.

Lemma to_digits_nonzero : forall n, n <> 0 -> to_digits b n <> [].
Proof.
  intros n Hn. rewrite to_digits_unfold. apply N.eqb_neq in Hn. rewrite Hn.
  intros C. apply app_eq_nil in C. destruct C; discriminate.
Qed.

Lemma of_digits_nolead_nonzero : forall ds, ds <> [] -> nolead ds -> of_digits b ds <> 0.
Proof.
  intros ds Hne H. destruct ds as [|d ds]; [congruence|]. cbn in H.
  rewrite of_digits_cons. pose proof (pow_pos (N.of_nat (length ds))). nia.
Qed.

Theorem to_of_digits : forall ds, digits_ok b ds -> nolead ds ->
  to_digits b (of_digits b ds) = ds.
Proof.
  induction ds as [|d ds IH] using rev_ind; intros Hok Hl.
  - reflexivity.
  - apply Forall_app in Hok. destruct Hok as [Hok Hd]. inversion Hd as [|? ? Hdb _]; subst.
    rewrite to_digits_unfold, of_digits_snoc.
    assert (Hnz : of_digits b ds * b + d <> 0).
    { destruct ds as [|d0 ds'].
      - cbn in Hl. rewrite of_digits_nil. lia.
      - assert (of_digits b (d0 :: ds') <> 0) by (apply of_digits_nolead_nonzero; [discriminate|exact Hl]).
        nia. }
    apply N.eqb_neq in Hnz. rewrite Hnz.
    replace ((of_digits b ds * b + d) / b) with (of_digits b ds).
    + replace ((of_digits b ds * b + d) mod b) with d.
      * rewrite IH; [reflexivity|exact Hok|]. destruct ds; [exact I|exact Hl].
      * rewrite N.add_comm, N.mod_add by lia. symmetry. apply N.mod_small. exact Hdb.
    + rewrite N.add_comm, N.div_add by lia. rewrite N.div_small by exact Hdb. lia.
Qed.

(* ---- fixed width ---------------------------------------------------------- *)
Lemma fixed_acc_app : forall k n acc, fixed_acc k b n acc = fixed_acc k b n [] ++ acc.
Proof.
  induction k as [|k IH]; intros n acc; [reflexivity|].
  cbn [fixed_acc]. rewrite (IH (n / b) (n mod b :: acc)), (IH (n / b) [n mod b]).
  rewrite <- app_assoc. reflexivity.
Qed.

Lemma fixed_S : forall k n, fixed b (S k) n = fixed b k (n / b) ++ [n mod b].
Proof. intros k n. unfold fixed. cbn [fixed_acc]. apply fixed_acc_app. Qed.

Lemma fixed_length : forall k n, length (fixed b k n) = k.
Proof.
  induction k as [|k IH]; intros n; [reflexivity|].
  rewrite fixed_S, app_length, IH. cbn. lia.
Qed.

Lemma fixed_range : forall k n, digits_ok b (fixed b k n).
Proof.
  induction k as [|k IH]; intros n; [constructor|].
  rewrite fixed_S. apply Forall_app. split; [apply IH|].
  constructor; [|constructor]. apply N.mod_upper_bound. lia.
Qed.

Theorem of_fixed : forall k n, n < b ^ N.of_nat k -> of_digits b (fixed b k n) = n.
Proof.
  induction k as [|k IH]; intros n H.
  - cbn in H. cbn. lia.
  - rewrite fixed_S, of_digits_snoc. rewrite Nat2N.inj_succ, N.pow_succ_r' in H.
    rewrite IH by (apply N.div_lt_upper_bound; lia).
    rewrite (N.div_mod n b) at 3 by lia. lia.
Qed.

Theorem fixed_of_digits : forall ds, digits_ok b ds ->
  fixed b (length ds) (of_digits b ds) = ds.
Proof.
  induction ds as [|d ds IH] using rev_ind; intros Hok; [reflexivity|].
  apply Forall_app in Hok. destruct Hok as [Hok Hd]. inversion Hd as [|? ? Hdb _]; subst.
  rewrite app_length. cbn [length]. replace (length ds + 1)%nat with (S (length ds)) by lia.
  rewrite fixed_S, of_digits_snoc.
  replace ((of_digits b ds * b + d) / b) with (of_digits b ds).
  - replace ((of_digits b ds * b + d) mod b) with d.
    + rewrite IH by exact Hok. reflexivity.
    + rewrite N.add_comm, N.mod_add by lia. symmetry. apply N.mod_small. exact Hdb.
  - rewrite N.add_comm, N.div_add by lia. rewrite N.div_small by exact Hdb. lia.
Qed.

(* ---- leading digits of a number in a known range -------------------------- *)
Theorem to_digits_shift : forall k q r, 0 < q -> r < b ^ N.of_nat k ->
  to_digits b (q * b ^ N.of_nat k + r) = to_digits b q ++ fixed b k r.
Proof.
  induction k as [|k IH]; intros q r Hq Hr.
  - cbn in Hr. assert (r = 0) by lia. subst r. cbn [N.of_nat]. rewrite N.pow_0_r.
    unfold fixed. cbn [fixed_acc]. rewrite app_nil_r. f_equal. lia.
  - rewrite Nat2N.inj_succ, N.pow_succ_r' in *.
    pose proof (pow_pos (N.of_nat k)) as Hp.
    rewrite to_digits_unfold.
    assert (Hnz : q * (b * b ^ N.of_nat k) + r <> 0) by nia.
    apply N.eqb_neq in Hnz. rewrite Hnz.
    assert (Hdiv : (q * (b * b ^ N.of_nat k) + r) / b = q * b ^ N.of_nat k + r / b).
    { replace (q * (b * b ^ N.of_nat k) + r) with (r + (q * b ^ N.of_nat k) * b) by lia.
      rewrite N.div_add by lia. lia. }
    assert (Hmod : (q * (b * b ^ N.of_nat k) + r) mod b = r mod b).
    { replace (q * (b * b ^ N.of_nat k) + r) with (r + (q * b ^ N.of_nat k) * b) by lia.
      rewrite N.mod_add by lia. reflexivity. }
    rewrite Hdiv, Hmod, fixed_S.
    rewrite IH; [|exact Hq|apply N.div_lt_upper_bound; lia].
    rewrite app_assoc. reflexivity.
Qed.

(* ---- leading zeros -------------------------------------------------------- *)
Lemma zeros_split : forall ds,
  ds = repeat 0 (count_zeros ds) ++ strip_zeros ds /\ nolead (strip_zeros ds).
Proof.
  induction ds as [|d ds IH].
  - split; [reflexivity|exact I].
  - destruct d as [|p].
    + cbn [count_zeros strip_zeros repeat app]. destruct IH as [IH1 IH2].
      split; [f_equal; exact IH1|exact IH2].
    + cbn. split; [reflexivity|discriminate].
Qed.

Lemma count_zeros_repeat : forall z ds, nolead ds -> count_zeros (repeat 0 z ++ ds) = z.
Proof.
  induction z as [|z IH]; intros ds H.
  - cbn. destruct ds as [|d ds]; [reflexivity|]. cbn in H. destruct d; [congruence|reflexivity].
  - cbn. f_equal. apply IH, H.
Qed.

Lemma strip_zeros_repeat : forall z ds, nolead ds -> strip_zeros (repeat 0 z ++ ds) = ds.
Proof.
  induction z as [|z IH]; intros ds H.
  - cbn. destruct ds as [|d ds]; [reflexivity|]. cbn in H. destruct d; [congruence|reflexivity].
  - cbn. apply IH, H.
Qed.

Lemma of_digits_zeros : forall z ds, of_digits b (repeat 0 z ++ ds) = of_digits b ds.
Proof.
  induction z as [|z IH]; intros ds; [reflexivity|].
  cbn [repeat app]. rewrite of_digits_cons, IH. lia.
Qed.

Lemma of_digits_strip : forall ds, of_digits b (strip_zeros ds) = of_digits b ds.
Proof.
  intros ds. destruct (zeros_split ds) as [H _]. rewrite H at 2. symmetry. apply of_digits_zeros.
Qed.

Lemma strip_zeros_ok : forall ds, digits_ok b ds -> digits_ok b (strip_zeros ds).
Proof.
  intros ds H. destruct (zeros_split ds) as [E _]. rewrite E in H.
  apply Forall_app in H. apply H.
Qed.

End Base.

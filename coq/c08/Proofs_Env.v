(* C08 - envelopes: wire round trip, acceptance under an ideal signature scheme,
   peer records, and the coupling of the run-time monitor with the model. *)
From Coq Require Import List NArith ZArith Lia Bool Arith.
From Verif Require Import lib.Wire c08.Varint c08.Protobuf c08.Digits c08.Base58 c08.SymCrypto
  c08.Model c08.Proofs c08.Spec.
Import ListNotations.
Local Open Scope N_scope.

(* ---- Envelope.Marshal / proto.Unmarshal round trip -------------------------------- *)
Definition opt_field (num : N) (x : bytes) : list field :=
  match x with [] => [] | _ => [(num, WLen x)] end.

Lemma pb_fields_opt_field : forall num x rest, 1 <= num -> num < 16 -> nlen x < 2 ^ 64 ->
  pb_fields (put_len_field_opt num x ++ rest) =
  match pb_fields rest with Some fs => Some (opt_field num x ++ fs) | None => None end.
Proof.
  intros num x rest H1 H2 H3. destruct x as [|b x].
  - cbn [put_len_field_opt opt_field app]. destruct (pb_fields rest); reflexivity.
  - cbn [put_len_field_opt opt_field]. rewrite pb_fields_len_field by assumption.
    destruct (pb_fields rest); reflexivity.
Qed.

Definition env_wf (e : envelope) : Prop :=
  e_kt e < 2 ^ 32 /\ nlen (e_kd e) < 2 ^ 63 /\ nlen (e_pt e) < 2 ^ 64 /\
  nlen (e_pl e) < 2 ^ 64 /\ nlen (e_sg e) < 2 ^ 64.

Lemma marshal_pubkey_len : forall kt d, kt < 2 ^ 32 -> nlen d < 2 ^ 63 ->
  nlen (marshal_pubkey kt d) < 2 ^ 64.
Proof.
  intros kt d Hk Hd. unfold marshal_pubkey, put_varint_field, put_len_field, put_field, nlen in *.
  rewrite !app_length. rewrite !tag_small by lia. cbn [length].
  assert (L1 : (length (encode kt) <= 5)%nat).
  { apply encode_length_le; [lia|]. eapply N.lt_le_trans; [exact Hk|]. vm_compute. discriminate. }
  assert (L2 : (length (encode (N.of_nat (length d))) <= 9)%nat).
  { apply encode_length_le; [lia|]. eapply N.lt_le_trans; [exact Hd|]. vm_compute. discriminate. }
  assert (2 ^ 63 + 100 < 2 ^ 64) by (vm_compute; reflexivity). lia.
Qed.

Lemma last_bytes_opt_self : forall num x fs acc,
  (forall v, In (num, WLen v) fs -> False) ->
  opt_bytes (last_bytes num (opt_field num x ++ fs) acc) = 
  match x with [] => opt_bytes (last_bytes num fs acc) | _ => opt_bytes (last_bytes num fs (Some x)) end.
Proof.
  intros num x fs acc _. destruct x; cbn [opt_field app last_bytes]; [reflexivity|].
  rewrite N.eqb_refl. reflexivity.
Qed.

Lemma parse_marshal_envelope : forall e, env_wf e -> parse_envelope (marshal_envelope e) = Some e.
Proof.
  intros [kt kd pt pl sg] (Hkt & Hkd & Hpt & Hpl & Hsg). cbn [e_kt e_kd e_pt e_pl e_sg] in *.
  unfold parse_envelope, marshal_envelope. cbn [e_kt e_kd e_pt e_pl e_sg].
  pose proof (marshal_pubkey_len kt kd Hkt Hkd) as Hmk.
  rewrite pb_fields_len_field by (try exact Hmk; lia).
  rewrite pb_fields_opt_field by (try exact Hpt; lia).
  rewrite pb_fields_opt_field by (try exact Hpl; lia).
  rewrite <- (app_nil_r (put_len_field_opt 5 sg)).
  rewrite pb_fields_opt_field by (try exact Hsg; lia).
  rewrite pb_fields_nil. rewrite app_nil_r.
  assert (Hkd64 : nlen kd < 2 ^ 64).
  { eapply N.lt_trans; [exact Hkd|]. vm_compute. reflexivity. }
  assert (Hk64 : kt < 2 ^ 64).
  { eapply N.lt_trans; [exact Hkt|]. vm_compute. reflexivity. }
  destruct pt as [|p0 pt]; destruct pl as [|l0 pl]; destruct sg as [|s0 sg];
    cbn [opt_field app all_bytes last_bytes N.eqb Pos.eqb opt_bytes merge_pubkeys];
    rewrite pb_fields_marshal_pubkey by assumption;
    cbn [merge_pubkey last_varint last_bytes fst snd N.eqb Pos.eqb];
    rewrite enum32_small by exact Hkt; reflexivity.
Qed.

(* ---- acceptance under an ideal signature scheme ------------------------------------ *)
Section Ideal.
  Variable K : Type.
  Variable key_dec : N -> bytes -> option K.
  Variable verify : K -> bytes -> bytes -> bool.
  Variable origin : bytes -> option (K * bytes).
  Hypothesis verify_ideal : forall k m s, verify k m s = true <-> origin s = Some (k, m).
  Variable id_of : K -> bytes.

  Notation consume := (consume K key_dec verify).
  Notation unmarshal := (unmarshal_envelope K key_dec).

  (* consume accepts iff the bytes decode to (key, type, payload, sig) and sig
     was issued for exactly (key, make_unsigned domain type payload) *)
  Lemma consume_accept_iff : forall b dom k t p,
    consume b dom = CAccept k t p <->
    exists e, unmarshal b = Some (k, e) /\ t = e_pt e /\ p = e_pl e /\
              origin (e_sg e) = Some (k, make_unsigned dom t p).
  Proof.
    intros b dom k t p. unfold Model.consume. split.
    - destruct (unmarshal b) as [[k' e]|] eqn:U; [|discriminate].
      destruct (verify k' (make_unsigned dom (e_pt e) (e_pl e)) (e_sg e)) eqn:V; [|discriminate].
      intros H. inversion H; subst. exists e. repeat split. apply verify_ideal. exact V.
    - intros (e & U & -> & -> & O). rewrite U. apply verify_ideal in O. rewrite O. reflexivity.
  Qed.

  (* [s] is a signature value issued by sealing (d0, t0, p0) with key k0 *)
  Definition sealed_with (s : bytes) (k0 : K) (d0 t0 p0 : bytes) : Prop :=
    origin s = Some (k0, make_unsigned d0 t0 p0).

  (* an envelope carrying a sealed signature is accepted iff the domain asked,
     the payload type, the payload and the key are exactly the sealed ones *)
  Theorem envelope_accept_iff_sealed_l : forall b dom k e k0 d0 t0 p0,
    unmarshal b = Some (k, e) -> sealed_with (e_sg e) k0 d0 t0 p0 ->
    ((exists k' t' p', consume b dom = CAccept k' t' p') <->
     (k = k0 /\ dom = d0 /\ e_pt e = t0 /\ e_pl e = p0)) /\
    (forall k' t' p', consume b dom = CAccept k' t' p' ->
       k' = k0 /\ dom = d0 /\ t' = t0 /\ p' = p0).
  Proof.
    intros b dom k e k0 d0 t0 p0 U S. unfold sealed_with in S.
    assert (Hacc : forall k' t' p', consume b dom = CAccept k' t' p' ->
                     k' = k0 /\ dom = d0 /\ t' = t0 /\ p' = p0 /\ k' = k /\ t' = e_pt e /\ p' = e_pl e).
    { intros k' t' p' H. apply consume_accept_iff in H. destruct H as (e' & U' & -> & -> & O).
      rewrite U in U'. injection U' as Hk1 He1. subst k' e'. rewrite S in O. injection O as Hk Hm. subst k0.
      apply make_unsigned_injective_l in Hm. destruct Hm as (-> & -> & ->). repeat split; reflexivity. }
    split; [split|].
    - intros (k' & t' & p' & H). destruct (Hacc _ _ _ H) as (A & B & C & D & E & F & G). subst. repeat split.
    - intros (Hk & Hd & Ht & Hp). subst k0 d0 t0 p0. exists k, (e_pt e), (e_pl e).
      apply consume_accept_iff. exists e. repeat split; [exact U|exact S].
    - intros k' t' p' H. destruct (Hacc _ _ _ H) as (A & B & C & D & _). repeat split; assumption.
  Qed.

  (* Seal then Consume with the right domain accepts, with the sealed content *)
  Theorem seal_then_consume_l : forall kt kd k d t p s,
    env_wf (mkEnv kt kd t p s) -> key_type_ok kt = true -> key_dec kt kd = Some k ->
    sealed_with s k d t p ->
    consume (marshal_envelope (mkEnv kt kd t p s)) d = CAccept k t p.
  Proof.
    intros kt kd k d t p s Hwf Hkt Hkd S. apply consume_accept_iff.
    exists (mkEnv kt kd t p s). repeat split; [|exact S].
    unfold unmarshal_envelope. rewrite parse_marshal_envelope by exact Hwf.
    cbn [e_kt e_kd]. rewrite Hkt, Hkd. reflexivity.
  Qed.

  (* a foreign key, domain, type or payload is rejected *)
  Corollary envelope_reject_foreign : forall b dom k e k0 d0 t0 p0,
    unmarshal b = Some (k, e) -> sealed_with (e_sg e) k0 d0 t0 p0 ->
    (k <> k0 \/ dom <> d0 \/ e_pt e <> t0 \/ e_pl e <> p0) ->
    consume b dom = CBadSignature.
  Proof.
    intros b dom k e k0 d0 t0 p0 U S Hne.
    destruct (envelope_accept_iff_sealed_l b dom k e k0 d0 t0 p0 U S) as [[H1 _] _].
    unfold Model.consume in *. rewrite U in *.
    destruct (verify k (make_unsigned dom (e_pt e) (e_pl e)) (e_sg e)); [|reflexivity].
    exfalso. destruct H1 as (A & B & C & D); [eexists; eexists; eexists; reflexivity|].
    destruct Hne as [N|[N|[N|N]]]; contradiction.
  Qed.

  (* peerstore consumption: accepted only if the record's peer ID is the ID of
     the signing key - and that key and the record are the sealed ones *)
  Theorem peer_record_bound_to_signer_l : forall b dom k rid pl,
    consume_peer_record K key_dec verify id_of b dom = Some (k, rid, pl) ->
    rid = id_of k /\ record_peer_id pl = Some rid /\
    exists t, consume b dom = CAccept k t pl.
  Proof.
    intros b dom k rid pl H. unfold consume_peer_record in H.
    destruct (consume b dom) as [k' t' p'| |] eqn:C; try discriminate.
    destruct (record_peer_id p') as [r|] eqn:R; [|discriminate].
    destruct (bytes_eqb r (id_of k')) eqn:E; [|discriminate].
    inversion H; subst. apply bytes_eqb_eq in E. repeat split; [exact E|exact R|].
    exists t'. reflexivity.
  Qed.

  Corollary peer_record_sealed_l : forall b dom k e k0 d0 t0 p0 k' rid pl,
    unmarshal b = Some (k, e) -> sealed_with (e_sg e) k0 d0 t0 p0 ->
    consume_peer_record K key_dec verify id_of b dom = Some (k', rid, pl) ->
    k' = k0 /\ dom = d0 /\ pl = p0 /\ record_peer_id p0 = Some (id_of k0).
  Proof.
    intros b dom k e k0 d0 t0 p0 k' rid pl U S H.
    apply peer_record_bound_to_signer_l in H. destruct H as (Hr & HR & t & C).
    destruct (envelope_accept_iff_sealed_l b dom k e k0 d0 t0 p0 U S) as [_ H2].
    destruct (H2 _ _ _ C) as (-> & -> & _ & ->). subst rid. repeat split. exact HR.
  Qed.
End Ideal.

(* ---- the monitor accepts every case the model can produce --------------------------- *)
(* The observations of a kind-6 case as the MODEL produces them: ideal
   signatures given by the seal table, the key decoder's answer kdec, accepted
   signer = the canonical bytes of table key kdec. *)
Local Open Scope Z_scope.

Definition model_case6 (mode : Z) (keys : list keyrow) (seals : list sealrow)
           (env dom : bytes) (kdec : Z) : case6 :=
  let pred := consume Z (oracle_key_dec kdec) (table_verify seals) env dom in
  let idk (k : Z) := match key_at keys k with Some kr => k_goid kr | None => [] end in
  let pr := consume_peer_record Z (oracle_key_dec kdec) (table_verify seals) idk env dom in
  mkCase6 mode keys seals env dom 0 0 [] kdec 0 [] []
    (match pred with CAccept _ _ _ => 1 | CBadEnvelope => 0 | CBadSignature => 2 end)
    (match pred with
     | CAccept k _ _ => match key_at keys k with Some kr => k_canon kr | None => [] end
     | _ => []
     end)
    (match pred with CAccept _ pt _ => pt | _ => [] end)
    (match pred with CAccept _ _ pl => pl | _ => [] end)
    (match pred with
     | CAccept k _ _ => match key_at keys k with Some kr => k_goid kr | None => [] end
     | _ => []
     end)
    (match pr with Some _ => 1 | None => 0 end)
    (match pr with Some (_, rid, _) => rid | None => [] end).

(* every key referenced by the seal table exists *)
Definition seals_wf (keys : list keyrow) (seals : list sealrow) : Prop :=
  forall sl, In sl seals -> exists kr, key_at keys (s_kidx sl) = Some kr.

Lemma key_at_in : forall keys k kr, key_at keys k = Some kr -> In kr keys.
Proof.
  intros keys k kr H. unfold key_at in H. destruct (k <? 0); [discriminate|].
  eapply nth_error_In. exact H.
Qed.

Lemma monitor6_intro : forall c,
  (c_res c = 1 -> sealed_as_accepted c = true) ->
  (c_prres c = 1 -> c_res c = 1 /\ id_is_signers c = true) ->
  monitor6 c = [].
Proof.
  intros c H1 H2. unfold monitor6.
  assert (E1 : negb (c_res c =? 1) || sealed_as_accepted c = true).
  { destruct (c_res c =? 1) eqn:E; [|reflexivity]. apply Z.eqb_eq in E. rewrite (H1 E). reflexivity. }
  assert (E2 : negb (c_prres c =? 1) || ((c_res c =? 1) && id_is_signers c) = true).
  { destruct (c_prres c =? 1) eqn:E; [|reflexivity]. apply Z.eqb_eq in E.
    destruct (H2 E) as [A B]. rewrite A, B. reflexivity. }
  cbn [first_fail]. rewrite E1. cbn [first_fail]. rewrite E2. reflexivity.
Qed.

Theorem monitor_accepts_model_l : forall mode keys seals env dom kdec,
  seals_wf keys seals ->
  monitor6 (model_case6 mode keys seals env dom kdec) = [].
Proof.
  intros mode keys seals env dom kdec Hwf. apply monitor6_intro; unfold model_case6;
    cbn [c_res c_prres c_asigner c_apt c_apl c_aid c_dom c_seals c_keys c_recid];
    set (kd := oracle_key_dec kdec); set (vf := table_verify seals);
    set (idk := fun k : Z => match key_at keys k with Some kr => k_goid kr | None => [] end).
  - (* accepted: the seal that made table_verify true is the witness *)
    intros Hres. unfold sealed_as_accepted. cbn [c_res c_prres c_asigner c_apt c_apl c_aid c_dom c_seals c_keys c_recid].
    destruct (consume Z kd vf env dom) as [k pt pl| |] eqn:C; try discriminate.
    unfold consume in C. destruct (unmarshal_envelope Z kd env) as [[k' e]|] eqn:U; [|discriminate].
    destruct (vf k' (make_unsigned dom (e_pt e) (e_pl e)) (e_sg e)) eqn:V; [|discriminate].
    injection C as -> <- <-.
    unfold vf, table_verify in V. apply existsb_exists in V. destruct V as (sl & Hin & Hsl).
    apply andb_true_iff in Hsl. destruct Hsl as [Hsl Hm]. apply andb_true_iff in Hsl. destruct Hsl as [_ Hk].
    apply Z.eqb_eq in Hk. apply bytes_eqb_eq in Hm.
    apply make_unsigned_injective_l in Hm. destruct Hm as (Hd & Ht & Hp).
    destruct (Hwf sl Hin) as (kr & Hkr).
    apply existsb_exists. exists sl. split; [exact Hin|].
    rewrite Hkr. rewrite Hk in Hkr. rewrite Hkr.
    unfold beq. rewrite Hd, Ht, Hp. rewrite !bytes_eqb_refl. reflexivity.
  - (* peerstore accepted: the model checked rid = ID of the accepted key *)
    intros Hpr. unfold consume_peer_record in *.
    destruct (consume Z kd vf env dom) as [k pt pl| |] eqn:C; try discriminate.
    split; [reflexivity|].
    destruct (record_peer_id pl) as [rid|] eqn:R; [|discriminate].
    destruct (bytes_eqb rid (idk k)) eqn:E; [|discriminate].
    unfold id_is_signers. cbn [c_res c_prres c_asigner c_apt c_apl c_aid c_dom c_seals c_keys c_recid].
    apply bytes_eqb_eq in E. unfold idk in E.
    destruct (key_at keys k) as [kr|] eqn:Hkr.
    + apply existsb_exists. exists kr. split; [eapply key_at_in; exact Hkr|].
      unfold beq. rewrite E. rewrite !bytes_eqb_refl. reflexivity.
    + (* the accepted key is outside the table: then table_verify could not have succeeded *)
      exfalso. unfold consume in C. destruct (unmarshal_envelope Z kd env) as [[k' e]|] eqn:U; [|discriminate].
      destruct (vf k' (make_unsigned dom (e_pt e) (e_pl e)) (e_sg e)) eqn:V; [|discriminate].
      injection C as -> <- <-.
      unfold vf, table_verify in V. apply existsb_exists in V. destruct V as (sl & Hin & Hsl).
      apply andb_true_iff in Hsl. destruct Hsl as [Hsl _]. apply andb_true_iff in Hsl. destruct Hsl as [_ Hk].
      apply Z.eqb_eq in Hk. destruct (Hwf sl Hin) as (kr & Hkr'). rewrite Hk in Hkr'. congruence.
Qed.

(* ---- round 4: the peerstores' signed-record path (kind 20) --------------------------------- *)
(* under ANY ideal scheme and for ANY state of the book - whatever bytes sit in the datastore
   or the cache - GetPeerRecord hands out only content whose signature was issued for exactly
   (signer, PeerRecordEnvelopeDomain, payload type, payload) *)
Theorem ps_get_only_sealed_l :
  forall (K : Type) (key_dec : N -> bytes -> option K) (verify : K -> bytes -> bytes -> bool)
         (origin : bytes -> option (K * bytes)),
  (forall k m s, verify k m s = true <-> origin s = Some (k, m)) ->
  forall prdom prcodec p b k pt pl b',
    ps_get K key_dec verify prdom prcodec p b = (Some (k, pt, pl), b') ->
    exists sq raw e, fst (ps_load p b) = Some (sq, raw) /\
      unmarshal_envelope K key_dec raw = Some (k, e) /\ pt = e_pt e /\ pl = e_pl e /\
      origin (e_sg e) = Some (k, make_unsigned prdom pt pl).
Proof.
  intros K key_dec verify origin Hid prdom prcodec p b k pt pl b' H.
  unfold ps_get in H. destruct (ps_load p b) as [cur b1] eqn:L. cbn [fst].
  destruct cur as [[sq raw]|]; [|discriminate].
  destruct (consume K key_dec verify raw prdom) as [k0 pt0 pl0| |] eqn:C; try discriminate.
  destruct (rec_dec prcodec pt0 pl0); [|discriminate].
  injection H as Hk Hpt Hpl _. subst k0 pt0 pl0.
  apply (consume_accept_iff K key_dec verify origin Hid) in C. destruct C as (e & U & Ht & Hp & O).
  exists sq, raw, e. repeat split; assumption.
Qed.

(* an entry whose bytes were edited (payload, type, key or domain differ from what the carried
   signature was issued for) is not handed out *)
Corollary ps_get_edited_is_refused_l :
  forall (K : Type) (key_dec : N -> bytes -> option K) (verify : K -> bytes -> bytes -> bool)
         (origin : bytes -> option (K * bytes)),
  (forall k m s, verify k m s = true <-> origin s = Some (k, m)) ->
  forall prdom prcodec p b sq raw k e k0 d0 t0 p0,
    fst (ps_load p b) = Some (sq, raw) ->
    unmarshal_envelope K key_dec raw = Some (k, e) -> sealed_with K origin (e_sg e) k0 d0 t0 p0 ->
    (k <> k0 \/ prdom <> d0 \/ e_pt e <> t0 \/ e_pl e <> p0) ->
    fst (ps_get K key_dec verify prdom prcodec p b) = None.
Proof.
  intros K key_dec verify origin Hid prdom prcodec p b sq raw k e k0 d0 t0 p0 L U S Hne.
  unfold ps_get. destruct (ps_load p b) as [cur b1]. cbn [fst] in *. subst cur.
  rewrite (envelope_reject_foreign K key_dec verify origin Hid raw prdom k e k0 d0 t0 p0 U S Hne).
  reflexivity.
Qed.

(* the peerstore stores a record only under the ID of the key that signed it *)
Theorem ps_consume_stored_id_is_signers_l :
  forall (K : Type) (key_dec : N -> bytes -> option K) (verify : K -> bytes -> bytes -> bool)
         (id_of : K -> bytes) (key_proto : K -> N * bytes) prdom prcodec env b r rid b',
    ps_consume K key_dec verify id_of key_proto prdom prcodec env b = ((r, 1%N, rid), b') ->
    exists k pt pl, r = CAccept k pt pl /\ consume K key_dec verify env prdom = CAccept k pt pl /\
                    rid = id_of k /\ record_peer_id pl = Some rid.
Proof.
  intros K key_dec verify id_of key_proto prdom prcodec env b r rid b' H.
  unfold ps_consume in H. unfold consume.
  destruct (unmarshal_envelope K key_dec env) as [[k e]|]; [|discriminate].
  destruct (verify k (make_unsigned prdom (e_pt e) (e_pl e)) (e_sg e)); [|discriminate].
  destruct (rec_dec prcodec (e_pt e) (e_pl e)) as [[rid0 sq]|] eqn:R; [|discriminate].
  destruct (bytes_eqb rid0 (id_of k)) eqn:E; [|discriminate].
  destruct (ps_load rid0 b) as [cur b1].
  destruct (sq <? ps_latest cur)%N; [discriminate|].
  destruct (key_proto k) as [kt kd]. injection H as Hr Hrid _. subst r rid.
  exists k, (e_pt e), (e_pl e). apply bytes_eqb_eq in E.
  unfold rec_dec in R. destruct (bytes_eqb (e_pt e) prcodec); [|discriminate].
  destruct (record_peer_id (e_pl e)) as [x|] eqn:RP; [|discriminate]. injection R as Hx _. subst x.
  repeat split. exact E.
Qed.

(* the history as the MODEL produces it *)
Inductive stim20 :=
| St20Consume (env : bytes) | St20Get (p : bytes) | St20Edit (p raw : bytes) | St20Reopen.

Section ModelTrace20.
  Variable keys : list keyrow.
  Variable seals : list sealrow.
  Variable kd : N -> bytes -> option Z.
  Variables prdom prcodec : bytes.

  Definition model_op20 (s : stim20) (b : book) : op20 * book :=
    match s with
    | St20Consume env =>
        let '((r, pr, rid), b') :=
          ps_consume Z kd (table_verify seals) (key_goid keys) (key_proto_of keys) prdom prcodec env b in
        (Op20Consume env
           (match r with CAccept _ _ _ => 1 | CBadEnvelope => 0 | CBadSignature => 2 end)
           (match r with CAccept k _ _ => key_canon keys k | _ => [] end)
           (match r with CAccept _ pt _ => pt | _ => [] end)
           (match r with CAccept _ _ pl => pl | _ => [] end)
           (match r with CAccept k _ _ => key_goid keys k | _ => [] end)
           (Z.of_N pr) rid, b')
    | St20Get p =>
        let '(g, b') := ps_get Z kd (table_verify seals) prdom prcodec p b in
        (match g with
         | Some (k, pt, pl) => Op20Get p 1 (key_canon keys k) pt pl (key_goid keys k) 1
         | None => Op20Get p 0 [] [] [] [] 0
         end, b')
    | St20Edit p raw => (Op20Edit p raw, ps_edit p raw b)
    | St20Reopen => (Op20Reopen, ps_reopen b)
    end.

  Fixpoint model_ops20 (ss : list stim20) (b : book) : list op20 :=
    match ss with
    | [] => []
    | s :: r => let '(o, b') := model_op20 s b in o :: model_ops20 r b'
    end.

  Hypothesis Hwf : seals_wf keys seals.

  (* whatever the ideal table scheme accepts is the content of a seal event, signed by a key of
     the table *)
  Lemma consume_table_sealed : forall b dom k pt pl,
    consume Z kd (table_verify seals) b dom = CAccept k pt pl ->
    (exists kr, key_at keys k = Some kr) /\
    sealed_content keys seals (key_canon keys k) (key_goid keys k) dom pt pl = true.
  Proof.
    intros b dom k pt pl C. unfold consume in C.
    destruct (unmarshal_envelope Z kd b) as [[k' e]|] eqn:U; [|discriminate].
    destruct (table_verify seals k' (make_unsigned dom (e_pt e) (e_pl e)) (e_sg e)) eqn:V; [|discriminate].
    injection C as -> <- <-.
    unfold table_verify in V. apply existsb_exists in V. destruct V as (sl & Hin & Hsl).
    apply andb_true_iff in Hsl. destruct Hsl as [Hsl Hm]. apply andb_true_iff in Hsl. destruct Hsl as [_ Hk].
    apply Z.eqb_eq in Hk. apply bytes_eqb_eq in Hm.
    apply make_unsigned_injective_l in Hm. destruct Hm as (Hd & Ht & Hp).
    destruct (Hwf sl Hin) as (kr & Hkr). rewrite Hk in Hkr.
    split; [exists kr; exact Hkr|].
    unfold sealed_content, key_canon, key_goid. apply existsb_exists. exists sl. split; [exact Hin|].
    rewrite Hk. rewrite Hkr. unfold beq. rewrite Hd, Ht, Hp. rewrite !bytes_eqb_refl. reflexivity.
  Qed.

  Lemma monitor_model_op20 : forall s b, monitor_op20 keys seals prdom (fst (model_op20 s b)) = [].
  Proof.
    intros [env|p|p raw|] b; cbn [model_op20]; try reflexivity.
    - destruct (ps_consume Z kd (table_verify seals) (key_goid keys) (key_proto_of keys) prdom prcodec env b)
        as [[[r pr] rid] b'] eqn:PC. cbn [fst monitor_op20].
      assert (E1 : negb ((match r with CAccept _ _ _ => 1 | CBadEnvelope => 0 | CBadSignature => 2 end) =? 1)
                   || sealed_content keys seals
                        (match r with CAccept k _ _ => key_canon keys k | _ => [] end)
                        (match r with CAccept k _ _ => key_goid keys k | _ => [] end) prdom
                        (match r with CAccept _ pt _ => pt | _ => [] end)
                        (match r with CAccept _ _ pl => pl | _ => [] end) = true).
      { destruct r as [k pt pl| |]; try reflexivity. cbn [Z.eqb Pos.eqb negb orb].
        assert (C : consume Z kd (table_verify seals) env prdom = CAccept k pt pl).
        { unfold ps_consume in PC. unfold consume.
          destruct (unmarshal_envelope Z kd env) as [[k0 e]|]; [|inversion PC].
          destruct (table_verify seals k0 (make_unsigned prdom (e_pt e) (e_pl e)) (e_sg e)); [|inversion PC].
          destruct (rec_dec prcodec (e_pt e) (e_pl e)) as [[rid0 sq]|].
          - destruct (bytes_eqb rid0 (key_goid keys k0)).
            + destruct (ps_load rid0 b) as [cur b1]. destruct (sq <? ps_latest cur)%N.
              * inversion PC; reflexivity.
              * destruct (key_proto_of keys k0). inversion PC; reflexivity.
            + inversion PC; reflexivity.
          - inversion PC; reflexivity. }
        apply consume_table_sealed in C. exact (proj2 C). }
      assert (E2 : negb (Z.of_N pr =? 1)
                   || (((match r with CAccept _ _ _ => 1 | CBadEnvelope => 0 | CBadSignature => 2 end) =? 1)
                       && signer_has_id keys (match r with CAccept k _ _ => key_canon keys k | _ => [] end) rid) = true).
      { destruct (Z.of_N pr =? 1) eqn:Epr; [|reflexivity]. apply Z.eqb_eq in Epr.
        assert (pr = 1%N) by (destruct pr as [|[?|?|]]; cbn in Epr; try discriminate; reflexivity). subst pr.
        apply ps_consume_stored_id_is_signers_l in PC. destruct PC as (k & pt & pl & -> & C & Hrid & _).
        apply consume_table_sealed in C. destruct C as [(kr & Hkr) _].
        cbn [negb orb Z.eqb Pos.eqb andb]. unfold signer_has_id, key_canon. rewrite Hkr.
        apply existsb_exists. exists kr. split; [eapply key_at_in; exact Hkr|].
        subst rid. unfold key_goid. rewrite Hkr. unfold beq. rewrite !bytes_eqb_refl. reflexivity. }
      cbn [first_fail]. rewrite E1. cbn [first_fail]. rewrite E2. reflexivity.
    - destruct (ps_get Z kd (table_verify seals) prdom prcodec p b) as [g b'] eqn:G. cbn [fst].
      destruct g as [[[k pt] pl]|]; [|reflexivity].
      cbn [monitor_op20 Z.eqb Pos.eqb negb orb first_fail].
      assert (C : exists raw, consume Z kd (table_verify seals) raw prdom = CAccept k pt pl).
      { unfold ps_get in G. destruct (ps_load p b) as [cur b1]. destruct cur as [[sq raw]|]; [|inversion G].
        exists raw. destruct (consume Z kd (table_verify seals) raw prdom) as [k0 pt0 pl0| |]; try (inversion G; fail).
        destruct (rec_dec prcodec pt0 pl0); inversion G. reflexivity. }
      destruct C as (raw & C). apply consume_table_sealed in C. rewrite (proj2 C). reflexivity.
  Qed.

  Theorem monitor_accepts_peerstore_model_l : forall ss b,
    monitor_ops20 keys seals prdom (model_ops20 ss b) = [].
  Proof.
    induction ss as [|s r IH]; intros b; [reflexivity|].
    cbn [model_ops20]. pose proof (monitor_model_op20 s b) as M.
    destruct (model_op20 s b) as [o b']. cbn [fst] in M. cbn [monitor_ops20]. rewrite M. apply IH.
  Qed.
End ModelTrace20.

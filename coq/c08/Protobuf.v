(* Protobuf wire format: a scanner that follows google.golang.org/protobuf
   (encoding/protowire + internal/impl/decode.go, v1.36) byte for byte, and the
   canonical encoder for the field kinds libp2p's messages use.  Reusable:
   stdlib + c08.Varint only.

     From Verif Require Import c08.Varint c08.Protobuf.

   Scanner ([pb_fields]): a message is a sequence of (tag, value); tag = uvarint
   (at most 10 bytes / 64 bits, non-minimal accepted), field number = tag / 8
   must be in 1 .. 2^29-1 at message level (1 .. 2^31-1 inside a skipped group),
   wire type = tag mod 8: 0 varint, 1 fixed64, 2 length-delimited, 3 start
   group (skipped up to the matching end group, nested), 4 end group (an error
   at message level), 5 fixed32, 6/7 error.  A known field met with the wrong
   wire type is skipped like an unknown one, so scanning does not depend on the
   schema; the schema is applied afterwards on the field list ([last_varint],
   [last_bytes]: for singular fields the last occurrence wins).
   Not modelled: the recursion limit of 10000 nested groups.

   Main results:
     pb_fields_nil, pb_fields_varint_field, pb_fields_len_field
                    scanning tag ++ value ++ rest = field :: scanning rest
                    (for single-byte tags, i.e. field numbers 1..15)
     consume_len_put_field   reading back a length-delimited value *)
From Coq Require Import List NArith ZArith Lia Bool Arith.
From Verif Require Import c08.Varint.
Import ListNotations.
Local Open Scope N_scope.
Local Ltac Zify.zify_post_hook ::= Z.to_euclidean_division_equations.

Inductive wval :=
| WVarint (v : N)
| WI64 (b : list N)
| WLen (b : list N)
| WI32 (b : list N)
| WGroup.

Definition field := (N * wval)%type.

Definition take_n (n : nat) (b : list N) : option (list N * list N) :=
  if (n <=? length b)%nat then Some (firstn n b, skipn n b) else None.

(* protowire.ConsumeBytes *)
Definition consume_len (b : list N) : option (list N * list N) :=
  match decode_u64 b with
  | Some (m, r) => if m <=? nlen r then take_n (N.to_nat m) r else None
  | None => None
  end.

(* protowire.ConsumeTag with the given bound on the field number *)
Definition consume_tag (maxnum : N) (b : list N) : option (N * N * list N) :=
  match decode_u64 b with
  | Some (v, r) =>
      let num := v / 8 in
      if (1 <=? num) && (num <=? maxnum) then Some (num, v mod 8, r) else None
  | None => None
  end.

Definition max_field_msg : N := 2 ^ 29 - 1.
Definition max_field_group : N := 2 ^ 31 - 1.

(* value of a non-group wire type *)
Definition consume_scalar (wt : N) (b : list N) : option (wval * list N) :=
  match wt with
  | 0 => match decode_u64 b with Some (v, r) => Some (WVarint v, r) | None => None end
  | 1 => match take_n 8 b with Some (x, r) => Some (WI64 x, r) | None => None end
  | 2 => match consume_len b with Some (x, r) => Some (WLen x, r) | None => None end
  | 5 => match take_n 4 b with Some (x, r) => Some (WI32 x, r) | None => None end
  | _ => None
  end.

(* protowire.ConsumeFieldValue for StartGroupType, made iterative with an
   explicit stack of open group numbers; every iteration consumes >= 1 byte *)
Fixpoint skip_group (fuel : nat) (stack : list N) (b : list N) : option (list N) :=
  match fuel with
  | O => None
  | S f =>
      match consume_tag max_field_group b with
      | None => None
      | Some (num, wt, r) =>
          if wt =? 4 then
            match stack with
            | [] => None
            | top :: st =>
                if num =? top
                then match st with [] => Some r | _ => skip_group f st r end
                else None
            end
          else if wt =? 3 then skip_group f (num :: stack) r
          else match consume_scalar wt r with
               | Some (_, r') => skip_group f stack r'
               | None => None
               end
      end
  end.

Fixpoint pb_fields_f (fuel : nat) (b : list N) : option (list field) :=
  match fuel with
  | O => None
  | S f =>
      match b with
      | [] => Some []
      | _ =>
          match consume_tag max_field_msg b with
          | None => None
          | Some (num, wt, r) =>
              if wt =? 4 then None
              else if wt =? 3 then
                match skip_group (S (length r)) [num] r with
                | Some r' =>
                    match pb_fields_f f r' with
                    | Some fs => Some ((num, WGroup) :: fs)
                    | None => None
                    end
                | None => None
                end
              else
                match consume_scalar wt r with
                | Some (v, r') =>
                    match pb_fields_f f r' with
                    | Some fs => Some ((num, v) :: fs)
                    | None => None
                    end
                | None => None
                end
          end
      end
  end.

Definition pb_fields (b : list N) : option (list field) := pb_fields_f (S (length b)) b.

(* ---- schema application -------------------------------------------------- *)
(* singular varint field: last occurrence with wire type 0 wins *)
Fixpoint last_varint (num : N) (fs : list field) (acc : option N) : option N :=
  match fs with
  | [] => acc
  | (n, WVarint v) :: r => last_varint num r (if n =? num then Some v else acc)
  | _ :: r => last_varint num r acc
  end.

(* singular bytes field: last occurrence with wire type 2 wins *)
Fixpoint last_bytes (num : N) (fs : list field) (acc : option (list N)) : option (list N) :=
  match fs with
  | [] => acc
  | (n, WLen v) :: r => last_bytes num r (if n =? num then Some v else acc)
  | _ :: r => last_bytes num r acc
  end.

(* all occurrences of an embedded-message field, in order (they are merged) *)
Fixpoint all_bytes (num : N) (fs : list field) : list (list N) :=
  match fs with
  | [] => []
  | (n, WLen v) :: r => if n =? num then v :: all_bytes num r else all_bytes num r
  | _ :: r => all_bytes num r
  end.

(* ---- canonical encoder --------------------------------------------------- *)
Definition tag (num wt : N) : list N := encode (num * 8 + wt).
Definition put_varint_field (num v : N) : list N := tag num 0 ++ encode v.
Definition put_len_field (num : N) (x : list N) : list N := tag num 2 ++ put_field x.
(* proto3 singular bytes: omitted when empty *)
Definition put_len_field_opt (num : N) (x : list N) : list N :=
  match x with [] => [] | _ => put_len_field num x end.

(* ---- lemmas -------------------------------------------------------------- *)
Lemma take_n_app : forall x r, take_n (length x) (x ++ r) = Some (x, r).
Proof.
  intros x r. unfold take_n. rewrite app_length.
  assert (E : (length x <=? length x + length r)%nat = true) by (apply Nat.leb_le; lia).
  rewrite E. rewrite firstn_app, Nat.sub_diag, firstn_all, firstn_O, app_nil_r.
  rewrite skipn_app, Nat.sub_diag, skipn_all. reflexivity.
Qed.

(* Go slice lengths are below 2^63, hence the hypothesis *)
Lemma consume_len_put_field : forall x r, nlen x < 2 ^ 64 ->
  consume_len (put_field x ++ r) = Some (x, r).
Proof.
  intros x r H. unfold consume_len, put_field. rewrite <- app_assoc.
  rewrite decode_u64_encode by exact H.
  unfold nlen in *. rewrite app_length.
  assert (E : (N.of_nat (length x) <=? N.of_nat (length x + length r)) = true)
    by (apply N.leb_le; lia).
  rewrite E, Nat2N.id. apply take_n_app.
Qed.

Lemma pb_fields_f_nil : forall f, pb_fields_f (S f) [] = Some [].
Proof. reflexivity. Qed.

Lemma pb_fields_nil : pb_fields [] = Some [].
Proof. reflexivity. Qed.

Lemma consume_len_shorter : forall b x r, consume_len b = Some (x, r) -> (length r < length b)%nat.
Proof.
  intros b x r H. unfold consume_len in H.
  destruct (decode_u64 b) as [[m r0]|] eqn:D; [|discriminate].
  apply decode_u64_sound in D. destruct D as [D _]. apply decode_length in D.
  destruct (m <=? nlen r0); [|discriminate]. unfold take_n in H.
  destruct (N.to_nat m <=? length r0)%nat; [|discriminate].
  apply some_pair_inj in H. destruct H as [_ <-]. rewrite skipn_length. lia.
Qed.

Lemma take_n_shorter : forall n b x r, take_n n b = Some (x, r) -> (length r <= length b)%nat.
Proof.
  intros n b x r H. unfold take_n in H. destruct (n <=? length b)%nat; [|discriminate].
  apply some_pair_inj in H. destruct H as [_ <-]. rewrite skipn_length. lia.
Qed.

Lemma consume_scalar_shorter : forall wt b v r,
  consume_scalar wt b = Some (v, r) -> (length r <= length b)%nat.
Proof.
  intros wt b v r H. unfold consume_scalar in H.
  destruct wt as [|p]; [|destruct p as [p|p|]; try destruct p as [p|p|]; try destruct p; try discriminate].
  - destruct (decode_u64 b) as [[m r0]|] eqn:D; [|discriminate].
    apply some_pair_inj in H. destruct H as [_ <-].
    apply decode_u64_sound in D. destruct D as [D _]. apply decode_length in D. lia.
  - destruct (take_n 4 b) as [[x r0]|] eqn:D; [|discriminate].
    apply some_pair_inj in H. destruct H as [_ <-]. eapply take_n_shorter; eauto.
  - destruct (consume_len b) as [[x r0]|] eqn:D; [|discriminate].
    apply some_pair_inj in H. destruct H as [_ <-]. apply consume_len_shorter in D. lia.
  - destruct (take_n 8 b) as [[x r0]|] eqn:D; [|discriminate].
    apply some_pair_inj in H. destruct H as [_ <-]. eapply take_n_shorter; eauto.
Qed.

Lemma consume_tag_shorter : forall mx b num wt r,
  consume_tag mx b = Some (num, wt, r) -> (length r < length b)%nat.
Proof.
  intros mx b num wt r H. unfold consume_tag in H.
  destruct (decode_u64 b) as [[v r0]|] eqn:D; [|discriminate].
  destruct ((1 <=? v / 8) && (v / 8 <=? mx)); [|discriminate].
  inversion H; subst. apply decode_u64_sound in D. destruct D as [D _].
  apply decode_length in D. exact D.
Qed.

Lemma skip_group_shorter : forall fuel stack b r,
  skip_group fuel stack b = Some r -> (length r < length b)%nat.
Proof.
  induction fuel as [|f IH]; intros stack b r H; [discriminate|].
  cbn [skip_group] in H.
  destruct (consume_tag max_field_group b) as [[[num wt] r0]|] eqn:T; [|discriminate].
  apply consume_tag_shorter in T.
  destruct (wt =? 4).
  - destruct stack as [|top st]; [discriminate|]. destruct (num =? top); [|discriminate].
    destruct st.
    + inversion H; subst. exact T.
    + apply IH in H. lia.
  - destruct (wt =? 3).
    + apply IH in H. lia.
    + destruct (consume_scalar wt r0) as [[v r1]|] eqn:S1; [|discriminate].
      apply consume_scalar_shorter in S1. apply IH in H. lia.
Qed.

(* any sufficient fuel gives the same answer *)
Lemma pb_fields_f_enough : forall f1 f2 b,
  (length b < f1)%nat -> (length b < f2)%nat -> pb_fields_f f1 b = pb_fields_f f2 b.
Proof.
  induction f1 as [|f1 IH]; intros f2 b H1 H2; [lia|].
  destruct f2 as [|f2]; [lia|].
  cbn [pb_fields_f]. destruct b as [|b0 b']; [reflexivity|].
  destruct (consume_tag max_field_msg (b0 :: b')) as [[[num wt] r]|] eqn:T; [|reflexivity].
  apply consume_tag_shorter in T.
  destruct (wt =? 4); [reflexivity|].
  destruct (wt =? 3).
  - destruct (skip_group (S (length r)) [num] r) as [r'|] eqn:G; [|reflexivity].
    apply skip_group_shorter in G.
    rewrite (IH f2 r') by lia. reflexivity.
  - destruct (consume_scalar wt r) as [[v r']|] eqn:S1; [|reflexivity].
    apply consume_scalar_shorter in S1.
    rewrite (IH f2 r') by lia. reflexivity.
Qed.

Lemma pb_fields_unfold : forall b0 b',
  pb_fields (b0 :: b') =
  match consume_tag max_field_msg (b0 :: b') with
  | None => None
  | Some (num, wt, r) =>
      if wt =? 4 then None
      else if wt =? 3 then
        match skip_group (S (length r)) [num] r with
        | Some r' => match pb_fields r' with Some fs => Some ((num, WGroup) :: fs) | None => None end
        | None => None
        end
      else
        match consume_scalar wt r with
        | Some (v, r') => match pb_fields r' with Some fs => Some ((num, v) :: fs) | None => None end
        | None => None
        end
  end.
Proof.
  intros b0 b'. unfold pb_fields at 1. cbn [pb_fields_f].
  destruct (consume_tag max_field_msg (b0 :: b')) as [[[num wt] r]|] eqn:T; [|reflexivity].
  apply consume_tag_shorter in T.
  destruct (wt =? 4); [reflexivity|].
  destruct (wt =? 3).
  - destruct (skip_group (S (length r)) [num] r) as [r'|] eqn:G; [|reflexivity].
    apply skip_group_shorter in G. unfold pb_fields.
    rewrite (pb_fields_f_enough (length (b0 :: b')) (S (length r')) r') by (cbn [length] in *; lia).
    reflexivity.
  - destruct (consume_scalar wt r) as [[v r']|] eqn:S1; [|reflexivity].
    apply consume_scalar_shorter in S1. unfold pb_fields.
    rewrite (pb_fields_f_enough (length (b0 :: b')) (S (length r')) r') by (cbn [length] in *; lia).
    reflexivity.
Qed.

(* single-byte tags: field numbers 1..15 *)
Lemma tag_small : forall num wt, num < 16 -> wt < 8 -> tag num wt = [num * 8 + wt].
Proof. intros num wt H1 H2. unfold tag. apply encode_small. lia. Qed.

Lemma consume_tag_small : forall num wt r, 1 <= num -> num < 16 -> wt < 8 ->
  consume_tag max_field_msg ((num * 8 + wt) :: r) = Some (num, wt, r).
Proof.
  intros num wt r H0 H1 H2. unfold consume_tag.
  assert (D : decode_u64 ((num * 8 + wt) :: r) = Some (num * 8 + wt, r)).
  { change ((num * 8 + wt) :: r) with ([num * 8 + wt] ++ r).
    rewrite <- (encode_small (num * 8 + wt)) by lia.
    apply decode_u64_encode. assert (128 < 2 ^ 64) by (vm_compute; reflexivity). lia. }
  rewrite D. cbv zeta.
  replace ((num * 8 + wt) / 8) with num by lia.
  replace ((num * 8 + wt) mod 8) with wt by lia.
  assert (E1 : (1 <=? num) = true) by (apply N.leb_le; lia).
  assert (E2 : (num <=? max_field_msg) = true).
  { apply N.leb_le. assert (16 < max_field_msg) by (vm_compute; reflexivity). lia. }
  rewrite E1, E2. reflexivity.
Qed.

Lemma pb_fields_varint_field : forall num v rest, 1 <= num -> num < 16 -> v < 2 ^ 64 ->
  pb_fields (put_varint_field num v ++ rest) =
  match pb_fields rest with Some fs => Some ((num, WVarint v) :: fs) | None => None end.
Proof.
  intros num v rest H0 H1 Hv. unfold put_varint_field. rewrite tag_small by lia.
  cbn [app]. rewrite pb_fields_unfold. rewrite N.add_0_r.
  replace (num * 8) with (num * 8 + 0) by lia.
  rewrite consume_tag_small by lia. cbn [N.eqb consume_scalar].
  rewrite decode_u64_encode by exact Hv. reflexivity.
Qed.

Lemma pb_fields_len_field : forall num x rest, 1 <= num -> num < 16 -> nlen x < 2 ^ 64 ->
  pb_fields (put_len_field num x ++ rest) =
  match pb_fields rest with Some fs => Some ((num, WLen x) :: fs) | None => None end.
Proof.
  intros num x rest H0 H1 Hx. unfold put_len_field. rewrite tag_small by lia.
  cbn [app]. rewrite pb_fields_unfold.
  rewrite consume_tag_small by lia. cbn [N.eqb Pos.eqb consume_scalar].
  rewrite consume_len_put_field by exact Hx. reflexivity.
Qed.

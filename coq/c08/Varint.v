(* Unsigned varint (LEB128, as used by protobuf, multiformats and Go's
   encoding/binary) on N, as byte lists.  Reusable: stdlib only.

     From Verif Require Import c08.Varint.

   Bytes are [N]; a byte string is [list N]; well-formed bytes are < 256
   ([bytes_ok]).  [encode] never needs that hypothesis, the decoders are total
   on arbitrary lists.

   Main results (all for every n : N, every byte list; by induction):
     encode_unfold        the defining equation of [encode] (fuel hidden)
     encode_bytes_ok      every byte of [encode n] is < 256
     decode_encode        decode (encode n ++ r) = Some (n, r)          (round trip)
     encode_prefix_free   encode a ++ x = encode b ++ y -> a = b /\ x = y
     encode_inj           encode a = encode b -> a = b
     encode_length_le / encode_length_gt
                          length (encode n) <= k  <->  n < 128^k   (k >= 1): minimal length
     decode_consumes      decode l = Some (n, r) -> l = p ++ r with p non-empty
     decode_min_length    ... and length (encode n) <= length p          (no shorter encoding)
     decode_min_iff       decode_min l = Some (n, r) <-> l = encode n ++ r   (canonical decoder)
     decode_bounded_*     the three bounded decoders of the Go code base
                          (encoding/binary.Uvarint and protowire.ConsumeVarint: at most 10
                          bytes and value < 2^64, non-minimal accepted; go-varint.FromUvarint:
                          at most 9 bytes, value < 2^63, minimal only) agree with [decode] /
                          [decode_min] inside their range. *)
From Coq Require Import List NArith ZArith Lia Bool Arith.
Import ListNotations.
Local Open Scope N_scope.
(* let lia see through N.div / N.modulo by constants (local to this file) *)
Local Ltac Zify.zify_post_hook ::= Z.to_euclidean_division_equations.

Definition byte_ok (b : N) : Prop := b < 256.
Definition bytes_ok (l : list N) : Prop := Forall byte_ok l.

(* ---- encoder ------------------------------------------------------------- *)
(* little-endian groups of 7 bits, continuation bit 0x80 on all but the last *)
Fixpoint encode_fuel (fuel : nat) (n : N) : list N :=
  match fuel with
  | O => [n]
  | S f => if n <? 128 then [n] else (n mod 128 + 128) :: encode_fuel f (n / 128)
  end.

Definition encode (n : N) : list N := encode_fuel (S (N.to_nat (N.size n))) n.

(* ---- decoders ------------------------------------------------------------ *)
(* mathematical decoder: any length, non-minimal encodings accepted *)
Fixpoint decode (l : list N) : option (N * list N) :=
  match l with
  | [] => None
  | b :: r =>
      if b <? 128 then Some (b, r)
      else match decode r with
           | Some (v, r') => Some (b mod 128 + 128 * v, r')
           | None => None
           end
  end.

(* canonical decoder: additionally rejects a final group of 0 after at least
   one continuation byte (go-varint's ErrNotMinimal) *)
Fixpoint decode_min_aux (first : bool) (l : list N) : option (N * list N) :=
  match l with
  | [] => None
  | b :: r =>
      if b <? 128 then (if negb first && (b =? 0) then None else Some (b, r))
      else match decode_min_aux false r with
           | Some (v, r') => Some (b mod 128 + 128 * v, r')
           | None => None
           end
  end.
Definition decode_min (l : list N) : option (N * list N) := decode_min_aux true l.

(* number of bytes a successful decode consumed *)
Definition consumed (l r : list N) : N := N.of_nat (length l - length r).

(* encoding/binary.Uvarint and protowire.ConsumeVarint: at most 10 bytes, the
   10th at most 1 (i.e. value < 2^64); non-minimal accepted *)
Definition decode_u64 (l : list N) : option (N * list N) :=
  match decode l with
  | Some (v, r) => if (consumed l r <=? 10) && (v <? 2 ^ 64) then Some (v, r) else None
  | None => None
  end.

(* go-varint.FromUvarint: at most 9 bytes (value < 2^63), minimal only *)
Definition decode_mf (l : list N) : option (N * list N) :=
  match decode_min l with
  | Some (v, r) => if consumed l r <=? 9 then Some (v, r) else None
  | None => None
  end.

(* ---- the defining equation ---------------------------------------------- *)
Lemma some_pair_inj : forall (A B : Type) (a c : A) (b d : B),
  Some (a, b) = Some (c, d) -> a = c /\ b = d.
Proof. intros A B a c b d H. inversion H. split; reflexivity. Qed.

Lemma decode_cons : forall b r,
  decode (b :: r) =
  if b <? 128 then Some (b, r)
  else match decode r with
       | Some (v, r') => Some (b mod 128 + 128 * v, r')
       | None => None
       end.
Proof. reflexivity. Qed.

Lemma decode_min_aux_cons : forall first b r,
  decode_min_aux first (b :: r) =
  if b <? 128 then (if negb first && (b =? 0) then None else Some (b, r))
  else match decode_min_aux false r with
       | Some (v, r') => Some (b mod 128 + 128 * v, r')
       | None => None
       end.
Proof. reflexivity. Qed.

Lemma encode_fuel_enough : forall f1 f2 n,
  n < 128 ^ N.of_nat f1 -> n < 128 ^ N.of_nat f2 ->
  encode_fuel f1 n = encode_fuel f2 n.
Proof.
  induction f1 as [|f1 IH]; intros f2 n H1 H2.
  - simpl in H1. assert (n = 0) by lia. subst n. destruct f2; reflexivity.
  - destruct f2 as [|f2].
    + simpl in H2. assert (n = 0) by lia. subst n. reflexivity.
    + cbn [encode_fuel]. destruct (n <? 128) eqn:E; [reflexivity|].
      f_equal. apply IH.
      * rewrite Nat2N.inj_succ, N.pow_succ_r' in H1. apply N.div_lt_upper_bound; lia.
      * rewrite Nat2N.inj_succ, N.pow_succ_r' in H2. apply N.div_lt_upper_bound; lia.
Qed.

Lemma lt_pow128_size : forall n, n < 128 ^ N.of_nat (S (N.to_nat (N.size n))).
Proof.
  intros n. rewrite Nat2N.inj_succ, N2Nat.id.
  pose proof (N.size_gt n) as H.
  assert (2 ^ N.size n <= 128 ^ N.size n) by (apply N.pow_le_mono_l; lia).
  rewrite N.pow_succ_r'.
  assert (0 < 128 ^ N.size n) by (apply N.neq_0_lt_0, N.pow_nonzero; lia).
  lia.
Qed.

Lemma encode_unfold : forall n,
  encode n = if n <? 128 then [n] else (n mod 128 + 128) :: encode (n / 128).
Proof.
  intros n. unfold encode at 1. cbn [encode_fuel].
  destruct (n <? 128) eqn:E; [reflexivity|]. f_equal.
  apply N.ltb_ge in E. unfold encode. apply encode_fuel_enough.
  - pose proof (lt_pow128_size n) as H.
    rewrite Nat2N.inj_succ, N.pow_succ_r' in H. apply N.div_lt_upper_bound; lia.
  - apply lt_pow128_size.
Qed.

Lemma encode_small : forall n, n < 128 -> encode n = [n].
Proof. intros n H. rewrite encode_unfold. apply N.ltb_lt in H. rewrite H. reflexivity. Qed.

Lemma encode_big : forall n, 128 <= n -> encode n = (n mod 128 + 128) :: encode (n / 128).
Proof. intros n H. rewrite encode_unfold. apply N.ltb_ge in H. rewrite H. reflexivity. Qed.

(* strong induction principle following the recursion of [encode] *)
Lemma varint_ind : forall P : N -> Prop,
  (forall n, n < 128 -> P n) ->
  (forall n, 128 <= n -> P (n / 128) -> P n) ->
  forall n, P n.
Proof.
  intros P Hs Hb n. induction n as [n IH] using (well_founded_induction N.lt_wf_0).
  destruct (N.lt_ge_cases n 128) as [H|H]; [apply Hs, H|].
  apply Hb; [exact H|]. apply IH. apply N.div_lt; lia.
Qed.

Lemma encode_nonempty : forall n, encode n <> [].
Proof. intros n. rewrite encode_unfold. destruct (n <? 128); discriminate. Qed.

Lemma encode_bytes_ok : forall n, bytes_ok (encode n).
Proof.
  apply (varint_ind (fun n => bytes_ok (encode n))).
  - intros n H. rewrite encode_small by exact H. constructor; [unfold byte_ok; lia | constructor].
  - intros n H IH. rewrite encode_big by exact H. constructor; [|exact IH].
    unfold byte_ok. pose proof (N.mod_upper_bound n 128). lia.
Qed.

(* ---- round trip ---------------------------------------------------------- *)
Lemma mod_add128 : forall n, (n mod 128 + 128) mod 128 = n mod 128.
Proof.
  intros n. replace (n mod 128 + 128) with (n mod 128 + 1 * 128) by lia.
  rewrite N.mod_add by lia. apply N.mod_mod. lia.
Qed.

Lemma recompose128 : forall n, n mod 128 + 128 * (n / 128) = n.
Proof. intros n. rewrite (N.div_mod n 128) at 3 by lia. lia. Qed.

Theorem decode_encode : forall n r, decode (encode n ++ r) = Some (n, r).
Proof.
  intros n r. revert n. apply (varint_ind (fun n => decode (encode n ++ r) = Some (n, r))).
  - intros n H. rewrite encode_small by exact H. cbn [app]. rewrite decode_cons.
    apply N.ltb_lt in H. rewrite H. reflexivity.
  - intros n H IH. rewrite encode_big by exact H. cbn [app]. rewrite decode_cons.
    assert (E : (n mod 128 + 128 <? 128) = false) by (apply N.ltb_ge; lia). rewrite E.
    rewrite IH, mod_add128, recompose128. reflexivity.
Qed.

Corollary decode_encode_nil : forall n, decode (encode n) = Some (n, []).
Proof. intros n. rewrite <- (app_nil_r (encode n)). apply decode_encode. Qed.

(* PREFIX-FREENESS: no encoding is a proper prefix of another, and a
   concatenation starting with an encoding splits in exactly one way *)
Theorem encode_prefix_free : forall a b x y,
  encode a ++ x = encode b ++ y -> a = b /\ x = y.
Proof.
  intros a b x y H.
  pose proof (decode_encode a x) as Ha. rewrite H, decode_encode in Ha.
  inversion Ha. split; reflexivity.
Qed.

Corollary encode_inj : forall a b, encode a = encode b -> a = b.
Proof.
  intros a b H. apply (encode_prefix_free a b [] []). rewrite H. reflexivity.
Qed.

(* ---- length -------------------------------------------------------------- *)
Lemma encode_length_pos : forall n, (1 <= length (encode n))%nat.
Proof. intros n. pose proof (encode_nonempty n). destruct (encode n); [congruence|simpl; lia]. Qed.

Theorem encode_length_le : forall k n, (1 <= k)%nat -> n < 128 ^ N.of_nat k ->
  (length (encode n) <= k)%nat.
Proof.
  induction k as [|k IH]; intros n Hk Hn; [lia|].
  destruct (N.lt_ge_cases n 128) as [H|H].
  - rewrite encode_small by exact H. simpl. lia.
  - rewrite encode_big by exact H. cbn [length]. apply le_n_S.
    destruct k as [|k'].
    + simpl in Hn. lia.
    + apply IH; [lia|]. rewrite Nat2N.inj_succ, N.pow_succ_r' in Hn.
      apply N.div_lt_upper_bound; lia.
Qed.

Theorem encode_length_gt : forall k n, 128 ^ N.of_nat k <= n -> (k < length (encode n))%nat.
Proof.
  induction k as [|k IH]; intros n Hn.
  - pose proof (encode_length_pos n). lia.
  - rewrite Nat2N.inj_succ, N.pow_succ_r' in Hn.
    assert (0 < 128 ^ N.of_nat k) by (apply N.neq_0_lt_0, N.pow_nonzero; lia).
    assert (H128 : 128 <= n) by lia.
    rewrite encode_big by exact H128. cbn [length]. apply (proj1 (Nat.succ_lt_mono _ _)). apply IH.
    apply N.div_le_lower_bound; lia.
Qed.

(* ---- what a successful decode consumed ----------------------------------- *)
Lemma decode_consumes : forall l n r, decode l = Some (n, r) ->
  exists p, l = p ++ r /\ p <> [] /\ n < 128 ^ N.of_nat (length p).
Proof.
  induction l as [|b l IH]; intros n r H; [discriminate|].
  rewrite decode_cons in H. destruct (b <? 128) eqn:E.
  - inversion H; subst. exists [n]. apply N.ltb_lt in E. repeat split; [discriminate|simpl; lia].
  - destruct (decode l) as [[v r']|] eqn:D; [|discriminate]. apply some_pair_inj in H. destruct H as [<- <-].
    destruct (IH v r' eq_refl) as (p & Hp & Hne & Hv). exists (b :: p). repeat split.
    + rewrite Hp. reflexivity.
    + discriminate.
    + cbn [length]. rewrite Nat2N.inj_succ, N.pow_succ_r'.
      pose proof (N.mod_upper_bound b 128). lia.
Qed.

(* MINIMAL LENGTH: nothing that decodes to n is shorter than [encode n] *)
Theorem decode_min_length : forall l n r, decode l = Some (n, r) ->
  exists p, l = p ++ r /\ (length (encode n) <= length p)%nat.
Proof.
  intros l n r H. destruct (decode_consumes l n r H) as (p & Hp & Hne & Hn).
  exists p. split; [exact Hp|]. apply encode_length_le; [|exact Hn].
  destruct p; [congruence|simpl; lia].
Qed.

Lemma decode_length : forall l n r, decode l = Some (n, r) -> (length r < length l)%nat.
Proof.
  intros l n r H. destruct (decode_consumes l n r H) as (p & Hp & Hne & _).
  subst l. rewrite app_length. destruct p; [congruence|simpl; lia].
Qed.

(* ---- the canonical decoder accepts exactly the encoder's output ---------- *)
Lemma decode_min_aux_encode : forall n r first, (first = true \/ n <> 0) ->
  decode_min_aux first (encode n ++ r) = Some (n, r).
Proof.
  intros n r. revert n.
  apply (varint_ind (fun n => forall first, first = true \/ n <> 0 ->
                                decode_min_aux first (encode n ++ r) = Some (n, r))).
  - intros n H first Hf. rewrite encode_small by exact H. cbn [app]. rewrite decode_min_aux_cons.
    apply N.ltb_lt in H. rewrite H.
    destruct Hf as [Hf|Hf]; [subst first; reflexivity|].
    apply N.eqb_neq in Hf. rewrite Hf, andb_false_r. reflexivity.
  - intros n H IH first _. rewrite encode_big by exact H. cbn [app]. rewrite decode_min_aux_cons.
    assert (E : (n mod 128 + 128 <? 128) = false) by (apply N.ltb_ge; lia). rewrite E.
    rewrite IH.
    + rewrite mod_add128, recompose128. reflexivity.
    + right. intros Hz. assert (n < 128); [|lia].
      rewrite (N.div_mod n 128) by lia. rewrite Hz. pose proof (N.mod_upper_bound n 128). lia.
Qed.

Lemma decode_min_aux_sound : forall l first n r, bytes_ok l ->
  decode_min_aux first l = Some (n, r) ->
  l = encode n ++ r /\ (first = true \/ n <> 0).
Proof.
  induction l as [|b l IH]; intros first n r Hok H; [discriminate|].
  inversion Hok as [|? ? Hb Hl]; subst. unfold byte_ok in Hb.
  rewrite decode_min_aux_cons in H. destruct (b <? 128) eqn:E.
  - apply N.ltb_lt in E.
    destruct (negb first && (b =? 0)) eqn:G; [discriminate|]. inversion H; subst.
    rewrite encode_small by exact E. split; [reflexivity|].
    destruct first; [left; reflexivity|]. right. cbn in G. apply N.eqb_neq in G. exact G.
  - apply N.ltb_ge in E.
    destruct (decode_min_aux false l) as [[v r']|] eqn:D; [|discriminate]. apply some_pair_inj in H. destruct H as [<- <-].
    destruct (IH false v r' Hl D) as [Hl' Hv]. destruct Hv as [Hv|Hv]; [discriminate|].
    assert (Hmod : b mod 128 = b - 128).
    { replace b with ((b - 128) + 1 * 128) at 1 by lia. rewrite N.mod_add by lia.
      apply N.mod_small. lia. }
    assert (Hbig : 128 <= b mod 128 + 128 * v) by lia.
    split; [|right; lia].
    rewrite (encode_big _ Hbig).
    replace ((b mod 128 + 128 * v) mod 128) with (b mod 128).
    + replace ((b mod 128 + 128 * v) / 128) with v.
      * rewrite Hmod. replace (b - 128 + 128) with b by lia. rewrite Hl'. reflexivity.
      * rewrite N.mul_comm, N.div_add by lia. rewrite N.div_small by (rewrite Hmod; lia). lia.
    + rewrite N.mul_comm, N.mod_add by lia. rewrite N.mod_mod by lia. reflexivity.
Qed.

Theorem decode_min_iff : forall l n r, bytes_ok l ->
  (decode_min l = Some (n, r) <-> l = encode n ++ r).
Proof.
  intros l n r Hok. unfold decode_min. split.
  - intros H. apply (decode_min_aux_sound l true n r Hok H).
  - intros H. subst l. apply decode_min_aux_encode. left. reflexivity.
Qed.

(* the canonical decoder is a restriction of the mathematical one *)
Lemma decode_min_aux_decode : forall l first n r,
  decode_min_aux first l = Some (n, r) -> decode l = Some (n, r).
Proof.
  induction l as [|b l IH]; intros first n r H; [discriminate|].
  rewrite decode_min_aux_cons in H. rewrite decode_cons. destruct (b <? 128).
  - destruct (negb first && (b =? 0)); [discriminate|exact H].
  - destruct (decode_min_aux false l) as [[v r']|] eqn:D; [|discriminate].
    rewrite (IH false v r' D). exact H.
Qed.

(* ---- bounded decoders ---------------------------------------------------- *)
Lemma consumed_app : forall p r, consumed (p ++ r) r = N.of_nat (length p).
Proof. intros p r. unfold consumed. rewrite app_length. f_equal. lia. Qed.

(* inside its range the 64-bit decoder inverts the encoder *)
Theorem decode_u64_encode : forall n r, n < 2 ^ 64 -> decode_u64 (encode n ++ r) = Some (n, r).
Proof.
  intros n r H. unfold decode_u64. rewrite decode_encode, consumed_app.
  assert (L : (length (encode n) <= 10)%nat).
  { apply encode_length_le; [lia|]. eapply N.lt_le_trans; [exact H|]. vm_compute. discriminate. }
  assert (E1 : (N.of_nat (length (encode n)) <=? 10) = true) by (apply N.leb_le; lia).
  apply N.ltb_lt in H. rewrite E1, H. reflexivity.
Qed.

Theorem decode_u64_sound : forall l n r, decode_u64 l = Some (n, r) ->
  decode l = Some (n, r) /\ n < 2 ^ 64.
Proof.
  intros l n r H. unfold decode_u64 in H. destruct (decode l) as [[v r']|]; [|discriminate].
  destruct ((consumed l r' <=? 10) && (v <? 2 ^ 64)) eqn:E; [|discriminate].
  inversion H; subst. apply andb_true_iff in E. destruct E as [_ E]. apply N.ltb_lt in E.
  split; [reflexivity|exact E].
Qed.

(* the multiformats decoder accepts exactly the canonical encodings of values
   below 2^63 *)
Theorem decode_mf_iff : forall l n r, bytes_ok l ->
  (decode_mf l = Some (n, r) <-> l = encode n ++ r /\ n < 2 ^ 63).
Proof.
  intros l n r Hok. unfold decode_mf. split.
  - intros H. destruct (decode_min l) as [[v r']|] eqn:D; [|discriminate].
    destruct (consumed l r' <=? 9) eqn:E; [|discriminate]. inversion H; subst.
    apply (decode_min_iff l n r Hok) in D. split; [exact D|].
    subst l. rewrite consumed_app in E. apply N.leb_le in E.
    destruct (N.lt_ge_cases n (2 ^ 63)) as [Hlt|Hge]; [exact Hlt|].
    assert (9 < length (encode n))%nat; [|lia].
    apply encode_length_gt. eapply N.le_trans; [|exact Hge]. vm_compute. discriminate.
  - intros [H Hn]. apply (decode_min_iff l n r Hok) in H. rewrite H.
    apply (decode_min_iff l n r Hok) in H. subst l. rewrite consumed_app.
    assert (L : (length (encode n) <= 9)%nat).
    { apply encode_length_le; [lia|]. eapply N.lt_le_trans; [exact Hn|]. vm_compute. discriminate. }
    assert (E : (N.of_nat (length (encode n)) <=? 9) = true) by (apply N.leb_le; lia).
    rewrite E. reflexivity.
Qed.

(* ---- length-prefixed fields (the building block of makeUnsigned, multihash,
        protobuf LEN fields) ------------------------------------------------ *)
Definition nlen (l : list N) : N := N.of_nat (length l).

Definition put_field (x : list N) : list N := encode (nlen x) ++ x.

(* read one length-prefixed field with the mathematical decoder *)
Definition take_field (l : list N) : option (list N * list N) :=
  match decode l with
  | Some (n, r) =>
      if n <=? nlen r then Some (firstn (N.to_nat n) r, skipn (N.to_nat n) r) else None
  | None => None
  end.

Theorem take_put_field : forall x rest, take_field (put_field x ++ rest) = Some (x, rest).
Proof.
  intros x rest. unfold take_field, put_field. rewrite <- app_assoc, decode_encode.
  unfold nlen. rewrite app_length.
  assert (E : (N.of_nat (length x) <=? N.of_nat (length x + length rest)) = true)
    by (apply N.leb_le; lia).
  rewrite E, Nat2N.id. rewrite firstn_app, Nat.sub_diag, firstn_all, firstn_O, app_nil_r.
  rewrite skipn_app, Nat.sub_diag, skipn_all. reflexivity.
Qed.

(* a length-prefixed field at the head of a string splits off uniquely, even
   when the field contents themselves look like length prefixes *)
Theorem put_field_prefix_free : forall x y r s,
  put_field x ++ r = put_field y ++ s -> x = y /\ r = s.
Proof.
  intros x y r s H. pose proof (take_put_field x r) as Hx. rewrite H, take_put_field in Hx.
  inversion Hx. split; reflexivity.
Qed.

(* the multiformats decoder inverts the encoder below 2^63 (no hypothesis on the rest) *)
Theorem decode_mf_encode : forall n r, n < 2 ^ 63 -> decode_mf (encode n ++ r) = Some (n, r).
Proof.
  intros n r Hn. unfold decode_mf, decode_min.
  rewrite decode_min_aux_encode by (left; reflexivity). rewrite consumed_app.
  assert (L : (length (encode n) <= 9)%nat).
  { apply encode_length_le; [lia|]. eapply N.lt_le_trans; [exact Hn|]. vm_compute. discriminate. }
  assert (E : (N.of_nat (length (encode n)) <=? 9) = true) by (apply N.leb_le; lia).
  rewrite E. reflexivity.
Qed.

Lemma put_field_bytes_ok : forall x, bytes_ok x -> bytes_ok (put_field x).
Proof. intros x H. unfold put_field. apply Forall_app. split; [apply encode_bytes_ok|exact H]. Qed.

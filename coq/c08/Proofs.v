(* C08 - lemmas about the model (Model.v) over the libraries Varint, Protobuf,
   Digits, Base58, SymCrypto. *)
From Coq Require Import List NArith ZArith Lia Bool Arith.
From Verif Require Import c08.Varint c08.Protobuf c08.Digits c08.Base58 c08.Model.
Import ListNotations.
Local Open Scope N_scope.

(* ---- bytes_eqb -------------------------------------------------------------- *)
Lemma bytes_eqb_eq : forall a b, bytes_eqb a b = true <-> a = b.
Proof.
  induction a as [|x a IH]; intros [|y b]; cbn; split; intro H; try reflexivity; try discriminate.
  - apply andb_true_iff in H. destruct H as [H1 H2]. apply N.eqb_eq in H1. apply IH in H2. congruence.
  - inversion H; subst. rewrite N.eqb_refl. cbn. apply IH. reflexivity.
Qed.

Lemma bytes_eqb_refl : forall a, bytes_eqb a a = true.
Proof. intros a. apply bytes_eqb_eq. reflexivity. Qed.

(* ---- makeUnsigned ------------------------------------------------------------ *)
Lemma parse_make_unsigned : forall d t p, parse_unsigned (make_unsigned d t p) = Some (d, t, p).
Proof.
  intros d t p. unfold parse_unsigned, make_unsigned.
  rewrite take_put_field. rewrite take_put_field.
  rewrite <- (app_nil_r (put_field p)). rewrite take_put_field. reflexivity.
Qed.

Lemma make_unsigned_injective_l : forall d t p d' t' p',
  make_unsigned d t p = make_unsigned d' t' p' -> d = d' /\ t = t' /\ p = p'.
Proof.
  intros d t p d' t' p' H.
  pose proof (parse_make_unsigned d t p) as H1. rewrite H, parse_make_unsigned in H1.
  inversion H1. repeat split; reflexivity.
Qed.
